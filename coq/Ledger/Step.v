(* Ledger model: ValidateBasic of every message, the dispatcher, the transaction rule of baseapp
   (state is written only when ValidateBasic and the handler succeed), begin-block, and runs. *)
From stdpp Require Import gmap.
From RecordUpdate Require Import RecordSet.
From Coq Require Import ZArith NArith List Bool Strings.Byte Strings.String.
Require Import Regen.Base.Bytes Regen.Base.Calendar Regen.Dec.Dec Regen.Ids.Ids Regen.Generated.IdConsts Regen.Generated.LedgerConsts.
Require Import Regen.Ledger.Types Regen.Ledger.Msgs Regen.Ledger.Orm Regen.Ledger.BaseMsgs
               Regen.Ledger.BasketMsgs Regen.Ledger.MarketMsgs.
Import ListNotations RecordSetNotations.
Local Open Scope Z_scope.
Local Open Scope lres_scope.

(* ------------------------------------------------------------------ *)
(* ValidateBasic                                                       *)
(* ------------------------------------------------------------------ *)

Definition len_le (s : bytes) (n : N) : bool := (N.of_nat (List.length s) <=? n)%N.
Definition nonempty (s : bytes) : bool := match s with [] => false | _ => true end.
Definition nonempty_list {A} (l : list A) : bool := match l with [] => false | _ => true end.
Definition is_ok {A} (r : res A) : bool := match r with Ok _ => true | Err _ => false end.

Fixpoint no_dup_addrs (l : list addr) : bool :=
  match l with [] => true | a :: l' => negb (existsb (N.eqb a) l') && no_dup_addrs l' end.

(* limits regenerated from the Go source (Generated/LedgerConsts.v) *)
Definition max_reference_id_length : N := LedgerConsts.max_reference_id_length.
Definition max_reason_len : N := LedgerConsts.max_reason_len.
Definition max_credit_type_name_length : N := LedgerConsts.max_credit_type_name_length.
Definition credit_type_precision : Z := Z.of_N LedgerConsts.credit_type_precision.
Definition basket_descr_max_len : N := LedgerConsts.basket_descr_max_len.

Definition vb_fee (fee : option coin) : bool :=
  match fee with
  | None => true
  | Some c => nonempty (c_denom c) && valid_denom (c_denom c) && (0 <? c_amount c)
  end.

(* the retirement fields are checked only when the retired amount is non-zero *)
Definition vb_retirement (retired : bytes) (jurisdiction reason : bytes) : bool :=
  match non_negative_dec_from_string retired with
  | Ok d => if is_zero d then true else validate_jurisdiction jurisdiction && len_le reason max_note_length
  | Err _ => false
  end.

Definition vb_issuance (i : issuance) : bool :=
  (nonempty (is_tradable i) || nonempty (is_retired i)) &&
  (match is_tradable i with [] => true | t => is_ok (non_negative_dec_from_string t) end) &&
  (match is_retired i with [] => true | r => vb_retirement r (is_jurisdiction i) (is_reason i) end).

Definition vb_origin_tx (o : origin_tx) : bool :=
  nonempty (ot_id o) && validate_origin_tx_id (ot_id o) &&
  nonempty (ot_source o) && validate_origin_tx_source (ot_source o) &&
  (match ot_contract o with [] => true | c => is_valid_eth_address c end) &&
  len_le (ot_note o) max_note_length.

Definition vb_credits (c : credits) : bool :=
  validate_batch_denom (cr_denom c) && nonempty (cr_amount c) && is_ok (positive_dec_from_string (cr_amount c)).

Definition vb_send_credits (c : send_credits) : bool :=
  validate_batch_denom (sc_denom c) &&
  (nonempty (sc_tradable c) || nonempty (sc_retired c)) &&
  is_ok (non_negative_dec_from_string (sc_tradable c)) &&
  vb_retirement (sc_retired c) (sc_jurisdiction c) (sc_reason c).

Definition dates_ordered (a c : option ts) : bool :=
  match a, c with
  | Some x, Some y => negb (ts_after x y)
  | _, _ => false
  end.

Definition vb_date_criteria (d : date_criteria) : bool :=
  match d with
  | DCNone => true
  | DCMinStart t => (LedgerConsts.date_criteria_min_start_seconds <=? secs t) &&
                    (secs t <=? LedgerConsts.date_criteria_max_start_seconds) &&
                    (LedgerConsts.date_criteria_start_nanos_lo <=? nanos t) &&
                    (nanos t <? LedgerConsts.date_criteria_start_nanos_hi)
  | DCWindow ds dn => (LedgerConsts.date_criteria_min_window_seconds <=? ds) &&
                      (ds <=? LedgerConsts.date_criteria_max_window_seconds) &&
                      (LedgerConsts.date_criteria_window_nanos_lo <=? dn) &&
                      (dn <? LedgerConsts.date_criteria_window_nanos_hi)
  | DCYears _ => true
  end.

Definition vb_price (c : option coin) : bool :=
  match c with
  | Some c => nonempty (c_denom c) && valid_denom (c_denom c) && (0 <? c_amount c)
  | None => false
  end.

Definition vb_sell_req (o : sell_req) : bool :=
  validate_batch_denom (sl_denom o) && nonempty (sl_quantity o) &&
  is_ok (positive_dec_from_string (sl_quantity o)) && vb_price (sl_ask o).

Definition vb_update_req (u : update_req) : bool :=
  negb (up_id u =? 0)%N && nonempty (up_quantity u) &&
  is_ok (positive_dec_from_string (up_quantity u)) && vb_price (up_ask u).

Definition vb_buy_req (r : buy_req) : bool :=
  negb (by_id r =? 0)%N && nonempty (by_quantity r) &&
  is_ok (positive_dec_from_string (by_quantity r)) && vb_price (by_bid r) &&
  (if by_disable_auto_retire r then true
   else validate_jurisdiction (by_jurisdiction r) && len_le (by_reason r) max_note_length) &&
  (match by_max_fee r with None => true | Some c => coin_valid c end).

Definition validate_basic (m : msg) : bool :=
  match m with
  | MCreateClass _ issuers metadata ct fee =>
      nonempty_list issuers && no_dup_addrs issuers && len_le metadata max_metadata_length &&
      nonempty ct && validate_credit_type_abbrev ct && vb_fee fee
  | MCreateProject _ class_id metadata jurisdiction reference_id =>
      nonempty class_id && validate_class_id class_id && len_le metadata max_metadata_length &&
      nonempty jurisdiction && validate_jurisdiction jurisdiction && len_le reference_id max_reference_id_length
  | MCreateBatch _ project_id iss metadata start_ end_ _ otx =>
      nonempty project_id && validate_project_id project_id && nonempty_list iss && forallb vb_issuance iss &&
      nonempty metadata && len_le metadata max_metadata_length && dates_ordered start_ end_ &&
      (match otx with None => true | Some o => vb_origin_tx o end)
  | MMintBatchCredits _ denom iss otx =>
      nonempty denom && validate_batch_denom denom && nonempty_list iss && forallb vb_issuance iss &&
      (match otx with None => false | Some o => vb_origin_tx o end)
  | MSealBatch _ denom => nonempty denom && validate_batch_denom denom
  | MSend sender recipient cs =>
      negb (sender =? recipient)%N && nonempty_list cs && forallb vb_send_credits cs
  | MRetire _ cs jurisdiction reason =>
      nonempty_list cs && forallb vb_credits cs && nonempty jurisdiction && validate_jurisdiction jurisdiction &&
      len_le reason max_note_length
  | MCancel _ cs reason =>
      nonempty_list cs && forallb vb_credits cs && nonempty reason && len_le reason max_note_length
  | MUpdateClassAdmin admin class_id new_admin =>
      nonempty class_id && validate_class_id class_id && negb (admin =? new_admin)%N
  | MUpdateClassIssuers _ class_id add remove =>
      nonempty class_id && validate_class_id class_id && (nonempty_list add || nonempty_list remove) &&
      no_dup_addrs add && no_dup_addrs remove
  | MUpdateClassMetadata _ class_id new_metadata =>
      nonempty class_id && validate_class_id class_id && len_le new_metadata max_metadata_length
  | MUpdateProjectAdmin admin project_id new_admin =>
      nonempty project_id && validate_project_id project_id && negb (admin =? new_admin)%N
  | MUpdateProjectMetadata _ project_id new_metadata =>
      nonempty project_id && validate_project_id project_id && len_le new_metadata max_metadata_length
  | MUpdateBatchMetadata _ denom new_metadata =>
      nonempty denom && validate_batch_denom denom && nonempty new_metadata && len_le new_metadata max_metadata_length
  | MBridge _ target recipient cs =>
      nonempty target && nonempty recipient && is_valid_eth_address recipient && nonempty_list cs && forallb vb_credits cs
  | MBridgeReceive _ class_id pj ba otx =>
      nonempty class_id && validate_class_id class_id &&
      (match pj with
       | None => false
       | Some p => nonempty (brp_reference_id p) && len_le (brp_reference_id p) max_reference_id_length &&
                   nonempty (brp_jurisdiction p) && validate_jurisdiction (brp_jurisdiction p) &&
                   nonempty (brp_metadata p) && len_le (brp_metadata p) max_metadata_length
       end) &&
      (match ba with
       | None => false
       | Some x => nonempty (brb_amount x) && is_ok (positive_dec_from_string (brb_amount x)) &&
                   dates_ordered (brb_start x) (brb_end x) &&
                   nonempty (brb_metadata x) && len_le (brb_metadata x) max_metadata_length
       end) &&
      (match otx with
       | None => false
       | Some o => is_valid_eth_tx_hash (ot_id o) && nonempty (ot_source o) && nonempty (ot_contract o) && vb_origin_tx o
       end)
  | MAddCreditType _ abbrev name unit_ precision =>
      nonempty abbrev && validate_credit_type_abbrev abbrev && nonempty name && len_le name max_credit_type_name_length &&
      nonempty unit_ && (precision =? credit_type_precision)
  | MSetClassCreatorAllowlist _ _ | MAddClassCreator _ _ | MRemoveClassCreator _ _ => true
  | MUpdateClassFee _ fee | MUpdateBasketFee _ fee => match fee with None => true | Some c => coin_valid c end
  | MAddAllowedBridgeChain _ chain | MRemoveAllowedBridgeChain _ chain => nonempty chain
  | MBurnRegen _ amount reason =>
      (match parse_sdk_int amount with Some a => 0 <? a | None => false end) && len_le reason max_reason_len
  | MBasketCreate _ name description _ ct allowed criteria fee =>
      nonempty name && validate_basket_name name && len_le description basket_descr_max_len &&
      nonempty ct && validate_credit_type_abbrev ct && nonempty_list allowed &&
      forallb (fun c => nonempty c && validate_class_id c) allowed && vb_date_criteria criteria &&
      (List.length fee <=? 1)%nat && coins_valid fee
  | MPut _ basket_denom cs =>
      nonempty basket_denom && validate_basket_denom basket_denom && nonempty_list cs &&
      forallb (fun c => nonempty (bcr_denom c) && validate_batch_denom (bcr_denom c) && nonempty (bcr_amount c) &&
                        is_ok (positive_dec_from_string (bcr_amount c))) cs
  | MTake _ basket_denom amount location retire jurisdiction reason =>
      nonempty basket_denom && validate_basket_denom basket_denom && nonempty amount &&
      (match parse_sdk_int amount with Some a => 0 <? a | None => false end) &&
      (if retire then
         (nonempty location || nonempty jurisdiction) &&
         (match location with [] => true | l => validate_jurisdiction l end) &&
         (match jurisdiction with [] => true | j => validate_jurisdiction j end) &&
         len_le reason max_note_length
       else true)
  | MUpdateCurator curator denom new_curator =>
      negb (curator =? new_curator)%N && nonempty denom && validate_basket_denom denom
  | MUpdateDateCriteria _ denom criteria =>
      nonempty denom && validate_basket_denom denom && vb_date_criteria criteria
  | MSell _ orders => nonempty_list orders && forallb vb_sell_req orders
  | MUpdateSellOrders _ updates => nonempty_list updates && forallb vb_update_req updates
  | MCancelSellOrder _ id => negb (id =? 0)%N
  | MBuyDirect _ orders => nonempty_list orders && forallb vb_buy_req orders
  | MAddAllowedDenom _ bank_denom display_denom exponent =>
      nonempty bank_denom && valid_denom bank_denom && nonempty display_denom && valid_denom display_denom &&
      (match exponent_to_prefix (Z.to_N exponent) with Some _ => true | None => false end)
  | MRemoveAllowedDenom _ denom => nonempty denom && valid_denom denom
  | MGovSetFeeParams _ fees =>
      match fees with
      | None => false
      | Some fp =>
          is_ok (non_negative_dec_from_string (fp_buyer fp)) &&
          (match non_negative_dec_from_string (fp_seller fp) with
           | Ok d => negb (match cmp d (mkDec false 1 0) with Gt => true | _ => false end)
           | Err _ => false
           end)
      end
  | MGovSendFromFeePool _ _ coins => nonempty_list coins && coins_valid coins
  | MBankSend _ _ coins => coins_valid coins && nonempty_list coins
  | MUnimplemented _ => true
  end.

(* ------------------------------------------------------------------ *)
(* dispatcher                                                          *)
(* ------------------------------------------------------------------ *)

Definition handle (e : env) (s : state) (m : msg) : hres :=
  match m with
  | MCreateClass admin issuers metadata ct fee => h_create_class e s admin issuers metadata ct fee
  | MCreateProject admin class_id metadata jurisdiction reference_id =>
      h_create_project e s admin class_id metadata jurisdiction reference_id
  | MCreateBatch issuer project_id iss metadata start_ end_ open otx =>
      h_create_batch e s issuer project_id iss metadata start_ end_ open otx
  | MMintBatchCredits issuer denom iss otx => h_mint_batch_credits e s issuer denom iss otx
  | MSealBatch issuer denom => h_seal_batch e s issuer denom
  | MSend sender recipient cs => h_send e s sender recipient cs
  | MRetire owner cs _ _ => h_retire e s owner cs
  | MCancel owner cs _ => h_cancel e s owner cs
  | MUpdateClassAdmin admin class_id new_admin => h_update_class_admin e s admin class_id new_admin
  | MUpdateClassIssuers admin class_id add remove => h_update_class_issuers e s admin class_id add remove
  | MUpdateClassMetadata admin class_id md => h_update_class_metadata e s admin class_id md
  | MUpdateProjectAdmin admin project_id new_admin => h_update_project_admin e s admin project_id new_admin
  | MUpdateProjectMetadata admin project_id md => h_update_project_metadata e s admin project_id md
  | MUpdateBatchMetadata issuer denom md => h_update_batch_metadata e s issuer denom md
  | MBridge owner target recipient cs => h_bridge e s owner target recipient cs
  | MBridgeReceive issuer class_id pj ba otx => h_bridge_receive e s issuer class_id pj ba otx
  | MAddCreditType a abbrev name unit_ precision => h_add_credit_type e s a abbrev name unit_ precision
  | MSetClassCreatorAllowlist a enabled => h_set_allowlist e s a enabled
  | MAddClassCreator a c => h_add_class_creator e s a c
  | MRemoveClassCreator a c => h_remove_class_creator e s a c
  | MUpdateClassFee a fee => h_update_class_fee e s a fee
  | MAddAllowedBridgeChain a chain => h_add_allowed_bridge_chain e s a chain
  | MRemoveAllowedBridgeChain a chain => h_remove_allowed_bridge_chain e s a chain
  | MBurnRegen burner amount _ => h_burn_regen e s burner amount
  | MBasketCreate curator name _ dar ct allowed criteria fee => h_basket_create e s curator name dar ct allowed criteria fee
  | MPut owner basket_denom cs => h_put e s owner basket_denom cs
  | MTake owner basket_denom amount _ retire _ _ => h_take e s owner basket_denom amount retire
  | MUpdateBasketFee a fee => h_update_basket_fee e s a fee
  | MUpdateCurator curator denom new_curator => h_update_curator e s curator denom new_curator
  | MUpdateDateCriteria a denom criteria => h_update_date_criteria e s a denom criteria
  | MSell seller orders => h_sell e s seller orders
  | MUpdateSellOrders seller updates => h_update_sell_orders e s seller updates
  | MCancelSellOrder seller id => h_cancel_sell_order e s seller id
  | MBuyDirect buyer orders => h_buy_direct e s buyer orders
  | MAddAllowedDenom a bank_denom display_denom exponent => h_add_allowed_denom e s a bank_denom display_denom exponent
  | MRemoveAllowedDenom a denom => h_remove_allowed_denom e s a denom
  | MGovSetFeeParams a fees => h_gov_set_fee_params e s a fees
  | MGovSendFromFeePool a recipient coins => h_gov_send_from_fee_pool e s a recipient coins
  | MBankSend from to coins =>
      if blocked_addr to then LErr LUnauthorized else s' <- send_coins from to coins s ;; ret s' REmpty
  | MUnimplemented _ => LErr LUnimplemented
  end.

(* ------------------------------------------------------------------ *)
(* transaction rule, blocks, runs                                      *)
(* ------------------------------------------------------------------ *)

Inductive outcome := OOk (r : response) (evs : list event) | OFail (e : lerr) | OInvalid.

(* baseapp.runTx: ValidateBasic, then the handler on a cache-wrapped store that is written back only
   on success *)
Definition deliver (e : env) (s : state) (m : msg) : state * outcome :=
  if validate_basic m then
    match handle e s m with
    | LOk (s', r, evs) => (s', OOk r evs)
    | LErr err => (s, OFail err)
    end
  else (s, OInvalid).

(* BeginBlock: the module panics when pruning returns an error (chain halt) *)
Definition begin_block (t : ts) (s : state) : lres state := prune_sell_orders t s.

Record block := { blk_time : ts; blk_msgs : list msg }.

Definition run_block (authority : addr) (s : state) (bl : block) : lres state :=
  s <- begin_block (blk_time bl) s ;;
  LOk (fold_left (fun s m => (deliver {| e_time := blk_time bl; e_authority := authority |} s m).1) (blk_msgs bl) s).

Definition run (authority : addr) (s : state) (h : list block) : lres state :=
  lfold (run_block authority) h s.
