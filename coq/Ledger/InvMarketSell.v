(* Marketplace proofs: CancelSellOrder, Sell, and the governance handlers. *)
From stdpp Require Import gmap.
From RecordUpdate Require Import RecordSet.
From Coq Require Import ZArith NArith List Bool Lia Strings.Byte.
Require Import Regen.Base.Bytes Regen.Base.Calendar Regen.Dec.Dec.
Require Import Regen.Ledger.Types Regen.Ledger.Msgs Regen.Ledger.Orm Regen.Ledger.BaseMsgs
               Regen.Ledger.BasketMsgs Regen.Ledger.MarketMsgs Regen.Ledger.Step
               Regen.Ledger.Amount Regen.Ledger.MapSum Regen.Ledger.Inv Regen.Ledger.InvTactics
               Regen.Ledger.InvMarketLib Regen.Ledger.InvMarketPrim Regen.Ledger.InvMarketOrders.
Import ListNotations RecordSetNotations.
Local Open Scope Z_scope.

(* ------------------------------------------------------------------ *)
(* a balance row rewrite that moves d units from escrowed to tradable  *)
(* (d < 0: from tradable to escrowed)                                  *)
(* ------------------------------------------------------------------ *)

Lemma move_row a k b b' d s s' :
  Inv_sk s -> Inv_cons s -> Inv_escrow s ->
  balances s !! (a, k) = Some b -> wr_bal a k b' s s' -> balance_ok b' ->
  U (bl_tradable b') = U (bl_tradable b) + d -> U (bl_escrowed b') = U (bl_escrowed b) - d ->
  bl_retired b' = bl_retired b ->
  Inv_sk s' /\ Inv_cons s' /\ esc_off s' (bump2 a k (- d) (fun _ _ => 0)) /\ mframe s s'.
Proof.
  intros Hsk Hcons Hesc Hb Hw Hok Ht He Hr.
  pose proof (get_balance_Some _ _ _ _ Hb) as Hgb.
  assert (Hbk : is_Some (batches s !! k)).
  { destruct Hsk as (_ & _ & (_ & _ & Hk3 & _)). eapply Hk3. exact Hb. }
  split; [eapply sk_wr_bal; eassumption|]. split; [|split].
  - pose proof (cons_off_wr_bal _ _ _ _ _ _ _ Hw (cons_off_intro _ Hcons)) as Hc.
    eapply cons_off_elim; [exact Hc | |]; intros k0; unfold bump; rewrite Hgb;
      unfold tradable_escrowed, retired_of; rewrite ?Hr; destruct (k0 =? k)%N; lia.
  - pose proof (esc_off_wr_bal _ _ _ _ _ _ Hw (esc_off_intro _ Hesc)) as Hf.
    intros a0 k0. rewrite (Hf a0 k0). unfold bump2. rewrite Hgb. destruct (decide _); lia.
  - eapply mframe_wr_bal; [exact Hw|]. rewrite Hgb, Hr. lia.
Qed.

(* ------------------------------------------------------------------ *)
(* CancelSellOrder                                                     *)
(* ------------------------------------------------------------------ *)

Lemma cancel_step e s seller id s' r evs :
  Inv_core s -> h_cancel_sell_order e s seller id = LOk (s', r, evs) -> step_ok s s'.
Proof.
  intros Hcore H. apply Inv_core_split in Hcore. destruct Hcore as (Hsk & Hcons & Hesc).
  unfold h_cancel_sell_order in H.
  lstep H as o Ho. lstep H as u Hu. lstep H as s1 Hs1. unfold ret in H. inversion H; subst s' r evs; clear H.
  apply N.eqb_eq in Hu.
  pose proof Hsk as (_ & Hscale & _).
  destruct Hscale as (Hsc1 & Hsc2 & Hsc3 & Hsc4).
  destruct (Hsc4 _ _ Ho) as (d & Hp & Hin & Hpos).
  destruct (unescrow_spec _ _ _ _ _ _ (conj Hsc1 (conj Hsc2 (conj Hsc3 Hsc4))) Hp Hin Hs1)
    as (b & b' & Hb & Hw & Hok & Ht & He & Hr).
  destruct (move_row _ _ _ _ (U d) _ _ Hsk Hcons Hesc Hb Hw Hok Ht He Hr) as (Hsk1 & Hcons1 & Hesc1 & Hmf1).
  set (s2 := s1 <| sell_orders := delete id (sell_orders s1) |>).
  assert (Hd : del_ord id s1 s2) by reflexivity.
  assert (Hso : sell_orders s1 = sell_orders s) by (rewrite Hw; reflexivity).
  split; [apply Inv_core_split; split; [eapply sk_del_ord; eassumption|]; split|split; [|split]].
  - eapply cons_off_elim; [eapply cons_off_orders; [| | | |apply cons_off_intro; exact Hcons1] | |]; try reflexivity.
  - pose proof (esc_off_del_ord _ _ _ _ Hd Hesc1) as Hf. eapply esc_off_elim; [exact Hf|].
    intros a0 k0. cbv beta. rewrite Hso, Ho. rewrite ofun_cases. unfold bump2. rewrite Hu.
    rewrite (order_units_parse _ _ Hp). destruct (decide _); lia.
  - eapply mframe_trans; [exact Hmf1|]. apply mframe_triv; try reflexivity.
  - unfold wr_bal in Hw. subst s1. unfold s2. apply Inv_orders_sub; try reflexivity.
    intros id0 o0 H0. cbn in H0. apply lookup_delete_Some in H0. apply H0.
  - apply Inv_qty_sub. intros id0 o0 H0. unfold s2 in H0. cbn in H0. rewrite Hso in H0.
    apply lookup_delete_Some in H0. apply H0.
Qed.

(* ------------------------------------------------------------------ *)
(* Sell                                                                *)
(* ------------------------------------------------------------------ *)

Lemma vb_price_pos c ask : vb_price c = true -> c = Some ask -> 0 < c_amount ask.
Proof.
  intros H ->. unfold vb_price in H. apply andb_true_iff in H. destruct H as [_ H]. apply Z.ltb_lt in H. exact H.
Qed.

Lemma sell_one_step e seller s ids o s' ids' :
  Inv_core s -> Inv_bound s -> vb_sell_req o = true ->
  sell_one e seller (s, ids) o = LOk (s', ids') -> step_ok s s'.
Proof.
  intros Hcore Hbound Hvb H. unfold sell_one in H.
  lstep H as p Hp. destruct p as [bk ba].
  lstep H as p2 Hp2. destruct p2 as [abbrev ct].
  lstep H as ask Hask.
  destruct (get_or_create_market abbrev (c_denom ask) s) as [s1 mid] eqn:Eg.
  lstep H as u1 Hu1. lstep H as q Hq. lstep H as s2 Hs2. lstep H as u2 Hu2.
  inversion H; subst s' ids'; clear H.
  apply batch_by_denom_Some in Hp. destruct Hp as [Hba Hden].
  pose proof Hcore as (Hct & _).
  rewrite (ct_abbrev_of_denom_precision _ _ _ _ Hct Hp2) in Hq.
  apply posfixed_spec in Hq. destruct Hq as (Hparse & Hqok & Hqpos).
  destruct (gocm_spec _ _ _ _ _ Eg) as (Hs1 & (mk & Hmk & Hmkct & Hmkd) & Hgrow).
  pose proof (markets_change_fields _ _ Hs1) as (F1 & F2 & F3 & F4 & F5 & F6 & F7 & F8 & F9).
  pose proof (Inv_core_core_eq _ _ (markets_change_core_eq _ _ Hs1) Hcore) as Hcore1.
  pose proof (te_bound s1 seller bk Hcore1 (Inv_bound_core_eq _ _ (markets_change_core_eq _ _ Hs1) Hbound)) as Hte.
  apply Inv_core_split in Hcore1. destruct Hcore1 as (Hsk1 & Hcons1 & Hesc1).
  pose proof Hsk1 as (_ & Hscale1 & Hkeys1).
  destruct (escrow_spec _ _ _ _ _ Hscale1 Hqok Hs2) as (b & b' & Hb & Hw & Hok & Ht & He & Hr).
  destruct (move_row _ _ _ _ (- U q) _ _ Hsk1 Hcons1 Hesc1 Hb Hw Hok ltac:(lia) ltac:(lia) Hr)
    as (Hsk2 & Hcons2 & Hesc2 & Hmf2).
  (* the stored quantity is the plain rendering of q, which parses again *)
  assert (Hqb : U q < BOUND).
  { rewrite (get_balance_Some _ _ _ _ Hb) in Hte. destruct Hok as (Hok1 & _ & _).
    destruct (Hscale1) as (Hrows & _). destruct (Hrows _ _ Hb) as (_ & _ & Hbe).
    pose proof (in_ok_U_nonneg _ (stored_in_ok _ Hok1)). pose proof (in_ok_U_nonneg _ (stored_in_ok _ Hbe)). lia. }
  destruct (reparse_units q Hqok Hqb) as (q' & Hq'p & Hq'ok & HUq' & Hq'e).
  assert (Hso2 : sell_orders s2 = sell_orders s1) by (rewrite Hw; reflexivity).
  assert (Hsq2 : sell_order_seq_id s2 = sell_order_seq_id s1) by (rewrite Hw; reflexivity).
  assert (Hbt2 : batches s2 = batches s1) by (rewrite Hw; reflexivity).
  set (id := (sell_order_seq_id s2 + 1)%N).
  set (o' := {| so_seller := seller; so_batch_key := bk; so_quantity := to_string q; so_market_id := mid;
                so_ask_amount := c_amount ask; so_disable_auto_retire := sl_disable_auto_retire o;
                so_expiration := sl_expiration o; so_maker := true |}).
  set (s3 := s2 <| sell_orders := <[id := o']> (sell_orders s2) |> <| sell_order_seq_id := id |>).
  assert (Hoo : order_ok o') by (exists q'; cbn [so_quantity o']; split; [exact Hq'p | split; [exact Hq'ok | lia]]).
  assert (Hou : order_units o' = U q) by (rewrite (order_units_parse o' q' Hq'p); exact HUq').
  assert (Hfresh : sell_orders s2 !! id = None) by (apply next_order_fresh; apply Hsk2).
  split; [apply Inv_core_split; split; [|split]|split; [|split]].
  - eapply (sk_new_ord o' s2 s3); [reflexivity | exact Hoo | | exact Hsk2].
    cbn [so_batch_key o']. rewrite Hbt2, F5, Hba. eauto.
  - eapply cons_off_elim; [eapply (cons_off_orders s2 s3); [| | | |apply cons_off_intro; exact Hcons2] | |]; reflexivity.
  - pose proof (esc_off_new_ord id o' s2 s3 _ eq_refl Hfresh Hesc2) as Hf. eapply esc_off_elim; [exact Hf|].
    intros a0 k0. cbv beta. rewrite ofun_cases. cbn [so_seller so_batch_key o']. rewrite Hou. unfold bump2.
    destruct (decide _); lia.
  - eapply mframe_trans; [apply markets_change_mframe; exact Hs1|].
    eapply mframe_trans; [exact Hmf2|]. apply mframe_triv; try reflexivity.
  - intros Hio. destruct (Hgrow (proj2 Hio)) as [Hg Hkb].
    assert (Hm3 : markets s3 = markets s1) by (unfold s3; rewrite Hw; reflexivity).
    assert (Hq3 : market_seq_id s3 = market_seq_id s1) by (unfold s3; rewrite Hw; reflexivity).
    assert (Hb3 : batches s3 = batches s) by (unfold s3; cbn; rewrite Hbt2; exact F5).
    assert (Hc3 : classes s3 = classes s) by (unfold s3; rewrite Hw; cbn; exact F6).
    assert (Ht3 : credit_types s3 = credit_types s) by (unfold s3; rewrite Hw; cbn; exact F7).
    apply (Inv_orders_transfer s s3); try assumption.
    + intros k0 mk0 H0. rewrite Hm3. apply Hg. exact H0.
    + rewrite Hm3, Hq3. exact Hkb.
    + intros id0 o0 H0. unfold s3 in H0. cbn in H0. apply lookup_insert_Some in H0.
      destruct H0 as [[_ <-]|[_ H0]].
      * left. split; [cbn [so_ask_amount o']; eapply vb_price_pos; [|exact Hask]|].
        { unfold vb_sell_req in Hvb. apply andb_true_iff in Hvb. apply Hvb. }
        exists mk, ba, ct. cbn [so_market_id so_batch_key o']. rewrite Hm3, Hb3, Hmkct.
        split; [exact Hmk|]. split; [exact Hba|].
        rewrite (ct_abbrev_of_denom_ext s s3 _ Hc3 Ht3). exact Hp2.
      * right. exists id0, o0. rewrite Hso2, F4 in H0. split; [exact H0 | unfold order_sim; tauto].
  - apply Inv_qty_transfer. intros id0 o0 H0. unfold s3 in H0. cbn in H0. apply lookup_insert_Some in H0.
    destruct H0 as [[_ <-]|[_ H0]].
    + left. exists q'. cbn [so_quantity o']. tauto.
    + right. exists id0, o0. rewrite Hso2, F4 in H0. tauto.
Qed.

Lemma h_sell_step e s seller orders s' r evs :
  Inv_core s -> Inv_bound s -> forallb vb_sell_req orders = true ->
  h_sell e s seller orders = LOk (s', r, evs) -> step_ok s s'.
Proof.
  intros Hcore Hbound Hvb H. unfold h_sell in H. lstep H as acc Hacc. destruct acc as [s1 ids].
  unfold ret in H. inversion H; subst s' r evs; clear H.
  pose (Pr := fun acc : state * list N => Inv_core acc.1 /\ Inv_bound acc.1 /\ step_ok s acc.1).
  assert (HP : Pr (s1, ids)).
  { apply (lfold_inv Pr (sell_one e seller) orders (s, []) (s1, ids)); [| |exact Hacc].
    - intros [a ia] x [a' ia'] Hin (P1 & P2 & P3) Hf. cbn [fst] in *.
      assert (Hx : vb_sell_req x = true) by (eapply forallb_forall in Hvb; [exact Hvb | exact Hin]).
      pose proof (sell_one_step _ _ _ _ _ _ _ P1 P2 Hx Hf) as Hs.
      split; [apply Hs|]. split; [eapply mframe_bound; [apply Hs | exact P2] | eapply step_ok_trans; eassumption].
    - split; [exact Hcore|]. split; [exact Hbound | apply step_ok_refl; exact Hcore]. }
  apply HP.
Qed.

(* ------------------------------------------------------------------ *)
(* governance                                                          *)
(* ------------------------------------------------------------------ *)

Lemma step_ok_passive s s' :
  s' = s <| allowed_denoms := allowed_denoms s' |> <| fee_params_ := fee_params_ s' |> <| bank := bank s' |> ->
  Inv_core s -> step_ok s s'.
Proof.
  intros H Hc.
  assert (Hmo : market_only s s').
  { unfold market_only, mk_frame. destruct s, s'. cbn in *. inversion H. subst. reflexivity. }
  split; [|split; [|split]].
  - eapply Inv_core_core_eq; [|exact Hc]. rewrite H. unfold core_eq. cbn. tauto.
  - apply mframe_triv; [exact Hmo | | |]; rewrite H; reflexivity.
  - apply Inv_orders_sub; try (rewrite H; reflexivity). intros id o. rewrite H. cbn. tauto.
  - apply Inv_qty_sub. intros id o. rewrite H. cbn. tauto.
Qed.

Lemma add_allowed_denom_step e s a bd dd ex s' r evs :
  Inv_core s -> h_add_allowed_denom e s a bd dd ex = LOk (s', r, evs) -> step_ok s s'.
Proof.
  intros Hc H. unfold h_add_allowed_denom in H. lstep H as u1 H1. lstep H as u2 H2. lstep H as u3 H3.
  unfold ret in H. inversion H; subst. apply step_ok_passive; [|exact Hc]. destruct s. reflexivity.
Qed.

Lemma remove_allowed_denom_step e s a d s' r evs :
  Inv_core s -> h_remove_allowed_denom e s a d = LOk (s', r, evs) -> step_ok s s'.
Proof.
  intros Hc H. unfold h_remove_allowed_denom in H. lstep H as u1 H1. lstep H as u2 H2.
  unfold ret in H. inversion H; subst. apply step_ok_passive; [|exact Hc]. destruct s. reflexivity.
Qed.

Lemma gov_set_fee_params_step e s a fees s' r evs :
  Inv_core s -> h_gov_set_fee_params e s a fees = LOk (s', r, evs) -> step_ok s s'.
Proof.
  intros Hc H. unfold h_gov_set_fee_params in H. lstep H as u1 H1. lstep H as fp H2.
  unfold ret in H. inversion H; subst. apply step_ok_passive; [|exact Hc]. destruct s. reflexivity.
Qed.

Lemma send_coins_passive f t cs s s' :
  send_coins f t cs s = LOk s' ->
  s' = s <| allowed_denoms := allowed_denoms s' |> <| fee_params_ := fee_params_ s' |> <| bank := bank s' |>.
Proof.
  intros H. apply send_coins_only in H. destruct H as [H1 H2]. unfold bank_only in H1.
  destruct s, s'. cbn in *. inversion H1. subst. reflexivity.
Qed.

Lemma gov_send_from_fee_pool_step e s a rcp coins s' r evs :
  Inv_core s -> h_gov_send_from_fee_pool e s a rcp coins = LOk (s', r, evs) -> step_ok s s'.
Proof.
  intros Hc H. unfold h_gov_send_from_fee_pool in H. lstep H as u1 H1. lstep H as s1 H2.
  unfold ret in H. inversion H; subst. apply step_ok_passive; [|exact Hc].
  unfold send_coins_from_module_to_account in H2. destruct (blocked_addr rcp); [discriminate|].
  eapply send_coins_passive. exact H2.
Qed.
