(* The hypotheses of the theorems of InvBase.v are jointly satisfiable, for every base credit
   message: a concrete state satisfying Inv_core, and a sequence of messages (one of each kind) that
   pass ValidateBasic and whose handlers all succeed from it (checked by vm_compute).  Proof file. *)
From stdpp Require Import gmap.
From RecordUpdate Require Import RecordSet.
From Coq Require Import ZArith NArith List Bool Lia Strings.Byte Strings.String.
Require Import Regen.Base.Bytes Regen.Base.Calendar Regen.Dec.Dec Regen.Dec.DecIface.
Require Import Regen.Ledger.Types Regen.Ledger.Msgs Regen.Ledger.Orm Regen.Ledger.BaseMsgs
               Regen.Ledger.BasketMsgs Regen.Ledger.MarketMsgs Regen.Ledger.Step
               Regen.Ledger.Amount Regen.Ledger.MapSum Regen.Ledger.Inv Regen.Ledger.InvTactics
               Regen.Ledger.InvBaseLib Regen.Ledger.InvBase1 Regen.Ledger.InvBase2 Regen.Ledger.InvBase3
               Regen.Ledger.InvBase.
Import ListNotations RecordSetNotations.
Local Open Scope Z_scope.

(* one credit type, one class with issuer 0, one project; nothing else *)
Definition ex0 : state := {|
  credit_types := {[ b "C" := {| ct_name := b "carbon"; ct_unit := b "t"; ct_precision := 6 |} ]};
  classes := {[ 1%N := {| cl_id := b "C01"; cl_admin := 0%N; cl_metadata := []; cl_ct := b "C" |} ]};
  class_seq_id := 1;
  class_issuers := {[ (1%N, 0%N) ]};
  projects := {[ 1%N := {| pj_id := b "C01-001"; pj_admin := 0%N; pj_class_key := 1%N;
                           pj_jurisdiction := b "US"; pj_metadata := []; pj_reference_id := [] |} ]};
  project_seq_id := 1;
  batches := ∅; batch_seq_id := 0;
  class_sequences := {[ b "C" := 2%N ]}; project_sequences := {[ 1%N := 2%N ]}; batch_sequences := ∅;
  balances := ∅; supplies := ∅; origin_txs := ∅; batch_contracts := ∅;
  allowlist_enabled := false; allowed_creators := ∅; class_fee := None;
  allowed_bridge_chains := {[ b "polygon" ]};
  baskets := ∅; basket_seq_id := 0; basket_classes := ∅; basket_balances := ∅; basket_fee := None;
  sell_orders := ∅; sell_order_seq_id := 0; allowed_denoms := ∅; markets := ∅; market_seq_id := 0;
  fee_params_ := None; bank := ∅; bank_supply := ∅ |}.

Lemma ex0_core : Inv_core ex0.
Proof.
  split; [|split; [|split; [|split]]].
  - intros a ct H. cbn in H. apply lookup_singleton_Some in H. destruct H as [_ <-]. reflexivity.
  - split; [|split; [|split]]; intros k v H; cbn in H; rewrite lookup_empty in H; discriminate.
  - split; [|split; [|split; [|split; [|split; [|split; [|split]]]]]].
    + intros k1 k2 b1 b2 H. cbn in H. rewrite lookup_empty in H. discriminate.
    + intros k. cbn. split; intros [x Hx]; rewrite lookup_empty in Hx; discriminate.
    + intros a k v H. cbn in H. rewrite lookup_empty in H. discriminate.
    + intros id d v H. cbn in H. rewrite lookup_empty in H. discriminate.
    + intros id o H. cbn in H. rewrite lookup_empty in H. discriminate.
    + intros k [x Hx]. cbn in Hx. rewrite lookup_empty in Hx. discriminate.
    + intros k [x Hx]. cbn in Hx. rewrite lookup_empty in Hx. discriminate.
    + intros k [x Hx]. cbn in Hx. rewrite lookup_empty in Hx. discriminate.
  - intros bk ba su H. cbn in H. rewrite lookup_empty in H. discriminate.
  - intros a bk. unfold get_balance, order_sum. cbn [balances sell_orders ex0].
    rewrite lookup_empty, sum_map_empty. reflexivity.
Qed.

Definition ex_env : env := {| e_time := mk_ts 1700000000 0; e_authority := addr_gov |}.
Definition ex_denom : bytes := b "C01-001-20200101-20210101-001".
Definition ex_otx (id : string) : origin_tx :=
  {| ot_id := b id; ot_source := b "polygon"; ot_contract := b "0x0E65079a29d7793ab5CA500c2d88e60EE99bA606"; ot_note := [] |}.

Definition ex_msgs : list msg := [
  MCreateBatch 0%N (b "C01-001")
    [{| is_recipient := 1%N; is_tradable := b "10.5"; is_retired := b "2"; is_jurisdiction := b "US"; is_reason := [] |}]
    (b "meta") (Some (mk_ts 1577836800 0)) (Some (mk_ts 1609459200 0)) true None;
  MMintBatchCredits 0%N ex_denom
    [{| is_recipient := 2%N; is_tradable := b "3.25"; is_retired := []; is_jurisdiction := []; is_reason := [] |}]
    (Some (ex_otx "0x7a70692a348e8688f54ab2bdfe87d925d8cc88932520492a11eaa02dc128243e"));
  MSend 1%N 2%N [{| sc_denom := ex_denom; sc_tradable := b "1.5"; sc_retired := b "0.25";
                    sc_jurisdiction := b "US"; sc_reason := [] |}];
  MRetire 2%N [{| cr_denom := ex_denom; cr_amount := b "0.75" |}] (b "US") [];
  MCancel 1%N [{| cr_denom := ex_denom; cr_amount := b "1" |}] (b "reason");
  MUpdateBatchMetadata 0%N ex_denom (b "meta2");
  MSealBatch 0%N ex_denom;
  MBridgeReceive 0%N (b "C01")
    (Some {| brp_reference_id := b "VCS-001"; brp_jurisdiction := b "US"; brp_metadata := b "pm" |})
    (Some {| brb_recipient := 3%N; brb_amount := b "7"; brb_start := Some (mk_ts 1577836800 0);
             brb_end := Some (mk_ts 1609459200 0); brb_metadata := b "bm" |})
    (Some (ex_otx "0x8a70692a348e8688f54ab2bdfe87d925d8cc88932520492a11eaa02dc128243e"));
  MBridge 3%N (b "polygon") (b "0x0E65079a29d7793ab5CA500c2d88e60EE99bA606")
    [{| cr_denom := b "C01-002-20200101-20210101-001"; cr_amount := b "2" |}]
].

(* deliver the messages in order; None as soon as one is not a base credit message, fails
   ValidateBasic, or is rejected by its handler *)
Fixpoint run_all (e : env) (s : state) (ms : list msg) : option state :=
  match ms with
  | [] => Some s
  | m :: ms' =>
      if is_base_credit_msg m && validate_basic m then
        match handle e s m with LOk (s', _, _) => run_all e s' ms' | LErr _ => None end
      else None
  end.

Lemma run_all_core e : forall ms s s', Inv_core s -> run_all e s ms = Some s' -> Inv_core s'.
Proof.
  induction ms as [|m ms IH]; intros s s' Hinv H; cbn [run_all] in H.
  - inversion H; subst s'. exact Hinv.
  - destruct (is_base_credit_msg m && validate_basic m) eqn:E; [|discriminate].
    apply andb_true_iff in E. destruct E as [E1 E2].
    destruct (handle e s m) as [[[s1 r1] ev1]|err] eqn:Eh; [|discriminate].
    eapply IH; [|exact H]. eapply base_preserves_core; eassumption.
Qed.

(* only the success flag is computed: normalising a state would also normalise the well-formedness
   proofs inside its gmaps *)
Lemma ex_run_succeeds :
  match run_all ex_env ex0 ex_msgs with Some _ => true | None => false end = true.
Proof. vm_compute. reflexivity. Qed.

Example ex_run_ok : exists s', run_all ex_env ex0 ex_msgs = Some s' /\ Inv_core s'.
Proof.
  pose proof ex_run_succeeds as Hok.
  destruct (run_all ex_env ex0 ex_msgs) as [s'|] eqn:E; [|discriminate Hok].
  exists s'. split; [reflexivity|]. eapply run_all_core; [apply ex0_core | exact E].
Qed.

(* every message of the run is a base credit message that passes ValidateBasic *)
Example ex_msgs_valid : forallb (fun m => is_base_credit_msg m && validate_basic m) ex_msgs = true.
Proof. vm_compute. reflexivity. Qed.
