(* Library for the marketplace invariant proofs: magnitude bound, decimal facts in units, order sums,
   sorting is a permutation, state-equality up to the fields Inv_core reads, row rewrites.  Proof file. *)
From stdpp Require Import gmap.
From RecordUpdate Require Import RecordSet.
From Coq Require Import ZArith NArith List Bool Lia Strings.Byte Permutation.
Require Import Regen.Base.Bytes Regen.Base.Calendar Regen.Dec.Dec Regen.Dec.DecLemmas Regen.Dec.DecIface.
Require Import Regen.Ledger.Types Regen.Ledger.Msgs Regen.Ledger.Orm Regen.Ledger.BaseMsgs
               Regen.Ledger.BasketMsgs Regen.Ledger.MarketMsgs Regen.Ledger.Step
               Regen.Ledger.Amount Regen.Ledger.MapSum Regen.Ledger.Inv Regen.Ledger.InvTactics.
Import ListNotations RecordSetNotations.
Local Open Scope Z_scope.

(* ------------------------------------------------------------------ *)
(* the magnitude bound                                                 *)
(* ------------------------------------------------------------------ *)

(* apd refuses results whose adjusted exponent (exponent + digits - 1) exceeds 100000.  For an amount with
   exponent in [-6, 0] this says exactly: fewer than BOUND = 10^100007 units (10^100001 credits).  So
   [U d < BOUND] is "d is representable", and every amount that is the Ok result of an addition, a
   subtraction satisfies it (add_gen_result_bound below). *)
Definition BOUND : Z := 10 ^ 100007.

Lemma BOUND_eq : BOUND = 10 ^ 100007.
Proof. unfold BOUND. reflexivity. Qed.

Global Opaque BOUND.

Lemma BOUND_pos : 0 < BOUND.
Proof. rewrite BOUND_eq. apply pow10_gt0. clear. lia. Qed.

Lemma BOUND_split k : 0 <= k <= 100007 -> BOUND = 10 ^ (100007 - k) * 10 ^ k.
Proof.
  intros Hk. rewrite BOUND_eq. rewrite <- pow10_add by (clear - Hk; lia).
  f_equal. clear - Hk. lia.
Qed.

(* digits of a coefficient whose scaled value is below the bound *)
Lemma nd_bound c k : 0 <= c -> 0 <= k <= 6 -> c * 10 ^ k < BOUND -> num_digits c + k <= 100007.
Proof.
  intros Hc Hk Hb. rewrite (BOUND_split k) in Hb by (clear - Hk; lia).
  assert (Hp : 0 < 10 ^ k) by (apply pow10_gt0; lia).
  assert (Hlt : c < 10 ^ (100007 - k)).
  { apply (Z.mul_lt_mono_pos_r (10 ^ k)); [exact Hp | exact Hb]. }
  assert (Hn : num_digits c <= 100007 - k).
  { apply num_digits_le; [split; [exact Hc | exact Hlt] | clear - Hk; lia]. }
  clear - Hn. lia.
Qed.

(* and conversely: a decimal within apd's exponent limits is below the bound *)
Lemma bound_of_adj c e :
  0 <= c -> - P <= e <= 0 -> e + num_digits c - 1 <= max_exponent -> c * 10 ^ (e + P) < BOUND.
Proof.
  intros Hc He Hadj. unfold P, max_exponent in *.
  destruct (Z.eq_dec c 0) as [->|Hnz]; [rewrite Z.mul_0_l; apply BOUND_pos|].
  assert (Hc' : 0 < c) by lia. pose proof (num_digits_spec c Hc') as [_ Hlt].
  pose proof (num_digits_ge1 c) as Hge.
  rewrite (BOUND_split (e + 6)) by (clear - He; lia).
  assert (Hp : 0 < 10 ^ (e + 6)) by (apply pow10_gt0; lia).
  apply Z.mul_lt_mono_pos_r; [exact Hp|].
  assert (Hle : 10 ^ num_digits c <= 10 ^ (100007 - (e + 6))) by (apply pow10_le; clear - Hadj Hge He; lia).
  clear - Hlt Hle. set (X := 10 ^ num_digits c) in *. set (Y := 10 ^ (100007 - (e + 6))) in *. clearbody X Y. lia.
Qed.

(* every supply row is representable.  Market handlers and pruning never increase a tradable supply, so
   they preserve this trivially; everywhere else it holds because each stored amount is the Ok result of
   an addition (see add_gen_result_bound). *)
Definition Inv_bound (s : state) : Prop :=
  forall k su, supplies s !! k = Some su -> U (su_tradable su) < BOUND.

(* ------------------------------------------------------------------ *)
(* small decimal facts                                                 *)
(* ------------------------------------------------------------------ *)

Lemma P_eq : P = 6.
Proof. reflexivity. Qed.

Lemma pow10_ge1' n : 0 <= n -> 1 <= 10 ^ n.
Proof. intros. pose proof (pow10_gt0 n H). lia. Qed.

(* the coefficient never exceeds the unit count *)
Lemma coef_le_U d : in_ok d -> dcoef d <= U d.
Proof.
  intros (Hc & Hn & He). unfold U, units, dint.
  destruct (dneg d) eqn:E.
  - rewrite (Hn eq_refl). cbn. lia.
  - assert (1 <= 10 ^ (dexp d + P)) by (apply pow10_ge1'; lia). nia.
Qed.

Lemma in_ok_pos_noneg d : in_ok d -> 0 < U d -> dneg d = false /\ 0 < dcoef d.
Proof.
  intros (Hc & Hn & He) Hp. unfold U, units, dint in Hp.
  destruct (dneg d) eqn:E.
  - rewrite (Hn eq_refl) in Hp. cbn in Hp. lia.
  - split; [reflexivity|]. destruct (Z.eq_dec (dcoef d) 0) as [H0|H0]; [rewrite H0 in Hp; cbn in Hp; lia | lia].
Qed.

Lemma in_ok_not_negative d : in_ok d -> is_negative d = false.
Proof.
  intros (Hc & Hn & He). unfold is_negative, is_zero. destruct (dneg d) eqn:E; [|reflexivity].
  rewrite (Hn eq_refl). reflexivity.
Qed.

Lemma U_nonneg_form d : in_ok d -> U d = dcoef d * 10 ^ (dexp d + P).
Proof.
  intros (Hc & Hn & He). unfold U, units, dint. destruct (dneg d) eqn:E; [|reflexivity].
  rewrite (Hn eq_refl). reflexivity.
Qed.

Lemma round0_ok_bound neg c e :
  - P <= e <= 0 -> 0 <= c -> c * 10 ^ (e + P) < BOUND -> round0 (mkDec neg c e) = Ok (mkDec neg c e).
Proof.
  intros He Hc Hb. unfold round0. cbn [dexp].
  rewrite DecIface.set_exponent_ok.
  - cbn [dneg dcoef]. rewrite zsum_single. reflexivity.
  - cbn [forallb]. unfold exp_in_limits, min_exponent, max_exponent. rewrite andb_true_r.
    apply andb_true_iff. unfold P in He. split; apply Z.leb_le; lia.
  - rewrite zsum_single. cbn [dcoef].
    pose proof (nd_bound c (e + P) Hc ltac:(unfold P in *; lia) Hb). pose proof (num_digits_ge1 c).
    unfold min_exponent, max_exponent. unfold P in *. clear Hb. lia.
Qed.

(* results of the library operations are representable *)
Lemma set_exponent_result_bound d xs z :
  0 <= dcoef d -> set_exponent d xs = Ok z -> - P <= dexp z <= 0 -> dcoef z * 10 ^ (dexp z + P) < BOUND.
Proof.
  intros Hc H He. apply set_exponent_inv in H. destruct H as (_ & H2 & H3 & _ & H5).
  apply bound_of_adj; [rewrite H2; exact Hc | exact He |]. rewrite H2, H3. lia.
Qed.

Lemma add_gen_result_bound subtract x y z :
  in_ok x -> in_ok y -> dexp x <= 0 -> add_gen subtract x y = Ok z -> Z.abs (U z) < BOUND.
Proof.
  intros Hx Hy Hex H. pose proof Hx as (Hcx & _ & Hex'). pose proof Hy as (Hcy & _ & Hey').
  pose proof (add_gen_units subtract x y z Hcx Hcy Hex' Hey' H) as (Hcz & Hez & _).
  assert (He : - P <= dexp z <= 0) by (rewrite Hez; lia).
  unfold add_gen in H. cbv zeta in H. destruct (_ >? _); [discriminate|].
  destruct (if Bool.eqb _ _ then _ else _) as [neg coef]. unfold round0 in H.
  assert (Hb : dcoef z * 10 ^ (dexp z + P) < BOUND).
  { eapply set_exponent_result_bound; [|exact H|exact He]. cbn [dcoef].
    apply set_exponent_inv in H. destruct H as (_ & H2 & _). cbn [dcoef] in H2. rewrite <- H2. exact Hcz. }
  assert (0 <= dcoef z * 10 ^ (dexp z + P)) by (apply Z.mul_nonneg_nonneg; [lia | apply Z.pow_nonneg; lia]).
  unfold U, units, dint. destruct (dneg z); [rewrite Z.mul_opp_l, Z.abs_opp|]; rewrite Z.abs_eq by assumption; exact Hb.
Qed.

(* add / sub succeed below the bound: x is a stored amount, y a positive gated amount without positive exponent *)
Lemma add_gen_total subtract x y :
  stored_ok x -> in_ok y -> dexp y <= 0 -> 0 < U y -> U x < BOUND -> U y < BOUND ->
  (subtract = false -> U x + U y < BOUND) ->
  exists z, add_gen subtract x y = Ok z.
Proof.
  intros (Hcx & Hnx & Hex & Hex0) Hy Hey Hpy Hbx Hby Hsum.
  destruct (in_ok_pos_noneg y Hy Hpy) as [Hny Hcy].
  destruct Hy as (_ & _ & Hey0).
  unfold add_gen. cbv zeta.
  assert (E0 : (Z.abs (dexp x - dexp y) >? max_exponent) = false).
  { rewrite Z.gtb_ltb. apply Z.ltb_ge. unfold max_exponent. unfold P in *. clear - Hex Hex0 Hey Hey0. lia. }
  rewrite E0.
  set (e := Z.min (dexp x) (dexp y)).
  set (a := dcoef x * 10 ^ (dexp x - e)).
  set (c := dcoef y * 10 ^ (dexp y - e)).
  assert (He : - P <= e <= 0) by (unfold e; lia).
  assert (Hex' : 0 <= dexp x - e) by (unfold e; lia).
  assert (Hey' : 0 <= dexp y - e) by (unfold e; lia).
  assert (Ha : 0 <= a) by (unfold a; apply Z.mul_nonneg_nonneg; [lia | apply Z.pow_nonneg; lia]).
  assert (Hc : 0 <= c) by (unfold c; apply Z.mul_nonneg_nonneg; [lia | apply Z.pow_nonneg; lia]).
  assert (Hp1 : 1 <= 10 ^ (e + P)) by (apply pow10_ge1'; lia).
  assert (HUx : U x = a * 10 ^ (e + P)).
  { unfold U, units, dint, a. replace (dexp x + P) with ((dexp x - e) + (e + P)) by lia.
    rewrite pow10_split by lia. destruct (dneg x) eqn:En; [rewrite (Hnx eq_refl)|]; ring. }
  assert (HUy : U y = c * 10 ^ (e + P)).
  { unfold U, units, dint, c. replace (dexp y + P) with ((dexp y - e) + (e + P)) by lia.
    rewrite pow10_split by lia. rewrite Hny. ring. }
  assert (Hxa : dneg x = true -> a = 0) by (intros En; unfold a; rewrite (Hnx En); ring).
  assert (Hfin : forall neg coef, 0 <= coef -> coef * 10 ^ (e + P) < BOUND ->
            exists z, round0 (mkDec neg coef e) = Ok z).
  { intros neg coef H0 H1. eexists. apply round0_ok_bound; assumption. }
  set (p := 10 ^ (e + P)) in *. clearbody a c p. clear Hex' Hey'. clearbody e.
  rewrite Hny. cbn [xorb].
  destruct subtract.
  - (* subtraction: coefficient at most max a c *)
    destruct (dneg x) eqn:En; cbn [Bool.eqb xorb negb].
    + rewrite (Hxa eq_refl). apply Hfin; lia.
    + destruct (a - c <? 0) eqn:E1; [apply Z.ltb_lt in E1; apply Hfin; nia|].
      apply Z.ltb_ge in E1. destruct (a - c =? 0); apply Hfin; nia.
  - specialize (Hsum eq_refl).
    destruct (dneg x) eqn:En; cbn [Bool.eqb xorb negb].
    + rewrite (Hxa eq_refl).
      destruct (0 - c <? 0) eqn:E1; [apply Z.ltb_lt in E1; apply Hfin; lia|].
      apply Z.ltb_ge in E1. destruct (0 - c =? 0); apply Hfin; lia.
    + apply Hfin; lia.
Qed.

Lemma safe_sub_total x y :
  stored_ok x -> in_ok y -> dexp y <= 0 -> 0 < U y -> U y <= U x -> U x < BOUND ->
  exists z, safe_sub_balance x y = Ok z.
Proof.
  intros Hx Hy Hey Hpy Hle Hb.
  destruct (add_gen_total true x y Hx Hy Hey Hpy Hb) as [z Hz]; [lia | discriminate |].
  unfold safe_sub_balance. rewrite Hz. cbn [bind].
  pose proof (stored_in_ok _ Hx) as Hx'.
  pose proof (sub_units x y z Hx' Hy Hz) as (_ & _ & _ & Hin).
  rewrite (in_ok_not_negative z (Hin Hle)). eauto.
Qed.

Lemma safe_add_total x y :
  stored_ok x -> in_ok y -> dexp y <= 0 -> 0 < U y -> U x + U y < BOUND ->
  exists z, safe_add_balance x y = Ok z.
Proof.
  intros Hx Hy Hey Hpy Hb.
  pose proof (stored_in_ok _ Hx) as Hx'. pose proof (in_ok_U_nonneg x Hx').
  destruct (add_gen_total false x y Hx Hy Hey Hpy) as [z Hz]; [lia | lia | intros _; exact Hb |].
  unfold safe_add_balance. rewrite (in_ok_not_negative x Hx'), (in_ok_not_negative y Hy). cbn [orb]. eauto.
Qed.

(* gated user strings *)
Lemma posfixed_spec str q : posfixed P str = Ok q -> parse str = Ok q /\ in_ok q /\ 0 < U q.
Proof.
  intros H. unfold posfixed in H. pose proof (posfixed_ok _ _ _ H) as (Hc & Hn & He).
  assert (Hin : in_ok q) by (split; [lia|]; split; [intros; congruence | exact He]).
  split; [|split; [exact Hin|]].
  - unfold positive_fixed_dec_from_string, Dec.bind in H.
    destruct (positive_dec_from_string str) as [d0|] eqn:E; [|discriminate].
    destruct (num_decimal_places d0 >? P); [discriminate|]. inversion H; subst d0.
    apply positive_inv in E. tauto.
  - unfold U, units, dint. rewrite Hn. apply Z.mul_pos_pos; [exact Hc | apply pow10_gt0; lia].
Qed.

(* Cmp on gated amounts is the comparison of unit counts *)
Lemma cmp_U a c : in_ok a -> in_ok c -> cmp a c = Z.compare (U a) (U c).
Proof.
  intros (Ha & _ & Hea) (Hc & _ & Hec). unfold U. apply cmp_units; lia.
Qed.

(* rendering then re-parsing keeps the unit count and leaves no positive exponent, below the bound *)
Lemma reparse_units d : in_ok d -> U d < BOUND ->
  exists d', parse (to_string d) = Ok d' /\ in_ok d' /\ U d' = U d /\ dexp d' <= 0.
Proof.
  intros Hok Hb. pose proof Hok as (Hc & Hn & He). rewrite (U_nonneg_form d Hok) in Hb.
  exists (reparsed d). split; [|].
  - apply parse_to_string_gen; [exact Hc|]. unfold reparse_ok.
    destruct (dexp d <=? 0) eqn:E.
    + apply Z.leb_le in E.
      pose proof (nd_bound (dcoef d) (dexp d + P) Hc ltac:(unfold P in *; lia) Hb). pose proof (num_digits_ge1 (dcoef d)).
      unfold min_exponent, max_exponent. unfold P in *. clear Hb. lia.
    + apply Z.leb_gt in E.
      assert (H0 : 0 <= dcoef d * 10 ^ dexp d) by (apply Z.mul_nonneg_nonneg; [lia | apply Z.pow_nonneg; lia]).
      assert (H2 : dcoef d * 10 ^ dexp d * 10 ^ 6 < BOUND).
      { rewrite <- Z.mul_assoc, <- pow10_split by lia. exact Hb. }
      pose proof (nd_bound _ 6 H0 ltac:(lia) H2). unfold max_exponent. clear Hb H2. lia.
  - unfold reparsed. destruct (dexp d <=? 0) eqn:E; [apply Z.leb_le in E; split; [exact Hok | split; [reflexivity | exact E]]|].
    apply Z.leb_gt in E. split; [|split; [|cbn [dexp]; lia]].
    + split; cbn [dcoef dneg dexp]; [apply Z.mul_nonneg_nonneg; [lia | apply Z.pow_nonneg; lia]|].
      split; [intros Hn'; rewrite (Hn Hn'); ring | unfold P; lia].
    + unfold U, units, dint. cbn [dcoef dneg dexp]. rewrite Z.add_0_l.
      rewrite (pow10_split (dexp d) P) by (unfold P; lia). destruct (dneg d); ring.
Qed.

(* ------------------------------------------------------------------ *)
(* credit types                                                        *)
(* ------------------------------------------------------------------ *)

Lemma ct_of_denom_precision s d ct :
  Inv_ct s -> credit_type_of_denom s d = LOk ct -> ct_precision ct = P.
Proof.
  intros Hct H. unfold credit_type_of_denom in H. cbv zeta in H.
  lstep H as p Hp. destruct p as [ck c]. apply from_option_ok in H. eapply Hct. exact H.
Qed.

Lemma ct_abbrev_of_denom_precision s d ab ct :
  Inv_ct s -> credit_type_abbrev_of_denom s d = LOk (ab, ct) -> ct_precision ct = P.
Proof.
  intros Hct H. unfold credit_type_abbrev_of_denom in H. cbv zeta in H.
  lstep H as p Hp. destruct p as [ck c]. lstep H as ct' Hct'. inversion H; subst. eapply Hct. exact Hct'.
Qed.

Lemma ct_abbrev_of_denom_ext s s' d :
  classes s' = classes s -> credit_types s' = credit_types s ->
  credit_type_abbrev_of_denom s' d = credit_type_abbrev_of_denom s d.
Proof.
  intros H1 H2. unfold credit_type_abbrev_of_denom, class_by_id. rewrite H1, H2. reflexivity.
Qed.

Lemma ct_of_denom_ext s s' d :
  classes s' = classes s -> credit_types s' = credit_types s ->
  credit_type_of_denom s' d = credit_type_of_denom s d.
Proof.
  intros H1 H2. unfold credit_type_of_denom, class_by_id. rewrite H1, H2. reflexivity.
Qed.

(* ------------------------------------------------------------------ *)
(* lfold                                                               *)
(* ------------------------------------------------------------------ *)

Lemma lfold_inv {A B} (Pr : A -> Prop) (f : A -> B -> lres A) (l : list B) :
  forall a a', (forall a x a', In x l -> Pr a -> f a x = LOk a' -> Pr a') ->
    Pr a -> lfold f l a = LOk a' -> Pr a'.
Proof.
  induction l as [|x l IH]; intros a a' Hstep Ha H; cbn [lfold] in H.
  - inversion H; subst; exact Ha.
  - apply lbind_ok in H. destruct H as (a1 & H1 & H2).
    eapply IH; [| | exact H2].
    + intros a0 x0 a0' Hin. apply Hstep. right. exact Hin.
    + eapply Hstep; [left; reflexivity | exact Ha | exact H1].
Qed.

Lemma lfold_total {A B} (Pr : A -> Prop) (f : A -> B -> lres A) (l : list B) :
  forall a, (forall a x, In x l -> Pr a -> exists a', f a x = LOk a' /\ Pr a') ->
    Pr a -> exists a', lfold f l a = LOk a' /\ Pr a'.
Proof.
  induction l as [|x l IH]; intros a Hstep Ha; cbn [lfold].
  - eauto.
  - destruct (Hstep a x (or_introl eq_refl) Ha) as (a1 & H1 & Ha1). rewrite H1. cbn [lbind].
    apply IH; [|exact Ha1]. intros a0 x0 Hin. apply Hstep. right. exact Hin.
Qed.

(* ------------------------------------------------------------------ *)
(* order sums                                                          *)
(* ------------------------------------------------------------------ *)

Definition ofun (a : addr) (bk : N) (o : sell_order) : Z :=
  if (so_seller o =? a)%N && (so_batch_key o =? bk)%N then order_units o else 0.

Lemma order_sum_eq a bk m : order_sum a bk m = sum_map (fun _ o => ofun a bk o) m.
Proof. reflexivity. Qed.

Lemma order_sum_insert a bk m id o :
  order_sum a bk (<[id := o]> m) =
  order_sum a bk m - match m !! id with Some o' => ofun a bk o' | None => 0 end + ofun a bk o.
Proof. rewrite !order_sum_eq. rewrite sum_map_insert. reflexivity. Qed.

Lemma order_sum_delete a bk m id :
  order_sum a bk (delete id m) =
  order_sum a bk m - match m !! id with Some o' => ofun a bk o' | None => 0 end.
Proof. rewrite !order_sum_eq. rewrite sum_map_delete. reflexivity. Qed.

Lemma order_units_nonneg o : order_ok o -> 0 < order_units o.
Proof. intros (d & Hp & Hin & Hpos). unfold order_units. rewrite Hp. exact Hpos. Qed.

Lemma order_units_parse o d : parse (so_quantity o) = Ok d -> order_units o = U d.
Proof. intros H. unfold order_units. rewrite H. reflexivity. Qed.

Lemma ofun_nonneg a bk o : order_ok o -> 0 <= ofun a bk o.
Proof. intros H. unfold ofun. pose proof (order_units_nonneg o H). destruct (_ && _); lia. Qed.

Lemma ofun_self o : ofun (so_seller o) (so_batch_key o) o = order_units o.
Proof. unfold ofun. rewrite !N.eqb_refl. reflexivity. Qed.

Lemma ofun_other a bk o : (so_seller o, so_batch_key o) <> (a, bk) -> ofun a bk o = 0.
Proof.
  intros Hne. unfold ofun. destruct (so_seller o =? a)%N eqn:E1; [|reflexivity].
  destruct (so_batch_key o =? bk)%N eqn:E2; [|reflexivity].
  apply N.eqb_eq in E1, E2. congruence.
Qed.

(* ofun depends only on seller, batch key and quantity string *)
Lemma ofun_ext a bk o o' :
  so_seller o' = so_seller o -> so_batch_key o' = so_batch_key o -> order_units o' = order_units o ->
  ofun a bk o' = ofun a bk o.
Proof. intros H1 H2 H3. unfold ofun. rewrite H1, H2, H3. reflexivity. Qed.

Lemma order_le_order_sum m id o :
  (forall k o, m !! k = Some o -> order_ok o) -> m !! id = Some o ->
  order_units o <= order_sum (so_seller o) (so_batch_key o) m.
Proof.
  intros Hok Hid. rewrite order_sum_eq. rewrite <- (ofun_self o).
  apply (sum_map_ge_entry (fun _ o' => ofun (so_seller o) (so_batch_key o) o') m id o); [|exact Hid].
  intros k v Hk. apply ofun_nonneg. eapply Hok. exact Hk.
Qed.

(* ------------------------------------------------------------------ *)
(* sorting                                                             *)
(* ------------------------------------------------------------------ *)

Lemma insert_sorted_perm {A} (leb : A -> A -> bool) x l : Permutation (insert_sorted leb x l) (x :: l).
Proof.
  induction l as [|y l IH]; cbn [insert_sorted]; [reflexivity|].
  destruct (leb x y); [reflexivity|].
  rewrite IH. apply perm_swap.
Qed.

Lemma sort_by_perm {A} (leb : A -> A -> bool) l : Permutation (sort_by leb l) l.
Proof.
  induction l as [|x l IH]; cbn; [reflexivity|].
  rewrite insert_sorted_perm. apply perm_skip. exact IH.
Qed.

Lemma NoDup_fst_filter {A B} (f : A * B -> bool) (l : list (A * B)) :
  List.NoDup (map fst l) -> List.NoDup (map fst (List.filter f l)).
Proof.
  induction l as [|x l IH]; cbn; intros H; [constructor|].
  inversion H as [|? ? Hnin Hnd]; subst.
  destruct (f x); cbn; [|apply IH; exact Hnd].
  constructor; [|apply IH; exact Hnd].
  intros Hin. apply Hnin. apply in_map_iff in Hin. destruct Hin as (y & Hy1 & Hy2).
  apply filter_In in Hy2. apply in_map_iff. exists y. tauto.
Qed.

(* ------------------------------------------------------------------ *)
(* the fields Inv_core reads                                           *)
(* ------------------------------------------------------------------ *)

Definition core_eq (s s' : state) : Prop :=
  credit_types s' = credit_types s /\ batches s' = batches s /\ batch_seq_id s' = batch_seq_id s /\
  balances s' = balances s /\ supplies s' = supplies s /\ baskets s' = baskets s /\
  basket_seq_id s' = basket_seq_id s /\ basket_balances s' = basket_balances s /\
  sell_orders s' = sell_orders s /\ sell_order_seq_id s' = sell_order_seq_id s.

Lemma Inv_core_core_eq s s' : core_eq s s' -> Inv_core s -> Inv_core s'.
Proof.
  intros (H1 & H2 & H3 & H4 & H5 & H6 & H7 & H8 & H9 & H10) (Hct & Hsc & Hk & Hc & He).
  unfold Inv_core, Inv_ct, Inv_scale, Inv_keys, Inv_cons, Inv_escrow, get_balance in *.
  rewrite H1, H2, H3, H4, H5, H6, H7, H8, H9, H10. tauto.
Qed.

Lemma Inv_bound_core_eq s s' : core_eq s s' -> Inv_bound s -> Inv_bound s'.
Proof.
  intros (H1 & H2 & H3 & H4 & H5 & _) Hb. unfold Inv_bound. rewrite H5. exact Hb.
Qed.

Lemma core_eq_refl s : core_eq s s.
Proof. unfold core_eq. tauto. Qed.

(* ------------------------------------------------------------------ *)
(* reading a balance after a row write                                 *)
(* ------------------------------------------------------------------ *)

Lemma get_balance_set_row s m a k b a' k' :
  get_balance (s <| balances := <[(a, k) := b]> m |>) a' k' =
  if decide ((a', k') = (a, k)) then b else default zero_balance (m !! (a', k')).
Proof.
  unfold get_balance. cbn. destruct (decide ((a', k') = (a, k))) as [Heq|Hne].
  - rewrite Heq, lookup_insert. reflexivity.
  - rewrite lookup_insert_ne by congruence. reflexivity.
Qed.

Lemma get_balance_Some s a k b : balances s !! (a, k) = Some b -> get_balance s a k = b.
Proof. intros H. unfold get_balance. rewrite H. reflexivity. Qed.

Lemma get_balance_ok s a k : Inv_scale s -> balance_ok (get_balance s a k).
Proof.
  intros (Hb & _). unfold get_balance. destruct (balances s !! (a, k)) eqn:E; cbn.
  - eapply Hb. exact E.
  - apply zero_balance_ok.
Qed.

(* every tradable + escrowed holding is below the supply bound *)
Lemma te_bound s a k :
  Inv_core s -> Inv_bound s ->
  U (bl_tradable (get_balance s a k)) + U (bl_escrowed (get_balance s a k)) < BOUND.
Proof.
  intros (Hct & Hsc & Hk & Hc & He) Hb.
  unfold get_balance. destruct (balances s !! (a, k)) as [b|] eqn:E; cbn [default id].
  2:{ unfold zero_balance. cbn [bl_tradable bl_escrowed]. rewrite U_dzero. pose proof BOUND_pos. lia. }
  destruct Hk as (_ & Hk2 & Hk3 & _).
  destruct (Hk3 _ _ _ E) as [ba Hba].
  destruct (proj1 (Hk2 k) (ex_intro _ ba Hba)) as [su Hsu].
  destruct (Hc _ _ _ Hba Hsu) as [Hc1 _].
  pose proof (Hb _ _ Hsu) as Hlt.
  destruct Hsc as (Hs1 & _ & Hs3 & _).
  assert (H1 : tradable_escrowed b <= bal_sum tradable_escrowed k (balances s)).
  { unfold bal_sum.
    pose proof (sum_map_ge_entry (fun (k0 : addr * N) v => if (k0.2 =? k)%N then tradable_escrowed v else 0)
                  (balances s) (a, k) b) as Hge.
    cbn [snd] in Hge. rewrite N.eqb_refl in Hge. apply Hge; [|exact E].
    intros k0 v Hv. destruct (k0.2 =? k)%N; [|lia].
    destruct (Hs1 _ _ Hv) as (Ht & _ & Hes). unfold tradable_escrowed.
    pose proof (in_ok_U_nonneg _ (stored_in_ok _ Ht)). pose proof (in_ok_U_nonneg _ (stored_in_ok _ Hes)). lia. }
  assert (H2 : 0 <= bb_sum (ba_denom ba) (basket_balances s)).
  { unfold bb_sum. apply sum_map_nonneg. intros k0 v Hv. destruct (bytes_eqb k0.2 (ba_denom ba)); [|lia].
    destruct (Hs3 _ _ Hv). lia. }
  unfold tradable_escrowed at 1 in H1. lia.
Qed.

Lemma order_units_bound s id o :
  Inv_core s -> Inv_bound s -> sell_orders s !! id = Some o -> order_units o < BOUND.
Proof.
  intros Hcore Hb Hid. pose proof (te_bound s (so_seller o) (so_batch_key o) Hcore Hb) as Hte.
  destruct Hcore as (Hct & Hsc & Hk & Hc & He).
  pose proof (He (so_seller o) (so_batch_key o)) as Hesc.
  destruct Hsc as (Hs1 & Hs2 & Hs3 & Hs4).
  pose proof (order_le_order_sum _ _ _ Hs4 Hid) as Hle.
  pose proof (get_balance_ok s (so_seller o) (so_batch_key o) (conj Hs1 (conj Hs2 (conj Hs3 Hs4)))) as (Ht & _ & _).
  pose proof (in_ok_U_nonneg _ (stored_in_ok _ Ht)). lia.
Qed.
