(* Refinement of the decimal operations the handlers use to integer arithmetic on "units"
   (10^-6 credits).  Proof file; stdlib only. *)
From Coq Require Import ZArith Lia Bool List.
Require Import Regen.Base.Bytes Regen.Dec.Dec.
Local Open Scope Z_scope.

(* every credit type has precision 6 (CreditType.Validate: "precision is currently locked to 6") *)
Definition P : Z := 6.
Definition U (d : dec) : Z := units P d.

(* a decimal that came through a NonNegativeFixed / PositiveFixed gate, or out of add/sub of such *)
Definition in_ok (d : dec) : Prop :=
  0 <= dcoef d /\ (dneg d = true -> dcoef d = 0) /\ - P <= dexp d.

Lemma in_ok_U_nonneg d : in_ok d -> 0 <= U d.
Proof.
  intros (Hc & Hn & He). unfold U, units, dint.
  destruct (dneg d) eqn:E.
  - rewrite (Hn eq_refl). simpl. lia.
  - apply Z.mul_nonneg_nonneg; [lia|]. apply Z.pow_nonneg. lia.
Qed.

Lemma set_exponent_ok d x z : set_exponent d (x :: nil) = Ok z -> z = mkDec (dneg d) (dcoef d) x.
Proof.
  unfold set_exponent. destruct (forallb exp_in_limits (x :: nil)); [|discriminate].
  unfold zsum. simpl. destruct (_ || _); [discriminate|]. intros H; inversion H. reflexivity.
Qed.

Lemma pow10_pos n : 0 <= n -> 0 < 10 ^ n.
Proof. intros. apply Z.pow_pos_nonneg; lia. Qed.

Lemma pow10_split a c : 0 <= a -> 0 <= c -> 10 ^ (a + c) = 10 ^ a * 10 ^ c.
Proof. intros. apply Z.pow_add_r; lia. Qed.

(* add / sub never round: the result's units are the sum / difference of the operands' units *)
Lemma add_gen_units subtract x y z :
  0 <= dcoef x -> 0 <= dcoef y -> - P <= dexp x -> - P <= dexp y ->
  add_gen subtract x y = Ok z ->
  0 <= dcoef z /\ dexp z = Z.min (dexp x) (dexp y) /\
  U z = U x + (if subtract then - U y else U y).
Proof.
  intros Hx Hy Hex Hey. unfold add_gen. cbv zeta.
  destruct (Z.abs (dexp x - dexp y) >? max_exponent); [discriminate|].
  set (e := Z.min (dexp x) (dexp y)).
  set (a := dcoef x * 10 ^ (dexp x - e)).
  set (c := dcoef y * 10 ^ (dexp y - e)).
  assert (He : - P <= e) by (unfold e; lia).
  assert (Hex' : 0 <= dexp x - e) by (unfold e; lia).
  assert (Hey' : 0 <= dexp y - e) by (unfold e; lia).
  assert (Ha : 0 <= a) by (unfold a; apply Z.mul_nonneg_nonneg; [lia | apply Z.pow_nonneg; lia]).
  assert (Hc : 0 <= c) by (unfold c; apply Z.mul_nonneg_nonneg; [lia | apply Z.pow_nonneg; lia]).
  assert (HUx : U x = (if dneg x then - a else a) * 10 ^ (e + P)).
  { unfold U, units, dint, a. replace (dexp x + P) with ((dexp x - e) + (e + P)) by lia.
    rewrite pow10_split by lia. destruct (dneg x); ring. }
  assert (HUy : U y = (if dneg y then - c else c) * 10 ^ (e + P)).
  { unfold U, units, dint, c. replace (dexp y + P) with ((dexp y - e) + (e + P)) by lia.
    rewrite pow10_split by lia. destruct (dneg y); ring. }
  clearbody a c.
  destruct (Bool.eqb (dneg x) (xorb (dneg y) subtract)) eqn:Eq.
  - intros H. unfold round0 in H. apply set_exponent_ok in H. subst z. cbn [dcoef dexp dneg].
    split; [lia|]. split; [reflexivity|].
    rewrite HUx, HUy. unfold U, units, dint. cbn [dcoef dexp dneg].
    apply Bool.eqb_prop in Eq.
    destruct (dneg x), (dneg y), subtract; cbn in Eq; try discriminate; ring.
  - destruct (a - c <? 0) eqn:Elt; [| destruct (a - c =? 0) eqn:Eeq];
      intros H; unfold round0 in H; apply set_exponent_ok in H; subst z; cbn [dcoef dexp dneg];
      (split; [lia|]); (split; [reflexivity|]);
      rewrite HUx, HUy; unfold U, units, dint; cbn [dcoef dexp dneg];
      apply Bool.eqb_false_iff in Eq.
    + destruct (dneg x), (dneg y), subtract; cbn in Eq; try congruence; cbn; ring.
    + assert (a = c) by lia. subst c.
      destruct (dneg x), (dneg y), subtract; cbn in Eq; try congruence; cbn; lia.
    + destruct (dneg x), (dneg y), subtract; cbn in Eq; try congruence; cbn; ring.
Qed.

(* sign of the result: the flag is set only when the value is negative, or for a zero result with
   both operand flags set *)
Lemma add_gen_sign subtract x y z :
  0 <= dcoef x -> 0 <= dcoef y -> - P <= dexp x -> - P <= dexp y ->
  add_gen subtract x y = Ok z ->
  dneg z = true -> dcoef z <> 0 -> U z < 0.
Proof.
  intros Hx Hy Hex Hey H Hn Hz.
  pose proof (add_gen_units subtract x y z Hx Hy Hex Hey H) as (Hc & He & _).
  unfold U, units, dint. rewrite Hn.
  assert (0 < 10 ^ (dexp z + P)) by (apply pow10_pos; lia).
  nia.
Qed.

(* ---------- the operations as the handlers call them ---------- *)

Lemma add_in_ok x y z :
  in_ok x -> in_ok y -> add x y = Ok z -> in_ok z /\ U z = U x + U y.
Proof.
  intros (Hx & Hnx & Hex) (Hy & Hny & Hey) H. unfold add in H.
  pose proof (add_gen_units false x y z Hx Hy Hex Hey H) as (Hc & He & HU).
  split; [|exact HU]. split; [exact Hc|]. split; [| rewrite He; lia].
  intros Hn. destruct (Z.eq_dec (dcoef z) 0) as [|Hne]; [assumption|].
  pose proof (add_gen_sign false x y z Hx Hy Hex Hey H Hn Hne).
  pose proof (in_ok_U_nonneg x (conj Hx (conj Hnx Hex))).
  pose proof (in_ok_U_nonneg y (conj Hy (conj Hny Hey))). lia.
Qed.

Lemma is_negative_false_in_ok z :
  0 <= dcoef z -> - P <= dexp z -> is_negative z = false -> in_ok z.
Proof.
  intros Hc He H. split; [exact Hc|]. split; [|exact He].
  intros Hn. unfold is_negative, is_zero in H. rewrite Hn in H. cbn in H.
  apply negb_false_iff, Z.eqb_eq in H. exact H.
Qed.

Lemma safe_sub_in_ok x y z :
  in_ok x -> in_ok y -> safe_sub_balance x y = Ok z -> in_ok z /\ U z = U x - U y.
Proof.
  intros (Hx & Hnx & Hex) (Hy & Hny & Hey) H. unfold safe_sub_balance, bind in H.
  destruct (add_gen true x y) as [w|] eqn:E; [|discriminate].
  destruct (is_negative w) eqn:En; [discriminate|]. inversion H; subst w.
  pose proof (add_gen_units true x y z Hx Hy Hex Hey E) as (Hc & He & HU).
  split; [| lia]. apply is_negative_false_in_ok; [exact Hc | rewrite He; lia | exact En].
Qed.

Lemma safe_add_in_ok x y z :
  in_ok x -> in_ok y -> safe_add_balance x y = Ok z -> in_ok z /\ U z = U x + U y.
Proof.
  intros Hx Hy H. unfold safe_add_balance in H. destruct (_ || _); [discriminate|].
  apply add_in_ok; assumption.
Qed.

(* plain Sub is used where a preceding comparison guarantees a non-negative result *)
Lemma sub_units x y z :
  in_ok x -> in_ok y -> sub x y = Ok z ->
  0 <= dcoef z /\ - P <= dexp z /\ U z = U x - U y /\ (U y <= U x -> in_ok z).
Proof.
  intros (Hx & Hnx & Hex) (Hy & Hny & Hey) H. unfold sub in H.
  pose proof (add_gen_units true x y z Hx Hy Hex Hey H) as (Hc & He & HU).
  split; [exact Hc|]. split; [rewrite He; lia|]. split; [lia|].
  intros Hle. split; [exact Hc|]. split; [| rewrite He; lia].
  intros Hn. destruct (Z.eq_dec (dcoef z) 0) as [|Hne]; [assumption|].
  pose proof (add_gen_sign true x y z Hx Hy Hex Hey H Hn Hne). lia.
Qed.

(* ---------- the normal form in which amounts are stored ---------- *)

Definition dnorm' (d : dec) : dec :=
  if 0 <? dexp d then mkDec (dneg d) (dcoef d * 10 ^ dexp d) 0 else d.

(* a stored amount: non-negative, at most 6 decimal places, no positive exponent, sign flag clear *)
Definition stored_ok (d : dec) : Prop :=
  0 <= dcoef d /\ (dneg d = true -> dcoef d = 0) /\ - P <= dexp d /\ dexp d <= 0.

Lemma stored_in_ok d : stored_ok d -> in_ok d.
Proof. intros (H1 & H2 & H3 & H4). unfold in_ok. auto. Qed.

Lemma dnorm'_ok d : in_ok d -> stored_ok (dnorm' d) /\ U (dnorm' d) = U d.
Proof.
  intros (Hc & Hn & He). unfold dnorm'. destruct (0 <? dexp d) eqn:E.
  - apply Z.ltb_lt in E. split.
    + unfold stored_ok; cbn [dcoef dexp dneg].
      split; [apply Z.mul_nonneg_nonneg; [lia | apply Z.pow_nonneg; lia]|].
      split; [intros Hn'; rewrite (Hn Hn'); lia|]. unfold P; lia.
    + unfold U, units, dint. cbn [dcoef dexp dneg].
      rewrite Z.add_0_l. rewrite pow10_split by (unfold P; lia). destruct (dneg d); ring.
  - apply Z.ltb_ge in E. split; [|reflexivity]. unfold stored_ok.
    split; [exact Hc|]. split; [exact Hn|]. lia.
Qed.

Lemma U_zero : U (mkDec false 0 0) = 0.
Proof. reflexivity. Qed.

Lemma stored_ok_zero : stored_ok (mkDec false 0 0).
Proof. unfold stored_ok; cbn. split; [lia|]. split; [discriminate|]. unfold P; lia. Qed.

Lemma is_zero_U d : in_ok d -> is_zero d = true -> U d = 0.
Proof. intros _ H. unfold is_zero in H. apply Z.eqb_eq in H. unfold U, units, dint. rewrite H. destruct (dneg d); reflexivity. Qed.

Lemma is_positive_U d : in_ok d -> is_positive d = true -> 0 < U d.
Proof.
  intros (Hc & Hn & He) H. unfold is_positive, is_zero in H.
  apply andb_true_iff in H. destruct H as [H1 H2].
  apply negb_true_iff in H1. apply negb_true_iff, Z.eqb_neq in H2.
  unfold U, units, dint. rewrite H1. apply Z.mul_pos_pos; [lia | apply pow10_pos; unfold P in *; lia].
Qed.
