(* Ledger model: messages (one constructor per implemented RPC of the three ecocredit Msg services,
   bank MsgSend, and one constructor for the RPCs answered by UnimplementedMsgServer), responses,
   events the properties speak about, errors and the result monad.  Amount fields are wire strings. *)
From stdpp Require Import gmap.
From Coq Require Import ZArith NArith List Bool Strings.Byte.
Require Import Regen.Base.Bytes Regen.Base.Calendar Regen.Dec.Dec Regen.Ledger.Types.
Import ListNotations.
Local Open Scope Z_scope.

Record issuance := { is_recipient : addr; is_tradable : bytes; is_retired : bytes;
                     is_jurisdiction : bytes; is_reason : bytes }.
Record origin_tx := { ot_id : bytes; ot_source : bytes; ot_contract : bytes; ot_note : bytes }.
Record send_credits := { sc_denom : bytes; sc_tradable : bytes; sc_retired : bytes;
                         sc_jurisdiction : bytes; sc_reason : bytes }.
Record credits := { cr_denom : bytes; cr_amount : bytes }.
Record basket_credit := { bcr_denom : bytes; bcr_amount : bytes }.
Record sell_req := { sl_denom : bytes; sl_quantity : bytes; sl_ask : option coin;
                     sl_disable_auto_retire : bool; sl_expiration : option ts }.
Record update_req := { up_id : N; up_quantity : bytes; up_ask : option coin;
                       up_disable_auto_retire : bool; up_expiration : option ts }.
Record buy_req := { by_id : N; by_quantity : bytes; by_bid : option coin; by_disable_auto_retire : bool;
                    by_jurisdiction : bytes; by_reason : bytes; by_max_fee : option coin }.
Record br_project := { brp_reference_id : bytes; brp_jurisdiction : bytes; brp_metadata : bytes }.
Record br_batch := { brb_recipient : addr; brb_amount : bytes; brb_start : option ts; brb_end : option ts;
                     brb_metadata : bytes }.

Inductive msg :=
(* regen.ecocredit.v1.Msg *)
| MCreateClass (admin : addr) (issuers : list addr) (metadata ct : bytes) (fee : option coin)
| MCreateProject (admin : addr) (class_id metadata jurisdiction reference_id : bytes)
| MCreateBatch (issuer : addr) (project_id : bytes) (iss : list issuance) (metadata : bytes)
               (start_ end_ : option ts) (open : bool) (otx : option origin_tx)
| MMintBatchCredits (issuer : addr) (denom : bytes) (iss : list issuance) (otx : option origin_tx)
| MSealBatch (issuer : addr) (denom : bytes)
| MSend (sender recipient : addr) (cs : list send_credits)
| MRetire (owner : addr) (cs : list credits) (jurisdiction reason : bytes)
| MCancel (owner : addr) (cs : list credits) (reason : bytes)
| MUpdateClassAdmin (admin : addr) (class_id : bytes) (new_admin : addr)
| MUpdateClassIssuers (admin : addr) (class_id : bytes) (add remove : list addr)
| MUpdateClassMetadata (admin : addr) (class_id new_metadata : bytes)
| MUpdateProjectAdmin (admin : addr) (project_id : bytes) (new_admin : addr)
| MUpdateProjectMetadata (admin : addr) (project_id new_metadata : bytes)
| MUpdateBatchMetadata (issuer : addr) (denom new_metadata : bytes)
| MBridge (owner : addr) (target recipient : bytes) (cs : list credits)
| MBridgeReceive (issuer : addr) (class_id : bytes) (pj : option br_project) (ba : option br_batch)
                 (otx : option origin_tx)
| MAddCreditType (authority : addr) (abbrev name unit_ : bytes) (precision : Z)
| MSetClassCreatorAllowlist (authority : addr) (enabled : bool)
| MAddClassCreator (authority creator : addr)
| MRemoveClassCreator (authority creator : addr)
| MUpdateClassFee (authority : addr) (fee : option coin)
| MAddAllowedBridgeChain (authority : addr) (chain : bytes)
| MRemoveAllowedBridgeChain (authority : addr) (chain : bytes)
| MBurnRegen (burner : addr) (amount reason : bytes)
(* regen.ecocredit.basket.v1.Msg *)
| MBasketCreate (curator : addr) (name description : bytes) (disable_auto_retire : bool) (ct : bytes)
                (allowed_classes : list bytes) (criteria : date_criteria) (fee : list coin)
| MPut (owner : addr) (basket_denom : bytes) (cs : list basket_credit)
| MTake (owner : addr) (basket_denom amount retirement_location : bytes) (retire_on_take : bool)
        (jurisdiction reason : bytes)
| MUpdateBasketFee (authority : addr) (fee : option coin)
| MUpdateCurator (curator : addr) (denom : bytes) (new_curator : addr)
| MUpdateDateCriteria (authority : addr) (denom : bytes) (criteria : date_criteria)
(* regen.ecocredit.marketplace.v1.Msg *)
| MSell (seller : addr) (orders : list sell_req)
| MUpdateSellOrders (seller : addr) (updates : list update_req)
| MCancelSellOrder (seller : addr) (id : N)
| MBuyDirect (buyer : addr) (orders : list buy_req)
| MAddAllowedDenom (authority : addr) (bank_denom display_denom : bytes) (exponent : Z)
| MRemoveAllowedDenom (authority : addr) (denom : bytes)
| MGovSetFeeParams (authority : addr) (fees : option fee_params)
| MGovSendFromFeePool (authority recipient : addr) (coins : list coin)
(* cosmos.bank.v1beta1.Msg/Send *)
| MBankSend (from to : addr) (coins : list coin)
(* CreateUnregisteredProject, CreateOrUpdateApplication, UpdateProjectEnrollment, UpdateProjectFee *)
| MUnimplemented (signer : addr).

(* the address whose signature the transaction needs (GetSigners()[0]) *)
Definition signer (m : msg) : addr :=
  match m with
  | MCreateClass a _ _ _ _ | MCreateProject a _ _ _ _ | MCreateBatch a _ _ _ _ _ _ _
  | MMintBatchCredits a _ _ _ | MSealBatch a _ | MSend a _ _ | MRetire a _ _ _ | MCancel a _ _
  | MUpdateClassAdmin a _ _ | MUpdateClassIssuers a _ _ _ | MUpdateClassMetadata a _ _
  | MUpdateProjectAdmin a _ _ | MUpdateProjectMetadata a _ _ | MUpdateBatchMetadata a _ _
  | MBridge a _ _ _ | MBridgeReceive a _ _ _ _ | MAddCreditType a _ _ _ _
  | MSetClassCreatorAllowlist a _ | MAddClassCreator a _ | MRemoveClassCreator a _
  | MUpdateClassFee a _ | MAddAllowedBridgeChain a _ | MRemoveAllowedBridgeChain a _
  | MBurnRegen a _ _ | MBasketCreate a _ _ _ _ _ _ _ | MPut a _ _ | MTake a _ _ _ _ _ _
  | MUpdateBasketFee a _ | MUpdateCurator a _ _ | MUpdateDateCriteria a _ _
  | MSell a _ | MUpdateSellOrders a _ | MCancelSellOrder a _ | MBuyDirect a _
  | MAddAllowedDenom a _ _ _ | MRemoveAllowedDenom a _ | MGovSetFeeParams a _
  | MGovSendFromFeePool a _ _ | MBankSend a _ _ | MUnimplemented a => a
  end.

(* ------------------------------------------------------------------ *)
(* responses and events                                                *)
(* ------------------------------------------------------------------ *)

Inductive response :=
| REmpty
| RClassId (id : bytes)
| RProjectId (id : bytes)
| RBatchDenom (denom : bytes)
| RBridgeReceive (denom project_id : bytes)
| RBasketDenom (denom : bytes)
| RAmountReceived (amount : Z)
| RTake (cs : list (bytes * bytes))            (* (batch denom, amount string) in release order *)
| RSellOrderIds (ids : list N).

Inductive event :=
| EvBridge (target recipient contract amount : bytes) (owner : addr) (denom : bytes)
| EvBridgeReceive (project_id denom amount : bytes) (otx : origin_tx).

(* ------------------------------------------------------------------ *)
(* errors and the handler monad                                        *)
(* ------------------------------------------------------------------ *)

Inductive lerr :=
| LUnauthorized | LInsufficient | LNotFound | LInvalid | LConflict
| LDec (e : err)        (* an error of the decimal library *)
| LOrm                  (* primary key / unique constraint / not found on update *)
| LBank                 (* bank keeper refused (insufficient funds, invalid coins) *)
| LPanic                (* the implementation panics; baseapp recovers and fails the tx *)
| LFuel                 (* the model ran out of fuel: excluded by the theorems *)
| LUnimplemented.

Inductive lres (A : Type) := LOk (a : A) | LErr (e : lerr).
Arguments LOk {A} a.
Arguments LErr {A} e.

Definition lbind {A B} (r : lres A) (f : A -> lres B) : lres B :=
  match r with LOk a => f a | LErr e => LErr e end.

Declare Scope lres_scope.
Delimit Scope lres_scope with lres.
Notation "x <- e ;; k" := (lbind e (fun x => k)) (at level 100, e at next level, right associativity) : lres_scope.
Notation "' p <- e ;; k" := (lbind e (fun p => k)) (at level 100, p pattern, e at next level, right associativity) : lres_scope.

Definition lift {A} (r : res A) : lres A :=
  match r with Ok a => LOk a | Err e => LErr (LDec e) end.
Definition lift_as {A} (e : lerr) (r : res A) : lres A :=
  match r with Ok a => LOk a | Err _ => LErr e end.
Definition from_option {A} (e : lerr) (o : option A) : lres A :=
  match o with Some a => LOk a | None => LErr e end.
Definition check (c : bool) (e : lerr) : lres unit := if c then LOk tt else LErr e.

Record env := { e_time : ts; e_authority : addr }.
