(* Ledger model: the handlers of regen.ecocredit.marketplace.v1.Msg and the begin-block pruning of
   expired sell orders (x/ecocredit/marketplace/keeper/*.go). *)
From stdpp Require Import gmap.
From RecordUpdate Require Import RecordSet.
From Coq Require Import ZArith NArith List Bool Strings.Byte Strings.String.
Require Import Regen.Base.Bytes Regen.Base.Calendar Regen.Dec.Dec Regen.Ids.Ids Regen.Generated.LedgerConsts.
Require Import Regen.Ledger.Types Regen.Ledger.Msgs Regen.Ledger.Orm Regen.Ledger.BaseMsgs.
Import ListNotations RecordSetNotations.
Local Open Scope Z_scope.
Local Open Scope lres_scope.

(* ------------------------------------------------------------------ *)
(* escrow helpers                                                      *)
(* ------------------------------------------------------------------ *)

(* escrowCredits *)
Definition escrow_credits (seller : addr) (bk : N) (q : dec) (s : state) : lres state :=
  bal <- from_option LInsufficient (balances s !! (seller, bk)) ;;
  nt <- lift_as LInsufficient (safe_sub_balance (bl_tradable bal) q) ;;
  ne <- lift (safe_add_balance (bl_escrowed bal) q) ;;
  update_balance seller bk {| bl_tradable := dnorm nt; bl_retired := bl_retired bal; bl_escrowed := dnorm ne |} s.

(* unescrowCredits: the quantity arrives as a string *)
Definition unescrow_credits (seller : addr) (bk : N) (quantity : bytes) (s : state) : lres state :=
  q <- lift (parse quantity) ;;
  bal <- from_option LOrm (balances s !! (seller, bk)) ;;
  ne <- lift (safe_sub_balance (bl_escrowed bal) q) ;;
  nt <- lift (safe_add_balance (bl_tradable bal) q) ;;
  update_balance seller bk {| bl_tradable := dnorm nt; bl_retired := bl_retired bal; bl_escrowed := dnorm ne |} s.

(* getOrCreateMarketID *)
Definition get_or_create_market (ct denom : bytes) (s : state) : state * N :=
  match map_find (fun _ m => bytes_eqb (mk_ct m) ct && bytes_eqb (mk_denom m) denom) (markets s) with
  | Some (id, _) => (s, id)
  | None =>
      let id := (market_seq_id s + 1)%N in
      (s <| markets := <[id := {| mk_ct := ct; mk_denom := denom; mk_precision_modifier := 0 |}]> (markets s) |>
         <| market_seq_id := id |>, id)
  end.

Definition is_denom_allowed (s : state) (d : bytes) : bool :=
  match allowed_denoms s !! d with Some _ => true | None => false end.

Definition ts_after (a c : ts) : bool := match ts_compare a c with Gt => true | _ => false end.

(* the abbreviation under which a class's credit type is stored *)
Definition credit_type_abbrev_of_denom (s : state) (denom : bytes) : lres (bytes * credit_type) :=
  let cid := get_class_id_from_batch_denom denom in
  '(_, c) <- from_option LInvalid (class_by_id s cid) ;;
  ct <- from_option LOrm (credit_types s !! cl_ct c) ;;
  LOk (cl_ct c, ct).

(* ------------------------------------------------------------------ *)
(* Sell                                                                *)
(* ------------------------------------------------------------------ *)

Definition sell_one (e : env) (seller : addr) (acc : state * list N) (o : sell_req) : lres (state * list N) :=
  let '(s, ids) := acc in
  '(bk, ba) <- from_option LInvalid (batch_by_denom s (sl_denom o)) ;;
  '(abbrev, ct) <- credit_type_abbrev_of_denom s (ba_denom ba) ;;
  ask <- from_option LPanic (sl_ask o) ;;
  let '(s, market_id) := get_or_create_market abbrev (c_denom ask) s in
  _ <- check (match sl_expiration o with Some x => ts_after x (e_time e) | None => true end) LInvalid ;;
  q <- lift (posfixed (ct_precision ct) (sl_quantity o)) ;;
  s <- escrow_credits seller bk q s ;;
  _ <- check (is_denom_allowed s (c_denom ask)) LInvalid ;;
  let id := (sell_order_seq_id s + 1)%N in
  let s := s <| sell_orders := <[id := {| so_seller := seller; so_batch_key := bk; so_quantity := to_string q;
                                          so_market_id := market_id; so_ask_amount := c_amount ask;
                                          so_disable_auto_retire := sl_disable_auto_retire o;
                                          so_expiration := sl_expiration o; so_maker := true |}]> (sell_orders s) |>
             <| sell_order_seq_id := id |> in
  LOk (s, ids ++ [id]).

Definition h_sell (e : env) (s : state) (seller : addr) (orders : list sell_req) : hres :=
  '(s, ids) <- lfold (sell_one e seller) orders (s, []) ;;
  ret s (RSellOrderIds ids).

(* ------------------------------------------------------------------ *)
(* UpdateSellOrders                                                    *)
(* ------------------------------------------------------------------ *)

Definition update_one (e : env) (seller : addr) (s : state) (u : update_req) : lres state :=
  o <- from_option LInvalid (sell_orders s !! up_id u) ;;
  _ <- check (so_seller o =? seller)%N LUnauthorized ;;
  ba <- from_option LOrm (batches s !! so_batch_key o) ;;
  '(abbrev, ct) <- credit_type_abbrev_of_denom s (ba_denom ba) ;;
  (* new ask price *)
  '(s, market_id, ask_amount) <-
    match up_ask u with
    | None => LOk (s, so_market_id o, so_ask_amount o)
    | Some ask =>
        mk <- from_option LOrm (markets s !! so_market_id o) ;;
        _ <- check (is_denom_allowed s (c_denom ask)) LInvalid ;;
        if bytes_eqb (mk_denom mk) (c_denom ask) then LOk (s, so_market_id o, c_amount ask)
        else let '(s, id) := get_or_create_market abbrev (c_denom ask) s in LOk (s, id, c_amount ask)
    end ;;
  (* new expiration *)
  expiration <-
    match up_expiration u with
    | None => LOk (so_expiration o)
    | Some x => _ <- check (ts_after x (e_time e)) LInvalid ;; LOk (Some x)
    end ;;
  (* new quantity *)
  '(s, quantity) <-
    match up_quantity u with
    | [] => LOk (s, so_quantity o)
    | _ =>
        nq <- lift (posfixed (ct_precision ct) (up_quantity u)) ;;
        cq <- lift (parse (so_quantity o)) ;;
        match cmp nq cq with
        | Gt => d <- lift (sub nq cq) ;;
                s <- escrow_credits (so_seller o) (so_batch_key o) d s ;;
                LOk (s, to_string nq)
        | Lt => d <- lift (sub cq nq) ;;
                s <- unescrow_credits (so_seller o) (so_batch_key o) (to_string d) s ;;
                LOk (s, to_string nq)
        | Eq => LOk (s, so_quantity o)
        end
    end ;;
  m <- orm_update (up_id u) {| so_seller := so_seller o; so_batch_key := so_batch_key o; so_quantity := quantity;
                               so_market_id := market_id; so_ask_amount := ask_amount;
                               so_disable_auto_retire := up_disable_auto_retire u;
                               so_expiration := expiration; so_maker := true |} (sell_orders s) ;;
  LOk (s <| sell_orders := m |>).

Definition h_update_sell_orders (e : env) (s : state) (seller : addr) (updates : list update_req) : hres :=
  s <- lfold (update_one e seller) updates s ;; ret s REmpty.

(* ------------------------------------------------------------------ *)
(* CancelSellOrder                                                     *)
(* ------------------------------------------------------------------ *)

Definition h_cancel_sell_order (e : env) (s : state) (seller : addr) (id : N) : hres :=
  o <- from_option LInvalid (sell_orders s !! id) ;;
  _ <- check (so_seller o =? seller)%N LUnauthorized ;;
  s <- unescrow_credits seller (so_batch_key o) (so_quantity o) s ;;
  ret (s <| sell_orders := delete id (sell_orders s) |>) REmpty.

(* ------------------------------------------------------------------ *)
(* BuyDirect                                                           *)
(* ------------------------------------------------------------------ *)

Definition dec_of_int (z : Z) : dec := mkDec (z <? 0) (Z.abs z) 0.   (* NewDecFromInt64 / integer strings *)

(* the stored fee rate, zero when unset or empty *)
Definition fee_rate (str : bytes) : lres dec :=
  match str with [] => LOk dzero | _ => lift (non_negative_dec_from_string str) end.

Definition buyer_rate (s : state) : lres dec :=
  match fee_params_ s with None => LOk dzero | Some fp => fee_rate (fp_buyer fp) end.
Definition seller_rate (s : state) : lres dec :=
  match fee_params_ s with None => LOk dzero | Some fp => fee_rate (fp_seller fp) end.

(* getSubTotalCost *)
Definition sub_total_cost (ask : Z) (q : dec) : lres dec :=
  unit_price <- lift (positive_fixed_dec_from_string (Z_to_dec ask) (num_decimal_places q)) ;;
  lift (mul q unit_price).

(* fillOrder *)
Definition fill_order (id : N) (o : sell_order) (buyer : addr) (q : dec) (buyer_fee subtotal : dec)
    (auto_retire : bool) (denom : bytes) (s : state) : lres state :=
  oq <- lift (parse (so_quantity o)) ;;
  s <- match cmp oq q with
       | Lt => LErr LInvalid
       | Eq => LOk (s <| sell_orders := delete id (sell_orders s) |>)
       | Gt => nq <- lift (sub oq q) ;;
               m <- orm_update id {| so_seller := so_seller o; so_batch_key := so_batch_key o;
                                     so_quantity := to_string nq; so_market_id := so_market_id o;
                                     so_ask_amount := so_ask_amount o;
                                     so_disable_auto_retire := so_disable_auto_retire o;
                                     so_expiration := so_expiration o; so_maker := so_maker o |} (sell_orders s) ;;
               LOk (s <| sell_orders := m |>)
       end ;;
  sb <- from_option LOrm (balances s !! (so_seller o, so_batch_key o)) ;;
  ne <- lift (safe_sub_balance (bl_escrowed sb) q) ;;
  s <- update_balance (so_seller o) (so_batch_key o)
         {| bl_tradable := bl_tradable sb; bl_retired := bl_retired sb; bl_escrowed := dnorm ne |} s ;;
  let bb := get_balance s buyer (so_batch_key o) in
  s <- (if negb auto_retire then
          nt <- lift (safe_add_balance (bl_tradable bb) q) ;;
          LOk (save_balance buyer (so_batch_key o)
                 {| bl_tradable := dnorm nt; bl_retired := bl_retired bb; bl_escrowed := bl_escrowed bb |} s)
        else
          nr <- lift (safe_add_balance (bl_retired bb) q) ;;
          su <- from_option LOrm (supplies s !! so_batch_key o) ;;
          st <- lift (safe_sub_balance (su_tradable su) q) ;;
          sr <- lift (safe_add_balance (su_retired su) q) ;;
          s <- update_supply (so_batch_key o)
                 {| su_tradable := dnorm st; su_retired := dnorm sr; su_cancelled := su_cancelled su |} s ;;
          LOk (save_balance buyer (so_batch_key o)
                 {| bl_tradable := bl_tradable bb; bl_retired := dnorm nr; bl_escrowed := bl_escrowed bb |} s)) ;;
  rate <- seller_rate s ;;
  seller_fee <- lift (mul subtotal rate) ;;
  total_fee <- lift (add buyer_fee seller_fee) ;;
  s <- (if is_positive total_fee then
          amount <- lift (sdk_int_trim total_fee) ;;
          coins <- new_coins1 denom amount ;;
          s <- send_coins buyer addr_feepool coins s ;;
          if bytes_eqb denom uregen then burn_coins addr_feepool coins s else LOk s
        else LOk s) ;;
  payment <- lift (sub subtotal seller_fee) ;;
  pay <- lift (sdk_int_trim payment) ;;
  coins <- new_coins1 denom pay ;;
  send_coins buyer (so_seller o) coins s.

Definition buy_one (e : env) (buyer : addr) (s : state) (r : buy_req) : lres state :=
  o <- from_option LInvalid (sell_orders s !! by_id r) ;;
  _ <- check (negb (so_seller o =? buyer)%N) LUnauthorized ;;
  _ <- check (negb (by_disable_auto_retire r && negb (so_disable_auto_retire o))) LInvalid ;;
  ba <- from_option LOrm (batches s !! so_batch_key o) ;;
  ct <- credit_type_of_denom s (ba_denom ba) ;;
  q <- lift_as LInvalid (posfixed (ct_precision ct) (by_quantity r)) ;;
  mk <- from_option LInvalid (markets s !! so_market_id o) ;;
  bid <- from_option LPanic (by_bid r) ;;
  _ <- check (bytes_eqb (c_denom bid) (mk_denom mk)) LInvalid ;;
  _ <- check (so_ask_amount o <=? c_amount bid) LInvalid ;;
  subtotal <- sub_total_cost (so_ask_amount o) q ;;
  rate <- buyer_rate s ;;
  buyer_fee <- lift (mul subtotal rate) ;;
  total <- lift (add subtotal buyer_fee) ;;
  total_cost <- lift (sdk_int_trim total) ;;
  fee_trunc <- lift (sdk_int_trim buyer_fee) ;;
  _ <- match by_max_fee r with
       | None => check (fee_trunc <=? 0) LInvalid
       | Some mf => if negb (bytes_eqb (c_denom mf) (mk_denom mk)) then LErr LPanic   (* Coin.IsLT on different denoms *)
                    else check (fee_trunc <=? c_amount mf) LInvalid
       end ;;
  _ <- check (total_cost <=? bank_bal s buyer (c_denom bid)) LInsufficient ;;
  fill_order (by_id r) o buyer q buyer_fee subtotal (negb (by_disable_auto_retire r)) (mk_denom mk) s.

Definition h_buy_direct (e : env) (s : state) (buyer : addr) (orders : list buy_req) : hres :=
  s <- lfold (buy_one e buyer) orders s ;; ret s REmpty.

(* ------------------------------------------------------------------ *)
(* governance                                                          *)
(* ------------------------------------------------------------------ *)

Definition h_add_allowed_denom (e : env) (s : state) (authority : addr) (bank_denom display_denom : bytes) (exponent : Z) : hres :=
  _ <- check (is_authority e authority) LUnauthorized ;;
  _ <- check (negb (is_denom_allowed s bank_denom)) LConflict ;;
  _ <- check (negb (map_exists (fun _ v => bytes_eqb v.1 display_denom) (allowed_denoms s))) LConflict ;;
  ret (s <| allowed_denoms := <[bank_denom := (display_denom, exponent)]> (allowed_denoms s) |>) REmpty.

Definition h_remove_allowed_denom (e : env) (s : state) (authority : addr) (denom : bytes) : hres :=
  _ <- check (is_authority e authority) LUnauthorized ;;
  _ <- check (is_denom_allowed s denom) LNotFound ;;
  ret (s <| allowed_denoms := delete denom (allowed_denoms s) |>) REmpty.

Definition h_gov_set_fee_params (e : env) (s : state) (authority : addr) (fees : option fee_params) : hres :=
  _ <- check (is_authority e authority) LUnauthorized ;;
  fp <- from_option LPanic fees ;;
  ret (s <| fee_params_ := Some fp |>) REmpty.

Definition h_gov_send_from_fee_pool (e : env) (s : state) (authority recipient : addr) (coins : list coin) : hres :=
  _ <- check (is_authority e authority) LUnauthorized ;;
  s <- send_coins_from_module_to_account addr_feepool recipient coins s ;;
  ret s REmpty.

(* ------------------------------------------------------------------ *)
(* PruneSellOrders (BeginBlock)                                        *)
(* ------------------------------------------------------------------ *)

Definition prune_lower : ts := {| secs := LedgerConsts.prune_lower_secs; nanos := LedgerConsts.prune_lower_nanos |}.     (* time.Unix(0, 1) *)

Definition ts_leb (a c : ts) : bool := match ts_compare a c with Gt => false | _ => true end.

(* the orders in the inclusive index range [Unix(0,1), block time]; a missing expiration is indexed as 0 *)
Definition expired (t : ts) (o : sell_order) : bool :=
  match so_expiration o with
  | Some x => ts_leb prune_lower x && ts_leb x t
  | None => false
  end.

Definition order_leb (x y : N * sell_order) : bool :=
  match so_expiration x.2, so_expiration y.2 with
  | Some a, Some c => match ts_compare a c with Lt => true | Gt => false | Eq => (x.1 <=? y.1)%N end
  | _, _ => (x.1 <=? y.1)%N
  end.

Definition expired_orders (t : ts) (s : state) : list (N * sell_order) :=
  sort_by order_leb (List.filter (fun kv => expired t kv.2) (map_to_list (sell_orders s))).

Definition prune_sell_orders (t : ts) (s : state) : lres state :=
  let l := expired_orders t s in
  s <- lfold (fun s kv => unescrow_credits (so_seller kv.2) (so_batch_key kv.2) (so_quantity kv.2) s) l s ;;
  LOk (s <| sell_orders := fold_left (fun m kv => delete kv.1 m) l (sell_orders s) |>).
