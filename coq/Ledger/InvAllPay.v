(* Assembly, C07 (partial): the values of the amounts fill_order_spec names, as rational numbers.

   fill_order_spec (InvMarketFill.v) states WHICH decimals are computed (seller fee = Mul(subtotal, seller rate),
   total fee = Add(buyer fee, seller fee), payment = Sub(subtotal, seller fee), the coins are SdkIntTrim of the
   total fee and of the payment) and where the coins go.  Here: what those decimals are worth.  Mul rounds to 34
   significant digits (half up), Add and Sub are exact, SdkIntTrim truncates toward zero.  When Mul does not
   round (MulExact succeeds) the payment is exactly floor(subtotal * (1 - seller rate)).

   PARTIAL: the statements are about the decimal operations with their operands given; the operands' own values
   (subtotal = quantity * ask price, buyer fee = subtotal * buyer rate, each again a 34-digit Mul) obey the same
   lemmas but are not composed into one closed formula. *)
From stdpp Require Import gmap.
From Coq Require Import ZArith NArith List Bool Lia QArith Qabs Strings.Byte.
Require Import Regen.Base.Bytes Regen.Base.Calendar Regen.Dec.Dec Regen.Dec.DecLemmas Regen.Dec.DecIface
               Regen.Dec.DecProps Regen.Dec.DecRound.
Require Import Regen.Ledger.Types Regen.Ledger.Msgs Regen.Ledger.Orm Regen.Ledger.BaseMsgs
               Regen.Ledger.MarketMsgs Regen.Ledger.Amount Regen.Ledger.InvTactics.
Import ListNotations.
Local Open Scope Z_scope.

(* the operands are well-formed decimals *)
Lemma fee_rate_wf str d : fee_rate str = LOk d -> dwf d /\ (0 <= dval d)%Q.
Proof.
  unfold fee_rate. destruct str as [|c str'].
  - intros H. inversion H. split; [unfold dwf, dzero; cbn; lia | unfold dval, dzero; cbn; discriminate].
  - intros H. apply lift_ok in H. split; [|eapply nonneg_gate; exact H].
    apply non_negative_inv in H. destruct H as [H _]. eapply parse_wf. exact H.
Qed.

Theorem seller_rate_wf s rate : seller_rate s = LOk rate -> dwf rate /\ (0 <= dval rate)%Q.
Proof.
  unfold seller_rate. destruct (fee_params_ s) as [fp|]; [apply fee_rate_wf|].
  intros H. inversion H. split; [unfold dwf, dzero; cbn; lia | unfold dval, dzero; cbn; discriminate].
Qed.

Theorem buyer_rate_wf s rate : buyer_rate s = LOk rate -> dwf rate /\ (0 <= dval rate)%Q.
Proof.
  unfold buyer_rate. destruct (fee_params_ s) as [fp|]; [apply fee_rate_wf|].
  intros H. inversion H. split; [unfold dwf, dzero; cbn; lia | unfold dval, dzero; cbn; discriminate].
Qed.

(* the subtotal is quantity * ask price up to 34-digit rounding *)
Theorem sub_total_cost_value ask q st :
  dwf q -> sub_total_cost ask q = LOk st ->
  exists price, positive_fixed_dec_from_string (Z_to_dec ask) (num_decimal_places q) = Ok price /\
    dwf st /\ (Qabs (dval st - dval q * dval price) <= (1 # 2) * q10 ^ dexp st)%Q.
Proof.
  intros Hq H. unfold sub_total_cost in H. lstep H as price Hp. apply lift_ok in H.
  exists price. split; [exact Hp|].
  assert (Hwp : dwf price) by (apply posfixed_ok in Hp; unfold dwf; lia).
  destruct (mul_round_bound q price st Hq Hwp H) as (Hb & Hw & _). split; assumption.
Qed.

(* C07, partial: seller fee, payment and the coins paid to the seller *)
Theorem payment_value_partial st rate sfee payment pay :
  dwf st -> dwf rate -> mul st rate = Ok sfee -> sub st sfee = Ok payment -> sdk_int_trim payment = Ok pay -> 0 <= pay ->
  (* Mul: within half a unit in the last of 34 digits; Sub: exact; SdkIntTrim: truncation *)
  (Qabs (dval sfee - dval st * dval rate) <= (1 # 2) * q10 ^ dexp sfee)%Q /\
  (dval payment == dval st - dval sfee)%Q /\
  (inject_Z pay <= Qabs (dval payment))%Q /\ (Qabs (dval payment) < inject_Z pay + 1)%Q.
Proof.
  intros Hst Hrate Hm Hs Ht Hp.
  destruct (mul_round_bound st rate sfee Hst Hrate Hm) as (Hb & Hw & _).
  pose proof (sub_exact st sfee payment Hst Hw Hs) as He.
  pose proof (sub_wf st sfee payment Hst Hw Hs) as Hwp.
  destruct (trim_toward_zero payment pay Hwp Ht) as (T1 & T2 & _).
  rewrite Z.abs_eq in T1, T2 by exact Hp. tauto.
Qed.

(* when the fee multiplication does not round, the payment is subtotal * (1 - rate), truncated *)
Theorem payment_value_exact_partial st rate sfee payment pay :
  dwf st -> dwf rate -> mul_exact st rate = Ok sfee -> sub st sfee = Ok payment -> sdk_int_trim payment = Ok pay -> 0 <= pay ->
  mul st rate = Ok sfee /\
  (dval payment == dval st * (1 - dval rate))%Q /\
  (inject_Z pay <= Qabs (dval payment))%Q /\ (Qabs (dval payment) < inject_Z pay + 1)%Q.
Proof.
  intros Hst Hrate Hm Hs Ht Hp.
  assert (Hmul : mul st rate = Ok sfee).
  { unfold mul_exact, mul, bind in *. destruct (mul_ctx st rate) as [[d rounded]|]; [|discriminate].
    destruct rounded; [discriminate | exact Hm]. }
  split; [exact Hmul|].
  destruct (payment_value_partial st rate sfee payment pay Hst Hrate Hmul Hs Ht Hp) as (_ & He & T1 & T2).
  split; [|split; assumption].
  rewrite He, (mul_exact_value st rate sfee Hm). ring.
Qed.

(* the fee collected from the buyer: buyer fee + seller fee, exact sum, truncated *)
Theorem fee_value_partial bf sfee tfee fee :
  dwf bf -> dwf sfee -> add bf sfee = Ok tfee -> sdk_int_trim tfee = Ok fee -> 0 <= fee ->
  (dval tfee == dval bf + dval sfee)%Q /\
  (inject_Z fee <= Qabs (dval tfee))%Q /\ (Qabs (dval tfee) < inject_Z fee + 1)%Q.
Proof.
  intros Hb Hs Ha Ht Hp. pose proof (add_exact bf sfee tfee Hb Hs Ha) as He.
  pose proof (add_wf bf sfee tfee Hb Hs Ha) as Hw.
  destruct (trim_toward_zero tfee fee Hw Ht) as (T1 & T2 & _).
  rewrite Z.abs_eq in T1, T2 by exact Hp. tauto.
Qed.
