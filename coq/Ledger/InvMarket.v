(* Marketplace proofs, top level: the theorems about the eight marketplace messages and about
   begin-block pruning (properties C06, C12 and the marketplace parts of C01 - C04, C07).

   Hypotheses used besides Inv_core:
   * [Inv_bound s] (InvMarketLib.v): every tradable supply is representable, U < BOUND = 10^100007 units,
     i.e. it is a decimal apd accepts (adjusted exponent <= 100000).  Needed because fillOrder / Sell /
     Update store [to_string d] and the order invariant needs it to parse again, and because the additions in
     unescrowCredits must not return "exponent out of range".  Preserved by every marketplace message and by
     pruning (tradable supplies never grow); for the other handlers it follows from the fact that every
     stored amount is the Ok result of an addition (InvMarketLib.add_gen_result_bound).
   * [Inv_qty s] (InvMarketOrders.v), for BeginBlock totality only: stored order quantities have no positive
     exponent.  Established by Sell / Update / fillOrder storing the plain rendering; InvMarketHalt.v shows
     that BeginBlock fails without it. *)
From stdpp Require Import gmap.
From RecordUpdate Require Import RecordSet.
From Coq Require Import ZArith NArith List Bool Lia Strings.Byte.
Require Import Regen.Base.Bytes Regen.Base.Calendar Regen.Dec.Dec.
Require Import Regen.Ledger.Types Regen.Ledger.Msgs Regen.Ledger.Orm Regen.Ledger.BaseMsgs
               Regen.Ledger.BasketMsgs Regen.Ledger.MarketMsgs Regen.Ledger.Step
               Regen.Ledger.Amount Regen.Ledger.MapSum Regen.Ledger.Inv Regen.Ledger.InvTactics
               Regen.Ledger.InvMarketLib Regen.Ledger.InvMarketPrim Regen.Ledger.InvMarketOrders
               Regen.Ledger.InvMarketSell Regen.Ledger.InvMarketPrune Regen.Ledger.InvMarketUpdate
               Regen.Ledger.InvMarketBuy.
Import ListNotations RecordSetNotations.
Local Open Scope Z_scope.

Definition is_market_msg (m : msg) : bool :=
  match m with
  | MSell _ _ | MUpdateSellOrders _ _ | MCancelSellOrder _ _ | MBuyDirect _ _
  | MAddAllowedDenom _ _ _ _ | MRemoveAllowedDenom _ _ | MGovSetFeeParams _ _ | MGovSendFromFeePool _ _ _ => true
  | _ => false
  end.

(* everything at once *)
Theorem market_step e s m s' r evs :
  is_market_msg m = true -> Inv_core s -> Inv_bound s -> validate_basic m = true ->
  handle e s m = LOk (s', r, evs) -> step_ok s s'.
Proof.
  intros Hm Hc Hb Hvb H. destruct m; try discriminate Hm; cbn [handle validate_basic] in H, Hvb.
  - apply andb_true_iff in Hvb. eapply h_sell_step; [exact Hc | exact Hb | apply Hvb | exact H].
  - apply andb_true_iff in Hvb. eapply h_update_step; [exact Hc | exact Hb | apply Hvb | exact H].
  - eapply cancel_step; eassumption.
  - eapply h_buy_step; eassumption.
  - eapply add_allowed_denom_step; eassumption.
  - eapply remove_allowed_denom_step; eassumption.
  - eapply gov_set_fee_params_step; eassumption.
  - eapply gov_send_from_fee_pool_step; eassumption.
Qed.

Section market.
  Context (e : env) (s : state) (m : msg) (s' : state) (r : response) (evs : list event).
  Hypothesis Hm : is_market_msg m = true.
  Hypothesis Hc : Inv_core s.
  Hypothesis Hb : Inv_bound s.
  Hypothesis Hvb : validate_basic m = true.
  Hypothesis H : handle e s m = LOk (s', r, evs).

  Let Hstep : step_ok s s' := market_step e s m s' r evs Hm Hc Hb Hvb H.

  Theorem market_preserves_core : Inv_core s'.
  Proof. apply Hstep. Qed.

  Theorem market_preserves_bound : Inv_bound s'.
  Proof. eapply mframe_bound; [apply Hstep | exact Hb]. Qed.

  (* C06 *)
  Theorem market_preserves_orders : Inv_orders s -> Inv_orders s'.
  Proof. apply Hstep. Qed.

  Theorem market_preserves_qty : Inv_qty s -> Inv_qty s'.
  Proof. apply Hstep. Qed.

  (* every table outside the marketplace's write set is untouched *)
  Theorem market_frame : s' = mk_frame s s'.
  Proof. destruct Hstep as (_ & [Ho _ _ _ _] & _ & _). exact Ho. Qed.

  Theorem market_frame_basket :
    baskets s' = baskets s /\ basket_balances s' = basket_balances s /\
    (forall d, d <> uregen -> bank_sup s' d = bank_sup s d) /\ bank_sup s' uregen <= bank_sup s uregen.
  Proof.
    destruct Hstep as (_ & [Ho _ _ H1 H2] & _ & _). destruct (market_only_fields _ _ Ho) as (_ & _ & _ & _ & F5 & _ & F7 & _).
    tauto.
  Qed.

  (* C04 *)
  Theorem market_monotone :
    (forall a k, U (bl_retired (get_balance s a k)) <= U (bl_retired (get_balance s' a k))) /\
    (forall k su, supplies s !! k = Some su -> exists su', supplies s' !! k = Some su' /\
        U (su_retired su) <= U (su_retired su') /\ U (su_cancelled su) <= U (su_cancelled su')).
  Proof.
    destruct Hstep as (_ & [_ Hr Hs _ _] & _ & _). split; [exact Hr|].
    intros k su Hsu. specialize (Hs k). rewrite Hsu in Hs.
    destruct (supplies s' !! k) as [su'|]; cbn [sup_rel] in Hs; [|contradiction].
    exists su'. destruct Hs as (_ & H2 & H3 & _). rewrite H3. split; [reflexivity|]. split; lia.
  Qed.

  (* C02 *)
  Theorem market_total_effect :
    (forall k su, supplies s !! k = Some su -> exists su', supplies s' !! k = Some su' /\
        U (su_tradable su') + U (su_retired su') + U (su_cancelled su') =
        U (su_tradable su) + U (su_retired su) + U (su_cancelled su)) /\
    (forall k, is_Some (supplies s' !! k) <-> is_Some (supplies s !! k)) /\
    dom (supplies s') = dom (supplies s).
  Proof.
    destruct Hstep as (_ & [_ _ Hs _ _] & _ & _).
    assert (Hdom : forall k, is_Some (supplies s' !! k) <-> is_Some (supplies s !! k)).
    { intros k. specialize (Hs k). destruct (supplies s !! k), (supplies s' !! k); cbn [sup_rel] in Hs;
        try contradiction; split; intros [x Hx]; try discriminate; eauto. }
    split; [|split; [exact Hdom|]].
    - intros k su Hsu. specialize (Hs k). rewrite Hsu in Hs.
      destruct (supplies s' !! k) as [su'|]; cbn [sup_rel] in Hs; [|contradiction].
      exists su'. destruct Hs as (_ & _ & H3 & H4). rewrite H3. split; [reflexivity | lia].
    - apply stdpp.sets.set_eq. intros k. rewrite !elem_of_dom. apply Hdom.
  Qed.
End market.

(* ------------------------------------------------------------------ *)
(* begin block                                                         *)
(* ------------------------------------------------------------------ *)

Theorem prune_preserves_bound t s s' : Inv_core s -> Inv_bound s -> prune_sell_orders t s = LOk s' -> Inv_bound s'.
Proof. intros Hc Hb H. eapply mframe_bound; [apply (prune_step t s s' Hc H) | exact Hb]. Qed.

Theorem prune_preserves_orders t s s' : Inv_core s -> prune_sell_orders t s = LOk s' -> Inv_orders s -> Inv_orders s'.
Proof. intros Hc H. apply (prune_step t s s' Hc H). Qed.

Theorem prune_preserves_qty t s s' : Inv_core s -> prune_sell_orders t s = LOk s' -> Inv_qty s -> Inv_qty s'.
Proof. intros Hc H. apply (prune_step t s s' Hc H). Qed.

(* C12: BeginBlock never fails (never halts the chain) and keeps the invariants *)
Theorem begin_block_total t s : Inv_core s -> Inv_bound s -> Inv_qty s ->
  exists s', begin_block t s = LOk s' /\ Inv_core s' /\ Inv_bound s' /\ Inv_qty s' /\ (Inv_orders s -> Inv_orders s').
Proof.
  intros Hc Hb Hq. unfold begin_block. destruct (prune_total t s Hc Hb Hq) as [s' H]. exists s'.
  split; [exact H|]. split; [eapply prune_preserves_core; eassumption|].
  split; [eapply prune_preserves_bound; eassumption|].
  split; [eapply prune_preserves_qty; eassumption | eapply prune_preserves_orders; eassumption].
Qed.

(* C04 / C02 for pruning: supplies are untouched, retired balances are untouched *)
Theorem prune_monotone t s s' : Inv_core s -> prune_sell_orders t s = LOk s' ->
  supplies s' = supplies s /\ forall a k, bl_retired (get_balance s' a k) = bl_retired (get_balance s a k).
Proof.
  intros Hc H. destruct (prune_spec t s s' Hc H) as (_ & _ & _ & Hr & _).
  destruct (prune_frame t s s' Hc H) as (Hs & _). tauto.
Qed.

(* ------------------------------------------------------------------ *)
(* expiry of freshly written orders                                    *)
(* ------------------------------------------------------------------ *)

Theorem sell_expiry_future e seller s ids o s' ids' x :
  sell_one e seller (s, ids) o = LOk (s', ids') -> sl_expiration o = Some x ->
  ts_after x (e_time e) = true /\
  exists id o', ids' = ids ++ [id] /\ sell_orders s' !! id = Some o' /\ so_expiration o' = Some x.
Proof.
  intros H Hx. unfold sell_one in H.
  lstep H as p Hp. destruct p as [bk ba].
  lstep H as p2 Hp2. destruct p2 as [abbrev ct].
  lstep H as ask Hask.
  destruct (get_or_create_market abbrev (c_denom ask) s) as [s1 mid] eqn:Eg.
  lstep H as u1 Hu1. lstep H as q Hq. lstep H as s2 Hs2. lstep H as u2 Hu2.
  inversion H; subst s' ids'; clear H.
  rewrite Hx in Hu1. split; [exact Hu1|].
  eexists _, _. split; [reflexivity|]. cbn. rewrite lookup_insert. split; [reflexivity | exact Hx].
Qed.

(* ------------------------------------------------------------------ *)
(* the hypotheses are satisfiable                                      *)
(* ------------------------------------------------------------------ *)

Definition empty_state : state :=
  {| credit_types := ∅; classes := ∅; class_seq_id := 0; class_issuers := ∅; projects := ∅; project_seq_id := 0;
     batches := ∅; batch_seq_id := 0; class_sequences := ∅; project_sequences := ∅; batch_sequences := ∅;
     balances := ∅; supplies := ∅; origin_txs := ∅; batch_contracts := ∅; allowlist_enabled := false;
     allowed_creators := ∅; class_fee := None; allowed_bridge_chains := ∅; baskets := ∅; basket_seq_id := 0;
     basket_classes := ∅; basket_balances := ∅; basket_fee := None; sell_orders := ∅; sell_order_seq_id := 0;
     allowed_denoms := ∅; markets := ∅; market_seq_id := 0; fee_params_ := None; bank := ∅; bank_supply := ∅ |}.

Lemma empty_lookup_absurd {K V} `{Countable K} (k : K) (v : V) : (∅ : gmap K V) !! k = Some v -> False.
Proof. rewrite lookup_empty. discriminate. Qed.

Example market_hyps_satisfiable :
  Inv_core empty_state /\ Inv_bound empty_state /\ Inv_qty empty_state /\ Inv_orders empty_state.
Proof.
  split; [|split; [|split]].
  - split; [intros a ct H; exact (False_ind _ (empty_lookup_absurd _ _ H))|].
    split.
    { split; [intros k v H; exact (False_ind _ (empty_lookup_absurd _ _ H))|].
      split; [intros k v H; exact (False_ind _ (empty_lookup_absurd _ _ H))|].
      split; intros k v H; exact (False_ind _ (empty_lookup_absurd _ _ H)). }
    split.
    { split; [intros k1 k2 b1 b2 H; exact (False_ind _ (empty_lookup_absurd _ _ H))|].
      split; [intros k; cbn; split; intros [x Hx]; exact (False_ind _ (empty_lookup_absurd _ _ Hx))|].
      split; [intros a k v H; exact (False_ind _ (empty_lookup_absurd _ _ H))|].
      split; [intros id d v H; exact (False_ind _ (empty_lookup_absurd _ _ H))|].
      split; [intros id v H; exact (False_ind _ (empty_lookup_absurd _ _ H))|].
      split; [intros k [x Hx]; exact (False_ind _ (empty_lookup_absurd _ _ Hx))|].
      split; intros k [x Hx]; exact (False_ind _ (empty_lookup_absurd _ _ Hx)). }
    split; [intros bk ba su H; exact (False_ind _ (empty_lookup_absurd _ _ H))|].
    intros a bk. unfold get_balance. cbn [balances sell_orders empty_state]. rewrite lookup_empty.
    unfold order_sum. rewrite sum_map_empty. reflexivity.
  - intros k su H. exact (False_ind _ (empty_lookup_absurd _ _ H)).
  - intros id o H. exact (False_ind _ (empty_lookup_absurd _ _ H)).
  - split; [intros id o H; exact (False_ind _ (empty_lookup_absurd _ _ H))|].
    intros k [x Hx]. exact (False_ind _ (empty_lookup_absurd _ _ Hx)).
Qed.
