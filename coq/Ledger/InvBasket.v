(* Basket theorems, message level: every message of regen.ecocredit.basket.v1.Msg preserves the
   credit-accounting invariants (C01 part) and the 1:1 backing of basket tokens (C05), never lowers a
   retired or cancelled amount and keeps every batch total (C02, C04), and leaves sell orders, escrow,
   batches, classes, projects and credit types alone. *)
From stdpp Require Import gmap.
From RecordUpdate Require Import RecordSet.
From Coq Require Import ZArith NArith List Bool Lia Strings.Byte.
Require Import Regen.Base.Bytes Regen.Base.Calendar Regen.Dec.Dec Regen.Ids.Ids.
Require Import Regen.Ledger.Types Regen.Ledger.Msgs Regen.Ledger.Orm Regen.Ledger.BaseMsgs
               Regen.Ledger.BasketMsgs Regen.Ledger.MarketMsgs Regen.Ledger.Step
               Regen.Ledger.Amount Regen.Ledger.MapSum Regen.Ledger.Inv Regen.Ledger.InvTactics
               Regen.Ledger.InvBasketLib Regen.Ledger.InvBasketPut Regen.Ledger.InvBasketTake
               Regen.Ledger.InvBasketAdmin.
Import RecordSetNotations.
Local Open Scope Z_scope.

Definition is_basket_msg (m : msg) : bool :=
  match m with
  | MBasketCreate _ _ _ _ _ _ _ _ | MPut _ _ _ | MTake _ _ _ _ _ _ _
  | MUpdateBasketFee _ _ | MUpdateCurator _ _ _ | MUpdateDateCriteria _ _ _ => true
  | _ => false
  end.

Lemma vb_take_pos owner bd amount loc retire j reason :
  validate_basic (MTake owner bd amount loc retire j reason) = true ->
  forall t, parse_sdk_int amount = Some t -> 0 < t.
Proof.
  cbn [validate_basic]. intros H t Ht.
  apply andb_true_iff in H. destruct H as [H _]. apply andb_true_iff in H. destruct H as [_ H].
  rewrite Ht in H. apply Z.ltb_lt in H. exact H.
Qed.

(* ------------------------------------------------------------------ *)
(* administrative handlers                                             *)
(* ------------------------------------------------------------------ *)

Lemma update_basket_fee_spec e s a fee s' r evs :
  h_update_basket_fee e s a fee = LOk (s', r, evs) -> s' = s <| basket_fee := normalise_fee fee |>.
Proof. unfold h_update_basket_fee. intros H. lstep H as u Hu. unfold ret in H. inversion H. reflexivity. Qed.

Lemma update_curator_spec e s c d nc s' r evs :
  h_update_curator e s c d nc = LOk (s', r, evs) ->
  exists id k k', baskets s !! id = Some k /\ bk_denom k' = bk_denom k /\ s' = set_basket id k' s.
Proof.
  unfold h_update_curator. intros H. lstep H as x Hx. destruct x as [id k]. lstep H as u Hu.
  unfold ret in H. inversion H; subst; clear H. destruct (basket_by_denom_Some _ _ _ _ Hx) as [Hk _].
  eexists id, k, _. split; [exact Hk|]. split; [|reflexivity]. reflexivity.
Qed.

Lemma update_date_criteria_spec e s a d crit s' r evs :
  h_update_date_criteria e s a d crit = LOk (s', r, evs) ->
  exists id k k', baskets s !! id = Some k /\ bk_denom k' = bk_denom k /\ s' = set_basket id k' s.
Proof.
  unfold h_update_date_criteria. intros H. lstep H as u Hu. lstep H as x Hx. destruct x as [id k].
  unfold ret in H. inversion H; subst; clear H. destruct (basket_by_denom_Some _ _ _ _ Hx) as [Hk _].
  eexists id, k, _. split; [exact Hk|]. split; [|reflexivity]. reflexivity.
Qed.

Lemma set_fee_core s f : Inv_core s -> Inv_core (s <| basket_fee := f |>) /\ step_ok s (s <| basket_fee := f |>).
Proof.
  intros Hcore. assert (Hsame : credit_same s (s <| basket_fee := f |>)) by (split; reflexivity).
  split; [|apply credit_same_step_ok; exact Hsame].
  pose proof Hcore as (_ & _ & (_ & _ & _ & _ & _ & _ & _ & K8) & _).
  apply (credit_same_core _ _ Hsame); [intros id Hid; exact Hid | exact K8 | exact Hcore].
Qed.

(* ------------------------------------------------------------------ *)
(* C01 (basket part), C02, C04 and the frames                          *)
(* ------------------------------------------------------------------ *)

Theorem basket_core_step e s m s' r evs :
  is_basket_msg m = true -> Inv_core s -> validate_basic m = true ->
  handle e s m = LOk (s', r, evs) -> Inv_core s' /\ step_ok s s'.
Proof.
  intros Hm Hcore Hvb H. destruct m; try discriminate Hm; cbn [handle] in H.
  - eapply create_core; eassumption.
  - eapply put_core; eassumption.
  - eapply take_core; [exact Hcore | eapply vb_take_pos; exact Hvb | exact H].
  - apply update_basket_fee_spec in H. subst s'. apply set_fee_core. exact Hcore.
  - apply update_curator_spec in H. destruct H as (id & k & k' & Hk & Hd & ->).
    eapply set_basket_same_denom; eassumption.
  - apply update_date_criteria_spec in H. destruct H as (id & k & k' & Hk & Hd & ->).
    eapply set_basket_same_denom; eassumption.
Qed.

Theorem basket_preserves_core e s m s' r evs :
  is_basket_msg m = true -> Inv_core s -> validate_basic m = true ->
  handle e s m = LOk (s', r, evs) -> Inv_core s'.
Proof. intros Hm Hcore Hvb H. eapply basket_core_step; eassumption. Qed.

(* C04: retired balances and retired / cancelled supplies never decrease *)
Theorem basket_monotone e s m s' r evs :
  is_basket_msg m = true -> Inv_core s -> validate_basic m = true ->
  handle e s m = LOk (s', r, evs) ->
  (forall a k, U (bl_retired (get_balance s a k)) <= U (bl_retired (get_balance s' a k))) /\
  (forall k su, supplies s !! k = Some su ->
     exists su', supplies s' !! k = Some su' /\
       U (su_retired su) <= U (su_retired su') /\ U (su_cancelled su) <= U (su_cancelled su')).
Proof.
  intros Hm Hcore Hvb H. destruct (basket_core_step _ _ _ _ _ _ Hm Hcore Hvb H) as [_ S].
  split; [apply (so_ret _ _ S)|]. intros k su Hk.
  destruct (so_sup _ _ S _ _ Hk) as (su' & A & B & C & _). eauto.
Qed.

(* C02: every supply row keeps its total tradable + retired + cancelled; no row is added or removed *)
Theorem basket_total_effect e s m s' r evs :
  is_basket_msg m = true -> Inv_core s -> validate_basic m = true ->
  handle e s m = LOk (s', r, evs) ->
  (forall k su, supplies s !! k = Some su ->
     exists su', supplies s' !! k = Some su' /\ supply_total su' = supply_total su) /\
  (forall k, supplies s' !! k = None <-> supplies s !! k = None).
Proof.
  intros Hm Hcore Hvb H. destruct (basket_core_step _ _ _ _ _ _ Hm Hcore Hvb H) as [_ S].
  split; [|apply (so_sup_dom _ _ S)]. intros k su Hk.
  destruct (so_sup _ _ S _ _ Hk) as (su' & A & _ & _ & D). eauto.
Qed.

(* frames: sell orders, escrowed amounts, batches, classes, projects, credit types *)
Theorem basket_frames e s m s' r evs :
  is_basket_msg m = true -> Inv_core s -> validate_basic m = true ->
  handle e s m = LOk (s', r, evs) ->
  sell_orders s' = sell_orders s /\ sell_order_seq_id s' = sell_order_seq_id s /\
  (forall a k, bl_escrowed (get_balance s' a k) = bl_escrowed (get_balance s a k)) /\
  batches s' = batches s /\ batch_seq_id s' = batch_seq_id s /\
  classes s' = classes s /\ projects s' = projects s /\ credit_types s' = credit_types s.
Proof.
  intros Hm Hcore Hvb H. destruct (basket_core_step _ _ _ _ _ _ Hm Hcore Hvb H) as [_ S].
  destruct S. repeat split; assumption.
Qed.

(* ------------------------------------------------------------------ *)
(* C05: backing                                                        *)
(* ------------------------------------------------------------------ *)

Lemma at_key_opp {K} `{EqDecision K} (k0 k : K) a : at_key k0 k (- a) = - at_key k0 k a.
Proof. unfold at_key. destruct (decide _); lia. Qed.

Lemma denoms_preserved s s' bd delta :
  baskets s' = baskets s -> basket_fee s' = basket_fee s -> class_fee s' = class_fee s ->
  (exists id k, baskets s !! id = Some k /\ bk_denom k = bd) ->
  (forall y, bank_sup s' y = bank_sup s y + at_key bd y delta) ->
  Inv_basket_denoms s -> fee_denoms_ok s -> Inv_basket_denoms s' /\ fee_denoms_ok s'.
Proof.
  intros Ebk Ef1 Ef2 (id & k & Hk & Hd) Hsup [D1 D2] Hfee. split; [split|].
  - rewrite Ebk. exact D1.
  - rewrite Ebk. intros d Hde Hno. rewrite Hsup, (D2 d Hde Hno). unfold at_key.
    rewrite decide_False; [lia|]. intros ->. apply (Hno id k Hk). exact Hd.
  - unfold fee_denoms_ok. rewrite Ef1, Ef2. exact Hfee.
Qed.

Theorem basket_backing_step e s m s' r evs :
  is_basket_msg m = true -> Inv_core s -> Inv_basket s -> Inv_basket_denoms s -> fee_denoms_ok s ->
  (forall a fee c, m = MUpdateBasketFee a fee -> normalise_fee fee = Some c -> is_eco (c_denom c) = false) ->
  validate_basic m = true -> handle e s m = LOk (s', r, evs) ->
  Inv_basket s' /\ Inv_basket_denoms s' /\ fee_denoms_ok s'.
Proof.
  intros Hm Hcore Hb Hd Hfee Hnew Hvb H. destruct m; try discriminate Hm; cbn [handle] in H.
  - eapply create_backing; eassumption.
  - split; [eapply put_backing; eassumption|].
    destruct (h_put_spec _ _ _ _ _ _ _ _ Hcore H)
      as (id & k & l & s1 & Hx & _ & _ & F & _ & B & _ & _ & _ & _ & Hsup).
    destruct (basket_by_denom_Some _ _ _ _ Hx) as [Hk Hdk].
    destruct (bank_only_fields _ _ B) as (_ & _ & _ & E1 & _ & _ & E2 & E3 & _).
    eapply (denoms_preserved s s' basket_denom); try eassumption.
    + rewrite E1. apply F.
    + rewrite E2. apply F.
    + rewrite E3. apply F.
    + eauto.
  - pose proof (vb_take_pos _ _ _ _ _ _ _ Hvb) as Hpos.
    split; [eapply take_backing; eassumption|].
    destruct (h_take_spec _ _ _ _ _ _ _ _ _ Hcore Hpos H)
      as (id & k & tokens & s1 & rel & Hx & _ & _ & _ & B & _ & Hsup & _ & _ & F & _).
    destruct (basket_by_denom_Some _ _ _ _ Hx) as [Hk Hdk].
    destruct (bank_only_fields _ _ B) as (_ & _ & _ & E1 & _ & _ & E2 & E3 & _).
    eapply (denoms_preserved s s' basket_denom (- tokens)); try eassumption.
    + rewrite (mf_baskets _ _ F). exact E1.
    + rewrite (mf_basket_fee _ _ F). exact E2.
    + rewrite (mf_class_fee _ _ F). exact E3.
    + eauto.
    + intros y. rewrite at_key_opp. rewrite <- Z.sub_opp_r, Z.opp_involutive, <- Hsup.
      apply bank_sup_frame_eq. apply F.
  - apply update_basket_fee_spec in H. subst s'. split; [exact Hb|]. split; [exact Hd|].
    intros c [Hc|Hc]; cbn in Hc.
    + eapply Hnew; [reflexivity | exact Hc].
    + apply Hfee. right. exact Hc.
  - apply update_curator_spec in H. destruct H as (id & k & k' & Hk & Hdk & ->).
    eapply set_basket_backing; eassumption.
  - apply update_date_criteria_spec in H. destruct H as (id & k & k' & Hk & Hdk & ->).
    eapply set_basket_backing; eassumption.
Qed.

(* C05 in the form asked for; Inv_basket_denoms is the extra invariant that makes it inductive *)
Theorem basket_preserves_backing e s m s' r evs :
  is_basket_msg m = true -> Inv_core s -> Inv_basket s -> Inv_basket_denoms s -> fee_denoms_ok s ->
  validate_basic m = true -> handle e s m = LOk (s', r, evs) -> Inv_basket s' /\ Inv_basket_denoms s'.
Proof.
  intros Hm Hcore Hb Hd Hfee Hvb H.
  destruct m; try discriminate Hm.
  4:{ cbn [handle] in H. apply update_basket_fee_spec in H. subst s'. split; [exact Hb | exact Hd]. }
  all: match type of H with handle _ _ ?m = _ =>
         assert (G : Inv_basket s' /\ Inv_basket_denoms s' /\ fee_denoms_ok s');
           [apply (basket_backing_step e s m s' r evs); try assumption; intros; discriminate
           |destruct G as (G1 & G2 & _); split; assumption] end.
Qed.
