(* MsgPut: transferToBasket is a move; the fold over the credits; h_put preserves the invariants and
   mints exactly the deposited units (C05), admission (C11). *)
From stdpp Require Import gmap.
From RecordUpdate Require Import RecordSet.
From Coq Require Import ZArith NArith List Bool Lia Strings.Byte.
Require Import Regen.Base.Bytes Regen.Base.Calendar Regen.Base.CalendarProps Regen.Dec.Dec Regen.Dec.DecIface Regen.Ids.Ids.
Require Import Regen.Ledger.Types Regen.Ledger.Msgs Regen.Ledger.Orm Regen.Ledger.BaseMsgs
               Regen.Ledger.BasketMsgs Regen.Ledger.MarketMsgs Regen.Ledger.Step
               Regen.Ledger.Amount Regen.Ledger.MapSum Regen.Ledger.Inv Regen.Ledger.InvTactics
               Regen.Ledger.InvBasketDec Regen.Ledger.InvBasketLib.
Import RecordSetNotations.
Local Open Scope Z_scope.

Lemma posfixed_in_ok str amt : posfixed P str = Ok amt ->
  0 < dcoef amt /\ dneg amt = false /\ - P <= dexp amt /\ in_ok amt /\ 0 < U amt.
Proof.
  intros H. apply posfixed_ok in H. destruct H as (Hc & Hn & He).
  split; [exact Hc|]. split; [exact Hn|]. split; [exact He|]. split.
  - split; [lia|]. split; [congruence | exact He].
  - unfold U, units, dint. rewrite Hn. apply Z.mul_pos_pos; [exact Hc | apply pow10_pos; lia].
Qed.

(* ------------------------------------------------------------------ *)
(* transferToBasket                                                    *)
(* ------------------------------------------------------------------ *)

Lemma transfer_move owner amt id bkey ba p s s' :
  Inv_core s -> batches s !! bkey = Some ba -> is_Some (baskets s !! id) ->
  in_ok amt -> 0 < U amt ->
  transfer_to_basket owner amt id bkey ba p s = LOk s' ->
  exists ub' su row',
    s' = move_to s owner bkey id (ba_denom ba) ub' su (Some row') /\
    move_ok s owner bkey id (ba_denom ba) ub' su su (Some row') /\
    U (bl_tradable ub') = U (bl_tradable (get_balance s owner bkey)) - U amt /\
    bl_retired ub' = bl_retired (get_balance s owner bkey) /\
    U (bb_balance row') = row_units (basket_balances s !! (id, ba_denom ba)) + U amt /\
    is_Some (balances s !! (owner, bkey)).
Proof.
  intros Hcore Hba Hid Hamt Hpos H.
  pose proof Hcore as (_ & (Hb & Hs & Hbb & _) & (_ & K2 & _) & _).
  unfold transfer_to_basket in H.
  lstep H as ub Hub. lstep H as u1 Hp. lstep H as nt Hnt. lstep H as s1 Hs1.
  apply update_balance_ok in Hs1. destruct Hs1 as [-> _].
  pose proof (get_balance_Some _ _ _ _ Hub) as Hgb.
  destruct (Hb _ _ Hub) as (Ht & Hr & He).
  destruct (safe_sub_in_ok _ _ _ (stored_in_ok _ Ht) Hamt Hnt) as [Hnt1 Hnt2].
  destruct (dnorm_ok _ Hnt1) as [Hnt3 Hnt4].
  assert (Hsu : is_Some (supplies s !! bkey)) by (apply K2; eauto).
  destruct Hsu as [su Hsu].
  set (ub' := {| bl_tradable := dnorm nt; bl_retired := bl_retired ub; bl_escrowed := bl_escrowed ub |}) in *.
  cbn [basket_balances set] in H.
  change (basket_balances (s <| balances := <[(owner, bkey) := ub']> (balances s) |>)) with (basket_balances s) in H.
  assert (Hrow : exists row', s' = (s <| balances := <[(owner, bkey) := ub']> (balances s) |>)
                                     <| basket_balances := <[(id, ba_denom ba) := row']> (basket_balances s) |> /\
                              stored_ok (bb_balance row') /\
                              U (bb_balance row') = row_units (basket_balances s !! (id, ba_denom ba)) + U amt).
  { destruct (basket_balances s !! (id, ba_denom ba)) as [bb|] eqn:Ebb.
    - lstep H as u2 Hp2. lstep H as nb Hnb. inversion H; subst s'; clear H.
      destruct (Hbb _ _ Ebb) as [Hbs _].
      destruct (add_in_ok _ _ _ (stored_in_ok _ Hbs) Hamt Hnb) as [Hnb1 Hnb2].
      destruct (dnorm_ok _ Hnb1) as [Hnb3 Hnb4].
      eexists. split; [reflexivity|]. cbn [bb_balance row_units]. split; [exact Hnb3 | lia].
    - inversion H; subst s'; clear H.
      destruct (dnorm_ok _ Hamt) as [Ha3 Ha4].
      eexists. split; [reflexivity|]. cbn [bb_balance row_units]. split; [exact Ha3 | lia]. }
  destruct Hrow as (row' & -> & Hrow1 & Hrow2).
  exists ub', su, row'. rewrite (move_to_same_supply _ _ _ _ _ _ _ _ Hsu). cbn [write_row].
  split; [reflexivity|].
  assert (Hrowpos : 0 <= row_units (basket_balances s !! (id, ba_denom ba))).
  { unfold row_units. destruct (basket_balances s !! (id, ba_denom ba)) as [bb|] eqn:Ebb; [|lia].
    destruct (Hbb _ _ Ebb) as [_ Hp']. lia. }
  split; [|split; [|split; [|split]]].
  - split; rewrite ?Hgb; cbn [row_units bl_tradable bl_retired bl_escrowed ub'].
    + eauto.
    + exact Hid.
    + exact Hsu.
    + split; [exact Hnt3 | split; assumption].
    + eapply Hs; exact Hsu.
    + intros r Hr'. inversion Hr'; subst r. split; [exact Hrow1 | lia].
    + reflexivity.
    + lia.
    + reflexivity.
    + lia.
    + lia.
    + lia.
  - rewrite Hgb. cbn [bl_tradable ub']. lia.
  - rewrite Hgb. reflexivity.
  - exact Hrow2.
  - eauto.
Qed.

(* ------------------------------------------------------------------ *)
(* one credit                                                          *)
(* ------------------------------------------------------------------ *)

Lemma credit_amount_to_tokens_units amt t :
  0 < dcoef amt -> dneg amt = false -> - P <= dexp amt ->
  credit_amount_to_tokens amt P = LOk t -> t = U amt.
Proof.
  intros Hc Hn He H. unfold credit_amount_to_tokens in H. lstep H as x Hx. apply lift_ok in H.
  eapply tokens_units; eassumption.
Qed.

Lemma put_one_spec e owner id k s rec c s' rec' :
  Inv_core s -> is_Some (baskets s !! id) ->
  put_one e owner id k P (s, rec) c = LOk (s', rec') ->
  exists bkey ba amt ub' su row',
    batch_by_denom s (bcr_denom c) = Some (bkey, ba) /\
    can_basket_accept e s id k ba = LOk tt /\
    posfixed P (bcr_amount c) = Ok amt /\
    s' = move_to s owner bkey id (ba_denom ba) ub' su (Some row') /\
    move_ok s owner bkey id (ba_denom ba) ub' su su (Some row') /\
    U (bl_tradable ub') = U (bl_tradable (get_balance s owner bkey)) - U amt /\
    bl_retired ub' = bl_retired (get_balance s owner bkey) /\
    U (bb_balance row') = row_units (basket_balances s !! (id, ba_denom ba)) + U amt /\
    rec' = rec + U amt /\ 0 < U amt.
Proof.
  intros Hcore Hid H. unfold put_one in H.
  lstep H as x Hx. destruct x as [bkey ba].
  lstep H as u Hacc. destruct u.
  lstep H as amt Hamt. lstep H as s1 Hs1. lstep H as tokens Htok.
  inversion H; subst s' rec'; clear H.
  destruct (batch_by_denom_Some _ _ _ _ Hx) as [Hba Hd].
  destruct (posfixed_in_ok _ _ Hamt) as (Hc & Hn & He & Hok & Hpos).
  destruct (transfer_move _ _ _ _ _ _ _ _ Hcore Hba Hid Hok Hpos Hs1)
    as (ub' & su & row' & -> & Hmv & Ht & Hr & Hrow & _).
  apply credit_amount_to_tokens_units in Htok; [|assumption..]. subst tokens.
  exists bkey, ba, amt, ub', su, row'. repeat (split; [assumption || reflexivity|]). exact Hpos.
Qed.

(* ------------------------------------------------------------------ *)
(* the fold over the credits                                           *)
(* ------------------------------------------------------------------ *)

Record put_effect (e : env) (owner : addr) (id : N) (k : basket) (s s' : state)
    (cs : list basket_credit) (l : list (bytes * dec)) : Prop := {
  pe_amounts : Forall2 (fun c x => bcr_denom c = x.1 /\ posfixed P (bcr_amount c) = Ok x.2 /\ 0 < U x.2) cs l;
  pe_accept : Forall (fun c => exists bkey ba, batch_by_denom s (bcr_denom c) = Some (bkey, ba) /\
                                              can_basket_accept e s id k ba = LOk tt) cs;
  pe_supplies : supplies s' = supplies s;
  pe_others : forall a bk, a <> owner -> balances s' !! (a, bk) = balances s !! (a, bk);
  pe_nonbatch : forall bk, batches s !! bk = None -> balances s' !! (owner, bk) = balances s !! (owner, bk);
  pe_owner : forall bk ba, batches s !! bk = Some ba ->
      U (bl_tradable (get_balance s' owner bk)) = U (bl_tradable (get_balance s owner bk)) - units_for (ba_denom ba) l /\
      bl_retired (get_balance s' owner bk) = bl_retired (get_balance s owner bk) /\
      bl_escrowed (get_balance s' owner bk) = bl_escrowed (get_balance s owner bk);
  pe_rows : forall id' d, row_units (basket_balances s' !! (id', d)) =
      row_units (basket_balances s !! (id', d)) + (if (id' =? id)%N then units_for d l else 0);
  pe_other_rows : forall id' d, id' <> id -> basket_balances s' !! (id', d) = basket_balances s !! (id', d);
  pe_total : forall id', basket_total id' (basket_balances s') =
      basket_total id' (basket_balances s) + (if (id' =? id)%N then total_units l else 0)
}.

Lemma put_fold_spec e owner id k : forall cs s rec s' rec',
  Inv_core s -> is_Some (baskets s !! id) ->
  lfold (put_one e owner id k P) cs (s, rec) = LOk (s', rec') ->
  Inv_core s' /\ step_ok s s' /\ move_frame s s' /\
  exists l, put_effect e owner id k s s' cs l /\ rec' = rec + total_units l.
Proof.
  induction cs as [|c cs IH]; intros s rec s' rec' Hcore Hid H; cbn [lfold] in H.
  - inversion H; subst s' rec'; clear H.
    split; [exact Hcore|]. split; [apply step_ok_refl|]. split; [apply move_frame_refl|].
    exists nil. split; [|cbn; lia].
    split.
    + constructor.
    + constructor.
    + reflexivity.
    + intros; reflexivity.
    + intros; reflexivity.
    + intros bk ba _. cbn [units_for]. repeat split. lia.
    + intros id' d. cbn [units_for]. destruct (id' =? id)%N; lia.
    + intros; reflexivity.
    + intros id'. cbn [total_units]. destruct (id' =? id)%N; lia.
  - lstep H as acc1 H1. destruct acc1 as [s1 rec1].
    destruct (put_one_spec _ _ _ _ _ _ _ _ _ Hcore Hid H1)
      as (bkey & ba & amt & ub' & su & row' & Hbd & Hacc & Hamt & -> & Hmv & Ht & Hr & Hrow & -> & Hpos).
    pose proof (move_core _ _ _ _ _ _ _ _ _ Hcore Hmv) as Hcore1.
    pose proof (move_step_ok _ _ _ _ _ _ _ _ _ Hmv) as Hso1.
    pose proof (move_to_frame s owner bkey id (ba_denom ba) ub' su (Some row')) as Hmf1.
    set (s1 := move_to s owner bkey id (ba_denom ba) ub' su (Some row')) in *.
    assert (Hid1 : is_Some (baskets s1 !! id)) by exact Hid.
    destruct (IH _ _ _ _ Hcore1 Hid1 H) as (Hcore' & Hso' & Hmf' & l1 & Hpe & ->).
    split; [exact Hcore'|]. split; [eapply step_ok_trans; eassumption|].
    split; [eapply move_frame_trans; eassumption|].
    exists ((bcr_denom c, amt) :: l1). split; [|cbn [total_units snd]; lia].
    destruct (batch_by_denom_Some _ _ _ _ Hbd) as [Hba Hd].
    pose proof Hcore as (_ & _ & (K1 & _) & _).
    pose proof (mv_su _ _ _ _ _ _ _ _ _ Hmv) as Hsu.
    destruct Hpe. split.
    + constructor; [cbn [fst snd]; auto | exact pe_amounts0].
    + constructor; [eauto|].
      eapply Forall_impl; [|exact pe_accept0]. cbn beta. intros c0 (bk0 & ba0 & A1 & A2).
      exists bk0, ba0. split.
      * rewrite <- A1. symmetry. apply batch_by_denom_frame. reflexivity.
      * rewrite <- A2. symmetry. apply can_basket_accept_frame; reflexivity.
    + rewrite pe_supplies0. unfold s1, move_to. cbn. apply insert_id. exact Hsu.
    + intros a bk Ha. rewrite pe_others0 by exact Ha. unfold s1, move_to. cbn.
      apply lookup_insert_ne. congruence.
    + intros bk Hbk. rewrite pe_nonbatch0 by exact Hbk. unfold s1, move_to. cbn.
      apply lookup_insert_ne. intros Heq. inversion Heq; subst. congruence.
    + intros bk ba0 Hba0. destruct (pe_owner0 bk ba0 Hba0) as (P1 & P2 & P3).
      rewrite P1, P2, P3. unfold s1. rewrite move_to_get_balance. cbn [units_for fst snd].
      destruct (decide ((owner, bk) = (owner, bkey))) as [Heq|Hne].
      * inversion Heq; subst bk. rewrite Hba in Hba0. inversion Hba0; subst ba0.
        rewrite Hd, bytes_eqb_refl. rewrite (mv_esc _ _ _ _ _ _ _ _ _ Hmv). repeat split; [lia | exact Hr].
      * rewrite bytes_eqb_neq; [repeat split; lia|].
        intros Heq. apply Hne. f_equal. eapply K1; [exact Hba0 | exact Hba | congruence].
    + intros id' d. rewrite pe_rows0. unfold s1, move_to. cbn [basket_balances set].
      change (basket_balances (s <| balances := _ |> <| supplies := _ |> <| basket_balances := ?m |>)) with m.
      rewrite lookup_write_row. cbn [units_for fst snd].
      destruct (decide ((id', d) = (id, ba_denom ba))) as [Heq|Hne].
      * inversion Heq; subst id' d. rewrite N.eqb_refl, Hd, bytes_eqb_refl. cbn [row_units]. rewrite Hrow, Hd. lia.
      * destruct (id' =? id)%N eqn:Eid; [|lia]. apply N.eqb_eq in Eid. subst id'.
        rewrite bytes_eqb_neq; [lia|]. intros Heq. apply Hne. congruence.
    + intros id' d Hne. rewrite pe_other_rows0 by exact Hne. unfold s1, move_to.
      change (basket_balances (s <| balances := _ |> <| supplies := _ |> <| basket_balances := ?m |>)) with m.
      rewrite lookup_write_row. rewrite decide_False by congruence. reflexivity.
    + intros id'. rewrite pe_total0. unfold s1, move_to.
      change (basket_balances (s <| balances := _ |> <| supplies := _ |> <| basket_balances := ?m |>)) with m.
      rewrite basket_total_write. cbn [total_units snd row_units]. rewrite Hrow.
      rewrite (N.eqb_sym id id'). destruct (id' =? id)%N; lia.
Qed.

(* ------------------------------------------------------------------ *)
(* h_put                                                               *)
(* ------------------------------------------------------------------ *)

Lemma put_effect_bank_only e owner id k s s1 s' cs l :
  put_effect e owner id k s s1 cs l -> bank_only s1 s' -> put_effect e owner id k s s' cs l.
Proof. intros H (bm & bs & ->). destruct H. split; assumption. Qed.

Lemma bank_bal_frame s s' x y : bank s' = bank s -> bank_bal s' x y = bank_bal s x y.
Proof. intros H. unfold bank_bal. rewrite H. reflexivity. Qed.
Lemma bank_sup_frame s s' y : bank_supply s' = bank_supply s -> bank_sup s' y = bank_sup s y.
Proof. intros H. unfold bank_sup. rewrite H. reflexivity. Qed.

(* everything the later theorems need to know about a successful Put *)
Lemma h_put_spec e s owner bd cs s' r evs :
  Inv_core s -> h_put e s owner bd cs = LOk (s', r, evs) ->
  exists id k l s1,
    basket_by_denom s bd = Some (id, k) /\
    Inv_core s1 /\ step_ok s s1 /\ move_frame s s1 /\ put_effect e owner id k s s1 cs l /\
    bank_only s1 s' /\
    r = RAmountReceived (total_units l) /\ evs = nil /\ 0 < total_units l /\
    (forall x y, bank_bal s' x y = bank_bal s x y + at_key (owner, bd) (x, y) (total_units l)) /\
    (forall y, bank_sup s' y = bank_sup s y + at_key bd y (total_units l)).
Proof.
  intros Hcore H. unfold h_put in H.
  lstep H as x Hx. destruct x as [id k].
  lstep H as cty Hcty. lstep H as acc Hfold. destruct acc as [s1 received].
  lstep H as s2 Hmint. lstep H as s3 Hsend. unfold ret in H. inversion H; subst s3 r evs; clear H.
  destruct (basket_by_denom_Some _ _ _ _ Hx) as [Hk Hd].
  pose proof Hcore as (Hct & _). rewrite (Hct _ _ Hcty) in Hfold.
  assert (Hid : is_Some (baskets s !! id)) by eauto.
  destruct (put_fold_spec _ _ _ _ _ _ _ _ _ Hcore Hid Hfold) as (Hcore1 & Hso1 & Hmf1 & l & Hpe & Hrec).
  rewrite Z.add_0_l in Hrec. subst received.
  apply mint_coins1 in Hmint. destruct Hmint as (B2 & Hpos & Hbal2 & Hsup2).
  unfold send_coins_from_module_to_account in Hsend. destruct (blocked_addr owner); [discriminate|].
  apply send_coins1 in Hsend. destruct Hsend as (B3 & _ & _ & Hsup3 & Hbal3).
  exists id, k, l, s1. rewrite Hd in *.
  split; [exact Hx|]. split; [exact Hcore1|]. split; [exact Hso1|]. split; [exact Hmf1|].
  split; [exact Hpe|]. split; [eapply bank_only_trans; eassumption|].
  split; [reflexivity|]. split; [reflexivity|]. split; [exact Hpos|]. split.
  - intros x y. rewrite Hbal3, Hbal2. rewrite (bank_bal_frame s s1) by (apply Hmf1). lia.
  - intros y. rewrite (bank_sup_frame s2 s') by exact Hsup3. rewrite Hsup2.
    rewrite (bank_sup_frame s s1) by (apply Hmf1). reflexivity.
Qed.

Theorem put_core e s owner bd cs s' r evs :
  Inv_core s -> h_put e s owner bd cs = LOk (s', r, evs) -> Inv_core s' /\ step_ok s s'.
Proof.
  intros Hcore H. destruct (h_put_spec _ _ _ _ _ _ _ _ Hcore H)
    as (id & k & l & s1 & _ & Hcore1 & Hso1 & _ & _ & B & _).
  split; [eapply bank_only_core; eassumption|].
  eapply step_ok_trans; [exact Hso1 | apply bank_only_step_ok; exact B].
Qed.

Theorem put_backing e s owner bd cs s' r evs :
  Inv_core s -> Inv_basket s -> h_put e s owner bd cs = LOk (s', r, evs) -> Inv_basket s'.
Proof.
  intros Hcore [Hu Hb] H. destruct (h_put_spec _ _ _ _ _ _ _ _ Hcore H)
    as (id & k & l & s1 & Hx & _ & _ & Hmf & Hpe & B & _ & _ & _ & _ & Hsup).
  destruct (basket_by_denom_Some _ _ _ _ Hx) as [Hk Hd].
  destruct (bank_only_fields _ _ B) as (_ & _ & Ebb & Ebk & _).
  assert (Ebk' : baskets s' = baskets s) by (rewrite Ebk; apply Hmf).
  split.
  - unfold basket_denoms_unique. rewrite Ebk'. exact Hu.
  - intros id' k' Hk'. rewrite Ebk' in Hk'. rewrite Ebb, (pe_total _ _ _ _ _ _ _ _ Hpe), Hsup.
    rewrite (Hb _ _ Hk'). unfold at_key.
    destruct (id' =? id)%N eqn:E.
    + apply N.eqb_eq in E. subst id'. rewrite Hk in Hk'. inversion Hk'; subst k'.
      rewrite decide_True by exact Hd. reflexivity.
    + apply N.eqb_neq in E. rewrite decide_False; [lia|].
      intros Heq. apply E. eapply Hu; [exact Hk' | exact Hk | congruence].
Qed.

(* C05, exactness: Put mints exactly the deposited units to the owner; nothing else in the bank
   changes; the owner's tradable balances fall and the basket's rows rise by the same units *)
Theorem put_exact e s owner bd cs s' r evs :
  Inv_core s -> h_put e s owner bd cs = LOk (s', r, evs) ->
  exists id k l,
    basket_by_denom s bd = Some (id, k) /\
    r = RAmountReceived (total_units l) /\
    (forall x y, bank_bal s' x y = bank_bal s x y + at_key (owner, bd) (x, y) (total_units l)) /\
    (forall y, bank_sup s' y = bank_sup s y + at_key bd y (total_units l)) /\
    put_effect e owner id k s s' cs l.
Proof.
  intros Hcore H. destruct (h_put_spec _ _ _ _ _ _ _ _ Hcore H)
    as (id & k & l & s1 & Hx & _ & _ & _ & Hpe & B & Hr & _ & _ & Hbal & Hsup).
  exists id, k, l. repeat (split; [assumption|]). eapply put_effect_bank_only; eassumption.
Qed.

(* ------------------------------------------------------------------ *)
(* C11: admission                                                      *)
(* ------------------------------------------------------------------ *)

(* the batch's start date is not before the basket's minimum start date at block time T *)
Definition date_ok (crit : date_criteria) (T start : ts) : Prop :=
  match min_start_date crit T with
  | None => True
  | Some m => ts_compare start m <> Lt
  end.

Definition acceptable (e : env) (s : state) (id : N) (k : basket) (ba : batch) : Prop :=
  date_ok (bk_criteria k) (e_time e) (ba_start ba) /\
  (id, get_class_id_from_batch_denom (ba_denom ba)) ∈ basket_classes s /\
  exists ck cl, class_by_id s (get_class_id_from_batch_denom (ba_denom ba)) = Some (ck, cl) /\
                cl_ct cl = bk_ct k.

Lemma can_basket_accept_iff e s id k ba :
  can_basket_accept e s id k ba = LOk tt <-> acceptable e s id k ba.
Proof.
  unfold can_basket_accept, acceptable, date_ok. split.
  - intros H. lstep H as u1 H1. lstep H as u2 H2. lstep H as x H3. destruct x as [ck cl].
    apply check_ok' in H. apply bytes_eqb_eq in H. apply bool_decide_eq_true in H2.
    split; [|split; [exact H2 | eauto]].
    destruct (min_start_date _ _) as [m|]; [|exact I].
    apply check_ok' in H1. destruct (ts_compare _ m); [discriminate | discriminate |]; discriminate || idtac.
    all: try discriminate.
  - intros (Hd & Hin & ck & cl & Hc & Hct).
    assert (E1 : match min_start_date (bk_criteria k) (e_time e) with
                 | Some m => check (negb match ts_compare (ba_start ba) m with Lt => true | _ => false end) LInvalid
                 | None => LOk tt end = LOk tt).
    { destruct (min_start_date _ _) as [m|]; [|reflexivity]. destruct (ts_compare _ m); [reflexivity | congruence | reflexivity]. }
    rewrite E1. cbn [lbind]. rewrite bool_decide_eq_true_2 by exact Hin. cbn [check lbind].
    rewrite Hc. cbn [from_option lbind]. rewrite Hct, bytes_eqb_refl. reflexivity.
Qed.

(* readable form of the three date criteria *)
Lemma ts_total_of_nanos n : ts_total_nanos (ts_of_nanos n) = n.
Proof.
  unfold ts_total_nanos, ts_of_nanos. cbn [secs nanos].
  pose proof (Z.div_mod n 1000000000 ltac:(lia)). lia.
Qed.

Lemma date_ok_spec crit T start :
  date_ok crit T start <->
  match crit with
  | DCNone => True
  | DCMinStart t => ts_compare start t <> Lt
  | DCWindow ds dn => ts_total_nanos T - duration_ns ds dn <= ts_total_nanos start
  | DCYears n => if n =? 0 then ts_compare start {| secs := ts_min_secs; nanos := 0 |} <> Lt
                 else year_of T - n <= year_of start
  end.
Proof.
  unfold date_ok. destruct crit as [|t|ds dn|n]; cbn [min_start_date]; try reflexivity.
  - unfold ts_compare. rewrite ts_total_of_nanos. rewrite Z.compare_lt_iff. lia.
  - destruct (n =? 0); [reflexivity|]. symmetry. apply year_of_ge_iff.
Qed.

Theorem put_admission e owner id k p s rec c s' rec' :
  put_one e owner id k p (s, rec) c = LOk (s', rec') ->
  exists bkey ba, batch_by_denom s (bcr_denom c) = Some (bkey, ba) /\ acceptable e s id k ba.
Proof.
  intros H. unfold put_one in H. lstep H as x Hx. destruct x as [bkey ba].
  lstep H as u Hacc. destruct u. exists bkey, ba. split; [exact Hx|].
  apply can_basket_accept_iff. exact Hacc.
Qed.

(* every credit of a successful MsgPut was admissible (in the state before the message) *)
Theorem h_put_admission e s owner bd cs s' r evs :
  Inv_core s -> h_put e s owner bd cs = LOk (s', r, evs) ->
  exists id k, basket_by_denom s bd = Some (id, k) /\
    Forall (fun c => exists bkey ba, batch_by_denom s (bcr_denom c) = Some (bkey, ba) /\ acceptable e s id k ba) cs.
Proof.
  intros Hcore H. destruct (h_put_spec _ _ _ _ _ _ _ _ Hcore H)
    as (id & k & l & s1 & Hx & _ & _ & _ & Hpe & _).
  exists id, k. split; [exact Hx|].
  eapply Forall_impl; [|exact (pe_accept _ _ _ _ _ _ _ _ Hpe)]. cbn beta.
  intros c (bkey & ba & A1 & A2). exists bkey, ba. split; [exact A1|]. apply can_basket_accept_iff. exact A2.
Qed.
