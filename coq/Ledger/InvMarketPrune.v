(* Marketplace proofs: begin-block pruning of expired sell orders (C12 totality, C06 expiry). *)
From stdpp Require Import gmap.
From RecordUpdate Require Import RecordSet.
From Coq Require Import ZArith NArith List Bool Lia Strings.Byte Permutation.
Require Import Regen.Base.Bytes Regen.Base.Calendar Regen.Dec.Dec.
Require Import Regen.Ledger.Types Regen.Ledger.Msgs Regen.Ledger.Orm Regen.Ledger.BaseMsgs
               Regen.Ledger.BasketMsgs Regen.Ledger.MarketMsgs Regen.Ledger.Step
               Regen.Ledger.Amount Regen.Ledger.MapSum Regen.Ledger.Inv Regen.Ledger.InvTactics
               Regen.Ledger.InvMarketLib Regen.Ledger.InvMarketPrim Regen.Ledger.InvMarketOrders.
Import ListNotations RecordSetNotations.
Local Open Scope Z_scope.

(* ------------------------------------------------------------------ *)
(* list of orders: units per (seller, batch), deleting the keys        *)
(* ------------------------------------------------------------------ *)

Fixpoint lsum (a : addr) (k : N) (l : list (N * sell_order)) : Z :=
  match l with [] => 0 | kv :: l' => ofun a k kv.2 + lsum a k l' end.

Definition del_all (l : list (N * sell_order)) (m : gmap N sell_order) : gmap N sell_order :=
  fold_left (fun m kv => delete kv.1 m) l m.

Lemma lsum_nonneg a k l : Forall (fun kv => order_ok kv.2) l -> 0 <= lsum a k l.
Proof.
  induction 1 as [|kv l Hkv _ IH]; cbn [lsum]; [lia|]. pose proof (ofun_nonneg a k _ Hkv). lia.
Qed.

Lemma del_all_lookup l : forall m id o,
  del_all l m !! id = Some o <-> m !! id = Some o /\ ~ In id (map fst l).
Proof.
  unfold del_all. induction l as [|kv l IH]; intros m id o; cbn [fold_left map In].
  - tauto.
  - rewrite IH. rewrite lookup_delete_Some. split.
    + intros [[H1 H2] H3]. split; [exact H2|]. intros [H4|H4]; [congruence | tauto].
    + intros [H1 H2]. split; [split; [|exact H1] | tauto]. intros Heq. apply H2. left. exact Heq.
Qed.

Lemma del_all_order_sum a k l : forall m,
  List.NoDup (map fst l) -> Forall (fun kv => m !! kv.1 = Some kv.2) l ->
  order_sum a k (del_all l m) = order_sum a k m - lsum a k l.
Proof.
  unfold del_all. induction l as [|kv l IH]; intros m Hnd Hall; cbn [fold_left lsum].
  - lia.
  - inversion Hnd as [|? ? Hnin Hnd']; subst. inversion Hall as [|? ? Hkv Hall']; subst.
    rewrite IH; [| exact Hnd' |].
    + rewrite order_sum_delete, Hkv. lia.
    + apply Forall_forall. intros kv' Hin. rewrite Forall_forall in Hall'.
      rewrite lookup_delete_ne; [apply Hall'; exact Hin|].
      intros Heq. apply Hnin. rewrite Heq. apply in_map. exact Hin.
Qed.

(* ------------------------------------------------------------------ *)
(* the list of expired orders                                          *)
(* ------------------------------------------------------------------ *)

Lemma expired_orders_perm t s :
  Permutation (expired_orders t s) (List.filter (fun kv => expired t kv.2) (map_to_list (sell_orders s))).
Proof. unfold expired_orders. apply sort_by_perm. Qed.

Lemma expired_orders_in t s id o :
  In (id, o) (expired_orders t s) <-> sell_orders s !! id = Some o /\ expired t o = true.
Proof.
  split.
  - intros H. apply (Permutation_in _ (expired_orders_perm t s)) in H. apply filter_In in H.
    destruct H as [H1 H2]. cbn in H2. split; [|exact H2].
    apply elem_of_map_to_list. apply elem_of_list_In. exact H1.
  - intros [H1 H2]. apply (Permutation_in _ (Permutation_sym (expired_orders_perm t s))).
    apply filter_In. split; [|exact H2]. apply elem_of_list_In. apply elem_of_map_to_list. exact H1.
Qed.

Lemma expired_orders_nodup t s : List.NoDup (map fst (expired_orders t s)).
Proof.
  eapply Permutation_NoDup; [apply Permutation_map; apply Permutation_sym; apply expired_orders_perm|].
  apply NoDup_fst_filter. apply NoDup_ListNoDup. apply NoDup_fst_map_to_list.
Qed.

Lemma expired_orders_lookup t s :
  Forall (fun kv => sell_orders s !! kv.1 = Some kv.2) (expired_orders t s).
Proof. apply Forall_forall. intros [id o] Hin. apply expired_orders_in in Hin. apply Hin. Qed.

Lemma expired_orders_ok t s : Inv_scale s -> Forall (fun kv => order_ok kv.2) (expired_orders t s).
Proof.
  intros (_ & _ & _ & H4). apply Forall_forall. intros [id o] Hin. apply expired_orders_in in Hin.
  eapply H4. apply Hin.
Qed.

Lemma expired_orders_keys t s id :
  In id (map fst (expired_orders t s)) <-> exists o, sell_orders s !! id = Some o /\ expired t o = true.
Proof.
  rewrite in_map_iff. split.
  - intros ([id' o] & <- & Hin). exists o. apply expired_orders_in. exact Hin.
  - intros (o & H). exists (id, o). split; [reflexivity | apply expired_orders_in; exact H].
Qed.

(* ------------------------------------------------------------------ *)
(* the unescrow loop                                                   *)
(* ------------------------------------------------------------------ *)

Definition unesc_step (s : state) (kv : N * sell_order) : lres state :=
  unescrow_credits (so_seller kv.2) (so_batch_key kv.2) (so_quantity kv.2) s.

Definition bal_only (s s' : state) : Prop := s' = s <| balances := balances s' |>.

Lemma bal_only_refl s : bal_only s s.
Proof. unfold bal_only. destruct s. reflexivity. Qed.

Lemma bal_only_trans s1 s2 s3 : bal_only s1 s2 -> bal_only s2 s3 -> bal_only s1 s3.
Proof. unfold bal_only. intros H1 H2. destruct s1, s2, s3. cbn in *. inversion H1. inversion H2. subst. reflexivity. Qed.

Lemma bal_only_wr_bal a k b s s' : wr_bal a k b s s' -> bal_only s s'.
Proof. unfold wr_bal, bal_only. intros ->. destruct s. reflexivity. Qed.

(* a row rewrite moving d units from escrowed to tradable, without reference to the orders *)
Lemma move_row_base a k b b' d s s' :
  Inv_sk s -> Inv_cons s ->
  balances s !! (a, k) = Some b -> wr_bal a k b' s s' -> balance_ok b' ->
  U (bl_tradable b') = U (bl_tradable b) + d -> U (bl_escrowed b') = U (bl_escrowed b) - d ->
  bl_retired b' = bl_retired b ->
  Inv_sk s' /\ Inv_cons s' /\ mframe s s'.
Proof.
  intros Hsk Hcons Hb Hw Hok Ht He Hr.
  pose proof (get_balance_Some _ _ _ _ Hb) as Hgb.
  assert (Hbk : is_Some (batches s !! k)).
  { destruct Hsk as (_ & _ & (_ & _ & Hk3 & _)). eapply Hk3. exact Hb. }
  split; [eapply sk_wr_bal; eassumption|]. split.
  - pose proof (cons_off_wr_bal _ _ _ _ _ _ _ Hw (cons_off_intro _ Hcons)) as Hc.
    eapply cons_off_elim; [exact Hc | |]; intros k0; unfold bump; rewrite Hgb;
      unfold tradable_escrowed, retired_of; rewrite ?Hr; destruct (k0 =? k)%N; lia.
  - eapply mframe_wr_bal; [exact Hw|]. rewrite Hgb, Hr. lia.
Qed.

Definition loop_post (l : list (N * sell_order)) (s s' : state) : Prop :=
  Inv_sk s' /\ Inv_cons s' /\ mframe s s' /\ bal_only s s' /\
  forall a k,
    U (bl_escrowed (get_balance s' a k)) = U (bl_escrowed (get_balance s a k)) - lsum a k l /\
    U (bl_tradable (get_balance s' a k)) = U (bl_tradable (get_balance s a k)) + lsum a k l /\
    bl_retired (get_balance s' a k) = bl_retired (get_balance s a k).

Lemma one_unescrow s kv s1 :
  order_ok kv.2 -> Inv_sk s -> Inv_cons s -> unesc_step s kv = LOk s1 ->
  loop_post [kv] s s1.
Proof.
  intros (d & Hp & Hin & Hpos) Hsk Hcons H1. destruct kv as [id o]. cbn [snd] in *. unfold unesc_step in H1. cbn [snd] in H1.
  pose proof Hsk as (_ & Hscale & _).
  destruct (unescrow_spec _ _ _ _ _ _ Hscale Hp Hin H1) as (b & b' & Hb & Hw & Hok & Ht & He & Hr).
  destruct (move_row_base _ _ _ _ (U d) _ _ Hsk Hcons Hb Hw Hok Ht He Hr) as (Hsk1 & Hcons1 & Hmf1).
  split; [exact Hsk1|]. split; [exact Hcons1|]. split; [exact Hmf1|]. split; [eapply bal_only_wr_bal; exact Hw|].
  intros a k. rewrite (get_balance_wr_bal _ _ _ _ _ a k Hw). cbn [lsum snd]. rewrite ofun_cases.
  rewrite (order_units_parse _ _ Hp).
  destruct (decide ((a, k) = (so_seller o, so_batch_key o))) as [Heq|Hne].
  - inversion Heq; subst a k. rewrite (get_balance_Some _ _ _ _ Hb). repeat split; [lia | lia | exact Hr].
  - repeat split; lia.
Qed.

Lemma loop_post_trans kv l s s1 s2 : loop_post [kv] s s1 -> loop_post l s1 s2 -> loop_post (kv :: l) s s2.
Proof.
  intros (A1 & A2 & A3 & A4 & A5) (B1 & B2 & B3 & B4 & B5).
  split; [exact B1|]. split; [exact B2|]. split; [eapply mframe_trans; eassumption|].
  split; [eapply bal_only_trans; eassumption|].
  intros a k. destruct (A5 a k) as (X1 & X2 & X3). destruct (B5 a k) as (Y1 & Y2 & Y3).
  cbn [lsum] in *. repeat split; [lia | lia | congruence].
Qed.

Lemma unescrow_loop l : forall s s',
  Forall (fun kv => order_ok kv.2) l -> Inv_sk s -> Inv_cons s ->
  lfold unesc_step l s = LOk s' -> loop_post l s s'.
Proof.
  induction l as [|kv l IH]; intros s s' Hall Hsk Hcons H; cbn [lfold] in H.
  - inversion H; subst s'. split; [exact Hsk|]. split; [exact Hcons|]. split; [apply mframe_refl|].
    split; [apply bal_only_refl|]. intros a k. cbn [lsum]. repeat split; lia.
  - apply lbind_ok in H. destruct H as (s1 & H1 & H2). inversion Hall as [|? ? Hkv Hall']; subst.
    pose proof (one_unescrow s kv s1 Hkv Hsk Hcons H1) as Hone.
    eapply loop_post_trans; [exact Hone|].
    apply IH; [exact Hall' | apply Hone | apply Hone | exact H2].
Qed.

Lemma unescrow_loop_total l : forall s,
  Forall (fun kv => order_ok kv.2) l -> Forall (fun kv => qty_ok kv.2) l -> Inv_sk s -> Inv_cons s ->
  (forall a k, lsum a k l <= U (bl_escrowed (get_balance s a k))) ->
  (forall a k, U (bl_tradable (get_balance s a k)) + U (bl_escrowed (get_balance s a k)) < BOUND) ->
  exists s', lfold unesc_step l s = LOk s'.
Proof.
  induction l as [|kv l IH]; intros s Hall Hallq Hsk Hcons Hle Hb; cbn [lfold]; [eauto|].
  inversion Hall as [|? ? Hkv Hall']; subst. inversion Hallq as [|? ? Hkvq Hallq']; subst.
  pose proof Hsk as (_ & Hscale & _).
  pose proof Hkv as (d & Hp & Hin & Hpos).
  assert (Hexp : dexp d <= 0) by (destruct Hkvq as (d2 & Hp2 & He2); rewrite Hp in Hp2; inversion Hp2; subst; exact He2).
  pose proof (lsum_nonneg (so_seller kv.2) (so_batch_key kv.2) l Hall') as Hnn.
  pose proof (Hle (so_seller kv.2) (so_batch_key kv.2)) as Hle0. cbn [lsum] in Hle0.
  rewrite ofun_self, (order_units_parse _ _ Hp) in Hle0.
  destruct (unescrow_total (so_seller kv.2) (so_batch_key kv.2) _ d s Hscale Hp Hin Hexp Hpos ltac:(lia) (Hb _ _))
    as [s1 H1].
  change (unesc_step s kv = LOk s1) in H1. rewrite H1. cbn [lbind].
  pose proof (one_unescrow s kv s1 Hkv Hsk Hcons H1) as (A1 & A2 & _ & _ & A5).
  apply IH; [exact Hall' | exact Hallq' | exact A1 | exact A2 | |].
  - intros a k. destruct (A5 a k) as (X1 & _ & _). specialize (Hle a k). cbn [lsum] in *. lia.
  - intros a k. destruct (A5 a k) as (X1 & X2 & _). specialize (Hb a k). lia.
Qed.

(* ------------------------------------------------------------------ *)
(* prune                                                               *)
(* ------------------------------------------------------------------ *)

Lemma sk_sub_ord s m' :
  (forall id o, m' !! id = Some o -> sell_orders s !! id = Some o) ->
  Inv_sk s -> Inv_sk (s <| sell_orders := m' |>).
Proof.
  intros Hsub (Hct & (Hs1 & Hs2 & Hs3 & Hs4) & (Hk1 & Hk2 & Hk3 & Hk4 & Hk5 & Hk6 & Hk7 & Hk8)).
  split; [exact Hct|]. split.
  - split; [exact Hs1|]. split; [exact Hs2|]. split; [exact Hs3|].
    intros k0 b0 H0. cbn in H0. eapply Hs4. apply Hsub. exact H0.
  - split; [exact Hk1|]. split; [exact Hk2|]. split; [exact Hk3|]. split; [exact Hk4|].
    split; [|split; [exact Hk6 | split; [|exact Hk8]]].
    + intros k0 o0 H0. cbn in H0 |- *. eapply Hk5. apply Hsub. exact H0.
    + intros k0 [o0 H0]. cbn in H0 |- *. apply Hk7. exists o0. apply Hsub. exact H0.
Qed.

Lemma prune_unfold t s :
  prune_sell_orders t s =
  lbind (lfold unesc_step (expired_orders t s) s)
        (fun s1 => LOk (s1 <| sell_orders := del_all (expired_orders t s) (sell_orders s1) |>)).
Proof. reflexivity. Qed.

Theorem prune_total t s :
  Inv_core s -> Inv_bound s -> Inv_qty s -> exists s', prune_sell_orders t s = LOk s'.
Proof.
  intros Hcore Hb Hqty. rewrite prune_unfold.
  pose proof (te_bound s) as Hte.
  apply Inv_core_split in Hcore. destruct Hcore as (Hsk & Hcons & Hesc).
  pose proof Hsk as (Hct & Hscale & Hkeys).
  set (l := expired_orders t s).
  destruct (unescrow_loop_total l s) as [s1 H1].
  - apply expired_orders_ok. exact Hscale.
  - apply Forall_forall. intros [id o] Hin. apply expired_orders_in in Hin. eapply Hqty. apply Hin.
  - exact Hsk.
  - exact Hcons.
  - intros a k. rewrite (Hesc a k).
    pose proof (del_all_order_sum a k l (sell_orders s) (expired_orders_nodup t s) (expired_orders_lookup t s)) as Hd.
    assert (0 <= order_sum a k (del_all l (sell_orders s))).
    { rewrite order_sum_eq. apply sum_map_nonneg. intros id o Hid. apply ofun_nonneg.
      apply del_all_lookup in Hid. destruct Hscale as (_ & _ & _ & H4). eapply H4. apply Hid. }
    lia.
  - intros a k. apply Hte; [|exact Hb]. apply Inv_core_split. tauto.
  - rewrite H1. cbn [lbind]. eauto.
Qed.

(* the complete description of a successful prune *)
Lemma prune_post t s s' :
  Inv_core s -> prune_sell_orders t s = LOk s' ->
  Inv_core s' /\ mframe s s' /\
  s' = s <| balances := balances s' |> <| sell_orders := sell_orders s' |> /\
  sell_orders s' = del_all (expired_orders t s) (sell_orders s) /\
  forall a k,
    U (bl_escrowed (get_balance s' a k)) = U (bl_escrowed (get_balance s a k)) - lsum a k (expired_orders t s) /\
    U (bl_tradable (get_balance s' a k)) = U (bl_tradable (get_balance s a k)) + lsum a k (expired_orders t s) /\
    bl_retired (get_balance s' a k) = bl_retired (get_balance s a k).
Proof.
  intros Hcore H. rewrite prune_unfold in H.
  apply Inv_core_split in Hcore. destruct Hcore as (Hsk & Hcons & Hesc).
  pose proof Hsk as (Hct & Hscale & Hkeys).
  set (l := expired_orders t s) in *.
  apply lbind_ok in H. destruct H as (s1 & H1 & H2). inversion H2; subst s'; clear H2.
  destruct (unescrow_loop l s s1 (expired_orders_ok t s Hscale) Hsk Hcons H1) as (A1 & A2 & A3 & A4 & A5).
  assert (Hso : sell_orders s1 = sell_orders s) by (rewrite A4; reflexivity).
  set (s2 := s1 <| sell_orders := del_all l (sell_orders s1) |>).
  assert (Hgb : forall a k, get_balance s2 a k = get_balance s1 a k) by reflexivity.
  split; [apply Inv_core_split; split; [|split]|split; [|split; [|split]]].
  - apply sk_sub_ord; [|exact A1]. intros id o Hid. apply del_all_lookup in Hid. apply Hid.
  - eapply cons_off_elim; [eapply (cons_off_orders s1 s2); [| | | |apply cons_off_intro; exact A2] | |]; reflexivity.
  - intros a k. rewrite Hgb. destruct (A5 a k) as (X1 & _ & _). rewrite X1, (Hesc a k).
    change (sell_orders s2) with (del_all l (sell_orders s1)). rewrite Hso.
    rewrite (del_all_order_sum a k l (sell_orders s) (expired_orders_nodup t s) (expired_orders_lookup t s)). lia.
  - eapply mframe_trans; [exact A3|]. apply mframe_triv; try reflexivity.
  - unfold bal_only in A4. unfold s2. destruct s, s1. cbn in *. inversion A4. subst. reflexivity.
  - change (sell_orders s2) with (del_all l (sell_orders s1)). rewrite Hso. reflexivity.
  - intros a k. rewrite Hgb. apply A5.
Qed.

Theorem prune_preserves_core t s s' : Inv_core s -> prune_sell_orders t s = LOk s' -> Inv_core s'.
Proof. intros Hc H. apply (prune_post t s s' Hc H). Qed.

Theorem prune_spec t s s' :
  Inv_core s -> prune_sell_orders t s = LOk s' ->
  (forall id o, sell_orders s' !! id = Some o <-> (sell_orders s !! id = Some o /\ expired t o = false)) /\
  (forall a k, U (bl_tradable (get_balance s' a k)) + U (bl_escrowed (get_balance s' a k)) =
               U (bl_tradable (get_balance s a k)) + U (bl_escrowed (get_balance s a k))) /\
  (forall a k, U (bl_tradable (get_balance s a k)) <= U (bl_tradable (get_balance s' a k))) /\
  (forall a k, bl_retired (get_balance s' a k) = bl_retired (get_balance s a k)) /\
  s' = s <| balances := balances s' |> <| sell_orders := sell_orders s' |>.
Proof.
  intros Hc H. destruct (prune_post t s s' Hc H) as (_ & _ & Hfr & Hso & Hbal).
  destruct Hc as (_ & Hscale & _).
  pose proof (fun a k => lsum_nonneg a k _ (expired_orders_ok t s Hscale)) as Hnn.
  split; [|split; [|split; [|split]]].
  - intros id o. rewrite Hso, del_all_lookup, expired_orders_keys. split.
    + intros [H1 H2]. split; [exact H1|]. destruct (expired t o) eqn:E; [|reflexivity].
      exfalso. apply H2. exists o. tauto.
    + intros [H1 H2]. split; [exact H1|]. intros (o' & H3 & H4). congruence.
  - intros a k. destruct (Hbal a k) as (X1 & X2 & _). lia.
  - intros a k. destruct (Hbal a k) as (_ & X2 & _). specialize (Hnn a k). lia.
  - intros a k. apply Hbal.
  - exact Hfr.
Qed.

(* the tables the lead asked about, as consequences of the record equality *)
Corollary prune_frame t s s' :
  Inv_core s -> prune_sell_orders t s = LOk s' ->
  supplies s' = supplies s /\ bank s' = bank s /\ bank_supply s' = bank_supply s /\
  basket_balances s' = basket_balances s /\ batches s' = batches s /\ baskets s' = baskets s /\
  markets s' = markets s /\ classes s' = classes s /\ credit_types s' = credit_types s /\
  sell_order_seq_id s' = sell_order_seq_id s /\ market_seq_id s' = market_seq_id s /\
  allowed_denoms s' = allowed_denoms s /\ fee_params_ s' = fee_params_ s.
Proof.
  intros Hc H. destruct (prune_spec t s s' Hc H) as (_ & _ & _ & _ & ->). cbn. tauto.
Qed.

(* C06: after pruning at time t no order is left that expired at or before t (and after Unix(0,1)) *)
Theorem expired_never_bought t s s' id o x :
  Inv_core s -> prune_sell_orders t s = LOk s' ->
  sell_orders s' !! id = Some o -> so_expiration o = Some x ->
  ts_leb prune_lower x = true -> ts_leb x t = true -> False.
Proof.
  intros Hc H Hid Hx H1 H2. destruct (prune_spec t s s' Hc H) as (Hso & _).
  apply Hso in Hid. destruct Hid as [_ He]. unfold expired in He. rewrite Hx, H1, H2 in He. discriminate.
Qed.

(* ... so a purchase of an expired order's id fails with "invalid" *)
Corollary expired_buy_fails t s s' e buyer r o x :
  Inv_core s -> prune_sell_orders t s = LOk s' ->
  sell_orders s !! by_id r = Some o -> so_expiration o = Some x ->
  ts_leb prune_lower x = true -> ts_leb x t = true ->
  buy_one e buyer s' r = LErr LInvalid.
Proof.
  intros Hc H Hid Hx H1 H2. destruct (prune_spec t s s' Hc H) as (Hso & _).
  unfold buy_one. destruct (sell_orders s' !! by_id r) as [o'|] eqn:E; [|reflexivity].
  exfalso. apply Hso in E. destruct E as [E1 E2]. rewrite Hid in E1. inversion E1; subst o'.
  unfold expired in E2. rewrite Hx, H1, H2 in E2. discriminate.
Qed.

(* prune as a step: invariants, frame and order well-formedness *)
Lemma prune_step t s s' : Inv_core s -> prune_sell_orders t s = LOk s' -> step_ok s s'.
Proof.
  intros Hc H. destruct (prune_post t s s' Hc H) as (H1 & H2 & H3 & H4 & _).
  split; [exact H1|]. split; [exact H2|]. split.
  - apply Inv_orders_sub; try (rewrite H3; reflexivity).
    intros id o Hid. rewrite H4 in Hid. apply del_all_lookup in Hid. apply Hid.
  - apply Inv_qty_sub. intros id o Hid. rewrite H4 in Hid. apply del_all_lookup in Hid. apply Hid.
Qed.
