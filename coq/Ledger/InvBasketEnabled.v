(* C11, the converse direction: when a credit is admissible, the owner holds enough tradable credits
   and the amounts are of moderate size (so that apd's exponent range is not exceeded), put_one
   succeeds and mints exactly the deposited units. *)
From stdpp Require Import gmap.
From RecordUpdate Require Import RecordSet.
From Coq Require Import ZArith NArith List Bool Lia Strings.Byte.
Require Import Regen.Base.Bytes Regen.Base.Calendar Regen.Dec.Dec Regen.Dec.DecLemmas Regen.Dec.DecIface Regen.Ids.Ids.
Require Import Regen.Ledger.Types Regen.Ledger.Msgs Regen.Ledger.Orm Regen.Ledger.BaseMsgs
               Regen.Ledger.BasketMsgs Regen.Ledger.MarketMsgs Regen.Ledger.Step
               Regen.Ledger.Amount Regen.Ledger.MapSum Regen.Ledger.Inv Regen.Ledger.InvTactics
               Regen.Ledger.InvBasketDec Regen.Ledger.InvBasketLib Regen.Ledger.InvBasketPut.
Import RecordSetNotations.
Local Open Scope Z_scope.

(* magnitude hypothesis: coefficient below 10^1000, between 0 and 6 decimal places *)
Definition moderate (d : dec) : Prop := 0 <= dcoef d < 10 ^ 1000 /\ - P <= dexp d <= 0.

Lemma scale_bound cx K B : 0 <= cx < B -> 1 <= K <= 1000000 -> 0 <= cx * K < B * 1000000.
Proof. intros H1 H2. nia. Qed.

Lemma add_gen_ok subtract x y : moderate x -> moderate y -> exists z, add_gen subtract x y = Ok z.
Proof.
  intros [[Hx0 Hx1] Hxe] [[Hy0 Hy1] Hye]. unfold add_gen. cbv zeta. unfold P in *.
  destruct (Z.abs (dexp x - dexp y) >? max_exponent) eqn:E; [apply Z.gtb_lt in E; unfold max_exponent in E; lia|].
  set (e := Z.min (dexp x) (dexp y)).
  assert (He : -6 <= e <= 0) by (unfold e; lia).
  assert (Hkx : 1 <= 10 ^ (dexp x - e) <= 10 ^ 6).
  { split; [apply pow10_ge1; unfold e; lia | apply pow10_le; unfold e; lia]. }
  assert (Hky : 1 <= 10 ^ (dexp y - e) <= 10 ^ 6).
  { split; [apply pow10_ge1; unfold e; lia | apply pow10_le; unfold e; lia]. }
  change (10 ^ 6) with 1000000 in Hkx, Hky.
  set (a := dcoef x * 10 ^ (dexp x - e)). set (c := dcoef y * 10 ^ (dexp y - e)).
  assert (HB : 10 ^ 1007 = 10 ^ 1000 * 10000000).
  { change 1007 with (1000 + 7). rewrite Z.pow_add_r by lia. reflexivity. }
  set (B := 10 ^ 1000) in *.
  assert (Ha : 0 <= a < B * 1000000) by (unfold a; apply scale_bound; [split; assumption | exact Hkx]).
  assert (Hc : 0 <= c < B * 1000000) by (unfold c; apply scale_bound; [split; assumption | exact Hky]).
  clearbody a c.
  assert (G : forall neg coef, 0 <= coef < B * 10000000 -> exists z, round0 (mkDec neg coef e) = Ok z).
  { intros neg coef Hco. unfold round0. cbn [dexp]. eexists. apply set_exponent_ok'.
    - cbn [forallb]. unfold exp_in_limits, min_exponent, max_exponent.
      rewrite andb_true_r. apply andb_true_iff. split; apply Z.leb_le; lia.
    - cbn [dcoef]. rewrite zsum_single. pose proof (num_digits_ge1 coef).
      assert (num_digits coef <= 1007) by (apply num_digits_le; [rewrite HB; exact Hco | lia]).
      unfold min_exponent, max_exponent. lia. }
  clearbody B.
  destruct (Bool.eqb (dneg x) (xorb (dneg y) subtract)); [apply G; lia|].
  destruct (a - c <? 0) eqn:E1; [apply Z.ltb_lt in E1; apply G; lia|].
  destruct (a - c =? 0); apply G; apply Z.ltb_ge in E1; lia.
Qed.

Lemma moderate_in_ok d : moderate d -> (dneg d = true -> dcoef d = 0) -> in_ok d.
Proof. intros [[H0 _] [He _]] Hn. split; [exact H0 | split; [exact Hn | exact He]]. Qed.

Lemma safe_sub_ok x y : moderate x -> moderate y -> in_ok x -> in_ok y -> U y <= U x ->
  exists z, safe_sub_balance x y = Ok z.
Proof.
  intros Mx My (Hx & Hnx & Hex) (Hy & Hny & Hey) Hle. unfold safe_sub_balance.
  destruct (add_gen_ok true x y Mx My) as [z Hz]. rewrite Hz. cbn [bind].
  destruct (is_negative z) eqn:En; [|eauto]. exfalso.
  unfold is_negative, is_zero in En. apply andb_true_iff in En. destruct En as [En1 En2].
  apply negb_true_iff, Z.eqb_neq in En2.
  pose proof (add_gen_sign true x y z Hx Hy Hex Hey Hz En1 En2).
  pose proof (add_gen_units true x y z Hx Hy Hex Hey Hz) as (_ & _ & HU). lia.
Qed.

Lemma is_positive_of_units d : in_ok d -> 0 < U d -> is_positive d = true.
Proof.
  intros (Hc & Hn & He) Hp. unfold is_positive, is_zero.
  assert (Hne : dcoef d <> 0).
  { intros E. unfold U, units, dint in Hp. rewrite E in Hp. destruct (dneg d); cbn in Hp; lia. }
  destruct (dneg d) eqn:En; [exfalso; apply Hne, Hn; reflexivity|].
  cbn [negb andb]. apply negb_true_iff, Z.eqb_neq. exact Hne.
Qed.

Theorem put_enabled e owner id k s rec c bkey ba amt ub :
  Inv_core s ->
  batch_by_denom s (bcr_denom c) = Some (bkey, ba) ->
  acceptable e s id k ba ->                                  (* class allowed, credit type, date criteria *)
  posfixed P (bcr_amount c) = Ok amt ->                    (* amount > 0 with at most 6 decimal places *)
  dexp amt <= 0 -> num_digits (dcoef amt) <= precision128 -> (* amount * 10^6 fits 34 digits *)
  balances s !! (owner, bkey) = Some ub ->
  U amt <= U (bl_tradable ub) ->                           (* the owner holds enough tradable credits *)
  moderate (bl_tradable ub) ->                             (* magnitudes: no exponent-range error *)
  (forall bb, basket_balances s !! (id, ba_denom ba) = Some bb -> moderate (bb_balance bb)) ->
  exists s', put_one e owner id k P (s, rec) c = LOk (s', rec + U amt).
Proof.
  intros Hcore Hbd Hadm Hamt He0 Hnd Hub Hle Mub Mbb.
  pose proof Hcore as (_ & (Hb & _ & Hbb & _) & _).
  destruct (posfixed_in_ok _ _ Hamt) as (Hc & Hn & He & Hok & Hpos).
  destruct (Hb _ _ Hub) as (Ht & _ & _). pose proof (stored_in_ok _ Ht) as Htin.
  assert (Mamt : moderate amt).
  { split; [|lia]. split; [lia|]. pose proof (num_digits_spec _ Hc) as [_ Hs].
    assert (10 ^ num_digits (dcoef amt) <= 10 ^ 1000)
      by (apply pow10_le; pose proof (num_digits_ge1 (dcoef amt)); unfold precision128 in Hnd; lia).
    lia. }
  destruct (safe_sub_ok _ _ Mub Mamt Htin Hok Hle) as [nt Hnt].
  destruct (tokens_exist amt Hc Hn ltac:(lia) Hnd) as (t & Hmul & Hbig).
  unfold put_one. rewrite Hbd. cbn [from_option lbind].
  apply can_basket_accept_iff in Hadm. rewrite Hadm. cbn [lbind]. rewrite Hamt. cbn [lift lbind].
  unfold transfer_to_basket. rewrite Hub. cbn [from_option lbind].
  rewrite (is_positive_of_units _ Htin) by lia. cbn [check lbind]. rewrite Hnt. cbn [lift_as lbind].
  unfold update_balance, orm_update. rewrite Hub. cbn [lbind].
  cbn [basket_balances set].
  change (basket_balances (s <| balances := ?m |>)) with (basket_balances s).
  unfold credit_amount_to_tokens. rewrite Hmul. cbn [lift lbind].
  destruct (basket_balances s !! (id, ba_denom ba)) as [bb|] eqn:Ebb.
  - destruct (Hbb _ _ Ebb) as [Hbs Hbp]. pose proof (stored_in_ok _ Hbs) as Hbin.
    rewrite (is_positive_of_units _ Hbin Hbp). cbn [check lbind].
    destruct (add_gen_ok false _ _ (Mbb _ eq_refl) Mamt) as [nb Hnb]. unfold add. rewrite Hnb.
    cbn [lift lbind]. rewrite Hbig. cbn [lift lbind]. eauto.
  - cbn [lbind]. rewrite Hbig. cbn [lift lbind]. eauto.
Qed.
