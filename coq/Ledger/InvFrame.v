(* Frame lemmas: bank-keeper operations touch only the bank, and any transition that leaves the
   credit tables alone preserves the credit-accounting invariants. *)
From stdpp Require Import gmap.
From RecordUpdate Require Import RecordSet.
From Coq Require Import ZArith NArith List Bool Lia Strings.Byte.
Require Import Regen.Base.Bytes Regen.Base.Calendar Regen.Dec.Dec.
Require Import Regen.Ledger.Types Regen.Ledger.Msgs Regen.Ledger.Orm Regen.Ledger.BaseMsgs
               Regen.Ledger.BasketMsgs Regen.Ledger.MarketMsgs Regen.Ledger.Step
               Regen.Ledger.Amount Regen.Ledger.MapSum Regen.Ledger.Inv Regen.Ledger.InvTactics.
Import RecordSetNotations.
Local Open Scope Z_scope.

(* everything but the two bank maps *)
Definition nonbank (s : state) :=
  (credit_types s, classes s, class_seq_id s, class_issuers s, projects s, project_seq_id s, batches s, batch_seq_id s,
   class_sequences s, project_sequences s, batch_sequences s, balances s, supplies s, origin_txs s, batch_contracts s,
   allowlist_enabled s, allowed_creators s, class_fee s, allowed_bridge_chains s,
   baskets s, basket_seq_id s, basket_classes s, basket_balances s, basket_fee s,
   sell_orders s, sell_order_seq_id s, allowed_denoms s, markets s, market_seq_id s, fee_params_ s).

Definition nonbank_eq (s s' : state) : Prop := nonbank s' = nonbank s.

Lemma nonbank_eq_refl s : nonbank_eq s s. Proof. reflexivity. Qed.
Lemma nonbank_eq_trans s1 s2 s3 : nonbank_eq s1 s2 -> nonbank_eq s2 s3 -> nonbank_eq s1 s3.
Proof. unfold nonbank_eq. congruence. Qed.

Lemma set_bank_bal_nonbank a d z s : nonbank_eq s (set_bank_bal a d z s).
Proof. reflexivity. Qed.
Lemma set_bank_sup_nonbank d z s : nonbank_eq s (set_bank_sup d z s).
Proof. reflexivity. Qed.
Lemma bank_add_nonbank a c s : nonbank_eq s (bank_add a c s).
Proof. reflexivity. Qed.

Lemma bank_sub_nonbank a c s s' : bank_sub a c s = LOk s' -> nonbank_eq s s'.
Proof. unfold bank_sub. destruct (_ <? _); [discriminate|]. intros H; inversion H. reflexivity. Qed.

Lemma bank_sub_all_nonbank a cs : forall s s', bank_sub_all a cs s = LOk s' -> nonbank_eq s s'.
Proof.
  induction cs as [|c cs IH]; cbn [bank_sub_all]; intros s s' H.
  - inversion H. apply nonbank_eq_refl.
  - lstep H as s1 Hs1. eapply nonbank_eq_trans; [eapply bank_sub_nonbank; exact Hs1 | eapply IH; exact H].
Qed.

Lemma bank_add_all_nonbank a cs : forall s, nonbank_eq s (bank_add_all a cs s).
Proof.
  unfold bank_add_all. induction cs as [|c cs IH]; cbn [fold_left]; intros s.
  - apply nonbank_eq_refl.
  - eapply nonbank_eq_trans; [apply (bank_add_nonbank a c s) | apply IH].
Qed.

Lemma send_coins_nonbank a c cs s s' : send_coins a c cs s = LOk s' -> nonbank_eq s s'.
Proof.
  unfold send_coins. destruct (negb _); [discriminate|]. intros H. lstep H as s1 Hs1. inversion H; subst s'.
  eapply nonbank_eq_trans; [eapply bank_sub_all_nonbank; exact Hs1 | apply bank_add_all_nonbank].
Qed.

Lemma send_coins_m2a_nonbank a c cs s s' : send_coins_from_module_to_account a c cs s = LOk s' -> nonbank_eq s s'.
Proof. unfold send_coins_from_module_to_account. destruct (blocked_addr c); [discriminate|]. apply send_coins_nonbank. Qed.

Lemma fold_nonbank {A} (f : state -> A -> state) (l : list A) :
  (forall s x, nonbank_eq s (f s x)) -> forall s, nonbank_eq s (fold_left f l s).
Proof.
  intros Hf. induction l as [|x l IH]; cbn [fold_left]; intros s; [apply nonbank_eq_refl|].
  eapply nonbank_eq_trans; [apply Hf | apply IH].
Qed.

Lemma mint_coins_nonbank m cs s s' : mint_coins m cs s = LOk s' -> nonbank_eq s s'.
Proof.
  unfold mint_coins. destruct (negb _); [discriminate|]. intros H; inversion H.
  apply fold_nonbank. intros. reflexivity.
Qed.

Lemma burn_coins_nonbank m cs s s' : burn_coins m cs s = LOk s' -> nonbank_eq s s'.
Proof.
  unfold burn_coins. destruct (negb _); [discriminate|]. intros H. lstep H as s1 Hs1. inversion H; subst s'.
  eapply nonbank_eq_trans; [eapply bank_sub_all_nonbank; exact Hs1 |].
  apply fold_nonbank. intros. reflexivity.
Qed.

Lemma charge_fee_nonbank req off payer module s s' : charge_fee req off payer module s = LOk s' -> nonbank_eq s s'.
Proof.
  unfold charge_fee. destruct req as [r|]; [|intros H; inversion H; apply nonbank_eq_refl].
  destruct (negb (0 <? c_amount r)); [intros H; inversion H; apply nonbank_eq_refl|].
  destruct off as [o|]; [|discriminate].
  destruct (negb (bytes_eqb _ _)); [discriminate|]. destruct (negb (coin_gte _ _)); [discriminate|].
  destruct (_ <? _); [discriminate|]. intros H. lstep H as s1 Hs1.
  eapply nonbank_eq_trans; [eapply send_coins_nonbank; exact Hs1 | eapply burn_coins_nonbank; exact H].
Qed.

(* ---------- the credit tables ---------- *)

(* the part of the state the credit-accounting invariants read *)
Record credit_frame (s s' : state) : Prop := {
  cf_balances : balances s' = balances s;
  cf_supplies : supplies s' = supplies s;
  cf_basket_balances : basket_balances s' = basket_balances s;
  cf_sell_orders : sell_orders s' = sell_orders s;
  cf_batches : batches s' = batches s;
  cf_baskets : baskets s' = baskets s;
  cf_batch_seq : batch_seq_id s' = batch_seq_id s;
  cf_order_seq : sell_order_seq_id s' = sell_order_seq_id s;
  cf_basket_seq : basket_seq_id s' = basket_seq_id s;
  cf_ct : forall a ct, credit_types s' !! a = Some ct -> credit_types s !! a = Some ct \/ ct_precision ct = P
}.

Lemma nonbank_credit_frame s s' : nonbank_eq s s' -> credit_frame s s'.
Proof.
  unfold nonbank_eq, nonbank. intros H. injection H as ?????????? ?????????? ??????????.
  constructor; try assumption. intros a ct Hct. left. congruence.
Qed.

Lemma credit_frame_core s s' : credit_frame s s' -> Inv_core s -> Inv_core s'.
Proof.
  intros [Hb Hs Hbb Ho Hba Hk Hq1 Hq2 Hq3 Hct] (Ict & Isc & Ik & Ic & Ie).
  split; [|split; [|split; [|split]]].
  - intros a ct H. destruct (Hct a ct H) as [H'|H']; [eapply Ict; exact H' | exact H'].
  - unfold Inv_scale in *. rewrite Hb, Hs, Hbb, Ho. exact Isc.
  - unfold Inv_keys in *. rewrite Hb, Hs, Hbb, Ho, Hba, Hk, Hq1, Hq2, Hq3. exact Ik.
  - unfold Inv_cons in *. rewrite Hb, Hs, Hbb, Hba. exact Ic.
  - unfold Inv_escrow, get_balance in *. rewrite Hb, Ho. exact Ie.
Qed.

Lemma credit_frame_trans s1 s2 s3 : credit_frame s1 s2 -> credit_frame s2 s3 -> credit_frame s1 s3.
Proof.
  intros [a1 a2 a3 a4 a5 a6 a7 a8 a9 a10] [b1 b2 b3 b4 b5 b6 b7 b8 b9 b10].
  constructor; try congruence.
  intros a ct H. destruct (b10 a ct H) as [H'|H']; [apply a10; exact H' | right; exact H'].
Qed.
