(* Base-module credit handlers: main results.

   For m one of MCreateBatch, MMintBatchCredits, MSend, MRetire, MCancel, MBridge, MBridgeReceive,
   MSealBatch, MUpdateBatchMetadata:

     base_preserves_core    Inv_core is preserved                                  (C01, C06 part)
     base_preserves_basket  baskets, basket balances, sell orders, bank untouched  (no invariant needed)
     base_monotone          retired balances, retired and cancelled supply only grow  (C04)
     base_total_effect      effect on the batch total T = tradable + retired + cancelled  (C02)
     base_batch_static      denom, dates, project, issuer of a batch never change; sealing is one-way
     base_handle_ok         all of the above in one statement

   No extra invariant was needed: Inv_core (as defined in Inv.v) is inductive for these handlers.
   [validate_basic m = true] is kept as a hypothesis of the theorems for uniformity but is not used:
   the handlers re-parse every amount.  Proof file. *)
From stdpp Require Import gmap.
From RecordUpdate Require Import RecordSet.
From Coq Require Import ZArith NArith List Bool Lia Strings.Byte.
Require Import Regen.Base.Bytes Regen.Base.Calendar Regen.Dec.Dec Regen.Dec.DecIface.
Require Import Regen.Ledger.Types Regen.Ledger.Msgs Regen.Ledger.Orm Regen.Ledger.BaseMsgs
               Regen.Ledger.BasketMsgs Regen.Ledger.MarketMsgs Regen.Ledger.Step
               Regen.Ledger.Amount Regen.Ledger.MapSum Regen.Ledger.Inv Regen.Ledger.InvTactics
               Regen.Ledger.InvBaseLib Regen.Ledger.InvBase1 Regen.Ledger.InvBase2 Regen.Ledger.InvBase3.
Import ListNotations RecordSetNotations.
Local Open Scope Z_scope.

Definition is_base_credit_msg (m : msg) : bool :=
  match m with
  | MCreateBatch _ _ _ _ _ _ _ _ | MMintBatchCredits _ _ _ _ | MSend _ _ _ | MRetire _ _ _ _
  | MCancel _ _ _ | MBridge _ _ _ _ | MBridgeReceive _ _ _ _ _ | MSealBatch _ _
  | MUpdateBatchMetadata _ _ _ => true
  | _ => false
  end.

(* C02.  Units are 10^-6 credits; [issued_units iss] (InvBaseLib) is the sum over the issuances of
   the units of the tradable and of the retired amount string, each read by NonNegativeFixedDec at
   precision 6 (0 for a string the handler would reject; on success every string was accepted).
   [T su] is U tradable + U retired + U cancelled.
   - totals_same s s'      : every supply row of s' exists in s with the same total (nothing issued,
                             no row added; rows are never removed by base_monotone)
   - minted_denom / minted : the batch exists in s, is open, its issuer is the signer; its total
                             grows by exactly issued_units iss; all other supply rows are identical
   - created               : the supply row batch_seq_id s + 1 is new and has total issued_units iss;
                             all other supply rows are identical; the sequence advances by one *)
Definition total_effect (m : msg) (s s' : state) : Prop :=
  match m with
  | MMintBatchCredits issuer denom iss _ => minted_denom issuer denom iss s s'
  | MCreateBatch _ _ iss _ _ _ _ _ => created iss s s'
  | MBridgeReceive issuer _ _ bar _ =>
      exists bb, bar = Some bb /\
        (minted issuer (bridge_issuance bb) s s' \/ created (bridge_issuance bb) s s')
  | _ => totals_same s s'
  end.

Theorem base_handle_ok e s m s' r evs :
  is_base_credit_msg m = true -> Inv_core s -> handle e s m = LOk (s', r, evs) ->
  Inv_core s' /\ base_rel s s' /\ total_effect m s s'.
Proof.
  intros Hm Hinv H. destruct m; try discriminate Hm; cbn [handle] in H; cbn [total_effect].
  - (* MCreateBatch *)
    destruct (h_create_batch_ok _ _ _ _ _ _ _ _ _ _ _ _ _ Hinv H) as (H1 & H2 & H3 & H4).
    split; [exact H1|]. split; [exact H2|]. split; [exact H3 | exact H4].
  - (* MMintBatchCredits *)
    exact (h_mint_batch_credits_ok _ _ _ _ _ _ _ _ _ Hinv H).
  - (* MSealBatch *)
    exact (h_seal_batch_ok _ _ _ _ _ _ _ Hinv H).
  - (* MSend *)
    exact (h_send_ok _ _ _ _ _ _ _ _ Hinv H).
  - (* MRetire *)
    exact (h_retire_ok _ _ _ _ _ _ _ Hinv H).
  - (* MCancel *)
    exact (h_cancel_ok _ _ _ _ _ _ _ Hinv H).
  - (* MUpdateBatchMetadata *)
    exact (h_update_batch_metadata_ok _ _ _ _ _ _ _ _ Hinv H).
  - (* MBridge *)
    exact (h_bridge_ok _ _ _ _ _ _ _ _ _ Hinv H).
  - (* MBridgeReceive *)
    exact (h_bridge_receive_ok _ _ _ _ _ _ _ _ _ _ Hinv H).
Qed.

Theorem base_preserves_core e s m s' r evs :
  is_base_credit_msg m = true ->
  Inv_core s -> validate_basic m = true -> handle e s m = LOk (s', r, evs) -> Inv_core s'.
Proof. intros Hm Hinv _ H. exact (proj1 (base_handle_ok _ _ _ _ _ _ Hm Hinv H)). Qed.

Theorem base_preserves_basket e s m s' r evs :
  is_base_credit_msg m = true -> handle e s m = LOk (s', r, evs) ->
  baskets s' = baskets s /\ basket_balances s' = basket_balances s /\ bank s' = bank s /\
  bank_supply s' = bank_supply s /\ sell_orders s' = sell_orders s.
Proof.
  intros Hm H. change (frame5 s s').
  destruct m; try discriminate Hm; cbn [handle] in H.
  - eapply h_create_batch_frame; exact H.
  - eapply h_mint_batch_credits_frame; exact H.
  - eapply h_seal_batch_frame; exact H.
  - unfold h_send in H. lstep H as s1 Hs1. unfold ret in H. inversion H; subst s' r evs.
    eapply lfold_frame5; [|exact Hs1]. intros s0 x s0' Hx. eapply send_one_frame; exact Hx.
  - unfold h_retire in H. lstep H as s1 Hs1. unfold ret in H. inversion H; subst s' r evs.
    eapply lfold_frame5; [|exact Hs1]. intros s0 x s0' Hx. eapply retire_one_frame; exact Hx.
  - unfold h_cancel in H. lstep H as s1 Hs1. unfold ret in H. inversion H; subst s' r evs.
    eapply lfold_frame5; [|exact Hs1]. intros s0 x s0' Hx. eapply cancel_one_frame; exact Hx.
  - eapply h_update_batch_metadata_frame; exact H.
  - unfold h_bridge in H. lstep H as u Hu. lstep H as s1 Hs1. lstep H as evs1 Hevs.
    inversion H; subst s' r evs.
    eapply lfold_frame5; [|exact Hs1]. intros s0 x s0' Hx. eapply cancel_one_frame; exact Hx.
  - eapply h_bridge_receive_frame; exact H.
Qed.

(* C04: retirement and cancellation are permanent *)
Theorem base_monotone e s m s' r evs :
  is_base_credit_msg m = true -> Inv_core s -> validate_basic m = true ->
  handle e s m = LOk (s', r, evs) ->
  (forall a k, U (bl_retired (get_balance s a k)) <= U (bl_retired (get_balance s' a k))) /\
  (forall k su, supplies s !! k = Some su -> exists su', supplies s' !! k = Some su' /\
       U (su_retired su) <= U (su_retired su') /\ U (su_cancelled su) <= U (su_cancelled su')).
Proof.
  intros Hm Hinv _ H. destruct (base_handle_ok _ _ _ _ _ _ Hm Hinv H) as (_ & Hrel & _).
  split; [exact (br_retired _ _ Hrel) | exact (br_supplies _ _ Hrel)].
Qed.

(* C02: issuance accounting *)
Theorem base_total_effect e s m s' r evs :
  is_base_credit_msg m = true -> Inv_core s -> validate_basic m = true ->
  handle e s m = LOk (s', r, evs) -> total_effect m s s'.
Proof. intros Hm Hinv _ H. exact (proj2 (proj2 (base_handle_ok _ _ _ _ _ _ Hm Hinv H))). Qed.

(* the immutable part of a batch row; ba_open never goes from false to true *)
Theorem base_batch_static e s m s' r evs :
  is_base_credit_msg m = true -> Inv_core s -> validate_basic m = true ->
  handle e s m = LOk (s', r, evs) ->
  forall k ba, batches s !! k = Some ba ->
    exists ba', batches s' !! k = Some ba' /\ batch_static ba ba'.
Proof.
  intros Hm Hinv _ H. destruct (base_handle_ok _ _ _ _ _ _ Hm Hinv H) as (_ & Hrel & _).
  exact (br_batches _ _ Hrel).
Qed.

(* readable corollaries of total_effect *)

Corollary base_no_issuance e s m s' r evs :
  match m with
  | MSend _ _ _ | MRetire _ _ _ _ | MCancel _ _ _ | MBridge _ _ _ _ | MSealBatch _ _
  | MUpdateBatchMetadata _ _ _ => True
  | _ => False
  end ->
  Inv_core s -> handle e s m = LOk (s', r, evs) ->
  (forall k su su', supplies s !! k = Some su -> supplies s' !! k = Some su' -> T su' = T su) /\
  (forall k, supplies s !! k = None -> supplies s' !! k = None).
Proof.
  intros Hm Hinv H.
  assert (Hb : is_base_credit_msg m = true) by (destruct m; try contradiction; reflexivity).
  pose proof (proj2 (proj2 (base_handle_ok _ _ _ _ _ _ Hb Hinv H))) as Ht.
  assert (Hs : totals_same s s') by (destruct m; try contradiction; exact Ht).
  split.
  - intros k su su' Hk Hk'. destruct (Hs _ _ Hk') as (su0 & Hk0 & E). rewrite Hk in Hk0.
    inversion Hk0; subst su0. exact E.
  - intros k Hk. destruct (supplies s' !! k) as [su'|] eqn:E; [|reflexivity].
    destruct (Hs _ _ E) as (su0 & Hk0 & _). rewrite Hk in Hk0. discriminate.
Qed.

(* the transaction rule: a failed or invalid message leaves the state unchanged *)
Corollary base_deliver_ok e s m :
  is_base_credit_msg m = true -> Inv_core s ->
  Inv_core (deliver e s m).1 /\ base_rel s (deliver e s m).1.
Proof.
  intros Hm Hinv. unfold deliver. destruct (validate_basic m) eqn:V.
  - destruct (handle e s m) as [[[s' r] evs]|err] eqn:H; cbn [fst].
    + destruct (base_handle_ok _ _ _ _ _ _ Hm Hinv H) as (H1 & H2 & _). split; assumption.
    + split; [exact Hinv | apply base_rel_refl].
  - cbn [fst]. split; [exact Hinv | apply base_rel_refl].
Qed.

Print Assumptions base_handle_ok.
Print Assumptions base_preserves_basket.
