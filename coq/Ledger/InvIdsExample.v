(* C14 example: from a genesis with empty class / project / batch tables, a run that creates
   classes, projects and batches (and includes a rejected message) keeps Inv_ids, and the ids it
   hands out are the consecutive ones.  Only booleans are computed.  Proof file. *)
From stdpp Require Import gmap.
From RecordUpdate Require Import RecordSet.
From Coq Require Import ZArith NArith List Bool Strings.Byte Strings.String.
Require Import Regen.Base.Bytes Regen.Base.Calendar Regen.Dec.Dec Regen.Ids.Ids.
Require Import Regen.Ledger.Types Regen.Ledger.Msgs Regen.Ledger.Orm Regen.Ledger.BaseMsgs Regen.Ledger.Step
               Regen.Ledger.InvBaseExample Regen.Ledger.InvBridge Regen.Ledger.InvIds.
Import ListNotations RecordSetNotations.
Local Open Scope Z_scope.

Definition gen0 : state :=
  ex0 <| classes := ∅ |> <| class_seq_id := 0%N |> <| class_issuers := ∅ |> <| projects := ∅ |>
      <| project_seq_id := 0%N |> <| class_sequences := ∅ |> <| project_sequences := ∅ |>.

Lemma gen0_ids : Inv_ids gen0.
Proof.
  apply Inv_ids_empty; try reflexivity.
  intros ct [x Hx]. cbn in Hx. apply lookup_singleton_Some in Hx. destruct Hx as [<- _]. vm_compute. reflexivity.
Qed.

Definition day0 : option ts := Some (mk_ts 1577836800 0).
Definition day1 : option ts := Some (mk_ts 1609459200 0).
Definition iss1 : list issuance :=
  [{| is_recipient := 1%N; is_tradable := b "1"; is_retired := []; is_jurisdiction := []; is_reason := [] |}].

Definition ids_msgs : list msg := [
  MCreateClass 0%N [0%N] (b "m") (b "C") None;
  MCreateClass 0%N [0%N] (b "m") (b "C") None;
  MCreateProject 0%N (b "C02") (b "m") (b "US") [];
  MCreateProject 5%N (b "C02") (b "m") (b "US") [];          (* not an issuer: rejected, consumes nothing *)
  MCreateProject 0%N (b "C02") (b "m") (b "US") [];
  MCreateBatch 0%N (b "C02-002") iss1 (b "m") day0 day1 true None;
  MCreateBatch 0%N (b "C02-002") iss1 (b "m") day0 day1 false None
].

Lemma ids_run_ok : Inv_ids (run_msgs ex_env gen0 ids_msgs).
Proof.
  assert (Hall : forall ms s, forallb is_base_module_msg ms = true -> Inv_ids s -> Inv_ids (run_msgs ex_env s ms)).
  { induction ms as [|m ms IH]; intros s Hm Hs; cbn [run_msgs]; [exact Hs|].
    cbn [forallb] in Hm. apply andb_true_iff in Hm. destruct Hm as [Hm1 Hm2].
    apply IH; [exact Hm2|]. apply deliver_preserves_ids; assumption. }
  apply Hall; [vm_compute; reflexivity | apply gen0_ids].
Qed.

(* outcomes: everything accepted except the fourth message; the responses carry consecutive ids *)
Fixpoint outcomes (s : state) (ms : list msg) : list (option response) :=
  match ms with
  | [] => []
  | m :: ms' => (match (deliver ex_env s m).2 with OOk r _ => Some r | _ => None end)
                :: outcomes (deliver ex_env s m).1 ms'
  end.

Definition response_eqb (x y : option response) : bool :=
  match x, y with
  | Some (RClassId a), Some (RClassId c) | Some (RProjectId a), Some (RProjectId c)
  | Some (RBatchDenom a), Some (RBatchDenom c) => bytes_eqb a c
  | None, None => true
  | _, _ => false
  end.

Lemma ids_run_outcomes :
  forallb (fun p => response_eqb p.1 p.2)
    (combine (outcomes gen0 ids_msgs)
       [Some (RClassId (b "C01")); Some (RClassId (b "C02")); Some (RProjectId (b "C02-001")); None;
        Some (RProjectId (b "C02-002")); Some (RBatchDenom (b "C02-002-20200101-20210101-001"));
        Some (RBatchDenom (b "C02-002-20200101-20210101-002"))]) = true.
Proof. vm_compute. reflexivity. Qed.
