(* Shapes of the base-module handlers on the tables other than balances and supplies: which rows
   they write, and that nothing else moves.  Used by InvBridge (C13), InvIds (C14), InvOwn (C03).
   Proof file; no invariant is assumed anywhere in this file. *)
From stdpp Require Import gmap.
From RecordUpdate Require Import RecordSet.
From Coq Require Import ZArith NArith List Bool Lia Strings.Byte.
Require Import Regen.Base.Bytes Regen.Base.Calendar Regen.Dec.Dec Regen.Ids.Ids.
Require Import Regen.Ledger.Types Regen.Ledger.Msgs Regen.Ledger.Orm Regen.Ledger.BaseMsgs
               Regen.Ledger.BasketMsgs Regen.Ledger.MarketMsgs Regen.Ledger.Step
               Regen.Ledger.Amount Regen.Ledger.MapSum Regen.Ledger.Inv Regen.Ledger.InvTactics
               Regen.Ledger.InvBaseLib Regen.Ledger.InvBase1 Regen.Ledger.InvBase2 Regen.Ledger.InvBase3
               Regen.Ledger.InvBase Regen.Ledger.InvFrame Regen.Ledger.InvAdmin.
Import ListNotations RecordSetNotations.
Local Open Scope Z_scope.

(* ------------------------------------------------------------------ *)
(* "only balances and supplies moved"                                  *)
(* ------------------------------------------------------------------ *)

Definition rest_eq (s s' : state) : Prop :=
  s' = s <| balances := balances s' |> <| supplies := supplies s' |>.

Lemma rest_eq_refl s : rest_eq s s.
Proof. unfold rest_eq. destruct s. reflexivity. Qed.

Lemma rest_eq_trans s1 s2 s3 : rest_eq s1 s2 -> rest_eq s2 s3 -> rest_eq s1 s3.
Proof. unfold rest_eq. intros H1 H2. rewrite H1 in H2. exact H2. Qed.

Lemma lfold_rest_eq {B} (f : state -> B -> lres state) :
  (forall s x s', f s x = LOk s' -> rest_eq s s') ->
  forall l s s', lfold f l s = LOk s' -> rest_eq s s'.
Proof.
  intros Hstep l s s' Hl.
  destruct (lfold_rel f (fun _ => True) rest_eq) with (l := l) (a := s) (a' := s') as [_ Hr].
  - apply rest_eq_refl.
  - apply rest_eq_trans.
  - intros a x a' _ Hf. split; [exact I | eapply Hstep; exact Hf].
  - exact I.
  - exact Hl.
  - exact Hr.
Qed.

Ltac rest_proj := let H := fresh "H" in intros H; unfold rest_eq in H; rewrite H; reflexivity.

Lemma rest_credit_types s s' : rest_eq s s' -> credit_types s' = credit_types s. Proof. rest_proj. Qed.
Lemma rest_classes s s' : rest_eq s s' -> classes s' = classes s. Proof. rest_proj. Qed.
Lemma rest_class_seq_id s s' : rest_eq s s' -> class_seq_id s' = class_seq_id s. Proof. rest_proj. Qed.
Lemma rest_class_issuers s s' : rest_eq s s' -> class_issuers s' = class_issuers s. Proof. rest_proj. Qed.
Lemma rest_projects s s' : rest_eq s s' -> projects s' = projects s. Proof. rest_proj. Qed.
Lemma rest_project_seq_id s s' : rest_eq s s' -> project_seq_id s' = project_seq_id s. Proof. rest_proj. Qed.
Lemma rest_batches s s' : rest_eq s s' -> batches s' = batches s. Proof. rest_proj. Qed.
Lemma rest_batch_seq_id s s' : rest_eq s s' -> batch_seq_id s' = batch_seq_id s. Proof. rest_proj. Qed.
Lemma rest_class_sequences s s' : rest_eq s s' -> class_sequences s' = class_sequences s. Proof. rest_proj. Qed.
Lemma rest_project_sequences s s' : rest_eq s s' -> project_sequences s' = project_sequences s. Proof. rest_proj. Qed.
Lemma rest_batch_sequences s s' : rest_eq s s' -> batch_sequences s' = batch_sequences s. Proof. rest_proj. Qed.
Lemma rest_origin_txs s s' : rest_eq s s' -> origin_txs s' = origin_txs s. Proof. rest_proj. Qed.
Lemma rest_batch_contracts s s' : rest_eq s s' -> batch_contracts s' = batch_contracts s. Proof. rest_proj. Qed.
Lemma rest_allowed_bridge_chains s s' : rest_eq s s' -> allowed_bridge_chains s' = allowed_bridge_chains s. Proof. rest_proj. Qed.
Lemma rest_bank s s' : rest_eq s s' -> bank s' = bank s. Proof. rest_proj. Qed.
Lemma rest_bank_supply s s' : rest_eq s s' -> bank_supply s' = bank_supply s. Proof. rest_proj. Qed.

(* ---------- the credit steps ---------- *)

Lemma send_tradable_rest bk sender recipient amt s s' :
  send_tradable bk sender recipient amt s = LOk s' -> rest_eq s s'.
Proof.
  unfold send_tradable. intros H.
  lstep H as sb Hsb. lstep H as nt Hnt. lstep H as s1 Hs1. lstep H as rt Hrt.
  apply update_balance_ok' in Hs1. destruct Hs1 as [-> _].
  inversion H; subst s'. reflexivity.
Qed.

Lemma send_retired_rest bk sender recipient amt s s' :
  send_retired bk sender recipient amt s = LOk s' -> rest_eq s s'.
Proof.
  unfold send_retired. intros H.
  lstep H as sb Hsb. lstep H as nt Hnt. lstep H as s1 Hs1. lstep H as rr Hrr.
  lstep H as su Hsu. lstep H as st Hst. lstep H as sr Hsr.
  apply update_balance_ok' in Hs1. destruct Hs1 as [-> _].
  apply update_supply_ok' in H. destruct H as [-> _]. reflexivity.
Qed.

Lemma send_one_rest sender recipient s c s' : send_one sender recipient s c = LOk s' -> rest_eq s s'.
Proof.
  unfold send_one. intros H.
  lstep H as p Hp. destruct p as [bk ba]. cbv beta iota in H.
  lstep H as ct Hct. cbv zeta in H. lstep H as t Ht. lstep H as r Hr. lstep H as s1 Hs1.
  assert (H1 : rest_eq s s1).
  { destruct (is_zero t); [inversion Hs1; subst s1; apply rest_eq_refl|].
    eapply send_tradable_rest; exact Hs1. }
  eapply rest_eq_trans; [exact H1|].
  destruct (is_zero r); [inversion H; subst s'; apply rest_eq_refl|].
  eapply send_retired_rest; exact H.
Qed.

Lemma retire_one_rest owner s c s' : retire_one owner s c = LOk s' -> rest_eq s s'.
Proof.
  unfold retire_one. intros H.
  lstep H as p Hp. destruct p as [bk ba]. cbv beta iota in H.
  lstep H as ct Hct. lstep H as ub Hub. lstep H as amt Hamt. lstep H as nt Hnt. lstep H as nr Hnr.
  lstep H as su Hsu. lstep H as sr Hsr. lstep H as st Hst. lstep H as s1 Hs1.
  apply update_balance_ok' in Hs1. destruct Hs1 as [-> _].
  apply update_supply_ok' in H. destruct H as [-> _]. reflexivity.
Qed.

Lemma cancel_one_rest owner s c s' : cancel_one owner s c = LOk s' -> rest_eq s s'.
Proof.
  unfold cancel_one. intros H.
  lstep H as p Hp. destruct p as [bk ba]. cbv beta iota in H.
  lstep H as ct Hct. lstep H as ub Hub. lstep H as su Hsu. lstep H as amt Hamt. lstep H as nt Hnt.
  lstep H as st Hst. lstep H as sc Hsc. lstep H as s1 Hs1.
  apply update_balance_ok' in Hs1. destruct Hs1 as [-> _].
  apply update_supply_ok' in H. destruct H as [-> _]. reflexivity.
Qed.

Lemma mint_issue_rest p bk s i s' : mint_issue p bk s i = LOk s' -> rest_eq s s'.
Proof.
  unfold mint_issue. intros H.
  lstep H as t Ht. lstep H as r Hr. cbv zeta in H.
  lstep H as su Hsu. lstep H as p1 Hp1. destruct p1 as [br sr]. cbv beta iota in H.
  lstep H as p2 Hp2. destruct p2 as [bt st]. cbv beta iota in H.
  apply update_supply_ok' in H. destruct H as [-> _]. reflexivity.
Qed.

Lemma create_batch_issue_rest p bk acc i acc' :
  create_batch_issue p bk acc i = LOk acc' -> rest_eq acc.1.1 acc'.1.1.
Proof.
  destruct acc as [[s t] r]. unfold create_batch_issue. intros H.
  lstep H as t0 Ht0. lstep H as r0 Hr0. cbv zeta in H.
  lstep H as tb Htb. lstep H as rb Hrb. lstep H as t1 Ht1. lstep H as r1 Hr1.
  inversion H; subst acc'. cbn [fst snd]. reflexivity.
Qed.

Lemma create_loop_rest p bk : forall iss acc acc',
  lfold (create_batch_issue p bk) iss acc = LOk acc' -> rest_eq acc.1.1 acc'.1.1.
Proof.
  induction iss as [|i iss IH]; intros acc acc' Hl; cbn [lfold] in Hl.
  - inversion Hl; subst acc'. apply rest_eq_refl.
  - apply lbind_ok in Hl. destruct Hl as (a1 & H1 & H2).
    eapply rest_eq_trans; [eapply create_batch_issue_rest; exact H1 | eapply IH; exact H2].
Qed.

(* ------------------------------------------------------------------ *)
(* handler shapes                                                      *)
(* ------------------------------------------------------------------ *)

Definition origin_key (ck : N) (o : origin_tx) : N * bytes * bytes := (ck, ot_id o, to_lower (ot_source o)).

Lemma insert_origin_tx_shape ck o s s1 :
  insert_origin_tx ck o s = LOk s1 ->
  origin_key ck o ∉ origin_txs s /\ s1 = s <| origin_txs := {[ origin_key ck o ]} ∪ origin_txs s |>.
Proof.
  unfold insert_origin_tx, origin_key. destruct (bool_decide _) eqn:E; [discriminate|].
  intros H. inversion H; subst s1. split; [|reflexivity].
  apply bool_decide_eq_false in E. exact E.
Qed.

Lemma h_send_rest e s sender recipient cs s' r evs :
  h_send e s sender recipient cs = LOk (s', r, evs) -> rest_eq s s'.
Proof.
  intros H. unfold h_send in H. lstep H as s1 Hs1. unfold ret in H. inversion H; subst s' r evs.
  eapply lfold_rest_eq; [|exact Hs1]. intros s0 x s0' Hx. eapply send_one_rest; exact Hx.
Qed.

Lemma h_retire_rest e s owner cs s' r evs : h_retire e s owner cs = LOk (s', r, evs) -> rest_eq s s'.
Proof.
  intros H. unfold h_retire in H. lstep H as s1 Hs1. unfold ret in H. inversion H; subst s' r evs.
  eapply lfold_rest_eq; [|exact Hs1]. intros s0 x s0' Hx. eapply retire_one_rest; exact Hx.
Qed.

Lemma h_cancel_rest e s owner cs s' r evs : h_cancel e s owner cs = LOk (s', r, evs) -> rest_eq s s'.
Proof.
  intros H. unfold h_cancel in H. lstep H as s1 Hs1. unfold ret in H. inversion H; subst s' r evs.
  eapply lfold_rest_eq; [|exact Hs1]. intros s0 x s0' Hx. eapply cancel_one_rest; exact Hx.
Qed.

(* Bridge: the allowed-target check, the cancel loop, then the events computed in the final state *)
Lemma h_bridge_shape e s owner target recipient cs s' r evs :
  h_bridge e s owner target recipient cs = LOk (s', r, evs) ->
  to_lower target ∈ allowed_bridge_chains s /\
  lfold (cancel_one owner) cs s = LOk s' /\
  lmap (bridge_event s' owner target recipient) cs = LOk evs /\ r = REmpty /\ rest_eq s s'.
Proof.
  intros H. unfold h_bridge in H. lstep H as u Hu. lstep H as s1 Hs1. lstep H as evs1 Hevs.
  inversion H; subst s' r evs.
  apply bool_decide_eq_true in Hu.
  split; [exact Hu|]. split; [exact Hs1|]. split; [exact Hevs|]. split; [reflexivity|].
  eapply lfold_rest_eq; [|exact Hs1]. intros s0 x s0' Hx. eapply cancel_one_rest; exact Hx.
Qed.

Definition sealed (ba : batch) : batch :=
  {| ba_issuer := ba_issuer ba; ba_project_key := ba_project_key ba; ba_denom := ba_denom ba;
     ba_metadata := ba_metadata ba; ba_start := ba_start ba; ba_end := ba_end ba;
     ba_issuance := ba_issuance ba; ba_open := false |}.

Definition with_metadata (md : bytes) (ba : batch) : batch :=
  {| ba_issuer := ba_issuer ba; ba_project_key := ba_project_key ba; ba_denom := ba_denom ba;
     ba_metadata := md; ba_start := ba_start ba; ba_end := ba_end ba;
     ba_issuance := ba_issuance ba; ba_open := ba_open ba |}.

(* SealBatch / UpdateBatchMetadata rewrite one existing batch row, keeping its immutable part *)
Lemma h_seal_batch_shape e s issuer denom s' r evs :
  h_seal_batch e s issuer denom = LOk (s', r, evs) ->
  s' = s \/ exists bk ba, batches s !! bk = Some ba /\ s' = set_batch bk (sealed ba) s.
Proof.
  intros H. unfold h_seal_batch in H.
  lstep H as p Hp. destruct p as [bk ba]. cbv beta iota in H. lstep H as u Hu.
  apply batch_by_denom_Some in Hp. destruct Hp as [Hba _].
  destruct (negb (ba_open ba)); unfold ret in H; inversion H; subst s' r evs.
  - left. reflexivity.
  - right. exists bk, ba. split; [exact Hba | reflexivity].
Qed.

Lemma h_update_batch_metadata_shape e s issuer denom md s' r evs :
  h_update_batch_metadata e s issuer denom md = LOk (s', r, evs) ->
  exists bk ba, batches s !! bk = Some ba /\ s' = set_batch bk (with_metadata md ba) s.
Proof.
  intros H. unfold h_update_batch_metadata in H.
  lstep H as p Hp. destruct p as [bk ba]. cbv beta iota in H. lstep H as u Hu. lstep H as u2 Hu2.
  apply batch_by_denom_Some in Hp. destruct Hp as [Hba _].
  unfold ret in H; inversion H; subst s' r evs. exists bk, ba. split; [exact Hba | reflexivity].
Qed.

(* MintBatchCredits: the origin tx is recorded under the class of the batch's project, then only
   balances and supplies move *)
Lemma h_mint_batch_credits_shape e s issuer denom iss otx s' r evs :
  h_mint_batch_credits e s issuer denom iss otx = LOk (s', r, evs) ->
  exists bk ba pj o,
    batch_by_denom s denom = Some (bk, ba) /\ ba_open ba = true /\ ba_issuer ba = issuer /\
    projects s !! ba_project_key ba = Some pj /\ otx = Some o /\
    origin_key (pj_class_key pj) o ∉ origin_txs s /\
    rest_eq (s <| origin_txs := {[ origin_key (pj_class_key pj) o ]} ∪ origin_txs s |>) s' /\
    r = REmpty /\ evs = [].
Proof.
  intros H. unfold h_mint_batch_credits in H.
  lstep H as p Hp. destruct p as [bk ba]. cbv beta iota in H.
  lstep H as u1 Hopen. lstep H as u2 Hiss. lstep H as pj Hpj. lstep H as o Ho.
  lstep H as s1 Hs1. lstep H as ct Hct. lstep H as s2 Hs2.
  unfold ret in H. inversion H; subst s' r evs; clear H.
  apply N.eqb_eq in Hiss.
  apply insert_origin_tx_shape in Hs1. destruct Hs1 as [Hnot ->].
  exists bk, ba, pj, o.
  split; [exact Hp|]. split; [exact Hopen|]. split; [exact Hiss|]. split; [exact Hpj|].
  split; [exact Ho|]. split; [exact Hnot|]. split; [|split; reflexivity].
  eapply lfold_rest_eq; [|exact Hs2]. intros s0 x s0' Hx. eapply mint_issue_rest; exact Hx.
Qed.

(* CreateProject *)
Definition new_project (admin : addr) (ck : N) (cl : class) (seq : N) (metadata jurisdiction reference_id : bytes) : project :=
  {| pj_id := format_project_id (cl_id cl) seq; pj_admin := admin; pj_class_key := ck;
     pj_jurisdiction := jurisdiction; pj_metadata := metadata; pj_reference_id := reference_id |}.

Lemma h_create_project_shape e s admin class_id metadata jurisdiction reference_id s' r evs :
  h_create_project e s admin class_id metadata jurisdiction reference_id = LOk (s', r, evs) ->
  exists ck cl,
    class_by_id s class_id = Some (ck, cl) /\ is_issuer s ck admin = true /\
    let seq := default 1%N (project_sequences s !! ck) in
    let pj := new_project admin ck cl seq metadata jurisdiction reference_id in
    (forall k p, projects s !! k = Some p -> pj_id p <> pj_id pj) /\
    s' = s <| project_sequences := <[ck := (seq + 1)%N]> (project_sequences s) |>
           <| projects := <[(project_seq_id s + 1)%N := pj]> (projects s) |>
           <| project_seq_id := (project_seq_id s + 1)%N |> /\
    r = RProjectId (pj_id pj) /\ evs = [].
Proof.
  intros H. unfold h_create_project in H.
  lstep H as p Hp. destruct p as [ck cl]. cbv beta iota in H.
  lstep H as u1 Hu1. cbv zeta in H. lstep H as u2 Hu2. lstep H as u3 Hu3.
  unfold ret in H. inversion H; subst s' r evs; clear H.
  exists ck, cl. split; [exact Hp|]. split; [exact Hu1|]. cbv zeta.
  split; [|split; [reflexivity | split; reflexivity]].
  apply negb_true_iff in Hu3. intros k p Hk Heq.
  pose proof (map_exists_false _ _ Hu3 k p Hk) as Hf. cbn beta in Hf.
  assert (Ht : bytes_eqb (pj_id p) (format_project_id (cl_id cl) (default 1%N (project_sequences s !! ck))) = true)
    by (apply bytes_eqb_eq; exact Heq).
  rewrite Ht in Hf. discriminate.
Qed.

(* CreateBatch *)
Definition new_batch (e : env) (issuer : addr) (pk : N) (pj : project) (seq : N) (metadata : bytes)
    (sd ed : ts) (open : bool) : batch :=
  {| ba_issuer := issuer; ba_project_key := pk; ba_denom := format_batch_denom (pj_id pj) seq sd ed;
     ba_metadata := metadata; ba_start := sd; ba_end := ed; ba_issuance := e_time e; ba_open := open |}.

Definition cb_origin_txs (ck : N) (otx : option origin_tx) (s : state) : gset (N * bytes * bytes) :=
  match otx with Some o => {[ origin_key ck o ]} ∪ origin_txs s | None => origin_txs s end.

Definition cb_contracts (ck bk : N) (otx : option origin_tx) (s : state) : gmap N batch_contract :=
  match otx with
  | Some o => match ot_contract o with
              | [] => batch_contracts s
              | _ => <[bk := {| bc_class_key := ck; bc_contract := ot_contract o |}]> (batch_contracts s)
              end
  | None => batch_contracts s
  end.

(* the tables of the post-state of CreateBatch (its balances and supplies are described in InvBase2) *)
Definition cb_tables (e : env) (s : state) (issuer : addr) (pk : N) (pj : project) (metadata : bytes)
    (sd ed : ts) (open : bool) (otx : option origin_tx) : state :=
  let seq := default 1%N (batch_sequences s !! pk) in
  let bk := (batch_seq_id s + 1)%N in
  s <| batch_sequences := <[pk := (seq + 1)%N]> (batch_sequences s) |>
    <| batches := <[bk := new_batch e issuer pk pj seq metadata sd ed open]> (batches s) |>
    <| batch_seq_id := bk |>
    <| origin_txs := cb_origin_txs (pj_class_key pj) otx s |>
    <| batch_contracts := cb_contracts (pj_class_key pj) bk otx s |>.

Definition cb_otx_ok (ck bk : N) (otx : option origin_tx) (s : state) : Prop :=
  match otx with
  | None => True
  | Some o => origin_key ck o ∉ origin_txs s /\
              (ot_contract o <> [] ->
               contract_taken s ck (ot_contract o) = false /\ batch_contracts s !! bk = None)
  end.

Lemma rest_eq_state s s' : rest_eq s s' -> s' = s <| balances := balances s' |> <| supplies := supplies s' |>.
Proof. intros H. exact H. Qed.

Lemma h_create_batch_shape e s issuer project_id iss metadata start_ end_ open otx s' r evs :
  h_create_batch e s issuer project_id iss metadata start_ end_ open otx = LOk (s', r, evs) ->
  exists pk pj cl sd ed,
    project_by_id s project_id = Some (pk, pj) /\ classes s !! pj_class_key pj = Some cl /\
    is_issuer s (pj_class_key pj) issuer = true /\ start_ = Some sd /\ end_ = Some ed /\
    let seq := default 1%N (batch_sequences s !! pk) in
    let ba := new_batch e issuer pk pj seq metadata sd ed open in
    (forall k b, batches s !! k = Some b -> ba_denom b <> ba_denom ba) /\
    cb_otx_ok (pj_class_key pj) (batch_seq_id s + 1)%N otx s /\
    rest_eq (cb_tables e s issuer pk pj metadata sd ed open otx) s' /\
    r = RBatchDenom (ba_denom ba) /\ evs = [].
Proof.
  intros H. unfold h_create_batch in H.
  lstep H as p Hp. destruct p as [pk pj]. cbv beta iota in H.
  lstep H as cl Hcl. lstep H as u1 Hu1. cbv zeta in H.
  lstep H as sd Hsd. lstep H as ed Hed. lstep H as u2 Hu2. lstep H as ct Hct.
  lstep H as acc Hloop. destruct acc as [[s2 tsum] rsum]. cbv beta iota in H.
  lstep H as m Hm. lstep H as s3 Hotx.
  unfold ret in H. inversion H; subst s' r evs; clear H.
  exists pk, pj, cl, sd, ed.
  split; [exact Hp|]. split; [exact Hcl|]. split; [exact Hu1|]. split; [exact Hsd|]. split; [exact Hed|].
  cbv zeta.
  assert (Hfresh : forall k b, batches s !! k = Some b ->
            ba_denom b <> format_batch_denom (pj_id pj) (default 1%N (batch_sequences s !! pk)) sd ed).
  { apply negb_true_iff in Hu2. intros k b Hk Heq.
    pose proof (map_exists_false _ _ Hu2 k b Hk) as Hf. cbn beta in Hf.
    assert (Ht : bytes_eqb (ba_denom b) (format_batch_denom (pj_id pj) (default 1%N (batch_sequences s !! pk)) sd ed) = true)
      by (apply bytes_eqb_eq; exact Heq).
    rewrite Ht in Hf. discriminate. }
  split; [exact Hfresh|].
  apply create_loop_rest in Hloop. cbn [fst snd] in Hloop. apply rest_eq_state in Hloop.
  apply orm_insert_ok in Hm. destruct Hm as [-> _].
  destruct otx as [o|].
  - lstep Hotx as s4 Hs4. apply insert_origin_tx_shape in Hs4. destruct Hs4 as [Hnot ->].
    assert (Hnot' : origin_key (pj_class_key pj) o ∉ origin_txs s).
    { rewrite Hloop in Hnot. exact Hnot. }
    destruct (ot_contract o) as [|c0 cs] eqn:Ec.
    + inversion Hotx; subst s3; clear Hotx.
      split; [split; [exact Hnot' | intros Hne; congruence]|].
      split; [|split; reflexivity].
      rewrite Hloop. unfold rest_eq, cb_tables, cb_origin_txs, cb_contracts. rewrite Ec. reflexivity.
    + destruct (contract_taken _ _ _) eqn:Etaken; [discriminate|].
      lstep Hotx as m2 Hm2. apply orm_insert_ok in Hm2. destruct Hm2 as [-> Hnone].
      inversion Hotx; subst s3; clear Hotx.
      rewrite Hloop in Etaken, Hnone.
      split; [split; [exact Hnot' | intros _; rewrite Ec; split; [exact Etaken | exact Hnone]]|].
      split; [|split; reflexivity].
      rewrite Hloop. unfold rest_eq, cb_tables, cb_origin_txs, cb_contracts. rewrite Ec. reflexivity.
  - inversion Hotx; subst s3; clear Hotx.
    split; [exact I|]. split; [|split; reflexivity].
    rewrite Hloop. unfold rest_eq, cb_tables, cb_origin_txs, cb_contracts. reflexivity.
Qed.

(* BridgeReceive *)
Definition contract_pred (ck : N) (contract : bytes) (k : N) (c : batch_contract) : bool :=
  (bc_class_key c =? ck)%N && bytes_eqb (bc_contract c) contract.

Definition reference_pred (ck : N) (ref : bytes) (k : N) (p : project) : bool :=
  (pj_class_key p =? ck)%N && bytes_eqb (pj_reference_id p) ref.

Lemma h_bridge_receive_shape e s issuer class_id pjr bar otx s' r evs :
  h_bridge_receive e s issuer class_id pjr bar otx = LOk (s', r, evs) ->
  exists o bb pp ck cl,
    otx = Some o /\ bar = Some bb /\ pjr = Some pp /\
    to_lower (ot_source o) ∈ allowed_bridge_chains s /\ class_by_id s class_id = Some (ck, cl) /\
    ((exists bk bc ba pj r1 e1,
        map_find (contract_pred ck (ot_contract o)) (batch_contracts s) = Some (bk, bc) /\
        batches s !! bk = Some ba /\ projects s !! ba_project_key ba = Some pj /\
        h_mint_batch_credits e s issuer (ba_denom ba) (bridge_issuance bb) (Some o) = LOk (s', r1, e1) /\
        r = RBridgeReceive (ba_denom ba) (pj_id pj) /\
        evs = [EvBridgeReceive (pj_id pj) (ba_denom ba) (brb_amount bb) o])
     \/
     (map_find (contract_pred ck (ot_contract o)) (batch_contracts s) = None /\
      exists s1 project_id d e2,
        ((exists k pj, map_find (reference_pred ck (brp_reference_id pp)) (projects s) = Some (k, pj) /\
                       s1 = s /\ project_id = pj_id pj)
         \/
         (map_find (reference_pred ck (brp_reference_id pp)) (projects s) = None /\
          exists e3, h_create_project e s issuer class_id (brp_metadata pp) (brp_jurisdiction pp)
                       (brp_reference_id pp) = LOk (s1, RProjectId project_id, e3))) /\
        h_create_batch e s1 issuer project_id (bridge_issuance bb) (brb_metadata bb) (brb_start bb)
                       (brb_end bb) true (Some o) = LOk (s', RBatchDenom d, e2) /\
        r = RBridgeReceive d project_id /\
        evs = [EvBridgeReceive project_id d (brb_amount bb) o])).
Proof.
  intros H. unfold h_bridge_receive in H.
  lstep H as o Ho. lstep H as bb Hbb. lstep H as pp Hpp. lstep H as u1 Hu1.
  lstep H as p Hp. destruct p as [ck cl]. cbv beta iota zeta in H.
  fold (bridge_issuance bb) in H.
  apply bool_decide_eq_true in Hu1.
  exists o, bb, pp, ck, cl.
  split; [exact Ho|]. split; [exact Hbb|]. split; [exact Hpp|]. split; [exact Hu1|]. split; [exact Hp|].
  change (fun (_ : N) (c : batch_contract) => (bc_class_key c =? ck)%N && bytes_eqb (bc_contract c) (ot_contract o))
    with (contract_pred ck (ot_contract o)) in H.
  change (fun (_ : N) (p : project) => (pj_class_key p =? ck)%N && bytes_eqb (pj_reference_id p) (brp_reference_id pp))
    with (reference_pred ck (brp_reference_id pp)) in H.
  destruct (map_find (contract_pred ck (ot_contract o)) (batch_contracts s)) as [[bk bc]|] eqn:Ef.
  - left. lstep H as ba Hba. lstep H as pj Hpj. lstep H as res Hres. destruct res as [[s1 r1] e1].
    cbv beta iota in H. inversion H; subst s' r evs; clear H.
    exists bk, bc, ba, pj, r1, e1.
    split; [reflexivity|]. split; [exact Hba|]. split; [exact Hpj|]. split; [exact Hres|]. split; reflexivity.
  - right. split; [reflexivity|].
    lstep H as p1 Hp1. destruct p1 as [s1 project_id]. cbv beta iota in H.
    lstep H as res Hres. destruct res as [[s2 r2] e2]. cbv beta iota in H.
    destruct r2 as [| | |d| | | | |]; try discriminate H. inversion H; subst s' r evs; clear H.
    exists s1, project_id, d, e2. split; [|split; [exact Hres | split; reflexivity]].
    destruct (map_find (reference_pred ck (brp_reference_id pp)) (projects s)) as [[k pj]|] eqn:Eg.
    + left. inversion Hp1; subst s1 project_id. exists k, pj. split; [reflexivity|]. split; reflexivity.
    + right. split; [reflexivity|].
      lstep Hp1 as res1 Hres1. destruct res1 as [[s3 r3] e3]. cbv beta iota in Hp1.
      destruct r3 as [| |id| | | | | |]; try discriminate Hp1. inversion Hp1; subst s3 id.
      exists e3. exact Hres1.
Qed.
