(* Basket Create and the three administrative messages: they leave every credit table alone; Create
   burns the fee and adds an empty basket whose denom carries no supply yet. *)
From stdpp Require Import gmap.
From RecordUpdate Require Import RecordSet.
From Coq Require Import ZArith NArith List Bool Lia Strings.Byte.
Require Import Regen.Base.Bytes Regen.Base.BytesProps Regen.Base.Calendar Regen.Dec.Dec Regen.Ids.Ids Regen.Generated.IdConsts.
Require Import Regen.Ledger.Types Regen.Ledger.Msgs Regen.Ledger.Orm Regen.Ledger.BaseMsgs
               Regen.Ledger.BasketMsgs Regen.Ledger.MarketMsgs Regen.Ledger.Step
               Regen.Ledger.Amount Regen.Ledger.MapSum Regen.Ledger.Inv Regen.Ledger.InvTactics
               Regen.Ledger.InvBasketLib.
Import RecordSetNotations.
Local Open Scope Z_scope.

(* ------------------------------------------------------------------ *)
(* the extra invariant and the assumption on fee denoms                *)
(* ------------------------------------------------------------------ *)

(* "eco." : every basket denom starts with it (FormatBasketDenom) *)
Definition eco_prefix : bytes := basket_denom_prefix ++ basket_denom_separator :: nil.
Definition is_eco (d : bytes) : bool := has_prefix eco_prefix d.

(* ASSUMPTION (to be discharged by the governance messages / genesis): the basket and class creation
   fees are not paid in a denom of the basket namespace "eco.…" *)
Definition fee_denoms_ok (s : state) : Prop :=
  forall c, (basket_fee s = Some c \/ class_fee s = Some c) -> is_eco (c_denom c) = false.

(* EXTRA INVARIANT (Inv_basket alone is not inductive for Create): basket denoms live in the "eco."
   namespace, and a denom of that namespace that is not (yet) a basket's has no bank supply *)
Definition Inv_basket_denoms (s : state) : Prop :=
  (forall id k, baskets s !! id = Some k -> is_eco (bk_denom k) = true) /\
  (forall d, is_eco d = true -> (forall id k, baskets s !! id = Some k -> bk_denom k <> d) -> bank_sup s d = 0).

Lemma format_basket_denom_eco name ct e d dd : format_basket_denom name ct e = Some (d, dd) -> is_eco d = true.
Proof.
  unfold format_basket_denom. destruct (exponent_to_prefix e); [|discriminate].
  intros H; inversion H; subst. reflexivity.
Qed.

Lemma eco_neq d1 d2 : is_eco d1 = true -> is_eco d2 = false -> d1 <> d2.
Proof. intros H1 H2 ->. congruence. Qed.

(* ------------------------------------------------------------------ *)
(* steps that leave all credit tables alone                            *)
(* ------------------------------------------------------------------ *)

Record credit_same (s s' : state) : Prop := {
  cs_cts : credit_types s' = credit_types s;
  cs_balances : balances s' = balances s;
  cs_supplies : supplies s' = supplies s;
  cs_bb : basket_balances s' = basket_balances s;
  cs_orders : sell_orders s' = sell_orders s;
  cs_order_seq : sell_order_seq_id s' = sell_order_seq_id s;
  cs_batches : batches s' = batches s;
  cs_batch_seq : batch_seq_id s' = batch_seq_id s;
  cs_classes : classes s' = classes s;
  cs_projects : projects s' = projects s
}.

Lemma credit_same_step_ok s s' : credit_same s s' -> step_ok s s'.
Proof.
  intros H. destruct H. split; try assumption.
  - intros a k. unfold get_balance. rewrite cs_balances0. reflexivity.
  - intros a k. unfold get_balance. rewrite cs_balances0. lia.
  - intros k su Hk. rewrite cs_supplies0. exists su. repeat split; try assumption; lia.
  - intros k. rewrite cs_supplies0. reflexivity.
Qed.

Lemma credit_same_core s s' :
  credit_same s s' ->
  (forall id, is_Some (baskets s !! id) -> is_Some (baskets s' !! id)) ->
  (forall id, is_Some (baskets s' !! id) -> (id <= basket_seq_id s')%N) ->
  Inv_core s -> Inv_core s'.
Proof.
  intros H Hmono Hseq (Hct & Hsc & Hk & Hcons & Hesc). destruct H.
  split; [|split; [|split; [|split]]].
  - unfold Inv_ct. rewrite cs_cts0. exact Hct.
  - unfold Inv_scale. rewrite cs_balances0, cs_supplies0, cs_bb0, cs_orders0. exact Hsc.
  - destruct Hk as (K1 & K2 & K3 & K4 & K5 & K6 & K7 & K8).
    unfold Inv_keys. rewrite cs_balances0, cs_supplies0, cs_bb0, cs_orders0, cs_batches0, cs_batch_seq0, cs_order_seq0.
    split; [exact K1|]. split; [exact K2|]. split; [exact K3|]. split.
    { intros id d bb Hr. destruct (K4 id d bb Hr) as [A B]. split; [exact A | apply Hmono; exact B]. }
    split; [exact K5|]. split; [exact K6|]. split; [exact K7 | exact Hseq].
  - unfold Inv_cons. rewrite cs_balances0, cs_supplies0, cs_bb0, cs_batches0. exact Hcons.
  - unfold Inv_escrow, get_balance. rewrite cs_balances0, cs_orders0. exact Hesc.
Qed.

(* ------------------------------------------------------------------ *)
(* Create                                                              *)
(* ------------------------------------------------------------------ *)

Lemma index_allowed_classes_spec id ct : forall l s s',
  index_allowed_classes id ct l s = LOk s' -> exists bc, s' = s <| basket_classes := bc |>.
Proof.
  induction l as [|c l IH]; intros s s' H; cbn [index_allowed_classes] in H.
  - inversion H; subst. exists (basket_classes s'). destruct s'; reflexivity.
  - lstep H as x Hx. destruct x as [ck cl]. lstep H as u Hu.
    destruct (bool_decide _); [discriminate|].
    apply IH in H. destruct H as (bc & ->). exists bc. reflexivity.
Qed.

Lemma basket_total_fresh s id : Inv_keys s -> (basket_seq_id s < id)%N -> basket_total id (basket_balances s) = 0.
Proof.
  intros (_ & _ & _ & K4 & _ & _ & _ & K8) Hlt. unfold basket_total. apply sum_map_zero.
  intros [id0 d] v Hk. cbn [fst]. destruct (id0 =? id)%N eqn:E; [|reflexivity].
  apply N.eqb_eq in E. subst id0. destruct (K4 _ _ _ Hk) as [_ Hb]. apply K8 in Hb. lia.
Qed.

Lemma h_basket_create_spec e s curator name dar ct allowed criteria fee s' r evs :
  h_basket_create e s curator name dar ct allowed criteria fee = LOk (s', r, evs) ->
  exists s1 cty denom dd bc,
    charge_fee (basket_fee s) (head fee) curator addr_basket s = LOk s1 /\
    credit_types s !! ct = Some cty /\
    format_basket_denom name ct (Z.to_N (ct_precision cty)) = Some (denom, dd) /\
    (forall id k, baskets s !! id = Some k -> bk_denom k <> denom /\ bk_name k <> name) /\
    let id := (basket_seq_id s + 1)%N in
    let newk := {| bk_denom := denom; bk_name := name; bk_disable_auto_retire := dar; bk_ct := ct;
                   bk_criteria := criteria; bk_exponent := ct_precision cty; bk_curator := curator |} in
    s' = s1 <| baskets := <[id := newk]> (baskets s) |> <| basket_seq_id := id |> <| basket_classes := bc |> /\
    r = RBasketDenom denom /\ evs = nil.
Proof.
  intros H. unfold h_basket_create in H.
  lstep H as s1 Hfee. lstep H as cty Hcty. lstep H as x Hfmt. destruct x as [denom dd].
  lstep H as u Hchk. lstep H as s3 Hidx. unfold ret in H. inversion H; subst s3 r evs; clear H.
  destruct (charge_fee_spec _ _ _ _ _ _ Hfee) as [B _].
  destruct (bank_only_fields _ _ B) as (_ & _ & _ & Ebk & Eseq & _ & _ & _ & Ect & _).
  rewrite Ect in Hcty. rewrite Ebk in Hchk. rewrite Ebk, Eseq in Hidx.
  apply index_allowed_classes_spec in Hidx. destruct Hidx as (bc & ->).
  exists s1, cty, denom, dd, bc. split; [exact Hfee|]. split; [exact Hcty|]. split; [exact Hfmt|].
  split; [|split; [reflexivity|split; reflexivity]].
  intros id k Hk. apply negb_true_iff in Hchk. pose proof (map_exists_false _ _ Hchk _ _ Hk) as Hf.
  cbn beta in Hf. apply orb_false_iff in Hf. destruct Hf as [F1 F2].
  split; intros Heq; rewrite Heq, bytes_eqb_refl in *; discriminate.
Qed.

Theorem create_core e s curator name dar ct allowed criteria fee s' r evs :
  Inv_core s -> h_basket_create e s curator name dar ct allowed criteria fee = LOk (s', r, evs) ->
  Inv_core s' /\ step_ok s s'.
Proof.
  intros Hcore H. destruct (h_basket_create_spec _ _ _ _ _ _ _ _ _ _ _ _ H)
    as (s1 & cty & denom & dd & bc & Hfee & _ & _ & _ & Hs' & _).
  cbv zeta in Hs'. destruct (charge_fee_spec _ _ _ _ _ _ Hfee) as [B _].
  destruct B as (bm & bs & ->).
  assert (Hsame : credit_same s s') by (subst s'; split; reflexivity).
  split; [|apply credit_same_step_ok; exact Hsame].
  pose proof Hcore as (_ & _ & (_ & _ & _ & _ & _ & _ & _ & K8) & _).
  apply (credit_same_core s s' Hsame); [| |exact Hcore]; subst s'; cbn.
  - intros id Hid. destruct (decide (id = (basket_seq_id s + 1)%N)) as [->|Hne].
    + rewrite lookup_insert. eauto.
    + rewrite lookup_insert_ne by congruence. exact Hid.
  - intros id Hid. destruct (decide (id = (basket_seq_id s + 1)%N)) as [->|Hne]; [lia|].
    rewrite lookup_insert_ne in Hid by congruence. apply K8 in Hid. lia.
Qed.

Theorem create_backing e s curator name dar ct allowed criteria fee s' r evs :
  Inv_core s -> Inv_basket s -> Inv_basket_denoms s -> fee_denoms_ok s ->
  h_basket_create e s curator name dar ct allowed criteria fee = LOk (s', r, evs) ->
  Inv_basket s' /\ Inv_basket_denoms s' /\ fee_denoms_ok s'.
Proof.
  intros Hcore [Hu Hb] [Hd1 Hd2] Hfeeok H.
  destruct (h_basket_create_spec _ _ _ _ _ _ _ _ _ _ _ _ H)
    as (s1 & cty & denom & dd & bc & Hfee & _ & Hfmt & Hfresh & Hs' & _).
  cbv zeta in Hs'. pose proof (format_basket_denom_eco _ _ _ _ _ Hfmt) as Heco.
  pose proof Hcore as (_ & _ & Hkeys & _).
  set (id := (basket_seq_id s + 1)%N) in *.
  (* the fee burn does not touch the supply of any "eco." denom *)
  assert (Hsup : forall y, is_eco y = true -> bank_sup s' y = bank_sup s y).
  { intros y Hy. destruct (charge_fee_spec _ _ _ _ _ _ Hfee) as [B Hspec].
    assert (E1 : bank_sup s' y = bank_sup s1 y) by (subst s'; reflexivity). rewrite E1.
    destruct (basket_fee s) as [req|] eqn:Ef; [|subst s1; reflexivity].
    destruct (0 <? c_amount req); [|subst s1; reflexivity].
    destruct Hspec as [_ Hs]. rewrite Hs. unfold at_key. rewrite decide_False; [lia|].
    apply eco_neq; [exact Hy | apply Hfeeok; left; exact Ef]. }
  assert (Ebk : baskets s' = <[id := {| bk_denom := denom; bk_name := name; bk_disable_auto_retire := dar;
                  bk_ct := ct; bk_criteria := criteria; bk_exponent := ct_precision cty; bk_curator := curator |}]> (baskets s))
    by (subst s'; reflexivity).
  assert (Ebb : basket_balances s' = basket_balances s).
  { destruct (charge_fee_spec _ _ _ _ _ _ Hfee) as [B _]. destruct B as (bm & bs & ->). subst s'. reflexivity. }
  assert (Efee : basket_fee s' = basket_fee s /\ class_fee s' = class_fee s).
  { destruct (charge_fee_spec _ _ _ _ _ _ Hfee) as [B _]. destruct B as (bm & bs & ->). subst s'. split; reflexivity. }
  assert (Hidnew : baskets s !! id = None).
  { destruct (baskets s !! id) eqn:E; [|reflexivity].
    destruct Hkeys as (_ & _ & _ & _ & _ & _ & _ & K8). assert (id <= basket_seq_id s)%N by (apply K8; eauto).
    unfold id in *. lia. }
  split; [split|split; [split|]].
  - (* denoms stay unique *)
    intros i j x y Hi Hj Heq. rewrite Ebk in Hi, Hj.
    apply lookup_insert_Some in Hi. apply lookup_insert_Some in Hj.
    destruct Hi as [[<- <-]|[Hi1 Hi]]; destruct Hj as [[<- <-]|[Hj1 Hj]].
    + reflexivity.
    + cbn [bk_denom] in Heq. destruct (Hfresh _ _ Hj) as [Hne _]. congruence.
    + cbn [bk_denom] in Heq. destruct (Hfresh _ _ Hi) as [Hne _]. congruence.
    + eapply Hu; eassumption.
  - (* backing *)
    intros id' k' Hk'. rewrite Ebk in Hk'. rewrite Ebb. apply lookup_insert_Some in Hk'.
    destruct Hk' as [[<- <-]|[Hne Hk']]; cbn [bk_denom].
    + rewrite (Hsup _ Heco), (basket_total_fresh s id Hkeys) by (unfold id; lia).
      apply Hd2; [exact Heco|]. intros i k Hk. apply (Hfresh _ _ Hk).
    + rewrite (Hsup _ (Hd1 _ _ Hk')). apply Hb. exact Hk'.
  - intros id' k' Hk'. rewrite Ebk in Hk'. apply lookup_insert_Some in Hk'.
    destruct Hk' as [[<- <-]|[Hne Hk']]; [exact Heco | eapply Hd1; exact Hk'].
  - intros d Hd Hno. rewrite (Hsup _ Hd). apply Hd2; [exact Hd|].
    intros i k Hk. apply (Hno i k). rewrite Ebk. rewrite lookup_insert_ne; [exact Hk|]. congruence.
  - intros c Hc. destruct Efee as [E1 E2]. rewrite E1, E2 in Hc. apply Hfeeok. exact Hc.
Qed.

(* ------------------------------------------------------------------ *)
(* UpdateBasketFee, UpdateCurator, UpdateDateCriteria                  *)
(* ------------------------------------------------------------------ *)

Lemma set_basket_same_denom s id k k' :
  baskets s !! id = Some k -> bk_denom k' = bk_denom k ->
  Inv_core s -> Inv_core (set_basket id k' s) /\ step_ok s (set_basket id k' s).
Proof.
  intros Hk Hd Hcore.
  assert (Hsame : credit_same s (set_basket id k' s)) by (split; reflexivity).
  split; [|apply credit_same_step_ok; exact Hsame].
  pose proof Hcore as (_ & _ & (_ & _ & _ & _ & _ & _ & _ & K8) & _).
  apply (credit_same_core _ _ Hsame); [| |exact Hcore]; unfold set_basket; cbn.
  - intros i Hi. destruct (decide (i = id)) as [->|Hne]; [rewrite lookup_insert; eauto|].
    rewrite lookup_insert_ne by congruence. exact Hi.
  - intros i Hi. destruct (decide (i = id)) as [->|Hne]; [apply K8; eauto|].
    rewrite lookup_insert_ne in Hi by congruence. apply K8. exact Hi.
Qed.

Lemma set_basket_backing s id k k' :
  baskets s !! id = Some k -> bk_denom k' = bk_denom k ->
  Inv_basket s -> Inv_basket_denoms s -> fee_denoms_ok s ->
  Inv_basket (set_basket id k' s) /\ Inv_basket_denoms (set_basket id k' s) /\ fee_denoms_ok (set_basket id k' s).
Proof.
  intros Hk Hd [Hu Hb] [Hd1 Hd2] Hfee.
  assert (Hden : forall i x, baskets (set_basket id k' s) !! i = Some x ->
                   exists y, baskets s !! i = Some y /\ bk_denom x = bk_denom y).
  { intros i x Hi. unfold set_basket in Hi. cbn in Hi. apply lookup_insert_Some in Hi.
    destruct Hi as [[<- <-]|[_ Hi]]; eauto. }
  split; [split|split; [split|]].
  - intros i j x y Hi Hj Heq. destruct (Hden _ _ Hi) as (x0 & Hi0 & Ex). destruct (Hden _ _ Hj) as (y0 & Hj0 & Ey).
    eapply Hu; [exact Hi0 | exact Hj0 | congruence].
  - intros i x Hi. destruct (Hden _ _ Hi) as (x0 & Hi0 & Ex). rewrite Ex.
    change (bank_sup (set_basket id k' s)) with (bank_sup s).
    change (basket_balances (set_basket id k' s)) with (basket_balances s). apply Hb. exact Hi0.
  - intros i x Hi. destruct (Hden _ _ Hi) as (x0 & Hi0 & Ex). rewrite Ex. eapply Hd1; exact Hi0.
  - intros d Hdd Hno. change (bank_sup (set_basket id k' s) d) with (bank_sup s d). apply Hd2; [exact Hdd|].
    intros i y Hi. destruct (decide (i = id)) as [->|Hne].
    + rewrite Hk in Hi. inversion Hi; subst y. rewrite <- Hd. apply (Hno id k').
      unfold set_basket. cbn. apply lookup_insert.
    + apply (Hno i y). unfold set_basket. cbn. rewrite lookup_insert_ne by congruence. exact Hi.
  - exact Hfee.
Qed.
