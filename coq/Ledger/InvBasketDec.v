(* Decimal-layer facts needed by the basket proofs (stdlib only):
     tokens_units      : MulExact by 10^6 then BigInt of a positive 6-place amount = its unit count
     sdk_int_parse     : a positive sdk.Int string parses (NewDecFromString) to (false, v, 0)
     quo_exact_units   : QuoExact of v by 10^6 has exactly v units
     reparsed_units / printable : printing and re-parsing keeps the unit count *)
From Coq Require Import List ZArith NArith Bool Lia Strings.Byte Strings.String.
Require Import Regen.Base.Bytes Regen.Base.BigIntScan Regen.Dec.Dec Regen.Dec.DecLemmas Regen.Dec.DecIface Regen.Dec.DecProps Regen.Ledger.Amount.
Import ListNotations.
Local Open Scope Z_scope.

(* ------------------------------------------------------------------ *)
(* Reduce / String / BigInt on a non-negative integer-valued decimal   *)
(* ------------------------------------------------------------------ *)

Lemma strip_zeros_spec fuel : forall c n c' n',
  strip_zeros fuel c n = (c', n') -> n <= n' /\ c = c' * 10 ^ (n' - n).
Proof.
  induction fuel as [|f IH]; intros c n c' n' H; cbn [strip_zeros] in H.
  - inversion H; subst. split; [lia|]. rewrite Z.sub_diag. cbn. lia.
  - destruct (c mod 10 =? 0) eqn:E.
    + apply Z.eqb_eq in E. apply IH in H. destruct H as [H1 H2]. split; [lia|].
      replace (n' - n) with ((n' - (n + 1)) + 1) by lia. rewrite pow10_succ by lia.
      pose proof (Z.div_mod c 10 ltac:(lia)) as Hdm. rewrite Z.mul_assoc, <- H2. lia.
    + inversion H; subst. split; [lia|]. rewrite Z.sub_diag. cbn. lia.
Qed.

Lemma big_int_nonneg_exp c e : 0 < c -> 0 <= e -> big_int (mkDec false c e) = Ok (c * 10 ^ e).
Proof.
  intros Hc He. unfold big_int, reduce, is_zero. cbn [dcoef dneg dexp].
  destruct (c =? 0) eqn:E0; [apply Z.eqb_eq in E0; lia|].
  destruct (strip_zeros (Z.to_nat (num_digits c)) c 0) as [c' n] eqn:Es.
  apply strip_zeros_spec in Es. destruct Es as [Hn Hcc]. rewrite Z.sub_0_r in Hcc.
  assert (Hp : 0 < 10 ^ n) by (apply pow10_gt0; lia).
  assert (Hc' : 0 < c') by nia.
  cbn [fst]. unfold to_string. cbn [dneg dcoef dexp].
  destruct (e + n <? 0) eqn:E1; [apply Z.ltb_lt in E1; lia|].
  destruct (Z_to_dec_spec c' ltac:(lia)) as (Hne & Hall & Hval).
  cbn [app].
  rewrite bigint_digits.
  - rewrite dec_digits_val_app, zeros_val, zeros_length by lia. rewrite Hval.
    f_equal. rewrite Hcc. rewrite (Z.add_comm e n), pow10_add by lia. ring.
  - destruct (Z_to_dec c'); [congruence | discriminate].
  - rewrite forallb_app, Hall, zeros_all_digits. reflexivity.
Qed.

(* ------------------------------------------------------------------ *)
(* creditAmountToBasketCoin                                            *)
(* ------------------------------------------------------------------ *)

Lemma Ok_inj {A} (x y : A) : Ok x = Ok y -> x = y.
Proof. congruence. Qed.

Lemma zsum2 x y : zsum [x; y] = x + y.
Proof. unfold zsum. cbn [fold_left]. lia. Qed.

Lemma dec_eta d : d = mkDec (dneg d) (dcoef d) (dexp d).
Proof. destruct d; reflexivity. Qed.

Lemma mul_exact_pow6 amt t :
  mul_exact (mkDec false 1 P) amt = Ok t ->
  t = mkDec (dneg amt) (dcoef amt) (P + dexp amt) /\ num_digits (dcoef amt) <= precision128.
Proof.
  unfold mul_exact, mul_ctx, bind. cbn [dneg dcoef dexp xorb].
  destruct (set_exponent _ _) as [d0|] eqn:E0; [|discriminate].
  apply set_exponent_inv in E0. cbn [dneg dcoef dexp] in E0. rewrite zsum2 in E0.
  destruct E0 as (Hn0 & Hc0 & He0 & _ & _). rewrite Z.mul_1_l in Hc0. assert (Hn0' : dneg d0 = dneg amt) by (rewrite Hn0; destruct (dneg amt); reflexivity).
  unfold round34.
  destruct (negb (is_zero d0) && _); [discriminate|].
  destruct (num_digits (dcoef d0) - precision128 >? 0) eqn:Ed.
  - destruct (_ >? max_exponent); [discriminate|].
    destruct (if dcoef d0 mod _ =? 0 then _ else _) as [y' diff'].
    unfold bind. destruct (set_exponent _ _); discriminate.
  - unfold bind. destruct (set_exponent d0 _) as [r|] eqn:E1; [|discriminate].
    intros H. inversion H; subst r; clear H.
    apply set_exponent_inv in E1. rewrite zsum2 in E1. destruct E1 as (Hn1 & Hc1 & He1 & _ & _).
    split.
    + rewrite (dec_eta t). f_equal; [congruence | congruence | lia].
    + rewrite <- Hc0. lia.
Qed.

(* C05 exactness, put side: the tokens minted for a positive amount with at most 6 decimal places
   are exactly its unit count *)
Lemma tokens_units amt t z :
  0 < dcoef amt -> dneg amt = false -> - P <= dexp amt ->
  mul_exact (mkDec false 1 P) amt = Ok t -> big_int t = Ok z -> z = U amt.
Proof.
  intros Hc Hn He Hm Hb. apply mul_exact_pow6 in Hm. destruct Hm as [-> _].
  rewrite Hn in Hb. rewrite big_int_nonneg_exp in Hb by (unfold P in *; lia). apply Ok_inj in Hb. subst z.
  unfold U, units, dint. rewrite Hn, (Z.add_comm P). reflexivity.
Qed.

(* and they exist whenever the coefficient has at most 34 digits *)
Lemma set_exponent_ok' d xs : forallb exp_in_limits xs = true ->
  min_exponent <= zsum xs + num_digits (dcoef d) - 1 <= max_exponent ->
  set_exponent d xs = Ok (mkDec (dneg d) (dcoef d) (zsum xs)).
Proof.
  intros Hx Ha. unfold set_exponent. rewrite Hx.
  destruct ((_ >? _) || (_ <? _)) eqn:E; [|reflexivity].
  apply orb_true_iff in E. destruct E as [E|E]; [apply Z.gtb_lt in E | apply Z.ltb_lt in E]; lia.
Qed.

Lemma tokens_exist amt :
  0 < dcoef amt -> dneg amt = false -> - P <= dexp amt <= 0 -> num_digits (dcoef amt) <= precision128 ->
  exists t, mul_exact (mkDec false 1 P) amt = Ok t /\ big_int t = Ok (U amt).
Proof.
  intros Hc Hn He Hd. exists (mkDec false (dcoef amt) (P + dexp amt)). split.
  - unfold mul_exact, mul_ctx. cbn [dneg dcoef dexp xorb]. rewrite Hn, Z.mul_1_l.
    pose proof (num_digits_ge1 (dcoef amt)) as Hge. unfold precision128, P in *.
    rewrite set_exponent_ok'; cbn [dneg dcoef dexp]; rewrite ?zsum2.
    2:{ cbn [forallb]. unfold exp_in_limits, min_exponent, max_exponent.
        repeat (apply andb_true_iff; split); try reflexivity; lia. }
    2:{ unfold min_exponent, max_exponent. lia. }
    cbn [bind]. unfold round34, is_zero. cbn [dneg dcoef dexp].
    destruct (dcoef amt =? 0) eqn:E0; [apply Z.eqb_eq in E0; lia|]. cbn [negb andb].
    destruct (_ <? min_exponent) eqn:E1; [apply Z.ltb_lt in E1; unfold min_exponent in E1; lia|].
    unfold precision128.
    destruct (num_digits (dcoef amt) - 34 >? 0) eqn:E2; [apply Z.gtb_lt in E2; lia|].
    rewrite set_exponent_ok'; cbn [dneg dcoef dexp]; rewrite ?zsum2.
    + cbn [bind]. f_equal. f_equal. lia.
    + cbn [forallb]. unfold exp_in_limits, min_exponent, max_exponent.
      repeat (apply andb_true_iff; split); try reflexivity; lia.
    + unfold min_exponent, max_exponent. lia.
  - rewrite big_int_nonneg_exp by (unfold P in *; lia). f_equal.
    unfold U, units, dint. rewrite Hn. f_equal. f_equal. lia.
Qed.

(* ------------------------------------------------------------------ *)
(* MsgTake.Amount: sdk.Int string -> Dec                               *)
(* ------------------------------------------------------------------ *)

Lemma finish_inv neg C xs a : finish neg C xs = Ok a -> a = mkDec neg C (zsum xs).
Proof.
  unfold finish, bind, round0. intros H.
  destruct (set_exponent _ xs) as [d|] eqn:E1; [|discriminate].
  destruct (set_exponent d _) as [d'|] eqn:E2; [|discriminate].
  destruct (dcoef d' <? 0); [discriminate|]. inversion H; subst d'; clear H.
  apply set_exponent_inv in E1. apply set_exponent_inv in E2. cbn [dneg dcoef dexp] in *.
  rewrite zsum_single in E2.
  rewrite (dec_eta a). f_equal; intuition congruence.
Qed.

Lemma parse_plus f rest : is_digit f = true -> forallb plainb rest = true ->
  parse ("+"%byte :: f :: rest) = parse_finite false (f :: rest).
Proof.
  intros Hf Hr. pose proof (go_to_lower_plain rest Hr) as Hl. apply is_digit_cases in Hf.
  assert (G : parse ("+"%byte :: f :: rest) = parse_finite false (f :: go_to_lower rest)).
  { repeat (destruct Hf as [Hf|Hf]; [subst f; reflexivity|]). subst f; reflexivity. }
  rewrite G, Hl. reflexivity.
Qed.

Lemma digits_parse_finite f rest a : is_digit f = true -> forallb is_digit rest = true ->
  parse_finite false (f :: rest) = Ok a -> a = mkDec false (dec_digits_val (f :: rest)) 0.
Proof.
  intros Hf Hr H. rewrite pf_nopoint in H; [|discriminate|cbn [forallb]; rewrite Hf, Hr; reflexivity].
  apply finish_inv in H. exact H.
Qed.

(* The handler reads the string once, as an sdk.Int (math/big base-0 syntax, [sdk_int_from_string]), and derives
   the decimal from the integer's own decimal rendering. *)
Lemma sdk_int_bound s v : sdk_int_from_string s = Some v -> 0 < v -> v < 10 ^ 100.
Proof.
  unfold sdk_int_from_string. intros H Hv.
  destruct (big_int_set_string0 s) as [w|]; [|discriminate].
  destruct (Z.log2 (Z.abs w) <? 256) eqn:El; [|discriminate]. apply Z.ltb_lt in El.
  inversion H; subst w. rewrite Z.abs_eq in El by lia.
  apply Z.log2_lt_pow2 in El; [|exact Hv].
  assert (2 ^ 256 < 10 ^ 100) by (vm_compute; reflexivity). lia.
Qed.

Lemma sdk_int_reparse v a : 0 < v -> v < 10 ^ 100 ->
  parse (to_string (mkDec false v 0)) = Ok a -> a = mkDec false v 0.
Proof.
  intros Hv Hb Hp.
  assert (Hwf : dwf (mkDec false v 0)) by (unfold dwf; cbn [dcoef]; lia).
  assert (Hok : reparse_ok (mkDec false v 0)).
  { unfold reparse_ok. cbn [dexp dcoef]. change (0 <=? 0) with true. cbv iota.
    assert (Hn : num_digits v <= 100) by (apply num_digits_le; [split; [lia|exact Hb]|clear; lia]).
    pose proof (num_digits_ge1 v) as Hge. unfold min_exponent, max_exponent. lia. }
  rewrite (parse_to_string_gen _ Hwf Hok) in Hp. inversion Hp. reflexivity.
Qed.

(* ------------------------------------------------------------------ *)
(* QuoExact(v, 10^6)                                                   *)
(* ------------------------------------------------------------------ *)

Lemma quo_norm_down_pow fuel : forall dividend divisor adjust r a' k,
  0 <= k -> divisor = 10 ^ k -> adjust = - k ->
  quo_norm_down fuel dividend divisor adjust = Some (r, a') ->
  exists k', 0 <= k' /\ r = 10 ^ k' /\ a' = - k'.
Proof.
  induction fuel as [|f IH]; intros dividend divisor adjust r a' k Hk Hd Ha H; cbn [quo_norm_down] in H.
  - destruct (dividend <? divisor * 10); [|discriminate]. inversion H; subst. eauto.
  - destruct (dividend <? divisor * 10).
    + inversion H; subst. eauto.
    + apply (IH _ _ _ _ _ (k + 1)) in H; [exact H | lia | subst divisor; rewrite pow10_succ by lia; reflexivity | lia].
Qed.

Lemma quo_digits_spec v k fuel : forall dividend quo adjust q rem adj',
  0 <= k -> 0 <= dividend -> 0 <= quo -> - k <= adjust <= 0 ->
  v * 10 ^ (adjust + k) = quo * 10 ^ k + dividend ->
  quo_digits fuel dividend (10 ^ k) quo adjust = Some (q, rem, adj') ->
  - k <= adj' <= 0 /\ v * 10 ^ (adj' + k) = q * 10 ^ k + rem /\ 0 <= rem < 10 ^ k /\ 0 <= q.
Proof.
  induction fuel as [|f IH]; intros dividend quo adjust q rem adj' Hk Hdiv Hquo Hadj Hinv H;
    cbn [quo_digits] in H;
    pose proof (pow10_gt0 k Hk) as HD;
    pose proof (Z.div_mod dividend (10 ^ k) ltac:(lia)) as Hdm;
    pose proof (Z.mod_pos_bound dividend (10 ^ k) HD) as Hmb;
    assert (Hq0 : 0 <= dividend / 10 ^ k) by (apply Z.div_pos; lia);
    set (D := 10 ^ k) in *; set (qq := dividend / D) in *; set (rr := dividend mod D) in *.
  - destruct (_ || _); [|discriminate]. inversion H; subst q rem adj'; clear H.
    split; [lia|]. split; [rewrite Hinv; lia|]. split; [exact Hmb | lia].
  - destruct ((rr =? 0) && (adjust >=? 0) || (num_digits (quo + qq) =? precision128)) eqn:Estop.
    + inversion H; subst q rem adj'; clear H.
      split; [lia|]. split; [rewrite Hinv; lia|]. split; [exact Hmb | lia].
    + apply orb_false_iff in Estop. destruct Estop as [Estop _].
      assert (Hneg : adjust < 0).
      { destruct (Z.eq_dec adjust 0) as [E0|]; [|lia]. exfalso. subst adjust.
        rewrite Z.add_0_l in Hinv. fold D in Hinv.
        assert (Hr0 : rr = 0).
        { assert (v - (quo + qq) = 0) by (clearbody D qq rr; nia). clearbody D qq rr. nia. }
        rewrite Hr0 in Estop. cbn in Estop. discriminate. }
      apply IH in H; [exact H | exact Hk | lia | clearbody qq; lia | lia |].
      fold D. replace (adjust + 1 + k) with ((adjust + k) + 1) by lia.
      rewrite pow10_succ by lia. rewrite <- Z.mul_assoc, (Z.mul_comm (10 ^ (adjust + k))), Z.mul_assoc.
      clearbody D qq rr. set (X := 10 ^ (adjust + k)) in *. clearbody X. lia.
Qed.

Lemma quo_exact_units v n :
  0 < v -> quo_exact (mkDec false v 0) (mkDec false 1 P) = Ok n ->
  dneg n = false /\ 0 < dcoef n /\ - P <= dexp n /\ U n = v.
Proof.
  intros Hv. unfold quo_exact, quo_ctx, is_zero. cbn [dneg dcoef dexp xorb].
  destruct (v =? 0) eqn:E0; [apply Z.eqb_eq in E0; lia|].
  change (1 =? 0) with false. cbv iota.
  rewrite (Z.abs_eq v) by lia. change (Z.abs 1) with 1.
  change (Z.to_nat (Z.log2 1)) with O.
  cbn [quo_norm_up]. destruct (v <? 1) eqn:E1; [apply Z.ltb_lt in E1; lia|].
  destruct (quo_norm_down _ v 1 0) as [[divisor1 adjust2]|] eqn:End; [|discriminate].
  apply (quo_norm_down_pow _ _ _ _ _ _ 0) in End; [|lia|reflexivity|reflexivity].
  destruct End as (k & Hk & -> & ->).
  destruct (quo_digits 34 v (10 ^ k) 0 (- k)) as [[[q rem] adj']|] eqn:Eqd; [|discriminate].
  apply (quo_digits_spec v k) in Eqd; [|lia|lia|lia|lia|rewrite Z.add_opp_diag_l; cbn; lia].
  destruct Eqd as (Hadj & Hinv & Hrem & Hq).
  pose proof (pow10_gt0 k Hk) as HD.
  pose proof (num_digits_ge1 q) as Hnd.
  destruct (negb (rem =? 0) && (_ >=? min_exponent)) eqn:Ec.
  { destruct (2 * rem >=? 10 ^ k).
    - destruct (round_add_one q 0) as [q1 d1]. unfold bind. destruct (set_exponent _ _); discriminate.
    - unfold bind. destruct (set_exponent _ _); discriminate. }
  assert (Hrem0 : rem = 0).
  { apply andb_false_iff in Ec. destruct Ec as [Ec|Ec].
    - apply negb_false_iff, Z.eqb_eq in Ec. exact Ec.
    - exfalso. unfold min_exponent, P in Ec. rewrite Z.geb_leb in Ec. apply Z.leb_gt in Ec. lia. }
  subst rem. rewrite Z.add_0_r in Hinv.
  unfold bind. destruct (set_exponent _ _) as [r|] eqn:Es; [|discriminate].
  intros H; inversion H; subst r; clear H.
  apply set_exponent_inv in Es. cbn [dneg dcoef dexp] in Es. destruct Es as (Hn1 & Hc1 & He1 & _ & _).
  unfold zsum in He1. cbn [fold_left] in He1.
  assert (Hqv : q * 10 ^ (- adj') = v).
  { assert (Hsplit : 10 ^ k = 10 ^ (- adj') * 10 ^ (adj' + k)) by (rewrite <- pow10_add by lia; f_equal; lia).
    pose proof (pow10_gt0 (adj' + k) ltac:(lia)) as HX.
    rewrite Hsplit in Hinv. set (X := 10 ^ (adj' + k)) in *. set (Y := 10 ^ (- adj')) in *.
    clearbody X Y. nia. }
  pose proof (pow10_gt0 (- adj') ltac:(lia)) as HY.
  split; [exact Hn1|]. split; [rewrite Hc1; clear - Hqv HY Hv Hq; nia|].
  split; [rewrite He1; unfold P; lia|].
  unfold U, units, dint. rewrite Hn1, Hc1, He1. rewrite <- Hqv. f_equal. f_equal. unfold P. lia.
Qed.

(* ------------------------------------------------------------------ *)
(* printing a released amount and parsing it again                     *)
(* ------------------------------------------------------------------ *)

Lemma reparsed_units d : - P <= dexp d -> U (reparsed d) = U d.
Proof.
  intros He. unfold reparsed. destruct (dexp d <=? 0) eqn:E; [reflexivity|].
  apply Z.leb_gt in E. unfold U, units, dint. cbn [dneg dcoef dexp].
  rewrite Z.add_0_l, (pow10_add (dexp d) P) by (unfold P; lia). destruct (dneg d); ring.
Qed.

(* amounts whose String() parses again: any in_ok amount of fewer than 50000 digits *)
Definition printable (d : dec) : Prop := 0 <= dcoef d /\ reparse_ok d.

Lemma parse_printable d : printable d -> - P <= dexp d ->
  exists d', parse (to_string d) = Ok d' /\ U d' = U d.
Proof.
  intros [Hwf Hok] He. exists (reparsed d). split; [apply parse_to_string_gen; assumption | apply reparsed_units; exact He].
Qed.

(* a positive amount of fewer than 10^100 units prints and parses back (every amount a Take can
   release: at most 2^256 - 1 units) *)
Lemma printable_of_units d : in_ok d -> 0 < U d < 10 ^ 100 -> printable d.
Proof.
  intros (Hc & Hn & He) [Hpos Hlt]. unfold U, units, dint in Hpos, Hlt.
  assert (Hneg : dneg d = false).
  { destruct (dneg d); [|reflexivity]. rewrite (Hn eq_refl) in Hpos. cbn in Hpos. lia. }
  rewrite Hneg in Hpos, Hlt.
  assert (Hp : 0 < 10 ^ (dexp d + P)) by (apply pow10_gt0; lia).
  assert (Hc1 : 0 < dcoef d) by nia.
  assert (Hclt : dcoef d < 10 ^ 100) by nia.
  assert (He2 : dexp d + P < 100).
  { destruct (Z_lt_le_dec (dexp d + P) 100) as [|Hge]; [assumption|]. exfalso.
    assert (10 ^ 100 <= 10 ^ (dexp d + P)) by (apply pow10_le; lia). nia. }
  assert (Hnd : num_digits (dcoef d) <= 100) by (apply num_digits_le; lia).
  pose proof (num_digits_ge1 (dcoef d)) as Hge1.
  clear Hpos Hlt Hclt Hp. split; [lia|]. unfold reparse_ok, min_exponent, max_exponent, P in *.
  destruct (dexp d <=? 0) eqn:E; [apply Z.leb_le in E; lia|]. apply Z.leb_gt in E.
  rewrite num_digits_mul_pow10 by lia. lia.
Qed.

