(* C13 examples: a replayed origin tx (same id, source differing only in letter case) is rejected
   through every ordered pair of the three issuing entry points, while a fresh origin tx is accepted.
   Only booleans are computed.  Proof file. *)
From stdpp Require Import gmap.
From Coq Require Import ZArith NArith List Bool Strings.Byte Strings.String.
Require Import Regen.Base.Bytes Regen.Base.Calendar Regen.Dec.Dec.
Require Import Regen.Ledger.Types Regen.Ledger.Msgs Regen.Ledger.Orm Regen.Ledger.BaseMsgs Regen.Ledger.Step
               Regen.Ledger.InvBaseExample Regen.Ledger.InvBridge.
Import ListNotations.
Local Open Scope Z_scope.

Definition tx1 : string := "0x7a70692a348e8688f54ab2bdfe87d925d8cc88932520492a11eaa02dc128243e".
Definition tx2 : string := "0x8a70692a348e8688f54ab2bdfe87d925d8cc88932520492a11eaa02dc128243e".
Definition con1 : string := "0x0E65079a29d7793ab5CA500c2d88e60EE99bA606".
Definition con2 : string := "0x1E65079a29d7793ab5CA500c2d88e60EE99bA606".

Definition otx_of (id source contract : string) : origin_tx :=
  {| ot_id := b id; ot_source := b source; ot_contract := b contract; ot_note := [] |}.

Definition one_issuance : list issuance :=
  [{| is_recipient := 1%N; is_tradable := b "10"; is_retired := []; is_jurisdiction := []; is_reason := [] |}].

(* the three entry points, parameterised by the origin tx *)
Definition via_create (o : origin_tx) : msg :=
  MCreateBatch 0%N (b "C01-001") one_issuance (b "meta") (Some (mk_ts 1577836800 0)) (Some (mk_ts 1609459200 0)) true (Some o).
Definition via_mint (o : origin_tx) : msg := MMintBatchCredits 0%N ex_denom one_issuance (Some o).
Definition via_receive (o : origin_tx) : msg :=
  MBridgeReceive 0%N (b "C01")
    (Some {| brp_reference_id := b "VCS-001"; brp_jurisdiction := b "US"; brp_metadata := b "pm" |})
    (Some {| brb_recipient := 3%N; brb_amount := b "7"; brb_start := Some (mk_ts 1577836800 0);
             brb_end := Some (mk_ts 1609459200 0); brb_metadata := b "bm" |})
    (Some o).

Definition entry_points : list (origin_tx -> msg) := [via_create; via_mint; via_receive].

(* start: ex0 plus one open batch (created without an origin tx), so that MintBatchCredits has a target *)
Definition base_state : state :=
  (deliver ex_env ex0 (MCreateBatch 0%N (b "C01-001") one_issuance (b "meta")
     (Some (mk_ts 1577836800 0)) (Some (mk_ts 1609459200 0)) true None)).1.

Definition accepted (s : state) (m : msg) : bool :=
  match (deliver ex_env s m).2 with OOk _ _ => true | _ => false end.
Definition rejected_invalid (s : state) (m : msg) : bool :=
  match (deliver ex_env s m).2 with OFail LInvalid => true | _ => false end.

(* [first] issues with (tx1, "polygon"); then [second] with (tx1, "Polygon") is rejected, although
   the same message with the fresh id tx2 is accepted *)
Definition replay_rejected (first second : origin_tx -> msg) : bool :=
  let s1 := (deliver ex_env base_state (first (otx_of tx1 "polygon" con1))).1 in
  accepted base_state (first (otx_of tx1 "polygon" con1)) &&
  rejected_invalid s1 (second (otx_of tx1 "Polygon" con2)) &&
  accepted s1 (second (otx_of tx2 "Polygon" con2)).

Definition replay_matrix : list bool :=
  flat_map (fun f => map (fun g => replay_rejected f g) entry_points) entry_points.

Lemma replay_matrix_ok : forallb (fun x => x) replay_matrix = true /\ List.length replay_matrix = 9%nat.
Proof. split; vm_compute; reflexivity. Qed.

(* the ghost trace of such a run has the single key (class 1, tx1, "polygon") *)
Lemma replay_trace_ok :
  List.length (issued_origins ex_env base_state
     [via_create (otx_of tx1 "polygon" con1); via_mint (otx_of tx1 "Polygon" con2);
      via_receive (otx_of tx1 "POLYGON" con2)]) = 1%nat.
Proof. vm_compute. reflexivity. Qed.

(* the invariant of C13 holds in the example genesis state, hence (C13_no_double_issuance) along
   every run of base-module messages from it *)
Lemma ex0_contracts : Inv_contracts ex0.
Proof.
  split; [|split; [|split; [|split; [|split]]]].
  - intros k1 k2 c1 c2 H. cbn in H. rewrite lookup_empty in H. discriminate.
  - intros k c H. cbn in H. rewrite lookup_empty in H. discriminate.
  - intros k1 k2 p1 p2 H1 H2 _. cbn in H1, H2.
    apply lookup_singleton_Some in H1. apply lookup_singleton_Some in H2.
    destruct H1 as [<- _]. destruct H2 as [<- _]. reflexivity.
  - intros k [x Hx]. cbn in Hx. apply lookup_singleton_Some in Hx. destruct Hx as [<- _]. cbn. reflexivity.
  - intros k [x Hx]. cbn in Hx. rewrite lookup_empty in Hx. discriminate.
  - intros k1 k2 b1 b2 H. cbn in H. rewrite lookup_empty in H. discriminate.
Qed.
