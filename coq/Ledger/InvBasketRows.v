(* The (basket_id, batch_start_date) index scan [basket_rows]: membership, length, and (for C11
   oldest-first) that [sort_by bb_leb] yields the unique sorted arrangement of the basket's rows. *)
From stdpp Require Import gmap sorting.
From RecordUpdate Require Import RecordSet.
From Coq Require Import ZArith NArith List Bool Lia Strings.Byte.
Require Import Regen.Base.Bytes Regen.Base.Calendar Regen.Dec.Dec.
Require Import Regen.Ledger.Types Regen.Ledger.Msgs Regen.Ledger.Orm Regen.Ledger.BaseMsgs
               Regen.Ledger.BasketMsgs.
Import RecordSetNotations.
Local Open Scope Z_scope.

(* ------------------------------------------------------------------ *)
(* sort_by is a permutation                                            *)
(* ------------------------------------------------------------------ *)

Section sort_by.
  Context {A : Type} (leb : A -> A -> bool).

  Lemma insert_sorted_perm x l : insert_sorted leb x l ≡ₚ x :: l.
  Proof.
    induction l as [|y l IH]; cbn [insert_sorted]; [reflexivity|].
    destruct (leb x y); [reflexivity|]. rewrite IH. apply Permutation_swap.
  Qed.

  Lemma sort_by_perm l : sort_by leb l ≡ₚ l.
  Proof.
    unfold sort_by. induction l as [|x l IH]; cbn [fold_right]; [reflexivity|].
    rewrite insert_sorted_perm, IH. reflexivity.
  Qed.

  Lemma sort_by_length l : length (sort_by leb l) = length l.
  Proof. apply Permutation_length, sort_by_perm. Qed.

  (* sortedness, for a total and transitive order *)
  Hypothesis leb_total : forall x y, leb x y = true \/ leb y x = true.
  Hypothesis leb_trans : forall x y z, leb x y = true -> leb y z = true -> leb x z = true.

  Definition lebR (x y : A) : Prop := leb x y = true.

  Lemma insert_sorted_sorted x l : StronglySorted lebR l -> StronglySorted lebR (insert_sorted leb x l).
  Proof.
    induction 1 as [|y l Hl IH Hy]; cbn [insert_sorted].
    - constructor; constructor.
    - destruct (leb x y) eqn:E.
      + constructor; [constructor; assumption|]. constructor; [exact E|].
        eapply Forall_impl; [|exact Hy]. intros z Hz. eapply leb_trans; eassumption.
      + constructor; [exact IH|].
        assert (Hyx : lebR y x) by (destruct (leb_total x y); [congruence | assumption]).
        rewrite (insert_sorted_perm x l). constructor; assumption.
  Qed.

  Lemma sort_by_sorted l : StronglySorted lebR (sort_by leb l).
  Proof.
    unfold sort_by. induction l as [|x l IH]; cbn [fold_right]; [constructor|].
    apply insert_sorted_sorted. exact IH.
  Qed.

  (* two sorted arrangements of the same elements coincide when the order is antisymmetric on them *)
  Lemma sorted_unique l1 : forall l2,
    (forall x y, x ∈ l1 -> y ∈ l1 -> leb x y = true -> leb y x = true -> x = y) ->
    StronglySorted lebR l1 -> StronglySorted lebR l2 -> l1 ≡ₚ l2 -> l1 = l2.
  Proof.
    induction l1 as [|x1 l1 IH]; intros l2 Hanti H1 H2 E.
    { symmetry. apply Permutation_nil. exact E. }
    destruct l2 as [|x2 l2]; [symmetry in E; apply Permutation_nil in E; discriminate|].
    apply StronglySorted_inv in H1. destruct H1 as [H1 Hx1].
    apply StronglySorted_inv in H2. destruct H2 as [H2 Hx2].
    rewrite Forall_forall in Hx1, Hx2.
    assert (Hin2 : x2 ∈ x1 :: l1) by (rewrite E; left).
    assert (Hin1 : x1 ∈ x2 :: l2) by (rewrite <- E; left).
    assert (x1 = x2).
    { apply elem_of_cons in Hin1. apply elem_of_cons in Hin2.
      destruct Hin1 as [?|Hin1]; [assumption|]. destruct Hin2 as [?|Hin2]; [congruence|].
      apply Hanti; [left | right; exact Hin2 | apply Hx1, elem_of_list_In; exact Hin2 | apply Hx2, elem_of_list_In; exact Hin1]. }
    subst x2. f_equal. apply IH; [|assumption|assumption|].
    - intros x y Hx Hy. apply Hanti; right; assumption.
    - eapply (inj (cons x1)). exact E.
  Qed.
End sort_by.

(* ------------------------------------------------------------------ *)
(* basket_rows                                                         *)
(* ------------------------------------------------------------------ *)

Definition row_of (id : N) (kv : N * bytes * basket_balance) : option (bytes * basket_balance) :=
  if (kv.1.1 =? id)%N then Some (kv.1.2, kv.2) else None.

Definition rows_unsorted (m : gmap (N * bytes) basket_balance) (id : N) : list (bytes * basket_balance) :=
  omap (row_of id) (map_to_list m).

Lemma basket_rows_eq s id : basket_rows s id = sort_by bb_leb (rows_unsorted (basket_balances s) id).
Proof. reflexivity. Qed.

Lemma rows_unsorted_elem m id d bb : (d, bb) ∈ rows_unsorted m id <-> m !! (id, d) = Some bb.
Proof.
  unfold rows_unsorted. rewrite elem_of_list_omap. split.
  - intros ([[id' d'] v] & Hin & Hf). apply elem_of_map_to_list in Hin.
    unfold row_of in Hf. cbn [fst snd] in Hf. destruct (id' =? id)%N eqn:E; [|discriminate].
    apply N.eqb_eq in E. inversion Hf; subst. exact Hin.
  - intros H. exists ((id, d), bb). split; [apply elem_of_map_to_list; exact H|].
    unfold row_of. cbn [fst snd]. rewrite N.eqb_refl. reflexivity.
Qed.

Lemma basket_rows_elem s id d bb :
  (d, bb) ∈ basket_rows s id <-> basket_balances s !! (id, d) = Some bb.
Proof. rewrite basket_rows_eq, sort_by_perm. apply rows_unsorted_elem. Qed.

Lemma basket_rows_head s id d bb rest :
  basket_rows s id = (d, bb) :: rest -> basket_balances s !! (id, d) = Some bb.
Proof. intros H. apply basket_rows_elem. rewrite H. left. Qed.

Lemma rows_unsorted_delete m id d bb :
  m !! (id, d) = Some bb -> (d, bb) :: rows_unsorted (delete (id, d) m) id ≡ₚ rows_unsorted m id.
Proof.
  intros H. unfold rows_unsorted. rewrite <- (map_to_list_delete m (id, d) bb H).
  cbn [omap list_omap]. unfold row_of. cbn [fst snd]. rewrite N.eqb_refl. reflexivity.
Qed.

Lemma rows_unsorted_insert_fresh m id d bb :
  m !! (id, d) = None -> rows_unsorted (<[(id, d) := bb]> m) id ≡ₚ (d, bb) :: rows_unsorted m id.
Proof.
  intros H. unfold rows_unsorted. rewrite (map_to_list_insert m (id, d) bb H).
  cbn [omap list_omap]. unfold row_of. cbn [fst snd]. rewrite N.eqb_refl. reflexivity.
Qed.

(* the fuel argument: removing a row of the basket shortens the scan *)
Lemma basket_rows_length_delete (s : state) id d bb m' :
  basket_balances s !! (id, d) = Some bb -> m' = delete (id, d) (basket_balances s) ->
  S (length (sort_by bb_leb (rows_unsorted m' id))) = length (basket_rows s id).
Proof.
  intros H ->. rewrite basket_rows_eq, !sort_by_length.
  rewrite <- (Permutation_length (rows_unsorted_delete _ _ _ _ H)). reflexivity.
Qed.

(* ------------------------------------------------------------------ *)
(* the index order: (start date, batch denom)                          *)
(* ------------------------------------------------------------------ *)

Lemma byte_N_inj a c : byte_N a = byte_N c -> a = c.
Proof.
  unfold byte_N. intros H. pose proof (Byte.of_to_N a) as Ha. pose proof (Byte.of_to_N c) as Hc.
  rewrite H in Ha. congruence.
Qed.

Lemma bytes_cmp_eq : forall x y, bytes_cmp x y = Eq <-> x = y.
Proof.
  induction x as [|a x IH]; destruct y as [|c y]; cbn [bytes_cmp]; split; intros H; try congruence; try discriminate.
  - destruct (N.compare_spec (byte_N a) (byte_N c)) as [E|E|E]; try discriminate.
    apply byte_N_inj in E. apply IH in H. congruence.
  - inversion H; subst. rewrite N.compare_refl. apply IH. reflexivity.
Qed.

Lemma bytes_cmp_opp : forall x y, bytes_cmp y x = CompOpp (bytes_cmp x y).
Proof.
  induction x as [|a x IH]; destruct y as [|c y]; cbn [bytes_cmp]; try reflexivity.
  rewrite (N.compare_antisym (byte_N a) (byte_N c)).
  destruct (byte_N a ?= byte_N c)%N; cbn [CompOpp]; [apply IH | reflexivity | reflexivity].
Qed.

Lemma bytes_cmp_trans : forall x y z, bytes_cmp x y <> Gt -> bytes_cmp y z <> Gt -> bytes_cmp x z <> Gt.
Proof.
  induction x as [|a x IH]; intros y z Hxy Hyz.
  - destruct z; cbn; discriminate.
  - destruct y as [|c y]; [cbn in Hxy; congruence|]. destruct z as [|e z]; [cbn in Hyz; congruence|].
    cbn [bytes_cmp] in *.
    destruct (N.compare_spec (byte_N a) (byte_N c)) as [E1|E1|E1]; try congruence;
      destruct (N.compare_spec (byte_N c) (byte_N e)) as [E2|E2|E2]; try congruence;
      destruct (N.compare_spec (byte_N a) (byte_N e)) as [E3|E3|E3]; try discriminate; try lia.
    eapply IH; eassumption.
Qed.

Definition row_key (x : bytes * basket_balance) : Z := ts_total_nanos (bb_start x.2).

Lemma bb_leb_spec x y :
  bb_leb x y = true <-> row_key x < row_key y \/ (row_key x = row_key y /\ bytes_cmp x.1 y.1 <> Gt).
Proof.
  unfold bb_leb, row_key, ts_compare.
  destruct (Z.compare_spec (ts_total_nanos (bb_start x.2)) (ts_total_nanos (bb_start y.2))) as [E|E|E].
  - destruct (bytes_cmp x.1 y.1); split; intros H; try discriminate; try reflexivity.
    + right. split; [exact E | discriminate].
    + right. split; [exact E | discriminate].
    + destruct H as [H|[_ H]]; [lia | congruence].
  - split; [intros _; left; exact E | reflexivity].
  - split; [discriminate | intros [H|[H _]]; lia].
Qed.

Lemma bb_leb_total x y : bb_leb x y = true \/ bb_leb y x = true.
Proof.
  rewrite !bb_leb_spec. destruct (Z.lt_trichotomy (row_key x) (row_key y)) as [H|[H|H]]; [auto | | auto].
  destruct (bytes_cmp x.1 y.1) eqn:E.
  - left. right. split; [exact H | congruence].
  - left. right. split; [exact H | congruence].
  - right. right. split; [lia|]. rewrite bytes_cmp_opp, E. discriminate.
Qed.

Lemma bb_leb_trans x y z : bb_leb x y = true -> bb_leb y z = true -> bb_leb x z = true.
Proof.
  rewrite !bb_leb_spec. intros [H1|[H1 C1]] [H2|[H2 C2]]; [left; lia | left; lia | left; lia|].
  right. split; [lia | eapply bytes_cmp_trans; eassumption].
Qed.

Lemma bb_leb_antisym x y : bb_leb x y = true -> bb_leb y x = true -> x.1 = y.1.
Proof.
  rewrite !bb_leb_spec. intros [H1|[H1 C1]] [H2|[H2 C2]]; try lia.
  apply bytes_cmp_eq. rewrite bytes_cmp_opp in C2. destruct (bytes_cmp x.1 y.1); [reflexivity | | congruence].
  cbn in C2. congruence.
Qed.

(* bb_leb looks only at the start date and the denom *)
Lemma bb_leb_same_key_l x x' y : x'.1 = x.1 -> bb_start x'.2 = bb_start x.2 -> bb_leb x' y = bb_leb x y.
Proof. intros H1 H2. unfold bb_leb. rewrite H1, H2. reflexivity. Qed.

Lemma rows_sorted m id : StronglySorted (lebR bb_leb) (sort_by bb_leb (rows_unsorted m id)).
Proof. apply sort_by_sorted; [apply bb_leb_total | apply bb_leb_trans]. Qed.

Lemma rows_antisym m id x y :
  x ∈ rows_unsorted m id -> y ∈ rows_unsorted m id -> bb_leb x y = true -> bb_leb y x = true -> x = y.
Proof.
  destruct x as [d1 b1], y as [d2 b2]. intros H1 H2 L1 L2.
  pose proof (bb_leb_antisym _ _ L1 L2) as E. cbn [fst] in E. subst d2.
  apply rows_unsorted_elem in H1. apply rows_unsorted_elem in H2. congruence.
Qed.

(* the sorted scan is determined by the set of rows *)
Lemma rows_unique m id l :
  StronglySorted (lebR bb_leb) l -> l ≡ₚ rows_unsorted m id -> sort_by bb_leb (rows_unsorted m id) = l.
Proof.
  intros Hs Hp. apply (sorted_unique bb_leb).
  - intros x y Hx Hy. rewrite sort_by_perm in Hx, Hy. apply (rows_antisym m id); assumption.
  - apply rows_sorted.
  - exact Hs.
  - rewrite sort_by_perm. symmetry. exact Hp.
Qed.

(* deleting the first row of the scan leaves the rest of the scan *)
Lemma rows_delete_head m id d bb rest :
  sort_by bb_leb (rows_unsorted m id) = (d, bb) :: rest ->
  sort_by bb_leb (rows_unsorted (delete (id, d) m) id) = rest.
Proof.
  intros H.
  assert (Hrow : m !! (id, d) = Some bb).
  { apply rows_unsorted_elem. rewrite <- (sort_by_perm bb_leb), H. left. }
  pose proof (rows_sorted m id) as Hs. rewrite H in Hs. apply StronglySorted_inv in Hs. destruct Hs as [Hs _].
  apply rows_unique; [exact Hs|].
  apply (Permutation_cons_inv (a := (d, bb))).
  rewrite (rows_unsorted_delete _ _ _ _ Hrow), <- H. apply sort_by_perm.
Qed.

(* rewriting the balance of the first row keeps it first *)
Lemma rows_update_head m id d bb bb' rest :
  sort_by bb_leb (rows_unsorted m id) = (d, bb) :: rest -> bb_start bb' = bb_start bb ->
  sort_by bb_leb (rows_unsorted (<[(id, d) := bb']> m) id) = (d, bb') :: rest.
Proof.
  intros H Hst.
  assert (Hrow : m !! (id, d) = Some bb).
  { apply rows_unsorted_elem. rewrite <- (sort_by_perm bb_leb), H. left. }
  pose proof (rows_sorted m id) as Hs. rewrite H in Hs. apply StronglySorted_inv in Hs. destruct Hs as [Hs Hhd].
  apply rows_unique.
  - constructor; [exact Hs|]. eapply Forall_impl; [|exact Hhd]. intros y Hy. unfold lebR in *.
    rewrite <- Hy. apply bb_leb_same_key_l; [reflexivity | exact Hst].
  - rewrite <- insert_delete_insert. rewrite rows_unsorted_insert_fresh by apply lookup_delete.
    constructor. apply (Permutation_cons_inv (a := (d, bb))).
    rewrite (rows_unsorted_delete _ _ _ _ Hrow), <- H. apply sort_by_perm.
Qed.
