(* Assembly, part 1: the representability invariant Inv_bound (InvMarketLib.v) is preserved by the
   base-module and basket messages.  Messages that never raise a tradable supply keep it by arithmetic
   from the published per-message relations; the three issuing handlers (CreateBatch, MintBatchCredits,
   BridgeReceive) keep it because every new tradable supply is [dnorm] of the Ok result of an addition,
   which apd only returns when it is representable (add_gen_result_bound). *)
From stdpp Require Import gmap.
From RecordUpdate Require Import RecordSet.
From Coq Require Import ZArith NArith List Bool Lia Strings.Byte.
Require Import Regen.Base.Bytes Regen.Base.Calendar Regen.Dec.Dec Regen.Dec.DecIface.
Require Import Regen.Ledger.Types Regen.Ledger.Msgs Regen.Ledger.Orm Regen.Ledger.BaseMsgs
               Regen.Ledger.BasketMsgs Regen.Ledger.MarketMsgs Regen.Ledger.Step
               Regen.Ledger.Amount Regen.Ledger.MapSum Regen.Ledger.Inv Regen.Ledger.InvTactics.
Require Regen.Ledger.InvBasketLib Regen.Ledger.InvBasket.
Require Import Regen.Ledger.InvFrame Regen.Ledger.InvAdmin.
Require Import Regen.Ledger.InvBaseLib Regen.Ledger.InvBase3 Regen.Ledger.InvBase Regen.Ledger.InvBridgeLib.
Require Import Regen.Ledger.InvMarketLib.
Import ListNotations RecordSetNotations.
Local Open Scope Z_scope.

(* ------------------------------------------------------------------ *)
(* messages that do not issue                                          *)
(* ------------------------------------------------------------------ *)

(* no new supply row, every total kept, retired and cancelled columns only grow: tradable only shrinks *)
Lemma bound_of_totals s s' :
  Inv_scale s' ->
  (forall k su', supplies s' !! k = Some su' -> exists su, supplies s !! k = Some su /\ T su' = T su) ->
  (forall k su, supplies s !! k = Some su -> exists su', supplies s' !! k = Some su' /\
       U (su_retired su) <= U (su_retired su') /\ U (su_cancelled su) <= U (su_cancelled su')) ->
  Inv_bound s -> Inv_bound s'.
Proof.
  intros _ Hsame Hmono Hb k su' Hk'. destruct (Hsame _ _ Hk') as (su & Hk & HT).
  destruct (Hmono _ _ Hk) as (su'' & Hk'' & HR & HC). rewrite Hk' in Hk''. inversion Hk''; subst su''.
  specialize (Hb _ _ Hk). unfold T in HT. lia.
Qed.

Lemma bound_supplies_eq s s' : supplies s' = supplies s -> Inv_bound s -> Inv_bound s'.
Proof. intros E Hb k su. rewrite E. apply Hb. Qed.

(* ------------------------------------------------------------------ *)
(* issuing handlers                                                    *)
(* ------------------------------------------------------------------ *)

(* what the loops carry: every tradable supply is a stored amount below the bound *)
Definition sup_ok (s : state) : Prop :=
  forall k su, supplies s !! k = Some su -> stored_ok (su_tradable su) /\ U (su_tradable su) < BOUND.

Lemma sup_ok_intro s : Inv_scale s -> Inv_bound s -> sup_ok s.
Proof. intros (_ & H2 & _) Hb k su Hk. split; [apply (H2 _ _ Hk) | apply (Hb _ _ Hk)]. Qed.

Lemma sup_ok_bound s : sup_ok s -> Inv_bound s.
Proof. intros H k su Hk. apply (H _ _ Hk). Qed.

Lemma sup_ok_eq s s' : supplies s' = supplies s -> sup_ok s -> sup_ok s'.
Proof. intros E H k su. rewrite E. apply H. Qed.

(* one addition to a stored amount *)
Lemma add_stored_bound x t z :
  stored_ok x -> in_ok t -> add x t = Ok z -> stored_ok (dnorm z) /\ U (dnorm z) < BOUND.
Proof.
  intros Hx Ht Hz. pose proof (stored_in_ok _ Hx) as Hx'.
  destruct (add_in_ok _ _ _ Hx' Ht Hz) as [Hzok _].
  destruct (dnorm_ok _ Hzok) as [Hs HU]. split; [exact Hs|]. rewrite HU.
  assert (Hex : dexp x <= 0) by (destruct Hx as (_ & _ & _ & H); exact H).
  pose proof (add_gen_result_bound false x t z Hx' Ht Hex Hz) as Hb.
  pose proof (in_ok_U_nonneg z Hzok). rewrite Z.abs_eq in Hb by assumption. exact Hb.
Qed.

Lemma mint_issue_sup_ok bk s i s' : sup_ok s -> mint_issue P bk s i = LOk s' -> sup_ok s'.
Proof.
  intros Hs H. unfold mint_issue in H.
  lstep H as t Ht. lstep H as r Hr. cbv zeta in H.
  lstep H as su Hsu. lstep H as p1 Hp1. destruct p1 as [br sr]. cbv beta iota in H.
  lstep H as p2 Hp2. destruct p2 as [bt st]. cbv beta iota in H.
  apply update_supply_ok' in H. destruct H as [-> _].
  assert (Hst : stored_ok st /\ U st < BOUND).
  { destruct (is_zero t).
    - inversion Hp2; subst bt st. apply (Hs _ _ Hsu).
    - lstep Hp2 as bt0 Hbt0. lstep Hp2 as st0 Hst0. inversion Hp2; subst bt st.
      eapply add_stored_bound; [apply (Hs _ _ Hsu) | eapply nnfixed_in_ok; exact Ht | exact Hst0]. }
  intros k su' Hk. rewrite supplies_set_supply, supplies_save in Hk.
  apply lookup_insert_Some in Hk. destruct Hk as [[_ <-]|[_ Hk]]; [exact Hst | apply (Hs _ _ Hk)].
Qed.

Lemma h_mint_bound e s issuer denom iss otx s' r evs :
  Inv_core s -> Inv_bound s -> h_mint_batch_credits e s issuer denom iss otx = LOk (s', r, evs) -> Inv_bound s'.
Proof.
  intros (Hct & Hsc & _) Hb H. unfold h_mint_batch_credits in H.
  lstep H as p Hp. destruct p as [bk ba]. cbv beta iota in H.
  lstep H as u1 Hu1. lstep H as u2 Hu2. lstep H as pj Hpj. lstep H as o Ho. lstep H as s1 Hs1.
  lstep H as ct Hctd. lstep H as s2 Hs2. unfold ret in H. inversion H; subst s' r evs; clear H.
  apply insert_origin_tx_shape in Hs1. destruct Hs1 as [_ ->].
  assert (Hp6 : ct_precision ct = P) by (eapply credit_type_of_denom_prec; [|exact Hctd]; exact Hct).
  rewrite Hp6 in Hs2. apply sup_ok_bound.
  eapply (lfold_preserves (mint_issue P bk) sup_ok); [| |exact Hs2].
  - intros a x a' Ha Hf. eapply mint_issue_sup_ok; eassumption.
  - apply (sup_ok_eq s); [reflexivity | apply sup_ok_intro; assumption].
Qed.

(* the accumulator of CreateBatch's issuance loop *)
Definition acc_ok (s0 : state) (acc : state * dec * dec) : Prop :=
  supplies acc.1.1 = supplies s0 /\ in_ok acc.1.2 /\ dexp acc.1.2 <= 0 /\ U acc.1.2 < BOUND.

Lemma create_issue_acc_ok s0 bk acc i acc' :
  acc_ok s0 acc -> create_batch_issue P bk acc i = LOk acc' -> acc_ok s0 acc'.
Proof.
  destruct acc as [[s tsum] rsum]. intros (E & Hok & Hexp & Hb) H. cbn [fst snd] in *.
  unfold create_batch_issue in H.
  lstep H as t Ht. lstep H as r Hr. cbv zeta in H.
  lstep H as tb Htb. lstep H as rb Hrb. lstep H as tsum' Ht'. lstep H as rsum' Hr'.
  inversion H; subst acc'; clear H. unfold acc_ok. cbn [fst snd]. rewrite supplies_save.
  split; [exact E|]. pose proof (nnfixed_in_ok _ _ Ht) as Htok.
  destruct (is_zero t).
  - inversion Ht'; subst tsum'. tauto.
  - apply lift_ok in Ht'. destruct (add_in_ok _ _ _ Hok Htok Ht') as [Hz _].
    pose proof Hok as (Hc1 & _ & He1). pose proof Htok as (Hc2 & _ & He2).
    pose proof (add_gen_units false tsum t tsum' Hc1 Hc2 He1 He2 Ht') as (_ & Hez & _).
    pose proof (add_gen_result_bound false tsum t tsum' Hok Htok Hexp Ht') as Hbz.
    pose proof (in_ok_U_nonneg _ Hz). rewrite Z.abs_eq in Hbz by assumption.
    split; [exact Hz|]. split; [lia | exact Hbz].
Qed.

Lemma h_create_batch_bound e s issuer pid iss metadata start_ end_ open otx s' r evs :
  Inv_ct s -> Inv_bound s ->
  h_create_batch e s issuer pid iss metadata start_ end_ open otx = LOk (s', r, evs) -> Inv_bound s'.
Proof.
  intros Hct Hb H. unfold h_create_batch in H.
  lstep H as p Hp. destruct p as [pk pj]. cbv beta iota zeta in H.
  lstep H as cl Hcl. lstep H as u1 Hu1. lstep H as sd Hsd. lstep H as ed Hed. lstep H as u2 Hu2.
  lstep H as ct Hctl. cbn in Hctl.
  lstep H as acc Hacc. destruct acc as [[s2 tsum] rsum]. cbv beta iota in H.
  lstep H as m Hm. apply orm_insert_ok in Hm. destruct Hm as [-> _].
  lstep H as s3 Hs3. unfold ret in H. inversion H; subst s' r evs; clear H.
  assert (Hp6 : ct_precision ct = P) by (eapply Hct; exact Hctl). rewrite Hp6 in Hacc.
  match type of Hacc with lfold _ _ (?s0, _, _) = _ =>
    assert (Ha : acc_ok s0 (s2, tsum, rsum)) end.
  { eapply (lfold_preserves (create_batch_issue P _) (acc_ok _)); [| |exact Hacc].
    - intros a x a' Ha Hf. eapply create_issue_acc_ok; eassumption.
    - unfold acc_ok. cbn [fst snd]. split; [reflexivity|]. split; [apply in_ok_dzero|].
      split; [cbn; lia | rewrite U_dzero; apply BOUND_pos]. }
  destruct Ha as (E & Hok & _ & Hbt). cbn [fst snd] in E, Hok, Hbt. cbn in E.
  assert (Hsup3 : supplies s3 = <[(batch_seq_id s + 1)%N :=
            {| su_tradable := dnorm tsum; su_retired := dnorm rsum; su_cancelled := dzero |}]> (supplies s)).
  { rewrite <- E. destruct otx as [o|]; [|inversion Hs3; reflexivity].
    lstep Hs3 as s4 Hs4. apply insert_origin_tx_shape in Hs4. destruct Hs4 as [_ ->].
    destruct (ot_contract o); [inversion Hs3; reflexivity|].
    destruct (contract_taken _ _ _); [discriminate|].
    lstep Hs3 as m2 Hm2. inversion Hs3; reflexivity. }
  intros k su Hk. rewrite Hsup3 in Hk. apply lookup_insert_Some in Hk.
  destruct Hk as [[_ <-]|[_ Hk]]; [|apply (Hb _ _ Hk)].
  cbn [su_tradable]. destruct (dnorm_ok _ Hok) as [_ ->]. exact Hbt.
Qed.

Lemma h_create_project_supplies e s admin cid md j rid s' r evs :
  h_create_project e s admin cid md j rid = LOk (s', r, evs) -> supplies s' = supplies s /\ credit_types s' = credit_types s.
Proof.
  intros H. apply h_create_project_shape in H. destruct H as (ck & cl & _ & _ & _ & -> & _). split; reflexivity.
Qed.

Lemma h_bridge_receive_bound e s issuer class_id pjr bar otx s' r evs :
  Inv_core s -> Inv_bound s -> h_bridge_receive e s issuer class_id pjr bar otx = LOk (s', r, evs) -> Inv_bound s'.
Proof.
  intros Hc Hb H. apply h_bridge_receive_shape in H.
  destruct H as (o & bb & pp & ck & cl & _ & _ & _ & _ & _ & [Hmint|Hcreate]).
  - destruct Hmint as (bk & bc & ba0 & pj0 & r1 & e1 & _ & _ & _ & Hm1 & _ & _).
    eapply h_mint_bound; eassumption.
  - destruct Hcreate as (_ & s1 & pid & d & e2 & Hproj & Hcb & _ & _).
    assert (H1 : supplies s1 = supplies s /\ credit_types s1 = credit_types s).
    { destruct Hproj as [(k & pj0 & _ & -> & _)|(_ & e3 & Hcp)]; [split; reflexivity|].
      eapply h_create_project_supplies; exact Hcp. }
    destruct H1 as [E1 E2].
    eapply h_create_batch_bound; [| |exact Hcb].
    + destruct Hc as (Hct & _). unfold Inv_ct. rewrite E2. exact Hct.
    + eapply bound_supplies_eq; eassumption.
Qed.

(* ------------------------------------------------------------------ *)
(* the three non-market families                                       *)
(* ------------------------------------------------------------------ *)

Theorem base_preserves_bound e s m s' r evs :
  is_base_credit_msg m = true -> Inv_core s -> Inv_bound s ->
  handle e s m = LOk (s', r, evs) -> Inv_bound s'.
Proof.
  intros Hm Hc Hb H. destruct (base_handle_ok _ _ _ _ _ _ Hm Hc H) as (Hc' & Hrel & Htot).
  assert (Hsame : totals_same s s' -> Inv_bound s').
  { intros Hs. eapply bound_of_totals; [apply Hc' | exact Hs | exact (br_supplies _ _ Hrel) | exact Hb]. }
  destruct m; try discriminate Hm; cbn [total_effect] in Htot; cbn [handle] in H; try (apply Hsame; exact Htot).
  - eapply h_create_batch_bound; [apply Hc | exact Hb | exact H].
  - exact (h_mint_bound _ _ _ _ _ _ _ _ _ Hc Hb H).
  - exact (h_bridge_receive_bound _ _ _ _ _ _ _ _ _ _ Hc Hb H).
Qed.

Theorem admin_preserves_bound e s m s' r evs :
  is_admin_msg m = true -> validate_basic m = true -> Inv_bound s ->
  handle e s m = LOk (s', r, evs) -> Inv_bound s'.
Proof.
  intros Hm Hvb Hb H. eapply bound_supplies_eq; [|exact Hb].
  apply (cf_supplies _ _ (admin_credit_frame _ _ _ _ _ _ Hm Hvb H)).
Qed.

Theorem basket_preserves_bound e s m s' r evs :
  InvBasket.is_basket_msg m = true -> Inv_core s -> validate_basic m = true -> Inv_bound s ->
  handle e s m = LOk (s', r, evs) -> Inv_bound s'.
Proof.
  intros Hm Hc Hvb Hb H. destruct (InvBasket.basket_core_step _ _ _ _ _ _ Hm Hc Hvb H) as [Hc' S].
  intros k su' Hk'.
  destruct (supplies s !! k) as [su|] eqn:Hk.
  - destruct (InvBasketLib.so_sup _ _ S _ _ Hk) as (su'' & Hk'' & HR & HC & HT).
    rewrite Hk' in Hk''. inversion Hk''; subst su''. specialize (Hb _ _ Hk).
    unfold InvBasketLib.supply_total in HT. lia.
  - apply (InvBasketLib.so_sup_dom _ _ S) in Hk. congruence.
Qed.
