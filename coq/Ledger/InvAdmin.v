(* Administrative and governance messages of the base module (and bank sends) do not touch the
   credit tables, hence preserve the credit-accounting invariants. *)
From stdpp Require Import gmap.
From RecordUpdate Require Import RecordSet.
From Coq Require Import ZArith NArith List Bool Lia Strings.Byte.
Require Import Regen.Base.Bytes Regen.Base.Calendar Regen.Dec.Dec.
Require Import Regen.Ledger.Types Regen.Ledger.Msgs Regen.Ledger.Orm Regen.Ledger.BaseMsgs
               Regen.Ledger.BasketMsgs Regen.Ledger.MarketMsgs Regen.Ledger.Step
               Regen.Ledger.Amount Regen.Ledger.MapSum Regen.Ledger.Inv Regen.Ledger.InvTactics
               Regen.Ledger.InvFrame.
Import RecordSetNotations.
Local Open Scope Z_scope.

Definition is_admin_msg (m : msg) : bool :=
  match m with
  | MCreateClass _ _ _ _ _ | MCreateProject _ _ _ _ _ | MUpdateClassAdmin _ _ _ | MUpdateClassIssuers _ _ _ _
  | MUpdateClassMetadata _ _ _ | MUpdateProjectAdmin _ _ _ | MUpdateProjectMetadata _ _ _
  | MAddCreditType _ _ _ _ _ | MSetClassCreatorAllowlist _ _ | MAddClassCreator _ _ | MRemoveClassCreator _ _
  | MUpdateClassFee _ _ | MAddAllowedBridgeChain _ _ | MRemoveAllowedBridgeChain _ _ | MBurnRegen _ _ _
  | MBankSend _ _ _ | MUnimplemented _ => true
  | _ => false
  end.

Lemma cf_of_eqs s s' :
  balances s' = balances s -> supplies s' = supplies s -> basket_balances s' = basket_balances s ->
  sell_orders s' = sell_orders s -> batches s' = batches s -> baskets s' = baskets s ->
  batch_seq_id s' = batch_seq_id s -> sell_order_seq_id s' = sell_order_seq_id s -> basket_seq_id s' = basket_seq_id s ->
  credit_types s' = credit_types s -> credit_frame s s'.
Proof. intros. constructor; try assumption. intros a ct Hct. left. congruence. Qed.

Ltac frame_eqs := apply cf_of_eqs; reflexivity.

Lemma insert_issuers_frame k l : forall s s', insert_issuers k l s = LOk s' -> credit_frame s s'.
Proof.
  induction l as [|a l IH]; cbn [insert_issuers]; intros s s' H.
  - inversion H. frame_eqs.
  - destruct (bool_decide _); [discriminate|].
    eapply credit_frame_trans; [| eapply IH; exact H]. frame_eqs.
Qed.

Lemma fold_remove_issuers_frame k l : forall s,
  credit_frame s (fold_left (fun s a => s <| class_issuers := class_issuers s ∖ {[ (k, a) ]} |>) l s).
Proof.
  induction l as [|a l IH]; cbn [fold_left]; intros s; [frame_eqs|].
  eapply credit_frame_trans; [| apply IH]. frame_eqs.
Qed.

Theorem admin_credit_frame e s m s' r evs :
  is_admin_msg m = true -> validate_basic m = true -> handle e s m = LOk (s', r, evs) -> credit_frame s s'.
Proof.
  intros Hm Hvb H. destruct m; try discriminate Hm; cbn [handle] in H.
  - (* CreateClass *)
    unfold h_create_class in H.
    lstep H as u1 H1. lstep H as s1 Hs1. lstep H as ctv H2. lstep H as u2 H3. lstep H as s2 Hs2.
    unfold ret in H. inversion H; subst; clear H.
    eapply credit_frame_trans; [apply nonbank_credit_frame; eapply charge_fee_nonbank; exact Hs1|].
    eapply credit_frame_trans; [| eapply insert_issuers_frame; exact Hs2]. frame_eqs.
  - (* CreateProject *)
    unfold h_create_project in H.
    lstep H as p1 H1. destruct p1 as [ck cl]. lstep H as u1 H2. lstep H as u2 H3. lstep H as u3 H4.
    unfold ret in H. inversion H; subst; clear H. frame_eqs.
  - (* UpdateClassAdmin *)
    unfold h_update_class_admin in H. lstep H as p1 H1. destruct p1 as [k c]. lstep H as u1 H2.
    unfold ret in H. inversion H; subst; clear H. frame_eqs.
  - (* UpdateClassIssuers *)
    unfold h_update_class_issuers in H. lstep H as p1 H1. destruct p1 as [k c]. lstep H as u1 H2. lstep H as s2 Hs2.
    unfold ret in H. inversion H; subst; clear H.
    eapply credit_frame_trans; [apply fold_remove_issuers_frame | eapply insert_issuers_frame; exact Hs2].
  - (* UpdateClassMetadata *)
    unfold h_update_class_metadata in H. lstep H as p1 H1. destruct p1 as [k c]. lstep H as u1 H2.
    unfold ret in H. inversion H; subst; clear H. frame_eqs.
  - (* UpdateProjectAdmin *)
    unfold h_update_project_admin in H. lstep H as p1 H1. destruct p1 as [k c]. lstep H as u1 H2.
    unfold ret in H. inversion H; subst; clear H. frame_eqs.
  - (* UpdateProjectMetadata *)
    unfold h_update_project_metadata in H. lstep H as p1 H1. destruct p1 as [k c]. lstep H as u1 H2.
    unfold ret in H. inversion H; subst; clear H. frame_eqs.
  - (* AddCreditType: validate_basic pins the precision to 6 *)
    unfold h_add_credit_type in H. lstep H as u1 H1. lstep H as u2 H2. lstep H as u3 H3.
    unfold ret in H. inversion H; subst; clear H.
    constructor; try reflexivity.
    intros a ct Hct. cbn in Hct.
    destruct (decide (abbrev = a)) as [->|Hne].
    + rewrite lookup_insert in Hct. inversion Hct; subst ct. right. cbn.
      cbn [validate_basic] in Hvb. rewrite !andb_true_iff in Hvb. destruct Hvb as [_ Hp].
      apply Z.eqb_eq in Hp. exact Hp.
    + rewrite lookup_insert_ne in Hct by exact Hne. left. exact Hct.
  - unfold h_set_allowlist in H. lstep H as u1 H1. unfold ret in H. inversion H; subst; clear H. frame_eqs.
  - unfold h_add_class_creator in H. lstep H as u1 H1. lstep H as u2 H2. unfold ret in H. inversion H; subst; clear H. frame_eqs.
  - unfold h_remove_class_creator in H. lstep H as u1 H1. lstep H as u2 H2. unfold ret in H. inversion H; subst; clear H. frame_eqs.
  - unfold h_update_class_fee in H. lstep H as u1 H1. unfold ret in H. inversion H; subst; clear H. frame_eqs.
  - unfold h_add_allowed_bridge_chain in H. lstep H as u1 H1. lstep H as u2 H2. unfold ret in H. inversion H; subst; clear H. frame_eqs.
  - unfold h_remove_allowed_bridge_chain in H. lstep H as u1 H1. unfold ret in H. inversion H; subst; clear H. frame_eqs.
  - (* BurnRegen *)
    unfold h_burn_regen in H. lstep H as amt H1. lstep H as u1 H2. lstep H as cns H3. lstep H as s1 Hs1. lstep H as s2 Hs2.
    unfold ret in H. inversion H; subst; clear H.
    apply nonbank_credit_frame. eapply nonbank_eq_trans; [eapply send_coins_nonbank; exact Hs1 | eapply burn_coins_nonbank; exact Hs2].
  - (* BankSend *)
    destruct (blocked_addr to); [discriminate|]. lstep H as s1 Hs1. unfold ret in H. inversion H; subst; clear H.
    apply nonbank_credit_frame. eapply send_coins_nonbank; exact Hs1.
  - discriminate H.
Qed.

Theorem admin_preserves_core e s m s' r evs :
  is_admin_msg m = true -> Inv_core s -> validate_basic m = true -> handle e s m = LOk (s', r, evs) -> Inv_core s'.
Proof. intros Hm Hi Hvb H. eapply credit_frame_core; [eapply admin_credit_frame; eassumption | exact Hi]. Qed.
