(* Assembly, generic part: the four message families partition [msg]; reachability by begin-block and
   deliver steps; every (intermediate) state of [Step.run] is reachable; an induction principle that lifts
   a per-step invariant and a per-step reflexive-transitive relation to reachability. *)
From stdpp Require Import gmap.
From Coq Require Import ZArith NArith List Bool Lia Strings.Byte.
Require Import Regen.Base.Bytes Regen.Base.Calendar Regen.Dec.Dec.
Require Import Regen.Ledger.Types Regen.Ledger.Msgs Regen.Ledger.Orm Regen.Ledger.BaseMsgs
               Regen.Ledger.BasketMsgs Regen.Ledger.MarketMsgs Regen.Ledger.Step
               Regen.Ledger.Inv Regen.Ledger.InvTactics.
Require Import Regen.Ledger.InvAdmin Regen.Ledger.InvBase Regen.Ledger.InvBasket Regen.Ledger.InvMarket.
Import ListNotations.
Local Open Scope Z_scope.

(* ------------------------------------------------------------------ *)
(* the four families                                                   *)
(* ------------------------------------------------------------------ *)

Inductive msg_class := CBase | CAdmin | CBasket | CMarket.

Definition class_of (m : msg) : msg_class :=
  if is_base_credit_msg m then CBase else if is_admin_msg m then CAdmin
  else if is_basket_msg m then CBasket else CMarket.

(* every constructor satisfies exactly one of the four predicates *)
Theorem msg_class_total m :
  (is_base_credit_msg m = true /\ is_admin_msg m = false /\ is_basket_msg m = false /\ is_market_msg m = false) \/
  (is_base_credit_msg m = false /\ is_admin_msg m = true /\ is_basket_msg m = false /\ is_market_msg m = false) \/
  (is_base_credit_msg m = false /\ is_admin_msg m = false /\ is_basket_msg m = true /\ is_market_msg m = false) \/
  (is_base_credit_msg m = false /\ is_admin_msg m = false /\ is_basket_msg m = false /\ is_market_msg m = true).
Proof. destruct m; cbn; tauto. Qed.

Lemma msg_cases m :
  is_base_credit_msg m = true \/ is_admin_msg m = true \/ is_basket_msg m = true \/ is_market_msg m = true.
Proof. destruct (msg_class_total m) as [H|[H|[H|H]]]; tauto. Qed.

(* ------------------------------------------------------------------ *)
(* the transaction rule                                                *)
(* ------------------------------------------------------------------ *)

(* deliver either runs a successful, ValidateBasic-approved handler or leaves the state alone *)
Lemma deliver_cases e s m :
  (deliver e s m).1 = s \/
  exists s' r evs, validate_basic m = true /\ handle e s m = LOk (s', r, evs) /\ (deliver e s m).1 = s'.
Proof.
  unfold deliver. destruct (validate_basic m) eqn:V; [|left; reflexivity].
  destruct (handle e s m) as [[[s' r] evs]|err] eqn:H; cbn [fst]; [|left; reflexivity].
  right. exists s', r, evs. tauto.
Qed.

(* lifting a per-handler fact to deliver *)
Lemma deliver_lift (Pr : state -> state -> Prop) e s m :
  Pr s s ->
  (forall s' r evs, validate_basic m = true -> handle e s m = LOk (s', r, evs) -> Pr s s') ->
  Pr s (deliver e s m).1.
Proof.
  intros Hrefl Hstep. destruct (deliver_cases e s m) as [->|(s' & r & evs & V & H & ->)]; [exact Hrefl|].
  eapply Hstep; eassumption.
Qed.

(* ------------------------------------------------------------------ *)
(* reachability                                                        *)
(* ------------------------------------------------------------------ *)

(* s' is obtained from s by begin-block and deliver steps (any block times, any environments, any
   messages: more general than the histories Step.run produces) *)
Inductive reaches (s : state) : state -> Prop :=
| reaches_refl : reaches s s
| reaches_begin s1 t s2 : reaches s s1 -> begin_block t s1 = LOk s2 -> reaches s s2
| reaches_deliver s1 e m : reaches s s1 -> reaches s (deliver e s1 m).1.

Lemma reaches_trans s1 s2 s3 : reaches s1 s2 -> reaches s2 s3 -> reaches s1 s3.
Proof.
  intros H12 H23. induction H23 as [|sa t sb _ IH Hb|sa e m _ IH]; [exact H12| |].
  - eapply reaches_begin; eassumption.
  - apply reaches_deliver. exact IH.
Qed.

Definition deliver_all (e : env) (ms : list msg) (s : state) : state :=
  fold_left (fun s m => (deliver e s m).1) ms s.

Lemma deliver_all_reaches e ms : forall s, reaches s (deliver_all e ms s).
Proof.
  unfold deliver_all. induction ms as [|m ms IH]; intros s; cbn [fold_left]; [apply reaches_refl|].
  eapply reaches_trans; [|apply IH]. apply reaches_deliver. apply reaches_refl.
Qed.

Definition block_env (authority : addr) (bl : block) : env := {| e_time := blk_time bl; e_authority := authority |}.

Lemma run_block_unfold authority s bl :
  run_block authority s bl =
  lbind (begin_block (blk_time bl) s) (fun s1 => LOk (deliver_all (block_env authority bl) (blk_msgs bl) s1)).
Proof. reflexivity. Qed.

Lemma run_block_reaches authority s bl s' : run_block authority s bl = LOk s' -> reaches s s'.
Proof.
  rewrite run_block_unfold. intros H. apply lbind_ok in H. destruct H as (s1 & H1 & H2).
  inversion H2; subst s'. eapply reaches_trans; [|apply deliver_all_reaches].
  eapply reaches_begin; [apply reaches_refl | exact H1].
Qed.

Theorem run_reaches authority h : forall s s', run authority s h = LOk s' -> reaches s s'.
Proof.
  unfold run. induction h as [|bl h IH]; intros s s' H; cbn [lfold] in H.
  - inversion H. apply reaches_refl.
  - apply lbind_ok in H. destruct H as (s1 & H1 & H2).
    eapply reaches_trans; [eapply run_block_reaches; exact H1 | apply IH; exact H2].
Qed.

(* every intermediate state of a run: after any number of complete blocks, the begin-block of the
   next one and any prefix of its messages *)
Theorem run_intermediate_reaches authority g h1 bl ms1 ms2 s1 s2 :
  run authority g h1 = LOk s1 -> begin_block (blk_time bl) s1 = LOk s2 -> blk_msgs bl = ms1 ++ ms2 ->
  reaches g s1 /\ reaches g s2 /\ reaches g (deliver_all (block_env authority bl) ms1 s2).
Proof.
  intros H1 H2 _. pose proof (run_reaches _ _ _ _ H1) as R1.
  assert (R2 : reaches g s2) by (eapply reaches_begin; eassumption).
  split; [exact R1|]. split; [exact R2|]. eapply reaches_trans; [exact R2 | apply deliver_all_reaches].
Qed.

(* ------------------------------------------------------------------ *)
(* induction over reachability                                         *)
(* ------------------------------------------------------------------ *)

Theorem reaches_inv_rel (I : state -> Prop) (R : state -> state -> Prop) :
  (forall s, R s s) -> (forall a b c, R a b -> R b c -> R a c) ->
  (forall t s s', I s -> begin_block t s = LOk s' -> I s' /\ R s s') ->
  (forall e s m, I s -> I (deliver e s m).1 /\ R s (deliver e s m).1) ->
  forall s s', I s -> reaches s s' -> I s' /\ R s s'.
Proof.
  intros Hrefl Htrans Hbegin Hdel s s' Hs Hr.
  induction Hr as [|sa t sb _ IH Hb|sa e m _ IH].
  - split; [exact Hs | apply Hrefl].
  - destruct IH as [Ia Ra]. destruct (Hbegin _ _ _ Ia Hb) as [Ib Rb]. split; [exact Ib | eapply Htrans; eassumption].
  - destruct IH as [Ia Ra]. destruct (Hdel e _ m Ia) as [Ib Rb]. split; [exact Ib | eapply Htrans; eassumption].
Qed.

Corollary reaches_inv (I : state -> Prop) :
  (forall t s s', I s -> begin_block t s = LOk s' -> I s') ->
  (forall e s m, I s -> I (deliver e s m).1) ->
  forall s s', I s -> reaches s s' -> I s'.
Proof.
  intros Hb Hd s s' Hs Hr.
  refine (proj1 (reaches_inv_rel I (fun _ _ => True) (fun _ => Logic.I) (fun _ _ _ _ _ => Logic.I) _ _ s s' Hs Hr)).
  - intros t a b Ha Hab. split; [eapply Hb; eassumption | exact Logic.I].
  - intros e a m Ha. split; [apply Hd; exact Ha | exact Logic.I].
Qed.

(* a run never fails when begin-block never fails on states satisfying a preserved invariant *)
Theorem run_total_of (I : state -> Prop) authority :
  (forall t s, I s -> exists s', begin_block t s = LOk s' /\ I s') ->
  (forall e s m, I s -> I (deliver e s m).1) ->
  forall h s, I s -> exists s', run authority s h = LOk s' /\ I s'.
Proof.
  intros Hb Hd. unfold run. induction h as [|bl h IH]; intros s Hs; cbn [lfold]; [eauto|].
  rewrite run_block_unfold. destruct (Hb (blk_time bl) s Hs) as (s1 & H1 & I1). rewrite H1. cbn [lbind].
  apply IH. unfold deliver_all. clear H1. revert s1 I1.
  induction (blk_msgs bl) as [|m ms IHm]; intros s1 I1; cbn [fold_left]; [exact I1|].
  apply IHm. apply Hd. exact I1.
Qed.
