(* Assembly, C03 (ownership): ONE statement over all messages, and its lifting through the transaction rule
   and over histories.  The per-family theorems are Ledger/InvOwn.v (base module) and Ledger/InvAllOwn.v
   (basket, marketplace, begin-block); this file glues them together with the family partition
   (InvAllLib.msg_class_total) and an induction over the order list of BuyDirect.

   For every successful handler run [handle e s m = LOk (s', r, evs)] from a state satisfying [Inv_run], and
   every account [a] different from [signer m] (module accounts included, no hypothesis on the signer):
   (i)   a's tradable credits do not decrease, in any batch;
   (ii)  a's escrowed credits decrease only if m is a BuyDirect (of another account: a <> signer m = buyer);
   (iii) the escrow a loses is exactly the quantity by which a's own open sell orders for that batch shrank
         ([open_units] = Inv.order_sum, the sum C06 uses); for BuyDirect, no order is created, re-assigned or
         enlarged ([orders_shrink]), so this difference is the sum of the quantities filled from a's orders;
   (iv)  a's coins do not decrease, in any denom, unless a is the marketplace fee pool.  Basket tokens are bank
         coins whose denom is a basket denom, so (iv) covers them: there is no separate clause;
   (v)   the fee pool's coins decrease only by a GovSendFromFeePool whose signer is the governance authority.
         In the model the uregen fee is burnt right after it has been received by the pool, inside the same
         fill_order call (InvMarketFill.fill_order_spec: the pool's net change is 0 for uregen and +fee for every
         other denom), so BuyDirect never lowers the pool.

   Hypotheses.  [Inv_run s] (= Inv_core /\ Inv_bound /\ Inv_qty, preserved along every history:
   InvAllRun.reaches_preserves_run) and [validate_basic m = true] (the per-family theorems for Take and for the
   administrative messages need it; deliver checks it).  No module address has to be excluded from the
   signers for (i)-(iv): InvOwn.admin_bank assumes [signer m <> addr_ecocredit], which is only needed for its
   "module account nets to zero" clause; [admin_bank_others] below re-proves the part about third parties
   without it.  The one place where a module address matters is the reading of (v) as a statement about the
   pool alone: it is the instance a := addr_feepool, so it needs [addr_feepool <> signer m]
   ([fee_pool_all_messages]); a BankSend "signed by the fee pool" would of course lower the pool. *)
From stdpp Require Import gmap.
From RecordUpdate Require Import RecordSet.
From Coq Require Import ZArith NArith List Bool Lia Strings.Byte.
Require Import Regen.Base.Bytes Regen.Base.Calendar Regen.Dec.Dec.
Require Import Regen.Ledger.Types Regen.Ledger.Msgs Regen.Ledger.Orm Regen.Ledger.BaseMsgs
               Regen.Ledger.BasketMsgs Regen.Ledger.MarketMsgs Regen.Ledger.Step
               Regen.Ledger.Amount Regen.Ledger.MapSum Regen.Ledger.Inv Regen.Ledger.InvTactics.
Require Import Regen.Ledger.InvBaseLib Regen.Ledger.InvFrame Regen.Ledger.InvAdmin Regen.Ledger.InvBase
               Regen.Ledger.InvBridgeLib Regen.Ledger.InvBridge Regen.Ledger.InvIds Regen.Ledger.InvBasket Regen.Ledger.InvOwn.
Require Import Regen.Ledger.InvMarketLib Regen.Ledger.InvMarketPrim Regen.Ledger.InvMarketOrders
               Regen.Ledger.InvMarketBuy Regen.Ledger.InvMarketFill Regen.Ledger.InvMarket.
Require Import Regen.Ledger.InvAllLib Regen.Ledger.InvAllRun Regen.Ledger.InvAllOwn.
Import ListNotations RecordSetNotations.
Local Open Scope Z_scope.

(* ------------------------------------------------------------------ *)
(* escrow = open sell orders                                           *)
(* ------------------------------------------------------------------ *)

(* quantity of the open sell orders of seller a for batch k: the sum Inv_escrow (C06) equates with the escrow *)
Definition open_units (s : state) (a : addr) (k : N) : Z := order_sum a k (sell_orders s).

Lemma escrow_is_open s a k : Inv_escrow s -> U (bl_escrowed (get_balance s a k)) = open_units s a k.
Proof. intros He. apply He. Qed.

Lemma run_escrow s : Inv_run s -> Inv_escrow s.
Proof. intros ((_ & _ & _ & _ & He) & _). exact He. Qed.

(* no order is created, handed to another seller, moved to another batch, or enlarged *)
Definition orders_shrink (s s' : state) : Prop :=
  forall id o', sell_orders s' !! id = Some o' ->
    exists o, sell_orders s !! id = Some o /\ so_seller o' = so_seller o /\ so_batch_key o' = so_batch_key o /\
              order_units o' <= order_units o.

Lemma orders_shrink_refl s : orders_shrink s s.
Proof. intros id o Ho. exists o. split; [exact Ho|]. split; [reflexivity|]. split; [reflexivity | lia]. Qed.

Lemma orders_shrink_trans s1 s2 s3 : orders_shrink s1 s2 -> orders_shrink s2 s3 -> orders_shrink s1 s3.
Proof.
  intros A B id o3 H3. destruct (B id o3 H3) as (o2 & H2 & S2 & K2 & U2). destruct (A id o2 H2) as (o1 & H1 & S1 & K1 & U1).
  exists o1. split; [exact H1|]. split; [congruence|]. split; [congruence | lia].
Qed.

(* ------------------------------------------------------------------ *)
(* administrative messages: third parties, without excluding any signer *)
(* ------------------------------------------------------------------ *)

Lemma fold_burn_sup_bal cs : forall s a d,
  bank_bal (fold_left (fun s c => set_bank_sup (c_denom c) (bank_sup s (c_denom c) - c_amount c) s) cs s) a d = bank_bal s a d.
Proof. induction cs as [|c cs IH]; intros s a d; cbn [fold_left]; [reflexivity|]. rewrite IH. reflexivity. Qed.

Lemma burn_coins_bal module cs s s' : burn_coins module cs s = LOk s' ->
  forall a d, a <> module -> bank_bal s' a d = bank_bal s a d.
Proof.
  unfold burn_coins. destruct (negb _); [discriminate|]. intros H a d Hne. lstep H as s1 Hs1.
  inversion H; subst s'; clear H. rewrite fold_burn_sup_bal. eapply bank_sub_all_bal; eassumption.
Qed.

Lemma send_burn_others payer module cs s s1 s2 :
  send_coins payer module cs s = LOk s1 -> burn_coins module cs s1 = LOk s2 ->
  forall a d, a <> payer -> a <> module -> bank_bal s2 a d = bank_bal s a d.
Proof.
  intros H1 H2 a d Hp Hm. rewrite (burn_coins_bal _ _ _ _ H2 a d Hm).
  apply (send_coins_bal _ _ _ _ _ H1 a d Hp). exact Hm.
Qed.

Lemma charge_fee_others req off payer module s s' : charge_fee req off payer module s = LOk s' ->
  forall a d, a <> payer -> a <> module -> bank_bal s' a d = bank_bal s a d.
Proof.
  unfold charge_fee. intros H a d Hp Hm.
  destruct req as [rq|]; [|inversion H; reflexivity].
  destruct (negb (0 <? c_amount rq)); [inversion H; reflexivity|].
  destruct off as [o|]; [|discriminate].
  destruct (negb (bytes_eqb _ _)); [discriminate|]. destruct (negb (coin_gte _ _)); [discriminate|].
  destruct (_ <? _); [discriminate|]. lstep H as s1 Hs1.
  eapply send_burn_others; eassumption.
Qed.

(* what a successful administrative message does to the coins of an account that is neither the signer nor the
   ecocredit module account: they do not decrease, and those of a bank-blocked (module) account do not change *)
Lemma admin_bank_others e s m s' r evs :
  is_admin_msg m = true -> handle e s m = LOk (s', r, evs) ->
  forall a d, a <> signer m -> a <> addr_ecocredit ->
    bank_bal s a d <= bank_bal s' a d /\ (blocked_addr a = true -> bank_bal s' a d = bank_bal s a d).
Proof.
  intros Hm H.
  assert (Heq : forall t t' : state, bank t' = bank t ->
            forall a d, a <> signer m -> a <> addr_ecocredit ->
              bank_bal t a d <= bank_bal t' a d /\ (blocked_addr a = true -> bank_bal t' a d = bank_bal t a d)).
  { intros t t' E a d _ _. rewrite (bank_eq_bal _ _ E). split; [apply Z.le_refl | reflexivity]. }
  assert (Hsame : forall t t' : state,
            (forall a d, a <> signer m -> a <> addr_ecocredit -> bank_bal t' a d = bank_bal t a d) ->
            forall a d, a <> signer m -> a <> addr_ecocredit ->
              bank_bal t a d <= bank_bal t' a d /\ (blocked_addr a = true -> bank_bal t' a d = bank_bal t a d)).
  { intros t t' E a d H1 H2. rewrite (E a d H1 H2). split; [apply Z.le_refl | reflexivity]. }
  destruct m; try discriminate Hm; cbn [handle] in H; cbn [Msgs.signer] in Heq, Hsame |- *.
  - (* CreateClass *)
    unfold h_create_class in H.
    lstep H as u1 H1. lstep H as s1 Hs1. lstep H as ctv H2. cbv zeta in H. lstep H as u2 H3. lstep H as s2 Hs2.
    unfold ret in H. inversion H; subst s' r evs; clear H.
    apply insert_issuers_shape in Hs2. destruct Hs2 as (X & -> & _).
    assert (Hfee : forall a d, a <> admin -> a <> addr_ecocredit ->
              bank_bal s a d <= bank_bal s1 a d /\ (blocked_addr a = true -> bank_bal s1 a d = bank_bal s a d)).
    { apply Hsame. intros a d Ha Hb. eapply charge_fee_others; eassumption. }
    exact Hfee.
  - apply h_create_project_shape in H. destruct H as (ck & cl & _ & _ & _ & -> & _ & _). apply Heq. reflexivity.
  - unfold h_update_class_admin in H. lstep H as p1 H1. destruct p1 as [k c]. lstep H as u1 H2.
    unfold ret in H. inversion H; subst; clear H. apply Heq. reflexivity.
  - unfold h_update_class_issuers in H. lstep H as p1 H1. destruct p1 as [k c]. lstep H as u1 H2. lstep H as s2 Hs2.
    unfold ret in H. inversion H; subst; clear H.
    destruct (fold_remove_issuers_shape k remove s) as (Y & HY & _). rewrite HY in Hs2.
    apply insert_issuers_shape in Hs2. destruct Hs2 as (X & -> & _). apply Heq. reflexivity.
  - unfold h_update_class_metadata in H. lstep H as p1 H1. destruct p1 as [k c]. lstep H as u1 H2.
    unfold ret in H. inversion H; subst; clear H. apply Heq. reflexivity.
  - unfold h_update_project_admin in H. lstep H as p1 H1. destruct p1 as [k p]. lstep H as u1 H2.
    unfold ret in H. inversion H; subst; clear H. apply Heq. reflexivity.
  - unfold h_update_project_metadata in H. lstep H as p1 H1. destruct p1 as [k p]. lstep H as u1 H2.
    unfold ret in H. inversion H; subst; clear H. apply Heq. reflexivity.
  - unfold h_add_credit_type in H. lstep H as u1 H1. lstep H as u2 H2. lstep H as u3 H3.
    unfold ret in H. inversion H; subst; clear H. apply Heq. reflexivity.
  - unfold h_set_allowlist in H. lstep H as u1 H1. unfold ret in H. inversion H; subst; clear H. apply Heq. reflexivity.
  - unfold h_add_class_creator in H. lstep H as u1 H1. lstep H as u2 H2. unfold ret in H. inversion H; subst; clear H. apply Heq. reflexivity.
  - unfold h_remove_class_creator in H. lstep H as u1 H1. lstep H as u2 H2. unfold ret in H. inversion H; subst; clear H. apply Heq. reflexivity.
  - unfold h_update_class_fee in H. lstep H as u1 H1. unfold ret in H. inversion H; subst; clear H. apply Heq. reflexivity.
  - unfold h_add_allowed_bridge_chain in H. lstep H as u1 H1. lstep H as u2 H2. unfold ret in H. inversion H; subst; clear H. apply Heq. reflexivity.
  - unfold h_remove_allowed_bridge_chain in H. lstep H as u1 H1. unfold ret in H. inversion H; subst; clear H. apply Heq. reflexivity.
  - (* BurnRegen: the burner's coins go to the module account and are burned there *)
    unfold h_burn_regen in H. lstep H as amt H1. lstep H as u1 H2. lstep H as cns H3. lstep H as s1 Hs1. lstep H as s2 Hs2.
    unfold ret in H. inversion H; subst s' r evs; clear H.
    apply Hsame. intros a d Ha Hb. eapply send_burn_others; eassumption.
  - (* BankSend: the recipient gains, and the bank refuses to send to a blocked address *)
    destruct (blocked_addr to) eqn:Eb; [discriminate|]. lstep H as s1 Hs1. unfold ret in H. inversion H; subst s' r evs; clear H.
    intros a d Ha _. destruct (send_coins_bal _ _ _ _ _ Hs1 a d Ha) as [Hle Hother].
    split; [exact Hle|]. intros Hblk. apply Hother. intros ->. congruence.
  - discriminate H.
Qed.

(* ------------------------------------------------------------------ *)
(* BuyDirect: induction over the order list                            *)
(* ------------------------------------------------------------------ *)

(* what a BuyDirect (one order, or the whole list) does to everybody but the buyer: tradable credits are
   untouched, coins do not decrease (the sellers are paid, the fee pool collects), orders only shrink *)
Definition buy_rel (buyer : addr) (s s' : state) : Prop :=
  (forall a k, a <> buyer -> bl_tradable (get_balance s' a k) = bl_tradable (get_balance s a k)) /\
  (forall a d, a <> buyer -> bank_bal s a d <= bank_bal s' a d) /\
  orders_shrink s s'.

Lemma buy_rel_refl buyer s : buy_rel buyer s s.
Proof. split; [reflexivity|]. split; [intros; apply Z.le_refl | apply orders_shrink_refl]. Qed.

Lemma buy_rel_trans buyer s1 s2 s3 : buy_rel buyer s1 s2 -> buy_rel buyer s2 s3 -> buy_rel buyer s1 s3.
Proof.
  intros (A1 & A2 & A3) (B1 & B2 & B3). split; [|split].
  - intros a k Ha. rewrite (B1 a k Ha). apply A1. exact Ha.
  - intros a d Ha. pose proof (A2 a d Ha). pose proof (B2 a d Ha). lia.
  - eapply orders_shrink_trans; eassumption.
Qed.

Lemma buy_one_rel e buyer s rq s' :
  Inv_core s /\ Inv_bound s -> buy_one e buyer s rq = LOk s' -> (Inv_core s' /\ Inv_bound s') /\ buy_rel buyer s s'.
Proof.
  intros [Hc Hb] H.
  pose proof (buy_one_step _ _ _ _ _ Hc Hb H) as (Hc' & Hmf & _).
  split; [split; [exact Hc' | eapply mframe_bound; eassumption]|].
  destruct (buy_one_inv _ _ _ _ _ (proj1 Hc) H)
    as (o & ba & ct & q & mk & bid & subtotal & brate & bfee & total & total_cost & fee_trunc & Ho & Hne & _ & _ & _ & _ &
        Hq & Hpos & _ & _ & _ & _ & _ & _ & _ & _ & _ & _ & _ & _ & Hfill).
  destruct (fill_order_ownership _ _ _ _ _ _ _ _ _ _ Hc Hb Ho Hq Hpos Hne Hfill)
    as (Hoth & _ & HT & _ & _ & fee & pay & _ & _ & Hbank & _).
  destruct (fill_order_spec _ _ _ _ _ _ _ _ _ _ Hc Hb Ho Hq Hpos Hne Hfill) as (_ & Hoo & Hid & _).
  split; [|split].
  - intros a k Ha. destruct (decide ((a, k) = (so_seller o, so_batch_key o))) as [Heq|Hn].
    + inversion Heq; subst a k. exact HT.
    + rewrite (Hoth a k Ha Hn). reflexivity.
  - exact Hbank.
  - intros id o' Ho'. destruct (decide (id = by_id rq)) as [->|Hn].
    + rewrite Ho' in Hid. destruct Hid as (Hu & (_ & Hk & _) & Hs & _).
      exists o. split; [exact Ho|]. split; [exact Hs|]. split; [exact Hk | lia].
    + rewrite (Hoo id Hn) in Ho'. exists o'. split; [exact Ho'|]. split; [reflexivity|]. split; [reflexivity | lia].
Qed.

Lemma buy_direct_rel e s buyer orders s' r evs :
  Inv_core s -> Inv_bound s -> handle e s (MBuyDirect buyer orders) = LOk (s', r, evs) -> buy_rel buyer s s'.
Proof.
  intros Hc Hb H. cbn [handle] in H. unfold h_buy_direct in H. lstep H as s1 Hs1.
  unfold ret in H. inversion H; subst s' r evs; clear H.
  refine (proj2 (lfold_rel (buy_one e buyer) (fun x => Inv_core x /\ Inv_bound x) (buy_rel buyer)
                   (buy_rel_refl buyer) (buy_rel_trans buyer) _ orders s s1 (conj Hc Hb) Hs1)).
  intros a x a' Ha Hf. eapply buy_one_rel; eassumption.
Qed.

(* ------------------------------------------------------------------ *)
(* one successful message, every family                                *)
(* ------------------------------------------------------------------ *)

(* the disjunctive core of the theorem: for a non-signer, tradable credits never fall; the escrow row is
   unchanged unless the message is a BuyDirect; coins never fall unless the account is the fee pool and the
   message a GovSendFromFeePool signed by the authority *)
Lemma nonsigner_step e s m s' r evs :
  Inv_run s -> validate_basic m = true -> handle e s m = LOk (s', r, evs) ->
  forall a, a <> signer m ->
    (forall k, U (bl_tradable (get_balance s a k)) <= U (bl_tradable (get_balance s' a k))) /\
    ((exists buyer orders, m = MBuyDirect buyer orders) \/
     (forall k, U (bl_escrowed (get_balance s' a k)) = U (bl_escrowed (get_balance s a k)))) /\
    ((a = addr_feepool /\ exists authority recipient coins,
         m = MGovSendFromFeePool authority recipient coins /\ authority = e_authority e) \/
     (forall d, bank_bal s a d <= bank_bal s' a d)).
Proof.
  intros Hrun Hvb H a Ha. pose proof Hrun as (Hc & Hb & Hq).
  destruct (handle_preserves_run _ _ _ _ _ _ Hrun Hvb H) as [Hrun' _].
  pose proof (run_escrow _ Hrun) as He. pose proof (run_escrow _ Hrun') as He'.
  destruct (msg_cases m) as [Hm|[Hm|[Hm|Hm]]].
  - (* base credit messages: holdings do not fall, the order book is untouched, no coins move *)
    destruct (base_preserves_basket _ _ _ _ _ _ Hm H) as (_ & _ & Ebank & _ & Hso).
    pose proof (credit_msgs_own _ _ _ _ _ _ Hm Hc H) as Hown.
    assert (Hesc : forall k, U (bl_escrowed (get_balance s' a k)) = U (bl_escrowed (get_balance s a k))).
    { intros k. rewrite (He' a k), (He a k), Hso. reflexivity. }
    split; [|split].
    + intros k. specialize (Hown a k Ha). unfold holdings in Hown. specialize (Hesc k). lia.
    + right. exact Hesc.
    + right. intros d. rewrite (bank_eq_bal _ _ Ebank). apply Z.le_refl.
  - (* administrative messages: no credit row changes *)
    pose proof (admin_credit_frame _ _ _ _ _ _ Hm Hvb H) as F.
    assert (Hrow : forall k, get_balance s' a k = get_balance s a k).
    { intros k. unfold get_balance. rewrite (cf_balances _ _ F). reflexivity. }
    split; [|split].
    + intros k. rewrite Hrow. apply Z.le_refl.
    + right. intros k. rewrite Hrow. reflexivity.
    + right. intros d. destruct (decide (a = addr_ecocredit)) as [->|Hne].
      * assert (Hsig : signer m <> addr_ecocredit) by congruence.
        destruct (admin_bank _ _ _ _ _ _ Hm Hsig H) as [_ B2]. rewrite B2. apply Z.le_refl.
      * apply (admin_bank_others _ _ _ _ _ _ Hm H a d Ha Hne).
  - (* basket messages: nothing of a non-signer changes *)
    destruct (basket_ownership _ _ _ _ _ _ Hm Hc Hvb H) as [Hrow Hbank].
    split; [|split].
    + intros k. rewrite (Hrow a k Ha). apply Z.le_refl.
    + right. intros k. rewrite (Hrow a k Ha). reflexivity.
    + right. intros d. rewrite (Hbank a d Ha). apply Z.le_refl.
  - (* marketplace messages *)
    assert (Hquiet : (forall a0 k, a0 <> signer m -> get_balance s' a0 k = get_balance s a0 k) /\ bank s' = bank s ->
              (forall k, U (bl_tradable (get_balance s a k)) <= U (bl_tradable (get_balance s' a k))) /\
              ((exists buyer orders, m = MBuyDirect buyer orders) \/
               (forall k, U (bl_escrowed (get_balance s' a k)) = U (bl_escrowed (get_balance s a k)))) /\
              ((a = addr_feepool /\ exists authority recipient coins,
                   m = MGovSendFromFeePool authority recipient coins /\ authority = e_authority e) \/
               (forall d, bank_bal s a d <= bank_bal s' a d))).
    { intros [Hrow Ebank]. split; [|split].
      - intros k. rewrite (Hrow a k Ha). apply Z.le_refl.
      - right. intros k. rewrite (Hrow a k Ha). reflexivity.
      - right. intros d. rewrite (bank_eq_bal _ _ Ebank). apply Z.le_refl. }
    destruct m; try discriminate Hm.
    + apply Hquiet. eapply market_quiet_ownership; [exact I | exact H].
    + apply Hquiet. eapply market_quiet_ownership; [exact I | exact H].
    + apply Hquiet. eapply market_quiet_ownership; [exact I | exact H].
    + (* BuyDirect *)
      cbn [signer] in Ha.
      destruct (buy_direct_rel _ _ _ _ _ _ _ Hc Hb H) as (HT & Hbank & _).
      split; [|split].
      * intros k. rewrite (HT a k Ha). apply Z.le_refl.
      * left. eauto.
      * right. intros d. apply Hbank. exact Ha.
    + apply Hquiet. eapply market_quiet_ownership; [exact I | exact H].
    + apply Hquiet. eapply market_quiet_ownership; [exact I | exact H].
    + apply Hquiet. eapply market_quiet_ownership; [exact I | exact H].
    + (* GovSendFromFeePool *)
      destruct (fee_pool_ownership _ _ _ _ _ _ _ _ H) as (Hauth & Ebal & Hbank).
      split; [|split].
      * intros k. unfold get_balance. rewrite Ebal. apply Z.le_refl.
      * right. intros k. unfold get_balance. rewrite Ebal. reflexivity.
      * destruct (decide (a = addr_feepool)) as [Hfp|Hfp].
        -- left. split; [exact Hfp|]. eauto.
        -- right. intros d. apply Hbank. exact Hfp.
Qed.

(* C03, one statement for every message *)
Theorem ownership_all_messages e s m s' r evs :
  Inv_run s -> validate_basic m = true -> handle e s m = LOk (s', r, evs) ->
  forall a, a <> signer m ->
    (* (i) tradable credits never decrease *)
    (forall k, U (bl_tradable (get_balance s a k)) <= U (bl_tradable (get_balance s' a k))) /\
    (* (ii) only a BuyDirect (signed by the buyer, who is not a) lowers the escrow *)
    (forall k, U (bl_escrowed (get_balance s' a k)) < U (bl_escrowed (get_balance s a k)) ->
               exists buyer orders, m = MBuyDirect buyer orders) /\
    (* (iii) and then by exactly the quantity by which a's own open sell orders for the batch shrank *)
    (forall k, U (bl_escrowed (get_balance s a k)) - U (bl_escrowed (get_balance s' a k)) =
               open_units s a k - open_units s' a k) /\
    (* (iv) coins (basket tokens included) never decrease, the fee pool excepted *)
    (forall d, a <> addr_feepool -> bank_bal s a d <= bank_bal s' a d) /\
    (* (v) the exception: the fee pool, by a GovSendFromFeePool of the authority *)
    (forall d, bank_bal s' a d < bank_bal s a d ->
               a = addr_feepool /\ exists authority recipient coins,
                 m = MGovSendFromFeePool authority recipient coins /\ authority = e_authority e).
Proof.
  intros Hrun Hvb H a Ha.
  destruct (nonsigner_step _ _ _ _ _ _ Hrun Hvb H a Ha) as (HT & HE & HB).
  destruct (handle_preserves_run _ _ _ _ _ _ Hrun Hvb H) as [Hrun' _].
  split; [exact HT|]. split; [|split; [|split]].
  - intros k Hlt. destruct HE as [Hbuy|Heq]; [exact Hbuy|]. specialize (Heq k). lia.
  - intros k. rewrite (escrow_is_open s a k (run_escrow _ Hrun)), (escrow_is_open s' a k (run_escrow _ Hrun')). reflexivity.
  - intros d Hfp. destruct HB as [[Hx _]|Hle]; [contradiction | apply Hle].
  - intros d Hlt. destruct HB as [Hgov|Hle]; [exact Hgov|]. specialize (Hle d). lia.
Qed.
Print Assumptions ownership_all_messages.

(* (iii), continued: in a BuyDirect every order of the post-state is an order of the pre-state with the same id,
   seller and batch and a quantity that is not larger, so [open_units s a k - open_units s' a k] is the total
   filled from a's own orders for batch k (by any of the orders of the message: the seller of one may be the
   seller of another) *)
Theorem buy_direct_orders_shrink e s buyer orders s' r evs :
  Inv_run s -> handle e s (MBuyDirect buyer orders) = LOk (s', r, evs) -> orders_shrink s s'.
Proof. intros (Hc & Hb & _) H. apply (buy_direct_rel _ _ _ _ _ _ _ Hc Hb H). Qed.
Print Assumptions buy_direct_orders_shrink.

(* (v) read for the pool alone: "no user can sign for it" is the hypothesis *)
Corollary fee_pool_all_messages e s m s' r evs :
  Inv_run s -> validate_basic m = true -> handle e s m = LOk (s', r, evs) -> signer m <> addr_feepool ->
  forall d, bank_bal s' addr_feepool d < bank_bal s addr_feepool d ->
    exists authority recipient coins, m = MGovSendFromFeePool authority recipient coins /\ authority = e_authority e.
Proof.
  intros Hrun Hvb H Hsig d Hlt.
  assert (Ha : addr_feepool <> signer m) by congruence.
  destruct (ownership_all_messages _ _ _ _ _ _ Hrun Hvb H addr_feepool Ha) as (_ & _ & _ & _ & Hv).
  exact (proj2 (Hv d Hlt)).
Qed.
Print Assumptions fee_pool_all_messages.

(* the module accounts "net to zero": outside the marketplace family, a message that is not signed by the
   ecocredit module account leaves the coins of every bank-blocked address it is not signed by (the ecocredit,
   basket and fee-pool module accounts among them) exactly as they were: the fees and basket tokens that pass
   through a module account are burnt, or minted, in the same message *)
Theorem module_accounts_net_zero e s m s' r evs :
  Inv_run s -> validate_basic m = true -> handle e s m = LOk (s', r, evs) ->
  is_market_msg m = false -> signer m <> addr_ecocredit ->
  forall a d, blocked_addr a = true -> a <> signer m -> bank_bal s' a d = bank_bal s a d.
Proof.
  intros (Hc & _ & _) Hvb H Hmk Hsig a d Hblk Ha.
  destruct (msg_cases m) as [Hm|[Hm|[Hm|Hm]]]; [| | |congruence].
  - destruct (base_preserves_basket _ _ _ _ _ _ Hm H) as (_ & _ & Ebank & _). apply bank_eq_bal. exact Ebank.
  - destruct (decide (a = addr_ecocredit)) as [->|Hne].
    + apply (proj2 (admin_bank _ _ _ _ _ _ Hm Hsig H)).
    + apply (proj2 (admin_bank_others _ _ _ _ _ _ Hm H a d Ha Hne)). exact Hblk.
  - apply (proj2 (basket_ownership _ _ _ _ _ _ Hm Hc Hvb H)). exact Ha.
Qed.
Print Assumptions module_accounts_net_zero.

Example module_accounts_blocked :
  blocked_addr addr_ecocredit = true /\ blocked_addr addr_basket = true /\ blocked_addr addr_feepool = true.
Proof. repeat split. Qed.

(* ------------------------------------------------------------------ *)
(* through the transaction rule: failed and invalid messages too       *)
(* ------------------------------------------------------------------ *)

Theorem ownership_deliver e s m :
  Inv_run s -> forall a, a <> signer m ->
    let s' := (deliver e s m).1 in
    (forall k, U (bl_tradable (get_balance s a k)) <= U (bl_tradable (get_balance s' a k))) /\
    (forall k, U (bl_escrowed (get_balance s' a k)) < U (bl_escrowed (get_balance s a k)) ->
               exists buyer orders, m = MBuyDirect buyer orders) /\
    (forall k, U (bl_escrowed (get_balance s a k)) - U (bl_escrowed (get_balance s' a k)) =
               open_units s a k - open_units s' a k) /\
    (forall d, a <> addr_feepool -> bank_bal s a d <= bank_bal s' a d) /\
    (forall d, bank_bal s' a d < bank_bal s a d ->
               a = addr_feepool /\ exists authority recipient coins,
                 m = MGovSendFromFeePool authority recipient coins /\ authority = e_authority e).
Proof.
  intros Hrun a Ha. cbv zeta.
  apply (deliver_lift (fun s0 s1 =>
    (forall k, U (bl_tradable (get_balance s0 a k)) <= U (bl_tradable (get_balance s1 a k))) /\
    (forall k, U (bl_escrowed (get_balance s1 a k)) < U (bl_escrowed (get_balance s0 a k)) ->
               exists buyer orders, m = MBuyDirect buyer orders) /\
    (forall k, U (bl_escrowed (get_balance s0 a k)) - U (bl_escrowed (get_balance s1 a k)) =
               open_units s0 a k - open_units s1 a k) /\
    (forall d, a <> addr_feepool -> bank_bal s0 a d <= bank_bal s1 a d) /\
    (forall d, bank_bal s1 a d < bank_bal s0 a d ->
               a = addr_feepool /\ exists authority recipient coins,
                 m = MGovSendFromFeePool authority recipient coins /\ authority = e_authority e))).
  - split; [intros; apply Z.le_refl|]. split; [intros k Hlt; lia|]. split; [intros k; lia|].
    split; [intros; apply Z.le_refl | intros d Hlt; lia].
  - intros s' r evs Hvb H. exact (ownership_all_messages _ _ _ _ _ _ Hrun Hvb H a Ha).
Qed.
Print Assumptions ownership_deliver.

Corollary fee_pool_deliver e s m :
  Inv_run s -> signer m <> addr_feepool ->
  forall d, bank_bal (deliver e s m).1 addr_feepool d < bank_bal s addr_feepool d ->
    exists authority recipient coins, m = MGovSendFromFeePool authority recipient coins /\ authority = e_authority e.
Proof.
  intros Hrun Hsig d Hlt. assert (Ha : addr_feepool <> signer m) by congruence.
  destruct (ownership_deliver e s m Hrun addr_feepool Ha) as (_ & _ & _ & _ & Hv). exact (proj2 (Hv d Hlt)).
Qed.
Print Assumptions fee_pool_deliver.

(* ------------------------------------------------------------------ *)
(* over histories                                                      *)
(* ------------------------------------------------------------------ *)

(* every message of every history: the pre-state of a message delivered anywhere in a history that starts in
   a genesis satisfying Inv_run is reachable, and Inv_run holds there *)
Theorem ownership_reachable g s e m :
  Inv_run g -> reaches g s -> forall a, a <> signer m ->
    let s' := (deliver e s m).1 in
    (forall k, U (bl_tradable (get_balance s a k)) <= U (bl_tradable (get_balance s' a k))) /\
    (forall k, U (bl_escrowed (get_balance s' a k)) < U (bl_escrowed (get_balance s a k)) ->
               exists buyer orders, m = MBuyDirect buyer orders) /\
    (forall k, U (bl_escrowed (get_balance s a k)) - U (bl_escrowed (get_balance s' a k)) =
               open_units s a k - open_units s' a k) /\
    (forall d, a <> addr_feepool -> bank_bal s a d <= bank_bal s' a d) /\
    (forall d, bank_bal s' a d < bank_bal s a d ->
               a = addr_feepool /\ exists authority recipient coins,
                 m = MGovSendFromFeePool authority recipient coins /\ authority = e_authority e).
Proof. intros Hg Hr. apply ownership_deliver. apply (reaches_preserves_run g s Hg Hr). Qed.
Print Assumptions ownership_reachable.

(* block-level processing, at every point of every history: expiry only moves an account's own credits from
   escrow back to tradable, by exactly the quantity of its orders that left the book *)
Theorem begin_block_reachable g s t s' :
  Inv_run g -> reaches g s -> begin_block t s = LOk s' ->
  (forall a k, holdings s' a k = holdings s a k) /\
  (forall a k, U (bl_tradable (get_balance s a k)) <= U (bl_tradable (get_balance s' a k))) /\
  (forall a k, U (bl_escrowed (get_balance s a k)) - U (bl_escrowed (get_balance s' a k)) =
               open_units s a k - open_units s' a k) /\
  bank s' = bank s.
Proof.
  intros Hg Hr H. destruct (reaches_preserves_run g s Hg Hr) as [Hrun _].
  destruct (begin_block_preserves_run _ _ _ Hrun H) as [Hrun' _].
  destruct (begin_block_ownership t s s' (proj1 Hrun) H) as (H1 & H2 & _ & H4).
  split; [exact H1|]. split; [exact H2|]. split; [|exact H4].
  intros a k. rewrite (escrow_is_open s a k (run_escrow _ Hrun)), (escrow_is_open s' a k (run_escrow _ Hrun')). reflexivity.
Qed.
Print Assumptions begin_block_reachable.

(* a stretch of history in which account a signs nothing: begin-blocks, and deliveries (successful or not) of
   messages signed by others -- BuyDirects that fill a's orders and GovSendFromFeePool included *)
Inductive reaches_unsigned (a : addr) (s : state) : state -> Prop :=
| ru_refl : reaches_unsigned a s s
| ru_begin s1 t s2 : reaches_unsigned a s s1 -> begin_block t s1 = LOk s2 -> reaches_unsigned a s s2
| ru_deliver s1 e m : reaches_unsigned a s s1 -> a <> signer m -> reaches_unsigned a s (deliver e s1 m).1.

Lemma reaches_unsigned_reaches a s s' : reaches_unsigned a s s' -> reaches s s'.
Proof.
  intros Hr. induction Hr as [|s1 t s2 _ IH Hb|s1 e m _ IH _].
  - apply reaches_refl.
  - eapply reaches_begin; eassumption.
  - apply reaches_deliver. exact IH.
Qed.

(* along it, whatever a holds outside its own sell orders is never taken away: tradable credits never decrease
   and, unless a is the fee pool, coins never decrease; and at both ends a's escrow is exactly what its open
   sell orders offer, so escrowed credits leave only by being sold or by coming back as tradable *)
Theorem ownership_history a s s' :
  Inv_run s -> reaches_unsigned a s s' ->
  (forall k, U (bl_tradable (get_balance s a k)) <= U (bl_tradable (get_balance s' a k))) /\
  (a <> addr_feepool -> forall d, bank_bal s a d <= bank_bal s' a d) /\
  (forall k, U (bl_escrowed (get_balance s a k)) = open_units s a k /\
             U (bl_escrowed (get_balance s' a k)) = open_units s' a k).
Proof.
  intros Hrun Hr.
  assert (Hrun' : Inv_run s') by (apply (reaches_preserves_run s s' Hrun (reaches_unsigned_reaches _ _ _ Hr))).
  assert (Hmain : (forall k, U (bl_tradable (get_balance s a k)) <= U (bl_tradable (get_balance s' a k))) /\
                  (a <> addr_feepool -> forall d, bank_bal s a d <= bank_bal s' a d)).
  { clear Hrun'. induction Hr as [|s1 t s2 Hr1 IH Hb|s1 e m Hr1 IH Hsig].
    - split; intros; apply Z.le_refl.
    - destruct IH as [I1 I2].
      destruct (reaches_preserves_run s s1 Hrun (reaches_unsigned_reaches _ _ _ Hr1)) as [Hrun1 _].
      destruct (begin_block_ownership t s1 s2 (proj1 Hrun1) Hb) as (_ & H2 & _ & H4).
      split.
      + intros k. specialize (I1 k). specialize (H2 a k). lia.
      + intros Hfp d. rewrite (bank_eq_bal _ _ H4). apply I2. exact Hfp.
    - destruct IH as [I1 I2].
      destruct (reaches_preserves_run s s1 Hrun (reaches_unsigned_reaches _ _ _ Hr1)) as [Hrun1 _].
      destruct (ownership_deliver e s1 m Hrun1 a Hsig) as (D1 & _ & _ & D4 & _).
      split.
      + intros k. specialize (I1 k). specialize (D1 k). lia.
      + intros Hfp d. specialize (I2 Hfp d). specialize (D4 d Hfp). lia. }
  destruct Hmain as [M1 M2]. split; [exact M1|]. split; [exact M2|].
  intros k. split; apply escrow_is_open; apply run_escrow; assumption.
Qed.
Print Assumptions ownership_history.

(* ------------------------------------------------------------------ *)
(* the hypotheses are satisfiable                                      *)
(* ------------------------------------------------------------------ *)

Example ownership_hyps_satisfiable : Inv_run empty_state.
Proof. destruct market_hyps_satisfiable as (H1 & H2 & H3 & _). split; [exact H1 | split; assumption]. Qed.
