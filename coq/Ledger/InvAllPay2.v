(* Assembly, C07: the coins of one filled order as closed formulas over Q in the message's own quantities.

   C07_buy_one / C07_fill_order (Properties/C07.v; InvMarketFill.v) name the decimals a purchase computes:
     subtotal  st      = getSubTotalCost(ask, q) = Mul(q, ask)                       (sub_total_cost)
     buyer fee bf      = Mul(st, buyer rate)
     total             = Add(st, bf);   total_cost = SdkIntTrim(total)               (funds check)
     fee_trunc         = SdkIntTrim(bf)                                              (max-fee check)
     seller fee sfee   = Mul(st, seller rate)
     total fee tfee    = Add(bf, sfee);  fee = SdkIntTrim(tfee) when tfee > 0, else 0   (fee_amount)
     payment           = Sub(st, sfee);  pay = SdkIntTrim(payment)
   and the bank flow: buyer - (fee + pay), seller + pay, fee pool + fee (uregen: burnt instead).

   Here, with X = quantity * ask (exact), b = buyer rate, r = seller rate (rationals):
     sub_total_cost_unfold       getSubTotalCost is Mul(q, dec_of_int ask) and needs ask > 0.
     mul_le_left                 Mul(a, c) <= a for 0 <= c <= 1 and a >= 0 of at most 34 digits (so payment >= 0).
     settlement_decimals         per-operation facts about all the decimals above, and
                                 total_cost - 1 <= fee + pay <= total_cost (no error term: Add/Sub are exact,
                                 tfee + payment = total).
     settlement_exact_values     when none of the three Mul rounds (MulExact gives the same result):
                                 pay = floor(X(1-r)), fee = floor(X(b+r)), total_cost = floor(X(1+b)),
                                 fee_trunc = floor(X b), X(1+b) - 2 < fee + pay <= X(1+b).
     max_fee_exact               floor(X b) <= stated max fee (0 if absent).
     settlement_rounded_values   in general (each Mul correct to 34 significant digits, half up): the same with
                                 explicit error terms u_d = 1/2 * 10^(exponent of the rounded result d).
     settlement_example*         concrete numbers; fee + pay = total_cost - 1 does occur.
     rounded_debit_exceeds_exact_total
                                 when a Mul rounds, "buyer debited at most X(1+b)" fails (by < E_tot; finding F9).
   All need seller rate <= 1 (MsgGovSetFeeParams.ValidateBasic enforces it, Step.validate_basic); without it
   the payment can be negative.

   The hypotheses are the equations C07_buy_one and C07_fill_order produce.  Proof file. *)
From stdpp Require Import gmap.
From RecordUpdate Require Import RecordSet.
From Coq Require Import ZArith NArith List Bool Lia QArith Qabs Qpower Lqa Strings.Byte Strings.String.
Require Import Regen.Base.Bytes Regen.Base.Calendar Regen.Dec.Dec Regen.Dec.DecLemmas Regen.Dec.DecIface
               Regen.Dec.DecProps Regen.Dec.DecRound.
Require Import Regen.Ledger.Types Regen.Ledger.Msgs Regen.Ledger.Orm Regen.Ledger.BaseMsgs
               Regen.Ledger.MarketMsgs Regen.Ledger.Amount Regen.Ledger.InvTactics
               Regen.Ledger.InvMarketFill Regen.Ledger.InvAllPay.
Import ListNotations RecordSetNotations.
Local Open Scope Z_scope.
Local Arguments b s%string_scope.

(* ------------------------------------------------------------------ *)
(* The unit price: the ask amount, read back from its decimal string   *)
(* ------------------------------------------------------------------ *)

Lemma finish_nil neg c d : finish neg c [] = Ok d -> d = mkDec neg c 0.
Proof.
  unfold finish, bind. intro H.
  destruct (set_exponent (mkDec neg c 0) []) as [d1|] eqn:E1; [|discriminate].
  destruct (round0 d1) as [d2|] eqn:E2; [|discriminate].
  destruct (dcoef d2 <? 0); [discriminate|]. injection H as <-.
  apply round0_inv in E2. subst d2.
  apply set_exponent_inv in E1. destruct E1 as (N1 & C1 & X1 & _). cbn [dneg dcoef] in N1, C1.
  change (zsum []) with 0 in X1. destruct d1; cbn in *; congruence.
Qed.

(* PositiveFixedDecFromString(ask.String(), n) succeeds only for a positive ask and yields the integer itself *)
Lemma posfixed_int_price ask p price :
  positive_fixed_dec_from_string (Z_to_dec ask) p = Ok price -> 0 < ask /\ price = mkDec false ask 0.
Proof.
  unfold positive_fixed_dec_from_string, bind. intro H.
  destruct (positive_dec_from_string (Z_to_dec ask)) as [d0|] eqn:E; [|discriminate].
  destruct (num_decimal_places d0 >? p); [discriminate|]. injection H as <-.
  apply positive_inv in E. destruct E as [Hp Hpos].
  destruct (Z_lt_le_dec ask 0) as [Hneg|Hnn].
  - exfalso. unfold Z_to_dec in Hp. apply Z.ltb_lt in Hneg. rewrite Hneg in Hp.
    destruct (N_to_dec_spec (Z.to_N (- ask))) as (Hne & Hall & _).
    destruct (N_to_dec (Z.to_N (- ask))) as [|f rest]; [congruence|].
    cbn [forallb] in Hall. apply andb_true_iff in Hall. destruct Hall as [Hf Hr].
    pose proof (parse_plain true f rest Hf (digits_plain rest Hr)) as Hpp. cbv iota in Hpp.
    rewrite Hpp in Hp. apply parse_finite_inv in Hp. destruct Hp as [Hn _].
    unfold is_positive in Hpos. rewrite Hn in Hpos. discriminate Hpos.
  - destruct (Z_to_dec_spec ask Hnn) as (Hne & Hall & Hval).
    destruct (Z_to_dec ask) as [|f rest] eqn:Ez; [congruence|].
    pose proof Hall as Hall'. cbn [forallb] in Hall'. apply andb_true_iff in Hall'. destruct Hall' as [Hf Hr].
    pose proof (parse_plain false f rest Hf (digits_plain rest Hr)) as Hpp. cbv iota in Hpp.
    change ([] ++ f :: rest) with (f :: rest) in Hpp. rewrite Hpp in Hp.
    rewrite (pf_nopoint false (f :: rest) Hne Hall), Hval in Hp.
    apply finish_nil in Hp. subst d0. split; [|reflexivity].
    unfold is_positive, is_zero in Hpos. cbn [dneg dcoef negb andb] in Hpos.
    apply negb_true_iff in Hpos. apply Z.eqb_neq in Hpos. lia.
Qed.

Lemma dec_of_int_pos ask : 0 < ask -> dec_of_int ask = mkDec false ask 0.
Proof.
  intro H. unfold dec_of_int. replace (ask <? 0) with false by (symmetry; apply Z.ltb_ge; lia).
  rewrite Z.abs_eq by lia. reflexivity.
Qed.

Lemma dval_dec_of_int ask : (dval (dec_of_int ask) == inject_Z ask)%Q.
Proof.
  rewrite dval_eq. unfold dec_of_int, dint. cbn [dneg dcoef dexp].
  setoid_replace (q10 ^ 0)%Q with 1%Q by reflexivity. rewrite Qmult_1_r.
  destruct (ask <? 0) eqn:E; [apply Z.ltb_lt in E | apply Z.ltb_ge in E].
  - rewrite Z.abs_neq by lia. rewrite Z.opp_involutive. reflexivity.
  - rewrite Z.abs_eq by lia. reflexivity.
Qed.

Lemma dec_of_int_wf ask : dwf (dec_of_int ask).
Proof. unfold dwf, dec_of_int. cbn [dcoef]. lia. Qed.

(* getSubTotalCost is Mul(quantity, ask amount), and succeeds only for a positive ask amount *)
Theorem sub_total_cost_unfold ask q st :
  sub_total_cost ask q = LOk st -> 0 < ask /\ mul q (dec_of_int ask) = Ok st.
Proof.
  intro H. unfold sub_total_cost in H. lstep H as price Hp. apply lift_ok in H.
  apply posfixed_int_price in Hp. destruct Hp as [Hpos ->].
  split; [exact Hpos|]. rewrite dec_of_int_pos by exact Hpos. exact H.
Qed.
Print Assumptions sub_total_cost_unfold.


(* ------------------------------------------------------------------ *)
(* Signs, truncation of non-negative decimals                          *)
(* ------------------------------------------------------------------ *)

Lemma in_ok_dval q : in_ok q -> dwf q /\ (0 <= dval q)%Q.
Proof.
  intros (Hc & Hn & _). split; [exact Hc|]. apply dval_sign. unfold dint.
  destruct (dneg q) eqn:E; [rewrite (Hn eq_refl); lia | exact Hc].
Qed.

Lemma mul_exact_mul a c r : mul_exact a c = Ok r -> mul a c = Ok r.
Proof.
  unfold mul_exact, mul, bind. destruct (mul_ctx a c) as [[d rounded]|]; [|discriminate].
  destruct rounded; [discriminate | exact (fun H => H)].
Qed.

Lemma dval_nonneg_inv d : dwf d -> (0 <= dval d)%Q -> dcoef d = 0 \/ dneg d = false.
Proof.
  unfold dwf. intros Hw H. apply dval_sign in H. unfold dint in H.
  destruct (dneg d); [left; lia | right; reflexivity].
Qed.

(* the product of two non-negative decimals is non-negative, also after rounding *)
Lemma mul_nonneg a c r : dwf a -> dwf c -> (0 <= dval a)%Q -> (0 <= dval c)%Q -> mul a c = Ok r -> (0 <= dval r)%Q.
Proof.
  intros Ha Hc Pa Pc H. unfold mul, bind in H.
  destruct (mul_ctx a c) as [[r0 rounded]|] eqn:E; [|discriminate]. injection H as <-.
  destruct (mul_ctx_int a c r0 rounded Ha Hc E) as (k & Hk & He & Hn & Hw & Hd & Hb & _).
  apply dval_sign. unfold dint.
  assert (Pk : 0 < 10 ^ k) by (apply pow10_gt0; lia).
  destruct (dval_nonneg_inv a Ha Pa) as [Za|Na].
  - rewrite Za, Z.mul_0_l in Hb. assert (dcoef r0 = 0) by nia. destruct (dneg r0); lia.
  - destruct (dval_nonneg_inv c Hc Pc) as [Zc|Nc].
    + rewrite Zc, Z.mul_0_r in Hb. assert (dcoef r0 = 0) by nia. destruct (dneg r0); lia.
    + rewrite Na, Nc in Hn. cbn [xorb] in Hn. rewrite Hn. exact Hw.
Qed.

Lemma is_positive_dval d : dwf d -> is_positive d = true -> (0 < dval d)%Q.
Proof.
  unfold dwf, is_positive, is_zero. intros Hw H. apply andb_true_iff in H. destruct H as [N1 N2].
  apply negb_true_iff in N1. apply negb_true_iff in N2. apply Z.eqb_neq in N2.
  apply dval_pos. unfold dint. rewrite N1. lia.
Qed.

Lemma not_positive_dval d : dwf d -> is_positive d = false -> (dval d <= 0)%Q.
Proof.
  unfold dwf, is_positive, is_zero. intros Hw H. apply Qnot_lt_le. intro Hp. apply dval_pos in Hp.
  unfold dint in Hp. destruct (dneg d); [lia|]. cbn [negb andb] in H.
  apply negb_false_iff in H. apply Z.eqb_eq in H. lia.
Qed.

(* SdkIntTrim of a non-negative decimal is its floor *)
Lemma trim_nonneg d z : dwf d -> (0 <= dval d)%Q -> sdk_int_trim d = Ok z ->
  0 <= z /\ (inject_Z z <= dval d)%Q /\ (dval d < inject_Z z + 1)%Q.
Proof.
  intros Hw Hp H. destruct (trim_toward_zero d z Hw H) as (T1 & T2 & T3).
  rewrite (Qabs_pos _ Hp) in T1, T2.
  assert (Hz : 0 <= z).
  { destruct (Z_lt_le_dec z 0) as [Hlt|Hge]; [|exact Hge]. exfalso.
    assert (H1 : (inject_Z 1 <= inject_Z (Z.abs z))%Q) by (rewrite <- Zle_Qle; lia).
    assert (H2 : (inject_Z z <= inject_Z (-1))%Q) by (rewrite <- Zle_Qle; lia).
    change (inject_Z 1) with 1%Q in H1. change (inject_Z (-1)) with (-(1))%Q in H2.
    set (zz := inject_Z z) in *. set (dd := dval d) in *. nra. }
  rewrite Z.abs_eq in T1, T2 by exact Hz. tauto.
Qed.

(* an integer below x is at most floor x *)
Lemma floor_ge n z x : (inject_Z n <= x)%Q -> (x < inject_Z z + 1)%Q -> n <= z.
Proof.
  intros H1 H2. assert (H : (inject_Z n < inject_Z (z + 1))%Q).
  { rewrite inject_Z_plus. change (inject_Z 1) with 1%Q. lra. }
  rewrite <- Zlt_Qlt in H. lia.
Qed.

Lemma floor_unique n z x : (inject_Z n <= x)%Q -> (x < inject_Z n + 1)%Q ->
  (inject_Z z <= x)%Q -> (x < inject_Z z + 1)%Q -> n = z.
Proof.
  intros A1 A2 B1 B2. pose proof (floor_ge n z x A1 B2). pose proof (floor_ge z n x B1 A2). lia.
Qed.

(* ------------------------------------------------------------------ *)
(* Rounding to 34 digits never passes a 34-digit number above          *)
(* ------------------------------------------------------------------ *)

(* if the coefficient is at most A * 10^m with A of at most 34 digits, so is the rounded one *)
Lemma round34_le_repr d r rounded A m :
  0 <= dcoef d -> round34 d = Ok (r, rounded) -> 0 <= m -> 0 <= A < 10 ^ 34 -> dcoef d <= A * 10 ^ m ->
  exists k, 0 <= k /\ dexp r = dexp d + k /\ dneg r = dneg d /\ 0 <= dcoef r /\ dcoef r * 10 ^ k <= A * 10 ^ m.
Proof.
  intros HP H Hm HA HB. unfold round34 in H.
  destruct (negb (is_zero d) && _); [discriminate|].
  set (P := dcoef d) in *. set (nd := num_digits P) in *. unfold precision128 in H.
  destruct (nd - 34 >? 0) eqn:Ediff.
  - apply Z.gtb_lt in Ediff.
    assert (HPpos : 0 < P).
    { destruct (Z.eq_dec P 0) as [Hz|Hnz]; [|lia]. exfalso.
      assert (Hn1 : nd = 1) by (subst nd; rewrite Hz; reflexivity). lia. }
    set (diff := nd - 34) in *.
    destruct (diff >? max_exponent); [discriminate|].
    pose proof (num_digits_spec P HPpos) as [Hlo Hhi]. fold nd in Hlo, Hhi.
    assert (Pp : 0 < 10 ^ diff) by (apply pow10_gt0; lia).
    assert (Pm : 0 < 10 ^ m) by (apply pow10_gt0; lia).
    (* diff <= m *)
    assert (Hdm' : diff <= m).
    { destruct (Z_le_gt_dec diff m) as [Hle|Hgt]; [exact Hle|]. exfalso.
      assert (H1 : 10 ^ (34 + m) <= 10 ^ (nd - 1)) by (apply pow10_le; subst diff; lia).
      rewrite pow10_add in H1 by lia. nia. }
    set (p := 10 ^ diff) in *.
    set (B := A * 10 ^ (m - diff)).
    assert (HBp : A * 10 ^ m = B * p).
    { subst B p. rewrite <- Z.mul_assoc, <- pow10_add by lia. replace (m - diff + diff) with m by lia. reflexivity. }
    rewrite HBp in HB.
    assert (Hlo' : 10 ^ 33 * p <= P).
    { subst p. rewrite <- pow10_add by lia. replace (33 + diff) with (nd - 1) by (subst diff; lia). exact Hlo. }
    assert (Hhi' : P < 10 ^ 34 * p).
    { subst p. rewrite <- pow10_add by lia. replace (34 + diff) with nd by (subst diff; lia). exact Hhi. }
    pose proof (Z.div_mod P p ltac:(lia)) as Hdm. pose proof (Z.mod_pos_bound P p Pp) as Hmb.
    set (y := P / p) in *. set (mm := P mod p) in *.
    assert (Hy : 10 ^ 33 <= y < 10 ^ 34) by (split; nia).
    assert (Hres : forall y' diff', 0 <= y' -> 0 <= diff' -> y' * 10 ^ diff' <= B * p ->
               bind (set_exponent (mkDec (dneg d) y' (dexp d)) [dexp d; diff']) (fun r0 => Ok (r0, true)) = Ok (r, rounded) ->
               exists k, 0 <= k /\ dexp r = dexp d + k /\ dneg r = dneg d /\ 0 <= dcoef r /\ dcoef r * 10 ^ k <= B * p).
    { intros y' diff' Hy' Hd' Hb Hs. unfold bind in Hs.
      destruct (set_exponent _ _) as [r0|] eqn:E; [|discriminate]. injection Hs as <- <-.
      apply set_exponent_inv in E. destruct E as (N & C & X & _). cbn [dneg dcoef] in N, C.
      rewrite zsum_pair' in X. exists diff'. rewrite C, N, X. repeat split; lia. }
    rewrite HBp.
    destruct (mm =? 0) eqn:Em.
    + apply (Hres y diff); [lia|lia| |exact H]. fold p. nia.
    + apply Z.eqb_neq in Em. destruct (2 * mm >=? p) eqn:Eh.
      * pose proof (round_add_one_spec y diff Hy) as Hr.
        destruct (round_add_one y diff) as [y' diff']. destruct Hr as (Hy' & Hd' & Hv).
        apply (Hres y' diff'); [lia|lia| |exact H].
        replace diff' with ((diff' - diff) + diff) by lia. rewrite pow10_add by lia. fold p.
        rewrite Z.mul_assoc, Hv.
        (* y * p < B * p, hence y + 1 <= B *)
        assert (y < B) by nia. nia.
      * apply (Hres y diff); [lia|lia| |exact H]. fold p. nia.
  - unfold bind in H.
    destruct (set_exponent d [dexp d; 0]) as [r0|] eqn:E; [|discriminate]. injection H as <- <-.
    apply set_exponent_inv in E. destruct E as (N & C & X & _). rewrite zsum_pair' in X.
    exists 0. rewrite C, N, X, Z.pow_0_r. fold P. repeat split; lia.
Qed.

Lemma dval_coef0 d : dcoef d = 0 -> (dval d == 0)%Q.
Proof. intro H. rewrite dval_eq. unfold dint. rewrite H. destruct (dneg d); change (inject_Z _) with 0%Q; ring. Qed.

Lemma mul_coef0 a c r : dwf a -> dwf c -> dcoef a * dcoef c = 0 -> mul a c = Ok r -> dcoef r = 0.
Proof.
  intros Ha Hc Hz H. unfold mul, bind in H.
  destruct (mul_ctx a c) as [[r0 rounded]|] eqn:E; [|discriminate]. injection H as <-.
  destruct (mul_ctx_int a c r0 rounded Ha Hc E) as (k & Hk & _ & _ & Hw & _ & Hb & _).
  assert (Pk : 0 < 10 ^ k) by (apply pow10_gt0; lia). rewrite Hz in Hb. nia.
Qed.

(* a positive decimal of value at most 1: coefficient at most 10^(-exponent) *)
Lemma dval_le1_inv c : 0 < dcoef c -> dneg c = false -> (dval c <= 1)%Q ->
  dexp c <= 0 /\ dcoef c <= 10 ^ (- dexp c).
Proof.
  intros Hc Hn H. rewrite dval_eq in H. unfold dint in H. rewrite Hn in H.
  destruct (Z_lt_le_dec 0 (dexp c)) as [Hpos|Hle].
  - exfalso. rewrite <- qpow_inject, <- inject_Z_mult in H by lia.
    change 1%Q with (inject_Z 1) in H. rewrite <- Zle_Qle in H.
    assert (10 ^ 1 <= 10 ^ dexp c) by (apply pow10_le; lia). change (10 ^ 1) with 10 in *. nia.
  - split; [exact Hle|].
    pose proof (scale_int 1 0 (dexp c) Hle) as Hs.
    setoid_replace (inject_Z 1 * q10 ^ 0)%Q with 1%Q in Hs by reflexivity.
    rewrite Z.mul_1_l, Z.sub_0_l in Hs. rewrite <- Hs in H.
    apply Qmult_le_r in H; [|apply qpow_pos]. rewrite <- Zle_Qle in H. exact H.
Qed.

(* Mul(a, c) <= a for a non-negative a of at most 34 digits and 0 <= c <= 1 *)
Theorem mul_le_left a c r :
  dwf a -> dwf c -> num_digits (dcoef a) <= 34 -> (0 <= dval a)%Q -> (0 <= dval c)%Q -> (dval c <= 1)%Q ->
  mul a c = Ok r -> (dval r <= dval a)%Q.
Proof.
  intros Ha Hc Hnd Pa Pc Lc H.
  destruct (Z.eq_dec (dcoef a * dcoef c) 0) as [Hz|Hnz].
  { rewrite (dval_coef0 r (mul_coef0 a c r Ha Hc Hz H)). exact Pa. }
  unfold dwf in Ha, Hc.
  assert (HA : 0 < dcoef a) by nia. assert (HC : 0 < dcoef c) by nia.
  assert (Na : dneg a = false) by (destruct (dval_nonneg_inv a Ha Pa); [lia|assumption]).
  assert (Nc : dneg c = false) by (destruct (dval_nonneg_inv c Hc Pc); [lia|assumption]).
  destruct (dval_le1_inv c HC Nc Lc) as [Hec HCle].
  assert (HA34 : dcoef a < 10 ^ 34).
  { pose proof (num_digits_spec (dcoef a) HA) as [_ Hhi]. pose proof (num_digits_ge1 (dcoef a)).
    assert (10 ^ num_digits (dcoef a) <= 10 ^ 34) by (apply pow10_le; lia). lia. }
  unfold mul, mul_ctx, bind in H.
  destruct (set_exponent _ [dexp a; dexp c]) as [d|] eqn:E1; [|discriminate].
  apply set_exponent_inv in E1. destruct E1 as (N1 & C1 & X1 & _). cbn [dneg dcoef] in N1, C1.
  rewrite zsum_pair' in X1. rewrite Na, Nc in N1. cbn [xorb] in N1.
  destruct (round34 d) as [[r0 rounded]|] eqn:E2; [|discriminate]. injection H as <-.
  assert (Pm : 0 < 10 ^ (- dexp c)) by (apply pow10_gt0; lia).
  destruct (round34_le_repr d r0 rounded (dcoef a) (- dexp c)) as (k & Hk & He & Hn & Hw & Hle);
    [rewrite C1; nia | exact E2 | lia | lia | rewrite C1; nia |].
  rewrite !dval_eq. unfold dint. rewrite Hn, N1, Na.
  set (m := dexp a + dexp c).
  rewrite <- (scale_int (dcoef r0) (dexp r0) m) by (subst m; lia).
  rewrite <- (scale_int (dcoef a) (dexp a) m) by (subst m; lia).
  apply Qmult_le_compat_r; [|apply Qlt_le_weak, qpow_pos].
  rewrite <- Zle_Qle. rewrite He, X1. fold m.
  replace (m + k - m) with k by lia. replace (dexp a - m) with (- dexp c) by (subst m; lia). exact Hle.
Qed.
Print Assumptions mul_le_left.

(* ------------------------------------------------------------------ *)
(* The decimals and coins of one filled order                          *)
(* ------------------------------------------------------------------ *)

(* the fee collected is the floor of a non-negative total fee *)
Lemma fee_amount_floor tfee fee : dwf tfee -> (0 <= dval tfee)%Q -> fee_amount tfee fee ->
  0 <= fee /\ (inject_Z fee <= dval tfee)%Q /\ (dval tfee < inject_Z fee + 1)%Q.
Proof.
  intros Hw Hp H. unfold fee_amount in H. destruct (is_positive tfee) eqn:E.
  - exact (trim_nonneg tfee fee Hw Hp H).
  - subst fee. pose proof (not_positive_dval tfee Hw E) as Hle.
    change (inject_Z 0) with 0%Q. split; [lia|]. split; lra.
Qed.

(* Everything the decimal layer says about one filled order, before composing it into formulas in X, b, r:
   each Mul is within half a unit of its last (34th) digit, Add / Sub are exact, all amounts are non-negative,
   the seller fee does not exceed the subtotal, the four integers are floors, and the buyer's debit fee + pay
   is total_cost or total_cost - 1 (total_cost is what the funds check compares with the balance). *)
Theorem settlement_decimals s ask q st brate bf total total_cost fee_trunc srate sfee tfee fee payment pay :
  in_ok q ->
  (* C07_buy_one *)
  sub_total_cost ask q = LOk st -> buyer_rate s = LOk brate ->
  mul st brate = Ok bf -> add st bf = Ok total ->
  sdk_int_trim total = Ok total_cost -> sdk_int_trim bf = Ok fee_trunc ->
  (* C07_fill_order *)
  seller_rate s = LOk srate -> mul st srate = Ok sfee -> add bf sfee = Ok tfee -> fee_amount tfee fee ->
  sub st sfee = Ok payment -> sdk_int_trim payment = Ok pay ->
  (dval srate <= 1)%Q ->
  0 < ask /\ (0 <= dval q)%Q /\ (0 <= dval brate)%Q /\ (0 <= dval srate)%Q /\
  (* Mul *)
  (Qabs (dval st - dval q * inject_Z ask) <= (1 # 2) * q10 ^ dexp st)%Q /\
  (Qabs (dval bf - dval st * dval brate) <= (1 # 2) * q10 ^ dexp bf)%Q /\
  (Qabs (dval sfee - dval st * dval srate) <= (1 # 2) * q10 ^ dexp sfee)%Q /\
  (0 <= dval st)%Q /\ (0 <= dval bf)%Q /\ (0 <= dval sfee)%Q /\ (dval sfee <= dval st)%Q /\
  (* Add, Sub *)
  (dval total == dval st + dval bf)%Q /\ (dval tfee == dval bf + dval sfee)%Q /\
  (dval payment == dval st - dval sfee)%Q /\
  (* SdkIntTrim *)
  (inject_Z pay <= dval payment)%Q /\ (dval payment < inject_Z pay + 1)%Q /\
  (inject_Z fee <= dval tfee)%Q /\ (dval tfee < inject_Z fee + 1)%Q /\
  (inject_Z total_cost <= dval total)%Q /\ (dval total < inject_Z total_cost + 1)%Q /\
  (inject_Z fee_trunc <= dval bf)%Q /\ (dval bf < inject_Z fee_trunc + 1)%Q /\
  0 <= pay /\ 0 <= fee /\ 0 <= total_cost /\ 0 <= fee_trunc /\
  (* the buyer's debit against the amount of the funds check *)
  total_cost - 1 <= fee + pay <= total_cost.
Proof.
  intros Hq Hst Hbr Hbf Htot Htc Hft Hsr Hsf Htf Hfee Hpayment Hpay Hr1.
  destruct (in_ok_dval q Hq) as [Wq Pq].
  destruct (sub_total_cost_unfold _ _ _ Hst) as [Hask Hmst].
  destruct (buyer_rate_wf _ _ Hbr) as [Wb Pb]. destruct (seller_rate_wf _ _ Hsr) as [Wr Pr].
  pose proof (dec_of_int_wf ask) as Wp.
  assert (Pask : (0 <= inject_Z ask)%Q) by (change 0%Q with (inject_Z 0); rewrite <- Zle_Qle; lia).
  assert (Pp : (0 <= dval (dec_of_int ask))%Q) by (rewrite dval_dec_of_int; exact Pask).
  destruct (mul_round_bound q (dec_of_int ask) st Wq Wp Hmst) as (Bst & Wst & Dst).
  rewrite dval_dec_of_int in Bst.
  pose proof (mul_nonneg q (dec_of_int ask) st Wq Wp Pq Pp Hmst) as Pst.
  destruct (mul_round_bound st brate bf Wst Wb Hbf) as (Bbf & Wbf & _).
  pose proof (mul_nonneg st brate bf Wst Wb Pst Pb Hbf) as Pbf.
  destruct (mul_round_bound st srate sfee Wst Wr Hsf) as (Bsf & Wsf & _).
  pose proof (mul_nonneg st srate sfee Wst Wr Pst Pr Hsf) as Psf.
  pose proof (mul_le_left st srate sfee Wst Wr Dst Pst Pr Hr1 Hsf) as Lsf.
  pose proof (add_exact st bf total Wst Wbf Htot) as Etot. pose proof (add_wf st bf total Wst Wbf Htot) as Wtot.
  pose proof (add_exact bf sfee tfee Wbf Wsf Htf) as Etf. pose proof (add_wf bf sfee tfee Wbf Wsf Htf) as Wtf.
  pose proof (sub_exact st sfee payment Wst Wsf Hpayment) as Epay.
  pose proof (sub_wf st sfee payment Wst Wsf Hpayment) as Wpay.
  assert (Ptot : (0 <= dval total)%Q) by (rewrite Etot; lra).
  assert (Ptf : (0 <= dval tfee)%Q) by (rewrite Etf; lra).
  assert (Ppay : (0 <= dval payment)%Q) by (rewrite Epay; lra).
  destruct (trim_nonneg payment pay Wpay Ppay Hpay) as (Zpay & F1 & F2).
  destruct (trim_nonneg total total_cost Wtot Ptot Htc) as (Ztc & T1 & T2).
  destruct (trim_nonneg bf fee_trunc Wbf Pbf Hft) as (Zft & M1 & M2).
  destruct (fee_amount_floor tfee fee Wtf Ptf Hfee) as (Zfee & G1 & G2).
  assert (Hup : fee + pay <= total_cost).
  { apply (floor_ge _ _ (dval total)); [|exact T2]. rewrite inject_Z_plus. lra. }
  assert (Hlo : total_cost <= fee + pay + 1).
  { apply (floor_ge _ _ (dval total)); [exact T1|]. rewrite !inject_Z_plus. change (inject_Z 1) with 1%Q. lra. }
  repeat (split; [assumption|]). lia.
Qed.
Print Assumptions settlement_decimals.

(* |x - y| <= u scaled by a non-negative factor, in the form lra uses *)
Lemma scaled_err x y u c : (Qabs (x - y) <= u)%Q -> (0 <= c)%Q ->
  (x * c - y * c <= u * c)%Q /\ (- (u * c) <= x * c - y * c)%Q.
Proof. intros H Hc. apply Qabs_Qle_condition in H. destruct H as [H1 H2]. split; nra. Qed.

(* ------------------------------------------------------------------ *)
(* 1. No multiplication rounds: exact closed formulas                  *)
(* ------------------------------------------------------------------ *)

(* X = quantity * ask price (base units of the ask denom), b = buyer fee rate, r = seller fee rate.
   "Does not round" is MulExact succeeding with the same result: for the subtotal, the multiplication inside
   getSubTotalCost is Mul(q, ask) (sub_total_cost_unfold), ask read back as the integer decimal dec_of_int ask. *)
Theorem settlement_exact_values s ask q st brate bf total total_cost fee_trunc srate sfee tfee fee payment pay :
  in_ok q ->
  (* C07_buy_one *)
  sub_total_cost ask q = LOk st -> buyer_rate s = LOk brate ->
  mul st brate = Ok bf -> add st bf = Ok total ->
  sdk_int_trim total = Ok total_cost -> sdk_int_trim bf = Ok fee_trunc ->
  (* C07_fill_order *)
  seller_rate s = LOk srate -> mul st srate = Ok sfee -> add bf sfee = Ok tfee -> fee_amount tfee fee ->
  sub st sfee = Ok payment -> sdk_int_trim payment = Ok pay ->
  (* none of the three multiplications rounds *)
  mul_exact q (dec_of_int ask) = Ok st -> mul_exact st brate = Ok bf -> mul_exact st srate = Ok sfee ->
  (dval srate <= 1)%Q ->
  let X := (dval q * inject_Z ask)%Q in let b := dval brate in let r := dval srate in
  (0 <= X)%Q /\ (0 <= b)%Q /\ (0 <= r <= 1)%Q /\
  (* the decimals *)
  (dval st == X)%Q /\ (dval bf == X * b)%Q /\ (dval sfee == X * r)%Q /\
  (dval total == X * (1 + b))%Q /\ (dval tfee == X * (b + r))%Q /\ (dval payment == X * (1 - r))%Q /\
  (* seller credited floor (X (1 - r)) *)
  0 <= pay /\ (inject_Z pay <= X * (1 - r) < inject_Z pay + 1)%Q /\
  (* fee pool credited (uregen: supply reduced by) floor (X (b + r)); when X (b + r) = 0 nothing is sent, fee = 0 *)
  0 <= fee /\ (inject_Z fee <= X * (b + r) < inject_Z fee + 1)%Q /\
  (* funds check amount: floor (X (1 + b)); max-fee check amount: floor (X b) *)
  (inject_Z total_cost <= X * (1 + b) < inject_Z total_cost + 1)%Q /\
  (inject_Z fee_trunc <= X * b < inject_Z fee_trunc + 1)%Q /\
  (* buyer debited fee + pay: at most the exact total, and total_cost or total_cost - 1 *)
  (inject_Z (fee + pay) <= X * (1 + b))%Q /\ (X * (1 + b) - 2 < inject_Z (fee + pay))%Q /\
  total_cost - 1 <= fee + pay <= total_cost.
Proof.
  intros Hq Hst Hbr Hbf Htot Htc Hft Hsr Hsf Htf Hfee Hpayment Hpay Xst Xbf Xsf Hr1 X b r.
  destruct (settlement_decimals s ask q st brate bf total total_cost fee_trunc srate sfee tfee fee payment pay
              Hq Hst Hbr Hbf Htot Htc Hft Hsr Hsf Htf Hfee Hpayment Hpay Hr1)
    as (Hask & Pq & Pb & Pr & _ & _ & _ & Pst & Pbf & Psf & Lsf & Etot & Etf & Epay &
        F1 & F2 & G1 & G2 & T1 & T2 & M1 & M2 & Zpay & Zfee & Ztc & Zft & Hdeb).
  pose proof (mul_exact_value q (dec_of_int ask) st Xst) as E1. rewrite dval_dec_of_int in E1.
  pose proof (mul_exact_value st brate bf Xbf) as E2.
  pose proof (mul_exact_value st srate sfee Xsf) as E3.
  fold X in E1. fold b in E2. fold r in E3. fold r in Pr, Hr1. fold b in Pb.
  rewrite E1 in E2, E3, Pst.
  assert (D1 : (dval total == X * (1 + b))%Q) by (rewrite Etot, E1, E2; ring).
  assert (D2 : (dval tfee == X * (b + r))%Q) by (rewrite Etf, E2, E3; ring).
  assert (D3 : (dval payment == X * (1 - r))%Q) by (rewrite Epay, E1, E3; ring).
  rewrite D1 in T1, T2. rewrite D2 in G1, G2. rewrite D3 in F1, F2. rewrite E2 in M1, M2.
  assert (HS : (inject_Z (fee + pay) == inject_Z fee + inject_Z pay)%Q) by (rewrite inject_Z_plus; reflexivity).
  assert (HR : (X * (1 + b) == X * (b + r) + X * (1 - r))%Q) by ring.
  repeat match goal with |- _ /\ _ => split end; try assumption; try lia.
  - rewrite HS, HR. lra.
  - rewrite HS, HR. lra.
Qed.
Print Assumptions settlement_exact_values.

(* the max-fee check: the purchase needs floor (X b) <= stated max fee (zero if absent) *)
Definition max_fee_amount (mf : option coin) : Z := match mf with Some c => c_amount c | None => 0 end.

Theorem max_fee_exact s ask q st brate bf fee_trunc (mf : option coin) (denom : bytes) :
  in_ok q ->
  sub_total_cost ask q = LOk st -> buyer_rate s = LOk brate -> sdk_int_trim bf = Ok fee_trunc ->
  mul_exact q (dec_of_int ask) = Ok st -> mul_exact st brate = Ok bf ->
  (* the check of C07_buy_one, with mf = by_max_fee r and denom = mk_denom mk *)
  match mf with None => fee_trunc <= 0 | Some c => c_denom c = denom /\ fee_trunc <= c_amount c end ->
  let X := (dval q * inject_Z ask)%Q in let b := dval brate in
  (inject_Z fee_trunc <= X * b < inject_Z fee_trunc + 1)%Q /\
  fee_trunc <= max_fee_amount mf /\ (X * b < inject_Z (max_fee_amount mf) + 1)%Q.
Proof.
  intros Hq Hst Hbr Hft Xst Xbf Hmf X b.
  destruct (in_ok_dval q Hq) as [Wq Pq].
  destruct (sub_total_cost_unfold _ _ _ Hst) as [Hask Hmst].
  destruct (buyer_rate_wf _ _ Hbr) as [Wb Pb].
  pose proof (dec_of_int_wf ask) as Wp.
  assert (Pask : (0 <= inject_Z ask)%Q) by (change 0%Q with (inject_Z 0); rewrite <- Zle_Qle; lia).
  assert (Pp : (0 <= dval (dec_of_int ask))%Q) by (rewrite dval_dec_of_int; exact Pask).
  destruct (mul_round_bound q (dec_of_int ask) st Wq Wp Hmst) as (_ & Wst & _).
  pose proof (mul_nonneg q (dec_of_int ask) st Wq Wp Pq Pp Hmst) as Pst.
  pose proof (mul_exact_mul _ _ _ Xbf) as Hbf.
  destruct (mul_round_bound st brate bf Wst Wb Hbf) as (_ & Wbf & _).
  pose proof (mul_nonneg st brate bf Wst Wb Pst Pb Hbf) as Pbf.
  destruct (trim_nonneg bf fee_trunc Wbf Pbf Hft) as (Zft & M1 & M2).
  pose proof (mul_exact_value q (dec_of_int ask) st Xst) as E1. rewrite dval_dec_of_int in E1.
  pose proof (mul_exact_value st brate bf Xbf) as E2. rewrite E1 in E2. fold X b in E2.
  rewrite E2 in M1, M2.
  assert (Hle : fee_trunc <= max_fee_amount mf) by (destruct mf as [c|]; cbn [max_fee_amount]; [tauto|exact Hmf]).
  split; [split; assumption|]. split; [exact Hle|].
  rewrite Zle_Qle in Hle. lra.
Qed.
Print Assumptions max_fee_exact.

(* ------------------------------------------------------------------ *)
(* 2. The general case: each Mul correct to 34 digits                  *)
(* ------------------------------------------------------------------ *)

(* u_d = half a unit in the last place of the rounded result d (0 error when the Mul did not round is the
   exact theorem above).  The error of the subtotal propagates through the two fee multiplications:
     |st - X| <= u_st,  |bf - X b| <= u_st b + u_bf,  |sfee - X r| <= u_st r + u_sf,
   Add and Sub add nothing, SdkIntTrim takes the floor. *)
Theorem settlement_rounded_values s ask q st brate bf total total_cost fee_trunc srate sfee tfee fee payment pay :
  in_ok q ->
  (* C07_buy_one *)
  sub_total_cost ask q = LOk st -> buyer_rate s = LOk brate ->
  mul st brate = Ok bf -> add st bf = Ok total ->
  sdk_int_trim total = Ok total_cost -> sdk_int_trim bf = Ok fee_trunc ->
  (* C07_fill_order *)
  seller_rate s = LOk srate -> mul st srate = Ok sfee -> add bf sfee = Ok tfee -> fee_amount tfee fee ->
  sub st sfee = Ok payment -> sdk_int_trim payment = Ok pay ->
  (dval srate <= 1)%Q ->
  let X := (dval q * inject_Z ask)%Q in let b := dval brate in let r := dval srate in
  let u_st := ((1 # 2) * q10 ^ dexp st)%Q in
  let u_bf := ((1 # 2) * q10 ^ dexp bf)%Q in
  let u_sf := ((1 # 2) * q10 ^ dexp sfee)%Q in
  let E_pay := (u_st * (1 - r) + u_sf)%Q in
  let E_fee := (u_st * (b + r) + u_bf + u_sf)%Q in
  let E_tot := (u_st * (1 + b) + u_bf)%Q in
  let E_bf := (u_st * b + u_bf)%Q in
  (0 <= X)%Q /\ (0 <= b)%Q /\ (0 <= r <= 1)%Q /\
  (* the decimals *)
  (Qabs (dval st - X) <= u_st)%Q /\
  (Qabs (dval bf - X * b) <= E_bf)%Q /\
  (Qabs (dval sfee - X * r) <= u_st * r + u_sf)%Q /\
  (Qabs (dval total - X * (1 + b)) <= E_tot)%Q /\
  (Qabs (dval tfee - X * (b + r)) <= E_fee)%Q /\
  (Qabs (dval payment - X * (1 - r)) <= E_pay)%Q /\
  (* the coins: floors of the decimals *)
  0 <= pay /\ (X * (1 - r) - E_pay - 1 < inject_Z pay <= X * (1 - r) + E_pay)%Q /\
  0 <= fee /\ (X * (b + r) - E_fee - 1 < inject_Z fee <= X * (b + r) + E_fee)%Q /\
  (X * (1 + b) - E_tot - 1 < inject_Z total_cost <= X * (1 + b) + E_tot)%Q /\
  (X * b - E_bf - 1 < inject_Z fee_trunc <= X * b + E_bf)%Q /\
  (Qabs (inject_Z pay - X * (1 - r)) < 1 + E_pay)%Q /\
  (Qabs (inject_Z fee - X * (b + r)) < 1 + E_fee)%Q /\
  (* buyer debited fee + pay: total_cost or total_cost - 1, hence within E_tot above the exact total *)
  (X * (1 + b) - E_tot - 2 < inject_Z (fee + pay) <= X * (1 + b) + E_tot)%Q /\
  total_cost - 1 <= fee + pay <= total_cost.
Proof.
  intros Hq Hst Hbr Hbf Htot Htc Hft Hsr Hsf Htf Hfee Hpayment Hpay Hr1 X b r u_st u_bf u_sf E_pay E_fee E_tot E_bf.
  destruct (settlement_decimals s ask q st brate bf total total_cost fee_trunc srate sfee tfee fee payment pay
              Hq Hst Hbr Hbf Htot Htc Hft Hsr Hsf Htf Hfee Hpayment Hpay Hr1)
    as (Hask & Pq & Pb & Pr & Bst & Bbf & Bsf & Pst & Pbf & Psf & Lsf & Etot & Etf & Epay &
        F1 & F2 & G1 & G2 & T1 & T2 & M1 & M2 & Zpay & Zfee & Ztc & Zft & Hdeb).
  fold X in Bst. fold b in Bbf, Pb. fold r in Bsf, Pr, Hr1. fold u_st in Bst. fold u_bf in Bbf. fold u_sf in Bsf.
  assert (PX : (0 <= X)%Q).
  { subst X. apply Qmult_le_0_compat; [exact Pq|]. change 0%Q with (inject_Z 0). rewrite <- Zle_Qle. lia. }
  destruct (scaled_err (dval st) X u_st b Bst Pb) as [Sb1 Sb2].
  destruct (scaled_err (dval st) X u_st r Bst Pr) as [Sr1 Sr2].
  assert (Pr1 : (0 <= 1 - r)%Q) by lra.
  destruct (scaled_err (dval st) X u_st (1 - r) Bst Pr1) as [Sp1 Sp2].
  apply Qabs_Qle_condition in Bst. destruct Bst as [Bst1 Bst2].
  apply Qabs_Qle_condition in Bbf. destruct Bbf as [Bbf1 Bbf2].
  apply Qabs_Qle_condition in Bsf. destruct Bsf as [Bsf1 Bsf2].
  assert (HS : (inject_Z (fee + pay) == inject_Z fee + inject_Z pay)%Q) by (rewrite inject_Z_plus; reflexivity).
  assert (HD : (inject_Z total_cost - 1 <= inject_Z (fee + pay))%Q /\ (inject_Z (fee + pay) <= inject_Z total_cost)%Q).
  { split; [|rewrite <- Zle_Qle; lia].
    assert (Hi : (inject_Z total_cost <= inject_Z (fee + pay + 1))%Q) by (rewrite <- Zle_Qle; lia).
    rewrite (inject_Z_plus (fee + pay) 1) in Hi. change (inject_Z 1) with 1%Q in Hi. lra. }
  destruct HD as [HD1 HD2].
  subst E_pay E_fee E_tot E_bf.
  set (st' := dval st) in *. set (bf' := dval bf) in *. set (sf' := dval sfee) in *.
  set (tot' := dval total) in *. set (tf' := dval tfee) in *. set (pm' := dval payment) in *.
  set (ipay := inject_Z pay) in *. set (ifee := inject_Z fee) in *. set (itc := inject_Z total_cost) in *.
  set (ift := inject_Z fee_trunc) in *. set (idb := inject_Z (fee + pay)) in *.
  clearbody X b r u_st u_bf u_sf st' bf' sf' tot' tf' pm' ipay ifee itc ift idb.
  repeat match goal with |- _ /\ _ => split end;
    try assumption; try lia;
    try (apply Qabs_Qle_condition; split); try (apply Qabs_Qlt_condition; split); lra.
Qed.
Print Assumptions settlement_rounded_values.

(* ------------------------------------------------------------------ *)
(* 3. Examples                                                         *)
(* ------------------------------------------------------------------ *)

Definition with_rates (buyer seller : string) (s0 : state) : state :=
  s0 <| fee_params_ := Some {| fp_buyer := b buyer; fp_seller := b seller |} |>.

Lemma with_rates_buyer buyer seller s0 : buyer_rate (with_rates buyer seller s0) = fee_rate (b buyer).
Proof. reflexivity. Qed.
Lemma with_rates_seller buyer seller s0 : seller_rate (with_rates buyer seller s0) = fee_rate (b seller).
Proof. reflexivity. Qed.

(* the hypotheses of settlement_exact_values, for examples *)
Definition exact_hyps s ask q st brate bf total total_cost fee_trunc srate sfee tfee fee payment pay : Prop :=
  in_ok q /\
  sub_total_cost ask q = LOk st /\ buyer_rate s = LOk brate /\
  mul st brate = Ok bf /\ add st bf = Ok total /\
  sdk_int_trim total = Ok total_cost /\ sdk_int_trim bf = Ok fee_trunc /\
  seller_rate s = LOk srate /\ mul st srate = Ok sfee /\ add bf sfee = Ok tfee /\ fee_amount tfee fee /\
  sub st sfee = Ok payment /\ sdk_int_trim payment = Ok pay /\
  mul_exact q (dec_of_int ask) = Ok st /\ mul_exact st brate = Ok bf /\ mul_exact st srate = Ok sfee /\
  (dval srate <= 1)%Q.

Ltac run_hyps :=
  unfold exact_hyps; rewrite ?with_rates_buyer, ?with_rates_seller;
  repeat match goal with |- _ /\ _ => split end;
  try (vm_compute; reflexivity);
  try (unfold in_ok, P; cbn [dcoef dneg dexp]; repeat split; try lia; intro; discriminate);
  try (unfold Qle; vm_compute; discriminate).

(* exact_hyps are the hypotheses of settlement_exact_values *)
Lemma exact_hyps_sound s ask q st brate bf total total_cost fee_trunc srate sfee tfee fee payment pay :
  exact_hyps s ask q st brate bf total total_cost fee_trunc srate sfee tfee fee payment pay ->
  let X := (dval q * inject_Z ask)%Q in let b := dval brate in let r := dval srate in
  (inject_Z pay <= X * (1 - r) < inject_Z pay + 1)%Q /\
  (inject_Z fee <= X * (b + r) < inject_Z fee + 1)%Q /\
  (inject_Z total_cost <= X * (1 + b) < inject_Z total_cost + 1)%Q /\
  (inject_Z fee_trunc <= X * b < inject_Z fee_trunc + 1)%Q /\
  (inject_Z (fee + pay) <= X * (1 + b))%Q /\ total_cost - 1 <= fee + pay <= total_cost.
Proof.
  intros (H1 & H2 & H3 & H4 & H5 & H6 & H7 & H8 & H9 & H10 & H11 & H12 & H13 & H14 & H15 & H16 & H17) X b r.
  pose proof (settlement_exact_values s ask q st brate bf total total_cost fee_trunc srate sfee tfee fee payment pay
                H1 H2 H3 H4 H5 H6 H7 H8 H9 H10 H11 H12 H13 H14 H15 H16 H17) as H.
  cbv zeta in H. fold X b r in H. tauto.
Qed.

(* 2.5 credits at 1000000 per credit, buyer fee 1%, seller fee 2%:
   X = 2500000, seller +2450000, fee pool +75000, buyer -2525000 = total_cost; max fee must be >= 25000 *)
Example settlement_example s0 :
  posfixed P (b "2.5") = Ok (mkDec false 25 (-1)) /\
  exact_hyps (with_rates "0.01" "0.02" s0) 1000000
    (mkDec false 25 (-1))                          (* quantity 2.5 *)
    (mkDec false 25000000 (-1))                    (* subtotal 2500000.0 *)
    (mkDec false 1 (-2)) (mkDec false 25000000 (-3))         (* buyer rate, buyer fee 25000.000 *)
    (mkDec false 2525000000 (-3)) 2525000 25000    (* total, total_cost, fee_trunc *)
    (mkDec false 2 (-2)) (mkDec false 50000000 (-3))         (* seller rate, seller fee 50000.000 *)
    (mkDec false 75000000 (-3)) 75000              (* total fee, fee *)
    (mkDec false 2450000000 (-3)) 2450000.         (* payment, pay *)
Proof. split; [vm_compute; reflexivity|]. run_hyps. Qed.

(* fee + pay = total_cost is NOT a theorem: 2.5 credits at 333333, same rates.
   X = 833332.5; pay = floor 816665.85 = 816665, fee = floor 24999.975 = 24999,
   total_cost = floor 841665.825 = 841665, and the buyer is debited 841664 = total_cost - 1 *)
Example settlement_example_debit_below_total_cost s0 :
  exact_hyps (with_rates "0.01" "0.02" s0) 333333
    (mkDec false 25 (-1))
    (mkDec false 8333325 (-1))
    (mkDec false 1 (-2)) (mkDec false 8333325 (-3))
    (mkDec false 841665825 (-3)) 841665 8333
    (mkDec false 2 (-2)) (mkDec false 16666650 (-3))
    (mkDec false 24999975 (-3)) 24999
    (mkDec false 816665850 (-3)) 816665 /\
  24999 + 816665 = 841665 - 1.
Proof. split; [run_hyps|reflexivity]. Qed.

(* With a rate of more than 34 significant digits the buyer fee is rounded (here: up), and the clause
   "the buyer is never debited more than the exact total X (1 + b)" FAILS (by 5e-31 of a base unit; finding F9):
   1 credit at 1000000, buyer rate 1 - 5e-37, seller rate 0.
   X (1 + b) = 2000000 - 5e-31, but bf = Mul(1000000, b) = 1000000.000...0 (34 digits), so
   fee = 1000000, pay = 1000000 and the buyer is debited 2000000 = total_cost.
   (settlement_rounded_values allows it: E_tot = u_bf = 5e-28.) *)
Example rounded_debit_exceeds_exact_total s0 :
  let s := with_rates "0.9999999999999999999999999999999999995" "0" s0 in
  let q := mkDec false 1 0 in let ask := 1000000 in
  let st := mkDec false 1000000 0 in
  let brate := mkDec false 9999999999999999999999999999999999995 (-37) in
  let bf := mkDec false 1000000000000000000000000000000000 (-27) in
  let total := mkDec false 2000000000000000000000000000000000 (-27) in
  let srate := mkDec false 0 0 in let sfee := mkDec false 0 0 in
  let tfee := bf in let payment := st in
  let fee := 1000000 in let pay := 1000000 in
  (in_ok q /\ sub_total_cost ask q = LOk st /\ buyer_rate s = LOk brate /\
   mul st brate = Ok bf /\ add st bf = Ok total /\ sdk_int_trim total = Ok 2000000 /\ sdk_int_trim bf = Ok 1000000 /\
   seller_rate s = LOk srate /\ mul st srate = Ok sfee /\ add bf sfee = Ok tfee /\ fee_amount tfee fee /\
   sub st sfee = Ok payment /\ sdk_int_trim payment = Ok pay /\ (dval srate <= 1)%Q) /\
  mul_exact st brate = Err ERounded /\
  (dval q * inject_Z ask * (1 + dval brate) < inject_Z (fee + pay))%Q.
Proof.
  cbv zeta. rewrite ?with_rates_buyer, ?with_rates_seller.
  repeat match goal with |- _ /\ _ => split end;
  try (vm_compute; reflexivity);
  try (unfold in_ok, P; cbn [dcoef dneg dexp]; repeat split; try lia; intro; discriminate);
  try (unfold Qle; vm_compute; discriminate).
Qed.
Print Assumptions settlement_example.
Print Assumptions settlement_example_debit_below_total_cost.
Print Assumptions rounded_debit_exceeds_exact_total.
