(* Worked example / template: MsgSend preserves the credit-accounting invariants. *)
From stdpp Require Import gmap.
From RecordUpdate Require Import RecordSet.
From Coq Require Import ZArith NArith List Bool Lia Strings.Byte.
Require Import Regen.Base.Bytes Regen.Base.Calendar Regen.Dec.Dec.
Require Import Regen.Ledger.Types Regen.Ledger.Msgs Regen.Ledger.Orm Regen.Ledger.BaseMsgs
               Regen.Ledger.BasketMsgs Regen.Ledger.MarketMsgs Regen.Ledger.Step
               Regen.Ledger.Amount Regen.Ledger.MapSum Regen.Ledger.Inv Regen.Ledger.InvTactics.
Import RecordSetNotations.
Local Open Scope Z_scope.

Lemma send_tradable_shape bk sender recipient amt s s' :
  send_tradable bk sender recipient amt s = LOk s' ->
  exists sb nt rt,
    balances s !! (sender, bk) = Some sb /\
    safe_sub_balance (bl_tradable sb) amt = Ok nt /\
    let m1 := <[(sender, bk) := {| bl_tradable := dnorm nt; bl_retired := bl_retired sb; bl_escrowed := bl_escrowed sb |}]> (balances s) in
    let rb := default zero_balance (m1 !! (recipient, bk)) in
    add (bl_tradable rb) amt = Ok rt /\
    s' = s <| balances := <[(recipient, bk) := {| bl_tradable := dnorm rt; bl_retired := bl_retired rb; bl_escrowed := bl_escrowed rb |}]> m1 |>.
Proof.
  unfold send_tradable. intros H.
  lstep H as sb Hsb. lstep H as nt Hnt. lstep H as s1 Hs1. lstep H as rt Hrt.
  apply update_balance_ok in Hs1. destruct Hs1 as [-> _].
  inversion H; subst s'; clear H.
  exists sb, nt, rt. split; [exact Hsb|]. split; [exact Hnt|]. split; [exact Hrt | reflexivity].
Qed.

(* conservation is preserved by sendTradable *)
Lemma send_tradable_cons bk sender recipient amt s s' :
  Inv_scale s -> Inv_cons s -> in_ok amt ->
  send_tradable bk sender recipient amt s = LOk s' -> Inv_cons s'.
Proof.
  intros Hsc Hcons Hamt Hs.
  destruct (send_tradable_shape _ _ _ _ _ _ Hs) as (sb & nt & rt & Hsb & Hnt & Hrt & ->).
  cbv zeta in Hrt.
  destruct Hsc as (Hbal & _).
  pose proof (Hbal _ _ Hsb) as (Hsb1 & Hsb2 & Hsb3).
  destruct (safe_sub_in_ok _ _ _ (stored_in_ok _ Hsb1) Hamt Hnt) as [Hnt1 Hnt2].
  destruct (dnorm_ok _ Hnt1) as [_ Hnt3].
  set (sb' := {| bl_tradable := dnorm nt; bl_retired := bl_retired sb; bl_escrowed := bl_escrowed sb |}) in *.
  set (m1 := <[(sender, bk) := sb']> (balances s)) in *.
  set (rb := default zero_balance (m1 !! (recipient, bk))) in *.
  assert (Hrb : balance_ok rb).
  { unfold rb. destruct (m1 !! (recipient, bk)) as [x|] eqn:E; cbn; [|apply zero_balance_ok].
    unfold m1 in E. destruct (decide ((sender, bk) = (recipient, bk))) as [Heq|Hne].
    - rewrite Heq, lookup_insert in E. inversion E. subst x. unfold sb', balance_ok; cbn.
      split; [apply dnorm_ok; exact Hnt1 | auto].
    - rewrite lookup_insert_ne in E by exact Hne. eapply Hbal; exact E. }
  destruct Hrb as (Hrb1 & Hrb2 & Hrb3).
  destruct (add_in_ok _ _ _ (stored_in_ok _ Hrb1) Hamt Hrt) as [Hrt1 Hrt2].
  destruct (dnorm_ok _ Hrt1) as [_ Hrt3].
  intros bk' ba su Hba Hsu. cbn in Hba, Hsu |- *.
  specialize (Hcons bk' ba su Hba Hsu). destruct Hcons as [Hc1 Hc2].
  unfold m1. rewrite !bal_sum_insert. fold m1.
  destruct (bk =? bk')%N eqn:Ebk; [|split; lia].
  rewrite Hsb.
  assert (Hold1 : match m1 !! (recipient, bk) with Some v => tradable_escrowed v | None => 0 end = tradable_escrowed rb)
    by (unfold rb; destruct (m1 !! (recipient, bk)); reflexivity).
  assert (Hold2 : match m1 !! (recipient, bk) with Some v => retired_of v | None => 0 end = retired_of rb)
    by (unfold rb; destruct (m1 !! (recipient, bk)); reflexivity).
  rewrite Hold1, Hold2. unfold tradable_escrowed, retired_of, sb'. cbn [bl_tradable bl_retired bl_escrowed].
  rewrite Hrt3, Hrt2, Hnt3, Hnt2. unfold tradable_escrowed, retired_of in Hc1, Hc2. clearbody rb. split; lia.
Qed.
