(* Assembly, layer 1: Inv_run = Inv_core /\ Inv_bound /\ Inv_qty is preserved by every message of every
   family (through the transaction rule) and by begin-block; begin-block is total on it; hence it holds in
   every state reachable from a genesis satisfying it, runs never fail, and retired / cancelled amounts never
   decrease along any run (C01, C04, C06 escrow part, C12). *)
From stdpp Require Import gmap.
From RecordUpdate Require Import RecordSet.
From Coq Require Import ZArith NArith List Bool Lia Strings.Byte.
Require Import Regen.Base.Bytes Regen.Base.Calendar Regen.Dec.Dec.
Require Import Regen.Ledger.Types Regen.Ledger.Msgs Regen.Ledger.Orm Regen.Ledger.BaseMsgs
               Regen.Ledger.BasketMsgs Regen.Ledger.MarketMsgs Regen.Ledger.Step
               Regen.Ledger.Amount Regen.Ledger.MapSum Regen.Ledger.Inv Regen.Ledger.InvTactics.
Require Regen.Ledger.InvBasketLib.
Require Import Regen.Ledger.InvFrame Regen.Ledger.InvAdmin Regen.Ledger.InvBase Regen.Ledger.InvBasket.
Require Import Regen.Ledger.InvMarketLib Regen.Ledger.InvMarketOrders Regen.Ledger.InvMarketPrune Regen.Ledger.InvMarket.
Require Import Regen.Ledger.InvAllLib Regen.Ledger.InvAllBound.
Import ListNotations RecordSetNotations.
Local Open Scope Z_scope.

Definition Inv_run (s : state) : Prop := Inv_core s /\ Inv_bound s /\ Inv_qty s.

(* C04: retired balances and retired / cancelled supplies never decrease, supply rows are never removed *)
Definition mono_rel (s s' : state) : Prop :=
  (forall a k, U (bl_retired (get_balance s a k)) <= U (bl_retired (get_balance s' a k))) /\
  (forall k su, supplies s !! k = Some su -> exists su', supplies s' !! k = Some su' /\
       U (su_retired su) <= U (su_retired su') /\ U (su_cancelled su) <= U (su_cancelled su')).

Lemma mono_rel_refl s : mono_rel s s.
Proof. split; [intros; lia|]. intros k su Hk. exists su. split; [exact Hk | lia]. Qed.

Lemma mono_rel_trans a b c : mono_rel a b -> mono_rel b c -> mono_rel a c.
Proof.
  intros [A1 A2] [B1 B2]. split.
  - intros x k. specialize (A1 x k). specialize (B1 x k). lia.
  - intros k su Hk. destruct (A2 _ _ Hk) as (su1 & Hk1 & R1 & C1). destruct (B2 _ _ Hk1) as (su2 & Hk2 & R2 & C2).
    exists su2. split; [exact Hk2 | lia].
Qed.

Lemma mono_rel_eqs s s' : balances s' = balances s -> supplies s' = supplies s -> mono_rel s s'.
Proof.
  intros E1 E2. split.
  - intros a k. unfold get_balance. rewrite E1. lia.
  - intros k su Hk. exists su. rewrite E2. split; [exact Hk | lia].
Qed.

(* ------------------------------------------------------------------ *)
(* one successful handler                                              *)
(* ------------------------------------------------------------------ *)

Theorem handle_preserves_run e s m s' r evs :
  Inv_run s -> validate_basic m = true -> handle e s m = LOk (s', r, evs) -> Inv_run s' /\ mono_rel s s'.
Proof.
  intros (Hc & Hb & Hq) Hvb H. destruct (msg_cases m) as [Hm|[Hm|[Hm|Hm]]].
  - (* base credit messages *)
    destruct (base_preserves_basket _ _ _ _ _ _ Hm H) as (_ & _ & _ & _ & Hso).
    split; [split; [|split]|].
    + eapply base_preserves_core; eassumption.
    + eapply base_preserves_bound; eassumption.
    + eapply Inv_qty_ext; eassumption.
    + eapply base_monotone; eassumption.
  - (* administrative messages *)
    pose proof (admin_credit_frame _ _ _ _ _ _ Hm Hvb H) as F.
    split; [split; [|split]|].
    + eapply credit_frame_core; eassumption.
    + eapply admin_preserves_bound; eassumption.
    + eapply Inv_qty_ext; [apply (cf_sell_orders _ _ F) | exact Hq].
    + apply mono_rel_eqs; [apply (cf_balances _ _ F) | apply (cf_supplies _ _ F)].
  - (* basket messages *)
    destruct (basket_core_step _ _ _ _ _ _ Hm Hc Hvb H) as [Hc' S].
    split; [split; [|split]|].
    + exact Hc'.
    + exact (basket_preserves_bound _ _ _ _ _ _ Hm Hc Hvb Hb H).
    + eapply Inv_qty_ext; [apply (InvBasketLib.so_orders _ _ S) | exact Hq].
    + exact (basket_monotone _ _ _ _ _ _ Hm Hc Hvb H).
  - (* marketplace messages *)
    split; [split; [|split]|].
    + eapply market_preserves_core; eassumption.
    + eapply market_preserves_bound; eassumption.
    + eapply market_preserves_qty; eassumption.
    + eapply market_monotone; eassumption.
Qed.

(* the transaction rule: failed and invalid messages leave the state unchanged *)
Theorem deliver_preserves_run e s m : Inv_run s -> Inv_run (deliver e s m).1 /\ mono_rel s (deliver e s m).1.
Proof.
  intros Hi. apply (deliver_lift (fun a b => Inv_run b /\ mono_rel a b)).
  - split; [exact Hi | apply mono_rel_refl].
  - intros s' r evs Hvb H. eapply handle_preserves_run; eassumption.
Qed.

Theorem begin_block_preserves_run t s s' :
  Inv_run s -> begin_block t s = LOk s' -> Inv_run s' /\ mono_rel s s'.
Proof.
  intros (Hc & Hb & Hq) H. unfold begin_block in H. split; [split; [|split]|].
  - eapply prune_preserves_core; eassumption.
  - eapply prune_preserves_bound; eassumption.
  - eapply prune_preserves_qty; eassumption.
  - destruct (prune_monotone t s s' Hc H) as [E1 E2]. split.
    + intros a k. rewrite E2. lia.
    + intros k su Hk. exists su. rewrite E1. split; [exact Hk | lia].
Qed.

(* C12: begin-block never fails *)
Theorem begin_block_total_run t s : Inv_run s -> exists s', begin_block t s = LOk s' /\ Inv_run s'.
Proof.
  intros (Hc & Hb & Hq). destruct (begin_block_total t s Hc Hb Hq) as (s' & H & Hc' & Hb' & Hq' & _).
  exists s'. split; [exact H|]. split; [exact Hc' | split; assumption].
Qed.

(* ------------------------------------------------------------------ *)
(* histories                                                           *)
(* ------------------------------------------------------------------ *)

Theorem reaches_preserves_run g s : Inv_run g -> reaches g s -> Inv_run s /\ mono_rel g s.
Proof.
  intros Hg Hr. apply (reaches_inv_rel Inv_run mono_rel); try assumption.
  - apply mono_rel_refl.
  - apply mono_rel_trans.
  - intros t a b. apply begin_block_preserves_run.
  - intros e a m. apply deliver_preserves_run.
Qed.

Theorem run_preserves_run authority g h s : Inv_run g -> run authority g h = LOk s -> Inv_run s /\ mono_rel g s.
Proof. intros Hg H. apply reaches_preserves_run; [exact Hg | eapply run_reaches; exact H]. Qed.

(* C12: no history makes the chain halt *)
Theorem run_never_fails authority g h : Inv_run g -> exists s, run authority g h = LOk s /\ Inv_run s.
Proof.
  intros Hg. apply (run_total_of Inv_run authority); [apply begin_block_total_run | | exact Hg].
  intros e s m Hs. apply (deliver_preserves_run e s m Hs).
Qed.

Theorem reachable_begin_block_total g s t : Inv_run g -> reaches g s -> exists s', begin_block t s = LOk s'.
Proof.
  intros Hg Hr. destruct (reaches_preserves_run g s Hg Hr) as [Hs _].
  destruct (begin_block_total_run t s Hs) as (s' & H & _). eauto.
Qed.

(* C04 between any two points of a history *)
Theorem reaches_monotone g s1 s2 : Inv_run g -> reaches g s1 -> reaches s1 s2 -> mono_rel s1 s2.
Proof.
  intros Hg H1 H2. destruct (reaches_preserves_run g s1 Hg H1) as [Hs1 _].
  apply (reaches_preserves_run s1 s2 Hs1 H2).
Qed.
