(* Assembly, C03 (ownership) for the basket and marketplace families and for begin-block; the base module
   is Ledger/InvOwn.v (base_ownership).

   - basket messages: nobody's credit rows and nobody's coins change except the signer's;
   - Sell / UpdateSellOrders / CancelSellOrder and the governance messages without transfers: nobody's credit
     rows change except the signer's, and no coins move;
   - GovSendFromFeePool: signed by the authority; only the fee pool pays;
   - BuyDirect, per order (fill_order): the only third party touched is the seller of the filled order, whose
     escrow falls by exactly the bought quantity and whose coins rise by exactly the payment;
   - begin-block: only moves escrow back to tradable (prune_spec). *)
From stdpp Require Import gmap.
From RecordUpdate Require Import RecordSet.
From Coq Require Import ZArith NArith List Bool Lia Strings.Byte.
Require Import Regen.Base.Bytes Regen.Base.Calendar Regen.Dec.Dec.
Require Import Regen.Ledger.Types Regen.Ledger.Msgs Regen.Ledger.Orm Regen.Ledger.BaseMsgs
               Regen.Ledger.BasketMsgs Regen.Ledger.MarketMsgs Regen.Ledger.Step
               Regen.Ledger.Amount Regen.Ledger.MapSum Regen.Ledger.Inv Regen.Ledger.InvTactics.
Require Regen.Ledger.InvBasketLib Regen.Ledger.InvBasketPut Regen.Ledger.InvBasketTake Regen.Ledger.InvBasketAdmin.
Require Import Regen.Ledger.InvBasket Regen.Ledger.InvOwn Regen.Ledger.Auth.
Require Import Regen.Ledger.InvMarketLib Regen.Ledger.InvMarketPrim Regen.Ledger.InvMarketOrders
               Regen.Ledger.InvMarketSell Regen.Ledger.InvMarketPrune Regen.Ledger.InvMarketUpdate
               Regen.Ledger.InvMarketBuy Regen.Ledger.InvMarketFill Regen.Ledger.InvMarket.
Require Import Regen.Ledger.InvAllLib.
Import ListNotations RecordSetNotations.
Local Open Scope Z_scope.

(* everybody but [actor] keeps their credit rows *)
Definition rows_kept (actor : addr) (s s' : state) : Prop :=
  forall a k, a <> actor -> get_balance s' a k = get_balance s a k.

Lemma rows_kept_refl actor s : rows_kept actor s s.
Proof. intros a k _. reflexivity. Qed.

Lemma rows_kept_trans actor a b c : rows_kept actor a b -> rows_kept actor b c -> rows_kept actor a c.
Proof. intros A B x k Hne. rewrite (B x k Hne). apply A. exact Hne. Qed.

Lemma rows_kept_eq actor s s' : balances s' = balances s -> rows_kept actor s s'.
Proof. intros E a k _. unfold get_balance. rewrite E. reflexivity. Qed.

Lemma rows_kept_wr_bal a k b s s' : wr_bal a k b s s' -> rows_kept a s s'.
Proof.
  intros Hw a' k' Hne. rewrite (get_balance_wr_bal _ _ _ _ _ a' k' Hw).
  destruct (decide _) as [Heq|_]; [inversion Heq; congruence | reflexivity].
Qed.

(* ------------------------------------------------------------------ *)
(* basket family                                                       *)
(* ------------------------------------------------------------------ *)

Theorem basket_ownership e s m s' r evs :
  is_basket_msg m = true -> Inv_core s -> validate_basic m = true -> handle e s m = LOk (s', r, evs) ->
  (forall a k, a <> signer m -> get_balance s' a k = get_balance s a k) /\
  (forall a d, a <> signer m -> bank_bal s' a d = bank_bal s a d).
Proof.
  intros Hm Hc Hvb H. destruct m; try discriminate Hm; cbn [handle signer] in *.
  - (* Create: the curator pays the fee *)
    destruct (InvBasketAdmin.h_basket_create_spec _ _ _ _ _ _ _ _ _ _ _ _ H)
      as (s1 & cty & denom & dd & bc & Hfee & _ & _ & _ & Hs' & _). cbv zeta in Hs'.
    destruct (InvBasketLib.charge_fee_spec _ _ _ _ _ _ Hfee) as [B Hspec].
    destruct (InvBasketLib.bank_only_fields _ _ B) as (Eb & _). split.
    + intros a k _. rewrite Hs'. unfold get_balance. cbn. rewrite Eb. reflexivity.
    + intros a d Hne. rewrite Hs'. change (bank_bal s1 a d = bank_bal s a d).
      destruct (basket_fee s) as [req|]; [|subst s1; reflexivity].
      destruct (0 <? c_amount req); [|subst s1; reflexivity].
      destruct Hspec as [Hbal _]. rewrite Hbal. unfold InvBasketLib.at_key.
      destruct (decide _) as [Heq|_]; [inversion Heq; congruence | lia].
  - (* Put *)
    destruct (InvBasketPut.put_exact _ _ _ _ _ _ _ _ Hc H) as (id & k & l & _ & _ & Hbal & _ & Hpe). split.
    + intros a bk Hne. unfold get_balance. rewrite (InvBasketPut.pe_others _ _ _ _ _ _ _ _ Hpe a bk Hne). reflexivity.
    + intros a d Hne. rewrite Hbal. unfold InvBasketLib.at_key.
      destruct (decide _) as [Heq|_]; [inversion Heq; congruence | lia].
  - (* Take *)
    pose proof (vb_take_pos _ _ _ _ _ _ _ Hvb) as Hpos.
    destruct (InvBasketTake.take_exact _ _ _ _ _ _ _ _ _ Hc Hpos H) as (id & k & tok & rel & _ & _ & Hbal & _ & _ & _ & _ & Hte & _).
    split.
    + intros a bk Hne. unfold get_balance. rewrite (InvBasketTake.te_others _ _ _ _ _ _ Hte a bk Hne). reflexivity.
    + intros a d Hne. rewrite Hbal. unfold InvBasketLib.at_key.
      destruct (decide _) as [Heq|_]; [inversion Heq; congruence | lia].
  - apply update_basket_fee_spec in H. subst s'. split; intros; reflexivity.
  - apply update_curator_spec in H. destruct H as (id & k & k' & _ & _ & ->). split; intros; reflexivity.
  - apply update_date_criteria_spec in H. destruct H as (id & k & k' & _ & _ & ->). split; intros; reflexivity.
Qed.

(* the basket module account holds nothing back: its coins are unchanged by every basket message *)
Corollary basket_module_nets_to_zero e s m s' r evs :
  is_basket_msg m = true -> Inv_core s -> validate_basic m = true -> handle e s m = LOk (s', r, evs) ->
  signer m <> addr_basket -> forall d, bank_bal s' addr_basket d = bank_bal s addr_basket d.
Proof.
  intros Hm Hc Hvb H Hne d. apply (proj2 (basket_ownership _ _ _ _ _ _ Hm Hc Hvb H)). congruence.
Qed.

(* ------------------------------------------------------------------ *)
(* marketplace: messages that move no coins                            *)
(* ------------------------------------------------------------------ *)

Definition quiet (actor : addr) (s s' : state) : Prop := rows_kept actor s s' /\ bank s' = bank s.

Lemma quiet_refl actor s : quiet actor s s.
Proof. split; [apply rows_kept_refl | reflexivity]. Qed.

Lemma quiet_trans actor a b c : quiet actor a b -> quiet actor b c -> quiet actor a c.
Proof. intros [A1 A2] [B1 B2]. split; [eapply rows_kept_trans; eassumption | congruence]. Qed.

Lemma escrow_quiet a k q s s' : escrow_credits a k q s = LOk s' -> quiet a s s'.
Proof.
  unfold escrow_credits. intros H. lstep H as bal H1. lstep H as nt H2. lstep H as ne H3.
  apply update_balance_ok in H. destruct H as [Hw _].
  split; [eapply rows_kept_wr_bal; exact Hw | rewrite Hw; reflexivity].
Qed.

Lemma unescrow_quiet a k str s s' : unescrow_credits a k str s = LOk s' -> quiet a s s'.
Proof.
  unfold unescrow_credits. intros H. lstep H as qd H0. lstep H as bal H1. lstep H as ne H2. lstep H as nt H3.
  apply update_balance_ok in H. destruct H as [Hw _].
  split; [eapply rows_kept_wr_bal; exact Hw | rewrite Hw; reflexivity].
Qed.

Lemma markets_change_quiet actor s s1 :
  s1 = s <| markets := markets s1 |> <| market_seq_id := market_seq_id s1 |> -> quiet actor s s1.
Proof. intros H. split; [apply rows_kept_eq; rewrite H; reflexivity | rewrite H; reflexivity]. Qed.

Lemma sell_one_quiet e seller s ids o s' ids' : sell_one e seller (s, ids) o = LOk (s', ids') -> quiet seller s s'.
Proof.
  intros H. unfold sell_one in H.
  lstep H as p Hp. destruct p as [bk ba]. lstep H as p2 Hp2. destruct p2 as [abbrev ct]. lstep H as ask Hask.
  destruct (get_or_create_market abbrev (c_denom ask) s) as [s1 mid] eqn:Eg.
  lstep H as u1 Hu1. lstep H as q Hq. lstep H as s2 Hs2. lstep H as u2 Hu2. inversion H; subst s' ids'; clear H.
  destruct (gocm_spec _ _ _ _ _ Eg) as (Hs1 & _).
  eapply quiet_trans; [apply markets_change_quiet; exact Hs1|].
  eapply quiet_trans; [eapply escrow_quiet; exact Hs2|]. split; [apply rows_kept_eq|]; reflexivity.
Qed.

Lemma update_one_quiet e seller s u s' : update_one e seller s u = LOk s' -> quiet seller s s'.
Proof.
  intros H. rewrite update_one_unfold in H.
  lstep H as o Ho. lstep H as u1 Hu1. lstep H as ba Hba. lstep H as p Hp. destruct p as [abbrev ct].
  lstep H as tr Htr. destruct tr as [[s1 mid] amt]. lstep H as expiration Hexp.
  lstep H as qr Hqr. destruct qr as [s2 quantity]. lstep H as m Hm. inversion H; subst s'; clear H.
  apply N.eqb_eq in Hu1. subst seller.
  destruct (upd_ask_spec _ _ _ _ _ _ _ Htr) as (Hs1 & _).
  eapply quiet_trans; [apply markets_change_quiet; exact Hs1|].
  apply (quiet_trans (so_seller o) s1 s2); [|split; [apply rows_kept_eq|]; reflexivity].
  unfold upd_qty in Hqr. destruct (up_quantity u) as [|c0 uq0].
  { inversion Hqr; subst. apply quiet_refl. }
  lstep Hqr as nq Hnq. lstep Hqr as cq Hcq. destruct (cmp nq cq).
  - inversion Hqr; subst. apply quiet_refl.
  - lstep Hqr as d Hd. lstep Hqr as s3 Hs3. inversion Hqr; subst. eapply unescrow_quiet; exact Hs3.
  - lstep Hqr as d Hd. lstep Hqr as s3 Hs3. inversion Hqr; subst. eapply escrow_quiet; exact Hs3.
Qed.

Theorem market_quiet_ownership e s m s' r evs :
  match m with
  | MSell _ _ | MUpdateSellOrders _ _ | MCancelSellOrder _ _ | MAddAllowedDenom _ _ _ _ | MRemoveAllowedDenom _ _
  | MGovSetFeeParams _ _ => True
  | _ => False
  end ->
  handle e s m = LOk (s', r, evs) ->
  (forall a k, a <> signer m -> get_balance s' a k = get_balance s a k) /\ bank s' = bank s.
Proof.
  intros Hm H. change (quiet (signer m) s s').
  destruct m; try contradiction; cbn [handle signer] in *.
  - unfold h_sell in H. lstep H as acc Hacc. destruct acc as [s1 ids]. unfold ret in H. inversion H; subst s' r evs.
    change (quiet seller (s, @nil N).1 (s1, ids).1).
    eapply (lfold_inv (fun acc => quiet seller s acc.1)); [| |exact Hacc]; [|apply quiet_refl].
    intros [a ia] x [a' ia'] _ Ha Hf. cbn [fst] in *. eapply quiet_trans; [exact Ha | eapply sell_one_quiet; exact Hf].
  - unfold h_update_sell_orders in H. lstep H as s1 Hs1. unfold ret in H. inversion H; subst s' r evs.
    eapply (lfold_inv (fun x => quiet seller s x)); [| |exact Hs1]; [|apply quiet_refl].
    intros a x a' _ Ha Hf. eapply quiet_trans; [exact Ha | eapply update_one_quiet; exact Hf].
  - unfold h_cancel_sell_order in H. lstep H as o Ho. lstep H as u Hu. lstep H as s1 Hs1.
    unfold ret in H. inversion H; subst s' r evs.
    eapply quiet_trans; [eapply unescrow_quiet; exact Hs1|]. split; [apply rows_kept_eq|]; reflexivity.
  - unfold h_add_allowed_denom in H. lstep H as u1 H1. lstep H as u2 H2. lstep H as u3 H3.
    unfold ret in H. inversion H; subst. split; [apply rows_kept_eq|]; reflexivity.
  - unfold h_remove_allowed_denom in H. lstep H as u1 H1. lstep H as u2 H2.
    unfold ret in H. inversion H; subst. split; [apply rows_kept_eq|]; reflexivity.
  - unfold h_gov_set_fee_params in H. lstep H as u1 H1. lstep H as fp H2.
    unfold ret in H. inversion H; subst. split; [apply rows_kept_eq|]; reflexivity.
Qed.

(* ------------------------------------------------------------------ *)
(* GovSendFromFeePool                                                  *)
(* ------------------------------------------------------------------ *)

Lemma bank_sub_all_le a cs : forall s s', bank_sub_all a cs s = LOk s' ->
  forall a' d, a' <> a -> bank_bal s' a' d = bank_bal s a' d.
Proof.
  induction cs as [|c cs IH]; intros s s' H a' d Hne; cbn [bank_sub_all] in H.
  - inversion H. reflexivity.
  - apply lbind_ok in H. destruct H as (s1 & H1 & H2). rewrite (IH _ _ H2 a' d Hne).
    eapply bank_sub_bal; eassumption.
Qed.

Lemma bank_add_all_ge a cs : forall s a' d, Forall (fun c => 0 <= c_amount c) cs -> bank_bal s a' d <= bank_bal (bank_add_all a cs s) a' d.
Proof.
  unfold bank_add_all. induction cs as [|c cs IH]; intros s a' d Hall; cbn [fold_left]; [lia|].
  inversion Hall; subst. etransitivity; [|apply IH; assumption].
  unfold bank_add. rewrite InvMarketFill.bank_bal_set. destruct (decide _) as [Heq|_]; [inversion Heq; subst; lia | lia].
Qed.

Theorem fee_pool_ownership e s authority recipient coins s' r evs :
  handle e s (MGovSendFromFeePool authority recipient coins) = LOk (s', r, evs) ->
  authority = e_authority e /\ balances s' = balances s /\
  forall a d, a <> addr_feepool -> bank_bal s a d <= bank_bal s' a d.
Proof.
  cbn [handle]. unfold h_gov_send_from_fee_pool. intros H. lstep H as u1 H1. lstep H as s1 Hs1.
  unfold ret in H. inversion H; subst s' r evs. split; [apply Auth.is_authority_eq; exact H1|].
  unfold send_coins_from_module_to_account in Hs1. destruct (blocked_addr recipient); [discriminate|].
  destruct (send_coins_only _ _ _ _ _ Hs1) as [B _]. destruct (bank_only_fields _ _ B) as (Eb & _).
  split; [exact Eb|]. intros a d Hne. unfold send_coins in Hs1. destruct (negb (coins_valid coins)) eqn:Ev; [discriminate|].
  apply lbind_ok in Hs1. destruct Hs1 as (s0 & H0 & H2). inversion H2; subst s1.
  rewrite <- (bank_sub_all_le _ _ _ _ H0 a d Hne). apply bank_add_all_ge.
  apply negb_false_iff in Ev. unfold coins_valid in Ev. apply andb_true_iff in Ev. destruct Ev as [Ev _].
  apply Forall_forall. intros c Hin. rewrite forallb_forall in Ev. specialize (Ev c Hin).
  apply andb_true_iff in Ev. destruct Ev as [_ Ev]. apply Z.ltb_lt in Ev. lia.
Qed.

(* ------------------------------------------------------------------ *)
(* BuyDirect, one order                                                *)
(* ------------------------------------------------------------------ *)

Theorem fill_order_ownership id o buyer q bf st ar denom s s' :
  Inv_core s -> Inv_bound s -> sell_orders s !! id = Some o -> in_ok q -> 0 < U q -> buyer <> so_seller o ->
  fill_order id o buyer q bf st ar denom s = LOk s' ->
  (* credits: the only third party touched is the seller, who loses exactly q units of escrow *)
  (forall a k, a <> buyer -> (a, k) <> (so_seller o, so_batch_key o) -> get_balance s' a k = get_balance s a k) /\
  U (bl_escrowed (get_balance s' (so_seller o) (so_batch_key o))) =
    U (bl_escrowed (get_balance s (so_seller o) (so_batch_key o))) - U q /\
  bl_tradable (get_balance s' (so_seller o) (so_batch_key o)) = bl_tradable (get_balance s (so_seller o) (so_batch_key o)) /\
  bl_retired (get_balance s' (so_seller o) (so_batch_key o)) = bl_retired (get_balance s (so_seller o) (so_batch_key o)) /\
  U q <= order_units o /\
  (* coins: only the buyer pays; the seller receives exactly the payment *)
  exists fee pay, 0 <= fee /\ 0 <= pay /\
    (forall a d, a <> buyer -> bank_bal s a d <= bank_bal s' a d) /\
    (so_seller o <> addr_feepool ->
     bank_bal s' (so_seller o) denom = bank_bal s (so_seller o) denom + pay) /\
    (forall d, bank_bal s buyer d - (if decide (d = denom) then fee + pay else 0) <= bank_bal s' buyer d).
Proof.
  intros Hc Hb Ho Hq Hpos Hne H.
  destruct (fill_order_spec _ _ _ _ _ _ _ _ _ _ Hc Hb Ho Hq Hpos Hne H)
    as (Hle & _ & _ & HE & HT & HR & _ & _ & Hoth & _ & _ & rate & sfee & tfee & payment & fee & pay & _ & _ & _ & _ & Hfee0 & _ & _ & Hpay0 & Hbal & _).
  cbv zeta in *.
  split; [intros a k Ha Hak; apply Hoth; [exact Hak | congruence]|].
  split; [exact HE|]. split; [exact HT|]. split; [exact HR|]. split; [exact Hle|].
  exists fee, pay. split; [exact Hfee0|]. split; [exact Hpay0|]. split; [|split].
  - intros a d Ha. rewrite Hbal. unfold at_.
    destruct (decide ((a, d) = (buyer, denom))) as [Heq|_]; [inversion Heq; congruence|].
    destruct (decide ((a, d) = (so_seller o, denom))); destruct (bytes_eqb denom uregen);
      try destruct (decide ((a, d) = (addr_feepool, denom))); lia.
  - intros Hsf. rewrite Hbal. unfold at_.
    destruct (decide ((so_seller o, denom) = (buyer, denom))) as [Heq|_]; [inversion Heq; congruence|].
    destruct (decide ((so_seller o, denom) = (so_seller o, denom))) as [_|Hx]; [|contradiction].
    destruct (bytes_eqb denom uregen); [lia|].
    destruct (decide ((so_seller o, denom) = (addr_feepool, denom))) as [Heq|_]; [inversion Heq; congruence | lia].
  - intros d. rewrite Hbal. unfold at_.
    destruct (decide ((buyer, d) = (buyer, denom))) as [Heq|Hn].
    + inversion Heq; subst d. destruct (decide (denom = denom)) as [_|Hx]; [|contradiction].
      destruct (decide ((buyer, denom) = (so_seller o, denom))); destruct (bytes_eqb denom uregen);
        try destruct (decide ((buyer, denom) = (addr_feepool, denom))); lia.
    + destruct (decide (d = denom)) as [->|_]; [contradiction|].
      destruct (decide ((buyer, d) = (so_seller o, denom))); destruct (bytes_eqb denom uregen);
        try destruct (decide ((buyer, d) = (addr_feepool, denom))); lia.
Qed.

(* ------------------------------------------------------------------ *)
(* begin-block                                                         *)
(* ------------------------------------------------------------------ *)

Theorem begin_block_ownership t s s' :
  Inv_core s -> begin_block t s = LOk s' ->
  (forall a k, holdings s' a k = holdings s a k) /\
  (forall a k, U (bl_tradable (get_balance s a k)) <= U (bl_tradable (get_balance s' a k))) /\
  (forall a k, bl_retired (get_balance s' a k) = bl_retired (get_balance s a k)) /\
  bank s' = bank s.
Proof.
  intros Hc H. unfold begin_block in H. destruct (prune_spec t s s' Hc H) as (_ & H1 & H2 & H3 & Heq).
  split; [exact H1|]. split; [exact H2|]. split; [exact H3|]. rewrite Heq. reflexivity.
Qed.
