(* C12: why BeginBlock totality needs Inv_qty.  A state satisfying Inv_core (and every other invariant
   except Inv_qty) on which BeginBlock (prune_sell_orders) returns an error.

   apd's upscale refuses operands whose exponents differ by more than MaxExponent = 100000
   (Dec.add_gen's first test).  The order below has the quantity string "1e100000" (exponent 100000); the
   seller's tradable balance is 0.000001 (exponent -6): unescrowCredits' SafeAddBalance fails with
   "exponent out of range", PruneSellOrders returns the error and the module's BeginBlock panics (chain
   halt).  Before the fix "store sellQty.String()" such a state was reachable: Sell stored the raw user
   string (issue "1e100000" to S; S sells "1e100000" with an expiration; send 0.000001 to S; wait).  After
   the fix every stored quantity is a plain rendering, Inv_qty holds, and InvMarket.begin_block_total
   applies.  This file is the regression witness on the model side; the Go scenario lives in the harness.

   The proof is symbolic in N = 10^100000 so that no 100000-digit number is ever computed. *)
From stdpp Require Import gmap.
From RecordUpdate Require Import RecordSet.
From Coq Require Import ZArith NArith List Bool Lia Strings.Byte Strings.String.
Require Import Regen.Base.Bytes Regen.Base.Calendar Regen.Dec.Dec Regen.Dec.DecLemmas.
Require Import Regen.Ledger.Types Regen.Ledger.Msgs Regen.Ledger.Orm Regen.Ledger.BaseMsgs
               Regen.Ledger.BasketMsgs Regen.Ledger.MarketMsgs Regen.Ledger.Step
               Regen.Ledger.Amount Regen.Ledger.MapSum Regen.Ledger.Inv Regen.Ledger.InvTactics
               Regen.Ledger.InvMarketLib Regen.Ledger.InvMarketPrim Regen.Ledger.InvMarketOrders
               Regen.Ledger.InvMarketPrune.
Import ListNotations RecordSetNotations.
Local Open Scope Z_scope.

Definition halt_qty : bytes := b "1e100000".
Definition halt_q : dec := mkDec false 1 100000.

Definition halt_order : sell_order :=
  {| so_seller := 0%N; so_batch_key := 1%N; so_quantity := halt_qty; so_market_id := 1%N; so_ask_amount := 1;
     so_disable_auto_retire := false; so_expiration := Some {| secs := 10; nanos := 0 |}; so_maker := true |}.

Definition halt_batch : batch :=
  {| ba_issuer := 0%N; ba_project_key := 1%N; ba_denom := []; ba_metadata := [];
     ba_start := {| secs := 0; nanos := 0 |}; ba_end := {| secs := 1; nanos := 0 |};
     ba_issuance := {| secs := 0; nanos := 0 |}; ba_open := false |}.

Definition halt_row (n : Z) : balance :=
  {| bl_tradable := mkDec false 1 (-6); bl_retired := dzero; bl_escrowed := mkDec false n 0 |}.

Definition halt_supply (n : Z) : supply :=
  {| su_tradable := mkDec false (n * 10 ^ 6 + 1) (-6); su_retired := dzero; su_cancelled := dzero |}.

Definition halt_state (n : Z) : state :=
  {| credit_types := ∅; classes := ∅; class_seq_id := 0; class_issuers := ∅; projects := ∅; project_seq_id := 0;
     batches := {[ 1%N := halt_batch ]}; batch_seq_id := 1;
     class_sequences := ∅; project_sequences := ∅; batch_sequences := ∅;
     balances := {[ (0%N, 1%N) := halt_row n ]}; supplies := {[ 1%N := halt_supply n ]};
     origin_txs := ∅; batch_contracts := ∅; allowlist_enabled := false; allowed_creators := ∅; class_fee := None;
     allowed_bridge_chains := ∅; baskets := ∅; basket_seq_id := 0; basket_classes := ∅; basket_balances := ∅;
     basket_fee := None; sell_orders := {[ 1%N := halt_order ]}; sell_order_seq_id := 1; allowed_denoms := ∅;
     markets := ∅; market_seq_id := 0; fee_params_ := None; bank := ∅; bank_supply := ∅ |}.

Definition halt_time : ts := {| secs := 20; nanos := 0 |}.

Lemma halt_parse : parse halt_qty = Ok halt_q.
Proof. vm_compute. reflexivity. Qed.

Lemma halt_add : safe_add_balance (mkDec false 1 (-6)) halt_q = Err ERange.
Proof. vm_compute. reflexivity. Qed.

Lemma sum_map_singleton {K V} `{Countable K} (f : K -> V -> Z) k v : sum_map f {[ k := v ]} = f k v.
Proof.
  rewrite <- insert_empty. rewrite sum_map_insert_fresh by apply lookup_empty. rewrite sum_map_empty. lia.
Qed.

Section halt.
  Variable n : Z.
  Hypothesis halt_n_pos : 0 < n.
  Hypothesis halt_U_q : U halt_q = n * 10 ^ 6.

  Lemma halt_U_esc : U (mkDec false n 0) = n * 10 ^ 6.
  Proof. unfold U, units, dint. cbn [dneg dcoef dexp]. unfold P. reflexivity. Qed.

  Lemma halt_U_trad : U (mkDec false 1 (-6)) = 1.
  Proof. reflexivity. Qed.

  Lemma halt_U_sup : U (mkDec false (n * 10 ^ 6 + 1) (-6)) = n * 10 ^ 6 + 1.
  Proof. unfold U, units, dint. cbn [dneg dcoef dexp]. unfold P. change (10 ^ (-6 + 6)) with 1. ring. Qed.

  Lemma halt_order_ok : order_ok halt_order.
  Proof.
    exists halt_q. cbn [so_quantity halt_order]. split; [exact halt_parse|]. split.
    - unfold in_ok, halt_q. cbn [dneg dcoef dexp]. unfold P. split; [clear; lia|]. split; [discriminate | clear; lia].
    - rewrite halt_U_q. pose proof halt_n_pos. lia.
  Qed.

  Lemma halt_order_units : order_units halt_order = n * 10 ^ 6.
  Proof. rewrite (order_units_parse halt_order halt_q halt_parse). apply halt_U_q. Qed.

  Lemma halt_row_ok : balance_ok (halt_row n).
  Proof.
    pose proof halt_n_pos as Hp. unfold balance_ok, halt_row. cbn [bl_tradable bl_retired bl_escrowed].
    split; [|split; [apply stored_ok_zero|]]; unfold stored_ok; cbn [dneg dcoef dexp]; unfold P;
      (split; [lia|]); (split; [discriminate | clear; lia]).
  Qed.

  Lemma halt_supply_ok : supply_ok (halt_supply n).
  Proof.
    pose proof halt_n_pos as Hp. unfold supply_ok, halt_supply. cbn [su_tradable su_retired su_cancelled].
    split; [|split; apply stored_ok_zero]. unfold stored_ok; cbn [dneg dcoef dexp]; unfold P.
    split; [lia|]. split; [discriminate | clear; lia].
  Qed.

  Theorem halt_state_inv : Inv_core (halt_state n).
  Proof.
    unfold Inv_core. split; [|split; [|split; [|split]]].
    - intros a ct H. cbn in H. rewrite lookup_empty in H. discriminate.
    - split; [|split; [|split]].
      + intros k0 b0 H. cbn in H. apply lookup_singleton_Some in H. destruct H as [_ <-]. apply halt_row_ok.
      + intros k0 b0 H. cbn in H. apply lookup_singleton_Some in H. destruct H as [_ <-]. apply halt_supply_ok.
      + intros k0 b0 H. cbn in H. rewrite lookup_empty in H. discriminate.
      + intros k0 b0 H. cbn in H. apply lookup_singleton_Some in H. destruct H as [_ <-]. apply halt_order_ok.
    - split; [|split; [|split; [|split; [|split; [|split; [|split]]]]]].
      + intros k1 k2 b1 b2 H1 H2 _. cbn in H1, H2. apply lookup_singleton_Some in H1, H2.
        destruct H1 as [<- _], H2 as [<- _]. reflexivity.
      + intros k0. cbn. split; intros [x Hx]; apply lookup_singleton_Some in Hx; destruct Hx as [<- _];
          rewrite lookup_singleton; eauto.
      + intros a0 k0 b0 H. cbn in H |- *. apply lookup_singleton_Some in H. destruct H as [Heq _].
        inversion Heq; subst. rewrite lookup_singleton. eauto.
      + intros id d bb H. cbn in H. rewrite lookup_empty in H. discriminate.
      + intros id o H. cbn in H |- *. apply lookup_singleton_Some in H. destruct H as [_ <-].
        cbn [so_batch_key halt_order]. rewrite lookup_singleton. eauto.
      + intros k0 [x Hx]. cbn in Hx |- *. apply lookup_singleton_Some in Hx. destruct Hx as [<- _]. lia.
      + intros k0 [x Hx]. cbn in Hx |- *. apply lookup_singleton_Some in Hx. destruct Hx as [<- _]. lia.
      + intros k0 [x Hx]. cbn in Hx. rewrite lookup_empty in Hx. discriminate.
    - intros bk ba su Hba Hsu.
      change (batches (halt_state n)) with ({[ 1%N := halt_batch ]} : gmap N batch) in Hba.
      change (supplies (halt_state n)) with ({[ 1%N := halt_supply n ]} : gmap N supply) in Hsu.
      change (balances (halt_state n)) with ({[ (0%N, 1%N) := halt_row n ]} : gmap (addr * N) balance).
      change (basket_balances (halt_state n)) with (∅ : gmap (N * bytes) basket_balance).
      apply lookup_singleton_Some in Hba, Hsu. destruct Hba as [<- <-], Hsu as [_ <-].
      unfold bal_sum, bb_sum. rewrite !sum_map_singleton, sum_map_empty. cbn [snd]. rewrite N.eqb_refl.
      unfold tradable_escrowed, retired_of, halt_row, halt_supply.
      cbn [bl_tradable bl_retired bl_escrowed su_tradable su_retired].
      rewrite halt_U_sup, halt_U_esc, halt_U_trad, U_dzero. split; lia.
    - intros a bk. unfold get_balance.
      change (balances (halt_state n)) with ({[ (0%N, 1%N) := halt_row n ]} : gmap (addr * N) balance).
      change (sell_orders (halt_state n)) with ({[ 1%N := halt_order ]} : gmap N sell_order).
      rewrite order_sum_eq, sum_map_singleton, ofun_cases. cbn [so_seller so_batch_key halt_order].
      destruct (decide ((a, bk) = (0%N, 1%N))) as [Heq|Hne].
      + inversion Heq; subst a bk. rewrite lookup_singleton. destruct (decide _) as [_|Hc]; [|exfalso; apply Hc; reflexivity].
        cbn [default from_option id halt_row bl_escrowed]. rewrite halt_U_esc, halt_order_units. reflexivity.
      + rewrite lookup_singleton_ne by congruence. destruct (decide _) as [Hc|_]; [exfalso; apply Hne; exact Hc|]. reflexivity.
  Qed.

  Lemma halt_expired : expired_orders halt_time (halt_state n) = [(1%N, halt_order)].
  Proof. vm_compute. reflexivity. Qed.

  Lemma halt_lookup : balances (halt_state n) !! (0%N, 1%N) = Some (halt_row n).
  Proof. cbn [balances halt_state]. apply lookup_singleton. Qed.

  Theorem halt_prune_fails : exists e, prune_sell_orders halt_time (halt_state n) = LErr e.
  Proof.
    rewrite prune_unfold, halt_expired. cbn [lfold]. unfold unesc_step. cbn [snd so_seller so_batch_key so_quantity halt_order].
    unfold unescrow_credits. rewrite halt_parse. cbn [lift lbind]. cbn [balances halt_state]. rewrite lookup_singleton.
    cbn [from_option lbind halt_row bl_escrowed bl_tradable].
    destruct (safe_sub_balance (mkDec false n 0) halt_q) as [ne|err]; cbn [lift lbind]; [|eauto].
    rewrite halt_add. cbn [lift lbind]. eauto.
  Qed.
End halt.

Lemma halt_n_facts : 0 < 10 ^ 100000 /\ U halt_q = 10 ^ 100000 * 10 ^ 6.
Proof.
  split; [apply pow10_gt0; clear; lia|].
  unfold U, units, dint, halt_q. cbn [dneg dcoef dexp]. unfold P.
  rewrite (Z.pow_add_r 10 100000 6) by (clear; lia). apply Z.mul_1_l.
Qed.

(* Inv_core (together with Inv_orders-free, Inv_bound-free reasoning) does not imply that BeginBlock succeeds *)
Theorem begin_block_can_halt :
  exists s t e, Inv_core s /\ begin_block t s = LErr e.
Proof.
  destruct halt_n_facts as [H1 H2].
  exists (halt_state (10 ^ 100000)), halt_time.
  destruct (halt_prune_fails (10 ^ 100000)) as [e He]. exists e.
  split; [apply halt_state_inv; assumption | exact He].
Qed.

(* the state violates exactly Inv_qty *)
Theorem halt_state_not_qty : ~ Inv_qty (halt_state (10 ^ 100000)).
Proof.
  intros H. destruct (H 1%N halt_order) as (d & Hp & He).
  - cbn [sell_orders halt_state]. apply lookup_singleton.
  - change (so_quantity halt_order) with halt_qty in Hp. rewrite halt_parse in Hp. inversion Hp; subst d.
    cbn [dexp halt_q] in He. clear - He. lia.
Qed.
