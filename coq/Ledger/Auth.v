(* C08, first sentence: a state-changing message succeeds only if its signer holds the required role
   in the pre-state. *)
From stdpp Require Import gmap.
From RecordUpdate Require Import RecordSet.
From Coq Require Import ZArith NArith List Bool Lia Strings.Byte.
Require Import Regen.Base.Bytes Regen.Base.Calendar Regen.Dec.Dec.
Require Import Regen.Ledger.Types Regen.Ledger.Msgs Regen.Ledger.Orm Regen.Ledger.BaseMsgs
               Regen.Ledger.BasketMsgs Regen.Ledger.MarketMsgs Regen.Ledger.Step
               Regen.Ledger.InvTactics.
Import RecordSetNotations ListNotations.
Local Open Scope Z_scope.

Definition class_admin_is (s : state) (class_id : bytes) (a : addr) : Prop :=
  exists k c, class_by_id s class_id = Some (k, c) /\ cl_admin c = a.
Definition project_admin_is (s : state) (project_id : bytes) (a : addr) : Prop :=
  exists k p, project_by_id s project_id = Some (k, p) /\ pj_admin p = a.
Definition batch_issuer_is (s : state) (denom : bytes) (a : addr) (must_be_open : bool) : Prop :=
  exists k ba, batch_by_denom s denom = Some (k, ba) /\ ba_issuer ba = a /\ (must_be_open = true -> ba_open ba = true).
Definition class_issuer_of_class (s : state) (class_id : bytes) (a : addr) : Prop :=
  exists k c, class_by_id s class_id = Some (k, c) /\ is_issuer s k a = true.
Definition class_issuer_of_project (s : state) (project_id : bytes) (a : addr) : Prop :=
  exists k p, project_by_id s project_id = Some (k, p) /\ is_issuer s (pj_class_key p) a = true.

(* the role table of property C08 *)
Definition required_role (e : env) (s : state) (m : msg) : Prop :=
  match m with
  | MCreateClass admin _ _ _ _ => can_create_class s admin = true
  | MCreateProject admin class_id _ _ _ => class_issuer_of_class s class_id admin
  | MCreateBatch issuer project_id _ _ _ _ _ _ => class_issuer_of_project s project_id issuer
  | MMintBatchCredits issuer denom _ _ => batch_issuer_is s denom issuer true
  | MSealBatch issuer denom => batch_issuer_is s denom issuer false
  | MUpdateBatchMetadata issuer denom _ => batch_issuer_is s denom issuer true
  | MUpdateClassAdmin admin class_id _ | MUpdateClassIssuers admin class_id _ _ | MUpdateClassMetadata admin class_id _ =>
      class_admin_is s class_id admin
  | MUpdateProjectAdmin admin project_id _ | MUpdateProjectMetadata admin project_id _ => project_admin_is s project_id admin
  | MBridgeReceive issuer class_id _ _ _ =>
      (* mints into the batch bound to the contract (batch issuer, open) or creates project/batch (class issuer) *)
      (exists denom, batch_issuer_is s denom issuer true) \/
      (exists project_id, class_issuer_of_project s project_id issuer) \/
      class_issuer_of_class s class_id issuer
  | MAddCreditType a _ _ _ _ | MSetClassCreatorAllowlist a _ | MAddClassCreator a _ | MRemoveClassCreator a _
  | MUpdateClassFee a _ | MAddAllowedBridgeChain a _ | MRemoveAllowedBridgeChain a _
  | MUpdateBasketFee a _ | MUpdateDateCriteria a _ _
  | MAddAllowedDenom a _ _ _ | MRemoveAllowedDenom a _ | MGovSetFeeParams a _ | MGovSendFromFeePool a _ _ =>
      a = e_authority e
  | MUpdateCurator curator denom _ => exists id k, basket_by_denom s denom = Some (id, k) /\ bk_curator k = curator
  | MCancelSellOrder seller id => exists o, sell_orders s !! id = Some o /\ so_seller o = seller
  | MUpdateSellOrders seller updates =>
      forall u, In u updates -> exists o, sell_orders s !! up_id u = Some o /\ so_seller o = seller
  (* messages that act on the signer's own holdings need no role (see the ownership theorems, C03) *)
  | MSend _ _ _ | MRetire _ _ _ _ | MCancel _ _ _ | MBridge _ _ _ _ | MBurnRegen _ _ _
  | MBasketCreate _ _ _ _ _ _ _ _ | MPut _ _ _ | MTake _ _ _ _ _ _ _ | MSell _ _ | MBuyDirect _ _
  | MBankSend _ _ _ | MUnimplemented _ => True
  end.

Lemma is_authority_eq e a : is_authority e a = true -> a = e_authority e.
Proof. unfold is_authority. intros H. apply N.eqb_eq in H. congruence. Qed.

(* ---------- sell orders under UpdateSellOrders ---------- *)

Lemma escrow_credits_orders a k q s s' : escrow_credits a k q s = LOk s' -> sell_orders s' = sell_orders s.
Proof.
  unfold escrow_credits. intros H. lstep H as bal H1. lstep H as nt H2. lstep H as ne H3.
  apply update_balance_ok in H. destruct H as [-> _]. reflexivity.
Qed.

Lemma unescrow_credits_orders a k q s s' : unescrow_credits a k q s = LOk s' -> sell_orders s' = sell_orders s.
Proof.
  unfold unescrow_credits. intros H. lstep H as qd H0. lstep H as bal H1. lstep H as ne H2. lstep H as nt H3.
  apply update_balance_ok in H. destruct H as [-> _]. reflexivity.
Qed.

Lemma get_or_create_market_orders ct d s : sell_orders (get_or_create_market ct d s).1 = sell_orders s.
Proof. unfold get_or_create_market. destruct (map_find _ _) as [[id mk]|]; reflexivity. Qed.

(* an update rewrites exactly the order it names, keeps its seller, and needs the seller to be the signer *)
Lemma update_one_orders e seller s u s' :
  update_one e seller s u = LOk s' ->
  (exists o, sell_orders s !! up_id u = Some o /\ so_seller o = seller) /\
  (forall id o', sell_orders s' !! id = Some o' -> exists o, sell_orders s !! id = Some o /\ so_seller o = so_seller o') /\
  (forall id o, sell_orders s !! id = Some o -> exists o', sell_orders s' !! id = Some o' /\ so_seller o' = so_seller o).
Proof.
  unfold update_one. intros H.
  lstep H as o Ho. lstep H as u1 Hs. apply N.eqb_eq in Hs. lstep H as ba Hba. lstep H as p1 Hct. destruct p1 as [abbrev ct].
  lstep H as t1 H1. destruct t1 as [[s1 market_id] ask_amount].
  lstep H as expiration H2. lstep H as t2 H3. destruct t2 as [s2 quantity].
  lstep H as m Hm. inversion H; subst s'; clear H.
  apply orm_update_ok in Hm. destruct Hm as [-> _].
  assert (Hs1 : sell_orders s1 = sell_orders s).
  { destruct (up_ask u) as [ask|]; [| inversion H1; reflexivity].
    lstep H1 as mk Hmk. lstep H1 as u2 Hal.
    destruct (bytes_eqb _ _); [inversion H1; reflexivity|].
    pose proof (get_or_create_market_orders abbrev (c_denom ask) s) as Hg.
    destruct (get_or_create_market abbrev (c_denom ask) s) as [sx idx]. inversion H1; subst. exact Hg. }
  assert (Hs2 : sell_orders s2 = sell_orders s1).
  { destruct (up_quantity u) as [|c0 rest]; [inversion H3; reflexivity|].
    lstep H3 as nq Hnq. lstep H3 as cq Hcq.
    destruct (cmp nq cq).
    - inversion H3; reflexivity.
    - lstep H3 as d Hd. lstep H3 as sx Hsx. inversion H3; subst. eapply unescrow_credits_orders; exact Hsx.
    - lstep H3 as d Hd. lstep H3 as sx Hsx. inversion H3; subst. eapply escrow_credits_orders; exact Hsx. }
  cbn. rewrite Hs2, Hs1.
  split; [exists o; split; [exact Ho | exact Hs]|]. split.
  - intros id o' Hl. destruct (decide (up_id u = id)) as [<-|Hne].
    + rewrite lookup_insert in Hl. inversion Hl; subst o'. exists o. split; [exact Ho | reflexivity].
    + rewrite lookup_insert_ne in Hl by exact Hne. exists o'. split; [exact Hl | reflexivity].
  - intros id o0 Hl. destruct (decide (up_id u = id)) as [<-|Hne].
    + rewrite lookup_insert. eexists. split; [reflexivity|]. cbn. rewrite Ho in Hl. inversion Hl. reflexivity.
    + rewrite lookup_insert_ne by exact Hne. exists o0. split; [exact Hl | reflexivity].
Qed.

Lemma update_all_orders e seller updates : forall s s',
  lfold (update_one e seller) updates s = LOk s' ->
  forall u, In u updates -> exists o, sell_orders s !! up_id u = Some o /\ so_seller o = seller.
Proof.
  induction updates as [|u0 updates IH]; cbn [lfold]; intros s s' H u Hin; [destruct Hin|].
  lstep H as s1 Hs1. destruct (update_one_orders _ _ _ _ _ Hs1) as (Hfirst & Hback & _).
  destruct Hin as [<-|Hin]; [exact Hfirst|].
  destruct (IH _ _ H u Hin) as (o1 & Ho1 & Hsel).
  destruct (Hback _ _ Ho1) as (o & Ho & Heq). exists o. split; [exact Ho | congruence].
Qed.

(* ---------- the theorem ---------- *)

Theorem handle_requires_role e s m s' r evs :
  handle e s m = LOk (s', r, evs) -> required_role e s m.
Proof.
  intros H. destruct m; cbn [handle required_role] in *; try exact I.
  - unfold h_create_class in H. lstep H as u1 H1. exact H1.
  - unfold h_create_project in H. lstep H as p1 H1. destruct p1 as [ck cl]. lstep H as u1 H2.
    exists ck, cl. split; assumption.
  - unfold h_create_batch in H. lstep H as p1 H1. destruct p1 as [pk pj]. lstep H as cl H2. lstep H as u1 H3.
    exists pk, pj. split; assumption.
  - unfold h_mint_batch_credits in H. lstep H as p1 H1. destruct p1 as [bk ba]. lstep H as u1 H2. lstep H as u2 H3.
    apply N.eqb_eq in H3. exists bk, ba. split; [exact H1|]. split; [exact H3 | intros _; exact H2].
  - unfold h_seal_batch in H. lstep H as p1 H1. destruct p1 as [bk ba]. lstep H as u1 H2.
    apply N.eqb_eq in H2. exists bk, ba. split; [exact H1|]. split; [exact H2 | discriminate].
  - unfold h_update_class_admin in H. lstep H as p1 H1. destruct p1 as [k c]. lstep H as u1 H2.
    apply N.eqb_eq in H2. exists k, c. split; assumption.
  - unfold h_update_class_issuers in H. lstep H as p1 H1. destruct p1 as [k c]. lstep H as u1 H2.
    apply N.eqb_eq in H2. exists k, c. split; assumption.
  - unfold h_update_class_metadata in H. lstep H as p1 H1. destruct p1 as [k c]. lstep H as u1 H2.
    apply N.eqb_eq in H2. exists k, c. split; assumption.
  - unfold h_update_project_admin in H. lstep H as p1 H1. destruct p1 as [k c]. lstep H as u1 H2.
    apply N.eqb_eq in H2. exists k, c. split; assumption.
  - unfold h_update_project_metadata in H. lstep H as p1 H1. destruct p1 as [k c]. lstep H as u1 H2.
    apply N.eqb_eq in H2. exists k, c. split; assumption.
  - unfold h_update_batch_metadata in H. lstep H as p1 H1. destruct p1 as [bk ba]. lstep H as u1 H2. lstep H as u2 H3.
    apply N.eqb_eq in H3. exists bk, ba. split; [exact H1|]. split; [exact H3 | intros _; exact H2].
  - (* BridgeReceive *)
    unfold h_bridge_receive in H. lstep H as otxv H1. lstep H as bbv H2. lstep H as ppv H3. lstep H as u1 H4.
    lstep H as p1 H5. destruct p1 as [ck cl].
    destruct (map_find _ (batch_contracts s)) as [[bk bc]|].
    + left. lstep H as bav Hba. lstep H as pjv Hpj. lstep H as t1 Hm. destruct t1 as [[sx rx] ex].
      unfold h_mint_batch_credits in Hm. lstep Hm as q1 G1. destruct q1 as [bk' ba']. lstep Hm as v1 G2. lstep Hm as v2 G3.
      apply N.eqb_eq in G3. exists (ba_denom bav), bk', ba'. split; [exact G1|]. split; [exact G3 | intros _; exact G2].
    + lstep H as t1 Hp. destruct t1 as [s1 project_id].
      lstep H as t2 Hb. destruct t2 as [[s2 r2] e2].
      destruct (map_find _ (projects s)) as [[pkv pjv]|] eqn:Ef.
      * (* existing project of this class: the batch creation checks the issuer list of its class *)
        inversion Hp; subst s1 project_id; clear Hp.
        unfold h_create_batch in Hb. lstep Hb as q1 G1. destruct q1 as [pk' pj']. lstep Hb as cl' G2. lstep Hb as v1 G3.
        right. left. exists (pj_id pjv), pk', pj'. split; [exact G1 | exact G3].
      * lstep Hp as t3 Hc. destruct t3 as [[s3 r3] e3].
        unfold h_create_project in Hc. lstep Hc as q1 G1. destruct q1 as [ck' cl']. lstep Hc as v1 G2.
        right. right. exists ck', cl'. split; [exact G1 | exact G2].
  - unfold h_add_credit_type in H. lstep H as u1 H1. apply is_authority_eq. exact H1.
  - unfold h_set_allowlist in H. lstep H as u1 H1. apply is_authority_eq. exact H1.
  - unfold h_add_class_creator in H. lstep H as u1 H1. apply is_authority_eq. exact H1.
  - unfold h_remove_class_creator in H. lstep H as u1 H1. apply is_authority_eq. exact H1.
  - unfold h_update_class_fee in H. lstep H as u1 H1. apply is_authority_eq. exact H1.
  - unfold h_add_allowed_bridge_chain in H. lstep H as u1 H1. apply is_authority_eq. exact H1.
  - unfold h_remove_allowed_bridge_chain in H. lstep H as u1 H1. apply is_authority_eq. exact H1.
  - unfold h_update_basket_fee in H. lstep H as u1 H1. apply is_authority_eq. exact H1.
  - unfold h_update_curator in H. lstep H as p1 H1. destruct p1 as [id k]. lstep H as u1 H2.
    apply N.eqb_eq in H2. exists id, k. split; assumption.
  - unfold h_update_date_criteria in H. lstep H as u1 H1. apply is_authority_eq. exact H1.
  - unfold h_update_sell_orders in H. lstep H as s1 Hs1. eapply update_all_orders; exact Hs1.
  - unfold h_cancel_sell_order in H. lstep H as o Ho. lstep H as u1 H2. apply N.eqb_eq in H2. exists o. split; assumption.
  - unfold h_add_allowed_denom in H. lstep H as u1 H1. apply is_authority_eq. exact H1.
  - unfold h_remove_allowed_denom in H. lstep H as u1 H1. apply is_authority_eq. exact H1.
  - unfold h_gov_set_fee_params in H. lstep H as u1 H1. apply is_authority_eq. exact H1.
  - unfold h_gov_send_from_fee_pool in H. lstep H as u1 H1. apply is_authority_eq. exact H1.
Qed.
