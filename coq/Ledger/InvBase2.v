(* Base-module credit handlers, part 2: writes to the batch table (SealBatch, UpdateBatchMetadata)
   and CreateBatch.  Proof file.

   CreateBatch inserts the batch row first, runs the issuance loop, and inserts the supply row
   last; in between the "supply row exists for every batch" clause of Inv_keys does not hold.  The
   loop is therefore verified on the *virtual* state [set_supply bk zero_supply s] (the state with
   an all-zero supply row for the new batch), which satisfies the invariant up to pending deltas
   (U tsum, U rsum); the final insert of the real supply row discharges the deltas. *)
From stdpp Require Import gmap.
From RecordUpdate Require Import RecordSet.
From Coq Require Import ZArith NArith List Bool Lia Strings.Byte.
Require Import Regen.Base.Bytes Regen.Base.Calendar Regen.Dec.Dec Regen.Dec.DecIface.
Require Import Regen.Ledger.Types Regen.Ledger.Msgs Regen.Ledger.Orm Regen.Ledger.BaseMsgs
               Regen.Ledger.BasketMsgs Regen.Ledger.MarketMsgs Regen.Ledger.Step
               Regen.Ledger.Amount Regen.Ledger.MapSum Regen.Ledger.Inv Regen.Ledger.InvTactics
               Regen.Ledger.InvBaseLib Regen.Ledger.InvBase1.
Import ListNotations RecordSetNotations.
Local Open Scope Z_scope.

Lemma core_eq_trans s1 s2 s3 : core_eq s1 s2 -> core_eq s2 s3 -> core_eq s1 s3.
Proof.
  intros (A1 & A2 & A3 & A4 & A5 & A6 & A7 & A8 & A9 & A10 & A11 & A12)
         (B1 & B2 & B3 & B4 & B5 & B6 & B7 & B8 & B9 & B10 & B11 & B12).
  unfold core_eq.
  split; [congruence|]. split; [congruence|]. split; [congruence|]. split; [congruence|].
  split; [congruence|]. split; [congruence|]. split; [congruence|]. split; [congruence|].
  split; [congruence|]. split; [congruence|]. split; congruence.
Qed.

Lemma core_eq_step_ok s s' : core_eq s s' -> Inv_core s -> step_ok s s'.
Proof.
  intros He Hinv. split; [eapply core_eq_inv; eassumption|].
  split; [apply base_rel_core_eq; exact He|].
  apply totals_same_supplies_eq. apply He.
Qed.

(* ------------------------------------------------------------------ *)
(* replacing the batch table by one with the same keys and denoms       *)
(* ------------------------------------------------------------------ *)

Lemma batches_replace_core s (m' : gmap N batch) :
  Inv_core s ->
  (forall k, option_map ba_denom (m' !! k) = option_map ba_denom (batches s !! k)) ->
  Inv_core (s <| batches := m' |>).
Proof.
  intros (Ict & Isc & Ik & Ic & Ie) Hm.
  assert (Ha : forall k b', m' !! k = Some b' -> exists b, batches s !! k = Some b /\ ba_denom b = ba_denom b').
  { intros k b' Hk. specialize (Hm k). rewrite Hk in Hm. destruct (batches s !! k) as [b|]; cbn in Hm; [|discriminate].
    exists b. split; [reflexivity | congruence]. }
  assert (Hb : forall k b, batches s !! k = Some b -> exists b', m' !! k = Some b' /\ ba_denom b' = ba_denom b).
  { intros k b Hk. specialize (Hm k). rewrite Hk in Hm. destruct (m' !! k) as [b'|]; cbn in Hm; [|discriminate].
    exists b'. split; [reflexivity | congruence]. }
  assert (Hc : forall k, is_Some (m' !! k) <-> is_Some (batches s !! k)).
  { intros k. split; intros [x Hx].
    - destruct (Ha _ _ Hx) as (b & Hb' & _). rewrite Hb'. eauto.
    - destruct (Hb _ _ Hx) as (b & Hb' & _). rewrite Hb'. eauto. }
  destruct Ik as (K1 & K2 & K3 & K4 & K5 & K6 & K7 & K8).
  split; [exact Ict|]. split; [exact Isc|]. split; [|split; [|exact Ie]].
  - unfold Inv_keys. change (batches (s <| batches := m' |>)) with m'.
    split; [|split; [|split; [|split; [|split; [|split; [|split]]]]]].
    + intros k1 k2 b1 b2 H1 H2 Hd.
      destruct (Ha _ _ H1) as (o1 & Ho1 & Hd1). destruct (Ha _ _ H2) as (o2 & Ho2 & Hd2).
      eapply K1; [exact Ho1 | exact Ho2 | congruence].
    + intros k. rewrite Hc. apply K2.
    + intros a k b H0. apply Hc. eapply K3. exact H0.
    + intros id d bb H0. destruct (K4 _ _ _ H0) as ((k & ba & Hk & Hd) & Hbk).
      split; [|exact Hbk]. destruct (Hb _ _ Hk) as (b' & Hb' & Hd'). exists k, b'. split; [exact Hb' | congruence].
    + intros id o H0. apply Hc. eapply K5. exact H0.
    + intros k Hk. apply K6. apply Hc. exact Hk.
    + exact K7.
    + exact K8.
  - intros bk ba' su Hba Hsu. change (m' !! bk = Some ba') in Hba.
    destruct (Ha _ _ Hba) as (ba & Hba0 & Hd). rewrite <- Hd. exact (Ic _ _ _ Hba0 Hsu).
Qed.

Lemma set_batch_ok s bk ba ba' :
  Inv_core s -> batches s !! bk = Some ba -> batch_static ba ba' -> step_ok s (set_batch bk ba' s).
Proof.
  intros Hinv Hba Hst. split; [|split].
  - unfold set_batch. apply batches_replace_core; [exact Hinv|].
    intros k. destruct (decide (bk = k)) as [Heq|Hne].
    + subst k. rewrite lookup_insert, Hba. cbn. f_equal. apply Hst.
    + rewrite lookup_insert_ne by exact Hne. reflexivity.
  - split; [reflexivity|reflexivity|reflexivity|reflexivity|reflexivity|reflexivity| | | ].
    + intros a k. apply Z.le_refl.
    + intros k su Hk. exists su. split; [exact Hk | lia].
    + intros k b Hk. change (batches (set_batch bk ba' s)) with (<[bk := ba']> (batches s)).
      destruct (decide (bk = k)) as [Heq|Hne].
      * subst k. rewrite lookup_insert. exists ba'. rewrite Hba in Hk. inversion Hk; subst b.
        split; [reflexivity | exact Hst].
      * rewrite lookup_insert_ne by exact Hne. exists b. split; [exact Hk | apply batch_static_refl].
  - apply totals_same_supplies_eq. reflexivity.
Qed.

(* ------------------------------------------------------------------ *)
(* SealBatch, UpdateBatchMetadata                                      *)
(* ------------------------------------------------------------------ *)

Lemma h_seal_batch_ok e s issuer denom s' r evs :
  Inv_core s -> h_seal_batch e s issuer denom = LOk (s', r, evs) -> step_ok s s'.
Proof.
  intros Hinv H. unfold h_seal_batch in H.
  lstep H as p Hp. destruct p as [bk ba]. cbv beta iota in H.
  lstep H as u Hu.
  apply batch_by_denom_Some in Hp. destruct Hp as [Hba _].
  destruct (ba_open ba) eqn:Eopen; cbn [negb] in H; unfold ret in H; inversion H; subst s' r evs.
  - eapply set_batch_ok; [exact Hinv | exact Hba |].
    unfold batch_static. cbn. repeat split; reflexivity.
  - apply step_ok_refl. exact Hinv.
Qed.

Lemma h_update_batch_metadata_ok e s issuer denom md s' r evs :
  Inv_core s -> h_update_batch_metadata e s issuer denom md = LOk (s', r, evs) -> step_ok s s'.
Proof.
  intros Hinv H. unfold h_update_batch_metadata in H.
  lstep H as p Hp. destruct p as [bk ba]. cbv beta iota in H.
  lstep H as u Hu. lstep H as u2 Hu2.
  apply batch_by_denom_Some in Hp. destruct Hp as [Hba _].
  unfold ret in H; inversion H; subst s' r evs.
  eapply set_batch_ok; [exact Hinv | exact Hba |].
  unfold batch_static. cbn. repeat split; auto; intros Hf; congruence.
Qed.

(* ------------------------------------------------------------------ *)
(* a new, empty batch                                                  *)
(* ------------------------------------------------------------------ *)

Definition zero_supply : supply := {| su_tradable := dzero; su_retired := dzero; su_cancelled := dzero |}.

Definition with_batch (bk : N) (ba : batch) (s : state) : state :=
  s <| batches := <[bk := ba]> (batches s) |> <| batch_seq_id := bk |>.

Lemma zero_supply_ok : supply_ok zero_supply.
Proof. unfold supply_ok, zero_supply; cbn. auto using stored_ok_zero. Qed.

Lemma fresh_batch_key s bk :
  Inv_keys s -> bk = (batch_seq_id s + 1)%N ->
  batches s !! bk = None /\ supplies s !! bk = None /\ (forall a, balances s !! (a, bk) = None).
Proof.
  intros (K1 & K2 & K3 & K4 & K5 & K6 & K7 & K8) Hbk.
  assert (Hb : batches s !! bk = None).
  { destruct (batches s !! bk) as [x|] eqn:E; [|reflexivity]. exfalso.
    assert (Hle : (bk <= batch_seq_id s)%N) by (apply K6; rewrite E; eauto). lia. }
  split; [exact Hb|]. split.
  - destruct (supplies s !! bk) as [x|] eqn:E; [|reflexivity]. exfalso.
    assert (Hs : is_Some (batches s !! bk)) by (apply K2; rewrite E; eauto).
    rewrite Hb in Hs. destruct Hs as [y Hy]. discriminate.
  - intros a. destruct (balances s !! (a, bk)) as [x|] eqn:E; [|reflexivity]. exfalso.
    pose proof (K3 _ _ _ E) as Hs. rewrite Hb in Hs. destruct Hs as [y Hy]. discriminate.
Qed.

Lemma add_empty_batch_core s bk ba :
  Inv_core s -> bk = (batch_seq_id s + 1)%N ->
  (forall k b, batches s !! k = Some b -> ba_denom b <> ba_denom ba) ->
  Inv_core (set_supply bk zero_supply (with_batch bk ba s)).
Proof.
  intros (Ict & Isc & Ik & Ic & Ie) Hbk Hfresh.
  destruct (fresh_batch_key s bk Ik Hbk) as (Fb & Fs & Fbal).
  pose proof Ik as (K1 & K2 & K3 & K4 & K5 & K6 & K7 & K8).
  set (s1 := set_supply bk zero_supply (with_batch bk ba s)).
  assert (E1 : batches s1 = <[bk := ba]> (batches s)) by reflexivity.
  assert (E2 : supplies s1 = <[bk := zero_supply]> (supplies s)) by reflexivity.
  assert (E3 : batch_seq_id s1 = bk) by reflexivity.
  assert (E4 : balances s1 = balances s) by reflexivity.
  assert (E5 : basket_balances s1 = basket_balances s) by reflexivity.
  assert (E6 : sell_orders s1 = sell_orders s) by reflexivity.
  assert (E7 : baskets s1 = baskets s) by reflexivity.
  assert (E8 : sell_order_seq_id s1 = sell_order_seq_id s) by reflexivity.
  assert (E9 : basket_seq_id s1 = basket_seq_id s) by reflexivity.
  assert (E0 : credit_types s1 = credit_types s) by reflexivity.
  clearbody s1.
  split; [unfold Inv_ct; rewrite E0; exact Ict|]. split; [|split; [|split]].
  - destruct Isc as (S1 & S2 & S3 & S4). unfold Inv_scale. rewrite E2, E4, E5, E6.
    split; [exact S1|]. split; [|exact (conj S3 S4)].
    intros k su Hk. destruct (decide (bk = k)) as [Heq|Hne].
    + subst k. rewrite lookup_insert in Hk. inversion Hk; subst su. apply zero_supply_ok.
    + rewrite lookup_insert_ne in Hk by exact Hne. eapply S2; exact Hk.
  - unfold Inv_keys. rewrite E1, E2, E3, E4, E5, E6, E7, E8, E9.
    split; [|split; [|split; [|split; [|split; [|split; [|split]]]]]].
    + intros k1 k2 b1 b2 H1 H2 Hd.
      destruct (decide (bk = k1)) as [Heq1|Hne1]; destruct (decide (bk = k2)) as [Heq2|Hne2].
      * congruence.
      * subst k1. rewrite lookup_insert in H1. inversion H1; subst b1.
        rewrite lookup_insert_ne in H2 by exact Hne2. exfalso. eapply Hfresh; [exact H2 | congruence].
      * subst k2. rewrite lookup_insert in H2. inversion H2; subst b2.
        rewrite lookup_insert_ne in H1 by exact Hne1. exfalso. eapply Hfresh; [exact H1 | congruence].
      * rewrite lookup_insert_ne in H1 by exact Hne1. rewrite lookup_insert_ne in H2 by exact Hne2.
        eapply K1; eassumption.
    + intros k. destruct (decide (bk = k)) as [Heq|Hne].
      * subst k. rewrite !lookup_insert. split; intros _; eauto.
      * rewrite !lookup_insert_ne by exact Hne. apply K2.
    + intros a k b H0. apply lookup_insert_is_Some'. right. eapply K3; exact H0.
    + intros id d bb H0. destruct (K4 _ _ _ H0) as ((k & b & Hk & Hd) & Hbs). split; [|exact Hbs].
      exists k, b. split; [|exact Hd]. rewrite lookup_insert_ne; [exact Hk|]. intros <-. congruence.
    + intros id o H0. apply lookup_insert_is_Some'. right. eapply K5; exact H0.
    + intros k Hk. apply lookup_insert_is_Some' in Hk. destruct Hk as [<-|Hk]; [lia|].
      apply K6 in Hk. lia.
    + exact K7.
    + exact K8.
  - unfold Inv_cons. rewrite E1, E2, E4, E5. intros bk' ba' su Hba Hsu.
    destruct (decide (bk = bk')) as [Heq|Hne].
    + subst bk'. rewrite lookup_insert in Hba. rewrite lookup_insert in Hsu. inversion Hba; subst ba'. inversion Hsu; subst su.
      assert (Z1 : forall g, bal_sum g bk (balances s) = 0).
      { intros g. unfold bal_sum. apply sum_map_zero. intros [a k] v Hkv. cbn [snd].
        destruct (k =? bk)%N eqn:E; [|reflexivity]. apply N.eqb_eq in E. subst k.
        rewrite Fbal in Hkv. discriminate. }
      assert (Z2 : bb_sum (ba_denom ba) (basket_balances s) = 0).
      { unfold bb_sum. apply sum_map_zero. intros [id d] v Hkv. cbn [snd].
        destruct (bytes_eqb d (ba_denom ba)) eqn:E; [|reflexivity]. apply bytes_eqb_eq in E. subst d.
        destruct (K4 _ _ _ Hkv) as ((k & b & Hk & Hd) & _). exfalso. eapply Hfresh; [exact Hk | exact Hd]. }
      rewrite !Z1, Z2. unfold zero_supply. cbn [su_tradable su_retired]. rewrite U_dzero. split; reflexivity.
    + rewrite lookup_insert_ne in Hba by exact Hne. rewrite lookup_insert_ne in Hsu by exact Hne.
      exact (Ic _ _ _ Hba Hsu).
  - unfold Inv_escrow, get_balance. rewrite E4, E6. exact Ie.
Qed.

Lemma base_rel_with_batch s bk ba : batches s !! bk = None -> base_rel s (with_batch bk ba s).
Proof.
  intros Hb. split; [reflexivity|reflexivity|reflexivity|reflexivity|reflexivity|reflexivity| | | ].
  - intros a k. apply Z.le_refl.
  - intros k su Hk. exists su. split; [exact Hk | lia].
  - intros k b Hk. exists b. split; [|apply batch_static_refl].
    change (batches (with_batch bk ba s)) with (<[bk := ba]> (batches s)).
    rewrite lookup_insert_ne; [exact Hk|]. intros <-. congruence.
Qed.

Lemma base_rel_new_supply s bk v : supplies s !! bk = None -> base_rel s (set_supply bk v s).
Proof.
  intros Hb. split; [reflexivity|reflexivity|reflexivity|reflexivity|reflexivity|reflexivity| | | ].
  - intros a k. apply Z.le_refl.
  - intros k su Hk. exists su. split; [|lia]. rewrite supplies_set_supply.
    rewrite lookup_insert_ne; [exact Hk|]. intros <-. congruence.
  - intros k b Hk. exists b. split; [exact Hk | apply batch_static_refl].
Qed.

(* ------------------------------------------------------------------ *)
(* the issuance loop of CreateBatch                                    *)
(* ------------------------------------------------------------------ *)

Lemma save_set_comm a k b k' v s :
  save_balance a k b (set_supply k' v s) = set_supply k' v (save_balance a k b s).
Proof. reflexivity. Qed.

Lemma set_supply_twice k v w s : set_supply k w (set_supply k v s) = set_supply k w s.
Proof. unfold set_supply. destruct s. cbn. rewrite insert_insert. reflexivity. Qed.

Lemma Inv_d_eq bk dt dr dt' dr' s : Inv_d bk dt dr s -> dt = dt' -> dr = dr' -> Inv_d bk dt' dr' s.
Proof. intros H -> ->. exact H. Qed.

Definition cb_inv (bk : N) (acc : state * dec * dec) : Prop :=
  Inv_d bk (U acc.1.2) (U acc.2) (set_supply bk zero_supply acc.1.1) /\
  in_ok acc.1.2 /\ in_ok acc.2 /\ is_Some (batches acc.1.1 !! bk).

Lemma cond_sum_ok (x t x' : dec) :
  in_ok x -> in_ok t ->
  (if is_zero t then LOk x else lift (add x t)) = LOk x' -> in_ok x' /\ U x' = U x + U t.
Proof.
  intros Hx Ht H. destruct (is_zero t) eqn:Ez.
  - inversion H; subst x'. pose proof (is_zero_U _ Ht Ez) as Hz. split; [exact Hx | lia].
  - apply lift_ok in H. apply add_in_ok; assumption.
Qed.

Lemma create_batch_issue_ok bk s t r i s' t' r' :
  cb_inv bk (s, t, r) -> create_batch_issue P bk (s, t, r) i = LOk (s', t', r') ->
  cb_inv bk (s', t', r') /\ base_rel s s' /\
  (supplies s' = supplies s /\ batch_seq_id s' = batch_seq_id s) /\
  U t' + U r' = U t + U r + (amt_units (is_tradable i) + amt_units (is_retired i)).
Proof.
  intros (Hd & Ht & Hr & Hbk) H. cbn [fst snd] in Hd, Ht, Hr, Hbk.
  unfold create_batch_issue in H.
  lstep H as t0 Ht0. lstep H as r0 Hr0. cbv zeta in H.
  lstep H as tb Htb. lstep H as rb Hrb. lstep H as t1 Ht1. lstep H as r1 Hr1.
  inversion H; subst s' t' r'; clear H.
  rewrite (amt_units_ok _ _ Ht0), (amt_units_ok _ _ Hr0).
  apply nnfixed_in_ok in Ht0. apply nnfixed_in_ok in Hr0.
  set (a := is_recipient i) in *.
  set (sv := set_supply bk zero_supply s) in *.
  set (bal := get_balance s a bk) in *.
  assert (Hbal : balance_ok bal) by (apply (get_balance_ok sv a bk); apply Hd).
  destruct Hbal as (Hbal1 & Hbal2 & Hbal3).
  destruct (add_in_ok _ _ _ (stored_in_ok _ Hbal1) Ht0 Htb) as [Htb1 Htb2].
  destruct (dnorm_ok _ Htb1) as [Htb3 Htb4].
  destruct (add_in_ok _ _ _ (stored_in_ok _ Hbal2) Hr0 Hrb) as [Hrb1 Hrb2].
  destruct (dnorm_ok _ Hrb1) as [Hrb3 Hrb4].
  destruct (cond_sum_ok _ _ _ Ht Ht0 Ht1) as [Ht1a Ht1b].
  destruct (cond_sum_ok _ _ _ Hr Hr0 Hr1) as [Hr1a Hr1b].
  set (b1 := {| bl_tradable := dnorm tb; bl_retired := dnorm rb; bl_escrowed := bl_escrowed bal |}) in *.
  assert (Hb1 : balance_ok b1) by (unfold b1, balance_ok; cbn [bl_tradable bl_retired bl_escrowed]; auto).
  assert (Hbkv : is_Some (batches sv !! bk)) by exact Hbk.
  pose proof (Inv_d_save_balance a bk b1 _ _ sv Hd Hbkv Hb1 eq_refl) as Hd1.
  change (save_balance a bk b1 sv) with (set_supply bk zero_supply (save_balance a bk b1 s)) in Hd1.
  change (get_balance sv a bk) with bal in Hd1.
  pose proof (in_ok_U_nonneg _ Hr0) as Hr00.
  split; [|split; [|split]].
  - unfold cb_inv. cbn [fst snd]. split; [|split; [exact Ht1a|split; [exact Hr1a | exact Hbk]]].
    eapply Inv_d_eq; [exact Hd1 | |].
    + unfold tradable_escrowed, b1. cbn [bl_tradable bl_retired bl_escrowed]. clearbody bal. lia.
    + unfold retired_of, b1. cbn [bl_tradable bl_retired bl_escrowed]. clearbody bal. lia.
  - apply (base_rel_save_balance a bk b1 s). fold bal. unfold b1. cbn [bl_retired]. lia.
  - split; reflexivity.
  - lia.
Qed.

Lemma create_loop_ok bk : forall iss s t r s' t' r',
  cb_inv bk (s, t, r) -> lfold (create_batch_issue P bk) iss (s, t, r) = LOk (s', t', r') ->
  cb_inv bk (s', t', r') /\ base_rel s s' /\
  (supplies s' = supplies s /\ batch_seq_id s' = batch_seq_id s) /\
  U t' + U r' = U t + U r + issued_units iss.
Proof.
  induction iss as [|i iss IH]; intros s t r s' t' r' Hinv Hl; cbn [lfold] in Hl.
  - inversion Hl; subst s' t' r'. split; [exact Hinv|]. split; [apply base_rel_refl|].
    split; [split; reflexivity|]. cbn [issued_units fold_right]. lia.
  - apply lbind_ok in Hl. destruct Hl as (a1 & H1 & H2). destruct a1 as [[s1 t1] r1].
    destruct (create_batch_issue_ok _ _ _ _ _ _ _ _ Hinv H1) as (Hinv1 & Hrel1 & Hsup1 & Hu1).
    destruct (IH _ _ _ _ _ _ Hinv1 H2) as (Hinv2 & Hrel2 & Hsup2 & Hu2).
    split; [exact Hinv2|]. split; [eapply base_rel_trans; eassumption|].
    split; [destruct Hsup1, Hsup2; split; congruence|]. cbn [issued_units fold_right]. fold (issued_units iss). lia.
Qed.

(* ------------------------------------------------------------------ *)
(* CreateBatch                                                         *)
(* ------------------------------------------------------------------ *)

Lemma origin_tx_block_core_eq (otx : option origin_tx) ck bk s s' :
  match otx with
  | None => LOk s
  | Some o =>
      lbind (insert_origin_tx ck o s) (fun s =>
        match ot_contract o with
        | [] => LOk s
        | _ => if contract_taken s ck (ot_contract o) then LErr LInvalid
               else lbind (orm_insert bk {| bc_class_key := ck; bc_contract := ot_contract o |} (batch_contracts s))
                          (fun m => LOk (s <| batch_contracts := m |>))
        end)
  end = LOk s' -> core_eq s s'.
Proof.
  intros H. destruct otx as [o|]; [|inversion H; subst s'; apply core_eq_refl].
  lstep H as s1 Hs1. unfold insert_origin_tx in Hs1.
  destruct (bool_decide _) in Hs1; [discriminate|]. inversion Hs1; subst s1; clear Hs1.
  destruct (ot_contract o) as [|c0 cs].
  - inversion H; subst s'. unfold core_eq. repeat split.
  - destruct (contract_taken _ _ _); [discriminate|].
    lstep H as m Hm. inversion H; subst s'. unfold core_eq. repeat split.
Qed.

Lemma insert_origin_tx_core_eq ck o s s' : insert_origin_tx ck o s = LOk s' -> core_eq s s'.
Proof.
  unfold insert_origin_tx. destruct (bool_decide _); [discriminate|].
  intros H. inversion H; subst s'. unfold core_eq. repeat split.
Qed.

Theorem h_create_batch_ok e s issuer project_id iss metadata start_ end_ open otx s' r evs :
  Inv_core s ->
  h_create_batch e s issuer project_id iss metadata start_ end_ open otx = LOk (s', r, evs) ->
  Inv_core s' /\ base_rel s s' /\
  totals_create (batch_seq_id s + 1)%N (issued_units iss) s s' /\
  batch_seq_id s' = (batch_seq_id s + 1)%N.
Proof.
  intros Hinv H. unfold h_create_batch in H.
  lstep H as p Hp. destruct p as [pk pj]. cbv beta iota in H.
  lstep H as cl Hcl. lstep H as u1 Hu1. cbv zeta in H.
  lstep H as sd Hsd. lstep H as ed Hed. lstep H as u2 Hu2. lstep H as ct Hct.
  lstep H as acc Hloop. destruct acc as [[s2 tsum] rsum]. cbv beta iota in H.
  lstep H as m Hm. lstep H as s3 Hotx.
  unfold ret in H. inversion H; subst s' r evs; clear H.
  pose proof Hinv as (Ict & Isc & Ik & Ic & Ie).
  set (bk := (batch_seq_id s + 1)%N) in *.
  set (s0 := s <| batch_sequences := <[pk := (default 1%N (batch_sequences s !! pk) + 1)%N]> (batch_sequences s) |>) in *.
  set (denom := Regen.Ids.Ids.format_batch_denom (pj_id pj) (default 1%N (batch_sequences s !! pk)) sd ed) in *.
  set (ba := {| ba_issuer := issuer; ba_project_key := pk; ba_denom := denom; ba_metadata := metadata;
                ba_start := sd; ba_end := ed; ba_issuance := e_time e; ba_open := open |}) in *.
  assert (Hs0 : core_eq s s0) by (unfold core_eq; repeat split).
  pose proof (core_eq_inv _ _ Hs0 Hinv) as Hinv0.
  (* precision *)
  assert (Hprec : ct_precision ct = P) by (eapply Ict; exact Hct).
  rewrite Hprec in Hloop.
  (* the denom is new *)
  apply negb_true_iff in Hu2.
  assert (Hfresh : forall k b, batches s0 !! k = Some b -> ba_denom b <> ba_denom ba).
  { intros k b Hk Heq. pose proof (map_exists_false _ _ Hu2 k b Hk) as Hf. cbn beta in Hf.
    assert (Ht : bytes_eqb (ba_denom b) denom = true) by (apply bytes_eqb_eq; exact Heq).
    rewrite Ht in Hf. discriminate. }
  pose proof (add_empty_batch_core s0 bk ba Hinv0 eq_refl Hfresh) as Hcore1.
  destruct (fresh_batch_key s0 bk (proj1 (proj2 (proj2 Hinv0))) eq_refl) as (Fb & Fs & Fbal).
  set (s1 := with_batch bk ba s0) in *.
  assert (Hcb : cb_inv bk (s1, dzero, dzero)).
  { unfold cb_inv. cbn [fst snd]. rewrite U_dzero.
    split; [apply Inv_d_intro; exact Hcore1|]. split; [apply in_ok_dzero|]. split; [apply in_ok_dzero|].
    change (batches s1) with (<[bk := ba]> (batches s0)). rewrite lookup_insert. eauto. }
  change (lfold (create_batch_issue P bk) iss (s1, dzero, dzero) = LOk (s2, tsum, rsum)) in Hloop.
  destruct (create_loop_ok bk iss _ _ _ _ _ _ Hcb Hloop) as (Hcb2 & Hrel2 & (Hsup2 & Hseq2) & Hu).
  destruct Hcb2 as (Hd2 & Htsum & Hrsum & Hbk2). cbn [fst snd] in Hd2, Htsum, Hrsum, Hbk2.
  apply orm_insert_ok in Hm. destruct Hm as [-> Hnone].
  set (v := {| su_tradable := dnorm tsum; su_retired := dnorm rsum; su_cancelled := dzero |}) in *.
  destruct (dnorm_ok _ Htsum) as [Hts1 Hts2]. destruct (dnorm_ok _ Hrsum) as [Hrs1 Hrs2].
  assert (Hv : supply_ok v).
  { unfold v, supply_ok; cbn [su_tradable su_retired su_cancelled].
    split; [exact Hts1|]. split; [exact Hrs1 | apply stored_ok_zero]. }
  assert (Hzs : supplies (set_supply bk zero_supply s2) !! bk = Some zero_supply).
  { rewrite supplies_set_supply. apply lookup_insert. }
  pose proof (Inv_d_set_supply bk zero_supply v _ _ _ Hd2 Hzs Hv) as Hd3.
  rewrite set_supply_twice in Hd3.
  assert (Hcore3 : Inv_core (set_supply bk v s2)).
  { eapply Inv_d_elim; [exact Hd3 | |]; unfold zero_supply, v; cbn [su_tradable su_retired];
      rewrite U_dzero; lia. }
  apply origin_tx_block_core_eq in Hotx.
  assert (Hotx' : core_eq (set_supply bk v s2) s3) by exact Hotx.
  clear Hotx. rename Hotx' into Hotx.
  split; [eapply core_eq_inv; [exact Hotx | exact Hcore3]|].
  split; [|split].
  - eapply base_rel_trans; [apply base_rel_core_eq; exact Hs0|].
    eapply base_rel_trans; [apply (base_rel_with_batch s0 bk ba Fb)|].
    eapply base_rel_trans; [exact Hrel2|].
    eapply base_rel_trans; [apply (base_rel_new_supply s2 bk v Hnone)|].
    apply base_rel_core_eq. exact Hotx.
  - assert (Hs3 : supplies s3 = <[bk := v]> (supplies s)).
    { destruct Hotx as (_ & _ & E3 & _). rewrite E3. rewrite supplies_set_supply. rewrite Hsup2. reflexivity. }
    unfold totals_create. rewrite Hs3. split; [exact Fs|]. split.
    + intros k Hk. rewrite lookup_insert_ne by congruence. reflexivity.
    + exists v. split; [apply lookup_insert|]. unfold T, v. cbn [su_tradable su_retired su_cancelled].
      rewrite U_dzero in *. lia.
  - destruct Hotx as (_ & _ & _ & _ & E5 & _). rewrite E5.
    change (batch_seq_id (set_supply bk v s2)) with (batch_seq_id s2). rewrite Hseq2. reflexivity.
Qed.

(* CreateProject (called by BridgeReceive) touches none of the tables the core invariant reads *)
Lemma h_create_project_core_eq e s admin class_id metadata jurisdiction reference_id s' r evs :
  h_create_project e s admin class_id metadata jurisdiction reference_id = LOk (s', r, evs) -> core_eq s s'.
Proof.
  intros H. unfold h_create_project in H.
  lstep H as p Hp. destruct p as [ck cl]. cbv beta iota in H.
  lstep H as u1 Hu1. cbv zeta in H. lstep H as u2 Hu2. lstep H as u3 Hu3.
  unfold ret in H. inversion H; subst s' r evs. unfold core_eq. repeat split.
Qed.
