(* Ledger invariants (statements only; preservation proofs are in Inv*Proofs.v files).
   All amounts are measured in units of 10^-6 credits ([Amount.U]); every credit type has
   precision 6, which CreditType.Validate enforces for genesis and AddCreditType alike. *)
From stdpp Require Import gmap.
From Coq Require Import ZArith NArith List Bool Strings.Byte.
Require Import Regen.Base.Bytes Regen.Base.Calendar Regen.Dec.Dec.
Require Import Regen.Ledger.Types Regen.Ledger.Msgs Regen.Ledger.Orm Regen.Ledger.BaseMsgs
               Regen.Ledger.BasketMsgs Regen.Ledger.MarketMsgs Regen.Ledger.Step
               Regen.Ledger.Amount Regen.Ledger.MapSum.
Local Open Scope Z_scope.

(* ------------------------------------------------------------------ *)
(* sums                                                                *)
(* ------------------------------------------------------------------ *)

(* sum of g over the balance rows of batch bk *)
Definition bal_sum (g : balance -> Z) (bk : N) (m : gmap (addr * N) balance) : Z :=
  sum_map (fun k v => if (k.2 =? bk)%N then g v else 0) m.

(* credits of the batch with denom d held in all baskets *)
Definition bb_sum (d : bytes) (m : gmap (N * bytes) basket_balance) : Z :=
  sum_map (fun k v => if bytes_eqb k.2 d then U (bb_balance v) else 0) m.

(* credits held by basket id *)
Definition basket_total (id : N) (m : gmap (N * bytes) basket_balance) : Z :=
  sum_map (fun k v => if (k.1 =? id)%N then U (bb_balance v) else 0) m.

Definition order_units (o : sell_order) : Z :=
  match parse (so_quantity o) with Ok d => U d | Err _ => 0 end.

(* quantity of the open sell orders of seller a for batch bk *)
Definition order_sum (a : addr) (bk : N) (m : gmap N sell_order) : Z :=
  sum_map (fun _ o => if (so_seller o =? a)%N && (so_batch_key o =? bk)%N then order_units o else 0) m.

Definition tradable_escrowed (b : balance) : Z := U (bl_tradable b) + U (bl_escrowed b).
Definition retired_of (b : balance) : Z := U (bl_retired b).

(* ------------------------------------------------------------------ *)
(* invariant families                                                  *)
(* ------------------------------------------------------------------ *)

(* every credit type has precision 6 *)
Definition Inv_ct (s : state) : Prop :=
  forall a ct, credit_types s !! a = Some ct -> ct_precision ct = P.

(* C01, second sentence: every stored amount is a non-negative decimal within the precision *)
Definition balance_ok (b : balance) : Prop :=
  stored_ok (bl_tradable b) /\ stored_ok (bl_retired b) /\ stored_ok (bl_escrowed b).
Definition supply_ok (su : supply) : Prop :=
  stored_ok (su_tradable su) /\ stored_ok (su_retired su) /\ stored_ok (su_cancelled su).
Definition order_ok (o : sell_order) : Prop :=
  exists d, parse (so_quantity o) = Ok d /\ in_ok d /\ 0 < U d.

Definition Inv_scale (s : state) : Prop :=
  (forall k b, balances s !! k = Some b -> balance_ok b) /\
  (forall k su, supplies s !! k = Some su -> supply_ok su) /\
  (forall k bb, basket_balances s !! k = Some bb -> stored_ok (bb_balance bb) /\ 0 < U (bb_balance bb)) /\
  (forall k o, sell_orders s !! k = Some o -> order_ok o).

(* keys: batch denoms are unique; supply rows exist exactly for batches; every row that names a
   batch names an existing one; auto-increment counters dominate the keys in use *)
Definition Inv_keys (s : state) : Prop :=
  (forall k1 k2 b1 b2, batches s !! k1 = Some b1 -> batches s !! k2 = Some b2 ->
                       ba_denom b1 = ba_denom b2 -> k1 = k2) /\
  (forall k, is_Some (batches s !! k) <-> is_Some (supplies s !! k)) /\
  (forall a k b, balances s !! (a, k) = Some b -> is_Some (batches s !! k)) /\
  (forall id d bb, basket_balances s !! (id, d) = Some bb ->
                   (exists k ba, batches s !! k = Some ba /\ ba_denom ba = d) /\ is_Some (baskets s !! id)) /\
  (forall id o, sell_orders s !! id = Some o -> is_Some (batches s !! so_batch_key o)) /\
  (forall k, is_Some (batches s !! k) -> (k <= batch_seq_id s)%N) /\
  (forall k, is_Some (sell_orders s !! k) -> (k <= sell_order_seq_id s)%N) /\
  (forall k, is_Some (baskets s !! k) -> (k <= basket_seq_id s)%N).

(* C01: supply = balances + escrow + baskets; retired supply = retired balances *)
Definition Inv_cons (s : state) : Prop :=
  forall bk ba su, batches s !! bk = Some ba -> supplies s !! bk = Some su ->
    U (su_tradable su) = bal_sum tradable_escrowed bk (balances s) + bb_sum (ba_denom ba) (basket_balances s) /\
    U (su_retired su) = bal_sum retired_of bk (balances s).

(* C06: escrow = open sell orders *)
Definition Inv_escrow (s : state) : Prop :=
  forall a bk, U (bl_escrowed (get_balance s a bk)) = order_sum a bk (sell_orders s).

(* C05: basket token supply = credits in the basket (tokens are units: 10^6 per credit) *)
Definition basket_denoms_unique (s : state) : Prop :=
  forall i j x y, baskets s !! i = Some x -> baskets s !! j = Some y -> bk_denom x = bk_denom y -> i = j.

Definition Inv_basket (s : state) : Prop :=
  basket_denoms_unique s /\
  forall id k, baskets s !! id = Some k -> bank_sup s (bk_denom k) = basket_total id (basket_balances s).

(* the credit-accounting core of the invariant *)
Definition Inv_core (s : state) : Prop :=
  Inv_ct s /\ Inv_scale s /\ Inv_keys s /\ Inv_cons s /\ Inv_escrow s.
