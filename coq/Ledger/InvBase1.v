(* Base-module credit handlers, part 1: the per-credit steps of Send, Retire, Cancel (Bridge) and
   MintBatchCredits preserve the core invariant, only grow retired / cancelled amounts, and have the
   stated effect on batch totals.  Proof file. *)
From stdpp Require Import gmap.
From RecordUpdate Require Import RecordSet.
From Coq Require Import ZArith NArith List Bool Lia Strings.Byte.
Require Import Regen.Base.Bytes Regen.Base.Calendar Regen.Dec.Dec Regen.Dec.DecIface.
Require Import Regen.Ledger.Types Regen.Ledger.Msgs Regen.Ledger.Orm Regen.Ledger.BaseMsgs
               Regen.Ledger.BasketMsgs Regen.Ledger.MarketMsgs Regen.Ledger.Step
               Regen.Ledger.Amount Regen.Ledger.MapSum Regen.Ledger.Inv Regen.Ledger.InvTactics
               Regen.Ledger.InvBaseLib.
Import ListNotations RecordSetNotations.
Local Open Scope Z_scope.

(* what one step of a non-issuing handler establishes *)
Definition step_ok (s s' : state) : Prop := Inv_core s' /\ base_rel s s' /\ totals_same s s'.

Lemma step_ok_refl s : Inv_core s -> step_ok s s.
Proof. intros H. split; [exact H|]. split; [apply base_rel_refl | apply totals_same_refl]. Qed.

Lemma step_ok_trans s1 s2 s3 : step_ok s1 s2 -> step_ok s2 s3 -> step_ok s1 s3.
Proof.
  intros (_ & A2 & A3) (B1 & B2 & B3). split; [exact B1|].
  split; [eapply base_rel_trans; eassumption | eapply totals_same_trans; eassumption].
Qed.

(* ------------------------------------------------------------------ *)
(* sendTradable                                                        *)
(* ------------------------------------------------------------------ *)

Lemma send_tradable_ok bk sender recipient amt s s' :
  Inv_core s -> is_Some (batches s !! bk) -> in_ok amt ->
  send_tradable bk sender recipient amt s = LOk s' -> step_ok s s'.
Proof.
  intros Hinv Hbk Hamt H. unfold send_tradable in H.
  lstep H as sb Hsb. lstep H as nt Hnt. lstep H as s1 Hs1. lstep H as rt Hrt.
  apply update_balance_ok' in Hs1. destruct Hs1 as [-> _].
  inversion H; subst s'; clear H.
  pose proof Hinv as (Ict & Isc & Ik & Ic & Ie).
  pose proof (get_balance_Some _ _ _ _ Hsb) as Hgs.
  pose proof (get_balance_ok s sender bk Isc) as Hsbok. rewrite Hgs in Hsbok.
  destruct Hsbok as (Hsb1 & Hsb2 & Hsb3).
  destruct (safe_sub_in_ok _ _ _ (stored_in_ok _ Hsb1) Hamt Hnt) as [Hnt1 Hnt2].
  destruct (dnorm_ok _ Hnt1) as [Hnt3 Hnt4].
  set (b1 := {| bl_tradable := dnorm nt; bl_retired := bl_retired sb; bl_escrowed := bl_escrowed sb |}) in *.
  assert (Hb1 : balance_ok b1) by (unfold b1, balance_ok; cbn [bl_tradable bl_retired bl_escrowed]; auto).
  assert (He1 : bl_escrowed b1 = bl_escrowed (get_balance s sender bk)) by (rewrite Hgs; reflexivity).
  pose proof (Inv_d_save_balance sender bk b1 0 0 s (Inv_d_intro bk s Hinv) Hbk Hb1 He1) as Hd1.
  set (s1 := save_balance sender bk b1 s) in *.
  set (rb := get_balance s1 recipient bk) in *.
  assert (Hrb : balance_ok rb) by (apply get_balance_ok; apply Hd1).
  destruct Hrb as (Hrb1 & Hrb2 & Hrb3).
  destruct (add_in_ok _ _ _ (stored_in_ok _ Hrb1) Hamt Hrt) as [Hrt1 Hrt2].
  destruct (dnorm_ok _ Hrt1) as [Hrt3 Hrt4].
  set (b2 := {| bl_tradable := dnorm rt; bl_retired := bl_retired rb; bl_escrowed := bl_escrowed rb |}) in *.
  assert (Hb2 : balance_ok b2) by (unfold b2, balance_ok; cbn [bl_tradable bl_retired bl_escrowed]; auto).
  assert (Hbk1 : is_Some (batches s1 !! bk)) by exact Hbk.
  pose proof (Inv_d_save_balance recipient bk b2 _ _ s1 Hd1 Hbk1 Hb2 eq_refl) as Hd2.
  fold rb in Hd2.
  split; [|split].
  - eapply Inv_d_elim; [exact Hd2 | |].
    + rewrite Hgs. unfold tradable_escrowed, b1, b2. cbn [bl_tradable bl_retired bl_escrowed].
      clearbody rb. lia.
    + rewrite Hgs. unfold retired_of, b1, b2. cbn [bl_tradable bl_retired bl_escrowed]. lia.
  - eapply base_rel_trans.
    + apply (base_rel_save_balance sender bk b1 s). rewrite Hgs. apply Z.le_refl.
    + apply (base_rel_save_balance recipient bk b2 s1). apply Z.le_refl.
  - apply totals_same_supplies_eq. reflexivity.
Qed.

(* ------------------------------------------------------------------ *)
(* sendRetired (sub-routine of Send with a retired amount)             *)
(* ------------------------------------------------------------------ *)

Lemma send_retired_ok bk sender recipient amt s s' :
  Inv_core s -> is_Some (batches s !! bk) -> in_ok amt ->
  send_retired bk sender recipient amt s = LOk s' -> step_ok s s'.
Proof.
  intros Hinv Hbk Hamt H. unfold send_retired in H.
  lstep H as sb Hsb. lstep H as nt Hnt. lstep H as s1 Hs1. lstep H as rr Hrr.
  lstep H as su Hsu. lstep H as st Hst. lstep H as sr Hsr.
  apply update_balance_ok' in Hs1. destruct Hs1 as [-> _].
  apply update_supply_ok' in H. destruct H as [-> _].
  pose proof Hinv as (Ict & Isc & Ik & Ic & Ie).
  pose proof (get_balance_Some _ _ _ _ Hsb) as Hgs.
  pose proof (get_balance_ok s sender bk Isc) as Hsbok. rewrite Hgs in Hsbok.
  destruct Hsbok as (Hsb1 & Hsb2 & Hsb3).
  destruct (safe_sub_in_ok _ _ _ (stored_in_ok _ Hsb1) Hamt Hnt) as [Hnt1 Hnt2].
  destruct (dnorm_ok _ Hnt1) as [Hnt3 Hnt4].
  set (b1 := {| bl_tradable := dnorm nt; bl_retired := bl_retired sb; bl_escrowed := bl_escrowed sb |}) in *.
  assert (Hb1 : balance_ok b1) by (unfold b1, balance_ok; cbn [bl_tradable bl_retired bl_escrowed]; auto).
  assert (He1 : bl_escrowed b1 = bl_escrowed (get_balance s sender bk)) by (rewrite Hgs; reflexivity).
  pose proof (Inv_d_save_balance sender bk b1 0 0 s (Inv_d_intro bk s Hinv) Hbk Hb1 He1) as Hd1.
  set (s1 := save_balance sender bk b1 s) in *.
  set (rb := get_balance s1 recipient bk) in *.
  assert (Hrb : balance_ok rb) by (apply get_balance_ok; apply Hd1).
  destruct Hrb as (Hrb1 & Hrb2 & Hrb3).
  destruct (add_in_ok _ _ _ (stored_in_ok _ Hrb2) Hamt Hrr) as [Hrr1 Hrr2].
  destruct (dnorm_ok _ Hrr1) as [Hrr3 Hrr4].
  set (b2 := {| bl_tradable := bl_tradable rb; bl_retired := dnorm rr; bl_escrowed := bl_escrowed rb |}) in *.
  assert (Hb2 : balance_ok b2) by (unfold b2, balance_ok; cbn [bl_tradable bl_retired bl_escrowed]; auto).
  assert (Hbk1 : is_Some (batches s1 !! bk)) by exact Hbk.
  pose proof (Inv_d_save_balance recipient bk b2 _ _ s1 Hd1 Hbk1 Hb2 eq_refl) as Hd2.
  fold rb in Hd2.
  set (s2 := save_balance recipient bk b2 s1) in *.
  (* the supply row is the one of s *)
  assert (Hsu0 : supplies s !! bk = Some su) by exact Hsu.
  destruct (proj1 (proj2 Isc) _ _ Hsu0) as (Hsu1 & Hsu2 & Hsu3).
  (* the sender's tradable balance is part of the tradable supply: the plain Sub cannot go negative *)
  destruct Hbk as [ba Hba].
  destruct (Ic _ _ _ Hba Hsu0) as [Hc1 Hc2].
  pose proof (bal_sum_ge_entry s sender bk sb Isc Hsb) as Hge.
  pose proof (bb_sum_nonneg s (ba_denom ba) Isc) as Hbb.
  pose proof (in_ok_U_nonneg _ Hnt1) as Hnt0.
  pose proof (stored_U_nonneg _ Hsb3) as Hesc0.
  assert (Hle : U amt <= U (su_tradable su)) by (unfold tradable_escrowed at 1 in Hge; lia).
  destruct (sub_units _ _ _ (stored_in_ok _ Hsu1) Hamt Hst) as (_ & _ & Hst2 & Hst1).
  specialize (Hst1 Hle).
  destruct (dnorm_ok _ Hst1) as [Hst3 Hst4].
  destruct (add_in_ok _ _ _ (stored_in_ok _ Hsu2) Hamt Hsr) as [Hsr1 Hsr2].
  destruct (dnorm_ok _ Hsr1) as [Hsr3 Hsr4].
  set (v := {| su_tradable := dnorm st; su_retired := dnorm sr; su_cancelled := su_cancelled su |}) in *.
  assert (Hv : supply_ok v) by (unfold v, supply_ok; cbn [su_tradable su_retired su_cancelled]; auto).
  assert (Hsu2' : supplies s2 !! bk = Some su) by exact Hsu.
  pose proof (Inv_d_set_supply bk su v _ _ s2 Hd2 Hsu2' Hv) as Hd3.
  pose proof (in_ok_U_nonneg _ Hamt) as Hamt0.
  split; [|split].
  - eapply Inv_d_elim; [exact Hd3 | |].
    + rewrite Hgs. unfold tradable_escrowed, b1, b2, v.
      cbn [bl_tradable bl_retired bl_escrowed su_tradable su_retired su_cancelled]. clearbody rb. lia.
    + rewrite Hgs. unfold retired_of, b1, b2, v.
      cbn [bl_tradable bl_retired bl_escrowed su_tradable su_retired su_cancelled]. clearbody rb. lia.
  - eapply base_rel_trans; [eapply base_rel_trans|].
    + apply (base_rel_save_balance sender bk b1 s). rewrite Hgs. apply Z.le_refl.
    + apply (base_rel_save_balance recipient bk b2 s1). fold rb. unfold b2. cbn [bl_retired]. lia.
    + apply (base_rel_set_supply bk su v s2 Hsu2'); unfold v; cbn [su_retired su_cancelled]; lia.
  - eapply totals_same_trans; [apply (totals_same_supplies_eq s s2); reflexivity|].
    apply (totals_same_set_supply bk su v s2 Hsu2'). unfold T, v.
    cbn [su_tradable su_retired su_cancelled]. lia.
Qed.

(* ------------------------------------------------------------------ *)
(* Send                                                                *)
(* ------------------------------------------------------------------ *)

Lemma send_one_ok sender recipient s c s' :
  Inv_core s -> send_one sender recipient s c = LOk s' -> step_ok s s'.
Proof.
  intros Hinv H. unfold send_one in H.
  lstep H as p Hp. destruct p as [bk ba]. cbv beta iota in H.
  lstep H as ct Hct. cbv zeta in H.
  pose proof Hinv as (Ict & _).
  rewrite (credit_type_of_denom_prec _ _ _ Ict Hct) in H.
  lstep H as t Ht. lstep H as r Hr. lstep H as s1 Hs1.
  apply nnfixed_in_ok in Ht. apply nnfixed_in_ok in Hr.
  apply batch_by_denom_Some in Hp. destruct Hp as [Hba _].
  assert (H1 : step_ok s s1).
  { destruct (is_zero t).
    - inversion Hs1; subst s1. apply step_ok_refl. exact Hinv.
    - eapply send_tradable_ok; [exact Hinv | rewrite Hba; eauto | exact Ht | exact Hs1]. }
  destruct (is_zero r).
  - inversion H; subst s'. exact H1.
  - eapply step_ok_trans; [exact H1|].
    destruct H1 as (Hinv1 & Hrel1 & _).
    destruct (br_batches _ _ Hrel1 _ _ Hba) as (ba' & Hba' & _).
    eapply send_retired_ok; [exact Hinv1 | rewrite Hba'; eauto | exact Hr | exact H].
Qed.

(* ------------------------------------------------------------------ *)
(* Retire                                                              *)
(* ------------------------------------------------------------------ *)

Lemma retire_one_ok owner s c s' :
  Inv_core s -> retire_one owner s c = LOk s' -> step_ok s s'.
Proof.
  intros Hinv H. unfold retire_one in H.
  lstep H as p Hp. destruct p as [bk ba]. cbv beta iota in H.
  lstep H as ct Hct.
  pose proof Hinv as (Ict & Isc & Ik & Ic & Ie).
  rewrite (credit_type_of_denom_prec _ _ _ Ict Hct) in H.
  lstep H as ub Hub. lstep H as amt Hamt. lstep H as nt Hnt. lstep H as nr Hnr.
  lstep H as su Hsu. lstep H as sr Hsr. lstep H as st Hst. lstep H as s1 Hs1.
  apply update_balance_ok' in Hs1. destruct Hs1 as [-> _].
  apply update_supply_ok' in H. destruct H as [-> _].
  apply nnfixed_in_ok in Hamt.
  apply batch_by_denom_Some in Hp. destruct Hp as [Hba _].
  assert (Hbk : is_Some (batches s !! bk)) by (rewrite Hba; eauto).
  pose proof (get_balance_Some _ _ _ _ Hub) as Hgs.
  pose proof (get_balance_ok s owner bk Isc) as Hubok. rewrite Hgs in Hubok.
  destruct Hubok as (Hub1 & Hub2 & Hub3).
  destruct (proj1 (proj2 Isc) _ _ Hsu) as (Hsu1 & Hsu2 & Hsu3).
  destruct (safe_sub_in_ok _ _ _ (stored_in_ok _ Hub1) Hamt Hnt) as [Hnt1 Hnt2].
  destruct (dnorm_ok _ Hnt1) as [Hnt3 Hnt4].
  destruct (add_in_ok _ _ _ (stored_in_ok _ Hub2) Hamt Hnr) as [Hnr1 Hnr2].
  destruct (dnorm_ok _ Hnr1) as [Hnr3 Hnr4].
  destruct (add_in_ok _ _ _ (stored_in_ok _ Hsu2) Hamt Hsr) as [Hsr1 Hsr2].
  destruct (dnorm_ok _ Hsr1) as [Hsr3 Hsr4].
  destruct (safe_sub_in_ok _ _ _ (stored_in_ok _ Hsu1) Hamt Hst) as [Hst1 Hst2].
  destruct (dnorm_ok _ Hst1) as [Hst3 Hst4].
  pose proof (in_ok_U_nonneg _ Hamt) as Hamt0.
  set (b1 := {| bl_tradable := dnorm nt; bl_retired := dnorm nr; bl_escrowed := bl_escrowed ub |}) in *.
  assert (Hb1 : balance_ok b1) by (unfold b1, balance_ok; cbn [bl_tradable bl_retired bl_escrowed]; auto).
  assert (He1 : bl_escrowed b1 = bl_escrowed (get_balance s owner bk)) by (rewrite Hgs; reflexivity).
  pose proof (Inv_d_save_balance owner bk b1 0 0 s (Inv_d_intro bk s Hinv) Hbk Hb1 He1) as Hd1.
  set (s1 := save_balance owner bk b1 s) in *.
  set (v := {| su_tradable := dnorm st; su_retired := dnorm sr; su_cancelled := su_cancelled su |}) in *.
  assert (Hv : supply_ok v) by (unfold v, supply_ok; cbn [su_tradable su_retired su_cancelled]; auto).
  assert (Hsu' : supplies s1 !! bk = Some su) by exact Hsu.
  pose proof (Inv_d_set_supply bk su v _ _ s1 Hd1 Hsu' Hv) as Hd2.
  split; [|split].
  - eapply Inv_d_elim; [exact Hd2 | |].
    + rewrite Hgs. unfold tradable_escrowed, b1, v.
      cbn [bl_tradable bl_retired bl_escrowed su_tradable su_retired su_cancelled]. lia.
    + rewrite Hgs. unfold retired_of, b1, v.
      cbn [bl_tradable bl_retired bl_escrowed su_tradable su_retired su_cancelled]. lia.
  - eapply base_rel_trans.
    + apply (base_rel_save_balance owner bk b1 s). rewrite Hgs. unfold b1. cbn [bl_retired]. lia.
    + apply (base_rel_set_supply bk su v s1 Hsu'); unfold v; cbn [su_retired su_cancelled]; lia.
  - eapply totals_same_trans; [apply (totals_same_supplies_eq s s1); reflexivity|].
    apply (totals_same_set_supply bk su v s1 Hsu'). unfold T, v.
    cbn [su_tradable su_retired su_cancelled]. lia.
Qed.

(* ------------------------------------------------------------------ *)
(* Cancel (also the credit step of Bridge)                             *)
(* ------------------------------------------------------------------ *)

Lemma cancel_one_ok owner s c s' :
  Inv_core s -> cancel_one owner s c = LOk s' -> step_ok s s'.
Proof.
  intros Hinv H. unfold cancel_one in H.
  lstep H as p Hp. destruct p as [bk ba]. cbv beta iota in H.
  lstep H as ct Hct.
  pose proof Hinv as (Ict & Isc & Ik & Ic & Ie).
  rewrite (credit_type_of_denom_prec _ _ _ Ict Hct) in H.
  lstep H as ub Hub. lstep H as su Hsu. lstep H as amt Hamt. lstep H as nt Hnt.
  lstep H as st Hst. lstep H as sc Hsc. lstep H as s1 Hs1.
  apply update_balance_ok' in Hs1. destruct Hs1 as [-> _].
  apply update_supply_ok' in H. destruct H as [-> _].
  apply nnfixed_in_ok in Hamt.
  apply batch_by_denom_Some in Hp. destruct Hp as [Hba _].
  assert (Hbk : is_Some (batches s !! bk)) by (rewrite Hba; eauto).
  pose proof (get_balance_Some _ _ _ _ Hub) as Hgs.
  pose proof (get_balance_ok s owner bk Isc) as Hubok. rewrite Hgs in Hubok.
  destruct Hubok as (Hub1 & Hub2 & Hub3).
  destruct (proj1 (proj2 Isc) _ _ Hsu) as (Hsu1 & Hsu2 & Hsu3).
  destruct (safe_sub_in_ok _ _ _ (stored_in_ok _ Hub1) Hamt Hnt) as [Hnt1 Hnt2].
  destruct (dnorm_ok _ Hnt1) as [Hnt3 Hnt4].
  destruct (safe_sub_in_ok _ _ _ (stored_in_ok _ Hsu1) Hamt Hst) as [Hst1 Hst2].
  destruct (dnorm_ok _ Hst1) as [Hst3 Hst4].
  destruct (add_in_ok _ _ _ (stored_in_ok _ Hsu3) Hamt Hsc) as [Hsc1 Hsc2].
  destruct (dnorm_ok _ Hsc1) as [Hsc3 Hsc4].
  pose proof (in_ok_U_nonneg _ Hamt) as Hamt0.
  set (b1 := {| bl_tradable := dnorm nt; bl_retired := bl_retired ub; bl_escrowed := bl_escrowed ub |}) in *.
  assert (Hb1 : balance_ok b1) by (unfold b1, balance_ok; cbn [bl_tradable bl_retired bl_escrowed]; auto).
  assert (He1 : bl_escrowed b1 = bl_escrowed (get_balance s owner bk)) by (rewrite Hgs; reflexivity).
  pose proof (Inv_d_save_balance owner bk b1 0 0 s (Inv_d_intro bk s Hinv) Hbk Hb1 He1) as Hd1.
  set (s1 := save_balance owner bk b1 s) in *.
  set (v := {| su_tradable := dnorm st; su_retired := su_retired su; su_cancelled := dnorm sc |}) in *.
  assert (Hv : supply_ok v) by (unfold v, supply_ok; cbn [su_tradable su_retired su_cancelled]; auto).
  assert (Hsu' : supplies s1 !! bk = Some su) by exact Hsu.
  pose proof (Inv_d_set_supply bk su v _ _ s1 Hd1 Hsu' Hv) as Hd2.
  split; [|split].
  - eapply Inv_d_elim; [exact Hd2 | |].
    + rewrite Hgs. unfold tradable_escrowed, b1, v.
      cbn [bl_tradable bl_retired bl_escrowed su_tradable su_retired su_cancelled]. lia.
    + rewrite Hgs. unfold retired_of, b1, v.
      cbn [bl_tradable bl_retired bl_escrowed su_tradable su_retired su_cancelled]. lia.
  - eapply base_rel_trans.
    + apply (base_rel_save_balance owner bk b1 s). rewrite Hgs. apply Z.le_refl.
    + apply (base_rel_set_supply bk su v s1 Hsu'); unfold v; cbn [su_retired su_cancelled]; lia.
  - eapply totals_same_trans; [apply (totals_same_supplies_eq s s1); reflexivity|].
    apply (totals_same_set_supply bk su v s1 Hsu'). unfold T, v.
    cbn [su_tradable su_retired su_cancelled]. lia.
Qed.

(* ------------------------------------------------------------------ *)
(* the loops of Send / Retire / Cancel                                 *)
(* ------------------------------------------------------------------ *)

Lemma lfold_step_ok {B} (f : state -> B -> lres state) :
  (forall s x s', Inv_core s -> f s x = LOk s' -> step_ok s s') ->
  forall l s s', Inv_core s -> lfold f l s = LOk s' -> step_ok s s'.
Proof.
  intros Hstep l s s' Hinv Hl.
  destruct (lfold_rel f Inv_core (fun a b => base_rel a b /\ totals_same a b)) with (l := l) (a := s) (a' := s')
    as [Hi [Hr Ht]].
  - intros a. split; [apply base_rel_refl | apply totals_same_refl].
  - intros a1 a2 a3 [A1 A2] [B1 B2].
    split; [eapply base_rel_trans; eassumption | eapply totals_same_trans; eassumption].
  - intros a x a' Ha Hf. destruct (Hstep _ _ _ Ha Hf) as (S1 & S2 & S3). auto.
  - exact Hinv.
  - exact Hl.
  - split; [exact Hi|]. split; [exact Hr | exact Ht].
Qed.

(* ------------------------------------------------------------------ *)
(* MintBatchCredits: one issuance                                      *)
(* ------------------------------------------------------------------ *)

Lemma cond_add_ok (x y r x' y' : dec) :
  stored_ok x -> stored_ok y -> in_ok r ->
  (if is_zero r then LOk (x, y)
   else lbind (lift (add x r)) (fun br => lbind (lift (add y r)) (fun sr => LOk (dnorm br, dnorm sr)))) = LOk (x', y') ->
  stored_ok x' /\ stored_ok y' /\ U x' = U x + U r /\ U y' = U y + U r.
Proof.
  intros Hx Hy Hr H. destruct (is_zero r) eqn:Ez.
  - inversion H; subst x' y'. pose proof (is_zero_U _ Hr Ez) as Hz.
    split; [exact Hx|]. split; [exact Hy|]. split; lia.
  - lstep H as br Hbr. lstep H as sr Hsr. inversion H; subst x' y'; clear H.
    destruct (add_in_ok _ _ _ (stored_in_ok _ Hx) Hr Hbr) as [Hb1 Hb2].
    destruct (add_in_ok _ _ _ (stored_in_ok _ Hy) Hr Hsr) as [Hs1 Hs2].
    destruct (dnorm_ok _ Hb1) as [Hb3 Hb4]. destruct (dnorm_ok _ Hs1) as [Hs3 Hs4].
    split; [exact Hb3|]. split; [exact Hs3|]. split; lia.
Qed.

Lemma mint_issue_ok bk s i s' :
  Inv_core s -> is_Some (batches s !! bk) -> mint_issue P bk s i = LOk s' ->
  Inv_core s' /\ base_rel s s' /\
  totals_mint bk (amt_units (is_tradable i) + amt_units (is_retired i)) s s'.
Proof.
  intros Hinv Hbk H. unfold mint_issue in H.
  lstep H as t Ht. lstep H as r Hr. cbv zeta in H.
  lstep H as su Hsu. lstep H as p1 Hp1. destruct p1 as [br sr]. cbv beta iota in H.
  lstep H as p2 Hp2. destruct p2 as [bt st]. cbv beta iota in H.
  apply update_supply_ok' in H. destruct H as [-> _].
  pose proof Hinv as (Ict & Isc & Ik & Ic & Ie).
  rewrite (amt_units_ok _ _ Ht), (amt_units_ok _ _ Hr).
  apply nnfixed_in_ok in Ht. apply nnfixed_in_ok in Hr.
  set (bal := get_balance s (is_recipient i) bk) in *.
  assert (Hbal : balance_ok bal) by (apply get_balance_ok; exact Isc).
  destruct Hbal as (Hbal1 & Hbal2 & Hbal3).
  destruct (proj1 (proj2 Isc) _ _ Hsu) as (Hsu1 & Hsu2 & Hsu3).
  destruct (cond_add_ok _ _ _ _ _ Hbal2 Hsu2 Hr Hp1) as (Hbr & Hsr & Hbr' & Hsr').
  destruct (cond_add_ok _ _ _ _ _ Hbal1 Hsu1 Ht Hp2) as (Hbt & Hst & Hbt' & Hst').
  pose proof (in_ok_U_nonneg _ Ht) as Ht0. pose proof (in_ok_U_nonneg _ Hr) as Hr0.
  set (b1 := {| bl_tradable := bt; bl_retired := br; bl_escrowed := bl_escrowed bal |}) in *.
  assert (Hb1 : balance_ok b1) by (unfold b1, balance_ok; cbn [bl_tradable bl_retired bl_escrowed]; auto).
  pose proof (Inv_d_save_balance (is_recipient i) bk b1 0 0 s (Inv_d_intro bk s Hinv) Hbk Hb1 eq_refl) as Hd1.
  fold bal in Hd1.
  set (s1 := save_balance (is_recipient i) bk b1 s) in *.
  set (v := {| su_tradable := st; su_retired := sr; su_cancelled := su_cancelled su |}) in *.
  assert (Hv : supply_ok v) by (unfold v, supply_ok; cbn [su_tradable su_retired su_cancelled]; auto).
  assert (Hsu' : supplies s1 !! bk = Some su) by exact Hsu.
  pose proof (Inv_d_set_supply bk su v _ _ s1 Hd1 Hsu' Hv) as Hd2.
  split; [|split].
  - eapply Inv_d_elim; [exact Hd2 | |].
    + unfold tradable_escrowed, b1, v.
      cbn [bl_tradable bl_retired bl_escrowed su_tradable su_retired su_cancelled]. clearbody bal. lia.
    + unfold retired_of, b1, v.
      cbn [bl_tradable bl_retired bl_escrowed su_tradable su_retired su_cancelled]. clearbody bal. lia.
  - eapply base_rel_trans.
    + apply (base_rel_save_balance (is_recipient i) bk b1 s). fold bal. unfold b1. cbn [bl_retired]. lia.
    + apply (base_rel_set_supply bk su v s1 Hsu'); unfold v; cbn [su_retired su_cancelled]; lia.
  - apply (totals_mint_eq_l bk _ s s1); [reflexivity|].
    apply (totals_mint_set_supply bk su v _ s1 Hsu'). unfold T, v.
    cbn [su_tradable su_retired su_cancelled]. lia.
Qed.

Lemma mint_loop_ok bk : forall iss s s',
  Inv_core s -> is_Some (batches s !! bk) -> lfold (mint_issue P bk) iss s = LOk s' ->
  Inv_core s' /\ base_rel s s' /\ totals_mint bk (issued_units iss) s s'.
Proof.
  induction iss as [|i iss IH]; intros s s' Hinv Hbk Hl; cbn [lfold] in Hl.
  - inversion Hl; subst s'. split; [exact Hinv|]. split; [apply base_rel_refl|].
    cbn [issued_units fold_right].
    destruct Hinv as (_ & _ & Ik & _). destruct Ik as (_ & K2 & _).
    apply K2 in Hbk. destruct Hbk as [su Hsu]. eapply totals_mint_zero. exact Hsu.
  - apply lbind_ok in Hl. destruct Hl as (s1 & H1 & H2).
    destruct (mint_issue_ok _ _ _ _ Hinv Hbk H1) as (Hinv1 & Hrel1 & Htot1).
    assert (Hbk1 : is_Some (batches s1 !! bk)).
    { destruct Hbk as [ba Hba]. destruct (br_batches _ _ Hrel1 _ _ Hba) as (ba' & Hba' & _). rewrite Hba'. eauto. }
    destruct (IH _ _ Hinv1 Hbk1 H2) as (Hinv2 & Hrel2 & Htot2).
    split; [exact Hinv2|]. split; [eapply base_rel_trans; eassumption|].
    cbn [issued_units fold_right]. fold (issued_units iss).
    eapply totals_mint_trans; eassumption.
Qed.
