(* Why the two side conditions of the backing theorem are needed (evaluated on the model):
   (1) a basket-creation fee payable in a basket's own token breaks the 1:1 backing of that basket;
   (2) Inv_basket alone is not inductive: a denom "eco.…" that already has bank supply but no basket
       becomes an unbacked basket token when a basket of that name is created. *)
From stdpp Require Import gmap.
From RecordUpdate Require Import RecordSet.
From Coq Require Import ZArith NArith List Bool Strings.Byte Strings.String.
Require Import Regen.Base.Bytes Regen.Base.Calendar Regen.Dec.Dec.
Require Import Regen.Ledger.Types Regen.Ledger.Msgs Regen.Ledger.Orm Regen.Ledger.BaseMsgs
               Regen.Ledger.BasketMsgs Regen.Ledger.MarketMsgs Regen.Ledger.Step
               Regen.Ledger.Amount Regen.Ledger.MapSum Regen.Ledger.Inv
               Regen.Ledger.InvBasketAdmin.
Import ListNotations RecordSetNotations.
Local Open Scope Z_scope.

Definition ex_empty : state :=
  {| credit_types := ∅; classes := ∅; class_seq_id := 0; class_issuers := ∅; projects := ∅; project_seq_id := 0;
     batches := ∅; batch_seq_id := 0; class_sequences := ∅; project_sequences := ∅; batch_sequences := ∅;
     balances := ∅; supplies := ∅; origin_txs := ∅; batch_contracts := ∅; allowlist_enabled := false;
     allowed_creators := ∅; class_fee := None; allowed_bridge_chains := ∅;
     baskets := ∅; basket_seq_id := 0; basket_classes := ∅; basket_balances := ∅; basket_fee := None;
     sell_orders := ∅; sell_order_seq_id := 0; allowed_denoms := ∅; markets := ∅; market_seq_id := 0;
     fee_params_ := None; bank := ∅; bank_supply := ∅ |}.

Definition ex_env : env := {| e_time := {| secs := 1700000000; nanos := 0 |}; e_authority := addr_gov |}.
Definition dAAA : bytes := b "eco.uC.AAA".
Definition dBBB : bytes := b "eco.uC.BBB".
Definition ex_batch_denom : bytes := b "C01-001-20200101-20210101-001".

(* one credit type, one class, basket AAA (id 1) holding 5 credits of one batch, fully backed by
   5,000,000 uC.AAA held by account 0 *)
Definition ex_base : state :=
  ex_empty <| credit_types := {[ b "C" := {| ct_name := b "carbon"; ct_unit := b "t"; ct_precision := 6 |} ]} |>
           <| classes := {[ 1%N := {| cl_id := b "C01"; cl_admin := 0%N; cl_metadata := []; cl_ct := b "C" |} ]} |>
           <| class_seq_id := 1%N |>
           <| baskets := {[ 1%N := {| bk_denom := dAAA; bk_name := b "AAA"; bk_disable_auto_retire := false;
                                      bk_ct := b "C"; bk_criteria := DCNone; bk_exponent := 6; bk_curator := 0%N |} ]} |>
           <| basket_seq_id := 1%N |>
           <| basket_balances := {[ (1%N, ex_batch_denom) :=
                 {| bb_balance := mkDec false 5 0; bb_start := {| secs := 1577836800; nanos := 0 |} |} ]} |>
           <| bank := {[ (0%N, dAAA) := 5000000 ]} |>
           <| bank_supply := {[ dAAA := 5000000 ]} |>.

Definition backing_of (s : state) (id : N) (d : bytes) : Z * Z := (bank_sup s d, basket_total id (basket_balances s)).

Definition after (s : state) (m : msg) (id : N) (d : bytes) : option (Z * Z) :=
  if validate_basic m then
    match handle ex_env s m with LOk (s', _, _) => Some (backing_of s' id d) | LErr _ => None end
  else None.

(* (1) the fee denom is basket AAA's own token *)
Definition ex_fee : coin := {| c_denom := dAAA; c_amount := 1000000 |}.
Definition ex_s1 : state := ex_base <| basket_fee := Some ex_fee |>.
Definition ex_create : msg := MBasketCreate 0%N (b "BBB") [] false (b "C") [b "C01"] DCNone [ex_fee].

Example fee_in_basket_denom_breaks_backing :
  is_eco (c_denom ex_fee) = true /\                      (* fee_denoms_ok is violated ... *)
  backing_of ex_s1 1%N dAAA = (5000000, 5000000) /\     (* ... the basket is fully backed before ... *)
  after ex_s1 ex_create 1%N dAAA = Some (4000000, 5000000).   (* ... and not after a successful Create *)
Proof. repeat split; vm_compute; reflexivity. Qed.

(* (2) bank supply of eco.uC.BBB exists before any basket BBB does (Inv_basket holds: the only basket
   is AAA); after Create the new basket (id 2) has 7 tokens and no credits *)
Definition ex_s2 : state := ex_base <| bank_supply := <[ dBBB := 7 ]> (bank_supply ex_base) |>.
Definition ex_create2 : msg := MBasketCreate 0%N (b "BBB") [] false (b "C") [b "C01"] DCNone [].

Example stray_eco_supply_breaks_backing :
  backing_of ex_s2 1%N dAAA = (5000000, 5000000) /\
  after ex_s2 ex_create2 2%N dBBB = Some (7, 0).
Proof. repeat split; vm_compute; reflexivity. Qed.
