(* Shared lemmas and tactics for the invariant-preservation proofs. *)
From stdpp Require Import gmap.
From RecordUpdate Require Import RecordSet.
From Coq Require Import ZArith NArith List Bool Lia Strings.Byte.
Require Import Regen.Base.Bytes Regen.Base.Calendar Regen.Dec.Dec.
Require Import Regen.Ledger.Types Regen.Ledger.Msgs Regen.Ledger.Orm Regen.Ledger.BaseMsgs
               Regen.Ledger.BasketMsgs Regen.Ledger.MarketMsgs Regen.Ledger.Step
               Regen.Ledger.Amount Regen.Ledger.MapSum Regen.Ledger.Inv.
Import RecordSetNotations.
Local Open Scope Z_scope.

(* ---------- inversion of the handler monad ---------- *)

Lemma lbind_ok {A B} (r : lres A) (f : A -> lres B) (b : B) :
  lbind r f = LOk b -> exists a, r = LOk a /\ f a = LOk b.
Proof. destruct r; cbn; [eauto | discriminate]. Qed.

Lemma check_ok c e : check c e = LOk tt -> c = true.
Proof. unfold check. destruct c; [reflexivity | discriminate]. Qed.

Lemma check_ok' c e u : check c e = LOk u -> c = true.
Proof. destruct u. apply check_ok. Qed.

Lemma from_option_ok {A} e (o : option A) a : from_option e o = LOk a -> o = Some a.
Proof. destruct o; cbn; congruence. Qed.

Lemma lift_ok {A} (r : res A) a : lift r = LOk a -> r = Ok a.
Proof. destruct r; cbn; congruence. Qed.

Lemma lift_as_ok {A} e (r : res A) a : lift_as e r = LOk a -> r = Ok a.
Proof. destruct r; cbn; congruence. Qed.

(* [linv H]: H : (x <- e ;; k) = LOk r  becomes  e = LOk x  and  k x = LOk r, repeatedly, and the
   leaf forms check / from_option / lift / lift_as / LOk are inverted *)
Ltac linv1 H :=
  match type of H with
  | lbind _ _ = LOk _ =>
      let a := fresh "a" in let H1 := fresh H "a" in let H2 := fresh H "b" in
      apply lbind_ok in H; destruct H as (a & H1 & H2); linv1 H1; linv1 H2
  | check _ _ = LOk _ => apply check_ok' in H
  | from_option _ _ = LOk _ => apply from_option_ok in H
  | lift _ = LOk _ => apply lift_ok in H
  | lift_as _ _ = LOk _ => apply lift_as_ok in H
  | LOk _ = LOk _ => inversion H; subst; clear H
  | LErr _ = LOk _ => discriminate H
  | (let '(_, _) := ?p in _) = LOk _ => destruct p; linv1 H
  | _ => idtac
  end.
Ltac linv H := cbn [lbind] in H; linv1 H.

(* one bind at a time with explicit names:  H : (x <- e ;; k) = LOk r   ~>   Hx : e = LOk x, H : k x = LOk r;
   the leaf Hx is inverted when it is a check / from_option / lift / lift_as *)
Ltac lleaf Hx :=
  match type of Hx with
  | check _ _ = LOk _ => apply check_ok' in Hx
  | from_option _ _ = LOk _ => apply from_option_ok in Hx
  | lift _ = LOk _ => apply lift_ok in Hx
  | lift_as _ _ = LOk _ => apply lift_as_ok in Hx
  | _ => idtac
  end.
Tactic Notation "lstep" hyp(H) "as" ident(x) ident(Hx) :=
  apply lbind_ok in H; destruct H as (x & Hx & H); lleaf Hx.

(* ---------- ORM updates ---------- *)

Lemma orm_update_ok {K V} `{Countable K} (k : K) (v : V) m m' :
  orm_update k v m = LOk m' -> m' = <[k := v]> m /\ is_Some (m !! k).
Proof. unfold orm_update. destruct (m !! k) eqn:E; [|discriminate]. intros H'; inversion H'; eauto. Qed.

Lemma orm_insert_ok {K V} `{Countable K} (k : K) (v : V) m m' :
  orm_insert k v m = LOk m' -> m' = <[k := v]> m /\ m !! k = None.
Proof. unfold orm_insert. destruct (m !! k) eqn:E; [discriminate|]. intros H'; inversion H'; eauto. Qed.

Lemma update_balance_ok a k b s s' :
  update_balance a k b s = LOk s' ->
  s' = s <| balances := <[(a, k) := b]> (balances s) |> /\ is_Some (balances s !! (a, k)).
Proof.
  unfold update_balance. intros H. apply lbind_ok in H. destruct H as (m & H1 & H2).
  apply orm_update_ok in H1. destruct H1 as [-> Hs]. inversion H2. eauto.
Qed.

Lemma update_supply_ok k v s s' :
  update_supply k v s = LOk s' ->
  s' = s <| supplies := <[k := v]> (supplies s) |> /\ is_Some (supplies s !! k).
Proof.
  unfold update_supply. intros H. apply lbind_ok in H. destruct H as (m & H1 & H2).
  apply orm_update_ok in H1. destruct H1 as [-> Hs]. inversion H2. eauto.
Qed.

(* ---------- map_find ---------- *)

Lemma map_find_Some {K V} `{Countable K} (Pb : K -> V -> bool) (m : gmap K V) k v :
  map_find Pb m = Some (k, v) -> m !! k = Some v /\ Pb k v = true.
Proof.
  unfold map_find. intros Hh.
  assert (Hin : In (k, v) (List.filter (fun kv => Pb kv.1 kv.2) (map_to_list m))).
  { destruct (List.filter _ _) as [|x l]; [discriminate|]. cbn in Hh. inversion Hh. left. reflexivity. }
  apply filter_In in Hin. destruct Hin as [Hin Hp]. cbn in Hp.
  split; [|exact Hp]. apply elem_of_map_to_list. apply elem_of_list_In. exact Hin.
Qed.

Lemma batch_by_denom_Some s d k ba :
  batch_by_denom s d = Some (k, ba) -> batches s !! k = Some ba /\ ba_denom ba = d.
Proof.
  unfold batch_by_denom. intros Hf. apply map_find_Some in Hf. destruct Hf as [H1 H2].
  split; [exact H1|]. apply bytes_eqb_eq. exact H2.
Qed.

(* ---------- per-batch sums under a row write ---------- *)

Lemma bal_sum_insert g bk m a k b :
  bal_sum g bk (<[(a, k) := b]> m) =
  bal_sum g bk m
  - (if (k =? bk)%N then match m !! (a, k) with Some v => g v | None => 0 end else 0)
  + (if (k =? bk)%N then g b else 0).
Proof.
  unfold bal_sum. rewrite sum_map_insert. unfold old_val. cbn [snd].
  destruct (m !! (a, k)); destruct (k =? bk)%N; lia.
Qed.

Lemma bb_sum_insert d m id dn v :
  bb_sum d (<[(id, dn) := v]> m) =
  bb_sum d m
  - (if bytes_eqb dn d then match m !! (id, dn) with Some w => U (bb_balance w) | None => 0 end else 0)
  + (if bytes_eqb dn d then U (bb_balance v) else 0).
Proof.
  unfold bb_sum. rewrite sum_map_insert. unfold old_val. cbn [snd].
  destruct (m !! (id, dn)); destruct (bytes_eqb dn d); lia.
Qed.

Lemma bb_sum_delete d m id dn :
  bb_sum d (delete (id, dn) m) =
  bb_sum d m
  - (if bytes_eqb dn d then match m !! (id, dn) with Some w => U (bb_balance w) | None => 0 end else 0).
Proof.
  unfold bb_sum. rewrite sum_map_delete. unfold old_val. cbn [snd].
  destruct (m !! (id, dn)); destruct (bytes_eqb dn d); lia.
Qed.

Lemma get_balance_lookup s a k :
  get_balance s a k = match balances s !! (a, k) with Some b => b | None => zero_balance end.
Proof. unfold get_balance. destruct (balances s !! (a, k)); reflexivity. Qed.

Lemma zero_balance_ok : balance_ok zero_balance.
Proof. unfold balance_ok, zero_balance; cbn. auto using stored_ok_zero. Qed.

Lemma U_dzero : U dzero = 0.
Proof. reflexivity. Qed.

Lemma dnorm_eq d : dnorm d = dnorm' d.
Proof. reflexivity. Qed.

Lemma dnorm_ok d : in_ok d -> stored_ok (dnorm d) /\ U (dnorm d) = U d.
Proof. rewrite dnorm_eq. apply dnorm'_ok. Qed.
