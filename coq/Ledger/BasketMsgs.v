(* Ledger model: the handlers of regen.ecocredit.basket.v1.Msg (x/ecocredit/basket/keeper/msg_*.go). *)
From stdpp Require Import gmap.
From RecordUpdate Require Import RecordSet.
From Coq Require Import ZArith NArith List Bool Strings.Byte Strings.String.
Require Import Regen.Base.Bytes Regen.Base.Calendar Regen.Dec.Dec Regen.Ids.Ids.
Require Import Regen.Ledger.Types Regen.Ledger.Msgs Regen.Ledger.Orm Regen.Ledger.BaseMsgs.
Import ListNotations RecordSetNotations.
Local Open Scope Z_scope.
Local Open Scope lres_scope.

Definition basket_by_denom (s : state) (d : bytes) : option (N * basket) :=
  map_find (fun _ k => bytes_eqb (bk_denom k) d) (baskets s).

(* ------------------------------------------------------------------ *)
(* Create                                                              *)
(* ------------------------------------------------------------------ *)

Fixpoint index_allowed_classes (id : N) (ct : bytes) (l : list bytes) (s : state) : lres state :=
  match l with
  | [] => LOk s
  | c :: l' =>
      '(_, cl) <- from_option LInvalid (class_by_id s c) ;;
      _ <- check (bytes_eqb (cl_ct cl) ct) LInvalid ;;
      if bool_decide ((id, c) ∈ basket_classes s) then LErr LOrm
      else index_allowed_classes id ct l' (s <| basket_classes := {[ (id, c) ]} ∪ basket_classes s |>)
  end.

Definition h_basket_create (e : env) (s : state) (curator : addr) (name : bytes) (disable_auto_retire : bool)
    (ct : bytes) (allowed_classes : list bytes) (criteria : date_criteria) (fee : list coin) : hres :=
  s <- charge_fee (basket_fee s) (head fee) curator addr_basket s ;;
  cty <- from_option LInvalid (credit_types s !! ct) ;;
  '(denom, _) <- from_option LInvalid (format_basket_denom name ct (Z.to_N (ct_precision cty))) ;;
  (* InsertReturningID: unique indexes on basket_denom and name *)
  _ <- check (negb (map_exists (fun _ k => bytes_eqb (bk_denom k) denom || bytes_eqb (bk_name k) name) (baskets s))) LOrm ;;
  let id := (basket_seq_id s + 1)%N in
  let s := s <| baskets := <[id := {| bk_denom := denom; bk_name := name; bk_disable_auto_retire := disable_auto_retire;
                                      bk_ct := ct; bk_criteria := criteria; bk_exponent := ct_precision cty;
                                      bk_curator := curator |}]> (baskets s) |>
             <| basket_seq_id := id |> in
  s <- index_allowed_classes id ct allowed_classes s ;;
  ret s (RBasketDenom denom).

(* ------------------------------------------------------------------ *)
(* Put                                                                 *)
(* ------------------------------------------------------------------ *)

(* block time minus a protobuf duration, computed on seconds and nanoseconds (exact, no saturation) *)
Definition duration_ns (secs nanos : Z) : Z := secs * 1000000000 + nanos.
Definition ts_of_nanos (n : Z) : ts := {| secs := n / 1000000000; nanos := n mod 1000000000 |}.

Definition min_start_date (c : date_criteria) (block_time : ts) : option ts :=
  match c with
  | DCNone => None
  | DCMinStart t => Some t
  | DCWindow ds dn => Some (ts_of_nanos (ts_total_nanos block_time - duration_ns ds dn))
  | DCYears n => if n =? 0 then Some {| secs := ts_min_secs; nanos := 0 |}   (* zero time.Time *)
                 else Some (start_of_year (year_of block_time - n))
  end.

(* canBasketAcceptCredit *)
Definition can_basket_accept (e : env) (s : state) (id : N) (k : basket) (ba : batch) : lres unit :=
  _ <- match min_start_date (bk_criteria k) (e_time e) with
       | None => LOk tt
       | Some m => check (negb (match ts_compare (ba_start ba) m with Lt => true | _ => false end)) LInvalid
       end ;;
  let class_id := get_class_id_from_batch_denom (ba_denom ba) in
  _ <- check (bool_decide ((id, class_id) ∈ basket_classes s)) LInvalid ;;
  '(_, cl) <- from_option LOrm (class_by_id s class_id) ;;
  check (bytes_eqb (cl_ct cl) (bk_ct k)) LInvalid.

(* transferToBasket *)
Definition transfer_to_basket (owner : addr) (amt : dec) (id : N) (bkey : N) (ba : batch) (p : Z) (s : state) : lres state :=
  ub <- from_option LInsufficient (balances s !! (owner, bkey)) ;;
  _ <- check (is_positive (bl_tradable ub)) LInvalid ;;
  nt <- lift_as LInsufficient (safe_sub_balance (bl_tradable ub) amt) ;;
  s <- update_balance owner bkey {| bl_tradable := dnorm nt; bl_retired := bl_retired ub; bl_escrowed := bl_escrowed ub |} s ;;
  match basket_balances s !! (id, ba_denom ba) with
  | None =>
      LOk (s <| basket_balances := <[(id, ba_denom ba) := {| bb_balance := dnorm amt; bb_start := ba_start ba |}]> (basket_balances s) |>)
  | Some bb =>
      _ <- check (is_positive (bb_balance bb)) LInvalid ;;
      nb <- lift (add (bb_balance bb) amt) ;;
      LOk (s <| basket_balances := <[(id, ba_denom ba) := {| bb_balance := dnorm nb; bb_start := bb_start bb |}]> (basket_balances s) |>)
  end.

(* creditAmountToBasketCoin: multiplier(1e+p).MulExact(amt), then BigInt *)
Definition credit_amount_to_tokens (amt : dec) (p : Z) : lres Z :=
  t <- lift (mul_exact (mkDec false 1 p) amt) ;;
  lift (big_int t).

Definition put_one (e : env) (owner : addr) (id : N) (k : basket) (p : Z) (acc : state * Z) (c : basket_credit) : lres (state * Z) :=
  let '(s, received) := acc in
  '(bkey, ba) <- from_option LInvalid (batch_by_denom s (bcr_denom c)) ;;
  _ <- can_basket_accept e s id k ba ;;
  amt <- lift (posfixed p (bcr_amount c)) ;;
  s <- transfer_to_basket owner amt id bkey ba p s ;;
  tokens <- credit_amount_to_tokens amt p ;;
  LOk (s, received + tokens).

Definition h_put (e : env) (s : state) (owner : addr) (basket_denom : bytes) (cs : list basket_credit) : hres :=
  '(id, k) <- from_option LNotFound (basket_by_denom s basket_denom) ;;
  cty <- from_option LOrm (credit_types s !! bk_ct k) ;;
  '(s, received) <- lfold (put_one e owner id k (ct_precision cty)) cs (s, 0) ;;
  let coins := [{| c_denom := bk_denom k; c_amount := received |}] in
  s <- mint_coins addr_basket coins s ;;
  s <- send_coins_from_module_to_account addr_basket owner coins s ;;
  ret s (RAmountReceived received).

(* ------------------------------------------------------------------ *)
(* Take                                                                *)
(* ------------------------------------------------------------------ *)

(* the (basket_id, batch_start_date) index: rows of the basket ordered by start date, then by the
   primary key (batch denom) *)
Definition bb_leb (x y : bytes * basket_balance) : bool :=
  match ts_compare (bb_start x.2) (bb_start y.2) with
  | Lt => true
  | Gt => false
  | Eq => match bytes_cmp x.1 y.1 with Gt => false | _ => true end
  end.

Definition basket_rows (s : state) (id : N) : list (bytes * basket_balance) :=
  sort_by bb_leb
    (omap (fun kv => if (kv.1.1 =? id)%N then Some (kv.1.2, kv.2) else None) (map_to_list (basket_balances s))).

(* addCreditBalance *)
Definition add_credit_balance (owner : addr) (denom : bytes) (amt : dec) (retire : bool) (s : state) : lres state :=
  '(bkey, _) <- from_option LOrm (batch_by_denom s denom) ;;
  if retire then
    s <- retire_and_save_balance owner bkey amt s ;;
    retire_supply bkey amt s
  else add_and_save_balance owner bkey amt s.

(* the release loop: always takes the first row of the index; fuel bounds the number of iterations *)
Fixpoint take_loop (fuel : nat) (owner : addr) (id : N) (retire : bool) (needed : dec)
    (acc : list (bytes * bytes)) (s : state) : lres (state * list (bytes * bytes)) :=
  match fuel with
  | O => LErr LFuel
  | S fuel' =>
      match basket_rows s id with
      | [] => LErr LInvalid                       (* "unexpected failure - balance invariant broken" *)
      | (denom, bb) :: _ =>
          let balance := bb_balance bb in
          match cmp balance needed with
          | Gt =>
              s <- add_credit_balance owner denom needed retire s ;;
              nb <- lift (sub balance needed) ;;
              m <- orm_update (id, denom) {| bb_balance := dnorm nb; bb_start := bb_start bb |} (basket_balances s) ;;
              LOk (s <| basket_balances := m |>, acc ++ [(denom, to_string needed)])
          | c =>
              s <- add_credit_balance owner denom balance retire s ;;
              let s := s <| basket_balances := delete (id, denom) (basket_balances s) |> in
              let acc := acc ++ [(denom, to_string balance)] in
              match c with
              | Eq => LOk (s, acc)
              | _ => needed' <- lift (sub needed balance) ;; take_loop fuel' owner id retire needed' acc s
              end
          end
      end
  end.

Definition h_take (e : env) (s : state) (owner : addr) (basket_denom amount : bytes) (retire_on_take : bool) : hres :=
  '(id, k) <- from_option LNotFound (basket_by_denom s basket_denom) ;;
  cty <- from_option LOrm (credit_types s !! bk_ct k) ;;
  _ <- check (bk_disable_auto_retire k || retire_on_take) LInvalid ;;
  tokens <- from_option LInvalid (parse_sdk_int amount) ;;
  coins <- new_coins1 (bk_denom k) tokens ;;
  _ <- check (tokens <=? bank_bal s owner (bk_denom k)) LInsufficient ;;
  s <- send_coins owner addr_basket coins s ;;
  s <- burn_coins addr_basket coins s ;;
  (* the credits are derived from the parsed integer (Int.String() re-read as a decimal), not from a second
     reading of the message string *)
  amt <- lift (parse (to_string (mkDec false tokens 0))) ;;
  needed <- lift (quo_exact amt (mkDec false 1 (ct_precision cty))) ;;
  '(s, credits) <- take_loop (S (List.length (basket_rows s id))) owner id retire_on_take needed [] s ;;
  ret s (RTake credits).

(* ------------------------------------------------------------------ *)
(* administration                                                      *)
(* ------------------------------------------------------------------ *)

Definition set_basket (id : N) (k : basket) (s : state) : state := s <| baskets := <[id := k]> (baskets s) |>.

Definition h_update_basket_fee (e : env) (s : state) (authority : addr) (fee : option coin) : hres :=
  _ <- check (is_authority e authority) LUnauthorized ;;
  ret (s <| basket_fee := normalise_fee fee |>) REmpty.

Definition h_update_curator (e : env) (s : state) (curator : addr) (denom : bytes) (new_curator : addr) : hres :=
  '(id, k) <- from_option LNotFound (basket_by_denom s denom) ;;
  _ <- check (bk_curator k =? curator)%N LUnauthorized ;;
  ret (set_basket id {| bk_denom := bk_denom k; bk_name := bk_name k; bk_disable_auto_retire := bk_disable_auto_retire k;
                        bk_ct := bk_ct k; bk_criteria := bk_criteria k; bk_exponent := bk_exponent k;
                        bk_curator := new_curator |} s) REmpty.

Definition h_update_date_criteria (e : env) (s : state) (authority : addr) (denom : bytes) (criteria : date_criteria) : hres :=
  _ <- check (is_authority e authority) LUnauthorized ;;
  '(id, k) <- from_option LNotFound (basket_by_denom s denom) ;;
  ret (set_basket id {| bk_denom := bk_denom k; bk_name := bk_name k; bk_disable_auto_retire := bk_disable_auto_retire k;
                        bk_ct := bk_ct k; bk_criteria := criteria; bk_exponent := bk_exponent k;
                        bk_curator := bk_curator k |} s) REmpty.
