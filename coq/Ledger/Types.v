(* Ledger model, layer 1: state, messages, responses, errors, table helpers.

   One record field per ORM table of the three ecocredit state.proto files, plus the bank module's
   balances and supplies (modelled, not verified: x/bank and the cosmos-sdk ORM are outside /repo).
   Model file: definitions only.  Uses std++ finite maps. *)
From stdpp Require Import gmap.
From RecordUpdate Require Import RecordSet.
From Coq Require Import ZArith NArith List Bool Strings.Byte.
Require Import Regen.Base.Bytes Regen.Base.Calendar Regen.Dec.Dec.
Import ListNotations.
Local Open Scope Z_scope.

(* ------------------------------------------------------------------ *)
(* keys                                                                *)
(* ------------------------------------------------------------------ *)

(* addresses are indices into the harness account table (users 0.., 100 gov authority,
   101 ecocredit module, 102 basket sub-module, 103 marketplace fee pool, 104 mint) *)
Definition addr := N.
Definition addr_gov : addr := 100%N.
Definition addr_ecocredit : addr := 101%N.
Definition addr_basket : addr := 102%N.
Definition addr_feepool : addr := 103%N.

Global Instance byte_eq_dec : EqDecision byte := Byte.byte_eq_dec.
Global Instance byte_countable : Countable byte :=
  inj_countable Byte.to_N Byte.of_N Byte.of_to_N.

(* bytes = list byte is then countable through std++'s list instance *)

Global Instance ts_eq_dec : EqDecision ts.
Proof. intros [a b] [c d]. destruct (decide (a = c)), (decide (b = d)); [left; congruence | right; congruence ..]. Defined.

Global Instance dec_eq_dec : EqDecision dec.
Proof. intros [a b c] [d e f]. destruct (decide (a = d)), (decide (b = e)), (decide (c = f));
  [left; congruence | right; congruence ..]. Defined.

(* ------------------------------------------------------------------ *)
(* rows                                                                *)
(* ------------------------------------------------------------------ *)

Record credit_type := { ct_name : bytes; ct_unit : bytes; ct_precision : Z }.     (* key: abbreviation *)
Record class := { cl_id : bytes; cl_admin : addr; cl_metadata : bytes; cl_ct : bytes }.
Record project := { pj_id : bytes; pj_admin : addr; pj_class_key : N; pj_jurisdiction : bytes;
                    pj_metadata : bytes; pj_reference_id : bytes }.
Record batch := { ba_issuer : addr; ba_project_key : N; ba_denom : bytes; ba_metadata : bytes;
                  ba_start : ts; ba_end : ts; ba_issuance : ts; ba_open : bool }.
(* Amounts are stored by the implementation as decimal strings; the model stores the decimal the
   string denotes, in the normal form [dnorm] that print-then-parse produces. *)
Record balance := { bl_tradable : dec; bl_retired : dec; bl_escrowed : dec }.      (* key: (address, batch_key) *)
Record supply := { su_tradable : dec; su_retired : dec; su_cancelled : dec }.      (* key: batch_key *)
Record batch_contract := { bc_class_key : N; bc_contract : bytes }.                (* key: batch_key *)

Inductive date_criteria :=
| DCNone
| DCMinStart (t : ts)
| DCWindow (dur_secs dur_nanos : Z)
| DCYears (n : Z).

Record basket := { bk_denom : bytes; bk_name : bytes; bk_disable_auto_retire : bool; bk_ct : bytes;
                   bk_criteria : date_criteria; bk_exponent : Z; bk_curator : addr }.
Record basket_balance := { bb_balance : dec; bb_start : ts }.                      (* key: (basket_id, batch_denom) *)

Record sell_order := { so_seller : addr; so_batch_key : N; so_quantity : bytes (* raw string, as stored *);
                       so_market_id : N; so_ask_amount : Z; so_disable_auto_retire : bool;
                       so_expiration : option ts; so_maker : bool }.
Record market := { mk_ct : bytes; mk_denom : bytes; mk_precision_modifier : Z }.
Record fee_params := { fp_buyer : bytes; fp_seller : bytes }.                      (* raw strings *)

Record coin := { c_denom : bytes; c_amount : Z }.

(* ------------------------------------------------------------------ *)
(* state                                                               *)
(* ------------------------------------------------------------------ *)

Record state := {
  (* regen.ecocredit.v1 *)
  credit_types : gmap bytes credit_type;              (* 1 *)
  classes : gmap N class;            class_seq_id : N;   (* 2, auto-increment *)
  class_issuers : gset (N * addr);                    (* 3 *)
  projects : gmap N project;         project_seq_id : N; (* 4 *)
  batches : gmap N batch;            batch_seq_id : N;   (* 5 *)
  class_sequences : gmap bytes N;                     (* 6: credit type abbrev -> next sequence *)
  project_sequences : gmap N N;                       (* 7: class key -> next sequence *)
  batch_sequences : gmap N N;                         (* 8: project key -> next sequence *)
  balances : gmap (addr * N) balance;                 (* 9 *)
  supplies : gmap N supply;                           (* 10 *)
  origin_txs : gset (N * bytes * bytes);              (* 11: (class_key, id, source) *)
  batch_contracts : gmap N batch_contract;            (* 12 *)
  allowlist_enabled : bool;                           (* 13 *)
  allowed_creators : gset addr;                       (* 14 *)
  class_fee : option coin;                            (* 15 *)
  allowed_bridge_chains : gset bytes;                 (* 16 *)
  (* regen.ecocredit.basket.v1 *)
  baskets : gmap N basket;           basket_seq_id : N;  (* 1 *)
  basket_classes : gset (N * bytes);                  (* 2: (basket_id, class_id) *)
  basket_balances : gmap (N * bytes) basket_balance;  (* 3 *)
  basket_fee : option coin;                           (* 4 *)
  (* regen.ecocredit.marketplace.v1 *)
  sell_orders : gmap N sell_order;   sell_order_seq_id : N; (* 1 *)
  allowed_denoms : gmap bytes (bytes * Z);            (* 3: bank denom -> (display denom, exponent) *)
  markets : gmap N market;           market_seq_id : N;  (* 4 *)
  fee_params_ : option fee_params;                    (* 5 *)
  (* x/bank (modelled) *)
  bank : gmap (addr * bytes) Z;
  bank_supply : gmap bytes Z
}.

#[export] Instance eta_state : Settable _ := settable! Build_state
  <credit_types; classes; class_seq_id; class_issuers; projects; project_seq_id; batches; batch_seq_id;
   class_sequences; project_sequences; batch_sequences; balances; supplies; origin_txs; batch_contracts;
   allowlist_enabled; allowed_creators; class_fee; allowed_bridge_chains;
   baskets; basket_seq_id; basket_classes; basket_balances; basket_fee;
   sell_orders; sell_order_seq_id; allowed_denoms; markets; market_seq_id; fee_params_;
   bank; bank_supply>.
