(* Assembly, layer 2: identifiers (Inv_ids, InvIds.v) and order well-formedness (Inv_orders,
   InvMarketOrders.v) across all four families.

   - basket messages never write the identifier tables nor the market tables ([basket_stab], by
     inspection of the handlers), marketplace messages never write the identifier tables (market_frame);
   - base-module messages keep every class row's id and credit type, every batch row's denom, every
     credit type, and the market tables ([static_frame]); together with the uniqueness of class ids in
     the post-state (Inv_ids) this keeps the class lookup of every open order's batch stable. *)
From stdpp Require Import gmap.
From RecordUpdate Require Import RecordSet.
From Coq Require Import ZArith NArith List Bool Lia Strings.Byte.
Require Import Regen.Base.Bytes Regen.Base.Calendar Regen.Dec.Dec.
Require Import Regen.Ledger.Types Regen.Ledger.Msgs Regen.Ledger.Orm Regen.Ledger.BaseMsgs
               Regen.Ledger.BasketMsgs Regen.Ledger.MarketMsgs Regen.Ledger.Step
               Regen.Ledger.Amount Regen.Ledger.MapSum Regen.Ledger.Inv Regen.Ledger.InvTactics.
Require Regen.Ledger.InvBasketLib.
Require Import Regen.Ledger.InvFrame Regen.Ledger.InvAdmin Regen.Ledger.InvBaseLib Regen.Ledger.InvBase
               Regen.Ledger.InvBasket Regen.Ledger.InvBridgeLib Regen.Ledger.InvBridge Regen.Ledger.InvIds.
Require Import Regen.Ledger.InvMarketLib Regen.Ledger.InvMarketPrim Regen.Ledger.InvMarketOrders
               Regen.Ledger.InvMarketPrune Regen.Ledger.InvMarket.
Require Import Regen.Ledger.InvAllLib Regen.Ledger.InvAllBound Regen.Ledger.InvAllRun.
Import ListNotations RecordSetNotations.
Local Open Scope Z_scope.

(* ------------------------------------------------------------------ *)
(* tables no basket message writes                                     *)
(* ------------------------------------------------------------------ *)

Definition stab (s : state) :=
  (itab s, markets s, market_seq_id s, sell_orders s, sell_order_seq_id s, allowed_denoms s, fee_params_ s,
   origin_txs s, allowed_bridge_chains s, allowlist_enabled s, allowed_creators s, class_fee s).

Lemma nonbank_stab s s' : nonbank_eq s s' -> stab s' = stab s.
Proof. unfold nonbank_eq, nonbank. intros H. injection H. intros. unfold stab, itab. congruence. Qed.

Lemma transfer_to_basket_stab owner amt id bkey ba p s s' :
  transfer_to_basket owner amt id bkey ba p s = LOk s' -> stab s' = stab s.
Proof.
  unfold transfer_to_basket. intros H. lstep H as ub Hub. lstep H as u Hu. lstep H as nt Hnt. lstep H as s1 Hs1.
  apply update_balance_ok' in Hs1. destruct Hs1 as [-> _].
  destruct (basket_balances _ !! _).
  - lstep H as u2 Hu2. lstep H as nb Hnb. inversion H. reflexivity.
  - inversion H. reflexivity.
Qed.

Lemma put_one_stab e owner id k p acc c acc' : put_one e owner id k p acc c = LOk acc' -> stab acc'.1 = stab acc.1.
Proof.
  destruct acc as [s rec]. unfold put_one. intros H.
  lstep H as x Hx. destruct x as [bkey ba]. cbv beta iota in H.
  lstep H as u Hu. lstep H as amt Hamt. lstep H as s1 Hs1. lstep H as tok Htok. inversion H; subst acc'. cbn [fst].
  eapply transfer_to_basket_stab. exact Hs1.
Qed.

Lemma add_credit_balance_stab owner denom amt retire s s' :
  add_credit_balance owner denom amt retire s = LOk s' -> stab s' = stab s.
Proof.
  unfold add_credit_balance. intros H. lstep H as x Hx. destruct x as [bkey ba]. cbv beta iota in H.
  destruct retire.
  - lstep H as s1 Hs1. unfold retire_and_save_balance in Hs1. cbv zeta in Hs1. lstep Hs1 as r Hr. inversion Hs1; subst s1.
    unfold retire_supply in H. lstep H as su Hsu. lstep H as t Ht. lstep H as r2 Hr2.
    apply update_supply_ok' in H. destruct H as [-> _]. reflexivity.
  - unfold add_and_save_balance in H. cbv zeta in H. lstep H as t Ht. inversion H. reflexivity.
Qed.

Lemma take_loop_stab owner id retire : forall fuel needed acc s s' out,
  take_loop fuel owner id retire needed acc s = LOk (s', out) -> stab s' = stab s.
Proof.
  induction fuel as [|fuel IH]; intros needed acc s s' out H; [discriminate|]. cbn [take_loop] in H.
  destruct (basket_rows s id) as [|[denom bb] rest]; [discriminate|]. cbv zeta in H.
  destruct (cmp (bb_balance bb) needed).
  - lstep H as s1 Hs1. inversion H; subst s' out.
    transitivity (stab s1); [reflexivity | eapply add_credit_balance_stab; exact Hs1].
  - lstep H as s1 Hs1. lstep H as n' Hn'. apply IH in H. rewrite H.
    transitivity (stab s1); [reflexivity | eapply add_credit_balance_stab; exact Hs1].
  - lstep H as s1 Hs1. lstep H as nb Hnb. lstep H as m Hm. inversion H; subst s' out.
    transitivity (stab s1); [reflexivity | eapply add_credit_balance_stab; exact Hs1].
Qed.

Lemma index_allowed_classes_stab id ct l : forall s s', index_allowed_classes id ct l s = LOk s' -> stab s' = stab s.
Proof.
  induction l as [|c l IH]; intros s s' H; cbn [index_allowed_classes] in H; [inversion H; reflexivity|].
  lstep H as x Hx. destruct x as [k cl]. cbv beta iota in H. lstep H as u Hu.
  destruct (bool_decide _); [discriminate|]. apply IH in H. rewrite H. reflexivity.
Qed.

Theorem basket_stab e s m s' r evs :
  is_basket_msg m = true -> handle e s m = LOk (s', r, evs) -> stab s' = stab s.
Proof.
  intros Hm H. destruct m; try discriminate Hm; cbn [handle] in H.
  - unfold h_basket_create in H. lstep H as s1 Hs1. lstep H as cty Hcty. lstep H as x Hx. destruct x as [denom dd].
    cbv beta iota zeta in H. lstep H as u Hu. lstep H as s2 Hs2. unfold ret in H. inversion H; subst s' r evs.
    apply index_allowed_classes_stab in Hs2. rewrite Hs2. apply charge_fee_nonbank, nonbank_stab in Hs1.
    rewrite <- Hs1. reflexivity.
  - unfold h_put in H. lstep H as x Hx. destruct x as [id k]. cbv beta iota in H. lstep H as cty Hcty.
    lstep H as acc Hacc. destruct acc as [s1 rec]. cbv beta iota zeta in H.
    lstep H as s2 Hs2. lstep H as s3 Hs3. unfold ret in H. inversion H; subst s' r evs.
    apply send_coins_m2a_nonbank, nonbank_stab in Hs3. apply mint_coins_nonbank, nonbank_stab in Hs2.
    rewrite Hs3, Hs2.
    change (stab (s1, rec).1 = stab (s, 0).1).
    eapply (lfold_preserves _ (fun acc => stab acc.1 = stab s)); [| |exact Hacc]; [|reflexivity].
    intros a x a' Ha Hf. rewrite <- Ha. eapply put_one_stab. exact Hf.
  - unfold h_take in H. lstep H as x Hx. destruct x as [id k]. cbv beta iota in H. lstep H as cty Hcty.
    lstep H as u1 Hu1. lstep H as tokens Htok. lstep H as coins Hcoins. lstep H as u2 Hu2.
    lstep H as s1 Hs1. lstep H as s2 Hs2. lstep H as amt Hamt. lstep H as needed Hq.
    lstep H as res Hloop. destruct res as [s3 credits]. cbv beta iota in H. unfold ret in H. inversion H; subst s' r evs.
    apply take_loop_stab in Hloop. apply send_coins_nonbank, nonbank_stab in Hs1. apply burn_coins_nonbank, nonbank_stab in Hs2.
    congruence.
  - unfold h_update_basket_fee in H. lstep H as u Hu. unfold ret in H. inversion H. reflexivity.
  - unfold h_update_curator in H. lstep H as x Hx. destruct x as [id k]. cbv beta iota in H. lstep H as u Hu.
    unfold ret in H. inversion H. reflexivity.
  - unfold h_update_date_criteria in H. lstep H as u Hu. lstep H as x Hx. destruct x as [id k]. cbv beta iota in H.
    unfold ret in H. inversion H. reflexivity.
Qed.

Lemma stab_fields s s' : stab s' = stab s ->
  itab s' = itab s /\ markets s' = markets s /\ market_seq_id s' = market_seq_id s /\
  batches s' = batches s /\ classes s' = classes s /\ credit_types s' = credit_types s /\ sell_orders s' = sell_orders s.
Proof. unfold stab, itab. intros H. injection H. intros. repeat split; congruence. Qed.

Lemma market_itab s s' : s' = mk_frame s s' -> itab s' = itab s.
Proof. intros ->. reflexivity. Qed.

(* ------------------------------------------------------------------ *)
(* what base-module messages keep                                      *)
(* ------------------------------------------------------------------ *)

Record static_frame (s s' : state) : Prop := {
  sf_markets : markets s' = markets s;
  sf_market_seq : market_seq_id s' = market_seq_id s;
  sf_classes : forall k c, classes s !! k = Some c ->
     exists c', classes s' !! k = Some c' /\ cl_id c' = cl_id c /\ cl_ct c' = cl_ct c;
  sf_cts : forall a ct, credit_types s !! a = Some ct -> credit_types s' !! a = Some ct;
  sf_batches : forall k ba, batches s !! k = Some ba -> exists ba', batches s' !! k = Some ba' /\ ba_denom ba' = ba_denom ba
}.

Lemma static_frame_eqs s s' :
  markets s' = markets s -> market_seq_id s' = market_seq_id s -> classes s' = classes s ->
  credit_types s' = credit_types s -> batches s' = batches s -> static_frame s s'.
Proof.
  intros E1 E2 E3 E4 E5. constructor; [exact E1 | exact E2 | | |].
  - intros k c Hk. exists c. rewrite E3. tauto.
  - intros a ct. rewrite E4. tauto.
  - intros k ba Hk. exists ba. rewrite E5. tauto.
Qed.

Lemma static_frame_refl s : static_frame s s.
Proof. apply static_frame_eqs; reflexivity. Qed.

Lemma static_frame_trans a b c : static_frame a b -> static_frame b c -> static_frame a c.
Proof.
  intros [A1 A2 A3 A4 A5] [B1 B2 B3 B4 B5]. constructor; [congruence | congruence | | |].
  - intros k x Hk. destruct (A3 _ _ Hk) as (x1 & H1 & I1 & T1). destruct (B3 _ _ H1) as (x2 & H2 & I2 & T2).
    exists x2. split; [exact H2 | split; congruence].
  - intros x ct Hx. apply B4, A4, Hx.
  - intros k x Hk. destruct (A5 _ _ Hk) as (x1 & H1 & D1). destruct (B5 _ _ H1) as (x2 & H2 & D2).
    exists x2. split; [exact H2 | congruence].
Qed.

Lemma nonbank_static s s' : nonbank_eq s s' -> static_frame s s'.
Proof.
  unfold nonbank_eq, nonbank. intros H. injection H. intros. apply static_frame_eqs; congruence.
Qed.

Lemma rest_static s s' : rest_eq s s' -> static_frame s s'.
Proof. intros H. unfold rest_eq in H. rewrite H. apply static_frame_eqs; reflexivity. Qed.

Ltac static_eqs := apply static_frame_eqs; reflexivity.

Lemma insert_issuers_static k l : forall s s', insert_issuers k l s = LOk s' -> static_frame s s'.
Proof.
  induction l as [|a l IH]; cbn [insert_issuers]; intros s s' H.
  - inversion H. apply static_frame_refl.
  - destruct (bool_decide _); [discriminate|].
    eapply static_frame_trans; [| eapply IH; exact H]. static_eqs.
Qed.

Lemma fold_remove_issuers_static k l : forall s,
  static_frame s (fold_left (fun s a => s <| class_issuers := class_issuers s ∖ {[ (k, a) ]} |>) l s).
Proof.
  induction l as [|a l IH]; cbn [fold_left]; intros s; [apply static_frame_refl|].
  eapply static_frame_trans; [| apply IH]. static_eqs.
Qed.

Lemma set_class_static s k c c' :
  classes s !! k = Some c -> cl_id c' = cl_id c -> cl_ct c' = cl_ct c -> static_frame s (set_class k c' s).
Proof.
  intros Hk Hi Ht. constructor; try reflexivity.
  - intros k0 c0 Hk0. cbn. destruct (decide (k0 = k)) as [->|Hne].
    + rewrite lookup_insert. rewrite Hk in Hk0. inversion Hk0; subst c0. eauto.
    + rewrite lookup_insert_ne by congruence. eauto.
  - intros a ct Ha. exact Ha.
  - intros k0 ba Hk0. eauto.
Qed.

Theorem admin_static e s m s' r evs :
  is_admin_msg m = true -> Inv_ids s -> handle e s m = LOk (s', r, evs) -> static_frame s s'.
Proof.
  intros Hm Hids H. destruct m; try discriminate Hm; cbn [handle] in H.
  - (* CreateClass: the new row goes to the fresh key class_seq_id + 1 *)
    unfold h_create_class in H.
    lstep H as u1 H1. lstep H as s1 Hs1. lstep H as ctv H2. cbv zeta in H. lstep H as u2 H3. lstep H as s2 Hs2.
    unfold ret in H. inversion H; subst; clear H.
    pose proof (charge_fee_nonbank _ _ _ _ _ _ Hs1) as Hnb.
    eapply static_frame_trans; [apply nonbank_static; exact Hnb|].
    eapply static_frame_trans; [| eapply insert_issuers_static; exact Hs2].
    assert (Hfresh : classes s1 !! (class_seq_id s1 + 1)%N = None).
    { pose proof (ids_itab _ _ (nonbank_itab _ _ Hnb) Hids) as ((_ & _ & Hk & _) & _).
      destruct (classes s1 !! (class_seq_id s1 + 1)%N) eqn:E; [|reflexivity].
      specialize (Hk _ (ex_intro _ _ E)). lia. }
    constructor; try reflexivity.
    + intros k c Hk. cbn. rewrite lookup_insert_ne by (intros <-; congruence). eauto.
    + intros a0 ct0 Ha. exact Ha.
    + intros k ba Hk. eauto.
  - unfold h_create_project in H.
    lstep H as p1 H1. destruct p1 as [ck cl]. lstep H as u1 H2. lstep H as u2 H3. lstep H as u3 H4.
    unfold ret in H. inversion H; subst; clear H. static_eqs.
  - unfold h_update_class_admin in H. lstep H as p1 H1. destruct p1 as [k c]. lstep H as u1 H2.
    unfold ret in H. inversion H; subst; clear H. apply InvIds.class_by_id_Some in H1. destruct H1 as [Hk _].
    eapply set_class_static; [exact Hk | reflexivity | reflexivity].
  - unfold h_update_class_issuers in H. lstep H as p1 H1. destruct p1 as [k c]. lstep H as u1 H2. lstep H as s2 Hs2.
    unfold ret in H. inversion H; subst; clear H.
    eapply static_frame_trans; [apply fold_remove_issuers_static | eapply insert_issuers_static; exact Hs2].
  - unfold h_update_class_metadata in H. lstep H as p1 H1. destruct p1 as [k c]. lstep H as u1 H2.
    unfold ret in H. inversion H; subst; clear H. apply InvIds.class_by_id_Some in H1. destruct H1 as [Hk _].
    eapply set_class_static; [exact Hk | reflexivity | reflexivity].
  - unfold h_update_project_admin in H. lstep H as p1 H1. destruct p1 as [k c]. lstep H as u1 H2.
    unfold ret in H. inversion H; subst; clear H. static_eqs.
  - unfold h_update_project_metadata in H. lstep H as p1 H1. destruct p1 as [k c]. lstep H as u1 H2.
    unfold ret in H. inversion H; subst; clear H. static_eqs.
  - (* AddCreditType: a new abbreviation *)
    unfold h_add_credit_type in H. lstep H as u1 H1. lstep H as u2 H2. lstep H as u3 H3.
    unfold ret in H. inversion H; subst; clear H.
    constructor; try reflexivity.
    + intros k c Hk. eauto.
    + intros a0 ct0 Ha. cbn. rewrite lookup_insert_ne; [exact Ha|]. intros <-. rewrite Ha in H2. discriminate.
    + intros k ba Hk. eauto.
  - unfold h_set_allowlist in H. lstep H as u1 H1. unfold ret in H. inversion H; subst; clear H. static_eqs.
  - unfold h_add_class_creator in H. lstep H as u1 H1. lstep H as u2 H2. unfold ret in H. inversion H; subst; clear H. static_eqs.
  - unfold h_remove_class_creator in H. lstep H as u1 H1. lstep H as u2 H2. unfold ret in H. inversion H; subst; clear H. static_eqs.
  - unfold h_update_class_fee in H. lstep H as u1 H1. unfold ret in H. inversion H; subst; clear H. static_eqs.
  - unfold h_add_allowed_bridge_chain in H. lstep H as u1 H1. lstep H as u2 H2. unfold ret in H. inversion H; subst; clear H. static_eqs.
  - unfold h_remove_allowed_bridge_chain in H. lstep H as u1 H1. unfold ret in H. inversion H; subst; clear H. static_eqs.
  - unfold h_burn_regen in H. lstep H as amt H1. lstep H as u1 H2. lstep H as cns H3. lstep H as s1 Hs1. lstep H as s2 Hs2.
    unfold ret in H. inversion H; subst; clear H.
    apply nonbank_static. eapply nonbank_eq_trans; [eapply send_coins_nonbank; exact Hs1 | eapply burn_coins_nonbank; exact Hs2].
  - destruct (blocked_addr to); [discriminate|]. lstep H as s1 Hs1. unfold ret in H. inversion H; subst; clear H.
    apply nonbank_static. eapply send_coins_nonbank; exact Hs1.
  - discriminate H.
Qed.

Lemma create_project_static e s admin cid md j rid s' r evs :
  h_create_project e s admin cid md j rid = LOk (s', r, evs) -> static_frame s s'.
Proof. intros H. apply h_create_project_shape in H. destruct H as (ck & cl & _ & _ & _ & -> & _). static_eqs. Qed.

Lemma create_batch_static e s issuer pid iss metadata start_ end_ open otx s' r evs :
  Inv_ids s -> h_create_batch e s issuer pid iss metadata start_ end_ open otx = LOk (s', r, evs) -> static_frame s s'.
Proof.
  intros Hids H. apply h_create_batch_shape in H.
  destruct H as (pk & pj & cl & sd & ed & _ & _ & _ & _ & _ & _ & _ & Hrest & _ & _).
  eapply static_frame_trans; [|apply rest_static; exact Hrest].
  assert (Hfresh : batches s !! (batch_seq_id s + 1)%N = None).
  { destruct Hids as (_ & _ & (_ & _ & Hk & _) & _).
    destruct (batches s !! (batch_seq_id s + 1)%N) eqn:E; [|reflexivity].
    specialize (Hk _ (ex_intro _ _ E)). lia. }
  unfold cb_tables. constructor; try reflexivity.
  - intros k c Hk. eauto.
  - intros a ct Ha. exact Ha.
  - intros k ba Hk. cbn. rewrite lookup_insert_ne by (intros <-; congruence). eauto.
Qed.

Lemma mint_static e s issuer denom iss otx s' r evs :
  h_mint_batch_credits e s issuer denom iss otx = LOk (s', r, evs) -> static_frame s s'.
Proof.
  intros H. apply h_mint_batch_credits_shape in H.
  destruct H as (bk & ba & pj & o & _ & _ & _ & _ & _ & _ & Hrest & _ & _).
  eapply static_frame_trans; [|apply rest_static; exact Hrest]. static_eqs.
Qed.

Lemma set_batch_static s bk ba ba' :
  batches s !! bk = Some ba -> ba_denom ba' = ba_denom ba -> static_frame s (set_batch bk ba' s).
Proof.
  intros Hk Hd. constructor; try reflexivity.
  - intros k c Hc. eauto.
  - intros a ct Ha. exact Ha.
  - intros k b Hb. cbn. destruct (decide (k = bk)) as [->|Hne].
    + rewrite lookup_insert. rewrite Hk in Hb. inversion Hb; subst b. eauto.
    + rewrite lookup_insert_ne by congruence. eauto.
Qed.

Theorem base_credit_static e s m s' r evs :
  is_base_credit_msg m = true -> Inv_ids s -> handle e s m = LOk (s', r, evs) -> static_frame s s'.
Proof.
  intros Hm Hids H. destruct m; try discriminate Hm; cbn [handle] in H.
  - eapply create_batch_static; eassumption.
  - eapply mint_static; eassumption.
  - apply h_seal_batch_shape in H. destruct H as [->|(bk & ba & Hba & ->)]; [apply static_frame_refl|].
    eapply set_batch_static; [exact Hba | reflexivity].
  - apply h_send_rest in H. apply rest_static. exact H.
  - apply h_retire_rest in H. apply rest_static. exact H.
  - apply h_cancel_rest in H. apply rest_static. exact H.
  - apply h_update_batch_metadata_shape in H. destruct H as (bk & ba & Hba & ->).
    eapply set_batch_static; [exact Hba | reflexivity].
  - apply h_bridge_shape in H. destruct H as (_ & _ & _ & _ & H). apply rest_static. exact H.
  - apply h_bridge_receive_shape in H.
    destruct H as (o & bb & pp & ck & cl & _ & _ & _ & _ & _ & [Hmint|Hcreate]).
    + destruct Hmint as (bk & bc & ba0 & pj0 & r1 & e1 & _ & _ & _ & Hm1 & _ & _). eapply mint_static; exact Hm1.
    + destruct Hcreate as (_ & s1 & pid & d & e2 & Hproj & Hcb & _ & _).
      assert (H1 : static_frame s s1 /\ Inv_ids s1).
      { destruct Hproj as [(k & pj0 & _ & -> & _)|(_ & e3 & Hcp)]; [split; [apply static_frame_refl | exact Hids]|].
        split; [eapply create_project_static; exact Hcp | eapply ids_create_project_step; eassumption]. }
      destruct H1 as [F1 I1]. eapply static_frame_trans; [exact F1 | eapply create_batch_static; eassumption].
Qed.

(* ------------------------------------------------------------------ *)
(* Inv_orders under a static frame                                     *)
(* ------------------------------------------------------------------ *)

Lemma ct_abbrev_static s s' d ab ct :
  static_frame s s' ->
  (forall k1 k2 c1 c2, classes s' !! k1 = Some c1 -> classes s' !! k2 = Some c2 -> cl_id c1 = cl_id c2 -> k1 = k2) ->
  credit_type_abbrev_of_denom s d = LOk (ab, ct) -> credit_type_abbrev_of_denom s' d = LOk (ab, ct).
Proof.
  intros F Hu H. unfold credit_type_abbrev_of_denom in *. cbv zeta in *.
  lstep H as x Hx. destruct x as [k c]. cbv beta iota in H. lstep H as ct0 Hct0. inversion H; subst ab ct0; clear H.
  apply InvIds.class_by_id_Some in Hx. destruct Hx as [Hk Hid].
  destruct (sf_classes _ _ F _ _ Hk) as (c' & Hk' & Hid' & Hct').
  assert (Hfind : class_by_id s' (Ids.get_class_id_from_batch_denom d) = Some (k, c')).
  { unfold class_by_id. apply InvBasketLib.map_find_unique; [exact Hk' | | ].
    - cbn beta. apply bytes_eqb_eq. congruence.
    - intros k2 c2 Hk2 Hp2. cbn beta in Hp2. apply bytes_eqb_eq in Hp2. eapply Hu; [exact Hk2 | exact Hk' | congruence]. }
  rewrite Hfind. cbn [from_option lbind]. rewrite Hct'. rewrite (sf_cts _ _ F _ _ Hct0). reflexivity.
Qed.

Lemma orders_static s s' :
  static_frame s s' -> sell_orders s' = sell_orders s -> Inv_ids s' -> Inv_orders s -> Inv_orders s'.
Proof.
  intros F Eso Hids' [I1 I2]. split.
  - intros id o Hid. rewrite Eso in Hid. destruct (I1 _ _ Hid) as (Hask & mk & ba & ct & M1 & M2 & M3).
    split; [exact Hask|]. destruct (sf_batches _ _ F _ _ M2) as (ba' & Hb' & Hd').
    exists mk, ba', ct. rewrite (sf_markets _ _ F). split; [exact M1|]. split; [exact Hb'|]. rewrite Hd'.
    eapply ct_abbrev_static; [exact F | apply Inv_ids_class_unique; exact Hids' | exact M3].
  - rewrite (sf_markets _ _ F), (sf_market_seq _ _ F). exact I2.
Qed.

(* ------------------------------------------------------------------ *)
(* Inv_all                                                             *)
(* ------------------------------------------------------------------ *)

Definition Inv_all (s : state) : Prop := Inv_run s /\ Inv_ids s /\ Inv_orders s.

Theorem handle_preserves_all e s m s' r evs :
  Inv_all s -> validate_basic m = true -> handle e s m = LOk (s', r, evs) -> Inv_all s'.
Proof.
  intros (Hrun & Hids & Hord) Hvb H. pose proof Hrun as (Hc & Hb & Hq).
  split; [apply (handle_preserves_run _ _ _ _ _ _ Hrun Hvb H)|].
  destruct (msg_cases m) as [Hm|[Hm|[Hm|Hm]]].
  - assert (Hids' : Inv_ids s').
    { eapply base_preserves_ids; [|exact Hids|exact Hvb|exact H]. unfold is_base_module_msg. rewrite Hm. reflexivity. }
    split; [exact Hids'|].
    destruct (base_preserves_basket _ _ _ _ _ _ Hm H) as (_ & _ & _ & _ & Hso).
    eapply orders_static; [exact (base_credit_static _ _ _ _ _ _ Hm Hids H) | exact Hso | exact Hids' | exact Hord].
  - assert (Hids' : Inv_ids s').
    { eapply base_preserves_ids; [|exact Hids|exact Hvb|exact H]. unfold is_base_module_msg. rewrite Hm. apply orb_true_r. }
    split; [exact Hids'|].
    eapply orders_static; [exact (admin_static _ _ _ _ _ _ Hm Hids H) | | exact Hids' | exact Hord].
    apply (cf_sell_orders _ _ (admin_credit_frame _ _ _ _ _ _ Hm Hvb H)).
  - destruct (stab_fields _ _ (basket_stab _ _ _ _ _ _ Hm H)) as (E1 & E2 & E3 & E4 & E5 & E6 & E7).
    split; [eapply ids_itab; eassumption|].
    apply (Inv_orders_sub s s'); try assumption. intros id o. rewrite E7. tauto.
  - split.
    + eapply ids_itab; [|exact Hids]. apply market_itab. eapply market_frame; eassumption.
    + eapply market_preserves_orders; eassumption.
Qed.

Theorem deliver_preserves_all e s m : Inv_all s -> Inv_all (deliver e s m).1.
Proof.
  intros Hi. apply (deliver_lift (fun _ b => Inv_all b)); [exact Hi|].
  intros s' r evs Hvb H. eapply handle_preserves_all; eassumption.
Qed.

Theorem begin_block_preserves_all t s s' : Inv_all s -> begin_block t s = LOk s' -> Inv_all s'.
Proof.
  intros (Hrun & Hids & Hord) H. pose proof Hrun as (Hc & Hb & Hq).
  split; [apply (begin_block_preserves_run _ _ _ Hrun H)|]. unfold begin_block in H. split.
  - eapply ids_itab; [|exact Hids]. destruct (prune_spec t s s' Hc H) as (_ & _ & _ & _ & ->). reflexivity.
  - eapply prune_preserves_orders; eassumption.
Qed.

Theorem reaches_preserves_all g s : Inv_all g -> reaches g s -> Inv_all s.
Proof.
  intros Hg Hr. apply (reaches_inv Inv_all) with (s := g); try assumption.
  - intros t a b. apply begin_block_preserves_all.
  - intros e a m. apply deliver_preserves_all.
Qed.

Theorem run_preserves_all authority g h s : Inv_all g -> run authority g h = LOk s -> Inv_all s.
Proof. intros Hg H. eapply reaches_preserves_all; [exact Hg | eapply run_reaches; exact H]. Qed.

Theorem run_intermediate_all authority g h1 bl ms1 ms2 s1 s2 :
  Inv_all g -> run authority g h1 = LOk s1 -> begin_block (blk_time bl) s1 = LOk s2 -> blk_msgs bl = ms1 ++ ms2 ->
  Inv_all s1 /\ Inv_all s2 /\ Inv_all (deliver_all (block_env authority bl) ms1 s2).
Proof.
  intros Hg H1 H2 H3. destruct (run_intermediate_reaches _ _ _ _ _ _ _ _ H1 H2 H3) as (R1 & R2 & R3).
  split; [|split]; eapply reaches_preserves_all; eassumption.
Qed.
