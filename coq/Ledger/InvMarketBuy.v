(* Marketplace proofs: BuyDirect (fillOrder). *)
From stdpp Require Import gmap.
From RecordUpdate Require Import RecordSet.
From Coq Require Import ZArith NArith List Bool Lia Strings.Byte.
Require Import Regen.Base.Bytes Regen.Base.Calendar Regen.Dec.Dec Regen.Dec.DecIface.
Require Import Regen.Ledger.Types Regen.Ledger.Msgs Regen.Ledger.Orm Regen.Ledger.BaseMsgs
               Regen.Ledger.BasketMsgs Regen.Ledger.MarketMsgs Regen.Ledger.Step
               Regen.Ledger.Amount Regen.Ledger.MapSum Regen.Ledger.Inv Regen.Ledger.InvTactics
               Regen.Ledger.InvMarketLib Regen.Ledger.InvMarketPrim Regen.Ledger.InvMarketOrders
               Regen.Ledger.InvMarketSell Regen.Ledger.InvMarketPrune Regen.Ledger.InvMarketUpdate.
Import ListNotations RecordSetNotations.
Local Open Scope Z_scope.
Local Open Scope lres_scope.

(* ------------------------------------------------------------------ *)
(* the four phases of fillOrder                                        *)
(* ------------------------------------------------------------------ *)

Definition fill_ord (id : N) (o : sell_order) (oq q : dec) (s : state) : lres state :=
  match cmp oq q with
  | Lt => LErr LInvalid
  | Eq => LOk (s <| sell_orders := delete id (sell_orders s) |>)
  | Gt => nq <- lift (sub oq q) ;;
          m <- orm_update id {| so_seller := so_seller o; so_batch_key := so_batch_key o;
                                so_quantity := to_string nq; so_market_id := so_market_id o;
                                so_ask_amount := so_ask_amount o;
                                so_disable_auto_retire := so_disable_auto_retire o;
                                so_expiration := so_expiration o; so_maker := so_maker o |} (sell_orders s) ;;
          LOk (s <| sell_orders := m |>)
  end.

Definition fill_seller (o : sell_order) (q : dec) (s : state) : lres state :=
  sb <- from_option LOrm (balances s !! (so_seller o, so_batch_key o)) ;;
  ne <- lift (safe_sub_balance (bl_escrowed sb) q) ;;
  update_balance (so_seller o) (so_batch_key o)
    {| bl_tradable := bl_tradable sb; bl_retired := bl_retired sb; bl_escrowed := dnorm ne |} s.

Definition fill_buyer (buyer : addr) (bk : N) (q : dec) (auto_retire : bool) (s : state) : lres state :=
  let bb := get_balance s buyer bk in
  if negb auto_retire then
    nt <- lift (safe_add_balance (bl_tradable bb) q) ;;
    LOk (save_balance buyer bk
           {| bl_tradable := dnorm nt; bl_retired := bl_retired bb; bl_escrowed := bl_escrowed bb |} s)
  else
    nr <- lift (safe_add_balance (bl_retired bb) q) ;;
    su <- from_option LOrm (supplies s !! bk) ;;
    st <- lift (safe_sub_balance (su_tradable su) q) ;;
    sr <- lift (safe_add_balance (su_retired su) q) ;;
    s <- update_supply bk {| su_tradable := dnorm st; su_retired := dnorm sr; su_cancelled := su_cancelled su |} s ;;
    LOk (save_balance buyer bk
           {| bl_tradable := bl_tradable bb; bl_retired := dnorm nr; bl_escrowed := bl_escrowed bb |} s).

Definition fill_bank (seller buyer : addr) (buyer_fee subtotal : dec) (denom : bytes) (s : state) : lres state :=
  rate <- seller_rate s ;;
  seller_fee <- lift (mul subtotal rate) ;;
  total_fee <- lift (add buyer_fee seller_fee) ;;
  s <- (if is_positive total_fee then
          amount <- lift (sdk_int_trim total_fee) ;;
          coins <- new_coins1 denom amount ;;
          s <- send_coins buyer addr_feepool coins s ;;
          if bytes_eqb denom uregen then burn_coins addr_feepool coins s else LOk s
        else LOk s) ;;
  payment <- lift (sub subtotal seller_fee) ;;
  pay <- lift (sdk_int_trim payment) ;;
  coins <- new_coins1 denom pay ;;
  send_coins buyer seller coins s.

Lemma fill_order_unfold id o buyer q buyer_fee subtotal auto_retire denom s :
  fill_order id o buyer q buyer_fee subtotal auto_retire denom s =
  (oq <- lift (parse (so_quantity o)) ;;
   s <- fill_ord id o oq q s ;;
   s <- fill_seller o q s ;;
   s <- fill_buyer buyer (so_batch_key o) q auto_retire s ;;
   fill_bank (so_seller o) buyer buyer_fee subtotal denom s).
Proof.
  unfold fill_order, fill_seller, fill_buyer, fill_bank.
  destruct (lift (parse (so_quantity o))) as [oq|]; [|reflexivity]. cbn [lbind].
  destruct (fill_ord id o oq q s) as [s1|] eqn:E; unfold fill_ord in E; rewrite E; [|reflexivity]. cbn [lbind].
  destruct (from_option LOrm (balances s1 !! (so_seller o, so_batch_key o))) as [sb|]; [|reflexivity]. cbn [lbind].
  destruct (lift (safe_sub_balance (bl_escrowed sb) q)) as [ne|]; [|reflexivity]. cbn [lbind].
  destruct (update_balance _ _ _ s1) as [s2|]; [|reflexivity]. cbn [lbind]. cbv zeta.
  reflexivity.
Qed.

(* ------------------------------------------------------------------ *)
(* phase A: the order row                                              *)
(* ------------------------------------------------------------------ *)

Lemma fill_ord_spec id o oq q s s1 :
  Inv_sk s -> sell_orders s !! id = Some o -> parse (so_quantity o) = Ok oq -> in_ok oq -> U oq < BOUND ->
  in_ok q -> 0 < U q ->
  fill_ord id o oq q s = LOk s1 ->
  U q <= U oq /\ Inv_sk s1 /\
  s1 = s <| sell_orders := sell_orders s1 |> /\
  (forall a k, order_sum a k (sell_orders s1) =
               order_sum a k (sell_orders s) - (if decide ((a, k) = (so_seller o, so_batch_key o)) then U q else 0)) /\
  (forall id0, id0 <> id -> sell_orders s1 !! id0 = sell_orders s !! id0) /\
  match sell_orders s1 !! id with
  | None => U q = U oq
  | Some o' => order_units o' = U oq - U q /\ 0 < order_units o' /\ order_ok o' /\ qty_ok o' /\ order_sim o o' /\
               so_seller o' = so_seller o /\ so_disable_auto_retire o' = so_disable_auto_retire o /\
               so_expiration o' = so_expiration o /\ so_maker o' = so_maker o
  end.
Proof.
  intros Hsk Ho Hp Hoq Hb Hq Hqpos H. unfold fill_ord in H. rewrite (cmp_U oq q Hoq Hq) in H.
  pose proof (order_units_parse _ _ Hp) as Hou.
  destruct (Z.compare_spec (U oq) (U q)) as [Heq|Hlt|Hgt]; [| discriminate |].
  - inversion H; subst s1; clear H. split; [lia|].
    split; [eapply sk_del_ord; [reflexivity | exact Hsk]|]. split; [destruct s; reflexivity|]. cbn.
    split; [|split].
    + intros a k. rewrite order_sum_delete, Ho, ofun_cases, Hou. destruct (decide _); lia.
    + intros id0 Hne. apply lookup_delete_ne. congruence.
    + rewrite lookup_delete. lia.
  - lstep H as nq Hnq. lstep H as m Hm. apply orm_update_ok in Hm. destruct Hm as [-> Hsome].
    inversion H; subst s1; clear H.
    destruct (sub_units oq q nq Hoq Hq Hnq) as (_ & _ & HUn & Hnok). specialize (Hnok ltac:(lia)).
    destruct (reparse_units nq Hnok ltac:(lia)) as (d' & Hdp & Hd'ok & HUd' & Hd'e).
    set (o' := {| so_seller := so_seller o; so_batch_key := so_batch_key o; so_quantity := to_string nq;
                  so_market_id := so_market_id o; so_ask_amount := so_ask_amount o;
                  so_disable_auto_retire := so_disable_auto_retire o; so_expiration := so_expiration o;
                  so_maker := so_maker o |}).
    assert (Hou' : order_units o' = U oq - U q) by (rewrite (order_units_parse o' d' Hdp); lia).
    assert (Hoo : order_ok o') by (exists d'; split; [exact Hdp | split; [exact Hd'ok | lia]]).
    split; [lia|]. split.
    { eapply (sk_wr_ord id o' s); [reflexivity | exact Hoo | | | exact Hsk].
      - destruct Hsk as (_ & _ & (_ & _ & _ & _ & Hk5 & _)). eapply (Hk5 id o). exact Ho.
      - destruct Hsk as (_ & _ & (_ & _ & _ & _ & _ & _ & Hk7 & _)). apply Hk7. exact Hsome. }
    split; [destruct s; reflexivity|]. cbn. split; [|split].
    + intros a k. rewrite order_sum_insert, Ho, !ofun_cases. cbn [so_seller so_batch_key o']. rewrite Hou, Hou'.
      destruct (decide _); lia.
    + intros id0 Hne. apply lookup_insert_ne. congruence.
    + rewrite lookup_insert. split; [exact Hou'|]. split; [lia|]. split; [exact Hoo|].
      split; [exists d'; split; [exact Hdp | exact Hd'e]|].
      split; [unfold order_sim; tauto | tauto].
Qed.

(* ------------------------------------------------------------------ *)
(* phase B: the seller's row                                           *)
(* ------------------------------------------------------------------ *)

Lemma fill_seller_spec o q s s1 :
  Inv_scale s -> in_ok q -> fill_seller o q s = LOk s1 ->
  exists b b', balances s !! (so_seller o, so_batch_key o) = Some b /\
    wr_bal (so_seller o) (so_batch_key o) b' s s1 /\ balance_ok b' /\
    bl_tradable b' = bl_tradable b /\ bl_retired b' = bl_retired b /\
    U (bl_escrowed b') = U (bl_escrowed b) - U q.
Proof.
  intros (Hs1 & _) Hq H. unfold fill_seller in H. lstep H as b Hb. lstep H as ne Hne.
  apply update_balance_ok in H. destruct H as [Hw _].
  destruct (Hs1 _ _ Hb) as (Ht & Hr & He).
  destruct (safe_sub_in_ok _ _ _ (stored_in_ok _ He) Hq Hne) as [Hne1 Hne2].
  destruct (dnorm_ok _ Hne1) as [Hne3 Hne4].
  eexists b, _. split; [exact Hb|]. split; [exact Hw|]. cbn [bl_tradable bl_retired bl_escrowed].
  split; [split; [exact Ht | split; [exact Hr | exact Hne3]]|]. split; [reflexivity|]. split; [reflexivity | lia].
Qed.

(* ------------------------------------------------------------------ *)
(* phase C: the buyer's row and, with auto-retire, the supply          *)
(* ------------------------------------------------------------------ *)

Definition buyer_post (buyer : addr) (bk : N) (q : dec) (auto_retire : bool) (s s2 : state) : Prop :=
  let bb := get_balance s buyer bk in
  exists bb', balance_ok bb' /\ bl_escrowed bb' = bl_escrowed bb /\
    if auto_retire then
      exists su su' s1, supplies s !! bk = Some su /\ wr_sup bk su' s s1 /\ wr_bal buyer bk bb' s1 s2 /\
        supply_ok su' /\ U (su_tradable su') = U (su_tradable su) - U q /\
        U (su_retired su') = U (su_retired su) + U q /\ su_cancelled su' = su_cancelled su /\
        bl_tradable bb' = bl_tradable bb /\ U (bl_retired bb') = U (bl_retired bb) + U q
    else
      wr_bal buyer bk bb' s s2 /\ U (bl_tradable bb') = U (bl_tradable bb) + U q /\ bl_retired bb' = bl_retired bb.

Lemma fill_buyer_spec buyer bk q ar s s2 :
  Inv_scale s -> in_ok q -> fill_buyer buyer bk q ar s = LOk s2 -> buyer_post buyer bk q ar s s2.
Proof.
  intros Hscale Hq H. unfold fill_buyer in H. cbv zeta in H. unfold buyer_post. cbv zeta.
  pose proof (get_balance_ok s buyer bk Hscale) as (Ht & Hr & He).
  set (bb := get_balance s buyer bk) in *.
  destruct ar; cbn [negb] in H.
  - lstep H as nr Hnr. lstep H as su Hsu. lstep H as st Hst. lstep H as sr Hsr. lstep H as s1 Hs1.
    inversion H; subst s2; clear H. apply update_supply_ok in Hs1. destruct Hs1 as [Hw1 _].
    destruct Hscale as (_ & Hs2 & _). destruct (Hs2 _ _ Hsu) as (Hsut & Hsur & Hsuc).
    destruct (safe_add_in_ok _ _ _ (stored_in_ok _ Hr) Hq Hnr) as [Hnr1 Hnr2].
    destruct (safe_sub_in_ok _ _ _ (stored_in_ok _ Hsut) Hq Hst) as [Hst1 Hst2].
    destruct (safe_add_in_ok _ _ _ (stored_in_ok _ Hsur) Hq Hsr) as [Hsr1 Hsr2].
    destruct (dnorm_ok _ Hnr1) as [Hnr3 Hnr4]. destruct (dnorm_ok _ Hst1) as [Hst3 Hst4].
    destruct (dnorm_ok _ Hsr1) as [Hsr3 Hsr4].
    eexists. split; [|split; [|exists su; eexists; exists s1; split; [exact Hsu|]; split; [exact Hw1|]; split; [reflexivity|]]].
    + split; [exact Ht | split; [exact Hnr3 | exact He]].
    + reflexivity.
    + cbn [su_tradable su_retired su_cancelled bl_tradable bl_retired].
      split; [split; [exact Hst3 | split; [exact Hsr3 | exact Hsuc]]|].
      split; [lia|]. split; [lia|]. split; [reflexivity|]. split; [reflexivity | lia].
  - lstep H as nt Hnt. inversion H; subst s2; clear H.
    destruct (safe_add_in_ok _ _ _ (stored_in_ok _ Ht) Hq Hnt) as [Hnt1 Hnt2].
    destruct (dnorm_ok _ Hnt1) as [Hnt3 Hnt4].
    eexists. split; [|split; [|split; [reflexivity|]]].
    + split; [exact Hnt3 | split; [exact Hr | exact He]].
    + reflexivity.
    + cbn [bl_tradable bl_retired]. split; [lia | reflexivity].
Qed.

(* ------------------------------------------------------------------ *)
(* phase D: the bank                                                   *)
(* ------------------------------------------------------------------ *)

Lemma fill_bank_spec seller buyer bf st denom s s' :
  fill_bank seller buyer bf st denom s = LOk s' ->
  bank_only s s' /\ (forall d, d <> uregen -> bank_sup s' d = bank_sup s d) /\ bank_sup s' uregen <= bank_sup s uregen.
Proof.
  intros H. unfold fill_bank in H.
  lstep H as rate Hrate. lstep H as sf Hsf. lstep H as tf Htf. lstep H as s1 Hs1.
  lstep H as payment Hpay. lstep H as pay Hpay'. lstep H as coins Hcoins.
  apply send_coins_only in H. destruct H as [B1 B2].
  assert (Hmid : bank_only s s1 /\ (forall d, d <> uregen -> bank_sup s1 d = bank_sup s d) /\
                 bank_sup s1 uregen <= bank_sup s uregen).
  { destruct (is_positive tf).
    - lstep Hs1 as amount Ham. lstep Hs1 as cs Hcs. lstep Hs1 as s0 Hs0.
      apply send_coins_only in Hs0. destruct Hs0 as [A1 A2].
      assert (Hsup0 : forall d, bank_sup s0 d = bank_sup s d) by (intros d; unfold bank_sup; rewrite A2; reflexivity).
      destruct (bytes_eqb denom uregen) eqn:Ed.
      + apply bytes_eqb_eq in Ed. subst denom.
        destruct (new_coins1_cases _ _ _ Hcs) as [->|[Hpos ->]].
        * apply burn_coins_nil in Hs1. subst s1. split; [exact A1|]. split; [intros d _; apply Hsup0 | rewrite Hsup0; lia].
        * destruct (burn_coins_one _ _ _ _ _ Hpos Hs1) as (C1 & C2 & C3).
          split; [eapply bank_only_trans; eassumption|]. split.
          -- intros d Hd. rewrite (C3 d Hd). apply Hsup0.
          -- rewrite C2, Hsup0. lia.
      + inversion Hs1; subst s1. split; [exact A1|]. split; [intros d _; apply Hsup0 | rewrite Hsup0; lia].
    - inversion Hs1; subst s1. split; [apply bank_only_refl|]. split; [reflexivity | lia]. }
  destruct Hmid as (M1 & M2 & M3).
  assert (Hsup : forall d, bank_sup s' d = bank_sup s1 d) by (intros d; unfold bank_sup; rewrite B2; reflexivity).
  split; [eapply bank_only_trans; eassumption|]. split.
  - intros d Hd. rewrite Hsup. apply M2. exact Hd.
  - rewrite Hsup. exact M3.
Qed.

(* ------------------------------------------------------------------ *)
(* fillOrder as a whole                                                *)
(* ------------------------------------------------------------------ *)

Lemma fill_order_step id o buyer q bf st ar denom s s' :
  Inv_core s -> Inv_bound s -> sell_orders s !! id = Some o -> in_ok q -> 0 < U q ->
  fill_order id o buyer q bf st ar denom s = LOk s' -> step_ok s s'.
Proof.
  intros Hcore Hbound Ho Hq Hqpos H. rewrite fill_order_unfold in H.
  pose proof (order_units_bound s _ _ Hcore Hbound Ho) as Hub.
  apply Inv_core_split in Hcore. destruct Hcore as (Hsk & Hcons & Hesc).
  pose proof Hsk as (Hct & Hscale & Hkeys).
  lstep H as oq Hoq. lstep H as sA HsA. lstep H as sB HsB. lstep H as sC HsC.
  pose proof Hscale as (_ & _ & _ & Hs4). destruct (Hs4 _ _ Ho) as (oq' & Hp & Hoqok & Hoqpos).
  rewrite Hoq in Hp. inversion Hp; subst oq'; clear Hp.
  rewrite (order_units_parse _ _ Hoq) in Hub.
  (* phase A *)
  destruct (fill_ord_spec _ _ _ _ _ _ Hsk Ho Hoq Hoqok Hub Hq Hqpos HsA) as (Hle & HskA & HAeq & HAsum & HAoth & HAid).
  assert (HbalA : balances sA = balances s) by (rewrite HAeq; reflexivity).
  assert (HconsA : cons_off sA (fun _ => 0) (fun _ => 0)).
  { eapply (cons_off_orders s sA); [| | | |apply cons_off_intro; exact Hcons]; rewrite HAeq; reflexivity. }
  assert (HescA : esc_off sA (fun a k => if decide ((a, k) = (so_seller o, so_batch_key o)) then U q else 0)).
  { intros a k. unfold get_balance. rewrite HbalA. fold (get_balance s a k). rewrite (Hesc a k), (HAsum a k). lia. }
  assert (HmfA : mframe s sA).
  { apply mframe_triv; rewrite HAeq; reflexivity. }
  (* phase B *)
  pose proof HskA as (_ & HscaleA & HkeysA).
  destruct (fill_seller_spec _ _ _ _ HscaleA Hq HsB) as (b & b' & Hb & HwB & HokB & HtB & HrB & HeB).
  pose proof (get_balance_Some _ _ _ _ Hb) as HgbA.
  assert (Hbk : is_Some (batches sA !! so_batch_key o)).
  { destruct HkeysA as (_ & _ & Hk3 & _). eapply Hk3. exact Hb. }
  pose proof (sk_wr_bal _ _ _ _ _ HwB HokB Hbk HskA) as HskB.
  pose proof (cons_off_wr_bal _ _ _ _ _ _ _ HwB HconsA) as HconsB. rewrite HgbA in HconsB.
  pose proof (esc_off_wr_bal _ _ _ _ _ _ HwB HescA) as HescB. rewrite HgbA in HescB.
  assert (HmfB : mframe sA sB) by (eapply mframe_wr_bal; [exact HwB | rewrite HgbA, HrB; lia]).
  assert (HbtB : batches sB = batches sA) by (rewrite HwB; reflexivity).
  (* phase C *)
  pose proof HskB as (_ & HscaleB & HkeysB).
  pose proof (fill_buyer_spec _ _ _ _ _ _ HscaleB Hq HsC) as HC. unfold buyer_post in HC. cbv zeta in HC.
  destruct HC as (bb' & HokC & HeC & HC).
  set (bb := get_balance sB buyer (so_batch_key o)) in *.
  assert (HbkB : is_Some (batches sB !! so_batch_key o)) by (rewrite HbtB; exact Hbk).
  assert (HC' : Inv_sk sC /\ Inv_cons sC /\ Inv_escrow sC /\ mframe sB sC /\ sell_orders sC = sell_orders sA /\
                markets sC = markets s /\ market_seq_id sC = market_seq_id s /\ batches sC = batches s /\
                classes sC = classes s /\ credit_types sC = credit_types s).
  { assert (Hfields : markets sB = markets s /\ market_seq_id sB = market_seq_id s /\ batches sB = batches s /\
                      classes sB = classes s /\ credit_types sB = credit_types s /\ sell_orders sB = sell_orders sA).
    { rewrite HwB. cbn. rewrite HAeq. cbn. tauto. }
    destruct Hfields as (G1 & G2 & G3 & G4 & G5 & G6).
    destruct ar.
    - destruct HC as (su & su' & s1 & Hsu & Hw1 & Hw2 & Hsuok & HsuT & HsuR & HsuC & HtC & HrC).
      assert (Hgb1 : get_balance s1 buyer (so_batch_key o) = bb) by (rewrite Hw1; reflexivity).
      pose proof (sk_wr_sup _ _ _ _ Hw1 Hsuok (ex_intro _ su Hsu) HskB) as Hsk1.
      assert (Hbk1 : is_Some (batches s1 !! so_batch_key o)) by (rewrite Hw1; exact HbkB).
      pose proof (sk_wr_bal _ _ _ _ _ Hw2 HokC Hbk1 Hsk1) as HskC.
      pose proof (cons_off_wr_sup _ _ _ _ _ _ _ Hw1 Hsu HconsB) as Hcons1.
      pose proof (cons_off_wr_bal _ _ _ _ _ _ _ Hw2 Hcons1) as HconsC. rewrite Hgb1 in HconsC.
      assert (Hesc1 : esc_off s1 _) by (eapply (esc_off_ext sB s1); [| |exact HescB]; rewrite Hw1; reflexivity).
      pose proof (esc_off_wr_bal _ _ _ _ _ _ Hw2 Hesc1) as HescC. rewrite Hgb1 in HescC.
      split; [exact HskC|]. split; [|split; [|split]].
      + eapply cons_off_elim; [exact HconsC | |]; intros k0; unfold bump, tradable_escrowed, retired_of;
          rewrite ?HtB, ?HrB, ?HtC, ?HeC; destruct (k0 =? so_batch_key o)%N; lia.
      + eapply esc_off_elim; [exact HescC|]. intros a0 k0. unfold bump2. rewrite HeC.
        destruct (decide ((a0, k0) = (so_seller o, so_batch_key o))); destruct (decide ((a0, k0) = (buyer, so_batch_key o))); lia.
      + eapply mframe_trans; [eapply (mframe_wr_sup _ su su' sB s1 Hw1 Hsu)|].
        * cbn [sup_rel]. split; [lia|]. split; [lia|]. split; [exact HsuC | lia].
        * eapply mframe_wr_bal; [exact Hw2|]. rewrite Hgb1. lia.
      + rewrite Hw2. cbn. rewrite Hw1. cbn. tauto.
    - destruct HC as (Hw2 & HtC & HrC).
      pose proof (sk_wr_bal _ _ _ _ _ Hw2 HokC HbkB HskB) as HskC.
      pose proof (cons_off_wr_bal _ _ _ _ _ _ _ Hw2 HconsB) as HconsC. fold bb in HconsC.
      pose proof (esc_off_wr_bal _ _ _ _ _ _ Hw2 HescB) as HescC. fold bb in HescC.
      split; [exact HskC|]. split; [|split; [|split]].
      + eapply cons_off_elim; [exact HconsC | |]; intros k0; unfold bump, tradable_escrowed, retired_of;
          rewrite ?HtB, ?HrB, ?HrC, ?HeC; destruct (k0 =? so_batch_key o)%N; lia.
      + eapply esc_off_elim; [exact HescC|]. intros a0 k0. unfold bump2. rewrite HeC.
        destruct (decide ((a0, k0) = (so_seller o, so_batch_key o))); destruct (decide ((a0, k0) = (buyer, so_batch_key o))); lia.
      + eapply mframe_wr_bal; [exact Hw2|]. fold bb. rewrite HrC. lia.
      + rewrite Hw2. cbn. tauto. }
  destruct HC' as (HskC & HconsC & HescC & HmfC & HsoC & HmkC & HmqC & HbtC & HclC & HctC).
  (* phase D *)
  destruct (fill_bank_spec _ _ _ _ _ _ _ H) as (HD1 & HD2 & HD3).
  destruct (bank_only_fields _ _ HD1) as (D1 & D2 & D3 & D4 & D5 & D6 & D7 & D8).
  assert (HD9 : batches s' = batches sC /\ classes s' = classes sC /\ credit_types s' = credit_types sC).
  { unfold bank_only in HD1. rewrite HD1. cbn. tauto. }
  destruct HD9 as (D9 & D10 & D11).
  split; [|split; [|split]].
  - eapply Inv_core_core_eq; [apply bank_only_core_eq; exact HD1|]. apply Inv_core_split. tauto.
  - eapply mframe_trans; [exact HmfA|]. eapply mframe_trans; [exact HmfB|]. eapply mframe_trans; [exact HmfC|].
    apply mframe_bank; assumption.
  - intros Hio. apply (Inv_orders_transfer s s').
    + intros k mk Hk. rewrite D4, HmkC. exact Hk.
    + rewrite D4, D5, HmkC, HmqC. apply Hio.
    + congruence.
    + congruence.
    + congruence.
    + intros id0 o0 H0. right. rewrite D3, HsoC in H0. destruct (decide (id0 = id)) as [->|Hne].
      * rewrite H0 in HAid. exists id, o. split; [exact Ho | apply HAid].
      * rewrite (HAoth id0 Hne) in H0. exists id0, o0. split; [exact H0 | unfold order_sim; tauto].
    + exact Hio.
  - apply Inv_qty_transfer. intros id0 o0 H0. rewrite D3, HsoC in H0. destruct (decide (id0 = id)) as [->|Hne].
    + left. rewrite H0 in HAid. apply HAid.
    + right. rewrite (HAoth id0 Hne) in H0. exists id0, o0. tauto.
Qed.

Lemma buy_one_step e buyer s r s' :
  Inv_core s -> Inv_bound s -> buy_one e buyer s r = LOk s' -> step_ok s s'.
Proof.
  intros Hcore Hbound H. unfold buy_one in H.
  lstep H as o Ho. lstep H as u1 Hu1. lstep H as u2 Hu2. lstep H as ba Hba. lstep H as ct Hct.
  lstep H as q Hq. lstep H as mk Hmk. lstep H as bid Hbid. lstep H as u3 Hu3. lstep H as u4 Hu4.
  lstep H as subtotal Hsub. lstep H as rate Hrate. lstep H as bfee Hbfee. lstep H as total Htot.
  lstep H as tc Htc. lstep H as ft Hft. lstep H as u5 Hu5. lstep H as u6 Hu6.
  pose proof Hcore as (Hict & _).
  rewrite (ct_of_denom_precision _ _ _ Hict Hct) in Hq. apply posfixed_spec in Hq. destruct Hq as (_ & Hqok & Hqpos).
  eapply fill_order_step; eassumption.
Qed.

Lemma h_buy_step e s buyer orders s' r evs :
  Inv_core s -> Inv_bound s -> h_buy_direct e s buyer orders = LOk (s', r, evs) -> step_ok s s'.
Proof.
  intros Hcore Hb H. unfold h_buy_direct in H. lstep H as s1 Hs1.
  unfold ret in H. inversion H; subst s' r evs; clear H.
  eapply (lfold_step (buy_one e buyer) orders); [| exact Hcore | exact Hb | exact Hs1].
  intros a x a' Hin Ha Hab Hf. eapply buy_one_step; eassumption.
Qed.
