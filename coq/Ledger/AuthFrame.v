(* C08, second sentence: a role-gated state-changing message changes only the entity it names.

   For every role-gated update message and every governance message, [only_named] gives the exact
   post-state as a record update of the pre-state (the same `s <| field := v |>` the handler
   writes), so every other field, and every other row of the written table, is untouched.  The
   remaining messages act on the signer's own holdings and are covered by the ownership and frame
   theorems (base_ownership, basket_frames, market_frame); for them [only_named] is [True].

   No hypothesis beyond `handle e s m = LOk (s', r, evs)` is needed: neither ValidateBasic nor any
   state invariant.  Proof file. *)
From stdpp Require Import gmap.
From RecordUpdate Require Import RecordSet.
From Coq Require Import ZArith NArith List Bool Lia Strings.Byte Strings.String.
Require Import Regen.Base.Bytes Regen.Base.Calendar Regen.Dec.Dec.
Require Import Regen.Ledger.Types Regen.Ledger.Msgs Regen.Ledger.Orm Regen.Ledger.BaseMsgs
               Regen.Ledger.BasketMsgs Regen.Ledger.MarketMsgs Regen.Ledger.Step
               Regen.Ledger.InvTactics.
Import RecordSetNotations ListNotations.
Local Open Scope Z_scope.

(* ------------------------------------------------------------------ *)
(* the issuer set written by UpdateClassIssuers                        *)
(* ------------------------------------------------------------------ *)

(* first every (k, a) with a in [remove] is deleted, then every (k, a) with a in [add] is inserted *)
Definition issuers_removed (k : N) (remove : list addr) (X : gset (N * addr)) : gset (N * addr) :=
  fold_left (fun X a => X ∖ {[ (k, a) ]}) remove X.
Definition issuers_added (k : N) (add : list addr) (X : gset (N * addr)) : gset (N * addr) :=
  fold_left (fun X a => {[ (k, a) ]} ∪ X) add X.
Definition issuers_after (k : N) (add remove : list addr) (X : gset (N * addr)) : gset (N * addr) :=
  issuers_added k add (issuers_removed k remove X).

(* ------------------------------------------------------------------ *)
(* the statement                                                       *)
(* ------------------------------------------------------------------ *)

Definition only_named (e : env) (m : msg) (s s' : state) : Prop :=
  match m with
  (* class administration: one row of [classes], one field of it *)
  | MUpdateClassAdmin _ class_id new_admin =>
      exists k c, classes s !! k = Some c /\ cl_id c = class_id /\
        s' = s <| classes := <[k := {| cl_id := cl_id c; cl_admin := new_admin;
                                       cl_metadata := cl_metadata c; cl_ct := cl_ct c |}]> (classes s) |>
  | MUpdateClassMetadata _ class_id new_metadata =>
      exists k c, classes s !! k = Some c /\ cl_id c = class_id /\
        s' = s <| classes := <[k := {| cl_id := cl_id c; cl_admin := cl_admin c;
                                       cl_metadata := new_metadata; cl_ct := cl_ct c |}]> (classes s) |>
  (* only [class_issuers], and in it only pairs of the named class (update_class_issuers_other_classes) *)
  | MUpdateClassIssuers _ class_id add remove =>
      exists k c, classes s !! k = Some c /\ cl_id c = class_id /\
        s' = s <| class_issuers := issuers_after k add remove (class_issuers s) |>
  (* project administration *)
  | MUpdateProjectAdmin _ project_id new_admin =>
      exists k p, projects s !! k = Some p /\ pj_id p = project_id /\
        s' = s <| projects := <[k := {| pj_id := pj_id p; pj_admin := new_admin; pj_class_key := pj_class_key p;
                                        pj_jurisdiction := pj_jurisdiction p; pj_metadata := pj_metadata p;
                                        pj_reference_id := pj_reference_id p |}]> (projects s) |>
  | MUpdateProjectMetadata _ project_id new_metadata =>
      exists k p, projects s !! k = Some p /\ pj_id p = project_id /\
        s' = s <| projects := <[k := {| pj_id := pj_id p; pj_admin := pj_admin p; pj_class_key := pj_class_key p;
                                        pj_jurisdiction := pj_jurisdiction p; pj_metadata := new_metadata;
                                        pj_reference_id := pj_reference_id p |}]> (projects s) |>
  (* batch administration *)
  | MUpdateBatchMetadata _ denom new_metadata =>
      exists k ba, batches s !! k = Some ba /\ ba_denom ba = denom /\
        s' = s <| batches := <[k := {| ba_issuer := ba_issuer ba; ba_project_key := ba_project_key ba;
                                       ba_denom := ba_denom ba; ba_metadata := new_metadata;
                                       ba_start := ba_start ba; ba_end := ba_end ba;
                                       ba_issuance := ba_issuance ba; ba_open := ba_open ba |}]> (batches s) |>
  | MSealBatch _ denom =>
      exists k ba, batches s !! k = Some ba /\ ba_denom ba = denom /\
        ((ba_open ba = false /\ s' = s) \/
         (ba_open ba = true /\
          s' = s <| batches := <[k := {| ba_issuer := ba_issuer ba; ba_project_key := ba_project_key ba;
                                         ba_denom := ba_denom ba; ba_metadata := ba_metadata ba;
                                         ba_start := ba_start ba; ba_end := ba_end ba;
                                         ba_issuance := ba_issuance ba; ba_open := false |}]> (batches s) |>))
  (* governance, base module *)
  | MAddCreditType _ abbrev name unit_ precision =>
      credit_types s !! abbrev = None /\
      s' = s <| credit_types := <[abbrev := {| ct_name := name; ct_unit := unit_; ct_precision := precision |}]>
                                  (credit_types s) |>
  | MSetClassCreatorAllowlist _ enabled => s' = s <| allowlist_enabled := enabled |>
  | MAddClassCreator _ creator => s' = s <| allowed_creators := {[ creator ]} ∪ allowed_creators s |>
  | MRemoveClassCreator _ creator => s' = s <| allowed_creators := allowed_creators s ∖ {[ creator ]} |>
  | MUpdateClassFee _ fee => s' = s <| class_fee := normalise_fee fee |>
  | MAddAllowedBridgeChain _ chain =>
      s' = s <| allowed_bridge_chains := {[ to_lower chain ]} ∪ allowed_bridge_chains s |>
  | MRemoveAllowedBridgeChain _ chain =>
      s' = s <| allowed_bridge_chains := allowed_bridge_chains s ∖ {[ to_lower chain ]} |>
  (* basket module *)
  | MUpdateBasketFee _ fee => s' = s <| basket_fee := normalise_fee fee |>
  | MUpdateCurator _ denom new_curator =>
      exists id k, baskets s !! id = Some k /\ bk_denom k = denom /\
        s' = s <| baskets := <[id := {| bk_denom := bk_denom k; bk_name := bk_name k;
                                        bk_disable_auto_retire := bk_disable_auto_retire k; bk_ct := bk_ct k;
                                        bk_criteria := bk_criteria k; bk_exponent := bk_exponent k;
                                        bk_curator := new_curator |}]> (baskets s) |>
  | MUpdateDateCriteria _ denom criteria =>
      exists id k, baskets s !! id = Some k /\ bk_denom k = denom /\
        s' = s <| baskets := <[id := {| bk_denom := bk_denom k; bk_name := bk_name k;
                                        bk_disable_auto_retire := bk_disable_auto_retire k; bk_ct := bk_ct k;
                                        bk_criteria := criteria; bk_exponent := bk_exponent k;
                                        bk_curator := bk_curator k |}]> (baskets s) |>
  (* marketplace governance *)
  | MAddAllowedDenom _ bank_denom display_denom exponent =>
      allowed_denoms s !! bank_denom = None /\
      s' = s <| allowed_denoms := <[bank_denom := (display_denom, exponent)]> (allowed_denoms s) |>
  | MRemoveAllowedDenom _ denom => s' = s <| allowed_denoms := delete denom (allowed_denoms s) |>
  | MGovSetFeeParams _ fees => exists fp, fees = Some fp /\ s' = s <| fee_params_ := Some fp |>
  (* the order row is deleted; the seller's balance row of the order's batch moves the order's
     quantity from escrowed to tradable; nothing else *)
  | MCancelSellOrder seller id =>
      exists o q bal ne nt,
        sell_orders s !! id = Some o /\ so_seller o = seller /\
        parse (so_quantity o) = Ok q /\
        balances s !! (seller, so_batch_key o) = Some bal /\
        safe_sub_balance (bl_escrowed bal) q = Ok ne /\
        safe_add_balance (bl_tradable bal) q = Ok nt /\
        s' = s <| balances := <[(seller, so_batch_key o) :=
                                  {| bl_tradable := dnorm nt; bl_retired := bl_retired bal;
                                     bl_escrowed := dnorm ne |}]> (balances s) |>
               <| sell_orders := delete id (sell_orders s) |>
  (* messages acting on the signer's own holdings, and creations: base_ownership, basket_frames,
     market_frame *)
  | _ => True
  end.

(* ------------------------------------------------------------------ *)
(* lookups by secondary key                                            *)
(* ------------------------------------------------------------------ *)

Lemma af_class_by_id_Some s id k c :
  class_by_id s id = Some (k, c) -> classes s !! k = Some c /\ cl_id c = id.
Proof.
  unfold class_by_id. intros Hf. apply map_find_Some in Hf. destruct Hf as [Hl Hp].
  split; [exact Hl|]. apply bytes_eqb_eq. exact Hp.
Qed.

Lemma af_project_by_id_Some s id k p :
  project_by_id s id = Some (k, p) -> projects s !! k = Some p /\ pj_id p = id.
Proof.
  unfold project_by_id. intros Hf. apply map_find_Some in Hf. destruct Hf as [Hl Hp].
  split; [exact Hl|]. apply bytes_eqb_eq. exact Hp.
Qed.

Lemma af_basket_by_denom_Some s d id k :
  basket_by_denom s d = Some (id, k) -> baskets s !! id = Some k /\ bk_denom k = d.
Proof.
  unfold basket_by_denom. intros Hf. apply map_find_Some in Hf. destruct Hf as [Hl Hp].
  split; [exact Hl|]. apply bytes_eqb_eq. exact Hp.
Qed.

(* ------------------------------------------------------------------ *)
(* UpdateClassIssuers: the two loops write only [class_issuers]         *)
(* ------------------------------------------------------------------ *)

Lemma af_set_issuers_self (s : state) : s = s <| class_issuers := class_issuers s |>.
Proof. destruct s. reflexivity. Qed.

Lemma af_remove_loop k remove : forall (s : state) (X : gset (N * addr)),
  fold_left (fun s a => s <| class_issuers := class_issuers s ∖ {[ (k, a) ]} |>) remove (s <| class_issuers := X |>)
  = s <| class_issuers := issuers_removed k remove X |>.
Proof.
  unfold issuers_removed.
  induction remove as [|a remove IH]; intros s X; cbn [fold_left]; [reflexivity|].
  rewrite <- IH. f_equal.
Qed.

Lemma af_insert_loop k add : forall (s s' : state) (X : gset (N * addr)),
  insert_issuers k add (s <| class_issuers := X |>) = LOk s' ->
  s' = s <| class_issuers := issuers_added k add X |>.
Proof.
  unfold issuers_added.
  induction add as [|a add IH]; intros s s' X H; cbn [insert_issuers fold_left] in *.
  - inversion H. reflexivity.
  - destruct (bool_decide _); [discriminate H|].
    apply (IH s s' ({[ (k, a) ]} ∪ X)). exact H.
Qed.

(* membership in the written set: inserted pairs, and surviving old pairs *)
Lemma elem_of_issuers_removed k remove : forall X k' a,
  (k', a) ∈ issuers_removed k remove X <-> (k', a) ∈ X /\ ~ (k' = k /\ In a remove).
Proof.
  unfold issuers_removed.
  induction remove as [|x remove IH]; intros X k' a; cbn [fold_left In].
  - split; [intros Hin; split; [exact Hin | intros [_ []]] | intros [Hin _]; exact Hin].
  - rewrite IH, elem_of_difference, elem_of_singleton. split.
    + intros [[Hin Hne] Hnr]. split; [exact Hin|]. intros [Hk [Hx|Hr]].
      * apply Hne. congruence.
      * apply Hnr. split; assumption.
    + intros [Hin Hn]. split; [split; [exact Hin|]|].
      * intros Heq. inversion Heq; subst. apply Hn. split; [reflexivity | left; reflexivity].
      * intros [Hk Hr]. apply Hn. split; [exact Hk | right; exact Hr].
Qed.

Lemma elem_of_issuers_added k add : forall X k' a,
  (k', a) ∈ issuers_added k add X <-> (k' = k /\ In a add) \/ (k', a) ∈ X.
Proof.
  unfold issuers_added.
  induction add as [|x add IH]; intros X k' a; cbn [fold_left In].
  - split; [intros Hin; right; exact Hin | intros [[_ []]|Hin]; exact Hin].
  - rewrite IH, elem_of_union, elem_of_singleton. split.
    + intros [[Hk Hi]|[Heq|Hin]].
      * left. split; [exact Hk | right; exact Hi].
      * inversion Heq; subst. left. split; [reflexivity | left; reflexivity].
      * right. exact Hin.
    + intros [[Hk [Hx|Hi]]|Hin].
      * right. left. congruence.
      * left. split; assumption.
      * right. right. exact Hin.
Qed.

Lemma elem_of_issuers_after k add remove X k' a :
  (k', a) ∈ issuers_after k add remove X <->
  (k' = k /\ In a add) \/ ((k', a) ∈ X /\ ~ (k' = k /\ In a remove)).
Proof. unfold issuers_after. rewrite elem_of_issuers_added, elem_of_issuers_removed. reflexivity. Qed.

(* issuer pairs of every other class are exactly those of the pre-state *)
Lemma issuers_after_other_classes k add remove X k' a :
  k' <> k -> ((k', a) ∈ issuers_after k add remove X <-> (k', a) ∈ X).
Proof.
  intros Hne. rewrite elem_of_issuers_after. split.
  - intros [[Hk _]|[Hin _]]; [contradiction | exact Hin].
  - intros Hin. right. split; [exact Hin|]. intros [Hk _]. contradiction.
Qed.

(* ------------------------------------------------------------------ *)
(* one lemma per handler                                               *)
(* ------------------------------------------------------------------ *)

Ltac af_done H := unfold ret in H; inversion H; subst; clear H.

Lemma af_update_class_admin e s admin class_id new_admin s' r evs :
  h_update_class_admin e s admin class_id new_admin = LOk (s', r, evs) ->
  only_named e (MUpdateClassAdmin admin class_id new_admin) s s'.
Proof.
  intros H. unfold h_update_class_admin in H. lstep H as p1 H1. destruct p1 as [k c]. lstep H as u1 H2.
  af_done H. apply af_class_by_id_Some in H1. destruct H1 as [Hl Hid].
  exists k, c. split; [exact Hl|]. split; [exact Hid|]. reflexivity.
Qed.

Lemma af_update_class_metadata e s admin class_id md s' r evs :
  h_update_class_metadata e s admin class_id md = LOk (s', r, evs) ->
  only_named e (MUpdateClassMetadata admin class_id md) s s'.
Proof.
  intros H. unfold h_update_class_metadata in H. lstep H as p1 H1. destruct p1 as [k c]. lstep H as u1 H2.
  af_done H. apply af_class_by_id_Some in H1. destruct H1 as [Hl Hid].
  exists k, c. split; [exact Hl|]. split; [exact Hid|]. reflexivity.
Qed.

Lemma af_update_class_issuers e s admin class_id add remove s' r evs :
  h_update_class_issuers e s admin class_id add remove = LOk (s', r, evs) ->
  only_named e (MUpdateClassIssuers admin class_id add remove) s s'.
Proof.
  intros H. unfold h_update_class_issuers in H. lstep H as p1 H1. destruct p1 as [k c]. lstep H as u1 H2.
  lstep H as s2 Hs2. af_done H. apply af_class_by_id_Some in H1. destruct H1 as [Hl Hid].
  exists k, c. split; [exact Hl|]. split; [exact Hid|].
  rewrite (af_set_issuers_self s) in Hs2 at 1. rewrite af_remove_loop in Hs2.
  apply af_insert_loop in Hs2. exact Hs2.
Qed.

Lemma af_update_project_admin e s admin project_id new_admin s' r evs :
  h_update_project_admin e s admin project_id new_admin = LOk (s', r, evs) ->
  only_named e (MUpdateProjectAdmin admin project_id new_admin) s s'.
Proof.
  intros H. unfold h_update_project_admin in H. lstep H as p1 H1. destruct p1 as [k p]. lstep H as u1 H2.
  af_done H. apply af_project_by_id_Some in H1. destruct H1 as [Hl Hid].
  exists k, p. split; [exact Hl|]. split; [exact Hid|]. reflexivity.
Qed.

Lemma af_update_project_metadata e s admin project_id md s' r evs :
  h_update_project_metadata e s admin project_id md = LOk (s', r, evs) ->
  only_named e (MUpdateProjectMetadata admin project_id md) s s'.
Proof.
  intros H. unfold h_update_project_metadata in H. lstep H as p1 H1. destruct p1 as [k p]. lstep H as u1 H2.
  af_done H. apply af_project_by_id_Some in H1. destruct H1 as [Hl Hid].
  exists k, p. split; [exact Hl|]. split; [exact Hid|]. reflexivity.
Qed.

Lemma af_update_batch_metadata e s issuer denom md s' r evs :
  h_update_batch_metadata e s issuer denom md = LOk (s', r, evs) ->
  only_named e (MUpdateBatchMetadata issuer denom md) s s'.
Proof.
  intros H. unfold h_update_batch_metadata in H. lstep H as p1 H1. destruct p1 as [k ba].
  lstep H as u1 H2. lstep H as u2 H3.
  af_done H. apply batch_by_denom_Some in H1. destruct H1 as [Hl Hid].
  exists k, ba. split; [exact Hl|]. split; [exact Hid|]. reflexivity.
Qed.

Lemma af_seal_batch e s issuer denom s' r evs :
  h_seal_batch e s issuer denom = LOk (s', r, evs) ->
  only_named e (MSealBatch issuer denom) s s'.
Proof.
  intros H. unfold h_seal_batch in H. lstep H as p1 H1. destruct p1 as [k ba]. lstep H as u1 H2.
  apply batch_by_denom_Some in H1. destruct H1 as [Hl Hid].
  exists k, ba. split; [exact Hl|]. split; [exact Hid|].
  destruct (ba_open ba) eqn:Eo; cbn [negb] in H; af_done H.
  - right. split; reflexivity.
  - left. split; reflexivity.
Qed.

Lemma af_add_credit_type e s a abbrev name unit_ precision s' r evs :
  h_add_credit_type e s a abbrev name unit_ precision = LOk (s', r, evs) ->
  only_named e (MAddCreditType a abbrev name unit_ precision) s s'.
Proof.
  intros H. unfold h_add_credit_type in H. lstep H as u1 H1. lstep H as u2 H2. lstep H as u3 H3.
  af_done H. split; [|reflexivity].
  destruct (credit_types s !! abbrev); [discriminate H2 | reflexivity].
Qed.

Lemma af_set_allowlist e s a enabled s' r evs :
  h_set_allowlist e s a enabled = LOk (s', r, evs) ->
  only_named e (MSetClassCreatorAllowlist a enabled) s s'.
Proof. intros H. unfold h_set_allowlist in H. lstep H as u1 H1. af_done H. reflexivity. Qed.

Lemma af_add_class_creator e s a creator s' r evs :
  h_add_class_creator e s a creator = LOk (s', r, evs) ->
  only_named e (MAddClassCreator a creator) s s'.
Proof. intros H. unfold h_add_class_creator in H. lstep H as u1 H1. lstep H as u2 H2. af_done H. reflexivity. Qed.

Lemma af_remove_class_creator e s a creator s' r evs :
  h_remove_class_creator e s a creator = LOk (s', r, evs) ->
  only_named e (MRemoveClassCreator a creator) s s'.
Proof. intros H. unfold h_remove_class_creator in H. lstep H as u1 H1. lstep H as u2 H2. af_done H. reflexivity. Qed.

Lemma af_update_class_fee e s a fee s' r evs :
  h_update_class_fee e s a fee = LOk (s', r, evs) ->
  only_named e (MUpdateClassFee a fee) s s'.
Proof. intros H. unfold h_update_class_fee in H. lstep H as u1 H1. af_done H. reflexivity. Qed.

Lemma af_add_allowed_bridge_chain e s a chain s' r evs :
  h_add_allowed_bridge_chain e s a chain = LOk (s', r, evs) ->
  only_named e (MAddAllowedBridgeChain a chain) s s'.
Proof.
  intros H. unfold h_add_allowed_bridge_chain in H. lstep H as u1 H1. lstep H as u2 H2. af_done H. reflexivity.
Qed.

Lemma af_remove_allowed_bridge_chain e s a chain s' r evs :
  h_remove_allowed_bridge_chain e s a chain = LOk (s', r, evs) ->
  only_named e (MRemoveAllowedBridgeChain a chain) s s'.
Proof. intros H. unfold h_remove_allowed_bridge_chain in H. lstep H as u1 H1. af_done H. reflexivity. Qed.

Lemma af_update_basket_fee e s a fee s' r evs :
  h_update_basket_fee e s a fee = LOk (s', r, evs) ->
  only_named e (MUpdateBasketFee a fee) s s'.
Proof. intros H. unfold h_update_basket_fee in H. lstep H as u1 H1. af_done H. reflexivity. Qed.

Lemma af_update_curator e s curator denom new_curator s' r evs :
  h_update_curator e s curator denom new_curator = LOk (s', r, evs) ->
  only_named e (MUpdateCurator curator denom new_curator) s s'.
Proof.
  intros H. unfold h_update_curator in H. lstep H as p1 H1. destruct p1 as [id k]. lstep H as u1 H2.
  af_done H. apply af_basket_by_denom_Some in H1. destruct H1 as [Hl Hid].
  exists id, k. split; [exact Hl|]. split; [exact Hid|]. reflexivity.
Qed.

Lemma af_update_date_criteria e s a denom criteria s' r evs :
  h_update_date_criteria e s a denom criteria = LOk (s', r, evs) ->
  only_named e (MUpdateDateCriteria a denom criteria) s s'.
Proof.
  intros H. unfold h_update_date_criteria in H. lstep H as u1 H1. lstep H as p1 H2. destruct p1 as [id k].
  af_done H. apply af_basket_by_denom_Some in H2. destruct H2 as [Hl Hid].
  exists id, k. split; [exact Hl|]. split; [exact Hid|]. reflexivity.
Qed.

Lemma af_add_allowed_denom e s a bank_denom display_denom exponent s' r evs :
  h_add_allowed_denom e s a bank_denom display_denom exponent = LOk (s', r, evs) ->
  only_named e (MAddAllowedDenom a bank_denom display_denom exponent) s s'.
Proof.
  intros H. unfold h_add_allowed_denom in H. lstep H as u1 H1. lstep H as u2 H2. lstep H as u3 H3.
  af_done H. split; [|reflexivity].
  unfold is_denom_allowed in H2. destruct (allowed_denoms s !! bank_denom); [discriminate H2 | reflexivity].
Qed.

Lemma af_remove_allowed_denom e s a denom s' r evs :
  h_remove_allowed_denom e s a denom = LOk (s', r, evs) ->
  only_named e (MRemoveAllowedDenom a denom) s s'.
Proof. intros H. unfold h_remove_allowed_denom in H. lstep H as u1 H1. lstep H as u2 H2. af_done H. reflexivity. Qed.

Lemma af_gov_set_fee_params e s a fees s' r evs :
  h_gov_set_fee_params e s a fees = LOk (s', r, evs) ->
  only_named e (MGovSetFeeParams a fees) s s'.
Proof.
  intros H. unfold h_gov_set_fee_params in H. lstep H as u1 H1. lstep H as fp H2. af_done H.
  exists fp. split; reflexivity.
Qed.

Lemma af_cancel_sell_order e s seller id s' r evs :
  h_cancel_sell_order e s seller id = LOk (s', r, evs) ->
  only_named e (MCancelSellOrder seller id) s s'.
Proof.
  intros H. unfold h_cancel_sell_order in H. lstep H as o Ho. lstep H as u1 Hsel. apply N.eqb_eq in Hsel.
  subst seller. lstep H as s1 Hs1. af_done H.
  unfold unescrow_credits in Hs1. lstep Hs1 as q Hq. lstep Hs1 as bal Hbal. lstep Hs1 as ne Hne. lstep Hs1 as nt Hnt.
  apply update_balance_ok in Hs1. destruct Hs1 as [-> _].
  exists o, q, bal, ne, nt.
  split; [exact Ho|]. split; [reflexivity|]. split; [exact Hq|]. split; [exact Hbal|].
  split; [exact Hne|]. split; [exact Hnt|]. reflexivity.
Qed.

(* ------------------------------------------------------------------ *)
(* the theorem                                                         *)
(* ------------------------------------------------------------------ *)

Theorem handle_changes_only_named e s m s' r evs :
  handle e s m = LOk (s', r, evs) -> only_named e m s s'.
Proof.
  intros H. destruct m; cbn [handle] in H;
  first
    [ exact I
    | eapply af_update_class_admin; exact H
    | eapply af_update_class_metadata; exact H
    | eapply af_update_class_issuers; exact H
    | eapply af_update_project_admin; exact H
    | eapply af_update_project_metadata; exact H
    | eapply af_update_batch_metadata; exact H
    | eapply af_seal_batch; exact H
    | eapply af_add_credit_type; exact H
    | eapply af_set_allowlist; exact H
    | eapply af_add_class_creator; exact H
    | eapply af_remove_class_creator; exact H
    | eapply af_update_class_fee; exact H
    | eapply af_add_allowed_bridge_chain; exact H
    | eapply af_remove_allowed_bridge_chain; exact H
    | eapply af_update_basket_fee; exact H
    | eapply af_update_curator; exact H
    | eapply af_update_date_criteria; exact H
    | eapply af_add_allowed_denom; exact H
    | eapply af_remove_allowed_denom; exact H
    | eapply af_gov_set_fee_params; exact H
    | eapply af_cancel_sell_order; exact H ].
Qed.

(* ------------------------------------------------------------------ *)
(* consequences read off the equations                                 *)
(* ------------------------------------------------------------------ *)

(* UpdateClassIssuers leaves the issuer pairs of every class other than the named one unchanged,
   and within the named class the result is: added, or (present before and not removed) *)
Lemma update_class_issuers_other_classes e s admin class_id add remove s' r evs :
  handle e s (MUpdateClassIssuers admin class_id add remove) = LOk (s', r, evs) ->
  exists k c, classes s !! k = Some c /\ cl_id c = class_id /\
    (forall k' a, k' <> k -> ((k', a) ∈ class_issuers s' <-> (k', a) ∈ class_issuers s)) /\
    (forall a, (k, a) ∈ class_issuers s' <-> In a add \/ ((k, a) ∈ class_issuers s /\ ~ In a remove)).
Proof.
  intros H. apply handle_changes_only_named in H. cbn [only_named] in H.
  destruct H as (k & c & Hl & Hid & ->). exists k, c. split; [exact Hl|]. split; [exact Hid|].
  cbn. split.
  - intros k' a Hne. apply issuers_after_other_classes. exact Hne.
  - intros a. rewrite elem_of_issuers_after. split.
    + intros [[_ Hi]|[Hin Hn]]; [left; exact Hi | right]. split; [exact Hin|]. intros Hr. apply Hn. split; [reflexivity | exact Hr].
    + intros [Hi|[Hin Hn]]; [left; split; [reflexivity | exact Hi] | right]. split; [exact Hin|]. intros [_ Hr]. exact (Hn Hr).
Qed.

(* CancelSellOrder: every balance row other than the seller's row of the order's batch, and every
   other order, is unchanged; everything outside [sell_orders] and [balances] is unchanged *)
Lemma cancel_sell_order_other_rows e s seller id s' r evs :
  handle e s (MCancelSellOrder seller id) = LOk (s', r, evs) ->
  exists o, sell_orders s !! id = Some o /\ so_seller o = seller /\
    sell_orders s' = delete id (sell_orders s) /\
    s' = s <| sell_orders := sell_orders s' |> <| balances := balances s' |> /\
    (forall key, key <> (seller, so_batch_key o) -> balances s' !! key = balances s !! key).
Proof.
  intros H. apply handle_changes_only_named in H. cbn [only_named] in H.
  destruct H as (o & q & bal & ne & nt & Ho & Hsel & _ & _ & _ & _ & ->).
  exists o. split; [exact Ho|]. split; [exact Hsel|]. split; [reflexivity|]. split.
  - destruct s. reflexivity.
  - intros key Hne. cbn. rewrite lookup_insert_ne by congruence. reflexivity.
Qed.

(* ------------------------------------------------------------------ *)
(* non-vacuity                                                         *)
(* ------------------------------------------------------------------ *)

(* one class with admin 0; nothing else *)
Definition af_ex_state : state := {|
  credit_types := {[ b "C" := {| ct_name := b "carbon"; ct_unit := b "t"; ct_precision := 6 |} ]};
  classes := {[ 1%N := {| cl_id := b "C01"; cl_admin := 0%N; cl_metadata := []; cl_ct := b "C" |} ]};
  class_seq_id := 1;
  class_issuers := {[ (1%N, 0%N) ]};
  projects := ∅; project_seq_id := 0; batches := ∅; batch_seq_id := 0;
  class_sequences := {[ b "C" := 2%N ]}; project_sequences := ∅; batch_sequences := ∅;
  balances := ∅; supplies := ∅; origin_txs := ∅; batch_contracts := ∅;
  allowlist_enabled := false; allowed_creators := ∅; class_fee := None; allowed_bridge_chains := ∅;
  baskets := ∅; basket_seq_id := 0; basket_classes := ∅; basket_balances := ∅; basket_fee := None;
  sell_orders := ∅; sell_order_seq_id := 0; allowed_denoms := ∅; markets := ∅; market_seq_id := 0;
  fee_params_ := None; bank := ∅; bank_supply := ∅ |}.

Definition af_ex_env : env := {| e_time := mk_ts 1700000000 0; e_authority := addr_gov |}.
Definition af_ex_msg : msg := MUpdateClassAdmin 0%N (b "C01") 7%N.

(* only the success flag is computed: normalising a state would also normalise the well-formedness
   proofs inside its gmaps *)
Lemma af_ex_succeeds :
  validate_basic af_ex_msg &&
  match handle af_ex_env af_ex_state af_ex_msg with LOk _ => true | LErr _ => false end = true.
Proof. vm_compute. reflexivity. Qed.

Example handle_changes_only_named_nonvacuous :
  validate_basic af_ex_msg = true /\
  exists s' r evs, handle af_ex_env af_ex_state af_ex_msg = LOk (s', r, evs) /\
                   only_named af_ex_env af_ex_msg af_ex_state s'.
Proof.
  pose proof af_ex_succeeds as Hok. apply andb_true_iff in Hok. destruct Hok as [Hvb Hok].
  split; [exact Hvb|].
  destruct (handle af_ex_env af_ex_state af_ex_msg) as [[[s' r] evs]|err] eqn:E; [|discriminate Hok].
  exists s', r, evs. split; [reflexivity|]. eapply handle_changes_only_named. exact E.
Qed.

(* the same for a governance message refused to a non-authority signer and accepted from the authority *)
Example gov_msg_nonvacuous :
  match handle af_ex_env af_ex_state (MSetClassCreatorAllowlist addr_gov true) with LOk _ => true | LErr _ => false end = true /\
  match handle af_ex_env af_ex_state (MSetClassCreatorAllowlist 0%N true) with LOk _ => false | LErr _ => true end = true.
Proof. split; vm_compute; reflexivity. Qed.

Print Assumptions handle_changes_only_named.
Print Assumptions update_class_issuers_other_classes.
Print Assumptions cancel_sell_order_other_rows.
