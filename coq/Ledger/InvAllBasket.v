(* Assembly, C05: every basket token is backed 1:1 by the credits in the basket (Inv_basket), in every
   state of every history whose governance fee updates stay outside the basket-token namespace "eco.".

   Inv_all_basket = Inv_run /\ Inv_basket /\ Inv_basket_denoms /\ fee_denoms_ok (InvBasketAdmin.v).  Basket
   messages: basket_backing_step.  All other messages leave baskets and basket balances alone and change the
   bank supply only of denoms outside the namespace: the class-creation fee (fee_denoms_ok), uregen (BurnRegen,
   marketplace fee burn). *)
From stdpp Require Import gmap.
From RecordUpdate Require Import RecordSet.
From Coq Require Import ZArith NArith List Bool Lia Strings.Byte.
Require Import Regen.Base.Bytes Regen.Base.Calendar Regen.Dec.Dec.
Require Import Regen.Ledger.Types Regen.Ledger.Msgs Regen.Ledger.Orm Regen.Ledger.BaseMsgs
               Regen.Ledger.BasketMsgs Regen.Ledger.MarketMsgs Regen.Ledger.Step
               Regen.Ledger.Amount Regen.Ledger.MapSum Regen.Ledger.Inv Regen.Ledger.InvTactics.
Require Regen.Ledger.InvBasketLib Regen.Ledger.InvMarketFill.
Require Import Regen.Ledger.InvFrame Regen.Ledger.InvAdmin Regen.Ledger.InvBaseLib Regen.Ledger.InvBase
               Regen.Ledger.InvBasketAdmin Regen.Ledger.InvBasket Regen.Ledger.InvBridgeLib.
Require Import Regen.Ledger.InvMarketLib Regen.Ledger.InvMarketPrim Regen.Ledger.InvMarketOrders
               Regen.Ledger.InvMarketPrune Regen.Ledger.InvMarket.
Require Import Regen.Ledger.InvAllLib Regen.Ledger.InvAllBound Regen.Ledger.InvAllRun.
Import ListNotations RecordSetNotations.
Local Open Scope Z_scope.

Definition Inv_all_basket (s : state) : Prop :=
  Inv_run s /\ Inv_basket s /\ Inv_basket_denoms s /\ fee_denoms_ok s.

(* governance hypothesis: a fee set by UpdateBasketFee / UpdateClassFee is not in a basket-token denom *)
Definition msg_fee_ok (m : msg) : Prop :=
  match m with
  | MUpdateBasketFee _ fee | MUpdateClassFee _ fee =>
      forall c, normalise_fee fee = Some c -> is_eco (c_denom c) = false
  | _ => True
  end.

Definition gov_fees_ok (h : list block) : Prop := Forall (fun bl => Forall msg_fee_ok (blk_msgs bl)) h.

Lemma uregen_not_eco : is_eco uregen = false.
Proof. vm_compute. reflexivity. Qed.

(* ------------------------------------------------------------------ *)
(* steps that leave the basket tables alone                            *)
(* ------------------------------------------------------------------ *)

Lemma backing_frame s s' :
  baskets s' = baskets s -> basket_balances s' = basket_balances s ->
  (forall d, is_eco d = true -> bank_sup s' d = bank_sup s d) ->
  Inv_basket s -> Inv_basket_denoms s -> Inv_basket s' /\ Inv_basket_denoms s'.
Proof.
  intros E1 E2 Hsup [U1 B1] [D1 D2]. split; [split|split].
  - unfold basket_denoms_unique. rewrite E1. exact U1.
  - rewrite E1, E2. intros id k Hk. rewrite (Hsup _ (D1 _ _ Hk)). apply B1. exact Hk.
  - rewrite E1. exact D1.
  - rewrite E1. intros d Hd Hno. rewrite (Hsup d Hd). apply D2; assumption.
Qed.

Lemma fees_frame s s' :
  basket_fee s' = basket_fee s -> class_fee s' = class_fee s -> fee_denoms_ok s -> fee_denoms_ok s'.
Proof. intros E1 E2 H. unfold fee_denoms_ok. rewrite E1, E2. exact H. Qed.

Lemma rest_fees s s' : rest_eq s s' -> basket_fee s' = basket_fee s /\ class_fee s' = class_fee s.
Proof. intros H. unfold rest_eq in H. rewrite H. split; reflexivity. Qed.

Lemma create_batch_fees e s issuer pid iss metadata start_ end_ open otx s' r evs :
  h_create_batch e s issuer pid iss metadata start_ end_ open otx = LOk (s', r, evs) ->
  basket_fee s' = basket_fee s /\ class_fee s' = class_fee s.
Proof.
  intros H. apply h_create_batch_shape in H.
  destruct H as (pk & pj & cl & sd & ed & _ & _ & _ & _ & _ & _ & _ & Hrest & _ & _).
  apply rest_fees in Hrest. exact Hrest.
Qed.

Lemma mint_fees e s issuer denom iss otx s' r evs :
  h_mint_batch_credits e s issuer denom iss otx = LOk (s', r, evs) ->
  basket_fee s' = basket_fee s /\ class_fee s' = class_fee s.
Proof.
  intros H. apply h_mint_batch_credits_shape in H.
  destruct H as (bk & ba & pj & o & _ & _ & _ & _ & _ & _ & Hrest & _ & _). apply rest_fees in Hrest. exact Hrest.
Qed.

Lemma base_credit_fees e s m s' r evs :
  is_base_credit_msg m = true -> handle e s m = LOk (s', r, evs) ->
  basket_fee s' = basket_fee s /\ class_fee s' = class_fee s.
Proof.
  intros Hm H. destruct m; try discriminate Hm; cbn [handle] in H.
  - eapply create_batch_fees; exact H.
  - eapply mint_fees; exact H.
  - apply h_seal_batch_shape in H. destruct H as [->|(bk & ba & Hba & ->)]; split; reflexivity.
  - apply h_send_rest in H. apply rest_fees. exact H.
  - apply h_retire_rest in H. apply rest_fees. exact H.
  - apply h_cancel_rest in H. apply rest_fees. exact H.
  - apply h_update_batch_metadata_shape in H. destruct H as (bk & ba & Hba & ->). split; reflexivity.
  - apply h_bridge_shape in H. destruct H as (_ & _ & _ & _ & H). apply rest_fees. exact H.
  - apply h_bridge_receive_shape in H.
    destruct H as (o & bb & pp & ck & cl & _ & _ & _ & _ & _ & [Hmint|Hcreate]).
    + destruct Hmint as (bk & bc & ba0 & pj0 & r1 & e1 & _ & _ & _ & Hm1 & _ & _). eapply mint_fees; exact Hm1.
    + destruct Hcreate as (_ & s1 & pid & d & e2 & Hproj & Hcb & _ & _).
      assert (H1 : basket_fee s1 = basket_fee s /\ class_fee s1 = class_fee s).
      { destruct Hproj as [(k & pj0 & _ & -> & _)|(_ & e3 & Hcp)]; [split; reflexivity|].
        apply h_create_project_shape in Hcp. destruct Hcp as (ck' & cl' & _ & _ & _ & -> & _). split; reflexivity. }
      destruct (create_batch_fees _ _ _ _ _ _ _ _ _ _ _ _ _ Hcb) as [A B]. destruct H1 as [C D]. split; congruence.
Qed.

(* what an administrative message does to the fees and to the bank supply *)
Lemma nonbank_fees s s' : nonbank_eq s s' -> basket_fee s' = basket_fee s /\ class_fee s' = class_fee s.
Proof. unfold nonbank_eq, nonbank. intros H. injection H. intros. split; congruence. Qed.

Lemma insert_issuers_bank k l : forall s s', insert_issuers k l s = LOk s' ->
  basket_fee s' = basket_fee s /\ class_fee s' = class_fee s /\ bank_supply s' = bank_supply s.
Proof.
  induction l as [|a l IH]; cbn [insert_issuers]; intros s s' H.
  - inversion H. repeat split.
  - destruct (bool_decide _); [discriminate|]. apply IH in H. exact H.
Qed.

Lemma fold_remove_issuers_bank k l : forall s,
  let s' := fold_left (fun s a => s <| class_issuers := class_issuers s ∖ {[ (k, a) ]} |>) l s in
  basket_fee s' = basket_fee s /\ class_fee s' = class_fee s /\ bank_supply s' = bank_supply s.
Proof.
  induction l as [|a l IH]; cbn [fold_left]; intros s; [repeat split|].
  exact (IH (s <| class_issuers := class_issuers s ∖ {[ (k, a) ]} |>)).
Qed.

Theorem admin_backing_frame e s m s' r evs :
  is_admin_msg m = true -> fee_denoms_ok s -> msg_fee_ok m -> handle e s m = LOk (s', r, evs) ->
  (forall d, is_eco d = true -> bank_sup s' d = bank_sup s d) /\ fee_denoms_ok s'.
Proof.
  intros Hm Hfee Hgov H.
  assert (Hsame : basket_fee s' = basket_fee s /\ class_fee s' = class_fee s /\ bank_supply s' = bank_supply s ->
                  (forall d, is_eco d = true -> bank_sup s' d = bank_sup s d) /\ fee_denoms_ok s').
  { intros (E1 & E2 & E3). split; [intros d _; unfold bank_sup; rewrite E3; reflexivity|].
    eapply fees_frame; eassumption. }
  destruct m; try discriminate Hm; cbn [handle] in H.
  - (* CreateClass: the fee is burnt, in a denom outside the namespace *)
    unfold h_create_class in H.
    lstep H as u1 H1. lstep H as s1 Hs1. lstep H as ctv H2. cbv zeta in H. lstep H as u2 H3. lstep H as s2 Hs2.
    unfold ret in H. inversion H; subst; clear H.
    destruct (insert_issuers_bank _ _ _ _ Hs2) as (E1 & E2 & E3). cbn in E1, E2, E3.
    destruct (nonbank_fees _ _ (charge_fee_nonbank _ _ _ _ _ _ Hs1)) as [F1 F2].
    split; [|eapply fees_frame; [| |exact Hfee]; congruence].
    intros d Hd. unfold bank_sup at 1. rewrite E3. fold (bank_sup s1 d).
    destruct (InvBasketLib.charge_fee_spec _ _ _ _ _ _ Hs1) as [_ Hspec].
    destruct (class_fee s) as [req|] eqn:Ecf; [|subst s1; reflexivity].
    destruct (0 <? c_amount req); [|subst s1; reflexivity].
    destruct Hspec as [_ Hsup]. rewrite Hsup. unfold InvBasketLib.at_key.
    destruct (decide (d = c_denom req)) as [->|_]; [|lia].
    rewrite (Hfee req (or_intror Ecf)) in Hd. discriminate.
  - unfold h_create_project in H.
    lstep H as p1 H1. destruct p1 as [ck cl]. lstep H as u1 H2. lstep H as u2 H3. lstep H as u3 H4.
    unfold ret in H. inversion H; subst; clear H. apply Hsame. repeat split.
  - unfold h_update_class_admin in H. lstep H as p1 H1. destruct p1 as [k c]. lstep H as u1 H2.
    unfold ret in H. inversion H; subst; clear H. apply Hsame. repeat split.
  - unfold h_update_class_issuers in H. lstep H as p1 H1. destruct p1 as [k c]. lstep H as u1 H2. lstep H as s2 Hs2.
    unfold ret in H. inversion H; subst; clear H. apply Hsame.
    destruct (insert_issuers_bank _ _ _ _ Hs2) as (E1 & E2 & E3).
    destruct (fold_remove_issuers_bank k remove s) as (G1 & G2 & G3). cbv zeta in G1, G2, G3.
    split; [congruence|]. split; congruence.
  - unfold h_update_class_metadata in H. lstep H as p1 H1. destruct p1 as [k c]. lstep H as u1 H2.
    unfold ret in H. inversion H; subst; clear H. apply Hsame. repeat split.
  - unfold h_update_project_admin in H. lstep H as p1 H1. destruct p1 as [k c]. lstep H as u1 H2.
    unfold ret in H. inversion H; subst; clear H. apply Hsame. repeat split.
  - unfold h_update_project_metadata in H. lstep H as p1 H1. destruct p1 as [k c]. lstep H as u1 H2.
    unfold ret in H. inversion H; subst; clear H. apply Hsame. repeat split.
  - unfold h_add_credit_type in H. lstep H as u1 H1. lstep H as u2 H2. lstep H as u3 H3.
    unfold ret in H. inversion H; subst; clear H. apply Hsame. repeat split.
  - unfold h_set_allowlist in H. lstep H as u1 H1. unfold ret in H. inversion H; subst; clear H. apply Hsame. repeat split.
  - unfold h_add_class_creator in H. lstep H as u1 H1. lstep H as u2 H2. unfold ret in H. inversion H; subst; clear H. apply Hsame. repeat split.
  - unfold h_remove_class_creator in H. lstep H as u1 H1. lstep H as u2 H2. unfold ret in H. inversion H; subst; clear H. apply Hsame. repeat split.
  - (* UpdateClassFee: the governance hypothesis *)
    unfold h_update_class_fee in H. lstep H as u1 H1. unfold ret in H. inversion H; subst; clear H.
    split; [intros d _; reflexivity|]. intros c [Hc|Hc]; cbn in Hc.
    + apply Hfee. left. exact Hc.
    + apply Hgov. exact Hc.
  - unfold h_add_allowed_bridge_chain in H. lstep H as u1 H1. lstep H as u2 H2. unfold ret in H. inversion H; subst; clear H. apply Hsame. repeat split.
  - unfold h_remove_allowed_bridge_chain in H. lstep H as u1 H1. unfold ret in H. inversion H; subst; clear H. apply Hsame. repeat split.
  - (* BurnRegen *)
    unfold h_burn_regen in H. lstep H as amt H1. lstep H as u1 H2. lstep H as cns H3. lstep H as s1 Hs1. lstep H as s2 Hs2.
    unfold ret in H. inversion H; subst; clear H.
    destruct (nonbank_fees _ _ (send_coins_nonbank _ _ _ _ _ Hs1)) as [F1 F2].
    destruct (nonbank_fees _ _ (burn_coins_nonbank _ _ _ _ Hs2)) as [G1 G2].
    split; [|eapply fees_frame; [| |exact Hfee]; congruence].
    intros d Hd. destruct (InvMarketFill.burn_new_coins _ _ _ _ _ _ H3 Hs2) as [_ Hsup]. rewrite Hsup.
    destruct (decide (d = uregen)) as [->|_]; [rewrite uregen_not_eco in Hd; discriminate|].
    destruct (InvMarketFill.send_new_coins _ _ _ _ _ _ _ H3 Hs1) as (_ & E & _). unfold bank_sup. rewrite E. lia.
  - destruct (blocked_addr to); [discriminate|]. lstep H as s1 Hs1. unfold ret in H. inversion H; subst; clear H.
    destruct (nonbank_fees _ _ (send_coins_nonbank _ _ _ _ _ Hs1)) as [F1 F2].
    apply Hsame. split; [exact F1|]. split; [exact F2|]. apply (InvMarketPrim.send_coins_only _ _ _ _ _ Hs1).
  - discriminate H.
Qed.

(* ------------------------------------------------------------------ *)
(* one message, one block, histories                                   *)
(* ------------------------------------------------------------------ *)

Theorem handle_preserves_backing e s m s' r evs :
  Inv_all_basket s -> msg_fee_ok m -> validate_basic m = true -> handle e s m = LOk (s', r, evs) ->
  Inv_all_basket s'.
Proof.
  intros (Hrun & Hbk & Hden & Hfee) Hgov Hvb H. pose proof Hrun as (Hc & Hb & Hq).
  split; [apply (handle_preserves_run _ _ _ _ _ _ Hrun Hvb H)|].
  destruct (msg_cases m) as [Hm|[Hm|[Hm|Hm]]].
  - destruct (base_preserves_basket _ _ _ _ _ _ Hm H) as (E1 & E2 & _ & E4 & _).
    destruct (base_credit_fees _ _ _ _ _ _ Hm H) as [F1 F2].
    destruct (backing_frame s s' E1 E2) as [A B]; try assumption.
    { intros d _. unfold bank_sup. rewrite E4. reflexivity. }
    split; [exact A|]. split; [exact B | eapply fees_frame; eassumption].
  - pose proof (admin_credit_frame _ _ _ _ _ _ Hm Hvb H) as F.
    destruct (admin_backing_frame _ _ _ _ _ _ Hm Hfee Hgov H) as [Hsup Hfee'].
    destruct (backing_frame s s' (cf_baskets _ _ F) (cf_basket_balances _ _ F) Hsup Hbk Hden) as [A B].
    split; [exact A|]. split; [exact B | exact Hfee'].
  - eapply basket_backing_step; try eassumption.
    intros a fee c -> Hn. apply Hgov. exact Hn.
  - destruct (market_frame_basket e s m s' r evs Hm Hc Hb Hvb H) as (E1 & E2 & Hsup & _).
    pose proof (market_frame e s m s' r evs Hm Hc Hb Hvb H) as Hfr.
    destruct (backing_frame s s' E1 E2) as [A B]; try assumption.
    { intros d Hd. apply Hsup. intros ->. rewrite uregen_not_eco in Hd. discriminate. }
    split; [exact A|]. split; [exact B|]. eapply fees_frame; [| |exact Hfee]; rewrite Hfr; reflexivity.
Qed.

Theorem deliver_preserves_backing e s m : Inv_all_basket s -> msg_fee_ok m -> Inv_all_basket (deliver e s m).1.
Proof.
  intros Hi Hgov. apply (deliver_lift (fun _ b => Inv_all_basket b)); [exact Hi|].
  intros s' r evs Hvb H. eapply handle_preserves_backing; eassumption.
Qed.

Theorem begin_block_preserves_backing t s s' : Inv_all_basket s -> begin_block t s = LOk s' -> Inv_all_basket s'.
Proof.
  intros (Hrun & Hbk & Hden & Hfee) H. pose proof Hrun as (Hc & _).
  split; [apply (begin_block_preserves_run _ _ _ Hrun H)|]. unfold begin_block in H.
  destruct (prune_spec t s s' Hc H) as (_ & _ & _ & _ & Heq).
  destruct (backing_frame s s') as [A B]; try assumption; try (rewrite Heq; reflexivity).
  split; [exact A|]. split; [exact B|]. eapply fees_frame; [| |exact Hfee]; rewrite Heq; reflexivity.
Qed.

Lemma deliver_all_preserves_backing e ms : forall s,
  Forall msg_fee_ok ms -> Inv_all_basket s -> Inv_all_basket (deliver_all e ms s).
Proof.
  unfold deliver_all. induction ms as [|m ms IH]; intros s Hall Hs; cbn [fold_left]; [exact Hs|].
  inversion Hall; subst. apply IH; [assumption|]. apply deliver_preserves_backing; assumption.
Qed.

(* C05 along runs *)
Theorem run_preserves_backing authority h : forall g s,
  Inv_all_basket g -> gov_fees_ok h -> run authority g h = LOk s -> Inv_all_basket s.
Proof.
  unfold run, gov_fees_ok. induction h as [|bl h IH]; intros g s Hg Hgov H; cbn [lfold] in H.
  - inversion H; subst. exact Hg.
  - inversion Hgov; subst. apply lbind_ok in H. destruct H as (s1 & Hr1 & Hr2).
    rewrite run_block_unfold in Hr1. apply lbind_ok in Hr1. destruct Hr1 as (s0 & Hb & Hr1). inversion Hr1; subst s1; clear Hr1.
    eapply IH; [|eassumption|exact Hr2].
    apply deliver_all_preserves_backing; [assumption|]. eapply begin_block_preserves_backing; eassumption.
Qed.

Theorem run_intermediate_backing authority g h1 bl ms1 ms2 s1 s2 :
  Inv_all_basket g -> gov_fees_ok h1 -> Forall msg_fee_ok ms1 ->
  run authority g h1 = LOk s1 -> begin_block (blk_time bl) s1 = LOk s2 -> blk_msgs bl = ms1 ++ ms2 ->
  Inv_basket (deliver_all (block_env authority bl) ms1 s2).
Proof.
  intros Hg Hgov Hms H1 H2 _.
  pose proof (run_preserves_backing authority h1 g s1 Hg Hgov H1) as I1.
  pose proof (begin_block_preserves_backing _ _ _ I1 H2) as I2.
  apply (deliver_all_preserves_backing _ _ _ Hms I2).
Qed.

(* Inv_basket spelled out *)
Theorem backing_after_every_run authority g h s :
  Inv_all_basket g -> gov_fees_ok h -> run authority g h = LOk s ->
  forall id k, baskets s !! id = Some k -> bank_sup s (bk_denom k) = basket_total id (basket_balances s).
Proof. intros Hg Hgov H. destruct (run_preserves_backing authority h g s Hg Hgov H) as (_ & [_ B] & _). exact B. Qed.
