(* C07: what a successful fillOrder / buy_one does to credits, orders and coins, as equations on the
   post-state (fill_order_spec), and the inversion of buy_one down to its fill_order call (buy_one_inv). *)
From stdpp Require Import gmap.
From RecordUpdate Require Import RecordSet.
From Coq Require Import ZArith NArith List Bool Lia Strings.Byte.
Require Import Regen.Base.Bytes Regen.Base.Calendar Regen.Dec.Dec Regen.Dec.DecIface.
Require Import Regen.Ledger.Types Regen.Ledger.Msgs Regen.Ledger.Orm Regen.Ledger.BaseMsgs
               Regen.Ledger.BasketMsgs Regen.Ledger.MarketMsgs Regen.Ledger.Step
               Regen.Ledger.Amount Regen.Ledger.MapSum Regen.Ledger.Inv Regen.Ledger.InvTactics
               Regen.Ledger.InvMarketLib Regen.Ledger.InvMarketPrim Regen.Ledger.InvMarketOrders
               Regen.Ledger.InvMarketSell Regen.Ledger.InvMarketPrune Regen.Ledger.InvMarketUpdate
               Regen.Ledger.InvMarketBuy.
Import ListNotations RecordSetNotations.
Local Open Scope Z_scope.

(* ------------------------------------------------------------------ *)
(* bank transfers as flows                                             *)
(* ------------------------------------------------------------------ *)

(* z units of denom d at account a, seen from the entry (a', d') *)
Definition at_ (a : addr) (d : bytes) (z : Z) (a' : addr) (d' : bytes) : Z :=
  if decide ((a', d') = (a, d)) then z else 0.

Lemma bank_bal_set a d z s a' d' :
  bank_bal (set_bank_bal a d z s) a' d' = if decide ((a', d') = (a, d)) then z else bank_bal s a' d'.
Proof.
  unfold bank_bal, set_bank_bal. cbn. destruct (decide ((a', d') = (a, d))) as [Heq|Hne].
  - rewrite Heq, lookup_insert. reflexivity.
  - rewrite lookup_insert_ne by congruence. reflexivity.
Qed.

Lemma new_coins1_cases' d z cs :
  new_coins1 d z = LOk cs -> (z = 0 /\ cs = []) \/ (0 < z /\ cs = [{| c_denom := d; c_amount := z |}]).
Proof.
  unfold new_coins1. destruct (z <? 0) eqn:E1; [discriminate|]. destruct (negb _); [discriminate|].
  destruct (z =? 0) eqn:E2; intros H; inversion H.
  - left. apply Z.eqb_eq in E2. tauto.
  - right. apply Z.ltb_ge in E1. apply Z.eqb_neq in E2. split; [lia | reflexivity].
Qed.

Lemma send_coins_nil f t s s' : send_coins f t [] s = LOk s' -> s' = s.
Proof. unfold send_coins. cbn. intros H. inversion H. reflexivity. Qed.

Lemma send_coins_one f t d z s s' :
  send_coins f t [{| c_denom := d; c_amount := z |}] s = LOk s' ->
  forall a' d', bank_bal s' a' d' = bank_bal s a' d' - at_ f d z a' d' + at_ t d z a' d'.
Proof.
  unfold send_coins. destruct (negb _); [discriminate|]. cbn [bank_sub_all lbind].
  unfold bank_sub. cbv zeta. cbn [c_denom c_amount]. destruct (_ <? _); [discriminate|]. cbn [lbind].
  intros H. inversion H; subst s'; clear H. intros a' d'.
  unfold bank_add_all. cbn [fold_left]. unfold bank_add. cbn [c_denom c_amount].
  rewrite !bank_bal_set. unfold at_.
  destruct (decide ((a', d') = (t, d))) as [E1|E1]; destruct (decide ((a', d') = (f, d))) as [E2|E2];
    destruct (decide ((t, d) = (f, d))) as [E3|E3]; try (exfalso; congruence);
    try (inversion E1; subst); try (inversion E2; subst); lia.
Qed.

(* sending the coins built by NewCoins(NewCoin(d, z)) moves z from f to t (nothing when z = 0) *)
Lemma send_new_coins d z cs f t s s' :
  new_coins1 d z = LOk cs -> send_coins f t cs s = LOk s' ->
  0 <= z /\ bank_supply s' = bank_supply s /\
  forall a' d', bank_bal s' a' d' = bank_bal s a' d' - at_ f d z a' d' + at_ t d z a' d'.
Proof.
  intros Hc Hs. pose proof (send_coins_only _ _ _ _ _ Hs) as [_ Hsup].
  destruct (new_coins1_cases' _ _ _ Hc) as [[-> ->]|[Hz ->]].
  - apply send_coins_nil in Hs. subst s'. split; [lia|]. split; [reflexivity|].
    intros a' d'. unfold at_. destruct (decide _); destruct (decide _); lia.
  - split; [lia|]. split; [exact Hsup|]. apply send_coins_one. exact Hs.
Qed.

Lemma burn_new_coins d z cs m s s' :
  new_coins1 d z = LOk cs -> burn_coins m cs s = LOk s' ->
  (forall a' d', bank_bal s' a' d' = bank_bal s a' d' - at_ m d z a' d') /\
  (forall d', bank_sup s' d' = bank_sup s d' - (if decide (d' = d) then z else 0)).
Proof.
  intros Hc Hs. destruct (new_coins1_cases' _ _ _ Hc) as [[-> ->]|[Hz ->]].
  - apply burn_coins_nil in Hs. subst s'. split.
    + intros a' d'. unfold at_. destruct (decide _); lia.
    + intros d'. destruct (decide _); lia.
  - unfold burn_coins in Hs. destruct (negb _); [discriminate|]. cbn [bank_sub_all lbind] in Hs.
    unfold bank_sub in Hs. cbv zeta in Hs. cbn [c_denom c_amount] in Hs. destruct (_ <? _); [discriminate|].
    cbn [lbind fold_left c_denom c_amount] in Hs. inversion Hs; subst s'; clear Hs. split.
    + intros a' d'. unfold bank_bal, set_bank_sup, set_bank_bal, at_. cbn.
      destruct (decide ((a', d') = (m, d))) as [Heq|Hne].
      * rewrite Heq, lookup_insert. cbn. lia.
      * rewrite lookup_insert_ne by congruence. lia.
    + intros d'. unfold bank_sup, set_bank_sup, set_bank_bal. cbn. destruct (decide (d' = d)) as [->|Hne].
      * rewrite lookup_insert. cbn. lia.
      * rewrite lookup_insert_ne by congruence. lia.
Qed.

(* ------------------------------------------------------------------ *)
(* phase D: exact coin movements                                       *)
(* ------------------------------------------------------------------ *)

(* the fee that is collected: trunc(buyer_fee + seller_fee) when positive, else nothing *)
Definition fee_amount (tfee : dec) (fee : Z) : Prop :=
  if is_positive tfee then sdk_int_trim tfee = Ok fee else fee = 0.

Lemma seller_rate_ext s s' : fee_params_ s' = fee_params_ s -> seller_rate s' = seller_rate s.
Proof. intros H. unfold seller_rate. rewrite H. reflexivity. Qed.

Lemma fill_bank_exact seller buyer bf st denom s s' :
  fill_bank seller buyer bf st denom s = LOk s' ->
  exists rate sfee tfee payment fee pay,
    seller_rate s = LOk rate /\ mul st rate = Ok sfee /\ add bf sfee = Ok tfee /\ fee_amount tfee fee /\ 0 <= fee /\
    sub st sfee = Ok payment /\ sdk_int_trim payment = Ok pay /\ 0 <= pay /\
    (forall a' d', bank_bal s' a' d' =
       bank_bal s a' d' - at_ buyer denom (fee + pay) a' d' + at_ seller denom pay a' d'
       + (if bytes_eqb denom uregen then 0 else at_ addr_feepool denom fee a' d')) /\
    (forall d', bank_sup s' d' =
       bank_sup s d' - (if bytes_eqb denom uregen then (if decide (d' = denom) then fee else 0) else 0)).
Proof.
  intros H. unfold fill_bank in H.
  lstep H as rate Hrate. lstep H as sf Hsf. lstep H as tf Htf. lstep H as s1 Hs1.
  lstep H as payment Hpay. lstep H as pay Hpay'. lstep H as coins Hcoins.
  destruct (send_new_coins _ _ _ _ _ _ _ Hcoins H) as (Hpay0 & Hsup2 & Hbal2).
  assert (Hmid : exists fee, fee_amount tf fee /\ 0 <= fee /\
            (forall a' d', bank_bal s1 a' d' = bank_bal s a' d' - at_ buyer denom fee a' d'
               + (if bytes_eqb denom uregen then 0 else at_ addr_feepool denom fee a' d')) /\
            (forall d', bank_sup s1 d' =
               bank_sup s d' - (if bytes_eqb denom uregen then (if decide (d' = denom) then fee else 0) else 0))).
  { unfold fee_amount. destruct (is_positive tf).
    - lstep Hs1 as amount Ham. lstep Hs1 as cs Hcs. lstep Hs1 as s0 Hs0.
      destruct (send_new_coins _ _ _ _ _ _ _ Hcs Hs0) as (Ham0 & Hsup0 & Hbal0).
      exists amount. split; [exact Ham|]. split; [exact Ham0|].
      destruct (bytes_eqb denom uregen) eqn:Ed.
      + destruct (burn_new_coins _ _ _ _ _ _ Hcs Hs1) as (Hb1 & Hb2). split.
        * intros a' d'. rewrite Hb1, Hbal0. lia.
        * intros d'. rewrite Hb2. unfold bank_sup. rewrite Hsup0. reflexivity.
      + inversion Hs1; subst s1. split.
        * intros a' d'. rewrite Hbal0. lia.
        * intros d'. unfold bank_sup. rewrite Hsup0. lia.
    - inversion Hs1; subst s1. exists 0. split; [reflexivity|]. split; [lia|]. split.
      + intros a' d'. unfold at_. destruct (bytes_eqb denom uregen); repeat destruct (decide _); lia.
      + intros d'. destruct (bytes_eqb denom uregen); [destruct (decide _)|]; lia. }
  destruct Hmid as (fee & Hfee & Hfee0 & Hbal1 & Hsup1).
  exists rate, sf, tf, payment, fee, pay.
  repeat (split; [assumption|]). split.
  - intros a' d'. rewrite Hbal2, Hbal1. unfold at_. repeat destruct (decide _); lia.
  - intros d'. unfold bank_sup at 1. rewrite Hsup2. apply Hsup1.
Qed.

(* ------------------------------------------------------------------ *)
(* fillOrder                                                           *)
(* ------------------------------------------------------------------ *)

Theorem fill_order_spec id o buyer q bf st ar denom s s' :
  Inv_core s -> Inv_bound s -> sell_orders s !! id = Some o -> in_ok q -> 0 < U q -> buyer <> so_seller o ->
  fill_order id o buyer q bf st ar denom s = LOk s' ->
  let a := so_seller o in let k := so_batch_key o in
  (* the order: partially filled or removed *)
  U q <= order_units o /\
  (forall id0, id0 <> id -> sell_orders s' !! id0 = sell_orders s !! id0) /\
  match sell_orders s' !! id with
  | None => U q = order_units o
  | Some o' => order_units o' = order_units o - U q /\ order_sim o o' /\ so_seller o' = so_seller o /\
               so_disable_auto_retire o' = so_disable_auto_retire o /\ so_expiration o' = so_expiration o
  end /\
  (* credits: seller's escrow falls by q, buyer's tradable or retired balance rises by q *)
  U (bl_escrowed (get_balance s' a k)) = U (bl_escrowed (get_balance s a k)) - U q /\
  bl_tradable (get_balance s' a k) = bl_tradable (get_balance s a k) /\
  bl_retired (get_balance s' a k) = bl_retired (get_balance s a k) /\
  bl_escrowed (get_balance s' buyer k) = bl_escrowed (get_balance s buyer k) /\
  (if ar then U (bl_retired (get_balance s' buyer k)) = U (bl_retired (get_balance s buyer k)) + U q /\
              bl_tradable (get_balance s' buyer k) = bl_tradable (get_balance s buyer k)
   else U (bl_tradable (get_balance s' buyer k)) = U (bl_tradable (get_balance s buyer k)) + U q /\
        bl_retired (get_balance s' buyer k) = bl_retired (get_balance s buyer k)) /\
  (forall a' k', (a', k') <> (a, k) -> (a', k') <> (buyer, k) -> get_balance s' a' k' = get_balance s a' k') /\
  (* supply: moved from tradable to retired exactly when the purchase auto-retires *)
  (forall k', k' <> k -> supplies s' !! k' = supplies s !! k') /\
  (if ar then exists su su', supplies s !! k = Some su /\ supplies s' !! k = Some su' /\
                U (su_tradable su') = U (su_tradable su) - U q /\ U (su_retired su') = U (su_retired su) + U q /\
                su_cancelled su' = su_cancelled su
   else supplies s' !! k = supplies s !! k) /\
  (* coins *)
  exists rate sfee tfee payment fee pay,
    seller_rate s = LOk rate /\ mul st rate = Ok sfee /\ add bf sfee = Ok tfee /\ fee_amount tfee fee /\ 0 <= fee /\
    sub st sfee = Ok payment /\ sdk_int_trim payment = Ok pay /\ 0 <= pay /\
    (forall a' d', bank_bal s' a' d' =
       bank_bal s a' d' - at_ buyer denom (fee + pay) a' d' + at_ a denom pay a' d'
       + (if bytes_eqb denom uregen then 0 else at_ addr_feepool denom fee a' d')) /\
    (forall d', bank_sup s' d' =
       bank_sup s d' - (if bytes_eqb denom uregen then (if decide (d' = denom) then fee else 0) else 0)).
Proof.
  intros Hcore Hbound Ho Hq Hqpos Hbs H. cbv zeta. rewrite fill_order_unfold in H.
  pose proof (order_units_bound s _ _ Hcore Hbound Ho) as Hub.
  apply Inv_core_split in Hcore. destruct Hcore as (Hsk & Hcons & Hesc).
  pose proof Hsk as (Hct & Hscale & Hkeys).
  lstep H as oq Hoq. lstep H as sA HsA. lstep H as sB HsB. lstep H as sC HsC.
  pose proof Hscale as (_ & _ & _ & Hs4). destruct (Hs4 _ _ Ho) as (oq' & Hp & Hoqok & Hoqpos).
  rewrite Hoq in Hp. inversion Hp; subst oq'; clear Hp.
  pose proof (order_units_parse _ _ Hoq) as Hou. rewrite Hou in Hub.
  destruct (fill_ord_spec _ _ _ _ _ _ Hsk Ho Hoq Hoqok Hub Hq Hqpos HsA) as (Hle & HskA & HAeq & HAsum & HAoth & HAid).
  assert (HbalA : balances sA = balances s) by (rewrite HAeq; reflexivity).
  assert (HsupA : supplies sA = supplies s) by (rewrite HAeq; reflexivity).
  pose proof HskA as (_ & HscaleA & HkeysA).
  destruct (fill_seller_spec _ _ _ _ HscaleA Hq HsB) as (b & b' & Hb & HwB & HokB & HtB & HrB & HeB).
  rewrite HbalA in Hb.
  pose proof (get_balance_Some _ _ _ _ Hb) as Hgb.
  assert (HskB : Inv_sk sB).
  { eapply sk_wr_bal; [exact HwB | exact HokB | | exact HskA].
    destruct HkeysA as (_ & _ & Hk3 & _). eapply Hk3. rewrite HbalA. exact Hb. }
  pose proof HskB as (_ & HscaleB & _).
  pose proof (fill_buyer_spec _ _ _ _ _ _ HscaleB Hq HsC) as HC. unfold buyer_post in HC. cbv zeta in HC.
  destruct HC as (bb' & HokC & HeC & HC).
  assert (Hbb : get_balance sB buyer (so_batch_key o) = get_balance s buyer (so_batch_key o)).
  { rewrite (get_balance_wr_bal _ _ _ _ _ buyer (so_batch_key o) HwB).
    destruct (decide _) as [Heq|_]; [inversion Heq; congruence|]. unfold get_balance. rewrite HbalA. reflexivity. }
  rewrite Hbb in HC, HeC.
  assert (HsoB : sell_orders sB = sell_orders sA) by (rewrite HwB; reflexivity).
  assert (HsupB : supplies sB = supplies s) by (rewrite HwB; exact HsupA).
  assert (HfpB : fee_params_ sB = fee_params_ s) by (rewrite HwB; cbn; rewrite HAeq; reflexivity).
  assert (HbkB : bank sB = bank s /\ bank_supply sB = bank_supply s) by (rewrite HwB; cbn; rewrite HAeq; split; reflexivity).
  (* reading the balances of sC *)
  assert (HC' : sell_orders sC = sell_orders sA /\ fee_params_ sC = fee_params_ s /\
                bank sC = bank s /\ bank_supply sC = bank_supply s /\
                (forall a' k', get_balance sC a' k' =
                   if decide ((a', k') = (buyer, so_batch_key o)) then bb' else get_balance sB a' k') /\
                (forall k', k' <> so_batch_key o -> supplies sC !! k' = supplies s !! k') /\
                (if ar then exists su su', supplies s !! so_batch_key o = Some su /\ supplies sC !! so_batch_key o = Some su' /\
                     U (su_tradable su') = U (su_tradable su) - U q /\ U (su_retired su') = U (su_retired su) + U q /\
                     su_cancelled su' = su_cancelled su
                 else supplies sC !! so_batch_key o = supplies s !! so_batch_key o)).
  { destruct HbkB as [Bk1 Bk2]. destruct ar.
    - destruct HC as (su & su' & s1 & Hsu & Hw1 & Hw2 & Hsuok & HsuT & HsuR & HsuC & _).
      rewrite HsupB in Hsu.
      split; [rewrite Hw2; cbn; rewrite Hw1; exact HsoB|]. split; [rewrite Hw2; cbn; rewrite Hw1; exact HfpB|].
      split; [rewrite Hw2; cbn; rewrite Hw1; exact Bk1|]. split; [rewrite Hw2; cbn; rewrite Hw1; exact Bk2|]. split; [|split].
      + intros a' k'. rewrite (get_balance_wr_bal _ _ _ _ _ a' k' Hw2). destruct (decide _); [reflexivity|].
        rewrite Hw1. reflexivity.
      + intros k' Hk'. rewrite Hw2. cbn. rewrite Hw1. cbn. rewrite lookup_insert_ne by congruence. rewrite HsupB. reflexivity.
      + exists su, su'. split; [exact Hsu|]. split; [rewrite Hw2; cbn; rewrite Hw1; cbn; apply lookup_insert | tauto].
    - destruct HC as (Hw2 & _).
      split; [rewrite Hw2; exact HsoB|]. split; [rewrite Hw2; exact HfpB|].
      split; [rewrite Hw2; exact Bk1|]. split; [rewrite Hw2; exact Bk2|]. split; [|split].
      + intros a' k'. apply (get_balance_wr_bal _ _ _ _ _ a' k' Hw2).
      + intros k' _. rewrite Hw2. cbn. rewrite HsupB. reflexivity.
      + rewrite Hw2. cbn. rewrite HsupB. reflexivity. }
  destruct HC' as (HsoC & HfpC & HbkC & HbsC & HgbC & HsupC & HsupCk).
  (* phase D *)
  destruct (fill_bank_exact _ _ _ _ _ _ _ H) as (rate & sfee & tfee & payment & fee & pay & R1 & R2 & R3 & R4 & R5 & R6 & R7 & R8 & R9 & R10).
  destruct (fill_bank_spec _ _ _ _ _ _ _ H) as (HD1 & _ & _).
  destruct (bank_only_fields _ _ HD1) as (D1 & D2 & D3 & _).
  assert (HgbD : forall a' k', get_balance s' a' k' = get_balance sC a' k') by (intros; unfold get_balance; rewrite D1; reflexivity).
  assert (HgbB : forall a' k', get_balance sB a' k' =
            if decide ((a', k') = (so_seller o, so_batch_key o)) then b' else get_balance s a' k').
  { intros a' k'. rewrite (get_balance_wr_bal _ _ _ _ _ a' k' HwB). destruct (decide _); [reflexivity|].
    unfold get_balance. rewrite HbalA. reflexivity. }
  assert (Hne1 : (so_seller o, so_batch_key o) <> (buyer, so_batch_key o)) by congruence.
  split; [lia|]. split; [intros id0 Hne; rewrite D3, HsoC; apply HAoth; exact Hne|]. split.
  { rewrite D3, HsoC. destruct (sell_orders sA !! id) as [o'|]; [|lia]. rewrite Hou. tauto. }
  (* seller row *)
  rewrite !HgbD, !HgbC, !HgbB, Hgb.
  destruct (decide ((so_seller o, so_batch_key o) = (buyer, so_batch_key o))) as [Hx|_]; [contradiction|].
  destruct (decide ((so_seller o, so_batch_key o) = (so_seller o, so_batch_key o))) as [_|Hx]; [|contradiction].
  destruct (decide ((buyer, so_batch_key o) = (buyer, so_batch_key o))) as [_|Hx]; [|contradiction].
  split; [exact HeB|]. split; [exact HtB|]. split; [exact HrB|]. split; [exact HeC|]. split.
  { destruct ar; [destruct HC as (su & su' & s1 & _ & _ & _ & _ & _ & _ & _ & X1 & X2) | destruct HC as (_ & X1 & X2)]; tauto. }
  split.
  { intros a' k' N1 N2. rewrite HgbD, HgbC, HgbB.
    destruct (decide ((a', k') = (buyer, so_batch_key o))); [contradiction|].
    destruct (decide ((a', k') = (so_seller o, so_batch_key o))); [contradiction | reflexivity]. }
  split; [intros k' Hk'; rewrite D2; apply HsupC; exact Hk'|]. split.
  { destruct ar; rewrite D2; exact HsupCk. }
  exists rate, sfee, tfee, payment, fee, pay.
  rewrite (seller_rate_ext s sC HfpC) in R1.
  split; [exact R1|]. repeat (split; [assumption|]). split.
  - intros a' d'. rewrite R9. unfold bank_bal. rewrite HbkC. reflexivity.
  - intros d'. rewrite R10. unfold bank_sup. rewrite HbsC. reflexivity.
Qed.

(* ------------------------------------------------------------------ *)
(* buy_one down to its fill_order call                                 *)
(* ------------------------------------------------------------------ *)

Theorem buy_one_inv e buyer s r s' :
  Inv_ct s -> buy_one e buyer s r = LOk s' ->
  exists o ba ct q mk bid subtotal brate bfee total total_cost fee_trunc,
    sell_orders s !! by_id r = Some o /\ buyer <> so_seller o /\
    (by_disable_auto_retire r = true -> so_disable_auto_retire o = true) /\
    batches s !! so_batch_key o = Some ba /\ credit_type_of_denom s (ba_denom ba) = LOk ct /\
    posfixed P (by_quantity r) = Ok q /\ in_ok q /\ 0 < U q /\
    markets s !! so_market_id o = Some mk /\ by_bid r = Some bid /\ c_denom bid = mk_denom mk /\
    so_ask_amount o <= c_amount bid /\
    sub_total_cost (so_ask_amount o) q = LOk subtotal /\ buyer_rate s = LOk brate /\
    mul subtotal brate = Ok bfee /\ add subtotal bfee = Ok total /\
    sdk_int_trim total = Ok total_cost /\ sdk_int_trim bfee = Ok fee_trunc /\
    match by_max_fee r with None => fee_trunc <= 0 | Some mf => c_denom mf = mk_denom mk /\ fee_trunc <= c_amount mf end /\
    total_cost <= bank_bal s buyer (c_denom bid) /\
    fill_order (by_id r) o buyer q bfee subtotal (negb (by_disable_auto_retire r)) (mk_denom mk) s = LOk s'.
Proof.
  intros Hict H. unfold buy_one in H.
  lstep H as o Ho. lstep H as u1 Hu1. lstep H as u2 Hu2. lstep H as ba Hba. lstep H as ct Hct.
  lstep H as q Hq. lstep H as mk Hmk. lstep H as bid Hbid. lstep H as u3 Hu3. lstep H as u4 Hu4.
  lstep H as subtotal Hsub. lstep H as rate Hrate. lstep H as bfee Hbfee. lstep H as total Htot.
  lstep H as tc Htc. lstep H as ft Hft. lstep H as u5 Hu5. lstep H as u6 Hu6.
  rewrite (ct_of_denom_precision _ _ _ Hict Hct) in Hq. pose proof (posfixed_spec _ _ Hq) as (_ & Hqok & Hqpos).
  exists o, ba, ct, q, mk, bid, subtotal, rate, bfee, total, tc, ft.
  split; [exact Ho|]. split.
  { apply negb_true_iff, N.eqb_neq in Hu1. congruence. }
  split.
  { intros Hd. rewrite Hd in Hu2. cbn in Hu2. apply negb_true_iff, negb_false_iff in Hu2. exact Hu2. }
  split; [exact Hba|]. split; [exact Hct|]. split; [exact Hq|]. split; [exact Hqok|]. split; [exact Hqpos|].
  split; [exact Hmk|]. split; [exact Hbid|]. split; [apply bytes_eqb_eq; exact Hu3|]. split; [apply Z.leb_le; exact Hu4|].
  split; [exact Hsub|]. split; [exact Hrate|]. split; [exact Hbfee|]. split; [exact Htot|]. split; [exact Htc|].
  split; [exact Hft|]. split.
  { destruct (by_max_fee r) as [mf|].
    - destruct (negb (bytes_eqb (c_denom mf) (mk_denom mk))) eqn:Em; [discriminate|].
      apply negb_false_iff, bytes_eqb_eq in Em. apply check_ok' in Hu5. apply Z.leb_le in Hu5. tauto.
    - apply check_ok' in Hu5. apply Z.leb_le in Hu5. exact Hu5. }
  split; [apply Z.leb_le; exact Hu6 | exact H].
Qed.
