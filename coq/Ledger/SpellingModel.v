(* Address spellings, model part (definitions only; the theorems are in Ledger/Spelling.v).

   A bech32 address has two valid spellings, all lower case and all upper case; both decode to the same account.
   The model's messages carry accounts ([addr]).  ValidateBasic of MsgSend, MsgUpdateClassAdmin,
   MsgUpdateProjectAdmin and basket MsgUpdateCurator compares two address STRINGS, and eleven governance handlers
   compare the authority as a string; [deliver_sp] is the transaction rule with the spelling as a parameter,
   [deliver_sp canonical = Step.deliver]. *)
From stdpp Require Import gmap.
From Coq Require Import ZArith NArith List Bool Strings.Byte.
Require Import Regen.Base.Bytes Regen.Base.Calendar Regen.Dec.Dec Regen.Ids.Ids.
Require Import Regen.Ledger.Types Regen.Ledger.Msgs Regen.Ledger.Orm Regen.Ledger.BaseMsgs
               Regen.Ledger.BasketMsgs Regen.Ledger.MarketMsgs Regen.Ledger.Step.
Import ListNotations.
Local Open Scope Z_scope.

(* ------------------------------------------------------------------ *)
(* the spelling of a message                                           *)
(* ------------------------------------------------------------------ *)

Record spelling := {
  sp_pair_identical : bool;       (* the two address strings ValidateBasic compares are byte-identical
                                     (meaningful only when they name the same account) *)
  sp_authority_canonical : bool   (* the authority string is the canonical lower-case spelling *)
}.

Definition canonical : spelling := {| sp_pair_identical := true; sp_authority_canonical := true |}.

(* the two compared address fields name the same account *)
Definition pair_equal (m : msg) : bool :=
  match m with
  | MSend a c _ | MUpdateClassAdmin a _ c | MUpdateProjectAdmin a _ c | MUpdateCurator a _ c => (a =? c)%N
  | _ => false
  end.

(* ValidateBasic without the comparison of the two address strings *)
Definition validate_basic_rest (m : msg) : bool :=
  match m with
  | MSend _ _ cs => nonempty_list cs && forallb vb_send_credits cs
  | MUpdateClassAdmin _ class_id _ => nonempty class_id && validate_class_id class_id
  | MUpdateProjectAdmin _ project_id _ => nonempty project_id && validate_project_id project_id
  | MUpdateCurator _ denom _ => nonempty denom && validate_basket_denom denom
  | _ => validate_basic m
  end.

(* ValidateBasic on the strings: two different spellings of one account are different strings *)
Definition validate_basic_sp (sp : spelling) (m : msg) : bool :=
  if pair_equal m && negb (sp_pair_identical sp) then validate_basic_rest m else validate_basic m.

(* handlers that compare the authority as a string *)
Definition string_authority (m : msg) : bool :=
  match m with
  | MAddCreditType _ _ _ _ _ | MSetClassCreatorAllowlist _ _ | MAddClassCreator _ _ | MRemoveClassCreator _ _
  | MUpdateClassFee _ _ | MAddAllowedBridgeChain _ _ | MRemoveAllowedBridgeChain _ _
  | MUpdateBasketFee _ _ | MUpdateDateCriteria _ _ _
  | MAddAllowedDenom _ _ _ _ | MRemoveAllowedDenom _ _ => true
  | _ => false
  end.

Definition handle_sp (sp : spelling) (e : env) (s : state) (m : msg) : hres :=
  if string_authority m && negb (sp_authority_canonical sp) then LErr LUnauthorized else handle e s m.

Definition deliver_sp (sp : spelling) (e : env) (s : state) (m : msg) : state * outcome :=
  if validate_basic_sp sp m then
    match handle_sp sp e s m with
    | LOk (s', r, evs) => (s', OOk r evs)
    | LErr err => (s, OFail err)
    end
  else (s, OInvalid).

