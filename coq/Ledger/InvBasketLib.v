(* Library for the basket proofs: the "move" step (one credit movement between an account row and a
   basket row, which is what both Put and Take are made of), bank-keeper effects, map_find, and the
   relation [step_ok] of frame / monotonicity facts that every basket message satisfies. *)
From stdpp Require Import gmap.
From RecordUpdate Require Import RecordSet.
From Coq Require Import ZArith NArith List Bool Lia Strings.Byte.
Require Import Regen.Base.Bytes Regen.Base.Calendar Regen.Dec.Dec.
Require Import Regen.Ledger.Types Regen.Ledger.Msgs Regen.Ledger.Orm Regen.Ledger.BaseMsgs
               Regen.Ledger.BasketMsgs Regen.Ledger.MarketMsgs Regen.Ledger.Step
               Regen.Ledger.Amount Regen.Ledger.MapSum Regen.Ledger.Inv Regen.Ledger.InvTactics.
Import RecordSetNotations.
Local Open Scope Z_scope.

(* ------------------------------------------------------------------ *)
(* small facts                                                         *)
(* ------------------------------------------------------------------ *)

Lemma bytes_eqb_neq x y : x <> y -> bytes_eqb x y = false.
Proof. intros H. destruct (bytes_eqb x y) eqn:E; [|reflexivity]. apply bytes_eqb_eq in E. contradiction. Qed.

Lemma get_balance_Some s a k b : balances s !! (a, k) = Some b -> get_balance s a k = b.
Proof. unfold get_balance. intros ->. reflexivity. Qed.

Lemma get_balance_None s a k : balances s !! (a, k) = None -> get_balance s a k = zero_balance.
Proof. unfold get_balance. intros ->. reflexivity. Qed.

Lemma get_balance_ok s a k : Inv_scale s -> balance_ok (get_balance s a k).
Proof.
  intros (Hb & _). unfold get_balance. destruct (balances s !! (a, k)) as [x|] eqn:E; cbn.
  - eapply Hb; exact E.
  - apply zero_balance_ok.
Qed.

(* the value [sum_map]'s insert lemma subtracts, for the balance table *)
Lemma old_balance_val (g : balance -> Z) s a k :
  g zero_balance = 0 ->
  match balances s !! (a, k) with Some v => g v | None => 0 end = g (get_balance s a k).
Proof. intros Hz. unfold get_balance. destruct (balances s !! (a, k)); cbn; congruence. Qed.

(* ------------------------------------------------------------------ *)
(* basket rows: option-valued writes                                   *)
(* ------------------------------------------------------------------ *)

Definition write_row (id : N) (d : bytes) (r : option basket_balance)
    (m : gmap (N * bytes) basket_balance) : gmap (N * bytes) basket_balance :=
  match r with Some x => <[(id, d) := x]> m | None => delete (id, d) m end.

Definition row_units (r : option basket_balance) : Z :=
  match r with Some x => U (bb_balance x) | None => 0 end.

Lemma lookup_write_row id d r m k :
  write_row id d r m !! k = if decide (k = (id, d)) then r else m !! k.
Proof.
  unfold write_row. destruct (decide (k = (id, d))) as [->|Hne]; destruct r.
  - apply lookup_insert.
  - apply lookup_delete.
  - apply lookup_insert_ne. congruence.
  - apply lookup_delete_ne. congruence.
Qed.

Lemma basket_total_insert id' m id dn v :
  basket_total id' (<[(id, dn) := v]> m) =
  basket_total id' m
  - (if (id =? id')%N then row_units (m !! (id, dn)) else 0)
  + (if (id =? id')%N then U (bb_balance v) else 0).
Proof.
  unfold basket_total. rewrite sum_map_insert. unfold old_val, row_units. cbn [fst].
  destruct (m !! (id, dn)); destruct (id =? id')%N; lia.
Qed.

Lemma basket_total_delete id' m id dn :
  basket_total id' (delete (id, dn) m) =
  basket_total id' m - (if (id =? id')%N then row_units (m !! (id, dn)) else 0).
Proof.
  unfold basket_total. rewrite sum_map_delete. unfold old_val, row_units. cbn [fst].
  destruct (m !! (id, dn)); destruct (id =? id')%N; lia.
Qed.

Lemma basket_total_write id' m id dn r :
  basket_total id' (write_row id dn r m) =
  basket_total id' m + (if (id =? id')%N then row_units r - row_units (m !! (id, dn)) else 0).
Proof.
  unfold write_row. destruct r.
  - rewrite basket_total_insert. cbn [row_units]. destruct (id =? id')%N; lia.
  - rewrite basket_total_delete. cbn [row_units]. destruct (id =? id')%N; lia.
Qed.

Lemma bb_sum_write d0 m id dn r :
  bb_sum d0 (write_row id dn r m) =
  bb_sum d0 m + (if bytes_eqb dn d0 then row_units r - row_units (m !! (id, dn)) else 0).
Proof.
  unfold write_row, row_units. destruct r.
  - rewrite bb_sum_insert. destruct (bytes_eqb dn d0); destruct (m !! (id, dn)); lia.
  - rewrite bb_sum_delete. destruct (bytes_eqb dn d0); destruct (m !! (id, dn)); lia.
Qed.

Lemma basket_total_nonneg s id : Inv_scale s -> 0 <= basket_total id (basket_balances s).
Proof.
  intros (_ & _ & Hbb & _). unfold basket_total. apply sum_map_nonneg.
  intros k v Hk. destruct (k.1 =? id)%N; [|lia]. destruct (Hbb _ _ Hk) as [_ Hp]. lia.
Qed.

Lemma basket_total_ge_row s id d bb : Inv_scale s ->
  basket_balances s !! (id, d) = Some bb -> U (bb_balance bb) <= basket_total id (basket_balances s).
Proof.
  intros (_ & _ & Hbb & _) Hk. unfold basket_total.
  pose proof (sum_map_ge_entry (fun (k : N * bytes) v => if (k.1 =? id)%N then U (bb_balance v) else 0)
                (basket_balances s) (id, d) bb) as H.
  cbn [fst] in H. rewrite N.eqb_refl in H. apply H; [|exact Hk].
  intros k v Hkv. destruct (k.1 =? id)%N; [|lia]. destruct (Hbb _ _ Hkv) as [_ Hp]. lia.
Qed.

(* ------------------------------------------------------------------ *)
(* the move step                                                       *)
(* ------------------------------------------------------------------ *)

Definition move_to (s : state) (owner : addr) (bkey id : N) (d : bytes)
    (ub' : balance) (su' : supply) (row' : option basket_balance) : state :=
  s <| balances := <[(owner, bkey) := ub']> (balances s) |>
    <| supplies := <[bkey := su']> (supplies s) |>
    <| basket_balances := write_row id d row' (basket_balances s) |>.

Record move_ok (s : state) (owner : addr) (bkey id : N) (d : bytes)
    (ub' : balance) (su su' : supply) (row' : option basket_balance) : Prop := {
  mv_batch : exists ba, batches s !! bkey = Some ba /\ ba_denom ba = d;
  mv_basket : is_Some (baskets s !! id);
  mv_su : supplies s !! bkey = Some su;
  mv_ub_ok : balance_ok ub';
  mv_su_ok : supply_ok su';
  mv_row_ok : forall r, row' = Some r -> stored_ok (bb_balance r) /\ 0 < U (bb_balance r);
  mv_esc : bl_escrowed ub' = bl_escrowed (get_balance s owner bkey);
  mv_ret : U (bl_retired (get_balance s owner bkey)) <= U (bl_retired ub');
  mv_canc : su_cancelled su' = su_cancelled su;
  mv_sut : U (su_tradable su') = U (su_tradable su)
           + (U (bl_tradable ub') - U (bl_tradable (get_balance s owner bkey)))
           + (row_units row' - row_units (basket_balances s !! (id, d)));
  mv_sur : U (su_retired su') = U (su_retired su)
           + (U (bl_retired ub') - U (bl_retired (get_balance s owner bkey)));
  mv_zero : (U (bl_tradable ub') - U (bl_tradable (get_balance s owner bkey)))
            + (row_units row' - row_units (basket_balances s !! (id, d)))
            + (U (bl_retired ub') - U (bl_retired (get_balance s owner bkey))) = 0
}.

Section move.
  Variables (s : state) (owner : addr) (bkey id : N) (d : bytes)
            (ub' : balance) (su su' : supply) (row' : option basket_balance).
  Hypothesis Hcore : Inv_core s.
  Hypothesis Hmv : move_ok s owner bkey id d ub' su su' row'.

  Let s' := move_to s owner bkey id d ub' su' row'.

  Lemma move_scale : Inv_scale s'.
  Proof.
    destruct Hcore as (_ & (Hb & Hs & Hbb & Ho) & _). destruct Hmv.
    unfold s', move_to. split; [|split; [|split]]; cbn.
    - intros k b Hk. apply lookup_insert_Some in Hk. destruct Hk as [[_ <-]|[_ Hk]]; [assumption | eapply Hb; exact Hk].
    - intros k x Hk. apply lookup_insert_Some in Hk. destruct Hk as [[_ <-]|[_ Hk]]; [assumption | eapply Hs; exact Hk].
    - intros k x Hk. rewrite lookup_write_row in Hk. destruct (decide (k = (id, d))) as [->|Hne].
      + apply mv_row_ok0. exact Hk.
      + eapply Hbb; exact Hk.
    - exact Ho.
  Qed.

  Lemma move_keys : Inv_keys s'.
  Proof.
    destruct Hcore as (_ & _ & (K1 & K2 & K3 & K4 & K5 & K6 & K7 & K8) & _). destruct Hmv.
    destruct mv_batch0 as (ba & Hba & Hd).
    unfold s', move_to.
    split; [exact K1|]. split; [|split; [|split; [|split; [exact K5|split; [exact K6|split; [exact K7|exact K8]]]]]]; cbn.
    - intros k. destruct (decide (k = bkey)) as [->|Hne].
      + rewrite lookup_insert. split; eauto.
      + rewrite lookup_insert_ne by congruence. apply K2.
    - intros a k b Hk. apply lookup_insert_Some in Hk. destruct Hk as [[Hk _]|[_ Hk]].
      + inversion Hk; subst. eauto.
      + eapply K3; exact Hk.
    - intros id0 d0 bb0 H. rewrite lookup_write_row in H. destruct (decide ((id0, d0) = (id, d))) as [Heq|Hne].
      + inversion Heq; subst. split; eauto.
      + eapply K4; exact H.
  Qed.

  Lemma move_cons : Inv_cons s'.
  Proof.
    destruct Hcore as (_ & _ & (K1 & _) & Hcons & _). destruct Hmv.
    destruct mv_batch0 as (ba & Hba & Hd).
    intros bk ba' su0 Hba' Hsu0. unfold s', move_to in Hba', Hsu0 |- *. cbn in Hba', Hsu0 |- *.
    rewrite !bal_sum_insert, bb_sum_write.
    rewrite (old_balance_val tradable_escrowed) by reflexivity.
    rewrite (old_balance_val retired_of) by reflexivity.
    destruct (decide (bkey = bk)) as [->|Hne].
    - rewrite lookup_insert in Hsu0. inversion Hsu0; subst su0; clear Hsu0.
      rewrite Hba in Hba'. inversion Hba'; subst ba'; clear Hba'.
      destruct (Hcons _ _ _ Hba mv_su0) as [Hc1 Hc2].
      rewrite Hd in *. rewrite N.eqb_refl, bytes_eqb_refl.
      unfold tradable_escrowed, retired_of in *. rewrite mv_esc0. split; lia.
    - rewrite lookup_insert_ne in Hsu0 by exact Hne.
      assert (Eb : (bkey =? bk)%N = false) by (apply N.eqb_neq; exact Hne). rewrite Eb.
      rewrite bytes_eqb_neq.
      + destruct (Hcons _ _ _ Hba' Hsu0) as [Hc1 Hc2]. split; lia.
      + intros Heq. apply Hne. eapply K1; [exact Hba | exact Hba' | congruence].
  Qed.

  Lemma move_escrow : Inv_escrow s'.
  Proof.
    destruct Hcore as (_ & _ & _ & _ & He). destruct Hmv.
    intros a bk. unfold s', move_to, get_balance. cbn.
    destruct (decide ((owner, bkey) = (a, bk))) as [Heq|Hne].
    - inversion Heq; subst. rewrite lookup_insert. cbn. rewrite mv_esc0. apply He.
    - rewrite lookup_insert_ne by exact Hne. apply He.
  Qed.

  Lemma move_core : Inv_core s'.
  Proof.
    split; [|split; [|split; [|split]]].
    - destruct Hcore as (Hct & _). exact Hct.
    - apply move_scale.
    - apply move_keys.
    - apply move_cons.
    - apply move_escrow.
  Qed.
End move.

(* ------------------------------------------------------------------ *)
(* what a move leaves alone                                            *)
(* ------------------------------------------------------------------ *)

Definition supply_total (su : supply) : Z := U (su_tradable su) + U (su_retired su) + U (su_cancelled su).

(* frame and monotonicity facts shared by every basket message (C02, C04 and the frames) *)
Record step_ok (s s' : state) : Prop := {
  so_orders : sell_orders s' = sell_orders s;
  so_order_seq : sell_order_seq_id s' = sell_order_seq_id s;
  so_batches : batches s' = batches s;
  so_batch_seq : batch_seq_id s' = batch_seq_id s;
  so_classes : classes s' = classes s;
  so_projects : projects s' = projects s;
  so_cts : credit_types s' = credit_types s;
  so_esc : forall a k, bl_escrowed (get_balance s' a k) = bl_escrowed (get_balance s a k);
  so_ret : forall a k, U (bl_retired (get_balance s a k)) <= U (bl_retired (get_balance s' a k));
  so_sup : forall k su, supplies s !! k = Some su ->
             exists su', supplies s' !! k = Some su' /\
                         U (su_retired su) <= U (su_retired su') /\
                         U (su_cancelled su) <= U (su_cancelled su') /\
                         supply_total su' = supply_total su;
  so_sup_dom : forall k, supplies s' !! k = None <-> supplies s !! k = None
}.

Lemma step_ok_refl s : step_ok s s.
Proof.
  split; try reflexivity; try (intros; lia).
  intros k su H. exists su. repeat split; try assumption; lia.
Qed.

Lemma step_ok_trans s1 s2 s3 : step_ok s1 s2 -> step_ok s2 s3 -> step_ok s1 s3.
Proof.
  intros A B. split.
  - rewrite (so_orders _ _ B). apply (so_orders _ _ A).
  - rewrite (so_order_seq _ _ B). apply (so_order_seq _ _ A).
  - rewrite (so_batches _ _ B). apply (so_batches _ _ A).
  - rewrite (so_batch_seq _ _ B). apply (so_batch_seq _ _ A).
  - rewrite (so_classes _ _ B). apply (so_classes _ _ A).
  - rewrite (so_projects _ _ B). apply (so_projects _ _ A).
  - rewrite (so_cts _ _ B). apply (so_cts _ _ A).
  - intros a k. rewrite (so_esc _ _ B). apply (so_esc _ _ A).
  - intros a k. pose proof (so_ret _ _ A a k). pose proof (so_ret _ _ B a k). lia.
  - intros k su H. destruct (so_sup _ _ A _ _ H) as (su2 & H2 & R2 & C2 & T2).
    destruct (so_sup _ _ B _ _ H2) as (su3 & H3 & R3 & C3 & T3).
    exists su3. repeat split; [exact H3 | lia | lia | lia].
  - intros k. rewrite (so_sup_dom _ _ B). apply (so_sup_dom _ _ A).
Qed.

Lemma move_to_get_balance s owner bkey id d ub' su' row' a k :
  get_balance (move_to s owner bkey id d ub' su' row') a k =
  if decide ((a, k) = (owner, bkey)) then ub' else get_balance s a k.
Proof.
  unfold move_to, get_balance. cbn. destruct (decide ((a, k) = (owner, bkey))) as [->|Hne].
  - rewrite lookup_insert. reflexivity.
  - rewrite lookup_insert_ne by congruence. reflexivity.
Qed.

Lemma move_step_ok s owner bkey id d ub' su su' row' :
  move_ok s owner bkey id d ub' su su' row' -> step_ok s (move_to s owner bkey id d ub' su' row').
Proof.
  intros Hmv. destruct Hmv. split; try reflexivity.
  - intros a k. rewrite move_to_get_balance. destruct (decide _) as [Heq|]; [|reflexivity].
    inversion Heq; subst. assumption.
  - intros a k. rewrite move_to_get_balance. destruct (decide _) as [Heq|]; [|lia].
    inversion Heq; subst. assumption.
  - intros k su0 H. unfold move_to. cbn. destruct (decide (k = bkey)) as [->|Hne].
    + rewrite lookup_insert. rewrite mv_su0 in H. inversion H; subst su0; clear H.
      exists su'. unfold supply_total. rewrite mv_canc0. repeat split; lia.
    + rewrite lookup_insert_ne by congruence. exists su0. repeat split; try assumption; lia.
  - intros k. unfold move_to. cbn. destruct (decide (k = bkey)) as [->|Hne].
    + rewrite lookup_insert, mv_su0. split; discriminate.
    + rewrite lookup_insert_ne by congruence. reflexivity.
Qed.

(* ------------------------------------------------------------------ *)
(* bank keeper                                                         *)
(* ------------------------------------------------------------------ *)

Definition bank_only (s s' : state) : Prop :=
  exists bm bs, s' = s <| bank := bm |> <| bank_supply := bs |>.

Lemma bank_only_refl s : bank_only s s.
Proof. exists (bank s), (bank_supply s). destruct s; reflexivity. Qed.

Lemma bank_only_trans s1 s2 s3 : bank_only s1 s2 -> bank_only s2 s3 -> bank_only s1 s3.
Proof. intros (b1 & c1 & ->) (b2 & c2 & ->). exists b2, c2. reflexivity. Qed.

Lemma bank_only_core s s' : bank_only s s' -> Inv_core s -> Inv_core s'.
Proof. intros (bm & bs & ->) H. exact H. Qed.

Lemma bank_only_step_ok s s' : bank_only s s' -> step_ok s s'.
Proof.
  intros (bm & bs & ->). split; try reflexivity.
  intros k su H. exists su. split; [exact H|]. split; [apply Z.le_refl|]. split; [apply Z.le_refl | reflexivity].
Qed.

Lemma bank_only_fields s s' : bank_only s s' ->
  balances s' = balances s /\ supplies s' = supplies s /\ basket_balances s' = basket_balances s /\
  baskets s' = baskets s /\ basket_seq_id s' = basket_seq_id s /\ basket_classes s' = basket_classes s /\
  basket_fee s' = basket_fee s /\ class_fee s' = class_fee s /\ credit_types s' = credit_types s /\
  classes s' = classes s /\ batches s' = batches s.
Proof. intros (bm & bs & ->). repeat split. Qed.

Lemma bank_bal_set_bal a d z s x y :
  bank_bal (set_bank_bal a d z s) x y = if decide ((x, y) = (a, d)) then z else bank_bal s x y.
Proof.
  unfold bank_bal, set_bank_bal. cbn. destruct (decide _) as [->|Hne].
  - rewrite lookup_insert. reflexivity.
  - rewrite lookup_insert_ne by congruence. reflexivity.
Qed.

Lemma bank_sup_set_bal a d z s y : bank_sup (set_bank_bal a d z s) y = bank_sup s y.
Proof. reflexivity. Qed.

Lemma bank_bal_set_sup d z s x y : bank_bal (set_bank_sup d z s) x y = bank_bal s x y.
Proof. reflexivity. Qed.

Lemma bank_sup_set_sup d z s y :
  bank_sup (set_bank_sup d z s) y = if decide (y = d) then z else bank_sup s y.
Proof.
  unfold bank_sup, set_bank_sup. cbn. destruct (decide _) as [->|Hne].
  - rewrite lookup_insert. reflexivity.
  - rewrite lookup_insert_ne by congruence. reflexivity.
Qed.

Lemma set_bank_bal_only a d z s : bank_only s (set_bank_bal a d z s).
Proof. unfold set_bank_bal. exists (<[(a, d) := z]> (bank s)), (bank_supply s). destruct s; reflexivity. Qed.

Lemma set_bank_sup_only d z s : bank_only s (set_bank_sup d z s).
Proof. unfold set_bank_sup. exists (bank s), (<[d := z]> (bank_supply s)). destruct s; reflexivity. Qed.

Definition coin1 (d : bytes) (a : Z) : coin := {| c_denom := d; c_amount := a |}.

(* +a at one key *)
Definition at_key {K} `{EqDecision K} (k0 k : K) (a : Z) : Z := if decide (k = k0) then a else 0.

Lemma coins_valid1 d a : coins_valid (cons (coin1 d a) nil) = true -> 0 < a.
Proof.
  unfold coins_valid. cbn. intros H. apply andb_true_iff in H. destruct H as [H _].
  apply andb_true_iff in H. destruct H as [H _]. apply andb_true_iff in H. destruct H as [_ H].
  apply Z.ltb_lt in H. exact H.
Qed.

Lemma send_coins1 from to d a s s' :
  send_coins from to (cons (coin1 d a) nil) s = LOk s' ->
  bank_only s s' /\ 0 < a /\ a <= bank_bal s from d /\ bank_supply s' = bank_supply s /\
  forall x y, bank_bal s' x y = bank_bal s x y - at_key (from, d) (x, y) a + at_key (to, d) (x, y) a.
Proof.
  unfold send_coins. destruct (negb (coins_valid _)) eqn:Ev; [discriminate|].
  apply negb_false_iff, coins_valid1 in Ev.
  cbn [bank_sub_all lbind]. unfold bank_sub. cbn [c_denom c_amount coin1].
  destruct (bank_bal s from d <? a) eqn:El; [discriminate|]. apply Z.ltb_ge in El.
  cbn [lbind]. intros H. inversion H; subst s'; clear H.
  unfold bank_add_all, bank_add. cbn [fold_left c_denom c_amount coin1].
  split; [|split; [exact Ev|split; [exact El|split; [reflexivity|]]]].
  - eapply bank_only_trans; apply set_bank_bal_only.
  - intros x y. rewrite !bank_bal_set_bal. unfold at_key.
    destruct (decide ((x, y) = (to, d))) as [E1|E1]; [inversion E1; subst x y; clear E1|];
      (destruct (decide (_ = (from, d))) as [E2|E2]; [inversion E2; subst; clear E2|]).
    all: lia.
Qed.

Lemma send_coins_nil from to s s' : send_coins from to nil s = LOk s' -> s' = s.
Proof. unfold send_coins. cbn. intros H; inversion H; reflexivity. Qed.

Lemma mint_coins1 m d a s s' :
  mint_coins m (cons (coin1 d a) nil) s = LOk s' ->
  bank_only s s' /\ 0 < a /\
  (forall x y, bank_bal s' x y = bank_bal s x y + at_key (m, d) (x, y) a) /\
  (forall y, bank_sup s' y = bank_sup s y + at_key d y a).
Proof.
  unfold mint_coins. destruct (negb (coins_valid _)) eqn:Ev; [discriminate|].
  apply negb_false_iff, coins_valid1 in Ev.
  cbn [fold_left c_denom c_amount coin1]. intros H. inversion H; subst s'; clear H.
  split; [|split; [exact Ev|split]].
  - eapply bank_only_trans; [apply set_bank_bal_only | apply set_bank_sup_only].
  - intros x y. rewrite bank_bal_set_sup. unfold bank_add. cbn [c_denom c_amount coin1].
    rewrite bank_bal_set_bal. unfold at_key. destruct (decide _) as [E|E]; [inversion E; subst|]; lia.
  - intros y. rewrite bank_sup_set_sup. unfold at_key, bank_add. rewrite !bank_sup_set_bal.
    destruct (decide _) as [->|E]; lia.
Qed.

Lemma burn_coins1 m d a s s' :
  burn_coins m (cons (coin1 d a) nil) s = LOk s' ->
  bank_only s s' /\ 0 < a /\ a <= bank_bal s m d /\
  (forall x y, bank_bal s' x y = bank_bal s x y - at_key (m, d) (x, y) a) /\
  (forall y, bank_sup s' y = bank_sup s y - at_key d y a).
Proof.
  unfold burn_coins. destruct (negb (coins_valid _)) eqn:Ev; [discriminate|].
  apply negb_false_iff, coins_valid1 in Ev.
  cbn [bank_sub_all lbind]. unfold bank_sub. cbn [c_denom c_amount coin1].
  destruct (bank_bal s m d <? a) eqn:El; [discriminate|]. apply Z.ltb_ge in El.
  cbn [lbind fold_left c_denom c_amount coin1]. intros H. inversion H; subst s'; clear H.
  split; [|split; [exact Ev|split; [exact El|split]]].
  - eapply bank_only_trans; [apply set_bank_bal_only | apply set_bank_sup_only].
  - intros x y. rewrite bank_bal_set_sup, bank_bal_set_bal. unfold at_key.
    destruct (decide _) as [E|E]; [inversion E; subst|]; lia.
  - intros y. rewrite bank_sup_set_sup, !bank_sup_set_bal. unfold at_key.
    destruct (decide _) as [->|E]; lia.
Qed.

Lemma coin_eta c : c = coin1 (c_denom c) (c_amount c).
Proof. destruct c; reflexivity. Qed.

(* the fee block: moves the fee to the module and burns it *)
Lemma charge_fee_spec required offered payer module s s' :
  charge_fee required offered payer module s = LOk s' ->
  bank_only s s' /\
  match required with
  | None => s' = s
  | Some req =>
      if 0 <? c_amount req then
        (forall x y, bank_bal s' x y = bank_bal s x y - at_key (payer, c_denom req) (x, y) (c_amount req)) /\
        (forall y, bank_sup s' y = bank_sup s y - at_key (c_denom req) y (c_amount req))
      else s' = s      (* a stored zero fee charges nothing *)
  end.
Proof.
  unfold charge_fee. destruct required as [req|].
  2:{ intros H; inversion H; subst. split; [apply bank_only_refl | reflexivity]. }
  destruct (0 <? c_amount req) eqn:Epos; cbn [negb].
  2:{ intros H; inversion H; subst. split; [apply bank_only_refl | reflexivity]. }
  destruct offered as [off|]; [|discriminate].
  destruct (negb (bytes_eqb _ _)); [discriminate|].
  destruct (negb (coin_gte off req)); [discriminate|].
  destruct (bank_bal s payer (c_denom req) <? c_amount req); [discriminate|].
  intros H. lstep H as s1 Hs1. rewrite (coin_eta req) in Hs1, H.
  apply send_coins1 in Hs1. destruct Hs1 as (B1 & Hpos & Hle & Hsup1 & Hbal1).
  apply burn_coins1 in H. destruct H as (B2 & _ & _ & Hbal2 & Hsup2).
  split; [eapply bank_only_trans; eassumption|]. cbn [c_denom c_amount coin1].
  split.
  - intros x y. rewrite Hbal2, Hbal1. lia.
  - intros y. rewrite Hsup2. f_equal. unfold bank_sup. rewrite Hsup1. reflexivity.
Qed.

(* ------------------------------------------------------------------ *)
(* map_find                                                            *)
(* ------------------------------------------------------------------ *)

Lemma filter_nil_all {A} (f : A -> bool) l : List.filter f l = nil -> forall x, In x l -> f x = false.
Proof.
  induction l as [|a l IH]; intros H x Hx; [destruct Hx|]. cbn in H.
  destruct (f a) eqn:E; [discriminate|]. destruct Hx as [<-|Hx]; [exact E | apply IH; assumption].
Qed.

Lemma map_find_None {K V} `{Countable K} (Pb : K -> V -> bool) (m : gmap K V) :
  map_find Pb m = None -> forall k v, m !! k = Some v -> Pb k v = false.
Proof.
  unfold map_find. intros Hh k v Hk.
  destruct (List.filter _ _) as [|x l] eqn:E; [|discriminate].
  apply (filter_nil_all _ _ E (k, v)). apply elem_of_list_In, elem_of_map_to_list. exact Hk.
Qed.

Lemma map_exists_false {K V} `{Countable K} (Pb : K -> V -> bool) (m : gmap K V) :
  map_exists Pb m = false -> forall k v, m !! k = Some v -> Pb k v = false.
Proof.
  unfold map_exists. destruct (map_find Pb m) eqn:E; [discriminate|]. intros _. apply map_find_None. exact E.
Qed.

Lemma map_find_unique {K V} `{Countable K} (Pb : K -> V -> bool) (m : gmap K V) k v :
  m !! k = Some v -> Pb k v = true ->
  (forall k' v', m !! k' = Some v' -> Pb k' v' = true -> k' = k) ->
  map_find Pb m = Some (k, v).
Proof.
  intros Hk Hp Hu. destruct (map_find Pb m) as [[k' v']|] eqn:E.
  - apply map_find_Some in E. destruct E as [E1 E2]. pose proof (Hu _ _ E1 E2). subst k'. congruence.
  - pose proof (map_find_None _ _ E _ _ Hk). congruence.
Qed.

Lemma basket_by_denom_Some s d id k :
  basket_by_denom s d = Some (id, k) -> baskets s !! id = Some k /\ bk_denom k = d.
Proof.
  unfold basket_by_denom. intros Hf. apply map_find_Some in Hf. destruct Hf as [H1 H2].
  split; [exact H1|]. apply bytes_eqb_eq. exact H2.
Qed.

Lemma class_by_id_Some s c k cl :
  class_by_id s c = Some (k, cl) -> classes s !! k = Some cl /\ cl_id cl = c.
Proof.
  unfold class_by_id. intros Hf. apply map_find_Some in Hf. destruct Hf as [H1 H2].
  split; [exact H1|]. apply bytes_eqb_eq. exact H2.
Qed.

Lemma batch_by_denom_unique s d k ba : Inv_keys s ->
  batches s !! k = Some ba -> ba_denom ba = d -> batch_by_denom s d = Some (k, ba).
Proof.
  intros (K1 & _) Hk Hd. unfold batch_by_denom. apply map_find_unique.
  - exact Hk.
  - apply bytes_eqb_eq. exact Hd.
  - intros k' v' Hk' Hp. apply bytes_eqb_eq in Hp. eapply K1; [exact Hk' | exact Hk | congruence].
Qed.

(* ------------------------------------------------------------------ *)
(* C05 with an offset (the Take loop runs with the tokens already burnt) *)
(* ------------------------------------------------------------------ *)

Definition backing_off (s : state) (id : N) (off : Z) : Prop :=
  basket_denoms_unique s /\
  forall id' k, baskets s !! id' = Some k ->
    bank_sup s (bk_denom k) + (if (id' =? id)%N then off else 0) = basket_total id' (basket_balances s).

Lemma backing_off_0 s id : Inv_basket s <-> backing_off s id 0.
Proof.
  unfold Inv_basket, backing_off. split; intros [H1 H2]; (split; [exact H1|]); intros id' k Hk;
    specialize (H2 id' k Hk); destruct (id' =? id)%N; lia.
Qed.

(* ------------------------------------------------------------------ *)
(* more frames of a move; released / deposited amounts per denom       *)
(* ------------------------------------------------------------------ *)

Record move_frame (s s' : state) : Prop := {
  mf_baskets : baskets s' = baskets s;
  mf_basket_seq : basket_seq_id s' = basket_seq_id s;
  mf_basket_classes : basket_classes s' = basket_classes s;
  mf_basket_fee : basket_fee s' = basket_fee s;
  mf_class_fee : class_fee s' = class_fee s;
  mf_bank : bank s' = bank s;
  mf_bank_supply : bank_supply s' = bank_supply s
}.

Lemma move_frame_refl s : move_frame s s.
Proof. split; reflexivity. Qed.

Lemma move_frame_trans s1 s2 s3 : move_frame s1 s2 -> move_frame s2 s3 -> move_frame s1 s3.
Proof. intros A B. destruct A, B. split; congruence. Qed.

Lemma move_to_frame s owner bkey id d ub' su' row' : move_frame s (move_to s owner bkey id d ub' su' row').
Proof. split; reflexivity. Qed.

Lemma move_to_same_supply s owner bkey id d ub' su row' :
  supplies s !! bkey = Some su ->
  move_to s owner bkey id d ub' su row' =
  s <| balances := <[(owner, bkey) := ub']> (balances s) |>
    <| basket_balances := write_row id d row' (basket_balances s) |>.
Proof. intros H. unfold move_to. rewrite (insert_id _ _ _ H). destruct s; reflexivity. Qed.

Fixpoint units_for (d : bytes) (l : list (bytes * dec)) : Z :=
  match l with
  | nil => 0
  | x :: l' => (if bytes_eqb x.1 d then U x.2 else 0) + units_for d l'
  end.
Fixpoint total_units (l : list (bytes * dec)) : Z :=
  match l with nil => 0 | x :: l' => U x.2 + total_units l' end.

Lemma units_for_app d l1 l2 : units_for d (l1 ++ l2) = units_for d l1 + units_for d l2.
Proof. induction l1 as [|x l IH]; cbn [units_for app]; [reflexivity|]. rewrite IH. lia. Qed.

Lemma total_units_app l1 l2 : total_units (l1 ++ l2) = total_units l1 + total_units l2.
Proof. induction l1 as [|x l IH]; cbn [total_units app]; [reflexivity|]. rewrite IH. lia. Qed.

Lemma can_basket_accept_frame e s s' id k ba :
  classes s' = classes s -> basket_classes s' = basket_classes s ->
  can_basket_accept e s' id k ba = can_basket_accept e s id k ba.
Proof. intros H1 H2. unfold can_basket_accept, class_by_id. rewrite H1, H2. reflexivity. Qed.

Lemma batch_by_denom_frame s s' d : batches s' = batches s -> batch_by_denom s' d = batch_by_denom s d.
Proof. intros H. unfold batch_by_denom. rewrite H. reflexivity. Qed.
