(* Marketplace proofs: UpdateSellOrders. *)
From stdpp Require Import gmap.
From RecordUpdate Require Import RecordSet.
From Coq Require Import ZArith NArith List Bool Lia Strings.Byte.
Require Import Regen.Base.Bytes Regen.Base.Calendar Regen.Dec.Dec Regen.Dec.DecIface.
Require Import Regen.Ledger.Types Regen.Ledger.Msgs Regen.Ledger.Orm Regen.Ledger.BaseMsgs
               Regen.Ledger.BasketMsgs Regen.Ledger.MarketMsgs Regen.Ledger.Step
               Regen.Ledger.Amount Regen.Ledger.MapSum Regen.Ledger.Inv Regen.Ledger.InvTactics
               Regen.Ledger.InvMarketLib Regen.Ledger.InvMarketPrim Regen.Ledger.InvMarketOrders
               Regen.Ledger.InvMarketSell Regen.Ledger.InvMarketPrune.
Import ListNotations RecordSetNotations.
Local Open Scope Z_scope.
Local Open Scope lres_scope.

(* the two inner phases of update_one, named so that they can be specified separately *)
Definition upd_ask (abbrev : bytes) (o : sell_order) (ask : option coin) (s : state) : lres (state * N * Z) :=
  match ask with
  | None => LOk (s, so_market_id o, so_ask_amount o)
  | Some ask =>
      mk <- from_option LOrm (markets s !! so_market_id o) ;;
      _ <- check (is_denom_allowed s (c_denom ask)) LInvalid ;;
      if bytes_eqb (mk_denom mk) (c_denom ask) then LOk (s, so_market_id o, c_amount ask)
      else let '(s, id) := get_or_create_market abbrev (c_denom ask) s in LOk (s, id, c_amount ask)
  end.

Definition upd_qty (p : Z) (o : sell_order) (uq : bytes) (s : state) : lres (state * bytes) :=
  match uq with
  | [] => LOk (s, so_quantity o)
  | _ =>
      nq <- lift (posfixed p uq) ;;
      cq <- lift (parse (so_quantity o)) ;;
      match cmp nq cq with
      | Gt => d <- lift (sub nq cq) ;;
              s <- escrow_credits (so_seller o) (so_batch_key o) d s ;;
              LOk (s, to_string nq)
      | Lt => d <- lift (sub cq nq) ;;
              s <- unescrow_credits (so_seller o) (so_batch_key o) (to_string d) s ;;
              LOk (s, to_string nq)
      | Eq => LOk (s, so_quantity o)
      end
  end.

Lemma upd_ask_spec abbrev o ask s s1 mid amt :
  upd_ask abbrev o ask s = LOk (s1, mid, amt) ->
  s1 = s <| markets := markets s1 |> <| market_seq_id := market_seq_id s1 |> /\
  (Inv_orders s -> vb_price ask = true ->
   forall id ba ct, sell_orders s !! id = Some o -> batches s !! so_batch_key o = Some ba ->
     credit_type_abbrev_of_denom s (ba_denom ba) = LOk (abbrev, ct) ->
     0 < amt /\ (exists mk, markets s1 !! mid = Some mk /\ mk_ct mk = abbrev) /\
     markets_grow s s1 /\ (forall k, is_Some (markets s1 !! k) -> (k <= market_seq_id s1)%N)).
Proof.
  unfold upd_ask. destruct ask as [ask|].
  2:{ intros H. inversion H; subst. split; [destruct s1; reflexivity|]. intros _ Hvb. discriminate Hvb. }
  intros H. lstep H as mk Hmk. lstep H as u1 Hu1.
  assert (Hold : Inv_orders s -> forall id ba ct, sell_orders s !! id = Some o ->
            batches s !! so_batch_key o = Some ba -> credit_type_abbrev_of_denom s (ba_denom ba) = LOk (abbrev, ct) ->
            mk_ct mk = abbrev).
  { intros [I1 _] id ba ct Hid Hba Hct. destruct (I1 _ _ Hid) as (_ & mk' & ba' & ct' & M1 & M2 & M3).
    rewrite Hmk in M1. inversion M1; subst mk'. rewrite Hba in M2. inversion M2; subst ba'.
    rewrite Hct in M3. inversion M3. reflexivity. }
  destruct (bytes_eqb (mk_denom mk) (c_denom ask)).
  - inversion H; subst. split; [destruct s1; reflexivity|].
    intros Hio Hvb id ba ct Hid Hba Hct. split; [eapply vb_price_pos; [exact Hvb | reflexivity]|].
    split; [exists mk; split; [exact Hmk | eapply Hold; eassumption]|].
    split; [apply markets_grow_refl | apply Hio].
  - destruct (get_or_create_market abbrev (c_denom ask) s) as [s1' id'] eqn:Eg. inversion H; subst.
    destruct (gocm_spec _ _ _ _ _ Eg) as (G1 & (mk1 & G2 & G3 & G4) & G5). split; [exact G1|].
    intros Hio Hvb id ba ct Hid Hba Hct. split; [eapply vb_price_pos; [exact Hvb | reflexivity]|].
    split; [exists mk1; tauto|]. apply G5. apply Hio.
Qed.

Lemma esc_off_same s f g : esc_off s f -> (forall a k, f a k = g a k) -> esc_off s g.
Proof. intros H Hfg a k. rewrite (H a k), Hfg. reflexivity. Qed.

Lemma upd_qty_spec o uq s s2 quantity cq :
  Inv_sk s -> Inv_cons s -> Inv_escrow s ->
  parse (so_quantity o) = Ok cq -> in_ok cq -> 0 < U cq ->
  U cq <= U (bl_escrowed (get_balance s (so_seller o) (so_batch_key o))) ->
  U (bl_tradable (get_balance s (so_seller o) (so_batch_key o))) +
    U (bl_escrowed (get_balance s (so_seller o) (so_batch_key o))) < BOUND ->
  upd_qty P o uq s = LOk (s2, quantity) ->
  exists nq, parse quantity = Ok nq /\ in_ok nq /\ 0 < U nq /\ (dexp cq <= 0 -> dexp nq <= 0) /\
    Inv_sk s2 /\ Inv_cons s2 /\
    esc_off s2 (bump2 (so_seller o) (so_batch_key o) (U nq - U cq) (fun _ _ => 0)) /\
    mframe s s2 /\ bal_only s s2.
Proof.
  intros Hsk Hcons Hesc Hp Hcq Hcqpos HcqE Hte H.
  assert (Hsame : esc_off s (bump2 (so_seller o) (so_batch_key o) (U cq - U cq) (fun _ _ => 0))).
  { eapply esc_off_same; [apply esc_off_intro; exact Hesc|]. intros a k. unfold bump2. destruct (decide _); lia. }
  pose proof Hsk as (_ & Hscale & _).
  pose proof (get_balance_ok s (so_seller o) (so_batch_key o) Hscale) as (Hgt & _ & Hge).
  pose proof (in_ok_U_nonneg _ (stored_in_ok _ Hgt)) as HT0. pose proof (in_ok_U_nonneg _ (stored_in_ok _ Hge)) as HE0.
  unfold upd_qty in H. destruct uq as [|c0 uq0] eqn:Euq.
  { inversion H; subst. exists cq. repeat (split; [eassumption || tauto|]). split; [apply mframe_refl | apply bal_only_refl]. }
  rewrite <- Euq in H. clear Euq. remember uq as uqs eqn:Euqs. clear Euqs.
  lstep H as nq Hnq. rewrite Hp in H. cbn [lift lbind] in H.
  apply posfixed_spec in Hnq. destruct Hnq as (Hnp & Hnok & Hnpos).
  rewrite (cmp_U nq cq Hnok Hcq) in H.
  destruct (Z.compare_spec (U nq) (U cq)) as [Heq|Hlt|Hgt'].
  - (* same amount: the stored string is kept *)
    inversion H; subst. exists cq. rewrite Heq in *. repeat (split; [eassumption || tauto|]).
    split; [apply mframe_refl | apply bal_only_refl].
  - (* decrease *)
    lstep H as d Hd. lstep H as s1 Hs1. inversion H; subst s2 quantity; clear H.
    destruct (sub_units cq nq d Hcq Hnok Hd) as (_ & _ & HUd & Hdok). specialize (Hdok ltac:(lia)).
    destruct (reparse_units d Hdok ltac:(lia)) as (d' & Hdp & Hd'ok & HUd' & _).
    destruct (reparse_units nq Hnok ltac:(lia)) as (nq' & Hnq'p & Hnq'ok & HUnq' & Hnq'e).
    destruct (unescrow_spec _ _ _ _ _ _ Hscale Hdp Hd'ok Hs1) as (b & b' & Hb & Hw & Hok & Ht & He & Hr).
    destruct (move_row _ _ _ _ (U d') _ _ Hsk Hcons Hesc Hb Hw Hok Ht He Hr) as (Hsk1 & Hcons1 & Hesc1 & Hmf1).
    exists nq'. split; [exact Hnq'p|]. split; [exact Hnq'ok|]. split; [lia|]. split; [intros _; exact Hnq'e|].
    split; [exact Hsk1|]. split; [exact Hcons1|]. split; [|split; [exact Hmf1 | eapply bal_only_wr_bal; exact Hw]].
    eapply esc_off_same; [exact Hesc1|]. intros a k. unfold bump2. destruct (decide _); lia.
  - (* increase *)
    lstep H as d Hd. lstep H as s1 Hs1. inversion H; subst s2 quantity; clear H.
    destruct (sub_units nq cq d Hnok Hcq Hd) as (_ & _ & HUd & Hdok). specialize (Hdok ltac:(lia)).
    destruct (escrow_spec _ _ _ _ _ Hscale Hdok Hs1) as (b & b' & Hb & Hw & Hok & Ht & He & Hr).
    assert (Hnb : U nq < BOUND).
    { rewrite (get_balance_Some _ _ _ _ Hb) in *. destruct Hok as (Hok1 & _ & _).
      pose proof (in_ok_U_nonneg _ (stored_in_ok _ Hok1)). lia. }
    destruct (reparse_units nq Hnok Hnb) as (nq' & Hnq'p & Hnq'ok & HUnq' & Hnq'e).
    destruct (move_row _ _ _ _ (- U d) _ _ Hsk Hcons Hesc Hb Hw Hok ltac:(lia) ltac:(lia) Hr)
      as (Hsk1 & Hcons1 & Hesc1 & Hmf1).
    exists nq'. split; [exact Hnq'p|]. split; [exact Hnq'ok|]. split; [lia|]. split; [intros _; exact Hnq'e|].
    split; [exact Hsk1|]. split; [exact Hcons1|]. split; [|split; [exact Hmf1 | eapply bal_only_wr_bal; exact Hw]].
    eapply esc_off_same; [exact Hesc1|]. intros a k. unfold bump2. destruct (decide _); lia.
Qed.

Lemma update_one_unfold e seller s u :
  update_one e seller s u =
  (o <- from_option LInvalid (sell_orders s !! up_id u) ;;
   _ <- check (so_seller o =? seller)%N LUnauthorized ;;
   ba <- from_option LOrm (batches s !! so_batch_key o) ;;
   '(abbrev, ct) <- credit_type_abbrev_of_denom s (ba_denom ba) ;;
   '(s, market_id, ask_amount) <- upd_ask abbrev o (up_ask u) s ;;
   expiration <-
     match up_expiration u with
     | None => LOk (so_expiration o)
     | Some x => _ <- check (ts_after x (e_time e)) LInvalid ;; LOk (Some x)
     end ;;
   '(s, quantity) <- upd_qty (ct_precision ct) o (up_quantity u) s ;;
   m <- orm_update (up_id u) {| so_seller := so_seller o; so_batch_key := so_batch_key o; so_quantity := quantity;
                                so_market_id := market_id; so_ask_amount := ask_amount;
                                so_disable_auto_retire := up_disable_auto_retire u;
                                so_expiration := expiration; so_maker := true |} (sell_orders s) ;;
   LOk (s <| sell_orders := m |>)).
Proof. reflexivity. Qed.

Lemma update_one_step e seller s u s' :
  Inv_core s -> Inv_bound s -> vb_update_req u = true ->
  update_one e seller s u = LOk s' -> step_ok s s'.
Proof.
  intros Hcore Hbound Hvb H. rewrite update_one_unfold in H.
  lstep H as o Ho. lstep H as u1 Hu1. lstep H as ba Hba. lstep H as p Hp. destruct p as [abbrev ct].
  lstep H as tr Htr. destruct tr as [[s1 mid] amt].
  lstep H as expiration Hexp.
  lstep H as qr Hqr. destruct qr as [s2 quantity].
  lstep H as m Hm. apply orm_update_ok in Hm. destruct Hm as [-> Hsome]. inversion H; subst s'; clear H.
  pose proof Hcore as (Hct & Hscale & Hkeys & _).
  rewrite (ct_abbrev_of_denom_precision _ _ _ _ Hct Hp) in Hqr.
  destruct (upd_ask_spec _ _ _ _ _ _ _ Htr) as (Hs1 & Hask).
  pose proof (markets_change_fields _ _ Hs1) as (F1 & F2 & F3 & F4 & F5 & F6 & F7 & F8 & F9).
  pose proof (Inv_core_core_eq _ _ (markets_change_core_eq _ _ Hs1) Hcore) as Hcore1.
  pose proof (te_bound s1 (so_seller o) (so_batch_key o) Hcore1
                (Inv_bound_core_eq _ _ (markets_change_core_eq _ _ Hs1) Hbound)) as Hte.
  apply Inv_core_split in Hcore1. destruct Hcore1 as (Hsk1 & Hcons1 & Hesc1).
  destruct Hscale as (_ & _ & _ & Hs4). destruct (Hs4 _ _ Ho) as (cq & Hcp & Hcq & Hcqpos).
  assert (HcqE : U cq <= U (bl_escrowed (get_balance s1 (so_seller o) (so_batch_key o)))).
  { rewrite (Hesc1 _ _), F4. rewrite <- (order_units_parse _ _ Hcp). eapply order_le_order_sum; [exact Hs4 | exact Ho]. }
  destruct (upd_qty_spec _ _ _ _ _ _ Hsk1 Hcons1 Hesc1 Hcp Hcq Hcqpos HcqE Hte Hqr)
    as (nq & Hnp & Hnok & Hnpos & Hnexp & Hsk2 & Hcons2 & Hesc2 & Hmf2 & Hbo2).
  assert (Hso2 : sell_orders s2 = sell_orders s) by (rewrite Hbo2; cbn; exact F4).
  assert (Hbt2 : batches s2 = batches s) by (rewrite Hbo2; cbn; exact F5).
  set (o' := {| so_seller := so_seller o; so_batch_key := so_batch_key o; so_quantity := quantity;
                so_market_id := mid; so_ask_amount := amt; so_disable_auto_retire := up_disable_auto_retire u;
                so_expiration := expiration; so_maker := true |}) in *.
  set (s3 := s2 <| sell_orders := <[up_id u := o']> (sell_orders s2) |>).
  assert (Hw3 : wr_ord (up_id u) o' s2 s3) by reflexivity.
  assert (Hoo : order_ok o') by (exists nq; cbn [so_quantity o']; tauto).
  assert (Hou : order_units o' = U nq) by (apply order_units_parse; exact Hnp).
  split; [apply Inv_core_split; split; [|split]|split; [|split]].
  - eapply (sk_wr_ord _ _ _ _ Hw3); [exact Hoo | | | exact Hsk2].
    + cbn [so_batch_key o']. rewrite Hbt2, Hba. eauto.
    + destruct Hsk2 as (_ & _ & (_ & _ & _ & _ & _ & _ & Hk7 & _)). apply Hk7. exact Hsome.
  - eapply cons_off_elim; [eapply (cons_off_orders s2 s3); [| | | |apply cons_off_intro; exact Hcons2] | |]; reflexivity.
  - pose proof (esc_off_wr_ord _ _ _ _ _ Hw3 Hesc2) as Hf. eapply esc_off_elim; [exact Hf|].
    intros a0 k0. cbv beta. rewrite Hso2, Ho. rewrite !ofun_cases. cbn [so_seller so_batch_key o']. rewrite Hou.
    rewrite (order_units_parse _ _ Hcp). unfold bump2. destruct (decide _); lia.
  - eapply mframe_trans; [apply markets_change_mframe; exact Hs1|].
    eapply mframe_trans; [exact Hmf2|]. apply mframe_triv; try reflexivity.
  - intros Hio.
    assert (Hvp : vb_price (up_ask u) = true).
    { unfold vb_update_req in Hvb. apply andb_true_iff in Hvb. apply Hvb. }
    destruct (Hask Hio Hvp _ _ _ Ho Hba Hp) as (Hamt & (mk & Hmk & Hmkct) & Hg & Hkb).
    assert (Hm3 : markets s3 = markets s1) by (unfold s3; rewrite Hbo2; reflexivity).
    assert (Hq3 : market_seq_id s3 = market_seq_id s1) by (unfold s3; rewrite Hbo2; reflexivity).
    assert (Hb3 : batches s3 = batches s) by exact Hbt2.
    assert (Hc3 : classes s3 = classes s) by (unfold s3; rewrite Hbo2; cbn; exact F6).
    assert (Ht3 : credit_types s3 = credit_types s) by (unfold s3; rewrite Hbo2; cbn; exact F7).
    apply (Inv_orders_transfer s s3); try assumption.
    + intros k0 mk0 H0. rewrite Hm3. apply Hg. exact H0.
    + rewrite Hm3, Hq3. exact Hkb.
    + intros id0 o0 H0. unfold s3 in H0. cbn in H0. apply lookup_insert_Some in H0.
      destruct H0 as [[_ <-]|[_ H0]].
      * left. split; [exact Hamt|].
        exists mk, ba, ct. cbn [so_market_id so_batch_key o']. rewrite Hm3, Hb3, Hmkct.
        split; [exact Hmk|]. split; [exact Hba|].
        rewrite (ct_abbrev_of_denom_ext s s3 _ Hc3 Ht3). exact Hp.
      * right. exists id0, o0. rewrite Hso2 in H0. split; [exact H0 | unfold order_sim; tauto].
  - intros Hqty. apply (Inv_qty_transfer s s3); [|exact Hqty].
    intros id0 o0 H0. unfold s3 in H0. cbn in H0. apply lookup_insert_Some in H0.
    destruct H0 as [[_ <-]|[_ H0]].
    + left. exists nq. cbn [so_quantity o']. split; [exact Hnp|]. apply Hnexp.
      destruct (Hqty _ _ Ho) as (d2 & Hp2 & He2). rewrite Hcp in Hp2. inversion Hp2; subst. exact He2.
    + right. exists id0, o0. rewrite Hso2 in H0. tauto.
Qed.

Lemma h_update_step e s seller updates s' r evs :
  Inv_core s -> Inv_bound s -> forallb vb_update_req updates = true ->
  h_update_sell_orders e s seller updates = LOk (s', r, evs) -> step_ok s s'.
Proof.
  intros Hcore Hb Hvb H. unfold h_update_sell_orders in H. lstep H as s1 Hs1.
  unfold ret in H. inversion H; subst s' r evs; clear H.
  eapply (lfold_step (update_one e seller) updates); [| exact Hcore | exact Hb | exact Hs1].
  intros a x a' Hin Ha Hab Hf. eapply update_one_step; [exact Ha | exact Hab | | exact Hf].
  eapply forallb_forall in Hvb; [exact Hvb | exact Hin].
Qed.

(* an order written by update_one with an expiration supplied in the message expires after the block time *)
Theorem update_expiry_future e seller s u s' x :
  update_one e seller s u = LOk s' -> up_expiration u = Some x ->
  ts_after x (e_time e) = true /\
  exists o', sell_orders s' !! up_id u = Some o' /\ so_expiration o' = Some x.
Proof.
  intros H Hx. rewrite update_one_unfold in H.
  lstep H as o Ho. lstep H as u1 Hu1. lstep H as ba Hba. lstep H as p Hp. destruct p as [abbrev ct].
  lstep H as tr Htr. destruct tr as [[s1 mid] amt].
  lstep H as expiration Hexp.
  lstep H as qr Hqr. destruct qr as [s2 quantity].
  lstep H as m Hm. apply orm_update_ok in Hm. destruct Hm as [-> Hsome]. inversion H; subst s'; clear H.
  rewrite Hx in Hexp. lstep Hexp as u2 Hu2. inversion Hexp; subst expiration.
  split; [exact Hu2|]. eexists. cbn. rewrite lookup_insert. split; reflexivity.
Qed.
