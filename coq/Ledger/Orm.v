(* Ledger model: the ORM and bank-keeper rules the handlers rely on (modelled, not verified). *)
From stdpp Require Import gmap.
From RecordUpdate Require Import RecordSet.
From Coq Require Import ZArith NArith List Bool Strings.Byte.
Require Import Regen.Base.Bytes Regen.Base.BigIntScan Regen.Base.Calendar Regen.Dec.Dec Regen.Ledger.Types Regen.Ledger.Msgs.
Import ListNotations RecordSetNotations.
Local Open Scope Z_scope.
Local Open Scope lres_scope.

(* ------------------------------------------------------------------ *)
(* ORM table operations on finite maps                                 *)
(* ------------------------------------------------------------------ *)

Section orm.
  Context {K : Type} `{Countable K} {V : Type}.

  (* Insert: fails if the primary key is present *)
  Definition orm_insert (k : K) (v : V) (m : gmap K V) : lres (gmap K V) :=
    match m !! k with Some _ => LErr LOrm | None => LOk (<[k := v]> m) end.

  (* Update: fails if the primary key is absent *)
  Definition orm_update (k : K) (v : V) (m : gmap K V) : lres (gmap K V) :=
    match m !! k with Some _ => LOk (<[k := v]> m) | None => LErr LOrm end.

  (* Save: insert or update *)
  Definition orm_save (k : K) (v : V) (m : gmap K V) : gmap K V := <[k := v]> m.

  (* first row satisfying a predicate; used for unique secondary indexes, where at most one row
     satisfies it, so the (unspecified but fixed) enumeration order is irrelevant *)
  Definition map_find (P : K -> V -> bool) (m : gmap K V) : option (K * V) :=
    head (List.filter (fun kv => P kv.1 kv.2) (map_to_list m)).

  Definition map_exists (P : K -> V -> bool) (m : gmap K V) : bool :=
    match map_find P m with Some _ => true | None => false end.
End orm.

(* a merge sort over Z-valued / arbitrary keys is needed for ordered scans; we use insertion into a
   sorted list with a decidable "less or equal" *)
Section sort.
  Context {A : Type} (leb : A -> A -> bool).
  Fixpoint insert_sorted (x : A) (l : list A) : list A :=
    match l with
    | [] => [x]
    | y :: l' => if leb x y then x :: y :: l' else y :: insert_sorted x l'
    end.
  Definition sort_by (l : list A) : list A := fold_right insert_sorted [] l.
End sort.

(* ------------------------------------------------------------------ *)
(* bank keeper                                                         *)
(* ------------------------------------------------------------------ *)

Definition bank_bal (s : state) (a : addr) (d : bytes) : Z := default 0 (bank s !! (a, d)).
Definition bank_sup (s : state) (d : bytes) : Z := default 0 (bank_supply s !! d).

Definition set_bank_bal (a : addr) (d : bytes) (z : Z) (s : state) : state :=
  s <| bank := <[(a, d) := z]> (bank s) |>.
Definition set_bank_sup (d : bytes) (z : Z) (s : state) : state :=
  s <| bank_supply := <[d := z]> (bank_supply s) |>.

(* sdk.ValidateDenom: [a-zA-Z][a-zA-Z0-9/:._-]{2,127} *)
Definition denom_char (c : byte) : bool :=
  is_lower c || is_upper c || is_digit c ||
  Byte.eqb c "/"%byte || Byte.eqb c ":"%byte || Byte.eqb c "."%byte || Byte.eqb c "_"%byte || Byte.eqb c "-"%byte.
Definition valid_denom (d : bytes) : bool :=
  match d with
  | [] => false
  | c :: rest => (is_lower c || is_upper c) && forallb denom_char rest
                 && (2 <=? length rest)%nat && (length rest <=? 127)%nat
  end.

(* sdk.Coin.Validate *)
Definition coin_valid (c : coin) : bool := valid_denom (c_denom c) && (0 <=? c_amount c).

(* sdk.Coins.Validate / IsValid: every coin valid and strictly positive, denoms strictly ascending *)
Fixpoint coins_sorted (cs : list coin) : bool :=
  match cs with
  | a :: ((c :: _) as rest) =>
      match bytes_cmp (c_denom a) (c_denom c) with Lt => coins_sorted rest | _ => false end
  | _ => true
  end.
Definition coins_valid (cs : list coin) : bool :=
  forallb (fun c => valid_denom (c_denom c) && (0 <? c_amount c)) cs && coins_sorted cs.

(* one coin: subtract from an account; the bank refuses to overdraw *)
Definition bank_sub (a : addr) (c : coin) (s : state) : lres state :=
  let cur := bank_bal s a (c_denom c) in
  if cur <? c_amount c then LErr LBank else LOk (set_bank_bal a (c_denom c) (cur - c_amount c) s).
Definition bank_add (a : addr) (c : coin) (s : state) : state :=
  set_bank_bal a (c_denom c) (bank_bal s a (c_denom c) + c_amount c) s.

Fixpoint bank_sub_all (a : addr) (cs : list coin) (s : state) : lres state :=
  match cs with [] => LOk s | c :: cs' => s' <- bank_sub a c s ;; bank_sub_all a cs' s' end.
Definition bank_add_all (a : addr) (cs : list coin) (s : state) : state :=
  fold_left (fun s c => bank_add a c s) cs s.

(* SendCoins / SendCoinsFromAccountToModule / SendCoinsFromModuleToAccount: the coins must be valid
   (an empty list is valid and moves nothing) *)
Definition send_coins (from to : addr) (cs : list coin) (s : state) : lres state :=
  if negb (coins_valid cs) then LErr LBank else
  s' <- bank_sub_all from cs s ;; LOk (bank_add_all to cs s').

(* bank's blocked-address list (app.go BlockAddresses): every module account except gov.  It is
   consulted by SendCoinsFromModuleToAccount and by the bank MsgSend handler. *)
Definition blocked_addr (a : addr) : bool := (101 <=? a)%N && (a <=? 104)%N.

Definition send_coins_from_module_to_account (module to : addr) (cs : list coin) (s : state) : lres state :=
  if blocked_addr to then LErr LBank else send_coins module to cs s.

(* MintCoins to a module account with the minter permission *)
Definition mint_coins (module : addr) (cs : list coin) (s : state) : lres state :=
  if negb (coins_valid cs) then LErr LBank else
  LOk (fold_left (fun s c => set_bank_sup (c_denom c) (bank_sup s (c_denom c) + c_amount c) (bank_add module c s)) cs s).

(* BurnCoins from a module account with the burner permission *)
Definition burn_coins (module : addr) (cs : list coin) (s : state) : lres state :=
  if negb (coins_valid cs) then LErr LBank else
  s' <- bank_sub_all module cs s ;;
  LOk (fold_left (fun s c => set_bank_sup (c_denom c) (bank_sup s (c_denom c) - c_amount c) s) cs s').

(* sdk.NewCoins(sdk.NewCoin(denom, amount)): NewCoin panics on a negative amount, NewCoins drops zero coins *)
Definition new_coins1 (d : bytes) (amount : Z) : lres (list coin) :=
  if amount <? 0 then LErr LPanic
  else if negb (valid_denom d) then LErr LPanic
  else if amount =? 0 then LOk [] else LOk [{| c_denom := d; c_amount := amount |}].

(* sdk.NewIntFromString: math/big base-0 syntax ("010" is octal 8, "0x10" is 16, "1_000" is 1000), at most
   256 bits; transcribed in Base/BigIntScan.v and compared with the implementation by the dec family *)
Definition parse_sdk_int (s : bytes) : option Z := sdk_int_from_string s.

(* ------------------------------------------------------------------ *)
(* stored amounts                                                      *)
(* ------------------------------------------------------------------ *)

(* The implementation stores [d.String()] and parses it back on the next read.  Printing in plain
   notation and re-parsing turns a positive exponent into trailing zeros of the coefficient. *)
Definition dnorm (d : dec) : dec :=
  if 0 <? dexp d then mkDec (dneg d) (dcoef d * 10 ^ dexp d) 0 else d.

Definition dzero : dec := mkDec false 0 0.
Definition zero_balance : balance := {| bl_tradable := dzero; bl_retired := dzero; bl_escrowed := dzero |}.
