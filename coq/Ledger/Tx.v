(* Transactions of several messages (baseapp.runTx / runMsgs).

   A transaction carries a list of messages.  ValidateBasic is applied to every message first; the handlers then run
   in order on ONE cache-wrapped store, which is written back only if all of them succeed.  [Step.deliver] is the
   single-message case.  This file defines the general rule and shows that it adds nothing to reachability: the state
   after a transaction is reachable by single-message deliveries (the same messages one by one) or is the state
   before it.  Every theorem stated over [reaches] therefore covers multi-message transactions, in particular the
   ones that are rolled back after their first messages ran (the correspondence families send such transactions). *)
From stdpp Require Import gmap.
From Coq Require Import ZArith NArith List Bool.
Require Import Regen.Ledger.Types Regen.Ledger.Msgs Regen.Ledger.Orm Regen.Ledger.Step Regen.Ledger.InvAllLib Regen.Ledger.InvAllRun.
Import ListNotations.

(* the handlers of ms in order; None as soon as one fails *)
Fixpoint run_handlers (e : env) (s : state) (ms : list msg) : option state :=
  match ms with
  | [] => Some s
  | m :: ms' =>
      match handle e s m with
      | LOk (s', _, _) => run_handlers e s' ms'
      | LErr _ => None
      end
  end.

Definition deliver_tx (e : env) (s : state) (ms : list msg) : state :=
  if forallb validate_basic ms then
    match run_handlers e s ms with Some s' => s' | None => s end
  else s.

Theorem deliver_tx_single e s m : deliver_tx e s [m] = (deliver e s m).1.
Proof.
  unfold deliver_tx, deliver. cbn [forallb run_handlers]. rewrite andb_true_r.
  destruct (validate_basic m); [|reflexivity].
  destruct (handle e s m) as [[[s' r] evs]|err]; reflexivity.
Qed.

(* all-or-nothing: a transaction in which some message is invalid or some handler fails has no effect (C10) *)
Theorem deliver_tx_failed_no_effect e s ms :
  forallb validate_basic ms = false \/ run_handlers e s ms = None -> deliver_tx e s ms = s.
Proof.
  unfold deliver_tx. intros [H|H].
  - rewrite H. reflexivity.
  - rewrite H. destruct (forallb validate_basic ms); reflexivity.
Qed.

Lemma run_handlers_reaches e ms : forall s s',
  forallb validate_basic ms = true -> run_handlers e s ms = Some s' -> reaches s s'.
Proof.
  induction ms as [|m ms IH]; intros s s' V H; cbn [run_handlers forallb] in *.
  - inversion H. apply reaches_refl.
  - apply andb_true_iff in V. destruct V as [Vm Vms].
    destruct (handle e s m) as [[[s1 r] evs]|err] eqn:Hm; [|discriminate].
    eapply reaches_trans; [|apply (IH s1 s' Vms H)].
    assert (E : (deliver e s m).1 = s1) by (unfold deliver; rewrite Vm, Hm; reflexivity).
    rewrite <- E. apply reaches_deliver. apply reaches_refl.
Qed.

(* the state after any transaction is reachable by single-message deliveries *)
Theorem deliver_tx_reaches e s ms : reaches s (deliver_tx e s ms).
Proof.
  unfold deliver_tx. destruct (forallb validate_basic ms) eqn:V; [|apply reaches_refl].
  destruct (run_handlers e s ms) as [s'|] eqn:H; [|apply reaches_refl].
  eapply run_handlers_reaches; eassumption.
Qed.

(* hence every invariant of single-message histories is an invariant of histories of transactions *)
Corollary deliver_tx_preserves (I : state -> Prop) :
  (forall s s', I s -> reaches s s' -> I s') -> forall e s ms, I s -> I (deliver_tx e s ms).
Proof. intros HI e s ms Hs. eapply HI; [exact Hs | apply deliver_tx_reaches]. Qed.

Theorem deliver_tx_preserves_run e s ms : Inv_run s -> Inv_run (deliver_tx e s ms).
Proof.
  intros Hs. apply (deliver_tx_preserves Inv_run); [|exact Hs].
  intros a c Ha Hr. exact (proj1 (reaches_preserves_run a c Ha Hr)).
Qed.
