(* Assembly, C02: issuance accounting along histories.

   [T su] = U tradable + U retired + U cancelled is the total of a batch.  A ghost ledger (batch key |->
   issued units) is updated from the contents of every ACCEPTED issuing message: CreateBatch, MintBatchCredits
   and BridgeReceive add [issued_units] of their issuance list to the batch they address; nothing else touches
   it.  Along every history the total of every batch equals its ghost entry.  Sealing is one-way and the total
   of a sealed batch never changes. *)
From stdpp Require Import gmap.
From RecordUpdate Require Import RecordSet.
From Coq Require Import ZArith NArith List Bool Lia Strings.Byte.
Require Import Regen.Base.Bytes Regen.Base.Calendar Regen.Dec.Dec.
Require Import Regen.Ledger.Types Regen.Ledger.Msgs Regen.Ledger.Orm Regen.Ledger.BaseMsgs
               Regen.Ledger.BasketMsgs Regen.Ledger.MarketMsgs Regen.Ledger.Step
               Regen.Ledger.Amount Regen.Ledger.MapSum Regen.Ledger.Inv Regen.Ledger.InvTactics.
Require Regen.Ledger.InvBasketLib.
Require Import Regen.Ledger.InvFrame Regen.Ledger.InvAdmin Regen.Ledger.InvBaseLib Regen.Ledger.InvBase2
               Regen.Ledger.InvBase3 Regen.Ledger.InvBase Regen.Ledger.InvBasket Regen.Ledger.InvBridgeLib.
Require Import Regen.Ledger.InvMarketLib Regen.Ledger.InvMarketPrim Regen.Ledger.InvMarketOrders
               Regen.Ledger.InvMarketPrune Regen.Ledger.InvMarket.
Require Import Regen.Ledger.InvAllLib Regen.Ledger.InvAllBound Regen.Ledger.InvAllRun.
Import ListNotations RecordSetNotations.
Local Open Scope Z_scope.

(* ------------------------------------------------------------------ *)
(* per-message effect on totals, all families                          *)
(* ------------------------------------------------------------------ *)

(* the batch an issuing message addresses (resolved in the pre-state exactly as the handler does) and its
   issuance list; None for every other message *)
Definition issued_key (s : state) (m : msg) : option (N * list issuance) :=
  match m with
  | MCreateBatch _ _ iss _ _ _ _ _ => Some ((batch_seq_id s + 1)%N, iss)
  | MMintBatchCredits _ denom iss _ =>
      match batch_by_denom s denom with Some (bk, _) => Some (bk, iss) | None => None end
  | MBridgeReceive _ class_id _ (Some bb) (Some o) =>
      match class_by_id s class_id with
      | Some (ck, _) =>
          match map_find (contract_pred ck (ot_contract o)) (batch_contracts s) with
          | Some (bk, _) => Some (bk, bridge_issuance bb)
          | None => Some ((batch_seq_id s + 1)%N, bridge_issuance bb)
          end
      | None => None
      end
  | _ => None
  end.

(* effect of one accepted message on the totals: the addressed row gains exactly the issued units (it is
   created when absent), every other supply row keeps its total, no other row appears or disappears *)
Definition totals_effect (s : state) (m : msg) (s' : state) : Prop :=
  match issued_key s m with
  | Some (bk, iss) =>
      (forall k, k <> bk -> supplies s' !! k = supplies s !! k) /\
      exists su', supplies s' !! bk = Some su' /\
        T su' = match supplies s !! bk with Some su => T su | None => 0 end + issued_units iss
  | None =>
      forall k, match supplies s !! k, supplies s' !! k with
                | Some su, Some su' => T su' = T su
                | None, None => True
                | _, _ => False
                end
  end.

Lemma totals_none_of_same s s' :
  totals_same s s' ->
  (forall k su, supplies s !! k = Some su -> is_Some (supplies s' !! k)) ->
  forall k, match supplies s !! k, supplies s' !! k with
            | Some su, Some su' => T su' = T su | None, None => True | _, _ => False end.
Proof.
  intros Hs Hp k. destruct (supplies s' !! k) as [su'|] eqn:E'.
  - destruct (Hs _ _ E') as (su & E & HT). rewrite E. exact HT.
  - destruct (supplies s !! k) as [su|] eqn:E; [|exact I]. destruct (Hp _ _ E) as [x Hx]. congruence.
Qed.

Lemma totals_of_mint bk n s s' :
  totals_mint bk n s s' ->
  (forall k, k <> bk -> supplies s' !! k = supplies s !! k) /\
  exists su', supplies s' !! bk = Some su' /\ T su' = match supplies s !! bk with Some su => T su | None => 0 end + n.
Proof. intros (H1 & su & su' & E & E' & HT). split; [exact H1|]. exists su'. rewrite E. tauto. Qed.

Lemma totals_of_create bk n s s' :
  totals_create bk n s s' ->
  (forall k, k <> bk -> supplies s' !! k = supplies s !! k) /\
  exists su', supplies s' !! bk = Some su' /\ T su' = match supplies s !! bk with Some su => T su | None => 0 end + n.
Proof. intros (E & H1 & su' & E' & HT). split; [exact H1|]. exists su'. rewrite E. split; [exact E' | lia]. Qed.

Lemma minted_denom_key s issuer denom iss s' bk ba :
  Inv_keys s -> minted_denom issuer denom iss s s' -> batch_by_denom s denom = Some (bk, ba) ->
  totals_mint bk (issued_units iss) s s'.
Proof.
  intros Hk (bk' & ba' & Hb' & Hd' & _ & _ & Ht) Hb.
  rewrite (InvBasketLib.batch_by_denom_unique s denom bk' ba' Hk Hb' Hd') in Hb. inversion Hb; subst. exact Ht.
Qed.

Theorem base_totals_effect e s m s' r evs :
  is_base_credit_msg m = true -> Inv_core s -> handle e s m = LOk (s', r, evs) -> totals_effect s m s'.
Proof.
  intros Hm Hc H. destruct (base_handle_ok _ _ _ _ _ _ Hm Hc H) as (_ & Hrel & Htot).
  pose proof Hc as (_ & _ & Hk & _).
  assert (Hp : forall k su, supplies s !! k = Some su -> is_Some (supplies s' !! k)).
  { intros k su Hs. destruct (br_supplies _ _ Hrel _ _ Hs) as (su' & E & _). eauto. }
  unfold totals_effect.
  destruct m; try discriminate Hm; cbn [total_effect issued_key] in *;
    try (apply totals_none_of_same; assumption).
  - (* CreateBatch *) destruct Htot as [Ht _]. apply totals_of_create. exact Ht.
  - (* Mint *)
    cbn [handle] in H. pose proof H as H0. apply h_mint_batch_credits_shape in H0.
    destruct H0 as (bk & ba & pj & o & Hb & _). rewrite Hb.
    apply totals_of_mint. eapply minted_denom_key; eassumption.
  - (* BridgeReceive *)
    cbn [handle] in H. pose proof H as H0. apply h_bridge_receive_shape in H0.
    destruct H0 as (o & bb & pp & ck & cl & -> & -> & -> & _ & Hcl & [Hmint|Hcreate]); rewrite Hcl.
    + destruct Hmint as (bk & bc & ba0 & pj0 & r1 & e1 & Hf & Hba & _ & Hm1 & _ & _).
      fold (contract_pred ck (ot_contract o)) in Hf. rewrite Hf.
      destruct (h_mint_batch_credits_ok _ _ _ _ _ _ _ _ _ Hc Hm1) as (_ & _ & Hmd).
      apply totals_of_mint. eapply minted_denom_key; [exact Hk | exact Hmd |].
      eapply InvBasketLib.batch_by_denom_unique; [exact Hk | exact Hba | reflexivity].
    + destruct Hcreate as (Hf & s1 & pid & d & e2 & Hproj & Hcb & _ & _).
      fold (contract_pred ck (ot_contract o)) in Hf. rewrite Hf.
      assert (H1 : Inv_core s1 /\ supplies s1 = supplies s /\ batch_seq_id s1 = batch_seq_id s).
      { destruct Hproj as [(k & pj0 & _ & -> & _)|(_ & e3 & Hcp)]; [tauto|].
        apply h_create_project_shape in Hcp. destruct Hcp as (ck' & cl' & _ & _ & _ & Hs1 & _).
        split; [|rewrite Hs1; split; reflexivity].
        apply (credit_frame_core s s1); [rewrite Hs1; apply cf_of_eqs; reflexivity | exact Hc]. }
      destruct H1 as (Hc1 & Es & Eq).
      destruct (h_create_batch_ok _ _ _ _ _ _ _ _ _ _ _ _ _ Hc1 Hcb) as (_ & _ & Ht & _).
      rewrite Eq in Ht. destruct (totals_of_create _ _ _ _ Ht) as [A B]. rewrite Es in A, B. split; assumption.
Qed.

Lemma totals_none_eq s s' :
  supplies s' = supplies s ->
  forall k, match supplies s !! k, supplies s' !! k with
            | Some su, Some su' => T su' = T su | None, None => True | _, _ => False end.
Proof. intros E k. rewrite E. destruct (supplies s !! k); [reflexivity | exact I]. Qed.

Lemma issued_key_nonbase s m : is_base_credit_msg m = false -> issued_key s m = None.
Proof. destruct m; cbn; try reflexivity; discriminate. Qed.

(* C02, one accepted message of any family *)
Theorem handle_totals_effect e s m s' r evs :
  Inv_run s -> validate_basic m = true -> handle e s m = LOk (s', r, evs) -> totals_effect s m s'.
Proof.
  intros (Hc & Hb & Hq) Hvb H. destruct (msg_class_total m) as [Hm|[Hm|[Hm|Hm]]].
  - eapply base_totals_effect; [apply Hm | exact Hc | exact H].
  - destruct Hm as (Hm0 & Hm & _). unfold totals_effect. rewrite (issued_key_nonbase s m Hm0).
    apply totals_none_eq. apply (cf_supplies _ _ (admin_credit_frame _ _ _ _ _ _ Hm Hvb H)).
  - destruct Hm as (Hm0 & _ & Hm & _). unfold totals_effect. rewrite (issued_key_nonbase s m Hm0).
    destruct (basket_core_step _ _ _ _ _ _ Hm Hc Hvb H) as [_ S]. intros k.
    destruct (supplies s !! k) as [su|] eqn:E.
    + destruct (InvBasketLib.so_sup _ _ S _ _ E) as (su' & E' & _ & _ & HT). rewrite E'. exact HT.
    + apply (InvBasketLib.so_sup_dom _ _ S) in E. rewrite E. exact I.
  - destruct Hm as (Hm0 & _ & _ & Hm). unfold totals_effect. rewrite (issued_key_nonbase s m Hm0).
    destruct (market_total_effect e s m s' r evs Hm Hc Hb Hvb H) as (A & B & _). intros k.
    destruct (supplies s !! k) as [su|] eqn:E.
    + destruct (A _ _ E) as (su' & E' & HT). rewrite E'. unfold T. lia.
    + destruct (supplies s' !! k) as [su'|] eqn:E'; [|exact I].
      destruct (proj1 (B k) (ex_intro _ _ E')) as [x Hx]. congruence.
Qed.

(* ------------------------------------------------------------------ *)
(* the ghost ledger                                                    *)
(* ------------------------------------------------------------------ *)

Notation ghost := (gmap N Z).

(* the entry of a key, 0 when absent *)
Definition gget (gh : ghost) (k : N) : Z := default 0 (gh !! k).

Lemma gget_insert gh k z : gget (<[k := z]> gh) k = z.
Proof. unfold gget. rewrite lookup_insert. reflexivity. Qed.

Lemma gget_insert_ne gh k k' z : k <> k' -> gget (<[k := z]> gh) k' = gget gh k'.
Proof. intros Hne. unfold gget. rewrite lookup_insert_ne by exact Hne. reflexivity. Qed.

Lemma gget_empty k : gget ∅ k = 0.
Proof. unfold gget. rewrite lookup_empty. reflexivity. Qed.

Definition ghost_step (s : state) (m : msg) (gh : ghost) : ghost :=
  match issued_key s m with
  | Some (bk, iss) => <[bk := gget gh bk + issued_units iss]> gh
  | None => gh
  end.

(* through the transaction rule: only accepted messages count *)
Definition ghost_deliver (e : env) (s : state) (m : msg) (gh : ghost) : ghost :=
  if validate_basic m then match handle e s m with LOk _ => ghost_step s m gh | LErr _ => gh end else gh.

(* every batch total equals its ghost entry; keys without a supply row have entry 0 *)
Definition ghost_ok (s : state) (gh : ghost) : Prop :=
  forall k, gget gh k = match supplies s !! k with Some su => T su | None => 0 end.

Theorem ghost_step_ok s m s' gh : totals_effect s m s' -> ghost_ok s gh -> ghost_ok s' (ghost_step s m gh).
Proof.
  unfold totals_effect, ghost_step. intros He Hg k. destruct (issued_key s m) as [[bk iss]|].
  - destruct He as (Hoth & su' & E' & HT). destruct (decide (k = bk)) as [->|Hne].
    + rewrite gget_insert, E', HT, (Hg bk). reflexivity.
    + rewrite gget_insert_ne by congruence. rewrite (Hoth k Hne). apply Hg.
  - rewrite (Hg k). specialize (He k). destruct (supplies s !! k), (supplies s' !! k); try contradiction; [lia | reflexivity].
Qed.

Theorem ghost_deliver_ok e s m gh :
  Inv_run s -> ghost_ok s gh -> ghost_ok (deliver e s m).1 (ghost_deliver e s m gh).
Proof.
  intros Hs Hg. unfold deliver, ghost_deliver. destruct (validate_basic m) eqn:V; [|exact Hg].
  destruct (handle e s m) as [[[s' r] evs]|err] eqn:H; cbn [fst]; [|exact Hg].
  apply ghost_step_ok; [|exact Hg]. eapply handle_totals_effect; eassumption.
Qed.

Theorem ghost_begin_block_ok t s s' gh : Inv_run s -> begin_block t s = LOk s' -> ghost_ok s gh -> ghost_ok s' gh.
Proof.
  intros (Hc & _) H Hg k. destruct (prune_monotone t s s' Hc H) as [E _]. rewrite E. apply Hg.
Qed.

(* histories with their ghost ledger *)
Inductive greaches (s : state) (gh : ghost) : state -> ghost -> Prop :=
| greaches_refl : greaches s gh s gh
| greaches_begin s1 gh1 t s2 : greaches s gh s1 gh1 -> begin_block t s1 = LOk s2 -> greaches s gh s2 gh1
| greaches_deliver s1 gh1 e m : greaches s gh s1 gh1 -> greaches s gh (deliver e s1 m).1 (ghost_deliver e s1 m gh1).

Lemma greaches_reaches s gh s' gh' : greaches s gh s' gh' -> reaches s s'.
Proof.
  induction 1; [apply reaches_refl | eapply reaches_begin; eassumption | apply reaches_deliver; assumption].
Qed.

Theorem ghost_history g gh0 s gh :
  Inv_run g -> ghost_ok g gh0 -> greaches g gh0 s gh -> ghost_ok s gh.
Proof.
  intros Hg H0 Hr. induction Hr as [|s1 gh1 t s2 Hr IH Hb|s1 gh1 e m Hr IH]; [exact H0| |].
  - pose proof (proj1 (reaches_preserves_run g s1 Hg (greaches_reaches _ _ _ _ Hr))) as H1.
    eapply ghost_begin_block_ok; eassumption.
  - pose proof (proj1 (reaches_preserves_run g s1 Hg (greaches_reaches _ _ _ _ Hr))) as H1.
    apply ghost_deliver_ok; assumption.
Qed.

(* the ghost ledger of a run *)
Definition ghost_msgs (e : env) (ms : list msg) (acc : state * ghost) : state * ghost :=
  fold_left (fun acc m => ((deliver e acc.1 m).1, ghost_deliver e acc.1 m acc.2)) ms acc.

Definition ghost_block (authority : addr) (acc : state * ghost) (bl : block) : lres (state * ghost) :=
  lbind (begin_block (blk_time bl) acc.1) (fun s1 => LOk (ghost_msgs (block_env authority bl) (blk_msgs bl) (s1, acc.2))).

Definition ghost_run (authority : addr) (acc : state * ghost) (h : list block) : lres (state * ghost) :=
  lfold (ghost_block authority) h acc.

Lemma ghost_msgs_fst e ms : forall acc, (ghost_msgs e ms acc).1 = deliver_all e ms acc.1.
Proof.
  unfold ghost_msgs, deliver_all. induction ms as [|m ms IH]; intros acc; cbn [fold_left]; [reflexivity|].
  rewrite IH. reflexivity.
Qed.

Lemma ghost_msgs_greaches g gh0 e ms : forall acc,
  greaches g gh0 acc.1 acc.2 -> greaches g gh0 (ghost_msgs e ms acc).1 (ghost_msgs e ms acc).2.
Proof.
  unfold ghost_msgs. induction ms as [|m ms IH]; intros acc Hr; cbn [fold_left]; [exact Hr|].
  apply IH. cbn [fst snd]. apply greaches_deliver. exact Hr.
Qed.

(* the ghost run computes the same states as Step.run *)
Theorem ghost_run_state authority h : forall acc acc',
  ghost_run authority acc h = LOk acc' -> run authority acc.1 h = LOk acc'.1.
Proof.
  unfold ghost_run, run. induction h as [|bl h IH]; intros acc acc' H; cbn [lfold] in *.
  - inversion H. reflexivity.
  - apply lbind_ok in H. destruct H as (a1 & H1 & H2). unfold ghost_block in H1.
    apply lbind_ok in H1. destruct H1 as (s1 & Hb & H1). inversion H1; subst a1; clear H1.
    rewrite run_block_unfold, Hb. cbn [lbind]. rewrite <- (ghost_msgs_fst _ _ (s1, acc.2)). apply IH. exact H2.
Qed.

Theorem ghost_run_greaches authority g gh0 h : forall acc acc',
  greaches g gh0 acc.1 acc.2 -> ghost_run authority acc h = LOk acc' -> greaches g gh0 acc'.1 acc'.2.
Proof.
  unfold ghost_run. induction h as [|bl h IH]; intros acc acc' Hr H; cbn [lfold] in *.
  - inversion H; subst. exact Hr.
  - apply lbind_ok in H. destruct H as (a1 & H1 & H2). unfold ghost_block in H1.
    apply lbind_ok in H1. destruct H1 as (s1 & Hb & H1). inversion H1; subst a1; clear H1.
    eapply IH; [|exact H2]. apply ghost_msgs_greaches. cbn [fst snd]. eapply greaches_begin; eassumption.
Qed.

(* C02 along runs: after any history, every batch total is what the accepted issuing messages issued *)
Theorem ghost_run_ok authority g gh0 h s gh :
  Inv_run g -> ghost_ok g gh0 -> ghost_run authority (g, gh0) h = LOk (s, gh) ->
  forall k su, supplies s !! k = Some su -> T su = gget gh k.
Proof.
  intros Hg H0 H k su Hk.
  assert (Hr : greaches g gh0 s gh).
  { apply (ghost_run_greaches authority g gh0 h (g, gh0) (s, gh)); [apply greaches_refl | exact H]. }
  pose proof (ghost_history g gh0 s gh Hg H0 Hr k) as Hgk. rewrite Hk in Hgk. lia.
Qed.

(* ------------------------------------------------------------------ *)
(* sealed batches                                                      *)
(* ------------------------------------------------------------------ *)

(* batch rows persist with their immutable fields, a sealed batch stays sealed and keeps its total *)
Definition seal_rel (s s' : state) : Prop :=
  (forall k ba, batches s !! k = Some ba -> exists ba', batches s' !! k = Some ba' /\ batch_static ba ba') /\
  (forall k ba su, batches s !! k = Some ba -> ba_open ba = false -> supplies s !! k = Some su ->
     exists su', supplies s' !! k = Some su' /\ T su' = T su).

Lemma seal_rel_refl s : seal_rel s s.
Proof.
  split; [intros k ba Hk; exists ba; split; [exact Hk | apply batch_static_refl]|].
  intros k ba su _ _ Hs. exists su. tauto.
Qed.

Lemma seal_rel_trans a b c : seal_rel a b -> seal_rel b c -> seal_rel a c.
Proof.
  intros [A1 A2] [B1 B2]. split.
  - intros k ba Hk. destruct (A1 _ _ Hk) as (ba1 & H1 & S1). destruct (B1 _ _ H1) as (ba2 & H2 & S2).
    exists ba2. split; [exact H2 | eapply batch_static_trans; eassumption].
  - intros k ba su Hk Ho Hs. destruct (A1 _ _ Hk) as (ba1 & H1 & S1).
    destruct (A2 _ _ _ Hk Ho Hs) as (su1 & Hs1 & T1).
    assert (Ho1 : ba_open ba1 = false) by (apply S1; exact Ho).
    destruct (B2 _ _ _ H1 Ho1 Hs1) as (su2 & Hs2 & T2). exists su2. split; [exact Hs2 | lia].
Qed.

Lemma seal_rel_eqs s s' :
  batches s' = batches s ->
  (forall k su, supplies s !! k = Some su -> exists su', supplies s' !! k = Some su' /\ T su' = T su) ->
  seal_rel s s'.
Proof.
  intros E Hs. split.
  - intros k ba Hk. exists ba. rewrite E. split; [exact Hk | apply batch_static_refl].
  - intros k ba su _ _ Hk. apply Hs. exact Hk.
Qed.

Theorem handle_seal_rel e s m s' r evs :
  Inv_run s -> validate_basic m = true -> handle e s m = LOk (s', r, evs) -> seal_rel s s'.
Proof.
  intros Hrun Hvb H. pose proof Hrun as (Hc & Hb & Hq).
  pose proof (handle_totals_effect _ _ _ _ _ _ Hrun Hvb H) as Ht.
  destruct (msg_class_total m) as [Hm|[Hm|[Hm|Hm]]].
  - destruct Hm as (Hm & _). destruct (base_handle_ok _ _ _ _ _ _ Hm Hc H) as (_ & Hrel & Htot).
    split; [exact (br_batches _ _ Hrel)|]. intros k ba su Hk Ho Hs.
    unfold totals_effect in Ht. destruct (issued_key s m) as [[bk iss]|] eqn:Ek.
    + (* an issuing message never addresses a sealed batch *)
      assert (Hne : k <> bk).
      { intros ->. destruct m; try discriminate Hm; cbn [issued_key total_effect] in Ek, Htot; try discriminate Ek.
        - inversion Ek; subst. destruct Htot as [(Hn & _) _]. congruence.
        - destruct (batch_by_denom s denom) as [[bk' ba']|] eqn:Eb; [|discriminate]. inversion Ek; subst bk' iss0.
          destruct Htot as (bk2 & ba2 & Hb2 & Hd2 & Ho2 & _).
          apply batch_by_denom_Some in Eb. destruct Eb as [Eb1 Eb2].
          destruct Hc as (_ & _ & (K1 & _) & _). assert (bk2 = bk) by (eapply K1; [exact Hb2 | exact Eb1 | congruence]).
          subst bk2. rewrite Hk in Hb2. inversion Hb2; subst. congruence.
        - cbn [handle] in H. apply h_bridge_receive_shape in H.
          destruct H as (o & bb & pp & ck & cl & -> & -> & -> & _ & Hcl & [Hmint|Hcreate]); rewrite Hcl in Ek.
          + destruct Hmint as (bk0 & bc & ba0 & pj0 & r1 & e1 & Hf & Hba & _ & Hm1 & _ & _).
            fold (contract_pred ck (ot_contract o)) in Hf. rewrite Hf in Ek. inversion Ek; subst bk0 iss.
            apply h_mint_batch_credits_shape in Hm1. destruct Hm1 as (bk1 & ba1 & _ & _ & Hb1 & Ho1 & _).
            apply batch_by_denom_Some in Hb1. destruct Hb1 as [Hb1 Hd1].
            destruct Hc as (_ & _ & (K1 & _) & _). assert (bk1 = bk) by (eapply K1; [exact Hb1 | exact Hba | exact Hd1]).
            subst bk1. rewrite Hk in Hb1. inversion Hb1; subst. congruence.
          + destruct Hcreate as (Hf & _). fold (contract_pred ck (ot_contract o)) in Hf. rewrite Hf in Ek.
            inversion Ek; subst bk iss. destruct Hc as (_ & _ & (_ & _ & _ & _ & _ & K6 & _) & _).
            specialize (K6 _ (ex_intro _ _ Hk)). lia. }
      destruct Ht as [Hoth _]. exists su. rewrite (Hoth k Hne). tauto.
    + specialize (Ht k). rewrite Hs in Ht. destruct (supplies s' !! k) as [su'|]; [|contradiction]. eauto.
  - destruct Hm as (Hm0 & Hm & _). pose proof (admin_credit_frame _ _ _ _ _ _ Hm Hvb H) as F.
    apply seal_rel_eqs; [apply (cf_batches _ _ F)|]. intros k su Hk. exists su. rewrite (cf_supplies _ _ F). tauto.
  - destruct Hm as (Hm0 & _ & Hm & _). destruct (basket_core_step _ _ _ _ _ _ Hm Hc Hvb H) as [_ S].
    apply seal_rel_eqs; [apply (InvBasketLib.so_batches _ _ S)|]. intros k su Hk.
    destruct (InvBasketLib.so_sup _ _ S _ _ Hk) as (su' & E' & _ & _ & HT). eauto.
  - destruct Hm as (Hm0 & _ & _ & Hm).
    apply seal_rel_eqs.
    + pose proof (market_frame e s m s' r evs Hm Hc Hb Hvb H) as ->. reflexivity.
    + destruct (market_total_effect e s m s' r evs Hm Hc Hb Hvb H) as (A & _). intros k su Hk.
      destruct (A _ _ Hk) as (su' & E' & HT). exists su'. split; [exact E' | unfold T; lia].
Qed.

Theorem reaches_seal_rel g s1 s2 : Inv_run g -> reaches g s1 -> reaches s1 s2 -> seal_rel s1 s2.
Proof.
  intros Hg H1 H2. destruct (reaches_preserves_run g s1 Hg H1) as [Hs1 _].
  refine (proj2 (reaches_inv_rel Inv_run seal_rel seal_rel_refl seal_rel_trans _ _ s1 s2 Hs1 H2)).
  - intros t a b Ha Hab. split; [apply (begin_block_preserves_run t a b Ha Hab)|].
    destruct Ha as (Hc & _). unfold begin_block in Hab.
    destruct (prune_frame t a b Hc Hab) as (E1 & _ & _ & _ & E2 & _).
    apply seal_rel_eqs; [exact E2|]. intros k su Hk. exists su. rewrite E1. tauto.
  - intros e a m Ha. split; [apply (deliver_preserves_run e a m Ha)|].
    apply (deliver_lift seal_rel); [apply seal_rel_refl|]. intros s' r evs Hvb H. eapply handle_seal_rel; eassumption.
Qed.

(* C02, sealed batches, readable form *)
Theorem sealed_batches_are_final g s1 s2 k ba su :
  Inv_run g -> reaches g s1 -> reaches s1 s2 ->
  batches s1 !! k = Some ba -> ba_open ba = false -> supplies s1 !! k = Some su ->
  exists ba' su', batches s2 !! k = Some ba' /\ ba_open ba' = false /\ ba_denom ba' = ba_denom ba /\
                  supplies s2 !! k = Some su' /\ T su' = T su.
Proof.
  intros Hg H1 H2 Hk Ho Hs. destruct (reaches_seal_rel g s1 s2 Hg H1 H2) as [A B].
  destruct (A _ _ Hk) as (ba' & Hk' & St). destruct (B _ _ _ Hk Ho Hs) as (su' & Hs' & HT).
  exists ba', su'. split; [exact Hk'|]. split; [apply St; exact Ho|]. split; [apply St|]. tauto.
Qed.

(* C08: a sealed batch row never changes at all (open flag, metadata, dates, issuer, project, denom) and its
   total tradable + retired + cancelled stays what it was when the batch was sealed *)
Theorem sealed_batch_row_is_final g s1 s2 k ba su :
  Inv_run g -> reaches g s1 -> reaches s1 s2 ->
  batches s1 !! k = Some ba -> ba_open ba = false -> supplies s1 !! k = Some su ->
  batches s2 !! k = Some ba /\ exists su', supplies s2 !! k = Some su' /\ T su' = T su.
Proof.
  intros Hg H1 H2 Hk Ho Hs. destruct (reaches_seal_rel g s1 s2 Hg H1 H2) as [A B].
  destruct (A _ _ Hk) as (ba' & Hk' & St). split; [|exact (B _ _ _ Hk Ho Hs)].
  rewrite Hk'. f_equal. destruct St as (E1 & E2 & E3 & E4 & E5 & E6 & E7 & E8).
  specialize (E7 Ho). specialize (E8 Ho). destruct ba, ba'. cbn in *. congruence.
Qed.

