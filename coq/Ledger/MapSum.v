(* Sums over finite maps and how insert / delete change them.  Proof file (std++). *)
From stdpp Require Import gmap.
From Coq Require Import ZArith Lia.
Local Open Scope Z_scope.

Section sum_map.
  Context {K : Type} `{Countable K} {V : Type}.
  Implicit Types (f : K -> V -> Z) (m : gmap K V).

  Definition sum_map f m : Z := map_fold (fun k v acc => acc + f k v) 0 m.

  Definition old_val f m (k : K) : Z := match m !! k with Some v => f k v | None => 0 end.

  Lemma sum_map_empty f : sum_map f ∅ = 0.
  Proof. unfold sum_map. apply map_fold_empty. Qed.

  Lemma sum_map_insert_fresh f m k v :
    m !! k = None -> sum_map f (<[k := v]> m) = sum_map f m + f k v.
  Proof.
    intros Hk. unfold sum_map.
    rewrite (map_fold_insert_L (fun k v acc => acc + f k v) 0 k v m); [reflexivity | | exact Hk].
    intros. lia.
  Qed.

  Lemma sum_map_delete f m k :
    sum_map f (delete k m) = sum_map f m - old_val f m k.
  Proof.
    unfold old_val. destruct (m !! k) as [v|] eqn:E.
    - rewrite <- (insert_delete m k v E) at 2.
      rewrite sum_map_insert_fresh by apply lookup_delete. lia.
    - rewrite delete_notin by exact E. lia.
  Qed.

  Lemma sum_map_insert f m k v :
    sum_map f (<[k := v]> m) = sum_map f m - old_val f m k + f k v.
  Proof.
    rewrite <- insert_delete_insert.
    rewrite sum_map_insert_fresh by apply lookup_delete.
    rewrite sum_map_delete. lia.
  Qed.

  Lemma sum_map_ext f g m :
    (forall k v, m !! k = Some v -> f k v = g k v) -> sum_map f m = sum_map g m.
  Proof.
    induction m as [|k v m Hk IH] using map_ind; intros Hfg.
    - rewrite !sum_map_empty. reflexivity.
    - rewrite !sum_map_insert_fresh by exact Hk.
      rewrite IH.
      + rewrite (Hfg k v) by apply lookup_insert. reflexivity.
      + intros k' v' Hk'. apply Hfg. rewrite lookup_insert_ne; [exact Hk' | intros ->; congruence].
  Qed.

  Lemma sum_map_nonneg f m :
    (forall k v, m !! k = Some v -> 0 <= f k v) -> 0 <= sum_map f m.
  Proof.
    induction m as [|k v m Hk IH] using map_ind; intros Hf.
    - rewrite sum_map_empty. lia.
    - rewrite sum_map_insert_fresh by exact Hk.
      assert (0 <= f k v) by (apply Hf, lookup_insert).
      assert (0 <= sum_map f m).
      { apply IH. intros k' v' Hk'. apply Hf. rewrite lookup_insert_ne; [exact Hk' | intros ->; congruence]. }
      lia.
  Qed.

  Lemma sum_map_const0 m : sum_map (fun _ _ => 0) m = 0.
  Proof.
    induction m as [|k v m Hk IH] using map_ind.
    - apply sum_map_empty.
    - rewrite sum_map_insert_fresh by exact Hk. lia.
  Qed.

  Lemma sum_map_zero f m :
    (forall k v, m !! k = Some v -> f k v = 0) -> sum_map f m = 0.
  Proof.
    intros Hf. rewrite (sum_map_ext f (fun _ _ => 0) m Hf). apply sum_map_const0.
  Qed.

  (* a single entry bounds the sum from below when all summands are non-negative *)
  Lemma sum_map_ge_entry f m k v :
    (forall k v, m !! k = Some v -> 0 <= f k v) -> m !! k = Some v -> f k v <= sum_map f m.
  Proof.
    intros Hf Hk. rewrite <- (insert_delete m k v Hk).
    rewrite sum_map_insert_fresh by apply lookup_delete.
    assert (0 <= sum_map f (delete k m)).
    { apply sum_map_nonneg. intros k' v' Hk'. apply Hf.
      apply lookup_delete_Some in Hk'. tauto. }
    lia.
  Qed.
End sum_map.
