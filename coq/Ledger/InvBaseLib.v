(* Library for the preservation proofs of the base-module credit handlers
   (CreateBatch, MintBatchCredits, Send, Retire, Cancel, Bridge, BridgeReceive, SealBatch,
   UpdateBatchMetadata).  Proof file.

   Method.  Every handler is a sequence of two atomic writes
     save_balance a k b      (one balance row)
     set_supply k v          (one supply row)
   (plus writes to tables the invariants do not mention).  The conservation invariant is not
   preserved by a single write, so it is generalised to [cons_d bk dt dr], "conservation holds up
   to the pending deltas dt, dr on batch bk"; each atomic write shifts the deltas, and a handler
   step is closed by showing that the deltas are 0 again ([lia] on units). *)
From stdpp Require Import gmap.
From RecordUpdate Require Import RecordSet.
From Coq Require Import ZArith NArith List Bool Lia Strings.Byte.
Require Import Regen.Base.Bytes Regen.Base.Calendar Regen.Dec.Dec Regen.Dec.DecIface.
Require Import Regen.Ledger.Types Regen.Ledger.Msgs Regen.Ledger.Orm Regen.Ledger.BaseMsgs
               Regen.Ledger.BasketMsgs Regen.Ledger.MarketMsgs Regen.Ledger.Step
               Regen.Ledger.Amount Regen.Ledger.MapSum Regen.Ledger.Inv Regen.Ledger.InvTactics.
Import ListNotations RecordSetNotations.
Local Open Scope Z_scope.

(* ------------------------------------------------------------------ *)
(* lfold                                                               *)
(* ------------------------------------------------------------------ *)

Lemma lfold_preserves {A B} (f : A -> B -> lres A) (I : A -> Prop) :
  (forall a x a', I a -> f a x = LOk a' -> I a') ->
  forall l a a', I a -> lfold f l a = LOk a' -> I a'.
Proof.
  intros Hstep l. induction l as [|x l IH]; intros a a' Ha Hl; cbn [lfold] in Hl.
  - inversion Hl; subst a'; exact Ha.
  - apply lbind_ok in Hl. destruct Hl as (a1 & H1 & H2).
    eapply IH; [|exact H2]. eapply Hstep; [exact Ha | exact H1].
Qed.

Lemma lfold_rel {A B} (f : A -> B -> lres A) (I : A -> Prop) (R : A -> A -> Prop) :
  (forall a, R a a) -> (forall a1 a2 a3, R a1 a2 -> R a2 a3 -> R a1 a3) ->
  (forall a x a', I a -> f a x = LOk a' -> I a' /\ R a a') ->
  forall l a a', I a -> lfold f l a = LOk a' -> I a' /\ R a a'.
Proof.
  intros Hrefl Htrans Hstep l. induction l as [|x l IH]; intros a a' Ha Hl; cbn [lfold] in Hl.
  - inversion Hl; subst a'. split; [exact Ha | apply Hrefl].
  - apply lbind_ok in Hl. destruct Hl as (a1 & H1 & H2).
    destruct (Hstep _ _ _ Ha H1) as [Ha1 HR1].
    destruct (IH _ _ Ha1 H2) as [Ha' HR2].
    split; [exact Ha' | eapply Htrans; [exact HR1 | exact HR2]].
Qed.

(* ------------------------------------------------------------------ *)
(* map_find / map_exists completeness                                  *)
(* ------------------------------------------------------------------ *)

Lemma map_find_None {K V} `{Countable K} (Pb : K -> V -> bool) (m : gmap K V) :
  map_find Pb m = None -> forall k v, m !! k = Some v -> Pb k v = false.
Proof.
  unfold map_find. intros Hh k v Hk.
  destruct (Pb k v) eqn:E; [|reflexivity]. exfalso.
  assert (Hin : In (k, v) (List.filter (fun kv => Pb kv.1 kv.2) (map_to_list m))).
  { apply filter_In. split; [|exact E]. apply elem_of_list_In. apply elem_of_map_to_list. exact Hk. }
  destruct (List.filter _ _) as [|x l]; [exact Hin | discriminate Hh].
Qed.

Lemma map_exists_false {K V} `{Countable K} (Pb : K -> V -> bool) (m : gmap K V) :
  map_exists Pb m = false -> forall k v, m !! k = Some v -> Pb k v = false.
Proof.
  unfold map_exists. destruct (map_find Pb m) as [p|] eqn:E; [discriminate|].
  intros _. apply map_find_None. exact E.
Qed.

(* ------------------------------------------------------------------ *)
(* precision and parsed amounts                                        *)
(* ------------------------------------------------------------------ *)

Lemma credit_type_of_denom_prec s d ct :
  Inv_ct s -> credit_type_of_denom s d = LOk ct -> ct_precision ct = P.
Proof.
  intros Hct H. unfold credit_type_of_denom in H.
  lstep H as p Hp. destruct p as [ck cl]. apply from_option_ok in H.
  eapply Hct; exact H.
Qed.

Lemma nnfixed_in_ok str d : nnfixed P str = Ok d -> in_ok d.
Proof. unfold nnfixed. intros H. apply nnfixed_ok in H. exact H. Qed.

Lemma in_ok_dzero : in_ok dzero.
Proof. apply stored_in_ok, stored_ok_zero. Qed.

(* units of a wire amount string at precision 6; 0 when the string is rejected *)
Definition amt_units (str : bytes) : Z :=
  match nnfixed P str with Ok d => U d | Err _ => 0 end.

Lemma amt_units_ok str d : nnfixed P str = Ok d -> amt_units str = U d.
Proof. unfold amt_units. intros ->. reflexivity. Qed.

(* C02: the number of units a list of issuances creates *)
Definition issued_units (iss : list issuance) : Z :=
  fold_right (fun i acc => amt_units (is_tradable i) + amt_units (is_retired i) + acc) 0 iss.

(* batch total *)
Definition T (su : supply) : Z := U (su_tradable su) + U (su_retired su) + U (su_cancelled su).

(* ------------------------------------------------------------------ *)
(* atomic writes                                                       *)
(* ------------------------------------------------------------------ *)

Definition set_supply (k : N) (v : supply) (s : state) : state :=
  s <| supplies := <[k := v]> (supplies s) |>.

Lemma update_balance_ok' a k b s s' :
  update_balance a k b s = LOk s' -> s' = save_balance a k b s /\ is_Some (balances s !! (a, k)).
Proof. intros H. apply update_balance_ok in H. exact H. Qed.

Lemma update_supply_ok' k v s s' :
  update_supply k v s = LOk s' -> s' = set_supply k v s /\ is_Some (supplies s !! k).
Proof. intros H. apply update_supply_ok in H. exact H. Qed.

Lemma balances_save a k b s : balances (save_balance a k b s) = <[(a, k) := b]> (balances s).
Proof. reflexivity. Qed.
Lemma supplies_save a k b s : supplies (save_balance a k b s) = supplies s.
Proof. reflexivity. Qed.
Lemma batches_save a k b s : batches (save_balance a k b s) = batches s.
Proof. reflexivity. Qed.
Lemma balances_set_supply k v s : balances (set_supply k v s) = balances s.
Proof. reflexivity. Qed.
Lemma supplies_set_supply k v s : supplies (set_supply k v s) = <[k := v]> (supplies s).
Proof. reflexivity. Qed.
Lemma batches_set_supply k v s : batches (set_supply k v s) = batches s.
Proof. reflexivity. Qed.

Lemma get_balance_save a k b s a' k' :
  get_balance (save_balance a k b s) a' k' =
  if decide ((a, k) = (a', k')) then b else get_balance s a' k'.
Proof.
  unfold get_balance. rewrite balances_save.
  destruct (decide ((a, k) = (a', k'))) as [Heq|Hne].
  - rewrite Heq, lookup_insert. reflexivity.
  - rewrite lookup_insert_ne by exact Hne. reflexivity.
Qed.

Lemma get_balance_save_eq a k b s : get_balance (save_balance a k b s) a k = b.
Proof. rewrite get_balance_save. destruct (decide _) as [_|Hne]; [reflexivity | congruence]. Qed.

Lemma get_balance_set_supply k v s a' k' : get_balance (set_supply k v s) a' k' = get_balance s a' k'.
Proof. reflexivity. Qed.

Lemma get_balance_Some s a k b : balances s !! (a, k) = Some b -> get_balance s a k = b.
Proof. unfold get_balance. intros ->. reflexivity. Qed.

Lemma get_balance_ok s a k : Inv_scale s -> balance_ok (get_balance s a k).
Proof.
  intros (Hb & _). unfold get_balance.
  destruct (balances s !! (a, k)) as [b|] eqn:E; cbn; [eapply Hb; exact E | apply zero_balance_ok].
Qed.

(* ------------------------------------------------------------------ *)
(* conservation up to pending deltas                                   *)
(* ------------------------------------------------------------------ *)

Definition cons_d (bk : N) (dt dr : Z) (s : state) : Prop :=
  forall bk' ba su, batches s !! bk' = Some ba -> supplies s !! bk' = Some su ->
    U (su_tradable su) + (if (bk' =? bk)%N then dt else 0) =
      bal_sum tradable_escrowed bk' (balances s) + bb_sum (ba_denom ba) (basket_balances s) /\
    U (su_retired su) + (if (bk' =? bk)%N then dr else 0) = bal_sum retired_of bk' (balances s).

Lemma cons_d_intro bk s : Inv_cons s -> cons_d bk 0 0 s.
Proof.
  intros Hc bk' ba su Hba Hsu. destruct (Hc _ _ _ Hba Hsu) as [H1 H2].
  destruct (bk' =? bk)%N; split; lia.
Qed.

Lemma cons_d_elim bk dt dr s : cons_d bk dt dr s -> dt = 0 -> dr = 0 -> Inv_cons s.
Proof.
  intros Hc -> -> bk' ba su Hba Hsu. destruct (Hc _ _ _ Hba Hsu) as [H1 H2].
  destruct (bk' =? bk)%N; split; lia.
Qed.

Lemma bal_sum_save g a k b s bk :
  g zero_balance = 0 ->
  bal_sum g bk (balances (save_balance a k b s)) =
  bal_sum g bk (balances s) + (if (k =? bk)%N then g b - g (get_balance s a k) else 0).
Proof.
  intros Hg. rewrite balances_save, bal_sum_insert. unfold get_balance.
  destruct (k =? bk)%N; [|lia].
  destruct (balances s !! (a, k)); cbn; [lia | rewrite Hg; lia].
Qed.

Lemma cons_d_save_balance a bk b dt dr s :
  cons_d bk dt dr s ->
  cons_d bk (dt + (tradable_escrowed b - tradable_escrowed (get_balance s a bk)))
            (dr + (retired_of b - retired_of (get_balance s a bk))) (save_balance a bk b s).
Proof.
  intros Hc bk' ba su Hba Hsu. rewrite batches_save in Hba. rewrite supplies_save in Hsu.
  destruct (Hc _ _ _ Hba Hsu) as [H1 H2].
  rewrite !bal_sum_save by reflexivity.
  change (basket_balances (save_balance a bk b s)) with (basket_balances s).
  rewrite (N.eqb_sym bk bk'). destruct (bk' =? bk)%N; split; lia.
Qed.

Lemma cons_d_set_supply bk su0 v dt dr s :
  supplies s !! bk = Some su0 -> cons_d bk dt dr s ->
  cons_d bk (dt + (U (su_tradable su0) - U (su_tradable v)))
            (dr + (U (su_retired su0) - U (su_retired v))) (set_supply bk v s).
Proof.
  intros Hsu0 Hc bk' ba su Hba Hsu. rewrite batches_set_supply in Hba. rewrite supplies_set_supply in Hsu.
  rewrite balances_set_supply. change (basket_balances (set_supply bk v s)) with (basket_balances s).
  destruct (bk' =? bk)%N eqn:E.
  - apply N.eqb_eq in E. subst bk'. rewrite lookup_insert in Hsu. inversion Hsu; subst su.
    destruct (Hc _ _ _ Hba Hsu0) as [H1 H2]. rewrite N.eqb_refl in H1, H2. split; lia.
  - apply N.eqb_neq in E. rewrite lookup_insert_ne in Hsu by congruence.
    destruct (Hc _ _ _ Hba Hsu) as [H1 H2].
    apply N.eqb_neq in E. rewrite E in H1, H2. split; lia.
Qed.

(* ------------------------------------------------------------------ *)
(* the other invariants under the atomic writes                        *)
(* ------------------------------------------------------------------ *)

Definition Inv_d (bk : N) (dt dr : Z) (s : state) : Prop :=
  Inv_ct s /\ Inv_scale s /\ Inv_keys s /\ cons_d bk dt dr s /\ Inv_escrow s.

Lemma Inv_d_intro bk s : Inv_core s -> Inv_d bk 0 0 s.
Proof.
  intros (H1 & H2 & H3 & H4 & H5). unfold Inv_d.
  split; [exact H1|]. split; [exact H2|]. split; [exact H3|]. split; [apply cons_d_intro; exact H4 | exact H5].
Qed.

Lemma Inv_d_elim bk dt dr s : Inv_d bk dt dr s -> dt = 0 -> dr = 0 -> Inv_core s.
Proof.
  intros (H1 & H2 & H3 & H4 & H5) Hdt Hdr. unfold Inv_core.
  split; [exact H1|]. split; [exact H2|]. split; [exact H3|].
  split; [eapply cons_d_elim; [exact H4 | exact Hdt | exact Hdr] | exact H5].
Qed.

Lemma save_balance_scale a k b s : Inv_scale s -> balance_ok b -> Inv_scale (save_balance a k b s).
Proof.
  intros (H1 & H2 & H3 & H4) Hb. split; [|exact (conj H2 (conj H3 H4))].
  intros k0 b0 Hk. rewrite balances_save in Hk.
  destruct (decide ((a, k) = k0)) as [Heq|Hne].
  - subst k0. rewrite lookup_insert in Hk. inversion Hk; subst b0; exact Hb.
  - rewrite lookup_insert_ne in Hk by exact Hne. eapply H1; exact Hk.
Qed.

Lemma save_balance_keys a k b s : Inv_keys s -> is_Some (batches s !! k) -> Inv_keys (save_balance a k b s).
Proof.
  intros (K1 & K2 & K3 & K4 & K5 & K6 & K7 & K8) Hk.
  split; [exact K1|]. split; [exact K2|]. split; [|exact (conj K4 (conj K5 (conj K6 (conj K7 K8))))].
  intros a0 k0 b0 H0. rewrite balances_save in H0. rewrite batches_save.
  destruct (decide ((a, k) = (a0, k0))) as [Heq|Hne].
  - inversion Heq; subst a0 k0. exact Hk.
  - rewrite lookup_insert_ne in H0 by exact Hne. eapply K3; exact H0.
Qed.

Lemma save_balance_escrow a k b s :
  Inv_escrow s -> bl_escrowed b = bl_escrowed (get_balance s a k) -> Inv_escrow (save_balance a k b s).
Proof.
  intros He Hb a' k'. rewrite get_balance_save.
  change (sell_orders (save_balance a k b s)) with (sell_orders s).
  destruct (decide ((a, k) = (a', k'))) as [Heq|Hne].
  - inversion Heq; subst a' k'. rewrite Hb. apply He.
  - apply He.
Qed.

Lemma Inv_d_save_balance a bk b dt dr s :
  Inv_d bk dt dr s -> is_Some (batches s !! bk) -> balance_ok b ->
  bl_escrowed b = bl_escrowed (get_balance s a bk) ->
  Inv_d bk (dt + (tradable_escrowed b - tradable_escrowed (get_balance s a bk)))
           (dr + (retired_of b - retired_of (get_balance s a bk))) (save_balance a bk b s).
Proof.
  intros (H1 & H2 & H3 & H4 & H5) Hk Hb He. unfold Inv_d.
  split; [exact H1|].
  split; [apply save_balance_scale; assumption|].
  split; [apply save_balance_keys; assumption|].
  split; [apply cons_d_save_balance; exact H4|].
  apply save_balance_escrow; assumption.
Qed.

Lemma set_supply_scale k v s : Inv_scale s -> supply_ok v -> Inv_scale (set_supply k v s).
Proof.
  intros (H1 & H2 & H3 & H4) Hv. split; [exact H1|]. split; [|exact (conj H3 H4)].
  intros k0 su Hk. rewrite supplies_set_supply in Hk.
  destruct (decide (k = k0)) as [Heq|Hne].
  - subst k0. rewrite lookup_insert in Hk. inversion Hk; subst su; exact Hv.
  - rewrite lookup_insert_ne in Hk by exact Hne. eapply H2; exact Hk.
Qed.

Lemma set_supply_keys k v s : Inv_keys s -> is_Some (supplies s !! k) -> Inv_keys (set_supply k v s).
Proof.
  intros (K1 & K2 & K3 & K4 & K5 & K6 & K7 & K8) Hk.
  split; [exact K1|]. split; [|exact (conj K3 (conj K4 (conj K5 (conj K6 (conj K7 K8)))))].
  intros k0. rewrite supplies_set_supply, batches_set_supply.
  destruct (decide (k = k0)) as [Heq|Hne].
  - subst k0. rewrite lookup_insert. rewrite K2. split; intros _; [eauto | exact Hk].
  - rewrite lookup_insert_ne by exact Hne. apply K2.
Qed.

Lemma Inv_d_set_supply bk su0 v dt dr s :
  Inv_d bk dt dr s -> supplies s !! bk = Some su0 -> supply_ok v ->
  Inv_d bk (dt + (U (su_tradable su0) - U (su_tradable v)))
           (dr + (U (su_retired su0) - U (su_retired v))) (set_supply bk v s).
Proof.
  intros (H1 & H2 & H3 & H4 & H5) Hsu Hv. unfold Inv_d.
  split; [exact H1|].
  split; [apply set_supply_scale; assumption|].
  split; [apply set_supply_keys; [assumption | rewrite Hsu; eauto]|].
  split; [apply cons_d_set_supply; assumption|].
  exact H5.
Qed.

(* ------------------------------------------------------------------ *)
(* frame: states that agree on every field the core invariant reads     *)
(* ------------------------------------------------------------------ *)

Definition core_eq (s s' : state) : Prop :=
  credit_types s' = credit_types s /\ balances s' = balances s /\ supplies s' = supplies s /\
  batches s' = batches s /\ batch_seq_id s' = batch_seq_id s /\
  baskets s' = baskets s /\ basket_seq_id s' = basket_seq_id s /\ basket_balances s' = basket_balances s /\
  sell_orders s' = sell_orders s /\ sell_order_seq_id s' = sell_order_seq_id s /\
  bank s' = bank s /\ bank_supply s' = bank_supply s.

Lemma core_eq_refl s : core_eq s s.
Proof. unfold core_eq. repeat split. Qed.

Lemma core_eq_inv s s' : core_eq s s' -> Inv_core s -> Inv_core s'.
Proof.
  intros (E1 & E2 & E3 & E4 & E5 & E6 & E7 & E8 & E9 & E10 & E11 & E12) (H1 & H2 & H3 & H4 & H5).
  unfold Inv_core, Inv_ct, Inv_scale, Inv_keys, Inv_cons, Inv_escrow, get_balance in *.
  rewrite E1, E2, E3, E4, E5, E6, E7, E8, E9, E10.
  split; [exact H1|]. split; [exact H2|]. split; [exact H3|]. split; [exact H4 | exact H5].
Qed.

(* ------------------------------------------------------------------ *)
(* relation between pre- and post-state: what never changes, what only grows *)
(* ------------------------------------------------------------------ *)

(* the immutable part of a batch row, and the one-way seal *)
Definition batch_static (ba ba' : batch) : Prop :=
  ba_denom ba' = ba_denom ba /\ ba_start ba' = ba_start ba /\ ba_end ba' = ba_end ba /\
  ba_project_key ba' = ba_project_key ba /\ ba_issuer ba' = ba_issuer ba /\
  ba_issuance ba' = ba_issuance ba /\ (ba_open ba = false -> ba_open ba' = false) /\
  (ba_open ba = false -> ba_metadata ba' = ba_metadata ba).

Lemma batch_static_refl ba : batch_static ba ba.
Proof. unfold batch_static. repeat split; auto. Qed.

Lemma batch_static_trans b1 b2 b3 : batch_static b1 b2 -> batch_static b2 b3 -> batch_static b1 b3.
Proof.
  intros (A1 & A2 & A3 & A4 & A5 & A6 & A7 & A8) (B1 & B2 & B3 & B4 & B5 & B6 & B7 & B8). unfold batch_static.
  split; [congruence|]. split; [congruence|]. split; [congruence|]. split; [congruence|].
  split; [congruence|]. split; [congruence|]. split; [auto|].
  intros Ho. rewrite (B8 (A7 Ho)). apply A8. exact Ho.
Qed.

Record base_rel (s s' : state) : Prop := {
  br_baskets : baskets s' = baskets s;
  br_basket_balances : basket_balances s' = basket_balances s;
  br_bank : bank s' = bank s;
  br_bank_supply : bank_supply s' = bank_supply s;
  br_sell_orders : sell_orders s' = sell_orders s;
  br_credit_types : credit_types s' = credit_types s;
  (* C04: retired amounts never decrease *)
  br_retired : forall a k, U (bl_retired (get_balance s a k)) <= U (bl_retired (get_balance s' a k));
  br_supplies : forall k su, supplies s !! k = Some su ->
     exists su', supplies s' !! k = Some su' /\
       U (su_retired su) <= U (su_retired su') /\ U (su_cancelled su) <= U (su_cancelled su');
  br_batches : forall k ba, batches s !! k = Some ba ->
     exists ba', batches s' !! k = Some ba' /\ batch_static ba ba'
}.

Lemma base_rel_refl s : base_rel s s.
Proof.
  split; [reflexivity|reflexivity|reflexivity|reflexivity|reflexivity|reflexivity| | | ].
  - intros a k. apply Z.le_refl.
  - intros k su Hk. exists su. split; [exact Hk | lia].
  - intros k ba Hk. exists ba. split; [exact Hk | apply batch_static_refl].
Qed.

Lemma base_rel_trans s1 s2 s3 : base_rel s1 s2 -> base_rel s2 s3 -> base_rel s1 s3.
Proof.
  intros A B. split.
  - rewrite (br_baskets _ _ B). apply (br_baskets _ _ A).
  - rewrite (br_basket_balances _ _ B). apply (br_basket_balances _ _ A).
  - rewrite (br_bank _ _ B). apply (br_bank _ _ A).
  - rewrite (br_bank_supply _ _ B). apply (br_bank_supply _ _ A).
  - rewrite (br_sell_orders _ _ B). apply (br_sell_orders _ _ A).
  - rewrite (br_credit_types _ _ B). apply (br_credit_types _ _ A).
  - intros a k. pose proof (br_retired _ _ A a k). pose proof (br_retired _ _ B a k). lia.
  - intros k su Hk. destruct (br_supplies _ _ A k su Hk) as (su2 & Hk2 & Hr2 & Hc2).
    destruct (br_supplies _ _ B k su2 Hk2) as (su3 & Hk3 & Hr3 & Hc3).
    exists su3. split; [exact Hk3 | lia].
  - intros k ba Hk. destruct (br_batches _ _ A k ba Hk) as (b2 & Hk2 & Hs2).
    destruct (br_batches _ _ B k b2 Hk2) as (b3 & Hk3 & Hs3).
    exists b3. split; [exact Hk3 | eapply batch_static_trans; [exact Hs2 | exact Hs3]].
Qed.

Lemma base_rel_core_eq s s' : core_eq s s' -> base_rel s s'.
Proof.
  intros (E1 & E2 & E3 & E4 & E5 & E6 & E7 & E8 & E9 & E10 & E11 & E12).
  split; [assumption|assumption|assumption|assumption|assumption|assumption| | | ].
  - intros a k. unfold get_balance. rewrite E2. apply Z.le_refl.
  - intros k su Hk. exists su. rewrite E3. split; [exact Hk | lia].
  - intros k ba Hk. exists ba. rewrite E4. split; [exact Hk | apply batch_static_refl].
Qed.

Lemma base_rel_save_balance a k b s :
  U (bl_retired (get_balance s a k)) <= U (bl_retired b) -> base_rel s (save_balance a k b s).
Proof.
  intros Hle. split; [reflexivity|reflexivity|reflexivity|reflexivity|reflexivity|reflexivity| | | ].
  - intros a' k'. rewrite get_balance_save. destruct (decide ((a, k) = (a', k'))) as [Heq|Hne].
    + inversion Heq; subst a' k'. exact Hle.
    + apply Z.le_refl.
  - intros k' su Hk. exists su. rewrite supplies_save. split; [exact Hk | lia].
  - intros k' ba Hk. exists ba. rewrite batches_save. split; [exact Hk | apply batch_static_refl].
Qed.

Lemma base_rel_set_supply k su v s :
  supplies s !! k = Some su ->
  U (su_retired su) <= U (su_retired v) -> U (su_cancelled su) <= U (su_cancelled v) ->
  base_rel s (set_supply k v s).
Proof.
  intros Hsu Hr Hc. split; [reflexivity|reflexivity|reflexivity|reflexivity|reflexivity|reflexivity| | | ].
  - intros a' k'. rewrite get_balance_set_supply. apply Z.le_refl.
  - intros k' su' Hk. rewrite supplies_set_supply. destruct (decide (k = k')) as [Heq|Hne].
    + subst k'. rewrite lookup_insert. exists v. rewrite Hsu in Hk. inversion Hk; subst su'.
      split; [reflexivity | lia].
    + rewrite lookup_insert_ne by exact Hne. exists su'. split; [exact Hk | lia].
  - intros k' ba Hk. exists ba. rewrite batches_set_supply. split; [exact Hk | apply batch_static_refl].
Qed.

(* ------------------------------------------------------------------ *)
(* C02: effect on batch totals                                         *)
(* ------------------------------------------------------------------ *)

(* every supply row of s' was already there with the same total: no issuance *)
Definition totals_same (s s' : state) : Prop :=
  forall k su', supplies s' !! k = Some su' -> exists su, supplies s !! k = Some su /\ T su' = T su.

(* the total of batch bk grows by n, every other supply row is untouched *)
Definition totals_mint (bk : N) (n : Z) (s s' : state) : Prop :=
  (forall k, k <> bk -> supplies s' !! k = supplies s !! k) /\
  exists su su', supplies s !! bk = Some su /\ supplies s' !! bk = Some su' /\ T su' = T su + n.

(* exactly one new supply row bk, with total n *)
Definition totals_create (bk : N) (n : Z) (s s' : state) : Prop :=
  supplies s !! bk = None /\
  (forall k, k <> bk -> supplies s' !! k = supplies s !! k) /\
  exists su', supplies s' !! bk = Some su' /\ T su' = n.

Lemma totals_same_refl s : totals_same s s.
Proof. intros k su Hk. exists su. split; [exact Hk | reflexivity]. Qed.

Lemma totals_same_trans s1 s2 s3 : totals_same s1 s2 -> totals_same s2 s3 -> totals_same s1 s3.
Proof.
  intros A B k su3 Hk3. destruct (B k su3 Hk3) as (su2 & Hk2 & E2).
  destruct (A k su2 Hk2) as (su1 & Hk1 & E1). exists su1. split; [exact Hk1 | lia].
Qed.

Lemma totals_same_supplies_eq s s' : supplies s' = supplies s -> totals_same s s'.
Proof. intros E k su Hk. rewrite E in Hk. exists su. split; [exact Hk | reflexivity]. Qed.

Lemma totals_same_set_supply k su v s :
  supplies s !! k = Some su -> T v = T su -> totals_same s (set_supply k v s).
Proof.
  intros Hsu HT k' su' Hk. rewrite supplies_set_supply in Hk. destruct (decide (k = k')) as [Heq|Hne].
  - subst k'. rewrite lookup_insert in Hk. inversion Hk; subst su'. exists su. split; [exact Hsu | exact HT].
  - rewrite lookup_insert_ne in Hk by exact Hne. exists su'. split; [exact Hk | reflexivity].
Qed.

Lemma totals_mint_zero bk s su : supplies s !! bk = Some su -> totals_mint bk 0 s s.
Proof.
  intros Hsu. split; [reflexivity|]. exists su, su. split; [exact Hsu|]. split; [exact Hsu | lia].
Qed.

Lemma totals_mint_trans bk n1 n2 s1 s2 s3 :
  totals_mint bk n1 s1 s2 -> totals_mint bk n2 s2 s3 -> totals_mint bk (n1 + n2) s1 s3.
Proof.
  intros (A1 & su1 & su2 & Ha & Hb & Hc) (B1 & su2' & su3 & Hd & He & Hf).
  rewrite Hb in Hd. inversion Hd; subst su2'.
  split.
  - intros k Hk. rewrite (B1 k Hk). apply A1. exact Hk.
  - exists su1, su3. split; [exact Ha|]. split; [exact He | lia].
Qed.

Lemma totals_mint_set_supply bk su v n s :
  supplies s !! bk = Some su -> T v = T su + n -> totals_mint bk n s (set_supply bk v s).
Proof.
  intros Hsu HT. split.
  - intros k Hk. rewrite supplies_set_supply. rewrite lookup_insert_ne by congruence. reflexivity.
  - exists su, v. split; [exact Hsu|]. split; [|exact HT]. rewrite supplies_set_supply. apply lookup_insert.
Qed.

Lemma totals_mint_eq_l bk n s1 s2 s3 :
  supplies s2 = supplies s1 -> totals_mint bk n s2 s3 -> totals_mint bk n s1 s3.
Proof. intros E. unfold totals_mint. rewrite E. auto. Qed.

(* ------------------------------------------------------------------ *)
(* non-negativity of the sums, needed where the implementation uses a plain Sub *)
(* ------------------------------------------------------------------ *)

Lemma stored_U_nonneg d : stored_ok d -> 0 <= U d.
Proof. intros H. apply in_ok_U_nonneg, stored_in_ok, H. Qed.

Lemma tradable_escrowed_nonneg b : balance_ok b -> 0 <= tradable_escrowed b.
Proof.
  intros (H1 & H2 & H3). unfold tradable_escrowed.
  pose proof (stored_U_nonneg _ H1). pose proof (stored_U_nonneg _ H3). lia.
Qed.

Lemma bal_sum_ge_entry s a bk b :
  Inv_scale s -> balances s !! (a, bk) = Some b ->
  tradable_escrowed b <= bal_sum tradable_escrowed bk (balances s).
Proof.
  intros (Hb & _) Hk. unfold bal_sum.
  pose proof (sum_map_ge_entry (fun k v => if (k.2 =? bk)%N then tradable_escrowed v else 0)
                (balances s) (a, bk) b) as Hge.
  cbn [snd] in Hge. rewrite N.eqb_refl in Hge. apply Hge; [|exact Hk].
  intros k v Hkv. destruct (k.2 =? bk)%N; [|lia]. apply tradable_escrowed_nonneg. eapply Hb; exact Hkv.
Qed.

Lemma bb_sum_nonneg s d : Inv_scale s -> 0 <= bb_sum d (basket_balances s).
Proof.
  intros (_ & _ & Hbb & _). unfold bb_sum. apply sum_map_nonneg.
  intros k v Hkv. destruct (bytes_eqb k.2 d); [|lia].
  destruct (Hbb _ _ Hkv) as [Hs _]. apply stored_U_nonneg. exact Hs.
Qed.
