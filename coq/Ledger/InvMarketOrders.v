(* C06, order well-formedness: every open sell order has a positive ask amount, its market exists and
   the market's credit type is the credit type of the class of the order's batch.  Definitions and the
   transfer lemmas used by the handler proofs. *)
From stdpp Require Import gmap.
From RecordUpdate Require Import RecordSet.
From Coq Require Import ZArith NArith List Bool Lia Strings.Byte.
Require Import Regen.Base.Bytes Regen.Base.Calendar Regen.Dec.Dec.
Require Import Regen.Ledger.Types Regen.Ledger.Msgs Regen.Ledger.Orm Regen.Ledger.BaseMsgs
               Regen.Ledger.BasketMsgs Regen.Ledger.MarketMsgs Regen.Ledger.Step
               Regen.Ledger.Amount Regen.Ledger.MapSum Regen.Ledger.Inv Regen.Ledger.InvTactics
               Regen.Ledger.InvMarketLib Regen.Ledger.InvMarketPrim.
Import ListNotations RecordSetNotations.
Local Open Scope Z_scope.

Definition order_wf (s : state) (o : sell_order) : Prop :=
  0 < so_ask_amount o /\
  exists mk ba ct, markets s !! so_market_id o = Some mk /\ batches s !! so_batch_key o = Some ba /\
    credit_type_abbrev_of_denom s (ba_denom ba) = LOk (mk_ct mk, ct).

(* the second conjunct makes the first inductive: getOrCreateMarketID inserts at market_seq_id + 1 *)
Definition Inv_orders (s : state) : Prop :=
  (forall id o, sell_orders s !! id = Some o -> order_wf s o) /\
  (forall k, is_Some (markets s !! k) -> (k <= market_seq_id s)%N).

Definition markets_grow (s s' : state) : Prop :=
  forall k mk, markets s !! k = Some mk -> markets s' !! k = Some mk.

Definition order_sim (o o' : sell_order) : Prop :=
  so_market_id o' = so_market_id o /\ so_batch_key o' = so_batch_key o /\ so_ask_amount o' = so_ask_amount o.

Lemma order_wf_grow s s' o :
  markets_grow s s' -> batches s' = batches s -> classes s' = classes s -> credit_types s' = credit_types s ->
  order_wf s o -> order_wf s' o.
Proof.
  intros Hg Hb Hc Ht (Hask & mk & ba & ct & H1 & H2 & H3).
  split; [exact Hask|]. exists mk, ba, ct. split; [apply Hg; exact H1|]. split; [rewrite Hb; exact H2|].
  rewrite (ct_abbrev_of_denom_ext s s' _ Hc Ht). exact H3.
Qed.

Lemma order_wf_sim s o o' : order_sim o o' -> order_wf s o -> order_wf s o'.
Proof. intros (H1 & H2 & H3). unfold order_wf. rewrite H1, H2, H3. tauto. Qed.

(* every order of s' is either well-formed outright or similar to an order of s *)
Lemma Inv_orders_transfer s s' :
  markets_grow s s' ->
  (forall k, is_Some (markets s' !! k) -> (k <= market_seq_id s')%N) ->
  batches s' = batches s -> classes s' = classes s -> credit_types s' = credit_types s ->
  (forall id o', sell_orders s' !! id = Some o' ->
     order_wf s' o' \/ exists id0 o, sell_orders s !! id0 = Some o /\ order_sim o o') ->
  Inv_orders s -> Inv_orders s'.
Proof.
  intros Hg Hk Hb Hc Ht Ho [I1 I2]. split; [|exact Hk].
  intros id o' Hid. destruct (Ho id o' Hid) as [Hwf|(id0 & o & H0 & Hsim)]; [exact Hwf|].
  apply (order_wf_sim s' o o' Hsim). apply (order_wf_grow s s' o Hg Hb Hc Ht). eapply I1. exact H0.
Qed.

(* steps that leave markets alone and only drop or keep orders *)
Lemma Inv_orders_sub s s' :
  markets s' = markets s -> market_seq_id s' = market_seq_id s ->
  batches s' = batches s -> classes s' = classes s -> credit_types s' = credit_types s ->
  (forall id o, sell_orders s' !! id = Some o -> sell_orders s !! id = Some o) ->
  Inv_orders s -> Inv_orders s'.
Proof.
  intros Hm Hq Hb Hc Ht Ho Hi. apply (Inv_orders_transfer s s'); try assumption.
  - intros k mk. rewrite Hm. tauto.
  - rewrite Hm, Hq. apply Hi.
  - intros id o Hid. right. exists id, o. split; [apply Ho; exact Hid|]. unfold order_sim. tauto.
Qed.

Lemma markets_grow_refl s : markets_grow s s.
Proof. intros k mk H. exact H. Qed.

(* getOrCreateMarketID *)
Lemma gocm_spec ab d s s1 id :
  get_or_create_market ab d s = (s1, id) ->
  s1 = s <| markets := markets s1 |> <| market_seq_id := market_seq_id s1 |> /\
  (exists mk, markets s1 !! id = Some mk /\ mk_ct mk = ab /\ mk_denom mk = d) /\
  ((forall k, is_Some (markets s !! k) -> (k <= market_seq_id s)%N) ->
   markets_grow s s1 /\ (forall k, is_Some (markets s1 !! k) -> (k <= market_seq_id s1)%N)).
Proof.
  unfold get_or_create_market.
  destruct (map_find _ (markets s)) as [[id0 mk0]|] eqn:E; intros H; inversion H; subst; clear H.
  - apply map_find_Some in E. destruct E as [E1 E2]. apply andb_true_iff in E2. destruct E2 as [E2 E3].
    apply bytes_eqb_eq in E2, E3.
    split; [destruct s1; reflexivity|]. split; [exists mk0; tauto|].
    intros Hk. split; [apply markets_grow_refl | exact Hk].
  - split; [destruct s; reflexivity|]. cbn. split.
    + eexists. rewrite lookup_insert. split; [reflexivity|]. cbn. tauto.
    + intros Hk. split.
      * intros k mk Hkm. cbn. rewrite lookup_insert_ne; [exact Hkm|].
        intros <-. specialize (Hk _ (ex_intro _ _ Hkm)). lia.
      * intros k Hkm. destruct (decide (k = (market_seq_id s + 1)%N)) as [->|Hne]; [lia|].
        rewrite lookup_insert_ne in Hkm by congruence. specialize (Hk _ Hkm). lia.
Qed.

Lemma markets_change_core_eq s s1 :
  s1 = s <| markets := markets s1 |> <| market_seq_id := market_seq_id s1 |> -> core_eq s s1.
Proof. intros ->. unfold core_eq. cbn. tauto. Qed.

Lemma markets_change_market_only s s1 :
  s1 = s <| markets := markets s1 |> <| market_seq_id := market_seq_id s1 |> -> market_only s s1.
Proof.
  intros H. unfold market_only, mk_frame. destruct s, s1. cbn in *. inversion H. subst. reflexivity.
Qed.

Lemma markets_change_fields s s1 :
  s1 = s <| markets := markets s1 |> <| market_seq_id := market_seq_id s1 |> ->
  balances s1 = balances s /\ supplies s1 = supplies s /\ bank_supply s1 = bank_supply s /\
  sell_orders s1 = sell_orders s /\ batches s1 = batches s /\ classes s1 = classes s /\
  credit_types s1 = credit_types s /\ allowed_denoms s1 = allowed_denoms s /\
  sell_order_seq_id s1 = sell_order_seq_id s.
Proof. intros ->. cbn. tauto. Qed.

Lemma markets_change_mframe s s1 :
  s1 = s <| markets := markets s1 |> <| market_seq_id := market_seq_id s1 |> -> mframe s s1.
Proof.
  intros H. destruct (markets_change_fields _ _ H) as (F1 & F2 & F3 & _).
  apply mframe_triv; [apply markets_change_market_only; exact H | exact F1 | exact F2 | exact F3].
Qed.

(* ------------------------------------------------------------------ *)
(* packaging                                                           *)
(* ------------------------------------------------------------------ *)

Lemma Inv_core_split s : Inv_core s <-> Inv_sk s /\ Inv_cons s /\ Inv_escrow s.
Proof. unfold Inv_core, Inv_sk. tauto. Qed.

(* stored order quantities have no positive exponent.  Together with Inv_bound this is what makes
   BeginBlock total: apd refuses to add operands whose exponents differ by more than 100000, and
   unescrowCredits adds the order quantity to the seller's tradable balance (InvMarketHalt.v shows the
   failure for a quantity stored as "1e100000").  Sell / Update / fillOrder store [to_string d], whose
   re-parse has exponent <= 0. *)
Definition qty_ok (o : sell_order) : Prop := exists d, parse (so_quantity o) = Ok d /\ dexp d <= 0.
Definition Inv_qty (s : state) : Prop := forall id o, sell_orders s !! id = Some o -> qty_ok o.

Lemma Inv_qty_transfer s s' :
  (forall id o', sell_orders s' !! id = Some o' ->
     qty_ok o' \/ exists id0 o, sell_orders s !! id0 = Some o /\ so_quantity o' = so_quantity o) ->
  Inv_qty s -> Inv_qty s'.
Proof.
  intros Ho Hi id o' Hid. destruct (Ho id o' Hid) as [Hq|(id0 & o & H0 & Heq)]; [exact Hq|].
  unfold qty_ok. rewrite Heq. eapply Hi. exact H0.
Qed.

Lemma Inv_qty_sub s s' :
  (forall id o, sell_orders s' !! id = Some o -> sell_orders s !! id = Some o) -> Inv_qty s -> Inv_qty s'.
Proof. intros Ho Hi id o Hid. eapply Hi. apply Ho. exact Hid. Qed.

(* handlers outside the marketplace do not write sell orders *)
Lemma Inv_qty_ext s s' : sell_orders s' = sell_orders s -> Inv_qty s -> Inv_qty s'.
Proof. intros H Hi id o. rewrite H. apply Hi. Qed.

Lemma Inv_bound_ext s s' : supplies s' = supplies s -> Inv_bound s -> Inv_bound s'.
Proof. intros H Hi k su. rewrite H. apply Hi. Qed.

(* what every successful marketplace step establishes from Inv_core and Inv_bound *)
Definition step_ok (s s' : state) : Prop :=
  Inv_core s' /\ mframe s s' /\ (Inv_orders s -> Inv_orders s') /\ (Inv_qty s -> Inv_qty s').

Lemma step_ok_refl s : Inv_core s -> step_ok s s.
Proof. intros H. split; [exact H|]. split; [apply mframe_refl | tauto]. Qed.

Lemma step_ok_trans s1 s2 s3 : step_ok s1 s2 -> step_ok s2 s3 -> step_ok s1 s3.
Proof.
  intros (A1 & A2 & A3 & A4) (B1 & B2 & B3 & B4). split; [exact B1|]. split; [eapply mframe_trans; eassumption | tauto].
Qed.

Lemma lfold_step {B} (f : state -> B -> lres state) (l : list B) s s' :
  (forall s x s', In x l -> Inv_core s -> Inv_bound s -> f s x = LOk s' -> step_ok s s') ->
  Inv_core s -> Inv_bound s -> lfold f l s = LOk s' -> step_ok s s'.
Proof.
  intros Hstep Hc Hb H.
  pose (Pr := fun x : state => Inv_core x /\ Inv_bound x /\ step_ok s x).
  assert (HP : Pr s') .
  { apply (lfold_inv Pr f l s s'); [| |exact H].
    - intros a x a' Hin (P1 & P2 & P3) Hf. pose proof (Hstep a x a' Hin P1 P2 Hf) as Hs.
      split; [apply Hs|]. split; [eapply mframe_bound; [apply Hs | exact P2]|].
      eapply step_ok_trans; eassumption.
    - split; [exact Hc|]. split; [exact Hb | apply step_ok_refl; exact Hc]. }
  apply HP.
Qed.

Lemma ofun_cases a k o :
  ofun a k o = if decide ((a, k) = (so_seller o, so_batch_key o)) then order_units o else 0.
Proof.
  destruct (decide ((a, k) = (so_seller o, so_batch_key o))) as [Heq|Hne].
  - inversion Heq; subst. apply ofun_self.
  - apply ofun_other. congruence.
Qed.
