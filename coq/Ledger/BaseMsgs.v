(* Ledger model: the handlers of regen.ecocredit.v1.Msg (x/ecocredit/base/keeper/msg_*.go),
   transcribed statement by statement: same order of checks, same early writes before later
   failures (the transaction rule in Step.v discards them on error).  Model file. *)
From stdpp Require Import gmap.
From RecordUpdate Require Import RecordSet.
From Coq Require Import ZArith NArith List Bool Strings.Byte Strings.String.
Require Import Regen.Base.Bytes Regen.Base.Calendar Regen.Dec.Dec Regen.Ids.Ids Regen.Generated.LedgerConsts.
Require Import Regen.Ledger.Types Regen.Ledger.Msgs Regen.Ledger.Orm.
Import ListNotations RecordSetNotations.
Local Open Scope Z_scope.
Local Open Scope lres_scope.

Definition hres := lres (state * response * list event).
Definition ret (s : state) (r : response) : hres := LOk (s, r, []).

(* ------------------------------------------------------------------ *)
(* lookups                                                             *)
(* ------------------------------------------------------------------ *)

Definition class_by_id (s : state) (id : bytes) : option (N * class) :=
  map_find (fun _ c => bytes_eqb (cl_id c) id) (classes s).
Definition project_by_id (s : state) (id : bytes) : option (N * project) :=
  map_find (fun _ p => bytes_eqb (pj_id p) id) (projects s).
Definition batch_by_denom (s : state) (d : bytes) : option (N * batch) :=
  map_find (fun _ b => bytes_eqb (ba_denom b) d) (batches s).

Definition is_issuer (s : state) (class_key : N) (a : addr) : bool :=
  bool_decide ((class_key, a) ∈ class_issuers s).

(* utils.GetCreditTypeFromBatchDenom: parse the class id out of the denom, look the class up by id *)
Definition credit_type_of_denom (s : state) (denom : bytes) : lres credit_type :=
  let cid := get_class_id_from_batch_denom denom in
  '(_, c) <- from_option LInvalid (class_by_id s cid) ;;
  from_option LOrm (credit_types s !! cl_ct c).

Definition get_balance (s : state) (a : addr) (k : N) : balance :=
  default zero_balance (balances s !! (a, k)).

Definition save_balance (a : addr) (k : N) (b : balance) (s : state) : state :=
  s <| balances := <[(a, k) := b]> (balances s) |>.
Definition update_balance (a : addr) (k : N) (b : balance) (s : state) : lres state :=
  m <- orm_update (a, k) b (balances s) ;; LOk (s <| balances := m |>).
Definition update_supply (k : N) (v : supply) (s : state) : lres state :=
  m <- orm_update k v (supplies s) ;; LOk (s <| supplies := m |>).

Definition nnfixed (p : Z) (str : bytes) : res dec := non_negative_fixed_dec_from_string str p.
Definition posfixed (p : Z) (str : bytes) : res dec := positive_fixed_dec_from_string str p.

(* ------------------------------------------------------------------ *)
(* exported helpers of base/keeper/utils.go                            *)
(* ------------------------------------------------------------------ *)

(* AddAndSaveBalance *)
Definition add_and_save_balance (a : addr) (k : N) (amt : dec) (s : state) : lres state :=
  let bal := get_balance s a k in
  t <- lift (safe_add_balance (bl_tradable bal) amt) ;;
  LOk (save_balance a k {| bl_tradable := dnorm t; bl_retired := bl_retired bal; bl_escrowed := bl_escrowed bal |} s).

(* RetireAndSaveBalance *)
Definition retire_and_save_balance (a : addr) (k : N) (amt : dec) (s : state) : lres state :=
  let bal := get_balance s a k in
  r <- lift (safe_add_balance (bl_retired bal) amt) ;;
  LOk (save_balance a k {| bl_tradable := bl_tradable bal; bl_retired := dnorm r; bl_escrowed := bl_escrowed bal |} s).

(* RetireSupply *)
Definition retire_supply (k : N) (amt : dec) (s : state) : lres state :=
  su <- from_option LOrm (supplies s !! k) ;;
  t <- lift (safe_sub_balance (su_tradable su) amt) ;;
  r <- lift (safe_add_balance (su_retired su) amt) ;;
  update_supply k {| su_tradable := dnorm t; su_retired := dnorm r; su_cancelled := su_cancelled su |} s.

(* ------------------------------------------------------------------ *)
(* CreateClass                                                         *)
(* ------------------------------------------------------------------ *)

Definition coin_gte (a c : coin) : bool := c_amount c <=? c_amount a.

(* the fee block shared by CreateClass (module ecocredit) and basket Create (basket sub-module):
   check the offered fee against the required one, check funds, move to the module and burn *)
Definition charge_fee (required : option coin) (offered : option coin) (payer module : addr) (s : state) : lres state :=
  match required with
  | None => LOk s
  | Some req =>
      if negb (0 <? c_amount req) then LOk s else     (* a stored zero fee charges nothing *)
      match offered with
      | None => LErr LInsufficient
      | Some off =>
          if negb (bytes_eqb (c_denom off) (c_denom req)) then LErr LInsufficient
          else if negb (coin_gte off req) then LErr LInsufficient
          else if bank_bal s payer (c_denom req) <? c_amount req then LErr LInsufficient
          else
            s1 <- send_coins payer module [req] s ;;
            burn_coins module [req] s1
      end
  end.

Definition can_create_class (s : state) (a : addr) : bool :=
  if allowlist_enabled s then bool_decide (a ∈ allowed_creators s) else true.

Fixpoint insert_issuers (key : N) (l : list addr) (s : state) : lres state :=
  match l with
  | [] => LOk s
  | a :: l' =>
      if bool_decide ((key, a) ∈ class_issuers s) then LErr LOrm
      else insert_issuers key l' (s <| class_issuers := {[ (key, a) ]} ∪ class_issuers s |>)
  end.

Definition h_create_class (e : env) (s : state) (admin : addr) (issuers : list addr)
    (metadata ct : bytes) (fee : option coin) : hres :=
  _ <- check (can_create_class s admin) LUnauthorized ;;
  s <- charge_fee (class_fee s) fee admin addr_ecocredit s ;;
  _ <- from_option LInvalid (credit_types s !! ct) ;;
  let seq := default 1%N (class_sequences s !! ct) in
  let s := s <| class_sequences := <[ct := (seq + 1)%N]> (class_sequences s) |> in
  let class_id := format_class_id ct seq in
  _ <- check (negb (map_exists (fun _ c => bytes_eqb (cl_id c) class_id) (classes s))) LOrm ;;
  let key := (class_seq_id s + 1)%N in
  let s := s <| classes := <[key := {| cl_id := class_id; cl_admin := admin; cl_metadata := metadata; cl_ct := ct |}]> (classes s) |>
             <| class_seq_id := key |> in
  s <- insert_issuers key issuers s ;;
  ret s (RClassId class_id).

(* ------------------------------------------------------------------ *)
(* CreateProject                                                       *)
(* ------------------------------------------------------------------ *)

(* verifyReferenceID: a non-empty reference id must be new within the class *)
Definition reference_id_taken (s : state) (class_key : N) (ref : bytes) : bool :=
  map_exists (fun _ p => (pj_class_key p =? class_key)%N && bytes_eqb (pj_reference_id p) ref) (projects s).

Definition h_create_project (e : env) (s : state) (admin : addr)
    (class_id metadata jurisdiction reference_id : bytes) : hres :=
  '(ck, cl) <- from_option LInvalid (class_by_id s class_id) ;;
  _ <- check (is_issuer s ck admin) LUnauthorized ;;
  let seq := default 1%N (project_sequences s !! ck) in
  let s := s <| project_sequences := <[ck := (seq + 1)%N]> (project_sequences s) |> in
  let project_id := format_project_id (cl_id cl) seq in
  _ <- check (match reference_id with [] => true | _ => negb (reference_id_taken s ck reference_id) end) LInvalid ;;
  _ <- check (negb (map_exists (fun _ p => bytes_eqb (pj_id p) project_id) (projects s))) LOrm ;;
  let key := (project_seq_id s + 1)%N in
  let s := s <| projects := <[key := {| pj_id := project_id; pj_admin := admin; pj_class_key := ck;
                                        pj_jurisdiction := jurisdiction; pj_metadata := metadata;
                                        pj_reference_id := reference_id |}]> (projects s) |>
             <| project_seq_id := key |> in
  ret s (RProjectId project_id).

(* ------------------------------------------------------------------ *)
(* CreateBatch                                                         *)
(* ------------------------------------------------------------------ *)

(* one iteration of the issuance loop of CreateBatch; acc = (state, tradable supply, retired supply) *)
Definition create_batch_issue (p : Z) (bk : N) (acc : state * dec * dec) (i : issuance) : lres (state * dec * dec) :=
  let '(s, tsum, rsum) := acc in
  t <- lift_as LInvalid (nnfixed p (is_tradable i)) ;;
  r <- lift_as LInvalid (nnfixed p (is_retired i)) ;;
  let bal := get_balance s (is_recipient i) bk in
  tb <- lift (add (bl_tradable bal) t) ;;
  rb <- lift (add (bl_retired bal) r) ;;
  let s := save_balance (is_recipient i) bk
             {| bl_tradable := dnorm tb; bl_retired := dnorm rb; bl_escrowed := bl_escrowed bal |} s in
  tsum <- (if is_zero t then LOk tsum else lift (add tsum t)) ;;
  rsum <- (if is_zero r then LOk rsum else lift (add rsum r)) ;;
  LOk (s, tsum, rsum).

Fixpoint lfold {A B} (f : A -> B -> lres A) (l : list B) (a : A) : lres A :=
  match l with [] => LOk a | x :: l' => a' <- f a x ;; lfold f l' a' end.

Definition insert_origin_tx (class_key : N) (otx : origin_tx) (s : state) : lres state :=
  let k := (class_key, ot_id otx, to_lower (ot_source otx)) in   (* chain names are case-insensitive *)
  if bool_decide (k ∈ origin_txs s) then LErr LInvalid
  else LOk (s <| origin_txs := {[ k ]} ∪ origin_txs s |>).

Definition contract_taken (s : state) (class_key : N) (contract : bytes) : bool :=
  map_exists (fun _ c => (bc_class_key c =? class_key)%N && bytes_eqb (bc_contract c) contract) (batch_contracts s).

Definition h_create_batch (e : env) (s : state) (issuer : addr) (project_id : bytes) (iss : list issuance)
    (metadata : bytes) (start_ end_ : option ts) (open : bool) (otx : option origin_tx) : hres :=
  '(pk, pj) <- from_option LInvalid (project_by_id s project_id) ;;
  cl <- from_option LOrm (classes s !! pj_class_key pj) ;;
  _ <- check (is_issuer s (pj_class_key pj) issuer) LUnauthorized ;;
  let seq := default 1%N (batch_sequences s !! pk) in
  let s := s <| batch_sequences := <[pk := (seq + 1)%N]> (batch_sequences s) |> in
  sd <- from_option LPanic start_ ;;
  ed <- from_option LPanic end_ ;;
  let denom := format_batch_denom (pj_id pj) seq sd ed in
  _ <- check (negb (map_exists (fun _ b => bytes_eqb (ba_denom b) denom) (batches s))) LOrm ;;
  let bk := (batch_seq_id s + 1)%N in
  let s := s <| batches := <[bk := {| ba_issuer := issuer; ba_project_key := pk; ba_denom := denom;
                                      ba_metadata := metadata; ba_start := sd; ba_end := ed;
                                      ba_issuance := e_time e; ba_open := open |}]> (batches s) |>
             <| batch_seq_id := bk |> in
  ct <- from_option LOrm (credit_types s !! cl_ct cl) ;;
  '(s, tsum, rsum) <- lfold (create_batch_issue (ct_precision ct) bk) iss (s, dzero, dzero) ;;
  m <- orm_insert bk {| su_tradable := dnorm tsum; su_retired := dnorm rsum; su_cancelled := dzero |} (supplies s) ;;
  let s := s <| supplies := m |> in
  s <- match otx with
       | None => LOk s
       | Some o =>
           s <- insert_origin_tx (pj_class_key pj) o s ;;
           match ot_contract o with
           | [] => LOk s
           | _ =>
               if contract_taken s (pj_class_key pj) (ot_contract o) then LErr LInvalid
               else m <- orm_insert bk {| bc_class_key := pj_class_key pj; bc_contract := ot_contract o |} (batch_contracts s) ;;
                    LOk (s <| batch_contracts := m |>)
           end
       end ;;
  ret s (RBatchDenom denom).

(* ------------------------------------------------------------------ *)
(* MintBatchCredits                                                    *)
(* ------------------------------------------------------------------ *)

Definition mint_issue (p : Z) (bk : N) (s : state) (i : issuance) : lres state :=
  t <- lift (nnfixed p (is_tradable i)) ;;
  r <- lift (nnfixed p (is_retired i)) ;;
  let bal := get_balance s (is_recipient i) bk in
  su <- from_option LOrm (supplies s !! bk) ;;
  '(br, sr) <- (if is_zero r then LOk (bl_retired bal, su_retired su)
                else br <- lift (add (bl_retired bal) r) ;; sr <- lift (add (su_retired su) r) ;; LOk (dnorm br, dnorm sr)) ;;
  '(bt, st) <- (if is_zero t then LOk (bl_tradable bal, su_tradable su)
                else bt <- lift (add (bl_tradable bal) t) ;; st <- lift (add (su_tradable su) t) ;; LOk (dnorm bt, dnorm st)) ;;
  let s := save_balance (is_recipient i) bk {| bl_tradable := bt; bl_retired := br; bl_escrowed := bl_escrowed bal |} s in
  update_supply bk {| su_tradable := st; su_retired := sr; su_cancelled := su_cancelled su |} s.

Definition h_mint_batch_credits (e : env) (s : state) (issuer : addr) (denom : bytes) (iss : list issuance)
    (otx : option origin_tx) : hres :=
  '(bk, ba) <- from_option LInvalid (batch_by_denom s denom) ;;
  _ <- check (ba_open ba) LInvalid ;;
  _ <- check (ba_issuer ba =? issuer)%N LUnauthorized ;;
  pj <- from_option LOrm (projects s !! ba_project_key ba) ;;
  o <- from_option LPanic otx ;;
  s <- insert_origin_tx (pj_class_key pj) o s ;;
  ct <- credit_type_of_denom s (ba_denom ba) ;;
  s <- lfold (mint_issue (ct_precision ct) bk) iss s ;;
  ret s REmpty.

(* ------------------------------------------------------------------ *)
(* SealBatch, UpdateBatchMetadata                                      *)
(* ------------------------------------------------------------------ *)

Definition set_batch (bk : N) (ba : batch) (s : state) : state := s <| batches := <[bk := ba]> (batches s) |>.

Definition h_seal_batch (e : env) (s : state) (issuer : addr) (denom : bytes) : hres :=
  '(bk, ba) <- from_option LInvalid (batch_by_denom s denom) ;;
  _ <- check (ba_issuer ba =? issuer)%N LUnauthorized ;;
  if negb (ba_open ba) then ret s REmpty
  else ret (set_batch bk {| ba_issuer := ba_issuer ba; ba_project_key := ba_project_key ba; ba_denom := ba_denom ba;
                            ba_metadata := ba_metadata ba; ba_start := ba_start ba; ba_end := ba_end ba;
                            ba_issuance := ba_issuance ba; ba_open := false |} s) REmpty.

Definition h_update_batch_metadata (e : env) (s : state) (issuer : addr) (denom new_metadata : bytes) : hres :=
  '(bk, ba) <- from_option LInvalid (batch_by_denom s denom) ;;
  _ <- check (ba_open ba) LUnauthorized ;;
  _ <- check (ba_issuer ba =? issuer)%N LUnauthorized ;;
  ret (set_batch bk {| ba_issuer := ba_issuer ba; ba_project_key := ba_project_key ba; ba_denom := ba_denom ba;
                       ba_metadata := new_metadata; ba_start := ba_start ba; ba_end := ba_end ba;
                       ba_issuance := ba_issuance ba; ba_open := ba_open ba |} s) REmpty.

(* ------------------------------------------------------------------ *)
(* Send                                                                *)
(* ------------------------------------------------------------------ *)

Definition send_tradable (bk : N) (sender recipient : addr) (amt : dec) (s : state) : lres state :=
  sb <- from_option LInsufficient (balances s !! (sender, bk)) ;;
  nt <- lift_as LInsufficient (safe_sub_balance (bl_tradable sb) amt) ;;
  s <- update_balance sender bk {| bl_tradable := dnorm nt; bl_retired := bl_retired sb; bl_escrowed := bl_escrowed sb |} s ;;
  let rb := get_balance s recipient bk in
  rt <- lift (add (bl_tradable rb) amt) ;;
  LOk (save_balance recipient bk {| bl_tradable := dnorm rt; bl_retired := bl_retired rb; bl_escrowed := bl_escrowed rb |} s).

Definition send_retired (bk : N) (sender recipient : addr) (amt : dec) (s : state) : lres state :=
  sb <- from_option LInsufficient (balances s !! (sender, bk)) ;;
  nt <- lift_as LInsufficient (safe_sub_balance (bl_tradable sb) amt) ;;
  s <- update_balance sender bk {| bl_tradable := dnorm nt; bl_retired := bl_retired sb; bl_escrowed := bl_escrowed sb |} s ;;
  let rb := get_balance s recipient bk in
  rr <- lift (add (bl_retired rb) amt) ;;
  let s := save_balance recipient bk {| bl_tradable := bl_tradable rb; bl_retired := dnorm rr; bl_escrowed := bl_escrowed rb |} s in
  su <- from_option LOrm (supplies s !! bk) ;;
  st <- lift (sub (su_tradable su) amt) ;;
  sr <- lift (add (su_retired su) amt) ;;
  update_supply bk {| su_tradable := dnorm st; su_retired := dnorm sr; su_cancelled := su_cancelled su |} s.

Definition send_one (sender recipient : addr) (s : state) (c : send_credits) : lres state :=
  '(bk, ba) <- from_option LInvalid (batch_by_denom s (sc_denom c)) ;;
  ct <- credit_type_of_denom s (ba_denom ba) ;;
  let p := ct_precision ct in
  t <- lift_as LInvalid (nnfixed p (sc_tradable c)) ;;
  r <- lift_as LInvalid (nnfixed p (sc_retired c)) ;;
  s <- (if is_zero t then LOk s else send_tradable bk sender recipient t s) ;;
  (if is_zero r then LOk s else send_retired bk sender recipient r s).

Definition h_send (e : env) (s : state) (sender recipient : addr) (cs : list send_credits) : hres :=
  s <- lfold (send_one sender recipient) cs s ;; ret s REmpty.

(* ------------------------------------------------------------------ *)
(* Retire, Cancel                                                      *)
(* ------------------------------------------------------------------ *)

Definition retire_one (owner : addr) (s : state) (c : credits) : lres state :=
  '(bk, ba) <- from_option LInvalid (batch_by_denom s (cr_denom c)) ;;
  ct <- credit_type_of_denom s (ba_denom ba) ;;
  ub <- from_option LInvalid (balances s !! (owner, bk)) ;;
  amt <- lift_as LInvalid (nnfixed (ct_precision ct) (cr_amount c)) ;;
  nt <- lift_as LInsufficient (safe_sub_balance (bl_tradable ub) amt) ;;
  nr <- lift (add (bl_retired ub) amt) ;;
  su <- from_option LOrm (supplies s !! bk) ;;
  sr <- lift (add (su_retired su) amt) ;;
  st <- lift (safe_sub_balance (su_tradable su) amt) ;;
  s <- update_balance owner bk {| bl_tradable := dnorm nt; bl_retired := dnorm nr; bl_escrowed := bl_escrowed ub |} s ;;
  update_supply bk {| su_tradable := dnorm st; su_retired := dnorm sr; su_cancelled := su_cancelled su |} s.

Definition h_retire (e : env) (s : state) (owner : addr) (cs : list credits) : hres :=
  s <- lfold (retire_one owner) cs s ;; ret s REmpty.

Definition cancel_one (owner : addr) (s : state) (c : credits) : lres state :=
  '(bk, ba) <- from_option LInvalid (batch_by_denom s (cr_denom c)) ;;
  ct <- credit_type_of_denom s (ba_denom ba) ;;
  ub <- from_option LInvalid (balances s !! (owner, bk)) ;;
  su <- from_option LOrm (supplies s !! bk) ;;
  amt <- lift_as LInvalid (nnfixed (ct_precision ct) (cr_amount c)) ;;
  nt <- lift_as LInsufficient (safe_sub_balance (bl_tradable ub) amt) ;;
  st <- lift (safe_sub_balance (su_tradable su) amt) ;;
  sc <- lift (add (su_cancelled su) amt) ;;
  s <- update_balance owner bk {| bl_tradable := dnorm nt; bl_retired := bl_retired ub; bl_escrowed := bl_escrowed ub |} s ;;
  update_supply bk {| su_tradable := dnorm st; su_retired := su_retired su; su_cancelled := dnorm sc |} s.

Definition h_cancel (e : env) (s : state) (owner : addr) (cs : list credits) : hres :=
  s <- lfold (cancel_one owner) cs s ;; ret s REmpty.

(* ------------------------------------------------------------------ *)
(* Bridge (out) and BridgeReceive                                      *)
(* ------------------------------------------------------------------ *)

Definition bridge_event (s : state) (owner : addr) (target recipient : bytes) (c : credits) : lres event :=
  '(bk, ba) <- from_option LOrm (batch_by_denom s (cr_denom c)) ;;
  bc <- from_option LInvalid (batch_contracts s !! bk) ;;
  LOk (EvBridge target recipient (bc_contract bc) (cr_amount c) owner (cr_denom c)).

Fixpoint lmap {A B} (f : A -> lres B) (l : list A) : lres (list B) :=
  match l with [] => LOk [] | x :: l' => y <- f x ;; ys <- lmap f l' ;; LOk (y :: ys) end.

Definition h_bridge (e : env) (s : state) (owner : addr) (target recipient : bytes) (cs : list credits) : hres :=
  _ <- check (bool_decide (to_lower target ∈ allowed_bridge_chains s)) LUnauthorized ;;
  s <- lfold (cancel_one owner) cs s ;;
  evs <- lmap (bridge_event s owner target recipient) cs ;;
  LOk (s, REmpty, evs).

Definition h_bridge_receive (e : env) (s : state) (issuer : addr) (class_id : bytes)
    (pjr : option br_project) (bar : option br_batch) (otx : option origin_tx) : hres :=
  o <- from_option LPanic otx ;;
  bb <- from_option LPanic bar ;;
  pp <- from_option LPanic pjr ;;
  _ <- check (bool_decide (to_lower (ot_source o) ∈ allowed_bridge_chains s)) LUnauthorized ;;
  '(ck, cl) <- from_option LNotFound (class_by_id s class_id) ;;
  let one := [{| is_recipient := brb_recipient bb; is_tradable := brb_amount bb; is_retired := [];
                 is_jurisdiction := []; is_reason := [] |}] in
  match map_find (fun _ c => (bc_class_key c =? ck)%N && bytes_eqb (bc_contract c) (ot_contract o)) (batch_contracts s) with
  | Some (bk, _) =>
      ba <- from_option LOrm (batches s !! bk) ;;
      pj <- from_option LOrm (projects s !! ba_project_key ba) ;;
      '(s, _, _) <- h_mint_batch_credits e s issuer (ba_denom ba) one (Some o) ;;
      LOk (s, RBridgeReceive (ba_denom ba) (pj_id pj), [EvBridgeReceive (pj_id pj) (ba_denom ba) (brb_amount bb) o])
  | None =>
      (* getProjectFromBridgeReq: first project of the class with this reference id (index scan) *)
      let existing := map_find (fun _ p => (pj_class_key p =? ck)%N && bytes_eqb (pj_reference_id p) (brp_reference_id pp)) (projects s) in
      '(s, project_id) <-
        match existing with
        | Some (_, pj) => LOk (s, pj_id pj)
        | None =>
            '(s, r, _) <- h_create_project e s issuer class_id (brp_metadata pp) (brp_jurisdiction pp) (brp_reference_id pp) ;;
            match r with RProjectId id => LOk (s, id) | _ => LErr LFuel end
        end ;;
      '(s, r, _) <- h_create_batch e s issuer project_id one (brb_metadata bb) (brb_start bb) (brb_end bb) true (Some o) ;;
      match r with
      | RBatchDenom d => LOk (s, RBridgeReceive d project_id, [EvBridgeReceive project_id d (brb_amount bb) o])
      | _ => LErr LFuel
      end
  end.

(* ------------------------------------------------------------------ *)
(* class / project administration                                      *)
(* ------------------------------------------------------------------ *)

Definition set_class (k : N) (c : class) (s : state) : state := s <| classes := <[k := c]> (classes s) |>.
Definition set_project (k : N) (p : project) (s : state) : state := s <| projects := <[k := p]> (projects s) |>.

Definition h_update_class_admin (e : env) (s : state) (admin : addr) (class_id : bytes) (new_admin : addr) : hres :=
  '(k, c) <- from_option LInvalid (class_by_id s class_id) ;;
  _ <- check (cl_admin c =? admin)%N LUnauthorized ;;
  ret (set_class k {| cl_id := cl_id c; cl_admin := new_admin; cl_metadata := cl_metadata c; cl_ct := cl_ct c |} s) REmpty.

Definition h_update_class_metadata (e : env) (s : state) (admin : addr) (class_id new_metadata : bytes) : hres :=
  '(k, c) <- from_option LInvalid (class_by_id s class_id) ;;
  _ <- check (cl_admin c =? admin)%N LUnauthorized ;;
  ret (set_class k {| cl_id := cl_id c; cl_admin := cl_admin c; cl_metadata := new_metadata; cl_ct := cl_ct c |} s) REmpty.

Definition h_update_class_issuers (e : env) (s : state) (admin : addr) (class_id : bytes) (add remove : list addr) : hres :=
  '(k, c) <- from_option LInvalid (class_by_id s class_id) ;;
  _ <- check (cl_admin c =? admin)%N LUnauthorized ;;
  let s := fold_left (fun s a => s <| class_issuers := class_issuers s ∖ {[ (k, a) ]} |>) remove s in
  s <- insert_issuers k add s ;;
  ret s REmpty.

Definition h_update_project_admin (e : env) (s : state) (admin : addr) (project_id : bytes) (new_admin : addr) : hres :=
  '(k, p) <- from_option LInvalid (project_by_id s project_id) ;;
  _ <- check (pj_admin p =? admin)%N LUnauthorized ;;
  ret (set_project k {| pj_id := pj_id p; pj_admin := new_admin; pj_class_key := pj_class_key p;
                        pj_jurisdiction := pj_jurisdiction p; pj_metadata := pj_metadata p;
                        pj_reference_id := pj_reference_id p |} s) REmpty.

Definition h_update_project_metadata (e : env) (s : state) (admin : addr) (project_id new_metadata : bytes) : hres :=
  '(k, p) <- from_option LInvalid (project_by_id s project_id) ;;
  _ <- check (pj_admin p =? admin)%N LUnauthorized ;;
  ret (set_project k {| pj_id := pj_id p; pj_admin := pj_admin p; pj_class_key := pj_class_key p;
                        pj_jurisdiction := pj_jurisdiction p; pj_metadata := new_metadata;
                        pj_reference_id := pj_reference_id p |} s) REmpty.

(* ------------------------------------------------------------------ *)
(* governance messages                                                 *)
(* ------------------------------------------------------------------ *)

Definition is_authority (e : env) (a : addr) : bool := (e_authority e =? a)%N.

Definition h_add_credit_type (e : env) (s : state) (authority : addr) (abbrev name unit_ : bytes) (precision : Z) : hres :=
  _ <- check (is_authority e authority) LUnauthorized ;;
  _ <- check (match credit_types s !! abbrev with None => true | Some _ => false end) LConflict ;;
  _ <- check (negb (map_exists (fun _ c => bytes_eqb (ct_name c) name) (credit_types s))) LConflict ;;
  ret (s <| credit_types := <[abbrev := {| ct_name := name; ct_unit := unit_; ct_precision := precision |}]> (credit_types s) |>) REmpty.

Definition h_set_allowlist (e : env) (s : state) (authority : addr) (enabled : bool) : hres :=
  _ <- check (is_authority e authority) LUnauthorized ;;
  ret (s <| allowlist_enabled := enabled |>) REmpty.

Definition h_add_class_creator (e : env) (s : state) (authority creator : addr) : hres :=
  _ <- check (is_authority e authority) LUnauthorized ;;
  _ <- check (negb (bool_decide (creator ∈ allowed_creators s))) LInvalid ;;
  ret (s <| allowed_creators := {[ creator ]} ∪ allowed_creators s |>) REmpty.

Definition h_remove_class_creator (e : env) (s : state) (authority creator : addr) : hres :=
  _ <- check (is_authority e authority) LUnauthorized ;;
  _ <- check (bool_decide (creator ∈ allowed_creators s)) LNotFound ;;
  ret (s <| allowed_creators := allowed_creators s ∖ {[ creator ]} |>) REmpty.

(* the fee is stored only when positive; zero or absent clears it *)
Definition normalise_fee (fee : option coin) : option coin :=
  match fee with Some c => if 0 <? c_amount c then Some c else None | None => None end.

Definition h_update_class_fee (e : env) (s : state) (authority : addr) (fee : option coin) : hres :=
  _ <- check (is_authority e authority) LUnauthorized ;;
  ret (s <| class_fee := normalise_fee fee |>) REmpty.

Definition h_add_allowed_bridge_chain (e : env) (s : state) (authority : addr) (chain : bytes) : hres :=
  _ <- check (is_authority e authority) LUnauthorized ;;
  let c := to_lower chain in
  _ <- check (negb (bool_decide (c ∈ allowed_bridge_chains s))) LInvalid ;;
  ret (s <| allowed_bridge_chains := {[ c ]} ∪ allowed_bridge_chains s |>) REmpty.

Definition h_remove_allowed_bridge_chain (e : env) (s : state) (authority : addr) (chain : bytes) : hres :=
  _ <- check (is_authority e authority) LUnauthorized ;;
  ret (s <| allowed_bridge_chains := allowed_bridge_chains s ∖ {[ to_lower chain ]} |>) REmpty.

Definition uregen : bytes := LedgerConsts.uregen_denom.

Definition h_burn_regen (e : env) (s : state) (burner : addr) (amount : bytes) : hres :=
  a <- from_option LInvalid (parse_sdk_int amount) ;;
  _ <- check (0 <? a) LInvalid ;;
  cs <- new_coins1 uregen a ;;
  s <- send_coins burner addr_ecocredit cs s ;;
  s <- burn_coins addr_ecocredit cs s ;;
  ret s REmpty.
