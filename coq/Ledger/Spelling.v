(* Address spellings.

   A bech32 address has two valid spellings, all lower case and all upper case; both decode to the same account.
   The model's messages carry accounts ([addr]), which is what every handler works with after
   sdk.AccAddressFromBech32.  Two kinds of check in the implementation compare address STRINGS instead:

   * ValidateBasic of MsgSend (sender == recipient), MsgUpdateClassAdmin, MsgUpdateProjectAdmin (admin == new admin)
     and basket MsgUpdateCurator (curator == new curator): a message naming the same account twice in different
     spellings passes these checks and reaches the handler with sender = recipient;
   * the governance handlers of the base and basket modules and the two allowed-denom handlers of the marketplace
     (k.authority.String() != req.Authority): an upper-case authority is rejected.  GovSetFeeParams and
     GovSendFromFeePool compare decoded bytes and accept both spellings.

   [Step.validate_basic] and [Step.deliver] describe messages in canonical (lower-case) spelling.  This file adds the
   spelling as an explicit parameter of the transaction rule ([deliver_sp]) and proves that the invariants, the
   monotonicity and the ownership statements hold for EVERY spelling: a self-addressed admin / curator update is
   an exact no-op, a self-send preserves every invariant and takes nothing from anybody else. *)
From stdpp Require Import gmap.
From RecordUpdate Require Import RecordSet.
From Coq Require Import ZArith NArith List Bool Lia Strings.Byte Strings.String.
Require Import Regen.Base.Bytes Regen.Base.Calendar Regen.Dec.Dec Regen.Ids.Ids.
Require Import Regen.Ledger.Types Regen.Ledger.Msgs Regen.Ledger.Orm Regen.Ledger.BaseMsgs
               Regen.Ledger.BasketMsgs Regen.Ledger.MarketMsgs Regen.Ledger.Step Regen.Ledger.SpellingModel
               Regen.Ledger.Amount Regen.Ledger.MapSum Regen.Ledger.Inv Regen.Ledger.InvTactics.
Require Import Regen.Ledger.InvBaseLib Regen.Ledger.InvFrame Regen.Ledger.InvAdmin Regen.Ledger.InvBase
               Regen.Ledger.InvBridgeLib Regen.Ledger.InvBridge Regen.Ledger.InvIds Regen.Ledger.InvBasket
               Regen.Ledger.InvBasketLib Regen.Ledger.InvOwn.
Require Import Regen.Ledger.InvMarketLib Regen.Ledger.InvMarketOrders Regen.Ledger.InvMarketPrune Regen.Ledger.InvMarket.
Require Import Regen.Ledger.InvAllLib Regen.Ledger.InvAllBound Regen.Ledger.InvAllRun Regen.Ledger.InvAllOwn Regen.Ledger.InvAllOwn2.
Import ListNotations RecordSetNotations.
Local Open Scope Z_scope.

Lemma validate_basic_split m : validate_basic m = negb (pair_equal m) && validate_basic_rest m.
Proof.
  destruct m; try reflexivity; cbn [validate_basic pair_equal validate_basic_rest];
    repeat match goal with |- context [negb ?x] => destruct (negb x) end;
    repeat match goal with |- context [nonempty ?x] => destruct (nonempty x) end;
    repeat match goal with |- context [nonempty_list ?x] => destruct (nonempty_list x) end;
    repeat match goal with |- context [validate_class_id ?x] => destruct (validate_class_id x) end;
    repeat match goal with |- context [validate_project_id ?x] => destruct (validate_project_id x) end;
    repeat match goal with |- context [validate_basket_denom ?x] => destruct (validate_basket_denom x) end;
    reflexivity.
Qed.

Theorem deliver_sp_canonical e s m : deliver_sp canonical e s m = deliver e s m.
Proof.
  unfold deliver_sp, validate_basic_sp, handle_sp, deliver. cbn [canonical sp_pair_identical sp_authority_canonical negb].
  rewrite !andb_false_r. reflexivity.
Qed.

(* ------------------------------------------------------------------ *)
(* what a delivered message can be                                     *)
(* ------------------------------------------------------------------ *)

(* either nothing happens, or a ValidateBasic-approved handler ran (the canonical case), or the message names one
   account twice in two spellings and its handler ran *)
Lemma deliver_sp_cases sp e s m :
  (deliver_sp sp e s m).1 = s \/
  (exists s' r evs, validate_basic m = true /\ handle e s m = LOk (s', r, evs) /\ (deliver_sp sp e s m).1 = s') \/
  (exists s' r evs, pair_equal m = true /\ validate_basic_rest m = true /\ handle e s m = LOk (s', r, evs) /\
                    (deliver_sp sp e s m).1 = s').
Proof.
  unfold deliver_sp, validate_basic_sp, handle_sp.
  destruct (string_authority m && negb (sp_authority_canonical sp)) eqn:A.
  { left. destruct (if pair_equal m && negb (sp_pair_identical sp) then _ else _); reflexivity. }
  destruct (pair_equal m && negb (sp_pair_identical sp)) eqn:P.
  - apply andb_true_iff in P. destruct P as [P _].
    destruct (validate_basic_rest m) eqn:V; [|left; reflexivity].
    destruct (handle e s m) as [[[s' r] evs]|err] eqn:H; cbn [fst]; [|left; reflexivity].
    right. right. exists s', r, evs. tauto.
  - destruct (validate_basic m) eqn:V; [|left; reflexivity].
    destruct (handle e s m) as [[[s' r] evs]|err] eqn:H; cbn [fst]; [|left; reflexivity].
    right. left. exists s', r, evs. tauto.
Qed.

(* a failed or rejected message has no effect, whatever its spelling (C10) *)
Theorem deliver_sp_failed_no_effect sp e s m :
  (forall r evs, (deliver_sp sp e s m).2 <> OOk r evs) -> (deliver_sp sp e s m).1 = s.
Proof.
  unfold deliver_sp. destruct (validate_basic_sp sp m); [|reflexivity].
  destruct (handle_sp sp e s m) as [[[s' r] evs]|err]; cbn [fst snd]; [|reflexivity].
  intros H. exfalso. exact (H r evs eq_refl).
Qed.

(* ------------------------------------------------------------------ *)
(* self-addressed role updates are exact no-ops                        *)
(* ------------------------------------------------------------------ *)

Lemma state_set_classes_id (s : state) : s <| classes := classes s |> = s.
Proof. destruct s; reflexivity. Qed.
Lemma state_set_projects_id (s : state) : s <| projects := projects s |> = s.
Proof. destruct s; reflexivity. Qed.
Lemma state_set_baskets_id (s : state) : s <| baskets := baskets s |> = s.
Proof. destruct s; reflexivity. Qed.

Theorem self_class_admin_noop e s a cid s' r evs :
  handle e s (MUpdateClassAdmin a cid a) = LOk (s', r, evs) -> s' = s.
Proof.
  cbn [handle]. unfold h_update_class_admin. intros H.
  lstep H as p Hp. destruct p as [k c]. lstep H as u Hu.
  unfold ret in H. inversion H; subst s' r evs; clear H.
  apply InvIds.class_by_id_Some in Hp. destruct Hp as [Hk _].
  apply N.eqb_eq in Hu.
  unfold set_class. rewrite <- Hu.
  replace {| cl_id := cl_id c; cl_admin := cl_admin c; cl_metadata := cl_metadata c; cl_ct := cl_ct c |} with c
    by (destruct c; reflexivity).
  rewrite (insert_id _ _ _ Hk). apply state_set_classes_id.
Qed.

Theorem self_project_admin_noop e s a pid s' r evs :
  handle e s (MUpdateProjectAdmin a pid a) = LOk (s', r, evs) -> s' = s.
Proof.
  cbn [handle]. unfold h_update_project_admin. intros H.
  lstep H as p Hp. destruct p as [k c]. lstep H as u Hu.
  unfold ret in H. inversion H; subst s' r evs; clear H.
  apply InvBridge.project_by_id_Some in Hp. destruct Hp as [Hk _].
  apply N.eqb_eq in Hu.
  unfold set_project. rewrite <- Hu.
  match goal with |- context [<[k := ?x]> _] => replace x with c by (destruct c; reflexivity) end.
  rewrite (insert_id _ _ _ Hk). apply state_set_projects_id.
Qed.

Theorem self_curator_noop e s a d s' r evs :
  handle e s (MUpdateCurator a d a) = LOk (s', r, evs) -> s' = s.
Proof.
  cbn [handle]. unfold h_update_curator. intros H.
  lstep H as p Hp. destruct p as [k c]. lstep H as u Hu.
  unfold ret in H. inversion H; subst s' r evs; clear H.
  apply basket_by_denom_Some in Hp. destruct Hp as [Hk _].
  apply N.eqb_eq in Hu.
  unfold set_basket. rewrite <- Hu.
  match goal with |- context [<[k := ?x]> _] => replace x with c by (destruct c; reflexivity) end.
  rewrite (insert_id _ _ _ Hk). apply state_set_baskets_id.
Qed.

(* a message that names one account twice is a self-send or one of the three no-ops *)
Lemma pair_equal_cases e s m s' r evs :
  pair_equal m = true -> handle e s m = LOk (s', r, evs) ->
  (exists a cs, m = MSend a a cs) \/ s' = s.
Proof.
  intros P H. destruct m; try discriminate P; cbn [pair_equal] in P; apply N.eqb_eq in P; subst.
  - left. eauto.
  - right. eapply self_class_admin_noop; exact H.
  - right. eapply self_project_admin_noop; exact H.
  - right. eapply self_curator_noop; exact H.
Qed.

(* ------------------------------------------------------------------ *)
(* invariants and monotonicity for every spelling (C01, C02, C04, C05, C06, C12) *)
(* ------------------------------------------------------------------ *)

Lemma base_handle_preserves_run e s m s' r evs :
  is_base_credit_msg m = true -> Inv_run s -> handle e s m = LOk (s', r, evs) -> Inv_run s' /\ mono_rel s s'.
Proof.
  intros Hm (Hc & Hb & Hq) H.
  destruct (base_preserves_basket _ _ _ _ _ _ Hm H) as (_ & _ & _ & _ & Hso).
  split; [split; [|split]|].
  - exact (proj1 (base_handle_ok _ _ _ _ _ _ Hm Hc H)).
  - eapply base_preserves_bound; eassumption.
  - eapply Inv_qty_ext; eassumption.
  - destruct (base_handle_ok _ _ _ _ _ _ Hm Hc H) as (_ & Hrel & _).
    split; [exact (br_retired _ _ Hrel) | exact (br_supplies _ _ Hrel)].
Qed.

Theorem deliver_sp_preserves_run sp e s m :
  Inv_run s -> Inv_run (deliver_sp sp e s m).1 /\ mono_rel s (deliver_sp sp e s m).1.
Proof.
  intros Hi.
  destruct (deliver_sp_cases sp e s m) as [->|[(s' & r & evs & V & H & ->)|(s' & r & evs & P & V & H & ->)]].
  - split; [exact Hi | apply mono_rel_refl].
  - eapply handle_preserves_run; eassumption.
  - destruct (pair_equal_cases _ _ _ _ _ _ P H) as [(a & cs & ->)| ->].
    + exact (base_handle_preserves_run e s (MSend a a cs) s' r evs eq_refl Hi H).
    + split; [exact Hi | apply mono_rel_refl].
Qed.

(* ------------------------------------------------------------------ *)
(* ownership for every spelling (C03)                                  *)
(* ------------------------------------------------------------------ *)

(* the conclusion of InvAllOwn2.nonsigner_step, for the state reached by deliver_sp *)
Definition nonsigner_safe (e : env) (m : msg) (s s' : state) (a : addr) : Prop :=
  (forall k, U (bl_tradable (get_balance s a k)) <= U (bl_tradable (get_balance s' a k))) /\
  ((exists buyer orders, m = MBuyDirect buyer orders) \/
   (forall k, U (bl_escrowed (get_balance s' a k)) = U (bl_escrowed (get_balance s a k)))) /\
  ((a = addr_feepool /\ exists authority recipient coins,
       m = MGovSendFromFeePool authority recipient coins /\ authority = e_authority e) \/
   (forall d, bank_bal s a d <= bank_bal s' a d)).

Lemma nonsigner_safe_refl e m s a : nonsigner_safe e m s s a.
Proof.
  split; [intros; apply Z.le_refl|]. split; [right; reflexivity|]. right. intros. apply Z.le_refl.
Qed.

Lemma base_nonsigner_safe e s m s' r evs :
  is_base_credit_msg m = true -> Inv_run s -> handle e s m = LOk (s', r, evs) ->
  forall a, a <> signer m -> nonsigner_safe e m s s' a.
Proof.
  intros Hm Hrun H a Ha. pose proof Hrun as (Hc & Hb & Hq).
  destruct (base_handle_preserves_run _ _ _ _ _ _ Hm Hrun H) as [Hrun' _].
  pose proof (run_escrow _ Hrun) as He. pose proof (run_escrow _ Hrun') as He'.
  destruct (base_preserves_basket _ _ _ _ _ _ Hm H) as (_ & _ & Ebank & _ & Hso).
  pose proof (credit_msgs_own _ _ _ _ _ _ Hm Hc H) as Hown.
  assert (Hesc : forall k, U (bl_escrowed (get_balance s' a k)) = U (bl_escrowed (get_balance s a k))).
  { intros k. rewrite (He' a k), (He a k), Hso. reflexivity. }
  split; [|split].
  - intros k. specialize (Hown a k Ha). unfold holdings in Hown. specialize (Hesc k). lia.
  - right. exact Hesc.
  - right. intros d. rewrite (bank_eq_bal _ _ Ebank). apply Z.le_refl.
Qed.

Theorem ownership_deliver_sp sp e s m :
  Inv_run s -> forall a, a <> signer m -> nonsigner_safe e m s (deliver_sp sp e s m).1 a.
Proof.
  intros Hi a Ha.
  destruct (deliver_sp_cases sp e s m) as [->|[(s' & r & evs & V & H & ->)|(s' & r & evs & P & V & H & ->)]].
  - apply nonsigner_safe_refl.
  - exact (nonsigner_step _ _ _ _ _ _ Hi V H a Ha).
  - destruct (pair_equal_cases _ _ _ _ _ _ P H) as [(b & cs & ->)| ->].
    + exact (base_nonsigner_safe e s (MSend b b cs) s' r evs eq_refl Hi H a Ha).
    + apply nonsigner_safe_refl.
Qed.

(* ------------------------------------------------------------------ *)
(* histories with arbitrary spellings                                  *)
(* ------------------------------------------------------------------ *)

Inductive reaches_sp (s : state) : state -> Prop :=
| rsp_refl : reaches_sp s s
| rsp_begin s1 t s2 : reaches_sp s s1 -> begin_block t s1 = LOk s2 -> reaches_sp s s2
| rsp_deliver s1 sp e m : reaches_sp s s1 -> reaches_sp s (deliver_sp sp e s1 m).1.

(* histories in canonical spelling are a special case *)
Theorem reaches_reaches_sp s s' : reaches s s' -> reaches_sp s s'.
Proof.
  induction 1 as [|s1 t s2 _ IH Hb|s1 e m _ IH]; [apply rsp_refl| |].
  - eapply rsp_begin; eassumption.
  - rewrite <- deliver_sp_canonical. apply rsp_deliver. exact IH.
Qed.

Theorem reaches_sp_preserves_run g s : Inv_run g -> reaches_sp g s -> Inv_run s /\ mono_rel g s.
Proof.
  intros Hg Hr. induction Hr as [|s1 t s2 _ IH Hb|s1 sp e m _ IH].
  - split; [exact Hg | apply mono_rel_refl].
  - destruct IH as [I1 M1]. destruct (begin_block_preserves_run _ _ _ I1 Hb) as [I2 M2].
    split; [exact I2 | eapply mono_rel_trans; eassumption].
  - destruct IH as [I1 M1]. destruct (deliver_sp_preserves_run sp e s1 m I1) as [I2 M2].
    split; [exact I2 | eapply mono_rel_trans; eassumption].
Qed.

(* C12 for every spelling: begin-block never fails in a state reached with arbitrarily spelled messages *)
Theorem reaches_sp_begin_block_total g s t : Inv_run g -> reaches_sp g s -> exists s', begin_block t s = LOk s'.
Proof.
  intros Hg Hr. destruct (reaches_sp_preserves_run g s Hg Hr) as [Hs _].
  destruct (begin_block_total_run t s Hs) as (s' & H & _). eauto.
Qed.

(* ------------------------------------------------------------------ *)
(* the headline statements over histories with arbitrary spellings     *)
(* ------------------------------------------------------------------ *)

(* C01: conservation in every state reached by messages in any spelling *)
Theorem reachable_sp_conservation g s :
  Inv_run g -> reaches_sp g s ->
  forall bk ba su, batches s !! bk = Some ba -> supplies s !! bk = Some su ->
    U (su_tradable su) = bal_sum tradable_escrowed bk (balances s) + bb_sum (ba_denom ba) (basket_balances s) /\
    U (su_retired su) = bal_sum retired_of bk (balances s).
Proof. intros Hg Hr. destruct (reaches_sp_preserves_run g s Hg Hr) as [(Hc & _) _]. apply Hc. Qed.

(* C04: retired balances and retired / cancelled supplies never decrease along such a history *)
Theorem reachable_sp_monotone g s1 s2 : Inv_run g -> reaches_sp g s1 -> reaches_sp s1 s2 -> mono_rel s1 s2.
Proof.
  intros Hg H1 H2. destruct (reaches_sp_preserves_run g s1 Hg H1) as [Hs1 _].
  apply (reaches_sp_preserves_run s1 s2 Hs1 H2).
Qed.

(* C06: escrow equals open sell orders in every such state *)
Theorem reachable_sp_escrow g s : Inv_run g -> reaches_sp g s -> Inv_escrow s.
Proof. intros Hg Hr. apply run_escrow. apply (reaches_sp_preserves_run g s Hg Hr). Qed.

(* ------------------------------------------------------------------ *)
(* the premises are met                                                *)
(* ------------------------------------------------------------------ *)

(* a self-send in two spellings is accepted by the string-level validator and rejected by the canonical one *)
Example self_send_passes_only_when_spelled_differently :
  let m := MSend 1%N 1%N [{| sc_denom := b "C01-001-20200101-20210101-001"%string; sc_tradable := b "1.5"%string; sc_retired := b ""%string;
                              sc_jurisdiction := b ""%string; sc_reason := b ""%string |}] in
  validate_basic m = false /\
  validate_basic_sp canonical m = false /\
  validate_basic_sp {| sp_pair_identical := false; sp_authority_canonical := true |} m = true.
Proof. vm_compute. repeat split; reflexivity. Qed.
