(* C10 (the part a theorem can carry): the transition system is a function of (state, block time,
   message); a failed message leaves no trace; executing a history in pieces -- tearing the node
   down and rebuilding it over the stored state at any block boundaries -- gives the same result. *)
From stdpp Require Import gmap.
From Coq Require Import ZArith NArith List Bool.
Require Import Regen.Base.Bytes Regen.Base.Calendar Regen.Dec.Dec.
Require Import Regen.Ledger.Types Regen.Ledger.Msgs Regen.Ledger.Orm Regen.Ledger.BaseMsgs Regen.Ledger.Step.
Import ListNotations.

Lemma failed_no_trace e s m s' o :
  deliver e s m = (s', o) -> (forall r evs, o <> OOk r evs) -> s' = s.
Proof.
  unfold deliver. destruct (validate_basic m).
  - destruct (handle e s m) as [[[s1 r] evs]|err]; intros H Hn; inversion H; subst; [|reflexivity].
    exfalso. eapply Hn. reflexivity.
  - intros H _. inversion H. reflexivity.
Qed.

Lemma lfold_app {A B} (f : A -> B -> lres A) (l1 l2 : list B) (a : A) :
  lfold f (l1 ++ l2) a = lbind (lfold f l1 a) (lfold f l2).
Proof.
  revert a. induction l1 as [|x l1 IH]; intros a; cbn [lfold app lbind]; [reflexivity|].
  destruct (f a x) as [a'|err]; cbn [lbind]; [apply IH | reflexivity].
Qed.

(* a node is (stored state); its keepers carry nothing else.  Restarting between h1 and h2 means
   continuing from the stored state of h1. *)
Lemma restart_invariant authority s h1 h2 :
  run authority s (h1 ++ h2) = lbind (run authority s h1) (fun s1 => run authority s1 h2).
Proof. unfold run. apply lfold_app. Qed.

Fixpoint run_pieces (authority : addr) (s : state) (pieces : list (list block)) : lres state :=
  match pieces with
  | [] => LOk s
  | h :: rest => lbind (run authority s h) (fun s1 => run_pieces authority s1 rest)
  end.

Lemma restart_any_boundaries authority s pieces :
  run_pieces authority s pieces = run authority s (concat pieces).
Proof.
  revert s. induction pieces as [|h rest IH]; intros s; cbn [run_pieces concat]; [reflexivity|].
  rewrite restart_invariant. destruct (run authority s h) as [s1|err]; cbn [lbind]; [apply IH | reflexivity].
Qed.
