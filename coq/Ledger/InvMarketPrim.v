(* Marketplace proofs, layer 2: how single table writes act on the invariant families, the frame
   relation [mframe] carried through every marketplace handler, and the escrow / bank primitives. *)
From stdpp Require Import gmap.
From RecordUpdate Require Import RecordSet.
From Coq Require Import ZArith NArith List Bool Lia Strings.Byte.
Require Import Regen.Base.Bytes Regen.Base.Calendar Regen.Dec.Dec Regen.Dec.DecIface.
Require Import Regen.Ledger.Types Regen.Ledger.Msgs Regen.Ledger.Orm Regen.Ledger.BaseMsgs
               Regen.Ledger.BasketMsgs Regen.Ledger.MarketMsgs Regen.Ledger.Step
               Regen.Ledger.Amount Regen.Ledger.MapSum Regen.Ledger.Inv Regen.Ledger.InvTactics
               Regen.Ledger.InvMarketLib.
Import ListNotations RecordSetNotations.
Local Open Scope Z_scope.

(* ------------------------------------------------------------------ *)
(* the four kinds of writes                                            *)
(* ------------------------------------------------------------------ *)

Definition wr_bal (a : addr) (k : N) (b : balance) (s s' : state) : Prop :=
  s' = s <| balances := <[(a, k) := b]> (balances s) |>.
Definition wr_sup (k : N) (su : supply) (s s' : state) : Prop :=
  s' = s <| supplies := <[k := su]> (supplies s) |>.
Definition wr_ord (id : N) (o : sell_order) (s s' : state) : Prop :=
  s' = s <| sell_orders := <[id := o]> (sell_orders s) |>.
Definition del_ord (id : N) (s s' : state) : Prop :=
  s' = s <| sell_orders := delete id (sell_orders s) |>.

Lemma get_balance_wr_bal a k b s s' a' k' :
  wr_bal a k b s s' ->
  get_balance s' a' k' = if decide ((a', k') = (a, k)) then b else get_balance s a' k'.
Proof. intros ->. apply get_balance_set_row. Qed.

(* ------------------------------------------------------------------ *)
(* Inv_ct /\ Inv_scale /\ Inv_keys                                     *)
(* ------------------------------------------------------------------ *)

Definition Inv_sk (s : state) : Prop := Inv_ct s /\ Inv_scale s /\ Inv_keys s.

Lemma sk_wr_bal a k b s s' :
  wr_bal a k b s s' -> balance_ok b -> is_Some (batches s !! k) -> Inv_sk s -> Inv_sk s'.
Proof.
  intros -> Hb Hbk (Hct & (Hs1 & Hs2 & Hs3 & Hs4) & (Hk1 & Hk2 & Hk3 & Hk4 & Hk5 & Hk6 & Hk7 & Hk8)).
  split; [exact Hct|]. split.
  - split; [|split; [exact Hs2 | split; [exact Hs3 | exact Hs4]]].
    intros k0 b0 H0. cbn in H0. apply lookup_insert_Some in H0.
    destruct H0 as [[_ <-]|[_ H0]]; [exact Hb | eapply Hs1; exact H0].
  - split; [exact Hk1|]. split; [exact Hk2|]. split; [|tauto].
    intros a0 k0 b0 H0. cbn in H0 |- *. apply lookup_insert_Some in H0.
    destruct H0 as [[Heq _]|[_ H0]]; [inversion Heq; subst; exact Hbk | eapply Hk3; exact H0].
Qed.

Lemma sk_wr_sup k su s s' :
  wr_sup k su s s' -> supply_ok su -> is_Some (supplies s !! k) -> Inv_sk s -> Inv_sk s'.
Proof.
  intros -> Hsu Hk (Hct & (Hs1 & Hs2 & Hs3 & Hs4) & (Hk1 & Hk2 & Hk3 & Hk4 & Hk5 & Hk6 & Hk7 & Hk8)).
  split; [exact Hct|]. split.
  - split; [exact Hs1|]. split; [|split; [exact Hs3 | exact Hs4]].
    intros k0 b0 H0. cbn in H0. apply lookup_insert_Some in H0.
    destruct H0 as [[_ <-]|[_ H0]]; [exact Hsu | eapply Hs2; exact H0].
  - split; [exact Hk1|]. split; [|tauto].
    intros k0. cbn. rewrite Hk2. destruct (decide (k0 = k)) as [->|Hne].
    + rewrite lookup_insert. split; intros _; [eauto | exact Hk].
    + rewrite lookup_insert_ne by congruence. reflexivity.
Qed.

(* updating an existing order row, keeping its batch *)
Lemma sk_wr_ord id o s s' :
  wr_ord id o s s' -> order_ok o -> is_Some (batches s !! so_batch_key o) -> (id <= sell_order_seq_id s)%N ->
  Inv_sk s -> Inv_sk s'.
Proof.
  intros -> Ho Hbk Hid (Hct & (Hs1 & Hs2 & Hs3 & Hs4) & (Hk1 & Hk2 & Hk3 & Hk4 & Hk5 & Hk6 & Hk7 & Hk8)).
  split; [exact Hct|]. split.
  - split; [exact Hs1|]. split; [exact Hs2|]. split; [exact Hs3|].
    intros k0 b0 H0. cbn in H0. apply lookup_insert_Some in H0.
    destruct H0 as [[_ <-]|[_ H0]]; [exact Ho | eapply Hs4; exact H0].
  - split; [exact Hk1|]. split; [exact Hk2|]. split; [exact Hk3|]. split; [exact Hk4|].
    split; [|split; [exact Hk6 | split; [|exact Hk8]]].
    + intros k0 o0 H0. cbn in H0 |- *. apply lookup_insert_Some in H0.
      destruct H0 as [[_ <-]|[_ H0]]; [exact Hbk | eapply Hk5; exact H0].
    + intros k0 H0. cbn in H0 |- *. destruct (decide (k0 = id)) as [->|Hne]; [exact Hid|].
      rewrite lookup_insert_ne in H0 by congruence. apply Hk7. exact H0.
Qed.

(* inserting at the next sequence number *)
Lemma sk_new_ord o s s' :
  s' = s <| sell_orders := <[(sell_order_seq_id s + 1)%N := o]> (sell_orders s) |>
         <| sell_order_seq_id := (sell_order_seq_id s + 1)%N |> ->
  order_ok o -> is_Some (batches s !! so_batch_key o) -> Inv_sk s -> Inv_sk s'.
Proof.
  intros -> Ho Hbk (Hct & (Hs1 & Hs2 & Hs3 & Hs4) & (Hk1 & Hk2 & Hk3 & Hk4 & Hk5 & Hk6 & Hk7 & Hk8)).
  split; [exact Hct|]. split.
  - split; [exact Hs1|]. split; [exact Hs2|]. split; [exact Hs3|].
    intros k0 b0 H0. cbn in H0. apply lookup_insert_Some in H0.
    destruct H0 as [[_ <-]|[_ H0]]; [exact Ho | eapply Hs4; exact H0].
  - split; [exact Hk1|]. split; [exact Hk2|]. split; [exact Hk3|]. split; [exact Hk4|].
    split; [|split; [exact Hk6 | split; [|exact Hk8]]].
    + intros k0 o0 H0. cbn in H0 |- *. apply lookup_insert_Some in H0.
      destruct H0 as [[_ <-]|[_ H0]]; [exact Hbk | eapply Hk5; exact H0].
    + intros k0 H0. cbn in H0 |- *. destruct (decide (k0 = (sell_order_seq_id s + 1)%N)) as [->|Hne]; [lia|].
      rewrite lookup_insert_ne in H0 by congruence. specialize (Hk7 _ H0). lia.
Qed.

Lemma sk_del_ord id s s' : del_ord id s s' -> Inv_sk s -> Inv_sk s'.
Proof.
  intros -> (Hct & (Hs1 & Hs2 & Hs3 & Hs4) & (Hk1 & Hk2 & Hk3 & Hk4 & Hk5 & Hk6 & Hk7 & Hk8)).
  split; [exact Hct|]. split.
  - split; [exact Hs1|]. split; [exact Hs2|]. split; [exact Hs3|].
    intros k0 b0 H0. cbn in H0. apply lookup_delete_Some in H0. eapply Hs4. apply H0.
  - split; [exact Hk1|]. split; [exact Hk2|]. split; [exact Hk3|]. split; [exact Hk4|].
    split; [|split; [exact Hk6 | split; [|exact Hk8]]].
    + intros k0 o0 H0. cbn in H0 |- *. apply lookup_delete_Some in H0. eapply Hk5. apply H0.
    + intros k0 [o0 H0]. cbn in H0 |- *. apply lookup_delete_Some in H0. apply Hk7. exists o0. apply H0.
Qed.

(* the fresh key of the next sell order *)
Lemma next_order_fresh s : Inv_keys s -> sell_orders s !! (sell_order_seq_id s + 1)%N = None.
Proof.
  intros (_ & _ & _ & _ & _ & _ & Hk7 & _).
  destruct (sell_orders s !! (sell_order_seq_id s + 1)%N) eqn:E; [|reflexivity].
  specialize (Hk7 _ (ex_intro _ _ E)). lia.
Qed.

(* ------------------------------------------------------------------ *)
(* conservation with offsets                                           *)
(* ------------------------------------------------------------------ *)

Definition cons_off (s : state) (ft fr : N -> Z) : Prop :=
  forall bk ba su, batches s !! bk = Some ba -> supplies s !! bk = Some su ->
    U (su_tradable su) = bal_sum tradable_escrowed bk (balances s) + bb_sum (ba_denom ba) (basket_balances s) + ft bk /\
    U (su_retired su) = bal_sum retired_of bk (balances s) + fr bk.

Lemma cons_off_intro s : Inv_cons s -> cons_off s (fun _ => 0) (fun _ => 0).
Proof. intros H bk ba su Hba Hsu. destruct (H bk ba su Hba Hsu). split; lia. Qed.

Lemma cons_off_elim s ft fr :
  cons_off s ft fr -> (forall k, ft k = 0) -> (forall k, fr k = 0) -> Inv_cons s.
Proof.
  intros H H1 H2 bk ba su Hba Hsu. destruct (H bk ba su Hba Hsu) as [E1 E2].
  rewrite H1 in E1. rewrite H2 in E2. split; lia.
Qed.

Definition bump (k0 : N) (d : Z) (f : N -> Z) : N -> Z := fun k => f k + (if (k =? k0)%N then d else 0).

Lemma cons_off_wr_bal a k b s s' ft fr :
  wr_bal a k b s s' -> cons_off s ft fr ->
  cons_off s' (bump k (tradable_escrowed (get_balance s a k) - tradable_escrowed b) ft)
              (bump k (retired_of (get_balance s a k) - retired_of b) fr).
Proof.
  intros -> H bk ba su Hba Hsu. cbn in Hba, Hsu.
  destruct (H bk ba su Hba Hsu) as [E1 E2].
  change (balances (s <| balances := <[(a, k) := b]> (balances s) |>)) with (<[(a, k) := b]> (balances s)).
  change (basket_balances (s <| balances := <[(a, k) := b]> (balances s) |>)) with (basket_balances s).
  rewrite !bal_sum_insert. unfold bump.
  rewrite get_balance_lookup. rewrite (N.eqb_sym bk k).
  destruct (k =? bk)%N; [|split; lia].
  destruct (balances s !! (a, k)) as [v|]; [split; lia|].
  change (tradable_escrowed zero_balance) with 0. change (retired_of zero_balance) with 0. split; lia.
Qed.

Lemma cons_off_wr_sup k su0 su' s s' ft fr :
  wr_sup k su' s s' -> supplies s !! k = Some su0 -> cons_off s ft fr ->
  cons_off s' (bump k (U (su_tradable su') - U (su_tradable su0)) ft)
              (bump k (U (su_retired su') - U (su_retired su0)) fr).
Proof.
  intros -> H0 H bk ba su Hba Hsu. cbn in Hba, Hsu |- *. unfold bump.
  destruct (decide (bk = k)) as [->|Hne].
  - rewrite lookup_insert in Hsu. inversion Hsu; subst su. rewrite N.eqb_refl.
    destruct (H k ba su0 Hba H0) as [E1 E2]. split; lia.
  - rewrite lookup_insert_ne in Hsu by congruence. apply N.eqb_neq in Hne. rewrite Hne.
    destruct (H bk ba su Hba Hsu) as [E1 E2]. split; lia.
Qed.

Lemma cons_off_orders s s' ft fr :
  batches s' = batches s -> supplies s' = supplies s -> balances s' = balances s ->
  basket_balances s' = basket_balances s -> cons_off s ft fr -> cons_off s' ft fr.
Proof. intros H1 H2 H3 H4 H. unfold cons_off. rewrite H1, H2, H3, H4. exact H. Qed.

(* ------------------------------------------------------------------ *)
(* escrow with offsets                                                 *)
(* ------------------------------------------------------------------ *)

Definition esc_off (s : state) (f : addr -> N -> Z) : Prop :=
  forall a bk, U (bl_escrowed (get_balance s a bk)) = order_sum a bk (sell_orders s) + f a bk.

Lemma esc_off_intro s : Inv_escrow s -> esc_off s (fun _ _ => 0).
Proof. intros H a bk. rewrite H. lia. Qed.

Lemma esc_off_elim s f : esc_off s f -> (forall a k, f a k = 0) -> Inv_escrow s.
Proof. intros H H0 a bk. rewrite H, H0. lia. Qed.

Definition bump2 (a0 : addr) (k0 : N) (d : Z) (f : addr -> N -> Z) : addr -> N -> Z :=
  fun a k => f a k + (if decide ((a, k) = (a0, k0)) then d else 0).

Lemma esc_off_wr_bal a k b s s' f :
  wr_bal a k b s s' -> esc_off s f ->
  esc_off s' (bump2 a k (U (bl_escrowed b) - U (bl_escrowed (get_balance s a k))) f).
Proof.
  intros Hw H a' k'. rewrite (get_balance_wr_bal _ _ _ _ _ a' k' Hw). unfold bump2.
  assert (Hso : sell_orders s' = sell_orders s) by (rewrite Hw; reflexivity). rewrite Hso.
  destruct (decide ((a', k') = (a, k))) as [Heq|Hne].
  - inversion Heq; subst. rewrite (H a k). lia.
  - rewrite (H a' k'). lia.
Qed.

Lemma esc_off_wr_ord id o s s' f :
  wr_ord id o s s' -> esc_off s f ->
  esc_off s' (fun a k => f a k + match sell_orders s !! id with Some o' => ofun a k o' | None => 0 end - ofun a k o).
Proof.
  intros -> H a k. unfold get_balance. cbn. rewrite order_sum_insert. fold (get_balance s a k). rewrite (H a k). lia.
Qed.

Lemma esc_off_new_ord id o s s' f :
  s' = s <| sell_orders := <[id := o]> (sell_orders s) |> <| sell_order_seq_id := id |> ->
  sell_orders s !! id = None -> esc_off s f ->
  esc_off s' (fun a k => f a k - ofun a k o).
Proof.
  intros -> Hid H a k. unfold get_balance. cbn. rewrite order_sum_insert, Hid. fold (get_balance s a k). rewrite (H a k). lia.
Qed.

Lemma esc_off_del_ord id s s' f :
  del_ord id s s' -> esc_off s f ->
  esc_off s' (fun a k => f a k + match sell_orders s !! id with Some o' => ofun a k o' | None => 0 end).
Proof.
  intros -> H a k. unfold get_balance. cbn. rewrite order_sum_delete. fold (get_balance s a k). rewrite (H a k). lia.
Qed.

Lemma esc_off_ext s s' f :
  balances s' = balances s -> sell_orders s' = sell_orders s -> esc_off s f -> esc_off s' f.
Proof. intros H1 H2 H. unfold esc_off, get_balance. rewrite H1, H2. exact H. Qed.

(* ------------------------------------------------------------------ *)
(* frame                                                               *)
(* ------------------------------------------------------------------ *)

(* s' with the tables a marketplace message may write copied back from s' : so [s' = mk_frame s s']
   says every other table is unchanged *)
Definition mk_frame (s s' : state) : state :=
  s <| balances := balances s' |> <| supplies := supplies s' |> <| sell_orders := sell_orders s' |>
    <| sell_order_seq_id := sell_order_seq_id s' |> <| allowed_denoms := allowed_denoms s' |>
    <| markets := markets s' |> <| market_seq_id := market_seq_id s' |> <| fee_params_ := fee_params_ s' |>
    <| bank := bank s' |> <| bank_supply := bank_supply s' |>.
Definition market_only (s s' : state) : Prop := s' = mk_frame s s'.

Lemma market_only_refl s : market_only s s.
Proof. unfold market_only, mk_frame. destruct s. reflexivity. Qed.

Lemma market_only_trans s1 s2 s3 : market_only s1 s2 -> market_only s2 s3 -> market_only s1 s3.
Proof.
  unfold market_only, mk_frame. intros H1 H2. destruct s1, s2, s3. cbn in *.
  inversion H1. inversion H2. subst. reflexivity.
Qed.

Lemma market_only_fields s s' :
  market_only s s' ->
  credit_types s' = credit_types s /\ classes s' = classes s /\ batches s' = batches s /\
  batch_seq_id s' = batch_seq_id s /\ baskets s' = baskets s /\ basket_seq_id s' = basket_seq_id s /\
  basket_balances s' = basket_balances s /\ projects s' = projects s.
Proof. intros ->. unfold mk_frame. cbn. tauto. Qed.

Definition sup_rel (o o' : option supply) : Prop :=
  match o, o' with
  | Some su, Some su' =>
      U (su_tradable su') <= U (su_tradable su) /\ U (su_retired su) <= U (su_retired su') /\
      su_cancelled su' = su_cancelled su /\
      U (su_tradable su') + U (su_retired su') = U (su_tradable su) + U (su_retired su)
  | None, None => True
  | _, _ => False
  end.

Record mframe (s s' : state) : Prop := {
  mf_only : market_only s s';
  mf_ret : forall a k, U (bl_retired (get_balance s a k)) <= U (bl_retired (get_balance s' a k));
  mf_sup : forall k, sup_rel (supplies s !! k) (supplies s' !! k);
  mf_bsup : forall d, d <> uregen -> bank_sup s' d = bank_sup s d;
  mf_bsup_uregen : bank_sup s' uregen <= bank_sup s uregen
}.

Lemma sup_rel_refl o : sup_rel o o.
Proof. destruct o; cbn [sup_rel]; [|exact I]. split; [lia|]. split; [lia|]. split; [reflexivity | lia]. Qed.

Lemma sup_rel_trans o1 o2 o3 : sup_rel o1 o2 -> sup_rel o2 o3 -> sup_rel o1 o3.
Proof.
  destruct o1, o2, o3; cbn [sup_rel]; try tauto.
  intros (H1 & H2 & H3 & H4) (H5 & H6 & H7 & H8). repeat split; try lia. congruence.
Qed.

Lemma mframe_refl s : mframe s s.
Proof.
  constructor; [apply market_only_refl | intros; lia | intros; apply sup_rel_refl | reflexivity | lia].
Qed.

Lemma mframe_trans s1 s2 s3 : mframe s1 s2 -> mframe s2 s3 -> mframe s1 s3.
Proof.
  intros [A1 A2 A3 A4 A5] [B1 B2 B3 B4 B5]. constructor.
  - eapply market_only_trans; eassumption.
  - intros a k. specialize (A2 a k). specialize (B2 a k). lia.
  - intros k. eapply sup_rel_trans; [apply A3 | apply B3].
  - intros d Hd. rewrite (B4 d Hd). apply A4. exact Hd.
  - lia.
Qed.

(* a step that leaves balances, supplies and the bank supply alone *)
Lemma mframe_triv s s' :
  market_only s s' -> balances s' = balances s -> supplies s' = supplies s -> bank_supply s' = bank_supply s ->
  mframe s s'.
Proof.
  intros H0 H1 H2 H3. constructor; [exact H0 | | | |].
  - intros a k. unfold get_balance. rewrite H1. lia.
  - intros k. rewrite H2. apply sup_rel_refl.
  - intros d _. unfold bank_sup. rewrite H3. reflexivity.
  - unfold bank_sup. rewrite H3. lia.
Qed.

Lemma mframe_wr_bal a k b s s' :
  wr_bal a k b s s' -> U (bl_retired (get_balance s a k)) <= U (bl_retired b) -> mframe s s'.
Proof.
  intros Hw Hr. constructor.
  - rewrite Hw. unfold market_only, mk_frame. destruct s. reflexivity.
  - intros a' k'. rewrite (get_balance_wr_bal _ _ _ _ _ a' k' Hw).
    destruct (decide ((a', k') = (a, k))) as [Heq|Hne]; [inversion Heq; subst; exact Hr | lia].
  - intros k'. rewrite Hw. cbn. apply sup_rel_refl.
  - intros d _. rewrite Hw. reflexivity.
  - rewrite Hw. unfold bank_sup. cbn. lia.
Qed.

Lemma mframe_wr_sup k su0 su' s s' :
  wr_sup k su' s s' -> supplies s !! k = Some su0 -> sup_rel (Some su0) (Some su') -> mframe s s'.
Proof.
  intros Hw H0 Hr. constructor.
  - rewrite Hw. unfold market_only, mk_frame. destruct s. reflexivity.
  - intros a' k'. rewrite Hw. unfold get_balance. cbn. lia.
  - intros k'. rewrite Hw. cbn. destruct (decide (k' = k)) as [->|Hne].
    + rewrite lookup_insert, H0. exact Hr.
    + rewrite lookup_insert_ne by congruence. apply sup_rel_refl.
  - intros d _. rewrite Hw. reflexivity.
  - rewrite Hw. unfold bank_sup. cbn. lia.
Qed.

Lemma mframe_bound s s' : mframe s s' -> Inv_bound s -> Inv_bound s'.
Proof.
  intros [_ _ A3 _ _] Hb k su' Hsu'. specialize (A3 k). rewrite Hsu' in A3.
  destruct (supplies s !! k) as [su|] eqn:E; cbn in A3; [|contradiction].
  specialize (Hb _ _ E). lia.
Qed.

(* ------------------------------------------------------------------ *)
(* escrow / unescrow                                                   *)
(* ------------------------------------------------------------------ *)

Lemma escrow_spec a k q s s' :
  Inv_scale s -> in_ok q -> escrow_credits a k q s = LOk s' ->
  exists b b', balances s !! (a, k) = Some b /\ wr_bal a k b' s s' /\ balance_ok b' /\
    U (bl_tradable b') = U (bl_tradable b) - U q /\ U (bl_escrowed b') = U (bl_escrowed b) + U q /\
    bl_retired b' = bl_retired b.
Proof.
  intros (Hs1 & _) Hq H. unfold escrow_credits in H.
  lstep H as b Hb. lstep H as nt Hnt. lstep H as ne Hne.
  apply update_balance_ok in H. destruct H as [Hs' _].
  destruct (Hs1 _ _ Hb) as (Ht & Hr & He).
  destruct (safe_sub_in_ok _ _ _ (stored_in_ok _ Ht) Hq Hnt) as [Hnt1 Hnt2].
  destruct (safe_add_in_ok _ _ _ (stored_in_ok _ He) Hq Hne) as [Hne1 Hne2].
  destruct (dnorm_ok _ Hnt1) as [Hnt3 Hnt4]. destruct (dnorm_ok _ Hne1) as [Hne3 Hne4].
  eexists b, _. split; [exact Hb|]. split; [exact Hs'|]. cbn [bl_tradable bl_retired bl_escrowed].
  split; [split; [exact Hnt3 | split; [exact Hr | exact Hne3]]|].
  split; [lia|]. split; [lia | reflexivity].
Qed.

Lemma unescrow_spec a k str q s s' :
  Inv_scale s -> parse str = Ok q -> in_ok q -> unescrow_credits a k str s = LOk s' ->
  exists b b', balances s !! (a, k) = Some b /\ wr_bal a k b' s s' /\ balance_ok b' /\
    U (bl_tradable b') = U (bl_tradable b) + U q /\ U (bl_escrowed b') = U (bl_escrowed b) - U q /\
    bl_retired b' = bl_retired b.
Proof.
  intros (Hs1 & _) Hp Hq H. unfold unescrow_credits in H. rewrite Hp in H. cbn [lift lbind] in H.
  lstep H as b Hb. lstep H as ne Hne. lstep H as nt Hnt.
  apply update_balance_ok in H. destruct H as [Hs' _].
  destruct (Hs1 _ _ Hb) as (Ht & Hr & He).
  destruct (safe_sub_in_ok _ _ _ (stored_in_ok _ He) Hq Hne) as [Hne1 Hne2].
  destruct (safe_add_in_ok _ _ _ (stored_in_ok _ Ht) Hq Hnt) as [Hnt1 Hnt2].
  destruct (dnorm_ok _ Hnt1) as [Hnt3 Hnt4]. destruct (dnorm_ok _ Hne1) as [Hne3 Hne4].
  eexists b, _. split; [exact Hb|]. split; [exact Hs'|]. cbn [bl_tradable bl_retired bl_escrowed].
  split; [split; [exact Hnt3 | split; [exact Hr | exact Hne3]]|].
  split; [lia|]. split; [lia | reflexivity].
Qed.

(* unescrow succeeds when enough is escrowed, the quantity has no positive exponent and the holding is
   representable *)
Lemma unescrow_total a k str q s :
  Inv_scale s -> parse str = Ok q -> in_ok q -> dexp q <= 0 -> 0 < U q ->
  U q <= U (bl_escrowed (get_balance s a k)) ->
  U (bl_tradable (get_balance s a k)) + U (bl_escrowed (get_balance s a k)) < BOUND ->
  exists s', unescrow_credits a k str s = LOk s'.
Proof.
  intros (Hs1 & _) Hp Hq Hexp Hpos Hle Hb. unfold unescrow_credits. rewrite Hp. cbn [lift lbind].
  unfold get_balance in Hle, Hb.
  destruct (balances s !! (a, k)) as [b|] eqn:E; cbn [default id from_option lbind] in *.
  2:{ unfold zero_balance in Hle. cbn [bl_escrowed] in Hle. rewrite U_dzero in Hle. lia. }
  destruct (Hs1 _ _ E) as (Ht & Hr & He).
  pose proof (in_ok_U_nonneg _ (stored_in_ok _ Ht)). pose proof (in_ok_U_nonneg _ (stored_in_ok _ He)).
  destruct (safe_sub_total (bl_escrowed b) q He Hq Hexp Hpos Hle) as [ne Hne]; [lia|].
  destruct (safe_add_total (bl_tradable b) q Ht Hq Hexp Hpos) as [nt Hnt]; [lia|].
  rewrite Hne, Hnt. cbn [lift lbind]. unfold update_balance, orm_update. rewrite E. cbn [lbind]. eauto.
Qed.

(* ------------------------------------------------------------------ *)
(* bank                                                                *)
(* ------------------------------------------------------------------ *)

(* s' differs from s in the bank tables only *)
Definition bank_only (s s' : state) : Prop := s' = s <| bank := bank s' |> <| bank_supply := bank_supply s' |>.

Lemma bank_only_refl s : bank_only s s.
Proof. unfold bank_only. destruct s. reflexivity. Qed.

Lemma bank_only_trans s1 s2 s3 : bank_only s1 s2 -> bank_only s2 s3 -> bank_only s1 s3.
Proof. unfold bank_only. intros H1 H2. destruct s1, s2, s3. cbn in *. inversion H1. inversion H2. subst. reflexivity. Qed.

Lemma bank_only_set_bal a d z s : bank_only s (set_bank_bal a d z s).
Proof. unfold bank_only, set_bank_bal. destruct s. reflexivity. Qed.

Lemma bank_only_set_sup d z s : bank_only s (set_bank_sup d z s).
Proof. unfold bank_only, set_bank_sup. destruct s. reflexivity. Qed.

Lemma bank_sub_only a c s s' : bank_sub a c s = LOk s' -> bank_only s s' /\ bank_supply s' = bank_supply s.
Proof.
  unfold bank_sub. cbv zeta. destruct (_ <? _); [discriminate|]. intros H; inversion H; subst.
  split; [apply bank_only_set_bal | reflexivity].
Qed.

Lemma bank_sub_all_only a cs : forall s s', bank_sub_all a cs s = LOk s' -> bank_only s s' /\ bank_supply s' = bank_supply s.
Proof.
  induction cs as [|c cs IH]; intros s s' H; cbn [bank_sub_all] in H.
  - inversion H; subst. split; [apply bank_only_refl | reflexivity].
  - apply lbind_ok in H. destruct H as (s1 & H1 & H2). apply bank_sub_only in H1. apply IH in H2.
    destruct H1 as [A1 A2], H2 as [B1 B2]. split; [eapply bank_only_trans; eassumption | congruence].
Qed.

Lemma bank_add_all_only a cs : forall s, bank_only s (bank_add_all a cs s) /\ bank_supply (bank_add_all a cs s) = bank_supply s.
Proof.
  unfold bank_add_all. induction cs as [|c cs IH]; intros s; cbn [fold_left].
  - split; [apply bank_only_refl | reflexivity].
  - destruct (IH (bank_add a c s)) as [B1 B2]. split.
    + eapply bank_only_trans; [|exact B1]. apply bank_only_set_bal.
    + rewrite B2. reflexivity.
Qed.

Lemma send_coins_only f t cs s s' : send_coins f t cs s = LOk s' -> bank_only s s' /\ bank_supply s' = bank_supply s.
Proof.
  unfold send_coins. destruct (negb _); [discriminate|]. intros H.
  apply lbind_ok in H. destruct H as (s1 & H1 & H2). inversion H2; subst.
  apply bank_sub_all_only in H1. destruct H1 as [A1 A2].
  destruct (bank_add_all_only t cs s1) as [B1 B2].
  split; [eapply bank_only_trans; eassumption | congruence].
Qed.

(* the coin lists the marketplace builds *)
Lemma new_coins1_cases d z cs : new_coins1 d z = LOk cs -> cs = [] \/ (0 < z /\ cs = [{| c_denom := d; c_amount := z |}]).
Proof.
  unfold new_coins1. destruct (z <? 0) eqn:E1; [discriminate|]. destruct (negb _); [discriminate|].
  destruct (z =? 0) eqn:E2; intros H; inversion H; [left; reflexivity | right].
  apply Z.ltb_ge in E1. apply Z.eqb_neq in E2. split; [lia | reflexivity].
Qed.

Lemma burn_coins_nil a s s' : burn_coins a [] s = LOk s' -> s' = s.
Proof. unfold burn_coins. cbn. intros H; inversion H; reflexivity. Qed.

Lemma burn_coins_one a d z s s' :
  0 < z -> burn_coins a [{| c_denom := d; c_amount := z |}] s = LOk s' ->
  bank_only s s' /\ bank_sup s' d = bank_sup s d - z /\ (forall d', d' <> d -> bank_sup s' d' = bank_sup s d').
Proof.
  intros Hz. unfold burn_coins. destruct (negb _); [discriminate|]. intros H.
  apply lbind_ok in H. destruct H as (s1 & H1 & H2). inversion H2; subst; clear H2.
  apply bank_sub_all_only in H1. destruct H1 as [A1 A2]. cbn [fold_left c_denom c_amount].
  split; [eapply bank_only_trans; [exact A1 | apply bank_only_set_sup]|].
  unfold bank_sup, set_bank_sup. cbn. rewrite A2. split.
  - rewrite lookup_insert. reflexivity.
  - intros d' Hd'. rewrite lookup_insert_ne by congruence. reflexivity.
Qed.

Lemma bank_only_market_only s s' : bank_only s s' -> market_only s s'.
Proof. unfold bank_only, market_only, mk_frame. intros H. destruct s, s'. cbn in *. inversion H. subst. reflexivity. Qed.

Lemma bank_only_core_eq s s' : bank_only s s' -> core_eq s s'.
Proof. unfold bank_only. intros ->. unfold core_eq. cbn. tauto. Qed.

Lemma bank_only_fields s s' :
  bank_only s s' -> balances s' = balances s /\ supplies s' = supplies s /\ sell_orders s' = sell_orders s /\
  markets s' = markets s /\ market_seq_id s' = market_seq_id s /\ fee_params_ s' = fee_params_ s /\
  allowed_denoms s' = allowed_denoms s /\ sell_order_seq_id s' = sell_order_seq_id s.
Proof. unfold bank_only. intros ->. cbn. tauto. Qed.

(* a bank-only step whose supply effect is a decrease of uregen *)
Lemma mframe_bank s s' :
  bank_only s s' -> (forall d, d <> uregen -> bank_sup s' d = bank_sup s d) -> bank_sup s' uregen <= bank_sup s uregen ->
  mframe s s'.
Proof.
  intros H0 H1 H2. destruct (bank_only_fields _ _ H0) as (F1 & F2 & _).
  constructor; [apply bank_only_market_only; exact H0 | | | exact H1 | exact H2].
  - intros a k. unfold get_balance. rewrite F1. lia.
  - intros k. rewrite F2. apply sup_rel_refl.
Qed.
