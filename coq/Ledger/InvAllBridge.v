(* Assembly, C13: bridge safety for every message of every family and every history.

   Ledger/InvBridge.v proves the per-message facts for the base module only ([is_base_module_msg m = true]:
   the nine credit messages and the administrative / governance / bank-send messages) and over flat lists of
   such messages.  Here they are lifted to all messages, to begin-block, to [reaches] and to [Step.run]:

   - basket messages, marketplace messages and begin-block leave every table this property reads alone
     ([bridge_frame]: origin_txs, batch_contracts, batches, projects, classes, the two sequence counters and
     the allowed bridge chains), and [Inv_contracts] reads only five of those fields ([Inv_contracts_frame]);
   - base-module messages only add rows to batch_contracts, under a fresh batch key ([base_contracts_mono]);
   - hence one accepted message of any family preserves Inv_contracts, only grows origin_txs and keeps every
     bound (batch key |-> class, contract) row ([contracts_preserved_all]); an issuing message of any family
     succeeds only if its origin-tx key is new, and records it ([origin_tx_once_all]);
   - along histories: Inv_contracts holds in every reachable state, a recorded origin tx stays recorded and a
     bound contract stays bound to the same batch ([reaches_contracts], [reaches_bridge_mono]), so a recorded
     origin tx never issues again ([recorded_never_reissues]) and later receipts for a bound contract mint into
     that same batch ([bound_contract_same_batch]);
   - the ghost trace [issued_origins_run] of the keys issued by the accepted messages of a whole run (blocks of
     arbitrary messages, begin-block in between) has no duplicates, is disjoint from the genesis index and
     accounts for exactly the growth of the index ([run_no_double_issuance]).

   Hypotheses: [Inv_contracts] (InvBridge.v) throughout; [Inv_core] and [Inv_bound] (part of [Inv_run]) only
   because the frames of the marketplace messages (InvMarket.market_frame) and of begin-block
   (InvMarketPrune.prune_spec) are proved under them.  Proof file. *)
From stdpp Require Import gmap.
From RecordUpdate Require Import RecordSet.
From Coq Require Import ZArith NArith List Bool Lia Strings.Byte.
Require Import Regen.Base.Bytes Regen.Base.Calendar Regen.Dec.Dec.
Require Import Regen.Ledger.Types Regen.Ledger.Msgs Regen.Ledger.Orm Regen.Ledger.BaseMsgs
               Regen.Ledger.BasketMsgs Regen.Ledger.MarketMsgs Regen.Ledger.Step
               Regen.Ledger.Amount Regen.Ledger.MapSum Regen.Ledger.Inv Regen.Ledger.InvTactics.
Require Import Regen.Ledger.InvFrame Regen.Ledger.InvAdmin Regen.Ledger.InvBaseLib Regen.Ledger.InvBase3 Regen.Ledger.InvBase
               Regen.Ledger.InvBasket Regen.Ledger.InvBridgeLib Regen.Ledger.InvBridge Regen.Ledger.InvIds.
Require Import Regen.Ledger.InvMarketLib Regen.Ledger.InvMarketPrim Regen.Ledger.InvMarketOrders
               Regen.Ledger.InvMarketPrune Regen.Ledger.InvMarket.
Require Import Regen.Ledger.InvAllLib Regen.Ledger.InvAllBound Regen.Ledger.InvAllRun Regen.Ledger.InvAllOrders.
Require Regen.Ledger.InvBaseExample Regen.Ledger.InvBridgeExample.
Import ListNotations RecordSetNotations.
Local Open Scope Z_scope.

(* ------------------------------------------------------------------ *)
(* the tables C13 reads, and the steps that leave them alone           *)
(* ------------------------------------------------------------------ *)

Record bridge_frame (s s' : state) : Prop := {
  bf_origin_txs : origin_txs s' = origin_txs s;
  bf_contracts : batch_contracts s' = batch_contracts s;
  bf_batches : batches s' = batches s;
  bf_batch_seq : batch_seq_id s' = batch_seq_id s;
  bf_projects : projects s' = projects s;
  bf_project_seq : project_seq_id s' = project_seq_id s;
  bf_classes : classes s' = classes s;
  bf_chains : allowed_bridge_chains s' = allowed_bridge_chains s
}.

(* Inv_contracts depends only on batch_contracts, batches, projects and the two sequence counters *)
Lemma Inv_contracts_fields s s' :
  batch_contracts s' = batch_contracts s -> batches s' = batches s -> batch_seq_id s' = batch_seq_id s ->
  projects s' = projects s -> project_seq_id s' = project_seq_id s -> Inv_contracts s -> Inv_contracts s'.
Proof.
  intros E1 E2 E3 E4 E5. unfold Inv_contracts. rewrite E1, E2, E3, E4, E5. intros Hi. exact Hi.
Qed.

Lemma Inv_contracts_frame s s' : bridge_frame s s' -> Inv_contracts s -> Inv_contracts s'.
Proof.
  intros F. apply Inv_contracts_fields;
    [apply (bf_contracts _ _ F) | apply (bf_batches _ _ F) | apply (bf_batch_seq _ _ F)
    | apply (bf_projects _ _ F) | apply (bf_project_seq _ _ F)].
Qed.

(* the class an issuing message would issue into is resolved through the framed tables only *)
Lemma issue_class_frame s s' m : bridge_frame s s' -> issue_class s' m = issue_class s m.
Proof.
  intros F. destruct m; try reflexivity; cbn [issue_class].
  - unfold project_by_id. rewrite (bf_projects _ _ F). reflexivity.
  - unfold batch_by_denom. rewrite (bf_batches _ _ F), (bf_projects _ _ F). reflexivity.
  - unfold class_by_id. rewrite (bf_classes _ _ F). reflexivity.
Qed.

(* basket messages: no invariant is needed (InvAllOrders.basket_stab, by inspection of the handlers) *)
Lemma basket_bridge_frame e s m s' r evs :
  is_basket_msg m = true -> handle e s m = LOk (s', r, evs) -> bridge_frame s s'.
Proof.
  intros Hm H. pose proof (basket_stab _ _ _ _ _ _ Hm H) as E. unfold stab, itab in E.
  injection E. intros. constructor; assumption.
Qed.

(* marketplace messages: every table outside the marketplace's write set is untouched *)
Lemma market_bridge_frame e s m s' r evs :
  is_market_msg m = true -> Inv_core s -> Inv_bound s -> validate_basic m = true ->
  handle e s m = LOk (s', r, evs) -> bridge_frame s s'.
Proof.
  intros Hm Hc Hb Hvb H. pose proof (market_frame e s m s' r evs Hm Hc Hb Hvb H) as E.
  constructor; rewrite E; reflexivity.
Qed.

(* begin-block: pruning writes balances and sell orders only *)
Lemma begin_block_bridge_frame t s s' : Inv_core s -> begin_block t s = LOk s' -> bridge_frame s s'.
Proof.
  intros Hc H. unfold begin_block in H. destruct (prune_spec t s s' Hc H) as (_ & _ & _ & _ & E).
  constructor; rewrite E; reflexivity.
Qed.

(* ------------------------------------------------------------------ *)
(* what only grows                                                     *)
(* ------------------------------------------------------------------ *)

(* a recorded origin tx stays recorded; a contract bound to a batch stays bound to that batch *)
Definition bridge_mono (s s' : state) : Prop :=
  origin_txs s ⊆ origin_txs s' /\
  (forall k bc, batch_contracts s !! k = Some bc -> batch_contracts s' !! k = Some bc).

Lemma bridge_mono_refl s : bridge_mono s s.
Proof. split; [reflexivity | intros k bc Hk; exact Hk]. Qed.

Lemma bridge_mono_trans a b c : bridge_mono a b -> bridge_mono b c -> bridge_mono a c.
Proof.
  intros [A1 A2] [B1 B2]. split; [etransitivity; eassumption|].
  intros k bc Hk. apply B2, A2, Hk.
Qed.

Lemma bridge_frame_mono s s' : bridge_frame s s' -> bridge_mono s s'.
Proof.
  intros F. split; [rewrite (bf_origin_txs _ _ F); reflexivity|].
  intros k bc Hk. rewrite (bf_contracts _ _ F). exact Hk.
Qed.

(* CreateBatch binds at most one new row, under the fresh batch key *)
Lemma create_batch_contracts_mono e s issuer pid iss metadata start_ end_ open otx s' r evs :
  h_create_batch e s issuer pid iss metadata start_ end_ open otx = LOk (s', r, evs) ->
  forall k bc, batch_contracts s !! k = Some bc -> batch_contracts s' !! k = Some bc.
Proof.
  intros H k bc Hk. apply h_create_batch_shape in H.
  destruct H as (pk & pj & cl & sd & ed & _ & _ & _ & _ & _ & _ & Hok & Hrest & _ & _).
  rewrite (rest_batch_contracts _ _ Hrest).
  change (cb_contracts (pj_class_key pj) (batch_seq_id s + 1)%N otx s !! k = Some bc).
  unfold cb_contracts. destruct otx as [o|]; [|exact Hk].
  destruct (ot_contract o) as [|c0 cs] eqn:Ec; [exact Hk|].
  destruct Hok as [_ Hok]. rewrite Ec in Hok. destruct (Hok ltac:(discriminate)) as [_ Hnone].
  rewrite lookup_insert_ne; [exact Hk|]. intros Heq. rewrite Heq, Hk in Hnone. discriminate.
Qed.

Lemma mint_contracts_eq e s issuer denom iss otx s' r evs :
  h_mint_batch_credits e s issuer denom iss otx = LOk (s', r, evs) -> batch_contracts s' = batch_contracts s.
Proof.
  intros H. apply h_mint_batch_credits_shape in H.
  destruct H as (bk & ba & pj & o & _ & _ & _ & _ & _ & _ & Hrest & _ & _).
  rewrite (rest_batch_contracts _ _ Hrest). reflexivity.
Qed.

(* base-module messages never remove or rewrite a row of batch_contracts (no invariant needed) *)
Theorem base_contracts_mono e s m s' r evs :
  is_base_module_msg m = true -> handle e s m = LOk (s', r, evs) ->
  forall k bc, batch_contracts s !! k = Some bc -> batch_contracts s' !! k = Some bc.
Proof.
  intros Hm H k bc Hk. unfold is_base_module_msg in Hm. apply orb_true_iff in Hm. destruct Hm as [Hm|Hm].
  2:{ destruct (admin_tables _ _ _ _ _ _ Hm H) as (_ & A2 & _). rewrite A2. exact Hk. }
  destruct m; try discriminate Hm; cbn [handle] in H.
  - (* CreateBatch *) eapply create_batch_contracts_mono; eassumption.
  - (* MintBatchCredits *) rewrite (mint_contracts_eq _ _ _ _ _ _ _ _ _ H). exact Hk.
  - (* SealBatch *)
    apply h_seal_batch_shape in H. destruct H as [->|(bk & ba & _ & ->)]; exact Hk.
  - (* Send *) apply h_send_rest in H. rewrite (rest_batch_contracts _ _ H). exact Hk.
  - (* Retire *) apply h_retire_rest in H. rewrite (rest_batch_contracts _ _ H). exact Hk.
  - (* Cancel *) apply h_cancel_rest in H. rewrite (rest_batch_contracts _ _ H). exact Hk.
  - (* UpdateBatchMetadata *)
    apply h_update_batch_metadata_shape in H. destruct H as (bk & ba & _ & ->). exact Hk.
  - (* Bridge *)
    apply h_bridge_shape in H. destruct H as (_ & _ & _ & _ & H). rewrite (rest_batch_contracts _ _ H). exact Hk.
  - (* BridgeReceive *)
    apply h_bridge_receive_shape in H.
    destruct H as (o & bb & pp & ck & cl & _ & _ & _ & _ & _ & [Hmint|Hcreate]).
    + destruct Hmint as (bk & bc0 & ba0 & pj0 & r1 & e1 & _ & _ & _ & Hm1 & _ & _).
      rewrite (mint_contracts_eq _ _ _ _ _ _ _ _ _ Hm1). exact Hk.
    + destruct Hcreate as (_ & s1 & pid & d & e2 & Hproj & Hcb & _ & _).
      assert (E1 : batch_contracts s1 = batch_contracts s).
      { destruct Hproj as [(k0 & pj0 & _ & -> & _)|(_ & e3 & Hcp)]; [reflexivity|].
        apply h_create_project_shape in Hcp. destruct Hcp as (ck' & cl' & _ & _ & _ & -> & _ & _). reflexivity. }
      eapply create_batch_contracts_mono; [exact Hcb|]. rewrite E1. exact Hk.
Qed.

(* ------------------------------------------------------------------ *)
(* 1. one accepted message of any family; begin-block                  *)
(* ------------------------------------------------------------------ *)

Lemma origin_of_nonbase m : is_base_credit_msg m = false -> origin_of m = None.
Proof. destruct m; cbn; try reflexivity; discriminate. Qed.

Lemma base_credit_is_base_module m : is_base_credit_msg m = true -> is_base_module_msg m = true.
Proof. intros Hm. unfold is_base_module_msg. rewrite Hm. reflexivity. Qed.

Lemma admin_is_base_module m : is_admin_msg m = true -> is_base_module_msg m = true.
Proof. intros Hm. unfold is_base_module_msg. rewrite Hm. apply orb_true_r. Qed.

(* InvBridge.bridge_step for every message: the effect of one accepted message on origin_txs *)
Theorem bridge_step_all e s m s' r evs :
  Inv_contracts s -> Inv_core s -> Inv_bound s -> validate_basic m = true -> handle e s m = LOk (s', r, evs) ->
  Inv_contracts s' /\
  match origin_of m with
  | Some o => exists ck, issue_class s m = Some ck /\ origin_key ck o ∉ origin_txs s /\
                         origin_txs s' = {[ origin_key ck o ]} ∪ origin_txs s
  | None => origin_txs s' = origin_txs s
  end.
Proof.
  intros Hi Hc Hb Hvb H. destruct (msg_class_total m) as [Hm|[Hm|[Hm|Hm]]].
  - destruct Hm as (Hm & _). apply (bridge_step e s m s' r evs (base_credit_is_base_module m Hm) Hi H).
  - destruct Hm as (_ & Hm & _). apply (bridge_step e s m s' r evs (admin_is_base_module m Hm) Hi H).
  - destruct Hm as (Hm0 & _ & Hm & _). pose proof (basket_bridge_frame _ _ _ _ _ _ Hm H) as F.
    split; [eapply Inv_contracts_frame; eassumption|].
    rewrite (origin_of_nonbase m Hm0). apply (bf_origin_txs _ _ F).
  - destruct Hm as (Hm0 & _ & _ & Hm). pose proof (market_bridge_frame _ _ _ _ _ _ Hm Hc Hb Hvb H) as F.
    split; [eapply Inv_contracts_frame; eassumption|].
    rewrite (origin_of_nonbase m Hm0). apply (bf_origin_txs _ _ F).
Qed.

Theorem contracts_mono_all e s m s' r evs :
  Inv_core s -> Inv_bound s -> validate_basic m = true -> handle e s m = LOk (s', r, evs) ->
  forall k bc, batch_contracts s !! k = Some bc -> batch_contracts s' !! k = Some bc.
Proof.
  intros Hc Hb Hvb H. destruct (msg_class_total m) as [Hm|[Hm|[Hm|Hm]]].
  - destruct Hm as (Hm & _). apply (base_contracts_mono e s m s' r evs (base_credit_is_base_module m Hm) H).
  - destruct Hm as (_ & Hm & _). apply (base_contracts_mono e s m s' r evs (admin_is_base_module m Hm) H).
  - destruct Hm as (_ & _ & Hm & _). apply (bridge_frame_mono s s' (basket_bridge_frame _ _ _ _ _ _ Hm H)).
  - destruct Hm as (_ & _ & _ & Hm).
    apply (bridge_frame_mono s s' (market_bridge_frame _ _ _ _ _ _ Hm Hc Hb Hvb H)).
Qed.

(* every accepted message of every family keeps Inv_contracts, every recorded origin tx and every binding *)
Theorem contracts_preserved_all e s m s' r evs :
  Inv_contracts s -> Inv_core s -> Inv_bound s -> validate_basic m = true -> handle e s m = LOk (s', r, evs) ->
  Inv_contracts s' /\ origin_txs s ⊆ origin_txs s' /\
  (forall k bc, batch_contracts s !! k = Some bc -> batch_contracts s' !! k = Some bc).
Proof.
  intros Hi Hc Hb Hvb H. destruct (bridge_step_all _ _ _ _ _ _ Hi Hc Hb Hvb H) as [Hi' Ho].
  split; [exact Hi'|]. split; [|eapply contracts_mono_all; eassumption].
  destruct (origin_of m) as [o|].
  - destruct Ho as (ck & _ & _ & ->). apply union_subseteq_r.
  - rewrite Ho. reflexivity.
Qed.
Print Assumptions contracts_preserved_all.

(* begin-block changes none of the tables of this property *)
Theorem begin_block_contracts_preserved t s s' :
  Inv_contracts s -> Inv_core s -> begin_block t s = LOk s' ->
  Inv_contracts s' /\ origin_txs s' = origin_txs s /\ batch_contracts s' = batch_contracts s.
Proof.
  intros Hi Hc H. pose proof (begin_block_bridge_frame t s s' Hc H) as F.
  split; [eapply Inv_contracts_frame; eassumption|].
  split; [apply (bf_origin_txs _ _ F) | apply (bf_contracts _ _ F)].
Qed.
Print Assumptions begin_block_contracts_preserved.

(* ------------------------------------------------------------------ *)
(* 2. an origin tx issues at most once, whatever the message           *)
(* ------------------------------------------------------------------ *)

(* only the three issuing entry points carry an origin tx, so no hypothesis on the family (nor on
   ValidateBasic, nor on the accounting invariants) is needed *)
Theorem origin_tx_once_all e s m o s' r evs :
  Inv_contracts s -> origin_of m = Some o -> handle e s m = LOk (s', r, evs) ->
  exists ck, issue_class s m = Some ck /\
    origin_key ck o ∉ origin_txs s /\ origin_key ck o ∈ origin_txs s' /\
    origin_txs s' = {[ origin_key ck o ]} ∪ origin_txs s.
Proof.
  intros Hi Ho H. destruct (is_base_credit_msg m) eqn:Hm.
  - eapply origin_tx_once; [apply base_credit_is_base_module; exact Hm | exact Hi | exact Ho | exact H].
  - rewrite (origin_of_nonbase m Hm) in Ho. discriminate.
Qed.
Print Assumptions origin_tx_once_all.

(* ... and a message without an origin tx, of any family, leaves the index alone *)
Theorem origin_txs_unchanged_all e s m s' r evs :
  Inv_contracts s -> Inv_core s -> Inv_bound s -> validate_basic m = true -> handle e s m = LOk (s', r, evs) ->
  origin_of m = None -> origin_txs s' = origin_txs s.
Proof.
  intros Hi Hc Hb Hvb H Ho. destruct (bridge_step_all _ _ _ _ _ _ Hi Hc Hb Hvb H) as [_ Hs].
  rewrite Ho in Hs. exact Hs.
Qed.
Print Assumptions origin_txs_unchanged_all.

(* ------------------------------------------------------------------ *)
(* 3. histories                                                        *)
(* ------------------------------------------------------------------ *)

Definition Inv_bridge_run (s : state) : Prop := Inv_run s /\ Inv_contracts s.

(* the transaction rule: failed and invalid messages leave the state unchanged *)
Theorem deliver_preserves_bridge e s m :
  Inv_bridge_run s -> Inv_bridge_run (deliver e s m).1 /\ bridge_mono s (deliver e s m).1.
Proof.
  intros [Hr Hi]. split; [split; [apply (deliver_preserves_run e s m Hr)|]|].
  - apply (deliver_lift (fun a b => Inv_contracts b)); [exact Hi|]. intros s' r evs Hvb H.
    destruct Hr as (Hc & Hb & _). apply (contracts_preserved_all _ _ _ _ _ _ Hi Hc Hb Hvb H).
  - apply (deliver_lift bridge_mono); [apply bridge_mono_refl|]. intros s' r evs Hvb H.
    destruct Hr as (Hc & Hb & _). apply (contracts_preserved_all _ _ _ _ _ _ Hi Hc Hb Hvb H).
Qed.

Theorem begin_block_preserves_bridge t s s' :
  Inv_bridge_run s -> begin_block t s = LOk s' -> Inv_bridge_run s' /\ bridge_mono s s'.
Proof.
  intros [Hr Hi] H. pose proof Hr as (Hc & _). pose proof (begin_block_bridge_frame t s s' Hc H) as F.
  split; [split|].
  - apply (begin_block_preserves_run t s s' Hr H).
  - eapply Inv_contracts_frame; eassumption.
  - apply bridge_frame_mono. exact F.
Qed.

Theorem reaches_preserves_bridge g s : Inv_bridge_run g -> reaches g s -> Inv_bridge_run s /\ bridge_mono g s.
Proof.
  intros Hg Hr. apply (reaches_inv_rel Inv_bridge_run bridge_mono); try assumption.
  - apply bridge_mono_refl.
  - apply bridge_mono_trans.
  - intros t a b. apply begin_block_preserves_bridge.
  - intros e a m. apply deliver_preserves_bridge.
Qed.

(* Inv_contracts holds in every state of every history *)
Theorem reaches_contracts g s : Inv_run g -> Inv_contracts g -> reaches g s -> Inv_contracts s.
Proof. intros Hr Hi H. apply (reaches_preserves_bridge g s (conj Hr Hi) H). Qed.
Print Assumptions reaches_contracts.

(* between any two points of a history: an origin tx once recorded is recorded forever, a contract bound to
   a batch stays bound to that same batch forever *)
Theorem reaches_bridge_mono g s1 s2 :
  Inv_run g -> Inv_contracts g -> reaches g s1 -> reaches s1 s2 ->
  origin_txs s1 ⊆ origin_txs s2 /\
  (forall k bc, batch_contracts s1 !! k = Some bc -> batch_contracts s2 !! k = Some bc).
Proof.
  intros Hr Hi H1 H2. destruct (reaches_preserves_bridge g s1 (conj Hr Hi) H1) as [Hs1 _].
  apply (reaches_preserves_bridge s1 s2 Hs1 H2).
Qed.
Print Assumptions reaches_bridge_mono.

(* hence: once the key of an origin tx is in the index, no message of any family carrying that origin tx for
   that class is ever accepted again, at any later point of any history *)
Theorem recorded_never_reissues g s1 s2 e m o ck s' r evs :
  Inv_run g -> Inv_contracts g -> reaches g s1 -> reaches s1 s2 ->
  origin_key ck o ∈ origin_txs s1 -> origin_of m = Some o -> issue_class s2 m = Some ck ->
  handle e s2 m = LOk (s', r, evs) -> False.
Proof.
  intros Hr Hi H1 H2 Hin Ho Hck H.
  assert (Hi2 : Inv_contracts s2) by (eapply reaches_contracts; [exact Hr | exact Hi | eapply reaches_trans; eassumption]).
  destruct (origin_tx_once_all _ _ _ _ _ _ _ Hi2 Ho H) as (ck' & Hck' & Hnot & _).
  rewrite Hck in Hck'. inversion Hck'; subst ck'.
  apply Hnot. apply (proj1 (reaches_bridge_mono g s1 s2 Hr Hi H1 H2)). exact Hin.
Qed.
Print Assumptions recorded_never_reissues.

(* and: a contract bound at some point of a history receives into that same batch at every later point *)
Theorem bound_contract_same_batch g s1 s2 e issuer class_id pjr bar o s' r evs bk bc ck cl :
  Inv_run g -> Inv_contracts g -> reaches g s1 -> reaches s1 s2 ->
  batch_contracts s1 !! bk = Some bc -> class_by_id s2 class_id = Some (ck, cl) ->
  bc_class_key bc = ck -> ot_contract o = bc_contract bc ->
  handle e s2 (MBridgeReceive issuer class_id pjr bar (Some o)) = LOk (s', r, evs) ->
  exists ba pj bb,
    batches s2 !! bk = Some ba /\ projects s2 !! ba_project_key ba = Some pj /\ bar = Some bb /\
    batch_by_denom s2 (ba_denom ba) = Some (bk, ba) /\
    h_mint_batch_credits e s2 issuer (ba_denom ba) (bridge_issuance bb) (Some o) = LOk (s', REmpty, []) /\
    r = RBridgeReceive (ba_denom ba) (pj_id pj) /\
    evs = [EvBridgeReceive (pj_id pj) (ba_denom ba) (brb_amount bb) o] /\
    batches s' = batches s2 /\ batch_seq_id s' = batch_seq_id s2 /\ batch_contracts s' = batch_contracts s2.
Proof.
  intros Hr Hi H1 H2 Hbc Hcl Hck Hcon H.
  assert (Hi2 : Inv_contracts s2) by (eapply reaches_contracts; [exact Hr | exact Hi | eapply reaches_trans; eassumption]).
  pose proof (proj2 (reaches_bridge_mono g s1 s2 Hr Hi H1 H2) _ _ Hbc) as Hbc2.
  eapply bridge_receive_same_batch; eassumption.
Qed.
Print Assumptions bound_contract_same_batch.

(* ------------------------------------------------------------------ *)
(* 4. the ghost trace of issued origin txs over whole runs             *)
(* ------------------------------------------------------------------ *)

(* InvBridge.issued_origins records issue_key s m for every ACCEPTED message; for a message of another
   family origin_of m = None, so issue_key s m = None and the message contributes nothing: the definition
   is used unchanged, only its theorem is generalised *)
Lemma issue_key_nonbase s m : is_base_credit_msg m = false -> issue_key s m = None.
Proof. intros Hm. unfold issue_key. rewrite (origin_of_nonbase m Hm). reflexivity. Qed.

Lemma run_msgs_deliver_all e ms : forall s, run_msgs e s ms = deliver_all e ms s.
Proof.
  unfold deliver_all. induction ms as [|m ms IH]; intros s; cbn [run_msgs fold_left]; [reflexivity | apply IH].
Qed.

(* one block's messages, of any family *)
Theorem issued_origins_nodup_all e : forall ms s,
  Inv_run s -> Inv_contracts s ->
  NoDup (issued_origins e s ms) /\
  (forall k, In k (issued_origins e s ms) -> k ∉ origin_txs s) /\
  origin_txs (deliver_all e ms s) = origin_txs s ∪ list_to_set (issued_origins e s ms) /\
  Inv_run (deliver_all e ms s) /\ Inv_contracts (deliver_all e ms s).
Proof.
  intros ms s. rewrite <- run_msgs_deliver_all. revert s.
  induction ms as [|m ms IH]; intros s Hr Hinv; cbn [issued_origins run_msgs].
  - split; [constructor|]. split; [intros k []|]. split; [|split; assumption].
    rewrite list_to_set_nil. rewrite union_empty_r_L. reflexivity.
  - unfold deliver. destruct (validate_basic m) eqn:Hvb; [|cbn [fst snd]; apply IH; assumption].
    destruct (handle e s m) as [[[s' r] evs]|err] eqn:H; cbn [fst snd]; [|apply IH; assumption].
    pose proof Hr as (Hc & Hb & _).
    destruct (bridge_step_all _ _ _ _ _ _ Hinv Hc Hb Hvb H) as [Hinv' Hs].
    pose proof (proj1 (handle_preserves_run _ _ _ _ _ _ Hr Hvb H)) as Hr'.
    destruct (IH s' Hr' Hinv') as (Hnd & Hnot & Hrun & Hfin).
    unfold issue_key. destruct (origin_of m) as [o|].
    + destruct Hs as (ck & Hck & Hnew & Hor). rewrite Hck.
      split; [|split; [|split; [|exact Hfin]]].
      * constructor; [|exact Hnd]. intros Hin. apply (Hnot _ Hin). rewrite Hor.
        apply elem_of_union_l, elem_of_singleton. reflexivity.
      * intros k [<-|Hin]; [exact Hnew|]. intros Hk. apply (Hnot _ Hin). rewrite Hor.
        apply elem_of_union_r. exact Hk.
      * rewrite Hrun, Hor, list_to_set_cons.
        rewrite (union_comm_L {[origin_key ck o]} (origin_txs s)). rewrite <- (assoc_L (∪)). reflexivity.
    + rewrite Hs in Hnot, Hrun. split; [exact Hnd|]. split; [exact Hnot|]. split; [exact Hrun | exact Hfin].
Qed.

(* the trace of a run: per block, begin-block (which issues nothing), then the block's messages delivered
   in the block's environment; a halted run (begin-block error) has no trace from that block on *)
Fixpoint issued_origins_run (authority : addr) (s : state) (h : list block) : list (N * bytes * bytes) :=
  match h with
  | [] => []
  | bl :: h' =>
      match begin_block (blk_time bl) s with
      | LOk s1 =>
          issued_origins (block_env authority bl) s1 (blk_msgs bl) ++
          issued_origins_run authority (deliver_all (block_env authority bl) (blk_msgs bl) s1) h'
      | LErr _ => []
      end
  end.

(* (List.NoDup, as in InvBridge.issued_origins_nodup) *)
Lemma NoDup_app_intro {A} (l k : list A) :
  NoDup l -> NoDup k -> (forall x, In x l -> In x k -> False) -> NoDup (l ++ k).
Proof.
  induction l as [|a l IH]; cbn [app]; intros Hl Hk Hd; [exact Hk|].
  inversion Hl as [|a' l' Hna Hl']; subst a' l'. constructor.
  - intros Hin. apply in_app_or in Hin. destruct Hin as [Hin|Hin]; [exact (Hna Hin)|].
    apply (Hd a); [left; reflexivity | exact Hin].
  - apply IH; [exact Hl' | exact Hk|]. intros x Hx Hx'. apply (Hd x); [right; exact Hx | exact Hx'].
Qed.

Lemma issued_origins_run_ok authority : forall h g s,
  Inv_run g -> Inv_contracts g -> run authority g h = LOk s ->
  NoDup (issued_origins_run authority g h) /\
  (forall k, In k (issued_origins_run authority g h) -> k ∉ origin_txs g) /\
  origin_txs s = origin_txs g ∪ list_to_set (issued_origins_run authority g h) /\
  Inv_run s /\ Inv_contracts s.
Proof.
  induction h as [|bl h IH]; intros g s Hr Hi H; unfold run in H; cbn [lfold] in H; cbn [issued_origins_run].
  - inversion H; subst s. split; [constructor|]. split; [intros k []|]. split; [|split; assumption].
    rewrite list_to_set_nil. rewrite union_empty_r_L. reflexivity.
  - apply lbind_ok in H. destruct H as (s2 & H1 & H2). rewrite run_block_unfold in H1.
    apply lbind_ok in H1. destruct H1 as (s1 & Hbb & H1). inversion H1; subst s2; clear H1. rewrite Hbb.
    destruct (begin_block_preserves_bridge _ _ _ (conj Hr Hi) Hbb) as [[Hr1 Hi1] _].
    pose proof Hr as (Hc & _). pose proof (bf_origin_txs _ _ (begin_block_bridge_frame _ _ _ Hc Hbb)) as E0.
    destruct (issued_origins_nodup_all (block_env authority bl) (blk_msgs bl) s1 Hr1 Hi1)
      as (Hnd1 & Hnot1 & Hor1 & Hr2 & Hi2).
    change (lfold (run_block authority) h (deliver_all (block_env authority bl) (blk_msgs bl) s1))
      with (run authority (deliver_all (block_env authority bl) (blk_msgs bl) s1) h) in H2.
    destruct (IH _ _ Hr2 Hi2 H2) as (Hnd2 & Hnot2 & Hor2 & Hfin).
    rewrite E0 in Hnot1, Hor1.
    split; [|split; [|split; [|exact Hfin]]].
    + apply NoDup_app_intro; [exact Hnd1 | exact Hnd2 |].
      intros k Hk1 Hk2. apply (Hnot2 _ Hk2). rewrite Hor1. apply elem_of_union_r. apply elem_of_list_to_set.
      apply elem_of_list_In. exact Hk1.
    + intros k Hk. apply in_app_or in Hk. destruct Hk as [Hk|Hk]; [apply Hnot1; exact Hk|].
      intros Hg. apply (Hnot2 _ Hk). rewrite Hor1. apply elem_of_union_l. exact Hg.
    + rewrite Hor2, Hor1, list_to_set_app_L. rewrite <- (assoc_L (∪)). reflexivity.
Qed.

(* C13 over whole runs, arbitrary messages in the blocks: no key issues twice, none that the genesis index
   already holds issues at all, and the index grows by exactly the issued keys *)
Theorem run_no_double_issuance authority g h s :
  Inv_run g -> Inv_contracts g -> run authority g h = LOk s ->
  NoDup (issued_origins_run authority g h) /\
  (forall k, In k (issued_origins_run authority g h) -> k ∉ origin_txs g) /\
  origin_txs s = origin_txs g ∪ list_to_set (issued_origins_run authority g h).
Proof.
  intros Hr Hi H. destruct (issued_origins_run_ok authority h g s Hr Hi H) as (A & B & C & _). tauto.
Qed.
Print Assumptions run_no_double_issuance.

Theorem run_contracts authority g h s :
  Inv_run g -> Inv_contracts g -> run authority g h = LOk s -> Inv_contracts s.
Proof. intros Hr Hi H. apply (issued_origins_run_ok authority h g s Hr Hi H). Qed.
Print Assumptions run_contracts.

(* ------------------------------------------------------------------ *)
(* 5. the hypotheses are satisfiable                                   *)
(* ------------------------------------------------------------------ *)

Lemma empty_state_contracts : Inv_contracts empty_state.
Proof.
  split; [|split; [|split; [|split; [|split]]]].
  - intros k1 k2 c1 c2 H. exact (False_ind _ (empty_lookup_absurd _ _ H)).
  - intros k c H. exact (False_ind _ (empty_lookup_absurd _ _ H)).
  - intros k1 k2 p1 p2 H. exact (False_ind _ (empty_lookup_absurd _ _ H)).
  - intros k [x Hx]. exact (False_ind _ (empty_lookup_absurd _ _ Hx)).
  - intros k [x Hx]. exact (False_ind _ (empty_lookup_absurd _ _ Hx)).
  - intros k1 k2 b1 b2 H. exact (False_ind _ (empty_lookup_absurd _ _ H)).
Qed.

Example bridge_hyps_satisfiable : Inv_run empty_state /\ Inv_contracts empty_state.
Proof.
  destruct market_hyps_satisfiable as (H1 & H2 & H3 & _).
  split; [split; [exact H1 | split; assumption] | exact empty_state_contracts].
Qed.

(* the trace is not vacuous: a two-block run from InvBridgeExample.base_state in which the origin tx tx1 is
   issued through CreateBatch, replayed (source in other letter cases) through MintBatchCredits in the same
   block and through BridgeReceive in the next one, with a basket and a marketplace message in between, and
   the fresh tx2 is then received; exactly the two accepted issuances are in the trace *)
From Coq Require Import Strings.String.

Example run_trace_example :
  let o := InvBridgeExample.otx_of in
  let h := [ {| blk_time := mk_ts 1700000000 0;
                blk_msgs := [InvBridgeExample.via_create (o InvBridgeExample.tx1 "polygon"%string InvBridgeExample.con1);
                             MUpdateBasketFee addr_gov None;
                             InvBridgeExample.via_mint (o InvBridgeExample.tx1 "Polygon"%string InvBridgeExample.con2)] |};
             {| blk_time := mk_ts 1700000006 0;
                blk_msgs := [MCancelSellOrder 1%N 5%N;
                             InvBridgeExample.via_receive (o InvBridgeExample.tx1 "POLYGON"%string InvBridgeExample.con2);
                             InvBridgeExample.via_receive (o InvBridgeExample.tx2 "Polygon"%string InvBridgeExample.con2)] |} ] in
  issued_origins_run addr_gov InvBridgeExample.base_state h =
    [ (1%N, b InvBridgeExample.tx1, b "polygon"%string); (1%N, b InvBridgeExample.tx2, b "polygon"%string) ].
Proof. vm_compute. reflexivity. Qed.
