(* C03, ownership, base-module part: a message never decreases the credits (tradable + escrowed, in
   any batch) or the coins of an account that did not sign it, and the ecocredit module account
   nets to zero.  Proof file. *)
From stdpp Require Import gmap.
From RecordUpdate Require Import RecordSet.
From Coq Require Import ZArith NArith List Bool Lia Strings.Byte.
Require Import Regen.Base.Bytes Regen.Base.Calendar Regen.Dec.Dec Regen.Dec.DecIface Regen.Ids.Ids.
Require Import Regen.Ledger.Types Regen.Ledger.Msgs Regen.Ledger.Orm Regen.Ledger.BaseMsgs
               Regen.Ledger.BasketMsgs Regen.Ledger.MarketMsgs Regen.Ledger.Step
               Regen.Ledger.Amount Regen.Ledger.MapSum Regen.Ledger.Inv Regen.Ledger.InvTactics
               Regen.Ledger.InvBaseLib Regen.Ledger.InvBase1 Regen.Ledger.InvBase2 Regen.Ledger.InvBase3
               Regen.Ledger.InvBase Regen.Ledger.InvFrame Regen.Ledger.InvAdmin Regen.Ledger.Fees
               Regen.Ledger.InvBridgeLib Regen.Ledger.InvBridge Regen.Ledger.InvIds.
Import ListNotations RecordSetNotations.
Local Open Scope Z_scope.

(* credits an account can dispose of in a batch: tradable plus escrowed (in its sell orders) *)
Definition holdings (s : state) (a : addr) (k : N) : Z :=
  U (bl_tradable (get_balance s a k)) + U (bl_escrowed (get_balance s a k)).

(* nobody but [actor] loses credits *)
Definition own_rel (actor : addr) (s s' : state) : Prop :=
  forall a k, a <> actor -> holdings s a k <= holdings s' a k.
(* nobody loses credits *)
Definition own_all (s s' : state) : Prop := forall a k, holdings s a k <= holdings s' a k.

Lemma own_rel_refl actor s : own_rel actor s s.
Proof. intros a k _. apply Z.le_refl. Qed.
Lemma own_rel_trans actor s1 s2 s3 : own_rel actor s1 s2 -> own_rel actor s2 s3 -> own_rel actor s1 s3.
Proof. intros A B a k Hne. pose proof (A a k Hne). pose proof (B a k Hne). lia. Qed.
Lemma own_all_refl s : own_all s s.
Proof. intros a k. apply Z.le_refl. Qed.
Lemma own_all_trans s1 s2 s3 : own_all s1 s2 -> own_all s2 s3 -> own_all s1 s3.
Proof. intros A B a k. pose proof (A a k). pose proof (B a k). lia. Qed.
Lemma own_all_rel actor s s' : own_all s s' -> own_rel actor s s'.
Proof. intros A a k _. apply A. Qed.

Lemma own_balances_eq s s' : balances s' = balances s -> own_all s s'.
Proof. intros E a k. unfold holdings, get_balance. rewrite E. apply Z.le_refl. Qed.

Lemma own_rest_eq_supply k v s : own_all s (set_supply k v s).
Proof. intros a k'. apply Z.le_refl. Qed.

Lemma own_save_actor actor k b s : own_rel actor s (save_balance actor k b s).
Proof.
  intros a k' Hne. unfold holdings. rewrite get_balance_save.
  destruct (decide ((actor, k) = (a, k'))) as [Heq|_]; [inversion Heq; congruence | apply Z.le_refl].
Qed.

Lemma own_save_ge a k b s :
  holdings s a k <= U (bl_tradable b) + U (bl_escrowed b) -> own_all s (save_balance a k b s).
Proof.
  intros Hge a' k'. unfold holdings at 2. rewrite get_balance_save.
  destruct (decide ((a, k) = (a', k'))) as [Heq|_]; [inversion Heq; subst a' k'; exact Hge | apply Z.le_refl].
Qed.

(* ------------------------------------------------------------------ *)
(* credit steps                                                        *)
(* ------------------------------------------------------------------ *)

Lemma send_tradable_own bk sender recipient amt s s' :
  Inv_scale s -> in_ok amt -> send_tradable bk sender recipient amt s = LOk s' -> own_rel sender s s'.
Proof.
  intros Isc Hamt H. unfold send_tradable in H.
  lstep H as sb Hsb. lstep H as nt Hnt. lstep H as s1 Hs1. lstep H as rt Hrt.
  apply update_balance_ok' in Hs1. destruct Hs1 as [-> _].
  inversion H; subst s'; clear H.
  pose proof (get_balance_Some _ _ _ _ Hsb) as Hgs.
  pose proof (get_balance_ok s sender bk Isc) as Hsbok. rewrite Hgs in Hsbok.
  destruct Hsbok as (Hsb1 & Hsb2 & Hsb3).
  destruct (safe_sub_in_ok _ _ _ (stored_in_ok _ Hsb1) Hamt Hnt) as [Hnt1 Hnt2].
  destruct (dnorm_ok _ Hnt1) as [Hnt3 Hnt4].
  set (b1 := {| bl_tradable := dnorm nt; bl_retired := bl_retired sb; bl_escrowed := bl_escrowed sb |}) in *.
  assert (Hb1 : balance_ok b1) by (unfold b1, balance_ok; cbn [bl_tradable bl_retired bl_escrowed]; auto).
  set (s1 := save_balance sender bk b1 s) in *.
  assert (Isc1 : Inv_scale s1) by (apply save_balance_scale; assumption).
  set (rb := get_balance s1 recipient bk) in *.
  assert (Hrb : balance_ok rb) by (apply get_balance_ok; exact Isc1).
  destruct Hrb as (Hrb1 & Hrb2 & Hrb3).
  destruct (add_in_ok _ _ _ (stored_in_ok _ Hrb1) Hamt Hrt) as [Hrt1 Hrt2].
  destruct (dnorm_ok _ Hrt1) as [Hrt3 Hrt4].
  pose proof (in_ok_U_nonneg _ Hamt) as Hamt0.
  eapply own_rel_trans; [apply own_save_actor|]. apply own_all_rel. apply own_save_ge.
  unfold holdings. fold rb. cbn [bl_tradable bl_escrowed]. clearbody rb. lia.
Qed.

Lemma send_retired_own bk sender recipient amt s s' :
  send_retired bk sender recipient amt s = LOk s' -> own_rel sender s s'.
Proof.
  intros H. unfold send_retired in H.
  lstep H as sb Hsb. lstep H as nt Hnt. lstep H as s1 Hs1. lstep H as rr Hrr.
  lstep H as su Hsu. lstep H as st Hst. lstep H as sr Hsr.
  apply update_balance_ok' in Hs1. destruct Hs1 as [-> _].
  apply update_supply_ok' in H. destruct H as [-> _].
  eapply own_rel_trans; [apply own_save_actor|]. apply own_all_rel.
  eapply own_all_trans; [|apply own_rest_eq_supply].
  apply own_save_ge. unfold holdings. cbn [bl_tradable bl_escrowed]. apply Z.le_refl.
Qed.

Lemma send_one_own sender recipient s c s' :
  Inv_core s -> send_one sender recipient s c = LOk s' -> own_rel sender s s'.
Proof.
  intros Hinv H. unfold send_one in H.
  lstep H as p Hp. destruct p as [bk ba]. cbv beta iota in H.
  lstep H as ct Hct. cbv zeta in H.
  pose proof Hinv as (Ict & Isc & _).
  rewrite (credit_type_of_denom_prec _ _ _ Ict Hct) in H.
  lstep H as t Ht. lstep H as r Hr. lstep H as s1 Hs1.
  apply nnfixed_in_ok in Ht.
  assert (H1 : own_rel sender s s1).
  { destruct (is_zero t); [inversion Hs1; subst s1; apply own_rel_refl|].
    eapply send_tradable_own; [exact Isc | exact Ht | exact Hs1]. }
  eapply own_rel_trans; [exact H1|].
  destruct (is_zero r); [inversion H; subst s'; apply own_rel_refl|].
  eapply send_retired_own; exact H.
Qed.

Lemma retire_one_own owner s c s' : retire_one owner s c = LOk s' -> own_rel owner s s'.
Proof.
  unfold retire_one. intros H.
  lstep H as p Hp. destruct p as [bk ba]. cbv beta iota in H.
  lstep H as ct Hct. lstep H as ub Hub. lstep H as amt Hamt. lstep H as nt Hnt. lstep H as nr Hnr.
  lstep H as su Hsu. lstep H as sr Hsr. lstep H as st Hst. lstep H as s1 Hs1.
  apply update_balance_ok' in Hs1. destruct Hs1 as [-> _].
  apply update_supply_ok' in H. destruct H as [-> _].
  eapply own_rel_trans; [apply own_save_actor | apply own_all_rel, own_rest_eq_supply].
Qed.

Lemma cancel_one_own owner s c s' : cancel_one owner s c = LOk s' -> own_rel owner s s'.
Proof.
  unfold cancel_one. intros H.
  lstep H as p Hp. destruct p as [bk ba]. cbv beta iota in H.
  lstep H as ct Hct. lstep H as ub Hub. lstep H as su Hsu. lstep H as amt Hamt. lstep H as nt Hnt.
  lstep H as st Hst. lstep H as sc Hsc. lstep H as s1 Hs1.
  apply update_balance_ok' in Hs1. destruct Hs1 as [-> _].
  apply update_supply_ok' in H. destruct H as [-> _].
  eapply own_rel_trans; [apply own_save_actor | apply own_all_rel, own_rest_eq_supply].
Qed.

Lemma lfold_own_rel {B} actor (f : state -> B -> lres state) :
  (forall s x s', f s x = LOk s' -> own_rel actor s s') ->
  forall l s s', lfold f l s = LOk s' -> own_rel actor s s'.
Proof.
  intros Hstep l s s' Hl.
  destruct (lfold_rel f (fun _ => True) (own_rel actor)) with (l := l) (a := s) (a' := s') as [_ Hr].
  - apply own_rel_refl.
  - apply own_rel_trans.
  - intros a x a' _ Hf. split; [exact I | eapply Hstep; exact Hf].
  - exact I.
  - exact Hl.
  - exact Hr.
Qed.

(* issuing steps: the tradable column of the recipient's row only grows *)
Lemma cond_add_tradable_ge (x y r x' y' : dec) :
  stored_ok x -> stored_ok y -> in_ok r ->
  (if is_zero r then LOk (x, y)
   else lbind (lift (add x r)) (fun br => lbind (lift (add y r)) (fun sr => LOk (dnorm br, dnorm sr)))) = LOk (x', y') ->
  U x <= U x'.
Proof.
  intros Hx Hy Hr H. destruct (cond_add_ok _ _ _ _ _ Hx Hy Hr H) as (_ & _ & E & _).
  pose proof (in_ok_U_nonneg _ Hr). lia.
Qed.

Lemma mint_issue_own bk s i s' : Inv_scale s -> mint_issue P bk s i = LOk s' -> own_all s s'.
Proof.
  intros Isc H. unfold mint_issue in H.
  lstep H as t Ht. lstep H as r Hr. cbv zeta in H.
  lstep H as su Hsu. lstep H as p1 Hp1. destruct p1 as [br sr]. cbv beta iota in H.
  lstep H as p2 Hp2. destruct p2 as [bt st]. cbv beta iota in H.
  apply update_supply_ok' in H. destruct H as [-> _].
  apply nnfixed_in_ok in Ht.
  set (bal := get_balance s (is_recipient i) bk) in *.
  assert (Hbal : balance_ok bal) by (apply get_balance_ok; exact Isc).
  destruct Hbal as (Hbal1 & Hbal2 & Hbal3).
  destruct (proj1 (proj2 Isc) _ _ Hsu) as (Hsu1 & Hsu2 & Hsu3).
  pose proof (cond_add_tradable_ge _ _ _ _ _ Hbal1 Hsu1 Ht Hp2) as Hge.
  eapply own_all_trans; [|apply own_rest_eq_supply].
  apply own_save_ge. unfold holdings. fold bal. cbn [bl_tradable bl_escrowed]. clearbody bal. lia.
Qed.

Lemma mint_loop_own bk : forall iss s s',
  Inv_core s -> is_Some (batches s !! bk) -> lfold (mint_issue P bk) iss s = LOk s' -> own_all s s'.
Proof.
  induction iss as [|i iss IH]; intros s s' Hinv Hbk Hl; cbn [lfold] in Hl.
  - inversion Hl; subst s'. apply own_all_refl.
  - apply lbind_ok in Hl. destruct Hl as (s1 & H1 & H2).
    destruct (mint_issue_ok _ _ _ _ Hinv Hbk H1) as (Hinv1 & Hrel1 & _).
    assert (Hbk1 : is_Some (batches s1 !! bk)).
    { destruct Hbk as [ba Hba]. destruct (br_batches _ _ Hrel1 _ _ Hba) as (ba' & Hba' & _). rewrite Hba'. eauto. }
    eapply own_all_trans; [eapply mint_issue_own; [apply Hinv | exact H1] | eapply IH; eassumption].
Qed.

(* CreateBatch's loop: the only invariant needed is that stored balance rows are well-scaled *)
Definition rows_ok (s : state) : Prop := forall k b, balances s !! k = Some b -> balance_ok b.

Lemma rows_ok_get s a k : rows_ok s -> balance_ok (get_balance s a k).
Proof.
  intros Hr. unfold get_balance. destruct (balances s !! (a, k)) as [b|] eqn:E; cbn; [eapply Hr; exact E | apply zero_balance_ok].
Qed.

Lemma create_batch_issue_own bk acc i acc' :
  rows_ok acc.1.1 -> create_batch_issue P bk acc i = LOk acc' -> rows_ok acc'.1.1 /\ own_all acc.1.1 acc'.1.1.
Proof.
  destruct acc as [[s t] r]. cbn [fst snd]. intros Hrows H. unfold create_batch_issue in H.
  lstep H as t0 Ht0. lstep H as r0 Hr0. cbv zeta in H.
  lstep H as tb Htb. lstep H as rb Hrb. lstep H as t1 Ht1. lstep H as r1 Hr1.
  inversion H; subst acc'; clear H. cbn [fst snd].
  apply nnfixed_in_ok in Ht0. apply nnfixed_in_ok in Hr0.
  set (bal := get_balance s (is_recipient i) bk) in *.
  destruct (rows_ok_get s (is_recipient i) bk Hrows) as (Hbal1 & Hbal2 & Hbal3). fold bal in Hbal1, Hbal2, Hbal3.
  destruct (add_in_ok _ _ _ (stored_in_ok _ Hbal1) Ht0 Htb) as [Htb1 Htb2].
  destruct (dnorm_ok _ Htb1) as [Htb3 Htb4].
  destruct (add_in_ok _ _ _ (stored_in_ok _ Hbal2) Hr0 Hrb) as [Hrb1 Hrb2].
  destruct (dnorm_ok _ Hrb1) as [Hrb3 Hrb4].
  pose proof (in_ok_U_nonneg _ Ht0) as Ht00.
  split.
  - intros k b Hk. rewrite balances_save in Hk. destruct (decide ((is_recipient i, bk) = k)) as [Heq|Hne].
    + subst k. rewrite lookup_insert in Hk. inversion Hk; subst b.
      unfold balance_ok. cbn [bl_tradable bl_retired bl_escrowed]. auto.
    + rewrite lookup_insert_ne in Hk by exact Hne. eapply Hrows; exact Hk.
  - apply own_save_ge. unfold holdings. fold bal. cbn [bl_tradable bl_escrowed]. clearbody bal. lia.
Qed.

Lemma create_loop_own bk : forall iss acc acc',
  rows_ok acc.1.1 -> lfold (create_batch_issue P bk) iss acc = LOk acc' -> own_all acc.1.1 acc'.1.1.
Proof.
  induction iss as [|i iss IH]; intros acc acc' Hrows Hl; cbn [lfold] in Hl.
  - inversion Hl; subst acc'. apply own_all_refl.
  - apply lbind_ok in Hl. destruct Hl as (a1 & H1 & H2).
    destruct (create_batch_issue_own _ _ _ _ Hrows H1) as [Hrows1 Hown1].
    eapply own_all_trans; [exact Hown1 | eapply IH; eassumption].
Qed.

Lemma h_create_batch_own e s issuer project_id iss metadata start_ end_ open otx s' r evs :
  Inv_core s -> h_create_batch e s issuer project_id iss metadata start_ end_ open otx = LOk (s', r, evs) ->
  own_all s s'.
Proof.
  intros Hinv H. unfold h_create_batch in H.
  lstep H as p Hp. destruct p as [pk pj]. cbv beta iota in H.
  lstep H as cl Hcl. lstep H as u1 Hu1. cbv zeta in H.
  lstep H as sd Hsd. lstep H as ed Hed. lstep H as u2 Hu2. lstep H as ct Hct.
  lstep H as acc Hloop. destruct acc as [[s2 tsum] rsum]. cbv beta iota in H.
  lstep H as m Hm. lstep H as s3 Hotx.
  unfold ret in H. inversion H; subst s' r evs; clear H.
  pose proof Hinv as (Ict & Isc & _).
  assert (Hprec : ct_precision ct = P) by (eapply Ict; exact Hct).
  rewrite Hprec in Hloop.
  apply create_loop_own in Hloop; [|exact (proj1 Isc)]. cbn [fst snd] in Hloop.
  apply origin_tx_block_core_eq in Hotx.
  eapply own_all_trans; [exact Hloop|].
  apply own_balances_eq. destruct Hotx as (_ & E2 & _). rewrite E2. reflexivity.
Qed.

Lemma h_mint_batch_credits_own e s issuer denom iss otx s' r evs :
  Inv_core s -> h_mint_batch_credits e s issuer denom iss otx = LOk (s', r, evs) -> own_all s s'.
Proof.
  intros Hinv H. unfold h_mint_batch_credits in H.
  lstep H as p Hp. destruct p as [bk ba]. cbv beta iota in H.
  lstep H as u1 Hopen. lstep H as u2 Hiss. lstep H as pj Hpj. lstep H as o Ho.
  lstep H as s1 Hs1. lstep H as ct Hct. lstep H as s2 Hs2.
  unfold ret in H. inversion H; subst s' r evs; clear H.
  apply batch_by_denom_Some in Hp. destruct Hp as [Hba _].
  apply insert_origin_tx_core_eq in Hs1.
  pose proof (core_eq_inv _ _ Hs1 Hinv) as Hinv1.
  rewrite (credit_type_of_denom_prec _ _ _ (proj1 Hinv1) Hct) in Hs2.
  assert (Hbk1 : is_Some (batches s1 !! bk)).
  { destruct Hs1 as (_ & _ & _ & E4 & _). rewrite E4, Hba. eauto. }
  eapply own_all_trans; [apply own_balances_eq; apply Hs1|].
  eapply mint_loop_own; eassumption.
Qed.

(* the nine credit messages *)
Lemma credit_msgs_own e s m s' r evs :
  is_base_credit_msg m = true -> Inv_core s -> handle e s m = LOk (s', r, evs) -> own_rel (signer m) s s'.
Proof.
  intros Hm Hinv H. destruct m; try discriminate Hm; cbn [handle] in H; cbn [signer].
  - apply own_all_rel. eapply h_create_batch_own; eassumption.
  - apply own_all_rel. eapply h_mint_batch_credits_own; eassumption.
  - apply own_all_rel. apply own_balances_eq.
    apply h_seal_batch_shape in H. destruct H as [->|(bk & ba & _ & ->)]; reflexivity.
  - (* Send: the invariant is needed at every step of the loop *)
    unfold h_send in H. lstep H as s1 Hs1. unfold ret in H. inversion H; subst s' r evs.
    destruct (lfold_rel (send_one sender recipient) Inv_core (own_rel sender)) with (l := cs) (a := s) (a' := s1)
      as [_ Hr]; [apply own_rel_refl | apply own_rel_trans | | exact Hinv | exact Hs1 | exact Hr].
    intros a x a' Ha Hf. split; [exact (proj1 (send_one_ok _ _ _ _ _ Ha Hf)) | eapply send_one_own; eassumption].
  - unfold h_retire in H. lstep H as s1 Hs1. unfold ret in H. inversion H; subst s' r evs.
    eapply lfold_own_rel; [|exact Hs1]. intros s0 x s0' Hx. eapply retire_one_own; exact Hx.
  - unfold h_cancel in H. lstep H as s1 Hs1. unfold ret in H. inversion H; subst s' r evs.
    eapply lfold_own_rel; [|exact Hs1]. intros s0 x s0' Hx. eapply cancel_one_own; exact Hx.
  - apply own_all_rel. apply own_balances_eq.
    apply h_update_batch_metadata_shape in H. destruct H as (bk & ba & _ & ->). reflexivity.
  - apply h_bridge_shape in H. destruct H as (_ & Hl & _).
    eapply lfold_own_rel; [|exact Hl]. intros s0 x s0' Hx. eapply cancel_one_own; exact Hx.
  - (* BridgeReceive *)
    apply own_all_rel. apply h_bridge_receive_shape in H.
    destruct H as (o & bb & pp & ck & cl & _ & _ & _ & _ & _ & [Hmint|Hcreate]).
    + destruct Hmint as (bk & bc & ba0 & pj0 & r1 & e1 & _ & _ & _ & Hm1 & _ & _).
      eapply h_mint_batch_credits_own; eassumption.
    + destruct Hcreate as (_ & s1 & pid & d & e2 & Hproj & Hcb & _ & _).
      assert (Hs1 : core_eq s s1).
      { destruct Hproj as [(k & pj0 & _ & -> & _)|(_ & e3 & Hcp)]; [apply core_eq_refl|].
        eapply h_create_project_core_eq; exact Hcp. }
      eapply own_all_trans; [apply own_balances_eq; apply Hs1|].
      eapply h_create_batch_own; [eapply core_eq_inv; eassumption | exact Hcb].
Qed.

(* ------------------------------------------------------------------ *)
(* coins                                                               *)
(* ------------------------------------------------------------------ *)

Lemma bank_eq_bal s s' : bank s' = bank s -> forall a d, bank_bal s' a d = bank_bal s a d.
Proof. intros E a d. unfold bank_bal. rewrite E. reflexivity. Qed.

Lemma bank_sub_bal a c s s' : bank_sub a c s = LOk s' ->
  forall a' d, a' <> a -> bank_bal s' a' d = bank_bal s a' d.
Proof.
  unfold bank_sub. destruct (_ <? _); [discriminate|]. intros H; inversion H; subst s'. intros a' d Hne.
  rewrite bank_bal_set. destruct (decide ((a, c_denom c) = (a', d))) as [Heq|_]; [inversion Heq; congruence | reflexivity].
Qed.

Lemma bank_sub_all_bal a cs : forall s s', bank_sub_all a cs s = LOk s' ->
  forall a' d, a' <> a -> bank_bal s' a' d = bank_bal s a' d.
Proof.
  induction cs as [|c cs IH]; cbn [bank_sub_all]; intros s s' H a' d Hne.
  - inversion H. reflexivity.
  - lstep H as s1 Hs1. rewrite (IH _ _ H a' d Hne). eapply bank_sub_bal; eassumption.
Qed.

Lemma bank_add_all_bal a cs : forall s,
  forallb (fun c => 0 <? c_amount c) cs = true ->
  forall a' d, bank_bal s a' d <= bank_bal (bank_add_all a cs s) a' d /\
               (a' <> a -> bank_bal (bank_add_all a cs s) a' d = bank_bal s a' d).
Proof.
  unfold bank_add_all. induction cs as [|c cs IH]; cbn [fold_left forallb]; intros s Hpos a' d.
  - split; [apply Z.le_refl | reflexivity].
  - apply andb_true_iff in Hpos. destruct Hpos as [Hc Hpos]. apply Z.ltb_lt in Hc.
    destruct (IH (bank_add a c s) Hpos a' d) as [I1 I2].
    assert (Hstep : bank_bal s a' d <= bank_bal (bank_add a c s) a' d /\
                    (a' <> a -> bank_bal (bank_add a c s) a' d = bank_bal s a' d)).
    { unfold bank_add. rewrite bank_bal_set.
      destruct (decide ((a, c_denom c) = (a', d))) as [Heq|_].
      - inversion Heq; subst a' d. split; [lia | congruence].
      - split; [apply Z.le_refl | reflexivity]. }
    destruct Hstep as [S1 S2]. split; [lia|]. intros Hne. rewrite (I2 Hne). apply S2. exact Hne.
Qed.

Lemma coins_valid_pos cs : coins_valid cs = true -> forallb (fun c => 0 <? c_amount c) cs = true.
Proof.
  unfold coins_valid. intros H. apply andb_true_iff in H. destruct H as [H _].
  induction cs as [|c cs IH]; cbn [forallb] in *; [reflexivity|].
  apply andb_true_iff in H. destruct H as [Hc H]. apply andb_true_iff in Hc. destruct Hc as [_ Hc].
  rewrite Hc. apply IH. exact H.
Qed.

Lemma send_coins_bal from to cs s s' : send_coins from to cs s = LOk s' ->
  forall a d, a <> from -> bank_bal s a d <= bank_bal s' a d /\ (a <> to -> bank_bal s' a d = bank_bal s a d).
Proof.
  unfold send_coins. destruct (coins_valid cs) eqn:Ev; [|discriminate]. cbn [negb]. intros H a d Hne.
  lstep H as s1 Hs1. inversion H; subst s'; clear H.
  pose proof (bank_sub_all_bal _ _ _ _ Hs1 a d Hne) as E1.
  destruct (bank_add_all_bal to cs s1 (coins_valid_pos _ Ev) a d) as [A1 A2].
  split; [lia|]. intros Hne2. rewrite (A2 Hne2). exact E1.
Qed.

(* what one successful administrative message does to coins: only the signer can lose any, and the
   ecocredit module account ends where it started *)
Lemma admin_bank e s m s' r evs :
  is_admin_msg m = true -> signer m <> addr_ecocredit -> handle e s m = LOk (s', r, evs) ->
  (forall a d, a <> signer m -> bank_bal s a d <= bank_bal s' a d) /\
  (forall d, bank_bal s' addr_ecocredit d = bank_bal s addr_ecocredit d).
Proof.
  intros Hm Hsig H.
  assert (Heq : forall t t' : state, bank t' = bank t ->
            (forall a d, a <> signer m -> bank_bal t a d <= bank_bal t' a d) /\
            (forall d, bank_bal t' addr_ecocredit d = bank_bal t addr_ecocredit d)).
  { intros t t' E. split; [intros a d _; rewrite (bank_eq_bal _ _ E); apply Z.le_refl | intros d; apply bank_eq_bal; exact E]. }
  destruct m; try discriminate Hm; cbn [handle] in H; cbn [Msgs.signer] in Hsig, Heq |- *.
  - (* CreateClass *)
    unfold h_create_class in H.
    lstep H as u1 H1. lstep H as s1 Hs1. lstep H as ctv H2. cbv zeta in H. lstep H as u2 H3. lstep H as s2 Hs2.
    unfold ret in H. inversion H; subst s' r evs; clear H.
    apply insert_issuers_shape in Hs2. destruct Hs2 as (X & -> & _).
    assert (Hfee : (forall a d, a <> admin -> bank_bal s a d <= bank_bal s1 a d) /\
                   (forall d, bank_bal s1 addr_ecocredit d = bank_bal s addr_ecocredit d)).
    { destruct (class_fee s) as [req|] eqn:Ef; [|inversion Hs1; subst s1; apply Heq; reflexivity].
      destruct (0 <? c_amount req) eqn:Ep.
      - apply Z.ltb_lt in Ep. destruct (charge_fee_exact _ _ _ _ _ _ Hsig Ep Hs1) as ((Hb & _ & _) & _ & _).
        split.
        + intros a d Hne. rewrite Hb. destruct (decide ((a, d) = (admin, c_denom req))) as [E|_]; [inversion E; congruence | apply Z.le_refl].
        + intros d. rewrite Hb. destruct (decide ((addr_ecocredit, d) = (admin, c_denom req))) as [E|_]; [inversion E; congruence | reflexivity].
      - apply Z.ltb_ge in Ep. rewrite (charge_fee_zero _ _ _ _ _ Ep) in Hs1. inversion Hs1; subst s1. apply Heq. reflexivity. }
    exact Hfee.
  - apply h_create_project_shape in H. destruct H as (ck & cl & _ & _ & _ & -> & _ & _). apply Heq. reflexivity.
  - unfold h_update_class_admin in H. lstep H as p1 H1. destruct p1 as [k c]. lstep H as u1 H2.
    unfold ret in H. inversion H; subst; clear H. apply Heq. reflexivity.
  - unfold h_update_class_issuers in H. lstep H as p1 H1. destruct p1 as [k c]. lstep H as u1 H2. lstep H as s2 Hs2.
    unfold ret in H. inversion H; subst; clear H.
    destruct (fold_remove_issuers_shape k remove s) as (Y & HY & _). rewrite HY in Hs2.
    apply insert_issuers_shape in Hs2. destruct Hs2 as (X & -> & _). apply Heq. reflexivity.
  - unfold h_update_class_metadata in H. lstep H as p1 H1. destruct p1 as [k c]. lstep H as u1 H2.
    unfold ret in H. inversion H; subst; clear H. apply Heq. reflexivity.
  - unfold h_update_project_admin in H. lstep H as p1 H1. destruct p1 as [k p]. lstep H as u1 H2.
    unfold ret in H. inversion H; subst; clear H. apply Heq. reflexivity.
  - unfold h_update_project_metadata in H. lstep H as p1 H1. destruct p1 as [k p]. lstep H as u1 H2.
    unfold ret in H. inversion H; subst; clear H. apply Heq. reflexivity.
  - unfold h_add_credit_type in H. lstep H as u1 H1. lstep H as u2 H2. lstep H as u3 H3.
    unfold ret in H. inversion H; subst; clear H. apply Heq. reflexivity.
  - unfold h_set_allowlist in H. lstep H as u1 H1. unfold ret in H. inversion H; subst; clear H. apply Heq. reflexivity.
  - unfold h_add_class_creator in H. lstep H as u1 H1. lstep H as u2 H2. unfold ret in H. inversion H; subst; clear H. apply Heq. reflexivity.
  - unfold h_remove_class_creator in H. lstep H as u1 H1. lstep H as u2 H2. unfold ret in H. inversion H; subst; clear H. apply Heq. reflexivity.
  - unfold h_update_class_fee in H. lstep H as u1 H1. unfold ret in H. inversion H; subst; clear H. apply Heq. reflexivity.
  - unfold h_add_allowed_bridge_chain in H. lstep H as u1 H1. lstep H as u2 H2. unfold ret in H. inversion H; subst; clear H. apply Heq. reflexivity.
  - unfold h_remove_allowed_bridge_chain in H. lstep H as u1 H1. unfold ret in H. inversion H; subst; clear H. apply Heq. reflexivity.
  - (* BurnRegen: the burner's coins go to the module account and are burned there *)
    unfold h_burn_regen in H. lstep H as amt H1. lstep H as u1 H2. lstep H as cns H3. lstep H as s1 Hs1. lstep H as s2 Hs2.
    unfold ret in H. inversion H; subst s' r evs; clear H.
    unfold new_coins1 in H3. destruct (amt <? 0); [discriminate|]. destruct (negb _); [discriminate|].
    apply Z.ltb_lt in H2. destruct (amt =? 0) eqn:E0; [apply Z.eqb_eq in E0; lia|].
    inversion H3; subst cns; clear H3.
    destruct (send_burn_one _ _ _ _ _ _ Hsig Hs1 Hs2) as ((Hb & _ & _) & _). cbn [c_denom c_amount] in Hb.
    split.
    + intros a d Hne. rewrite Hb. destruct (decide ((a, d) = (burner, uregen))) as [E|_]; [inversion E; congruence | apply Z.le_refl].
    + intros d. rewrite Hb. destruct (decide ((addr_ecocredit, d) = (burner, uregen))) as [E|_]; [inversion E; congruence | reflexivity].
  - (* BankSend: the bank refuses to send to the module account *)
    destruct (blocked_addr to) eqn:Eb; [discriminate|]. lstep H as s1 Hs1. unfold ret in H. inversion H; subst s' r evs; clear H.
    split.
    + intros a d Hne. apply (send_coins_bal _ _ _ _ _ Hs1 a d Hne).
    + intros d. apply (send_coins_bal _ _ _ _ _ Hs1 addr_ecocredit d); [congruence|].
      intros Heq'. subst to. vm_compute in Eb. discriminate.
  - discriminate H.
Qed.

(* ------------------------------------------------------------------ *)
(* C03, base-module part                                               *)
(* ------------------------------------------------------------------ *)

Theorem base_ownership e s m s' r evs :
  is_base_module_msg m = true -> Inv_core s -> validate_basic m = true -> signer m <> addr_ecocredit ->
  handle e s m = LOk (s', r, evs) ->
  (forall a k, a <> signer m -> holdings s a k <= holdings s' a k) /\
  (forall a d, a <> signer m -> a <> addr_ecocredit -> bank_bal s a d <= bank_bal s' a d) /\
  (forall d, bank_bal s' addr_ecocredit d = bank_bal s addr_ecocredit d).
Proof.
  intros Hm Hinv Hvb Hsig H. unfold is_base_module_msg in Hm. apply orb_true_iff in Hm. destruct Hm as [Hm|Hm].
  - split; [exact (credit_msgs_own _ _ _ _ _ _ Hm Hinv H)|].
    destruct (base_preserves_basket _ _ _ _ _ _ Hm H) as (_ & _ & Eb & _).
    split; [intros a d _ _; rewrite (bank_eq_bal _ _ Eb); apply Z.le_refl | intros d; apply bank_eq_bal; exact Eb].
  - destruct (admin_bank _ _ _ _ _ _ Hm Hsig H) as [B1 B2].
    split; [|split; [intros a d Hne _; apply B1; exact Hne | exact B2]].
    pose proof (admin_credit_frame _ _ _ _ _ _ Hm Hvb H) as Hcf.
    intros a k _. apply own_balances_eq. apply (cf_balances _ _ Hcf).
Qed.

Print Assumptions base_ownership.
