(* C13, bridge safety, over the ledger model.

   1. origin_tx_once / origin_txs_step / issued_origins_nodup: within a class an origin tx
      (id, lower-cased source) issues at most once across CreateBatch, MintBatchCredits, BridgeReceive.
   2. bridge_receive_allowed_source.
   3. Inv_contracts, base_preserves_contracts, bridge_receive_same_batch.
   4. bridge_out_spec, cancel_one_delta, bridge_is_cancel.

   "Base-module message" below means one of the nine credit messages of InvBase.v or one of the
   administrative messages of InvAdmin.v ([is_base_module_msg]).  Proof file. *)
From stdpp Require Import gmap.
From RecordUpdate Require Import RecordSet.
From Coq Require Import ZArith NArith List Bool Lia Strings.Byte.
Require Import Regen.Base.Bytes Regen.Base.Calendar Regen.Dec.Dec Regen.Dec.DecIface Regen.Ids.Ids.
Require Import Regen.Ledger.Types Regen.Ledger.Msgs Regen.Ledger.Orm Regen.Ledger.BaseMsgs
               Regen.Ledger.BasketMsgs Regen.Ledger.MarketMsgs Regen.Ledger.Step
               Regen.Ledger.Amount Regen.Ledger.MapSum Regen.Ledger.Inv Regen.Ledger.InvTactics
               Regen.Ledger.InvBaseLib Regen.Ledger.InvBase1 Regen.Ledger.InvBase2 Regen.Ledger.InvBase3
               Regen.Ledger.InvBase Regen.Ledger.InvFrame Regen.Ledger.InvAdmin Regen.Ledger.InvBridgeLib.
Import ListNotations RecordSetNotations.
Local Open Scope Z_scope.

Definition is_base_module_msg (m : msg) : bool := is_base_credit_msg m || is_admin_msg m.

(* ------------------------------------------------------------------ *)
(* the tables this property reads, and what the administrative messages do to them *)
(* ------------------------------------------------------------------ *)

Definition btab (s : state) :=
  (origin_txs s, batch_contracts s, batches s, batch_seq_id s, allowed_bridge_chains s).
Definition ptab (s : state) := (projects s, project_seq_id s).

(* how a message may change the project table: not at all, one row rewritten keeping id and class,
   or one row with a new id added under the next key *)
Definition proj_step (s s' : state) : Prop :=
  ptab s' = ptab s \/
  (exists k p p', projects s !! k = Some p /\ pj_id p' = pj_id p /\ pj_class_key p' = pj_class_key p /\
                  projects s' = <[k := p']> (projects s) /\ project_seq_id s' = project_seq_id s) \/
  (exists pj, (forall k p, projects s !! k = Some p -> pj_id p <> pj_id pj) /\
              projects s' = <[(project_seq_id s + 1)%N := pj]> (projects s) /\
              project_seq_id s' = (project_seq_id s + 1)%N).

Lemma nonbank_btab s s' : nonbank_eq s s' -> origin_txs s' = origin_txs s /\ batch_contracts s' = batch_contracts s /\
  batches s' = batches s /\ batch_seq_id s' = batch_seq_id s /\ ptab s' = ptab s.
Proof.
  unfold nonbank_eq, nonbank. intros H. injection H. intros. unfold ptab.
  split; [assumption|]. split; [assumption|]. split; [assumption|]. split; [assumption|]. congruence.
Qed.

Lemma insert_issuers_tabs k l : forall s s', insert_issuers k l s = LOk s' ->
  origin_txs s' = origin_txs s /\ batch_contracts s' = batch_contracts s /\
  batches s' = batches s /\ batch_seq_id s' = batch_seq_id s /\ ptab s' = ptab s.
Proof.
  induction l as [|a l IH]; cbn [insert_issuers]; intros s s' H.
  - inversion H; subst s'. repeat split.
  - destruct (bool_decide _); [discriminate|]. apply IH in H. exact H.
Qed.

Lemma fold_remove_issuers_tabs k l : forall s,
  let s' := fold_left (fun s a => s <| class_issuers := class_issuers s ∖ {[ (k, a) ]} |>) l s in
  origin_txs s' = origin_txs s /\ batch_contracts s' = batch_contracts s /\
  batches s' = batches s /\ batch_seq_id s' = batch_seq_id s /\ ptab s' = ptab s.
Proof.
  induction l as [|a l IH]; cbn [fold_left]; intros s; [repeat split|].
  exact (IH (s <| class_issuers := class_issuers s ∖ {[ (k, a) ]} |>)).
Qed.

Lemma admin_tables e s m s' r evs :
  is_admin_msg m = true -> handle e s m = LOk (s', r, evs) ->
  origin_txs s' = origin_txs s /\ batch_contracts s' = batch_contracts s /\
  batches s' = batches s /\ batch_seq_id s' = batch_seq_id s /\ proj_step s s'.
Proof.
  intros Hm H.
  assert (Hweak : forall t t' : state,
            (origin_txs t' = origin_txs t /\ batch_contracts t' = batch_contracts t /\
             batches t' = batches t /\ batch_seq_id t' = batch_seq_id t /\ ptab t' = ptab t) ->
            origin_txs t' = origin_txs t /\ batch_contracts t' = batch_contracts t /\
            batches t' = batches t /\ batch_seq_id t' = batch_seq_id t /\ proj_step t t').
  { intros t t' (A1 & A2 & A3 & A4 & A5). repeat (split; [assumption|]). left. exact A5. }
  destruct m; try discriminate Hm; cbn [handle] in H.
  - (* CreateClass *)
    unfold h_create_class in H.
    lstep H as u1 H1. lstep H as s1 Hs1. lstep H as ctv H2. lstep H as u2 H3. lstep H as s2 Hs2.
    unfold ret in H. inversion H; subst; clear H. apply Hweak.
    apply charge_fee_nonbank in Hs1. apply nonbank_btab in Hs1. destruct Hs1 as (A1 & A2 & A3 & A4 & A5).
    apply insert_issuers_tabs in Hs2. destruct Hs2 as (B1 & B2 & B3 & B4 & B5).
    rewrite B1, B2, B3, B4, B5. cbn. rewrite <- A1, <- A2, <- A3, <- A4, <- A5. repeat split.
  - (* CreateProject *)
    apply h_create_project_shape in H. destruct H as (ck & cl & Hc & Hi & Hfresh & -> & _ & _).
    repeat (split; [reflexivity|]). right. right. eexists. split; [exact Hfresh|]. split; reflexivity.
  - unfold h_update_class_admin in H. lstep H as p1 H1. destruct p1 as [k c]. lstep H as u1 H2.
    unfold ret in H. inversion H; subst; clear H. apply Hweak. repeat split.
  - unfold h_update_class_issuers in H. lstep H as p1 H1. destruct p1 as [k c]. lstep H as u1 H2. lstep H as s2 Hs2.
    unfold ret in H. inversion H; subst; clear H. apply Hweak.
    apply insert_issuers_tabs in Hs2. destruct Hs2 as (B1 & B2 & B3 & B4 & B5).
    destruct (fold_remove_issuers_tabs k remove s) as (A1 & A2 & A3 & A4 & A5).
    rewrite B1, B2, B3, B4, B5. repeat (split; [assumption|]). assumption.
  - unfold h_update_class_metadata in H. lstep H as p1 H1. destruct p1 as [k c]. lstep H as u1 H2.
    unfold ret in H. inversion H; subst; clear H. apply Hweak. repeat split.
  - (* UpdateProjectAdmin *)
    unfold h_update_project_admin in H. lstep H as p1 H1. destruct p1 as [k p]. lstep H as u1 H2.
    unfold ret in H. inversion H; subst; clear H.
    unfold project_by_id in H1. apply map_find_Some in H1. destruct H1 as [Hk _].
    repeat (split; [reflexivity|]). right. left. eexists k, p, _.
    split; [exact Hk|]. split; [|split; [|split; reflexivity]]; reflexivity.
  - (* UpdateProjectMetadata *)
    unfold h_update_project_metadata in H. lstep H as p1 H1. destruct p1 as [k p]. lstep H as u1 H2.
    unfold ret in H. inversion H; subst; clear H.
    unfold project_by_id in H1. apply map_find_Some in H1. destruct H1 as [Hk _].
    repeat (split; [reflexivity|]). right. left. eexists k, p, _.
    split; [exact Hk|]. split; [|split; [|split; reflexivity]]; reflexivity.
  - unfold h_add_credit_type in H. lstep H as u1 H1. lstep H as u2 H2. lstep H as u3 H3.
    unfold ret in H. inversion H; subst; clear H. apply Hweak. repeat split.
  - unfold h_set_allowlist in H. lstep H as u1 H1. unfold ret in H. inversion H; subst; clear H. apply Hweak. repeat split.
  - unfold h_add_class_creator in H. lstep H as u1 H1. lstep H as u2 H2. unfold ret in H. inversion H; subst; clear H. apply Hweak. repeat split.
  - unfold h_remove_class_creator in H. lstep H as u1 H1. lstep H as u2 H2. unfold ret in H. inversion H; subst; clear H. apply Hweak. repeat split.
  - unfold h_update_class_fee in H. lstep H as u1 H1. unfold ret in H. inversion H; subst; clear H. apply Hweak. repeat split.
  - unfold h_add_allowed_bridge_chain in H. lstep H as u1 H1. lstep H as u2 H2. unfold ret in H. inversion H; subst; clear H. apply Hweak. repeat split.
  - unfold h_remove_allowed_bridge_chain in H. lstep H as u1 H1. unfold ret in H. inversion H; subst; clear H. apply Hweak. repeat split.
  - (* BurnRegen *)
    unfold h_burn_regen in H. lstep H as amt H1. lstep H as u1 H2. lstep H as cns H3. lstep H as s1 Hs1. lstep H as s2 Hs2.
    unfold ret in H. inversion H; subst; clear H. apply Hweak. apply nonbank_btab.
    eapply nonbank_eq_trans; [eapply send_coins_nonbank; exact Hs1 | eapply burn_coins_nonbank; exact Hs2].
  - (* BankSend *)
    destruct (blocked_addr to); [discriminate|]. lstep H as s1 Hs1. unfold ret in H. inversion H; subst; clear H.
    apply Hweak. apply nonbank_btab. eapply send_coins_nonbank; exact Hs1.
  - discriminate H.
Qed.

(* ------------------------------------------------------------------ *)
(* 1. an origin tx issues at most once per class                        *)
(* ------------------------------------------------------------------ *)

Definition origin_of (m : msg) : option origin_tx :=
  match m with
  | MCreateBatch _ _ _ _ _ _ _ otx | MMintBatchCredits _ _ _ otx | MBridgeReceive _ _ _ _ otx => otx
  | _ => None
  end.

(* the class the message issues into: the class of the project (CreateBatch), of the batch's project
   (MintBatchCredits), the class named by class_id (BridgeReceive) *)
Definition issue_class (s : state) (m : msg) : option N :=
  match m with
  | MCreateBatch _ pid _ _ _ _ _ _ =>
      match project_by_id s pid with Some (_, pj) => Some (pj_class_key pj) | None => None end
  | MMintBatchCredits _ denom _ _ =>
      match batch_by_denom s denom with
      | Some (_, ba) => match projects s !! ba_project_key ba with Some pj => Some (pj_class_key pj) | None => None end
      | None => None
      end
  | MBridgeReceive _ class_id _ _ _ =>
      match class_by_id s class_id with Some (ck, _) => Some ck | None => None end
  | _ => None
  end.

Definition issue_key (s : state) (m : msg) : option (N * bytes * bytes) :=
  match origin_of m, issue_class s m with
  | Some o, Some ck => Some (origin_key ck o)
  | _, _ => None
  end.

(* 3. contract binding (stated here because BridgeReceive needs it to name its class) *)
Definition Inv_contracts (s : state) : Prop :=
  (* a (class, contract) pair is bound to at most one batch *)
  (forall k1 k2 c1 c2, batch_contracts s !! k1 = Some c1 -> batch_contracts s !! k2 = Some c2 ->
     bc_class_key c1 = bc_class_key c2 -> bc_contract c1 = bc_contract c2 -> k1 = k2) /\
  (* a bound batch exists, and it belongs to the class it is bound under *)
  (forall k c, batch_contracts s !! k = Some c ->
     exists ba pj, batches s !! k = Some ba /\ projects s !! ba_project_key ba = Some pj /\
                   pj_class_key pj = bc_class_key c) /\
  (* auxiliary: project ids and batch denoms are unique; keys in use are dominated by the
     auto-increment counters *)
  (forall k1 k2 p1 p2, projects s !! k1 = Some p1 -> projects s !! k2 = Some p2 -> pj_id p1 = pj_id p2 -> k1 = k2) /\
  (forall k, is_Some (projects s !! k) -> (k <= project_seq_id s)%N) /\
  (forall k, is_Some (batches s !! k) -> (k <= batch_seq_id s)%N) /\
  (forall k1 k2 b1 b2, batches s !! k1 = Some b1 -> batches s !! k2 = Some b2 -> ba_denom b1 = ba_denom b2 -> k1 = k2).

Lemma project_by_id_Some s id k p : project_by_id s id = Some (k, p) -> projects s !! k = Some p /\ pj_id p = id.
Proof.
  unfold project_by_id. intros H. apply map_find_Some in H. destruct H as [H1 H2].
  split; [exact H1 | apply bytes_eqb_eq; exact H2].
Qed.

Lemma contracts_tables_eq s s' :
  batch_contracts s' = batch_contracts s -> batches s' = batches s -> batch_seq_id s' = batch_seq_id s ->
  ptab s' = ptab s -> Inv_contracts s -> Inv_contracts s'.
Proof.
  intros E1 E2 E3 E4. unfold ptab in E4. injection E4 as E4 E5.
  unfold Inv_contracts. rewrite E1, E2, E3, E4, E5. auto.
Qed.

Lemma contracts_rest_eq s s' : rest_eq s s' -> Inv_contracts s -> Inv_contracts s'.
Proof.
  intros H. apply contracts_tables_eq.
  - apply rest_batch_contracts; exact H.
  - apply rest_batches; exact H.
  - apply rest_batch_seq_id; exact H.
  - unfold ptab. rewrite (rest_projects _ _ H), (rest_project_seq_id _ _ H). reflexivity.
Qed.

(* a batch row rewritten with the same project key and denom *)
Lemma contracts_set_batch s bk ba ba' :
  batches s !! bk = Some ba -> ba_project_key ba' = ba_project_key ba -> ba_denom ba' = ba_denom ba ->
  Inv_contracts s -> Inv_contracts (set_batch bk ba' s).
Proof.
  intros Hba Hpk Hden (C1 & C2 & C3 & C4 & C5 & C6). unfold Inv_contracts.
  change (batches (set_batch bk ba' s)) with (<[bk := ba']> (batches s)).
  split; [exact C1|]. split; [|split; [exact C3|split; [exact C4|split]]].
  - intros k c Hk. destruct (C2 _ _ Hk) as (b & pj & Hb & Hpj & Hck).
    destruct (decide (bk = k)) as [Heq|Hne].
    + subst k. rewrite Hba in Hb. inversion Hb; subst b. exists ba', pj.
      rewrite lookup_insert. split; [reflexivity|]. rewrite Hpk. split; [exact Hpj | exact Hck].
    + exists b, pj. rewrite lookup_insert_ne by exact Hne. split; [exact Hb|]. split; [exact Hpj | exact Hck].
  - intros k Hk. apply lookup_insert_is_Some' in Hk. destruct Hk as [<-|Hk]; [|apply C5; exact Hk].
    apply C5. rewrite Hba. eauto.
  - assert (Hold : forall j q, <[bk := ba']> (batches s) !! j = Some q ->
              exists q0, batches s !! j = Some q0 /\ ba_denom q0 = ba_denom q).
    { intros j q Hj. destruct (decide (bk = j)) as [Heq|Hne].
      - subst j. rewrite lookup_insert in Hj. inversion Hj; subst q. exists ba. split; [exact Hba | congruence].
      - rewrite lookup_insert_ne in Hj by exact Hne. exists q. split; [exact Hj | reflexivity]. }
    intros k1 k2 b1 b2 H1 H2 Hd.
    destruct (Hold _ _ H1) as (q1 & Hq1 & Hi1). destruct (Hold _ _ H2) as (q2 & Hq2 & Hi2).
    eapply C6; [exact Hq1 | exact Hq2 | congruence].
Qed.

(* the project table after one of the three kinds of step *)
Lemma contracts_proj_step s s' :
  batch_contracts s' = batch_contracts s -> batches s' = batches s -> batch_seq_id s' = batch_seq_id s ->
  proj_step s s' -> Inv_contracts s -> Inv_contracts s'.
Proof.
  intros E1 E2 E3 [Hp|[Hp|Hp]] Hinv.
  - eapply contracts_tables_eq; eassumption.
  - destruct Hp as (k & p & p' & Hk & Hid & Hck & Ep & Eseq).
    destruct Hinv as (C1 & C2 & C3 & C4 & C5 & C6). unfold Inv_contracts. rewrite E1, E2, E3, Ep, Eseq.
    split; [exact C1|]. split; [|split; [|split; [|exact (conj C5 C6)]]].
    + intros k0 c Hk0. destruct (C2 _ _ Hk0) as (b & pj & Hb & Hpj & Hcl).
      destruct (decide (k = ba_project_key b)) as [Heq|Hne].
      * exists b, p'. rewrite <- Heq, lookup_insert. split; [exact Hb|]. split; [reflexivity|].
        rewrite <- Heq, Hk in Hpj. inversion Hpj; subst pj. congruence.
      * exists b, pj. rewrite lookup_insert_ne by exact Hne. auto.
    + assert (Hold : forall j q, <[k := p']> (projects s) !! j = Some q ->
                exists q0, projects s !! j = Some q0 /\ pj_id q0 = pj_id q).
      { intros j q Hj. destruct (decide (k = j)) as [Heq|Hne].
        - subst j. rewrite lookup_insert in Hj. inversion Hj; subst q. exists p. split; [exact Hk | congruence].
        - rewrite lookup_insert_ne in Hj by exact Hne. exists q. split; [exact Hj | reflexivity]. }
      intros k1 k2 p1 p2 H1 H2 Hid12.
      destruct (Hold _ _ H1) as (q1 & Hq1 & Hi1). destruct (Hold _ _ H2) as (q2 & Hq2 & Hi2).
      eapply C3; [exact Hq1 | exact Hq2 | congruence].
    + intros j Hj. apply lookup_insert_is_Some' in Hj. destruct Hj as [<-|Hj]; [|apply C4; exact Hj].
      apply C4. rewrite Hk. eauto.
  - destruct Hp as (pj & Hfresh & Ep & Eseq).
    destruct Hinv as (C1 & C2 & C3 & C4 & C5 & C6). unfold Inv_contracts. rewrite E1, E2, E3, Ep, Eseq.
    assert (Hnew : projects s !! (project_seq_id s + 1)%N = None).
    { destruct (projects s !! (project_seq_id s + 1)%N) as [x|] eqn:E; [|reflexivity]. exfalso.
      assert (Hle : (project_seq_id s + 1 <= project_seq_id s)%N) by (apply C4; rewrite E; eauto). lia. }
    split; [exact C1|]. split; [|split; [|split; [|exact (conj C5 C6)]]].
    + intros k0 c Hk0. destruct (C2 _ _ Hk0) as (b & p & Hb & Hp & Hcl). exists b, p.
      split; [exact Hb|]. split; [|exact Hcl]. rewrite lookup_insert_ne; [exact Hp|]. intros Heq.
      rewrite <- Heq, Hnew in Hp. discriminate.
    + intros k1 k2 p1 p2 H1 H2 Hid.
      destruct (decide ((project_seq_id s + 1)%N = k1)) as [Heq1|Hne1];
        destruct (decide ((project_seq_id s + 1)%N = k2)) as [Heq2|Hne2].
      * congruence.
      * subst k1. rewrite lookup_insert in H1. inversion H1; subst p1.
        rewrite lookup_insert_ne in H2 by exact Hne2. exfalso. eapply Hfresh; [exact H2 | congruence].
      * subst k2. rewrite lookup_insert in H2. inversion H2; subst p2.
        rewrite lookup_insert_ne in H1 by exact Hne1. exfalso. eapply Hfresh; [exact H1 | congruence].
      * rewrite lookup_insert_ne in H1 by exact Hne1. rewrite lookup_insert_ne in H2 by exact Hne2.
        eapply C3; eassumption.
    + intros j Hj. apply lookup_insert_is_Some' in Hj. destruct Hj as [<-|Hj]; [lia|].
      apply C4 in Hj. lia.
Qed.

(* CreateBatch *)
Lemma contracts_create_batch e s issuer pk pj metadata sd ed open otx s' :
  Inv_contracts s -> projects s !! pk = Some pj ->
  (forall k b, batches s !! k = Some b ->
     ba_denom b <> ba_denom (new_batch e issuer pk pj (default 1%N (batch_sequences s !! pk)) metadata sd ed open)) ->
  cb_otx_ok (pj_class_key pj) (batch_seq_id s + 1)%N otx s ->
  rest_eq (cb_tables e s issuer pk pj metadata sd ed open otx) s' -> Inv_contracts s'.
Proof.
  intros (C1 & C2 & C3 & C4 & C5 & C6) Hpk Hfresh Hok Hrest.
  eapply contracts_rest_eq; [exact Hrest|]. clear Hrest s'.
  set (bk := (batch_seq_id s + 1)%N) in *.
  assert (Hnb : batches s !! bk = None).
  { destruct (batches s !! bk) as [x|] eqn:E; [|reflexivity]. exfalso.
    assert (Hle : (bk <= batch_seq_id s)%N) by (apply C5; rewrite E; eauto). unfold bk in Hle. lia. }
  set (ba := new_batch e issuer pk pj (default 1%N (batch_sequences s !! pk)) metadata sd ed open) in *.
  set (t := cb_tables e s issuer pk pj metadata sd ed open otx).
  assert (T1 : batches t = <[bk := ba]> (batches s)) by reflexivity.
  assert (T2 : batch_seq_id t = bk) by reflexivity.
  assert (T3 : projects t = projects s) by reflexivity.
  assert (T4 : project_seq_id t = project_seq_id s) by reflexivity.
  assert (T5 : batch_contracts t = cb_contracts (pj_class_key pj) bk otx s) by reflexivity.
  clearbody t. unfold Inv_contracts. rewrite T1, T2, T3, T4, T5.
  (* old rows of the contract table are untouched *)
  assert (Hold2 : forall k c, batch_contracts s !! k = Some c ->
             exists b p, <[bk := ba]> (batches s) !! k = Some b /\ projects s !! ba_project_key b = Some p /\
                         pj_class_key p = bc_class_key c).
  { intros k c Hk. destruct (C2 _ _ Hk) as (b & p & Hb & Hp & Hcl). exists b, p.
    split; [|split; [exact Hp | exact Hcl]]. rewrite lookup_insert_ne; [exact Hb|].
    intros <-. rewrite Hnb in Hb. discriminate. }
  split; [|split; [|split; [exact C3|split; [exact C4|split]]]].
  - unfold cb_contracts. destruct otx as [o|]; [|exact C1].
    destruct (ot_contract o) as [|c0 cs] eqn:Ec; [exact C1|].
    destruct Hok as [_ Hok]. rewrite Ec in Hok. destruct (Hok ltac:(discriminate)) as [Htaken _].
    assert (Hno : forall k c, batch_contracts s !! k = Some c ->
              bc_class_key c = pj_class_key pj -> bc_contract c = c0 :: cs -> False).
    { intros k c Hk Hck Hcc. unfold contract_taken in Htaken.
      pose proof (map_exists_false _ _ Htaken k c Hk) as Hf. cbn beta in Hf.
      rewrite Hck, N.eqb_refl, Hcc, bytes_eqb_refl in Hf. discriminate. }
    intros k1 k2 c1 c2 H1 H2 Hck Hcc.
    destruct (decide (bk = k1)) as [Heq1|Hne1]; destruct (decide (bk = k2)) as [Heq2|Hne2].
    + congruence.
    + subst k1. rewrite lookup_insert in H1. inversion H1; subst c1.
      rewrite lookup_insert_ne in H2 by exact Hne2. exfalso.
      eapply Hno; [exact H2 | rewrite <- Hck; reflexivity | rewrite <- Hcc; reflexivity].
    + subst k2. rewrite lookup_insert in H2. inversion H2; subst c2.
      rewrite lookup_insert_ne in H1 by exact Hne1. exfalso.
      eapply Hno; [exact H1 | rewrite Hck; reflexivity | rewrite Hcc; reflexivity].
    + rewrite lookup_insert_ne in H1 by exact Hne1. rewrite lookup_insert_ne in H2 by exact Hne2.
      eapply C1; eassumption.
  - unfold cb_contracts. destruct otx as [o|]; [|exact Hold2].
    destruct (ot_contract o) as [|c0 cs] eqn:Ec; [exact Hold2|].
    intros k c Hk. destruct (decide (bk = k)) as [Heq|Hne].
    + subst k. rewrite lookup_insert in Hk. inversion Hk; subst c. exists ba, pj.
      rewrite lookup_insert. split; [reflexivity|]. split; [exact Hpk | reflexivity].
    + rewrite lookup_insert_ne in Hk by exact Hne. apply Hold2. exact Hk.
  - intros k Hk. apply lookup_insert_is_Some' in Hk. destruct Hk as [<-|Hk]; [lia|].
    apply C5 in Hk. unfold bk. lia.
  - intros k1 k2 b1 b2 H1 H2 Hd.
    destruct (decide (bk = k1)) as [Heq1|Hne1]; destruct (decide (bk = k2)) as [Heq2|Hne2].
    + congruence.
    + subst k1. rewrite lookup_insert in H1. inversion H1; subst b1.
      rewrite lookup_insert_ne in H2 by exact Hne2. exfalso. eapply Hfresh; [exact H2 | congruence].
    + subst k2. rewrite lookup_insert in H2. inversion H2; subst b2.
      rewrite lookup_insert_ne in H1 by exact Hne1. exfalso. eapply Hfresh; [exact H1 | congruence].
    + rewrite lookup_insert_ne in H1 by exact Hne1. rewrite lookup_insert_ne in H2 by exact Hne2.
      eapply C6; eassumption.
Qed.

Lemma contracts_origin_txs s X : Inv_contracts s -> Inv_contracts (s <| origin_txs := X |>).
Proof. intros H. exact H. Qed.

(* ---------- the two issuing handlers ---------- *)

Lemma create_batch_bridge_step e s issuer pid iss metadata start_ end_ open otx s' r evs :
  Inv_contracts s ->
  h_create_batch e s issuer pid iss metadata start_ end_ open otx = LOk (s', r, evs) ->
  Inv_contracts s' /\
  exists pk pj, project_by_id s pid = Some (pk, pj) /\
    match otx with
    | Some o => origin_key (pj_class_key pj) o ∉ origin_txs s /\
                origin_txs s' = {[ origin_key (pj_class_key pj) o ]} ∪ origin_txs s
    | None => origin_txs s' = origin_txs s
    end.
Proof.
  intros Hinv H. apply h_create_batch_shape in H.
  destruct H as (pk & pj & cl & sd & ed & Hp & Hcl & Hi & _ & _ & Hfresh & Hok & Hrest & _ & _).
  destruct (project_by_id_Some _ _ _ _ Hp) as [Hpk _].
  split; [eapply contracts_create_batch; eassumption|].
  exists pk, pj. split; [exact Hp|]. rewrite (rest_origin_txs _ _ Hrest).
  destruct otx as [o|]; [|reflexivity]. split; [apply Hok | reflexivity].
Qed.

Lemma mint_bridge_step e s issuer denom iss otx s' r evs :
  Inv_contracts s ->
  h_mint_batch_credits e s issuer denom iss otx = LOk (s', r, evs) ->
  Inv_contracts s' /\
  exists bk ba pj o, batch_by_denom s denom = Some (bk, ba) /\ projects s !! ba_project_key ba = Some pj /\
    otx = Some o /\ origin_key (pj_class_key pj) o ∉ origin_txs s /\
    origin_txs s' = {[ origin_key (pj_class_key pj) o ]} ∪ origin_txs s /\
    batches s' = batches s /\ batch_seq_id s' = batch_seq_id s /\ batch_contracts s' = batch_contracts s.
Proof.
  intros Hinv H. apply h_mint_batch_credits_shape in H.
  destruct H as (bk & ba & pj & o & Hp & _ & _ & Hpj & -> & Hnot & Hrest & _ & _).
  split; [eapply contracts_rest_eq; [exact Hrest | apply contracts_origin_txs; exact Hinv]|].
  exists bk, ba, pj, o. split; [exact Hp|]. split; [exact Hpj|]. split; [reflexivity|]. split; [exact Hnot|].
  rewrite (rest_origin_txs _ _ Hrest), (rest_batches _ _ Hrest), (rest_batch_seq_id _ _ Hrest),
    (rest_batch_contracts _ _ Hrest). repeat split.
Qed.

(* BridgeReceive, first branch: the contract is bound; the batch found is minted into, and it
   belongs to class ck *)
Lemma bridge_receive_bound e s issuer ck o bk bc ba pj iss s' r1 e1 :
  Inv_contracts s ->
  map_find (contract_pred ck (ot_contract o)) (batch_contracts s) = Some (bk, bc) ->
  batches s !! bk = Some ba -> projects s !! ba_project_key ba = Some pj ->
  h_mint_batch_credits e s issuer (ba_denom ba) iss (Some o) = LOk (s', r1, e1) ->
  Inv_contracts s' /\ origin_key ck o ∉ origin_txs s /\ origin_txs s' = {[ origin_key ck o ]} ∪ origin_txs s /\
  batch_by_denom s (ba_denom ba) = Some (bk, ba) /\
  batches s' = batches s /\ batch_seq_id s' = batch_seq_id s /\ batch_contracts s' = batch_contracts s.
Proof.
  intros Hinv Hf Hba Hpj Hm.
  destruct (mint_bridge_step _ _ _ _ _ _ _ _ _ Hinv Hm)
    as (Hinv' & bk' & ba' & pj' & o' & Hp' & Hpj' & Ho' & Hnot & Hor & E1 & E2 & E3).
  inversion Ho'; subst o'.
  apply map_find_Some in Hf. destruct Hf as [Hbc Hpred]. unfold contract_pred in Hpred.
  apply andb_true_iff in Hpred. destruct Hpred as [Hck _]. apply N.eqb_eq in Hck.
  pose proof Hinv as (C1 & C2 & C3 & C4 & C5 & C6).
  destruct (C2 _ _ Hbc) as (b0 & p0 & Hb0 & Hp0 & Hcl0).
  rewrite Hba in Hb0. inversion Hb0; subst b0. rewrite Hpj in Hp0. inversion Hp0; subst p0.
  pose proof Hp' as Hp''. apply batch_by_denom_Some in Hp''. destruct Hp'' as [Hba' Hden'].
  assert (Hk : bk' = bk) by (eapply C6; eassumption). subst bk'.
  rewrite Hba in Hba'. inversion Hba'; subst ba'. rewrite Hpj in Hpj'. inversion Hpj'; subst pj'.
  rewrite Hcl0, Hck in Hnot, Hor.
  split; [exact Hinv'|]. split; [exact Hnot|]. split; [exact Hor|]. split; [exact Hp'|]. auto.
Qed.

(* the effect of one successful base-module message on origin_txs, and preservation of Inv_contracts *)
Theorem bridge_step e s m s' r evs :
  is_base_module_msg m = true -> Inv_contracts s -> handle e s m = LOk (s', r, evs) ->
  Inv_contracts s' /\
  match origin_of m with
  | Some o => exists ck, issue_class s m = Some ck /\ origin_key ck o ∉ origin_txs s /\
                         origin_txs s' = {[ origin_key ck o ]} ∪ origin_txs s
  | None => origin_txs s' = origin_txs s
  end.
Proof.
  intros Hm Hinv H. unfold is_base_module_msg in Hm. apply orb_true_iff in Hm. destruct Hm as [Hm|Hm].
  2:{ destruct (admin_tables _ _ _ _ _ _ Hm H) as (A1 & A2 & A3 & A4 & A5).
      split; [eapply contracts_proj_step; eassumption|].
      destruct m; try discriminate Hm; exact A1. }
  destruct m; try discriminate Hm; cbn [handle] in H; cbn [origin_of issue_class].
  - (* CreateBatch *)
    destruct (create_batch_bridge_step _ _ _ _ _ _ _ _ _ _ _ _ _ Hinv H) as (Hinv' & pk & pj & Hp & Ho).
    split; [exact Hinv'|]. rewrite Hp. destruct otx as [o|]; [|exact Ho].
    exists (pj_class_key pj). split; [reflexivity | exact Ho].
  - (* MintBatchCredits *)
    destruct (mint_bridge_step _ _ _ _ _ _ _ _ _ Hinv H)
      as (Hinv' & bk & ba & pj & o & Hp & Hpj & -> & Hnot & Hor & _).
    split; [exact Hinv'|]. rewrite Hp, Hpj. exists (pj_class_key pj). auto.
  - (* SealBatch *)
    apply h_seal_batch_shape in H. destruct H as [->|(bk & ba & Hba & ->)]; [split; [exact Hinv | reflexivity]|].
    split; [|reflexivity]. eapply contracts_set_batch; [exact Hba | reflexivity | reflexivity | exact Hinv].
  - (* Send *)
    apply h_send_rest in H. split; [eapply contracts_rest_eq; eassumption | apply rest_origin_txs; exact H].
  - apply h_retire_rest in H. split; [eapply contracts_rest_eq; eassumption | apply rest_origin_txs; exact H].
  - apply h_cancel_rest in H. split; [eapply contracts_rest_eq; eassumption | apply rest_origin_txs; exact H].
  - (* UpdateBatchMetadata *)
    apply h_update_batch_metadata_shape in H. destruct H as (bk & ba & Hba & ->).
    split; [|reflexivity]. eapply contracts_set_batch; [exact Hba | reflexivity | reflexivity | exact Hinv].
  - (* Bridge *)
    apply h_bridge_shape in H. destruct H as (_ & _ & _ & _ & H).
    split; [eapply contracts_rest_eq; eassumption | apply rest_origin_txs; exact H].
  - (* BridgeReceive *)
    apply h_bridge_receive_shape in H.
    destruct H as (o & bb & pp & ck & cl & -> & _ & _ & _ & Hc & [Hmint|Hcreate]); rewrite Hc.
    + destruct Hmint as (bk & bc & ba0 & pj0 & r1 & e1 & Hf & Hba & Hpj & Hm1 & _ & _).
      destruct (bridge_receive_bound _ _ _ _ _ _ _ _ _ _ _ _ _ Hinv Hf Hba Hpj Hm1) as (Hinv' & Hnot & Hor & _).
      split; [exact Hinv'|]. exists ck. auto.
    + destruct Hcreate as (_ & s1 & pid & d & e2 & Hproj & Hcb & _ & _).
      assert (Hs1 : Inv_contracts s1 /\ origin_txs s1 = origin_txs s /\
                    forall pk pj, project_by_id s1 pid = Some (pk, pj) -> pj_class_key pj = ck).
      { destruct Hproj as [(k & pj0 & Hf & -> & ->)|(Hf & e3 & Hcp)].
        - split; [exact Hinv|]. split; [reflexivity|]. intros pk pj1 Hp.
          apply project_by_id_Some in Hp. destruct Hp as [Hpk Hid].
          apply map_find_Some in Hf. destruct Hf as [Hk Hpred]. unfold reference_pred in Hpred.
          apply andb_true_iff in Hpred. destruct Hpred as [Hck _]. apply N.eqb_eq in Hck.
          destruct Hinv as (_ & _ & C3 & _).
          assert (Heq : pk = k) by (eapply C3; eassumption). subst pk.
          rewrite Hk in Hpk. inversion Hpk; subst pj1. exact Hck.
        - apply h_create_project_shape in Hcp.
          destruct Hcp as (ck' & cl' & Hc' & _ & Hfresh & Hs1 & Hr & _).
          rewrite Hc in Hc'. inversion Hc'; subst ck' cl'. cbv zeta in Hfresh, Hs1, Hr.
          inversion Hr as [Hpid]. subst s1.
          split; [|split; [reflexivity|]].
          + apply (contracts_proj_step s); [reflexivity | reflexivity | reflexivity | | exact Hinv].
            right. right. eexists. split; [exact Hfresh|]. split; reflexivity.
          + intros pk pj1 Hp. apply project_by_id_Some in Hp. destruct Hp as [Hpk Hid].
            change (<[(project_seq_id s + 1)%N :=
                       new_project issuer ck cl (default 1%N (project_sequences s !! ck))
                         (brp_metadata pp) (brp_jurisdiction pp) (brp_reference_id pp)]> (projects s) !! pk = Some pj1) in Hpk.
            destruct (decide ((project_seq_id s + 1)%N = pk)) as [Heq|Hne].
            * subst pk. rewrite lookup_insert in Hpk. inversion Hpk; subst pj1. reflexivity.
            * rewrite lookup_insert_ne in Hpk by exact Hne. exfalso.
              eapply Hfresh; [exact Hpk|]. exact Hid. }
      destruct Hs1 as (Hinv1 & Hor1 & Hcls).
      destruct (create_batch_bridge_step _ _ _ _ _ _ _ _ _ _ _ _ _ Hinv1 Hcb) as (Hinv' & pk & pj1 & Hp & Hnot & Hor).
      split; [exact Hinv'|]. exists ck. split; [reflexivity|].
      rewrite (Hcls _ _ Hp), Hor1 in Hnot, Hor. auto.
Qed.

(* ---------- statements of part 1 ---------- *)

Theorem origin_tx_once e s m o s' r evs :
  is_base_module_msg m = true -> Inv_contracts s -> origin_of m = Some o ->
  handle e s m = LOk (s', r, evs) ->
  exists ck, issue_class s m = Some ck /\
    origin_key ck o ∉ origin_txs s /\ origin_key ck o ∈ origin_txs s' /\
    origin_txs s' = {[ origin_key ck o ]} ∪ origin_txs s.
Proof.
  intros Hm Hinv Ho H. destruct (bridge_step _ _ _ _ _ _ Hm Hinv H) as [_ Hs]. rewrite Ho in Hs.
  destruct Hs as (ck & Hc & Hnot & Hor). exists ck. split; [exact Hc|]. split; [exact Hnot|].
  split; [|exact Hor]. rewrite Hor. apply elem_of_union_l, elem_of_singleton. reflexivity.
Qed.

Theorem origin_txs_mono e s m s' r evs :
  is_base_module_msg m = true -> Inv_contracts s -> handle e s m = LOk (s', r, evs) ->
  origin_txs s ⊆ origin_txs s' /\ (origin_of m = None -> origin_txs s' = origin_txs s).
Proof.
  intros Hm Hinv H. destruct (bridge_step _ _ _ _ _ _ Hm Hinv H) as [_ Hs].
  destruct (origin_of m) as [o|].
  - destruct Hs as (ck & _ & _ & Hor). split; [|discriminate]. rewrite Hor. apply union_subseteq_r.
  - split; [rewrite Hs; reflexivity | intros _; exact Hs].
Qed.

Theorem base_preserves_contracts e s m s' r evs :
  is_base_module_msg m = true -> Inv_contracts s -> handle e s m = LOk (s', r, evs) -> Inv_contracts s'.
Proof. intros Hm Hinv H. exact (proj1 (bridge_step _ _ _ _ _ _ Hm Hinv H)). Qed.

(* histories *)
Fixpoint run_msgs (e : env) (s : state) (ms : list msg) : state :=
  match ms with [] => s | m :: ms' => run_msgs e (deliver e s m).1 ms' end.

(* ghost trace: the (class, id, lower-cased source) of every origin tx that issued *)
Fixpoint issued_origins (e : env) (s : state) (ms : list msg) : list (N * bytes * bytes) :=
  match ms with
  | [] => []
  | m :: ms' =>
      match (deliver e s m).2, issue_key s m with
      | OOk _ _, Some k => k :: issued_origins e (deliver e s m).1 ms'
      | _, _ => issued_origins e (deliver e s m).1 ms'
      end
  end.

Theorem issued_origins_nodup e : forall ms s,
  forallb is_base_module_msg ms = true -> Inv_contracts s ->
  NoDup (issued_origins e s ms) /\
  (forall k, In k (issued_origins e s ms) -> k ∉ origin_txs s) /\
  origin_txs (run_msgs e s ms) = origin_txs s ∪ list_to_set (issued_origins e s ms) /\
  Inv_contracts (run_msgs e s ms).
Proof.
  induction ms as [|m ms IH]; intros s Hall Hinv; cbn [issued_origins run_msgs].
  - split; [constructor|]. split; [intros k []|]. split; [|exact Hinv].
    rewrite list_to_set_nil. rewrite union_empty_r_L. reflexivity.
  - cbn [forallb] in Hall. apply andb_true_iff in Hall. destruct Hall as [Hm Hall].
    unfold deliver. destruct (validate_basic m); [|cbn [fst snd]; apply IH; assumption].
    destruct (handle e s m) as [[[s' r] evs]|err] eqn:H; cbn [fst snd]; [|apply IH; assumption].
    destruct (bridge_step _ _ _ _ _ _ Hm Hinv H) as [Hinv' Hs].
    destruct (IH s' Hall Hinv') as (Hnd & Hnot & Hrun & Hfin).
    unfold issue_key. destruct (origin_of m) as [o|].
    + destruct Hs as (ck & Hc & Hnew & Hor). rewrite Hc.
      split; [|split; [|split; [|exact Hfin]]].
      * constructor; [|exact Hnd]. intros Hin. apply (Hnot _ Hin). rewrite Hor.
        apply elem_of_union_l, elem_of_singleton. reflexivity.
      * intros k [<-|Hin]; [exact Hnew|]. intros Hk. apply (Hnot _ Hin). rewrite Hor.
        apply elem_of_union_r. exact Hk.
      * rewrite Hrun, Hor, list_to_set_cons.
        rewrite (union_comm_L {[origin_key ck o]} (origin_txs s)). rewrite <- (assoc_L (∪)). reflexivity.
    + rewrite Hs in Hnot, Hrun. split; [exact Hnd|]. split; [exact Hnot|]. split; [exact Hrun | exact Hfin].
Qed.

(* ------------------------------------------------------------------ *)
(* 2. only allowed source chains                                       *)
(* ------------------------------------------------------------------ *)

Theorem bridge_receive_allowed_source e s issuer class_id pjr bar otx s' r evs :
  handle e s (MBridgeReceive issuer class_id pjr bar otx) = LOk (s', r, evs) ->
  exists o, otx = Some o /\ to_lower (ot_source o) ∈ allowed_bridge_chains s.
Proof.
  cbn [handle]. intros H. apply h_bridge_receive_shape in H.
  destruct H as (o & bb & pp & ck & cl & Ho & _ & _ & Hsrc & _). exists o. split; [exact Ho | exact Hsrc].
Qed.

(* ------------------------------------------------------------------ *)
(* 3. a bound contract receives into its batch                          *)
(* ------------------------------------------------------------------ *)

Theorem bridge_receive_same_batch e s issuer class_id pjr bar o s' r evs bk bc ck cl :
  Inv_contracts s ->
  batch_contracts s !! bk = Some bc -> class_by_id s class_id = Some (ck, cl) ->
  bc_class_key bc = ck -> ot_contract o = bc_contract bc ->
  handle e s (MBridgeReceive issuer class_id pjr bar (Some o)) = LOk (s', r, evs) ->
  exists ba pj bb,
    batches s !! bk = Some ba /\ projects s !! ba_project_key ba = Some pj /\ bar = Some bb /\
    batch_by_denom s (ba_denom ba) = Some (bk, ba) /\
    (* the state change is that of MintBatchCredits into that batch *)
    h_mint_batch_credits e s issuer (ba_denom ba) (bridge_issuance bb) (Some o) = LOk (s', REmpty, []) /\
    r = RBridgeReceive (ba_denom ba) (pj_id pj) /\
    evs = [EvBridgeReceive (pj_id pj) (ba_denom ba) (brb_amount bb) o] /\
    (* no new batch *)
    batches s' = batches s /\ batch_seq_id s' = batch_seq_id s /\ batch_contracts s' = batch_contracts s.
Proof.
  intros Hinv Hbc Hc Hck Hcon H. cbn [handle] in H. apply h_bridge_receive_shape in H.
  destruct H as (o' & bb & pp & ck' & cl' & Ho & Hbb & _ & _ & Hc' & [Hmint|Hcreate]).
  2:{ exfalso. destruct Hcreate as (Hnone & _). inversion Ho; subst o'.
      rewrite Hc in Hc'. inversion Hc'; subst ck' cl'.
      pose proof (map_find_None _ _ Hnone bk bc Hbc) as Hf. unfold contract_pred in Hf.
      rewrite Hck, N.eqb_refl, Hcon, bytes_eqb_refl in Hf. discriminate. }
  inversion Ho; subst o'. rewrite Hc in Hc'. inversion Hc'; subst ck' cl'.
  destruct Hmint as (bk' & bc' & ba & pj & r1 & e1 & Hf & Hba & Hpj & Hm1 & Hr & Hevs).
  assert (Hk : bk' = bk).
  { pose proof Hf as Hf'. apply map_find_Some in Hf'. destruct Hf' as [Hbc' Hpred]. unfold contract_pred in Hpred.
    apply andb_true_iff in Hpred. destruct Hpred as [Hck' Hcon']. apply N.eqb_eq in Hck'.
    apply bytes_eqb_eq in Hcon'. destruct Hinv as (C1 & _).
    eapply C1; [exact Hbc' | exact Hbc | congruence | congruence]. }
  subst bk'.
  destruct (bridge_receive_bound _ _ _ _ _ _ _ _ _ _ _ _ _ Hinv Hf Hba Hpj Hm1)
    as (_ & _ & _ & Hbd & E1 & E2 & E3).
  pose proof Hm1 as Hm2. apply h_mint_batch_credits_shape in Hm2.
  destruct Hm2 as (x1 & x2 & x3 & x4 & _ & _ & _ & _ & _ & _ & _ & Hr1 & He1). subst r1 e1.
  exists ba, pj, bb. split; [exact Hba|]. split; [exact Hpj|]. split; [exact Hbb|]. split; [exact Hbd|].
  split; [exact Hm1|]. split; [exact Hr|]. split; [exact Hevs|]. auto.
Qed.

(* ------------------------------------------------------------------ *)
(* 4. Bridge out                                                       *)
(* ------------------------------------------------------------------ *)

(* the contract bound to the batch with this denom *)
Definition bridge_contract (s : state) (denom : bytes) : option bytes :=
  match batch_by_denom s denom with
  | Some (bk, _) => match batch_contracts s !! bk with Some bc => Some (bc_contract bc) | None => None end
  | None => None
  end.

Definition bridge_event_of (s : state) (owner : addr) (target recipient : bytes) (c : credits) (ev : event) : Prop :=
  exists contract, bridge_contract s (cr_denom c) = Some contract /\
                   ev = EvBridge target recipient contract (cr_amount c) owner (cr_denom c).

Lemma bridge_contract_rest s s' d : rest_eq s s' -> bridge_contract s' d = bridge_contract s d.
Proof.
  intros H. unfold bridge_contract, batch_by_denom.
  rewrite (rest_batches _ _ H), (rest_batch_contracts _ _ H). reflexivity.
Qed.

Lemma lmap_bridge_events s owner target recipient : forall cs evs,
  lmap (bridge_event s owner target recipient) cs = LOk evs ->
  Forall2 (bridge_event_of s owner target recipient) cs evs.
Proof.
  induction cs as [|c cs IH]; intros evs H; cbn [lmap] in H.
  - inversion H; subst evs. constructor.
  - lstep H as ev Hev. lstep H as evs' Hevs'. inversion H; subst evs; clear H.
    constructor; [|apply IH; exact Hevs'].
    unfold bridge_event in Hev. lstep Hev as p Hp. destruct p as [bk ba]. cbv beta iota in Hev.
    lstep Hev as bc Hbc. inversion Hev; subst ev; clear Hev.
    exists (bc_contract bc). split; [|reflexivity]. unfold bridge_contract. rewrite Hp, Hbc. reflexivity.
Qed.

Theorem bridge_out_spec e s owner target recipient cs s' r evs :
  handle e s (MBridge owner target recipient cs) = LOk (s', r, evs) ->
  to_lower target ∈ allowed_bridge_chains s /\
  (* every named batch has a bound contract, and the events report it, one per credit, in order *)
  Forall2 (bridge_event_of s owner target recipient) cs evs /\
  (* the state change is exactly the cancellation of the credits *)
  handle e s (MCancel owner cs []) = LOk (s', REmpty, []) /\
  r = REmpty.
Proof.
  cbn [handle]. intros H. apply h_bridge_shape in H. destruct H as (Ht & Hl & Hev & Hr & Hrest).
  split; [exact Ht|]. split; [|split; [|exact Hr]].
  - apply lmap_bridge_events in Hev.
    eapply Forall2_impl; [exact Hev|]. intros c ev (contract & Hc & Hevq). exists contract.
    split; [|exact Hevq]. rewrite <- (bridge_contract_rest _ _ _ Hrest). exact Hc.
  - unfold h_cancel. rewrite Hl. reflexivity.
Qed.

(* one cancelled credit: exactly the parsed amount leaves the owner's tradable balance and the
   tradable supply and is added to the cancelled supply; nothing else moves *)
Theorem cancel_one_delta owner s c s' :
  Inv_core s -> cancel_one owner s c = LOk s' ->
  exists bk ba amt ub su su',
    batch_by_denom s (cr_denom c) = Some (bk, ba) /\ nnfixed P (cr_amount c) = Ok amt /\
    balances s !! (owner, bk) = Some ub /\ supplies s !! bk = Some su /\ supplies s' !! bk = Some su' /\
    U (bl_tradable (get_balance s' owner bk)) = U (bl_tradable ub) - U amt /\
    bl_retired (get_balance s' owner bk) = bl_retired ub /\
    bl_escrowed (get_balance s' owner bk) = bl_escrowed ub /\
    (forall a k, (a, k) <> (owner, bk) -> get_balance s' a k = get_balance s a k) /\
    U (su_tradable su') = U (su_tradable su) - U amt /\
    su_retired su' = su_retired su /\
    U (su_cancelled su') = U (su_cancelled su) + U amt /\
    (forall k, k <> bk -> supplies s' !! k = supplies s !! k).
Proof.
  intros Hinv H. unfold cancel_one in H.
  lstep H as p Hp. destruct p as [bk ba]. cbv beta iota in H.
  lstep H as ct Hct.
  pose proof Hinv as (Ict & Isc & Ik & Ic & Ie).
  rewrite (credit_type_of_denom_prec _ _ _ Ict Hct) in H.
  lstep H as ub Hub. lstep H as su Hsu. lstep H as amt Hamt. lstep H as nt Hnt.
  lstep H as st Hst. lstep H as sc Hsc. lstep H as s1 Hs1.
  apply update_balance_ok' in Hs1. destruct Hs1 as [-> _].
  apply update_supply_ok' in H. destruct H as [-> _].
  pose proof (nnfixed_in_ok _ _ Hamt) as Hamt'.
  pose proof (get_balance_Some _ _ _ _ Hub) as Hgs.
  pose proof (get_balance_ok s owner bk Isc) as Hubok. rewrite Hgs in Hubok.
  destruct Hubok as (Hub1 & Hub2 & Hub3).
  destruct (proj1 (proj2 Isc) _ _ Hsu) as (Hsu1 & Hsu2 & Hsu3).
  destruct (safe_sub_in_ok _ _ _ (stored_in_ok _ Hub1) Hamt' Hnt) as [Hnt1 Hnt2].
  destruct (dnorm_ok _ Hnt1) as [Hnt3 Hnt4].
  destruct (safe_sub_in_ok _ _ _ (stored_in_ok _ Hsu1) Hamt' Hst) as [Hst1 Hst2].
  destruct (dnorm_ok _ Hst1) as [Hst3 Hst4].
  destruct (add_in_ok _ _ _ (stored_in_ok _ Hsu3) Hamt' Hsc) as [Hsc1 Hsc2].
  destruct (dnorm_ok _ Hsc1) as [Hsc3 Hsc4].
  eexists bk, ba, amt, ub, su, _.
  split; [exact Hp|]. split; [exact Hamt|]. split; [exact Hub|]. split; [exact Hsu|].
  split; [rewrite supplies_set_supply; apply lookup_insert|].
  rewrite get_balance_set_supply, get_balance_save_eq. cbn [bl_tradable bl_retired bl_escrowed su_tradable su_retired su_cancelled].
  split; [lia|]. split; [reflexivity|]. split; [reflexivity|].
  split; [|split; [lia|split; [reflexivity|split; [lia|]]]].
  - intros a k Hne. rewrite get_balance_set_supply, get_balance_save.
    destruct (decide ((owner, bk) = (a, k))) as [Heq|_]; [congruence | reflexivity].
  - intros k Hne. rewrite supplies_set_supply, lookup_insert_ne by congruence. reflexivity.
Qed.
