(* Assembly: the history-level statements restated by Properties/C01.v, C04.v, C06.v, C12.v, with the
   invariants spelled out.  [reaches g s] (InvAllLib.v): s is obtained from g by begin-block and deliver
   steps; every intermediate state of Step.run is such a state (run_intermediate_reaches). *)
From stdpp Require Import gmap.
From RecordUpdate Require Import RecordSet.
From Coq Require Import ZArith NArith List Bool Lia Strings.Byte.
Require Import Regen.Base.Bytes Regen.Base.Calendar Regen.Dec.Dec.
Require Import Regen.Ledger.Types Regen.Ledger.Msgs Regen.Ledger.Orm Regen.Ledger.BaseMsgs
               Regen.Ledger.BasketMsgs Regen.Ledger.MarketMsgs Regen.Ledger.Step
               Regen.Ledger.Amount Regen.Ledger.MapSum Regen.Ledger.Inv Regen.Ledger.InvTactics.
Require Import Regen.Ledger.InvIds.
Require Import Regen.Ledger.InvMarketLib Regen.Ledger.InvMarketOrders Regen.Ledger.InvMarketPrune Regen.Ledger.InvMarket.
Require Import Regen.Ledger.InvAllLib Regen.Ledger.InvAllRun Regen.Ledger.InvAllOrders.
Import ListNotations RecordSetNotations.
Local Open Scope Z_scope.

(* ------------------------------------------------------------------ *)
(* C01                                                                 *)
(* ------------------------------------------------------------------ *)

Theorem reachable_conservation g s :
  Inv_run g -> reaches g s ->
  forall bk ba su, batches s !! bk = Some ba -> supplies s !! bk = Some su ->
    U (su_tradable su) = bal_sum tradable_escrowed bk (balances s) + bb_sum (ba_denom ba) (basket_balances s) /\
    U (su_retired su) = bal_sum retired_of bk (balances s).
Proof. intros Hg Hr. destruct (reaches_preserves_run g s Hg Hr) as [(Hc & _) _]. apply Hc. Qed.

Theorem reachable_amounts_wellformed g s :
  Inv_run g -> reaches g s ->
  (forall k b, balances s !! k = Some b ->
     stored_ok (bl_tradable b) /\ stored_ok (bl_retired b) /\ stored_ok (bl_escrowed b)) /\
  (forall k su, supplies s !! k = Some su ->
     stored_ok (su_tradable su) /\ stored_ok (su_retired su) /\ stored_ok (su_cancelled su)) /\
  (forall k bb, basket_balances s !! k = Some bb -> stored_ok (bb_balance bb) /\ 0 < U (bb_balance bb)) /\
  (forall k o, sell_orders s !! k = Some o -> exists d, parse (so_quantity o) = Ok d /\ in_ok d /\ 0 < U d).
Proof. intros Hg Hr. destruct (reaches_preserves_run g s Hg Hr) as [(Hc & _) _]. apply Hc. Qed.

(* a stored amount is non-negative with at most six decimal places and no exponent notation *)
Theorem stored_ok_meaning d :
  stored_ok d <-> 0 <= dcoef d /\ (dneg d = true -> dcoef d = 0) /\ -6 <= dexp d /\ dexp d <= 0.
Proof. reflexivity. Qed.

Theorem run_conservation authority g h s :
  Inv_run g -> run authority g h = LOk s -> Inv_cons s /\ Inv_scale s.
Proof. intros Hg H. destruct (run_preserves_run authority g h s Hg H) as [(Hc & _) _]. split; apply Hc. Qed.

Theorem run_intermediate_conservation authority g h1 bl ms1 ms2 s1 s2 :
  Inv_run g -> run authority g h1 = LOk s1 -> begin_block (blk_time bl) s1 = LOk s2 -> blk_msgs bl = ms1 ++ ms2 ->
  let s3 := deliver_all (block_env authority bl) ms1 s2 in
  Inv_cons s3 /\ Inv_scale s3.
Proof.
  intros Hg H1 H2 H3 s3. destruct (run_intermediate_reaches _ _ _ _ _ _ _ _ H1 H2 H3) as (_ & _ & R3).
  destruct (reaches_preserves_run g s3 Hg R3) as [(Hc & _) _]. split; apply Hc.
Qed.

(* what the chain's BatchSupplyInvariant (base/keeper/invariants.go) compares, per supply row: tradable
   supply against the sum of tradable and escrowed balances plus the basket holdings of the batch, retired
   supply against the sum of retired balances.  (Its "supply is not found" branch, taken when a batch has
   no balance row at all, is not covered here.) *)
Definition batch_supply_invariant_ok (s : state) : Prop :=
  forall bk su, supplies s !! bk = Some su ->
    exists ba, batches s !! bk = Some ba /\
      U (su_tradable su) = bal_sum tradable_escrowed bk (balances s) + bb_sum (ba_denom ba) (basket_balances s) /\
      U (su_retired su) = bal_sum retired_of bk (balances s).

(* a direct restatement of Inv_cons, using Inv_keys for the existence of the batch row *)
Theorem chain_invariant_silent g s : Inv_run g -> reaches g s -> batch_supply_invariant_ok s.
Proof.
  intros Hg Hr. destruct (reaches_preserves_run g s Hg Hr) as [((_ & _ & Hk & Hc & _) & _) _].
  intros bk su Hsu. destruct Hk as (_ & Hk2 & _). destruct (proj2 (Hk2 bk) (ex_intro _ su Hsu)) as [ba Hba].
  exists ba. split; [exact Hba | exact (Hc _ _ _ Hba Hsu)].
Qed.

(* ------------------------------------------------------------------ *)
(* C04                                                                 *)
(* ------------------------------------------------------------------ *)

Theorem retired_never_decreases g s1 s2 :
  Inv_run g -> reaches g s1 -> reaches s1 s2 ->
  (forall a k, U (bl_retired (get_balance s1 a k)) <= U (bl_retired (get_balance s2 a k))) /\
  (forall k su, supplies s1 !! k = Some su -> exists su', supplies s2 !! k = Some su' /\
       U (su_retired su) <= U (su_retired su') /\ U (su_cancelled su) <= U (su_cancelled su')).
Proof. intros Hg H1 H2. exact (reaches_monotone g s1 s2 Hg H1 H2). Qed.

Theorem run_retired_never_decreases authority g h1 h2 s1 s2 :
  Inv_run g -> run authority g h1 = LOk s1 -> run authority s1 h2 = LOk s2 ->
  (forall a k, U (bl_retired (get_balance s1 a k)) <= U (bl_retired (get_balance s2 a k))) /\
  (forall k su, supplies s1 !! k = Some su -> exists su', supplies s2 !! k = Some su' /\
       U (su_retired su) <= U (su_retired su') /\ U (su_cancelled su) <= U (su_cancelled su')).
Proof.
  intros Hg H1 H2. apply (retired_never_decreases g s1 s2 Hg); eapply run_reaches; eassumption.
Qed.

(* per step, for every message of every family and for begin-block *)
Theorem deliver_retired_never_decreases e s m :
  Inv_run s ->
  (forall a k, U (bl_retired (get_balance s a k)) <= U (bl_retired (get_balance (deliver e s m).1 a k))) /\
  (forall k su, supplies s !! k = Some su -> exists su', supplies (deliver e s m).1 !! k = Some su' /\
       U (su_retired su) <= U (su_retired su') /\ U (su_cancelled su) <= U (su_cancelled su')).
Proof. intros Hs. exact (proj2 (deliver_preserves_run e s m Hs)). Qed.

Theorem begin_block_retired_unchanged t s s' :
  Inv_run s -> begin_block t s = LOk s' ->
  supplies s' = supplies s /\ forall a k, bl_retired (get_balance s' a k) = bl_retired (get_balance s a k).
Proof. intros (Hc & _) H. exact (prune_monotone t s s' Hc H). Qed.

(* ------------------------------------------------------------------ *)
(* C06                                                                 *)
(* ------------------------------------------------------------------ *)

Theorem reachable_escrow_is_open_orders g s :
  Inv_run g -> reaches g s ->
  forall a bk, U (bl_escrowed (get_balance s a bk)) = order_sum a bk (sell_orders s).
Proof. intros Hg Hr. destruct (reaches_preserves_run g s Hg Hr) as [(Hc & _) _]. apply Hc. Qed.

(* order_sum spelled out: the units of the open orders of that seller for that batch *)
Theorem order_sum_meaning a bk m :
  order_sum a bk m =
  sum_map (fun _ o => if (so_seller o =? a)%N && (so_batch_key o =? bk)%N
                      then match parse (so_quantity o) with Ok d => U d | Err _ => 0 end else 0) m.
Proof. reflexivity. Qed.

Theorem reachable_orders_wellformed g s :
  Inv_all g -> reaches g s ->
  forall id o, sell_orders s !! id = Some o ->
    0 < so_ask_amount o /\
    (exists d, parse (so_quantity o) = Ok d /\ in_ok d /\ 0 < U d /\ dexp d <= 0) /\
    exists mk ba ct, markets s !! so_market_id o = Some mk /\ batches s !! so_batch_key o = Some ba /\
      credit_type_abbrev_of_denom s (ba_denom ba) = LOk (mk_ct mk, ct).
Proof.
  intros Hg Hr id o Hid. destruct (reaches_preserves_all g s Hg Hr) as (((_ & Hsc & _) & _ & Hq) & _ & [Ho _]).
  destruct (Ho _ _ Hid) as [Hask Hwf]. split; [exact Hask|]. split; [|exact Hwf].
  destruct Hsc as (_ & _ & _ & H4). destruct (H4 _ _ Hid) as (d & Hp & Hok & Hpos).
  destruct (Hq _ _ Hid) as (d2 & Hp2 & He). rewrite Hp in Hp2. inversion Hp2; subst d2.
  exists d. tauto.
Qed.

(* ------------------------------------------------------------------ *)
(* C12                                                                 *)
(* ------------------------------------------------------------------ *)

Theorem reachable_begin_block_never_fails g s t :
  Inv_run g -> reaches g s -> exists s', begin_block t s = LOk s'.
Proof. apply reachable_begin_block_total. Qed.

Theorem history_never_halts authority g h : Inv_run g -> exists s, run authority g h = LOk s.
Proof. intros Hg. destruct (run_never_fails authority g h Hg) as (s & H & _). eauto. Qed.

(* the genesis hypotheses are satisfiable *)
Lemma empty_state_ids : Inv_ids empty_state.
Proof.
  apply Inv_ids_empty; try reflexivity. intros ct [x Hx]. cbn in Hx. rewrite lookup_empty in Hx. discriminate.
Qed.

Example genesis_hyps_satisfiable : Inv_run empty_state /\ Inv_all empty_state.
Proof.
  destruct market_hyps_satisfiable as (H1 & H2 & H3 & H4).
  assert (Hr : Inv_run empty_state) by (split; [exact H1 | split; assumption]).
  split; [exact Hr|]. split; [exact Hr|]. split; [apply empty_state_ids | exact H4].
Qed.
