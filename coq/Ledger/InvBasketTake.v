(* MsgTake: addCreditBalance + the row write is a move; the release loop; h_take preserves the
   invariants, burns exactly the tokens and releases exactly as many units (C05); the loop never
   runs out of fuel; auto-retire (C11). *)
From stdpp Require Import gmap.
From RecordUpdate Require Import RecordSet.
From Coq Require Import ZArith NArith List Bool Lia Strings.Byte.
Require Import Regen.Base.Bytes Regen.Base.BigIntScan Regen.Base.Calendar Regen.Dec.Dec Regen.Dec.DecIface Regen.Ids.Ids.
Require Import Regen.Ledger.Types Regen.Ledger.Msgs Regen.Ledger.Orm Regen.Ledger.BaseMsgs
               Regen.Ledger.BasketMsgs Regen.Ledger.MarketMsgs Regen.Ledger.Step
               Regen.Ledger.Amount Regen.Ledger.MapSum Regen.Ledger.Inv Regen.Ledger.InvTactics
               Regen.Ledger.InvBasketDec Regen.Ledger.InvBasketLib Regen.Ledger.InvBasketRows.
Import RecordSetNotations.
Local Open Scope Z_scope.

Definition sel (b : bool) (x : Z) : Z := if b then x else 0.

(* ------------------------------------------------------------------ *)
(* addCreditBalance followed by the basket row write                   *)
(* ------------------------------------------------------------------ *)

Lemma add_credit_balance_bb owner denom amt retire s s1 :
  add_credit_balance owner denom amt retire s = LOk s1 -> basket_balances s1 = basket_balances s.
Proof.
  unfold add_credit_balance. intros H. lstep H as x Hx. destruct x as [bkey ba]. destruct retire.
  - lstep H as s2 H2. unfold retire_and_save_balance in H2. lstep H2 as r Hr. inversion H2; subst s2; clear H2.
    unfold retire_supply in H. lstep H as su Hsu. lstep H as t Ht. lstep H as r2 Hr2.
    apply update_supply_ok in H. destruct H as [-> _]. reflexivity.
  - unfold add_and_save_balance in H. lstep H as t Ht. inversion H; subst s1. reflexivity.
Qed.

Lemma release_move s owner id denom bb amt retire s1 row' :
  Inv_core s -> is_Some (baskets s !! id) -> basket_balances s !! (id, denom) = Some bb ->
  in_ok amt ->
  add_credit_balance owner denom amt retire s = LOk s1 ->
  (forall r, row' = Some r -> stored_ok (bb_balance r) /\ 0 < U (bb_balance r)) ->
  row_units row' = U (bb_balance bb) - U amt ->
  exists bkey ba ub' su su',
    batches s !! bkey = Some ba /\ ba_denom ba = denom /\
    s1 <| basket_balances := write_row id denom row' (basket_balances s1) |> = move_to s owner bkey id denom ub' su' row' /\
    move_ok s owner bkey id denom ub' su su' row' /\
    U (bl_tradable ub') = U (bl_tradable (get_balance s owner bkey)) + sel (negb retire) (U amt) /\
    U (bl_retired ub') = U (bl_retired (get_balance s owner bkey)) + sel retire (U amt) /\
    (retire = true -> bl_tradable ub' = bl_tradable (get_balance s owner bkey)) /\
    (retire = false -> bl_retired ub' = bl_retired (get_balance s owner bkey) /\ su' = su) /\
    U (su_tradable su') = U (su_tradable su) - sel retire (U amt) /\
    U (su_retired su') = U (su_retired su) + sel retire (U amt).
Proof.
  intros Hcore Hid Hrow Hamt H Hrow'ok Hrow'u.
  pose proof Hcore as (_ & Hscale & (_ & K2 & _) & _).
  pose proof Hscale as (_ & Hs & _).
  pose proof (in_ok_U_nonneg _ Hamt) as Hamt0.
  unfold add_credit_balance in H. lstep H as x Hx. destruct x as [bkey ba].
  destruct (batch_by_denom_Some _ _ _ _ Hx) as [Hba Hd].
  assert (Hsu : is_Some (supplies s !! bkey)) by (apply K2; eauto). destruct Hsu as [su Hsu].
  destruct (Hs _ _ Hsu) as (Hsu1 & Hsu2 & Hsu3).
  pose proof (get_balance_ok s owner bkey Hscale) as (Hb1 & Hb2 & Hb3).
  exists bkey, ba. destruct retire; cbn [sel negb].
  - lstep H as s2 H2. unfold retire_and_save_balance in H2. lstep H2 as r Hr. inversion H2; subst s2; clear H2.
    unfold retire_supply in H. lstep H as su0 Hsu0. lstep H as t Ht. lstep H as r2 Hr2.
    apply update_supply_ok in H. destruct H as [-> _].
    change (supplies (save_balance _ _ _ s)) with (supplies s) in Hsu0. rewrite Hsu in Hsu0. inversion Hsu0; subst su0; clear Hsu0.
    destruct (safe_add_in_ok _ _ _ (stored_in_ok _ Hb2) Hamt Hr) as [Hr1 Hr2'].
    destruct (dnorm_ok _ Hr1) as [Hr3 Hr4].
    destruct (safe_sub_in_ok _ _ _ (stored_in_ok _ Hsu1) Hamt Ht) as [Ht1 Ht2].
    destruct (dnorm_ok _ Ht1) as [Ht3 Ht4].
    destruct (safe_add_in_ok _ _ _ (stored_in_ok _ Hsu2) Hamt Hr2) as [Hq1 Hq2].
    destruct (dnorm_ok _ Hq1) as [Hq3 Hq4].
    eexists _, su, _. split; [exact Hba|]. split; [exact Hd|]. split; [reflexivity|].
    cbn [bl_tradable bl_retired bl_escrowed su_tradable su_retired su_cancelled].
    split; [|split; [lia|split; [lia|split; [reflexivity|split; [discriminate|split; lia]]]]].
    split; cbn [bl_tradable bl_retired bl_escrowed su_tradable su_retired su_cancelled]; try lia; try reflexivity.
    + eauto.
    + exact Hid.
    + exact Hsu.
    + split; [exact Hb1 | split; [exact Hr3 | exact Hb3]].
    + split; [exact Ht3 | split; [exact Hq3 | exact Hsu3]].
    + exact Hrow'ok.
    + rewrite Hrow. cbn [row_units]. lia.
    + rewrite Hrow. cbn [row_units]. lia.
  - unfold add_and_save_balance in H. lstep H as t Ht. inversion H; subst s1; clear H.
    destruct (safe_add_in_ok _ _ _ (stored_in_ok _ Hb1) Hamt Ht) as [Ht1 Ht2].
    destruct (dnorm_ok _ Ht1) as [Ht3 Ht4].
    eexists _, su, su. split; [exact Hba|]. split; [exact Hd|].
    split; [rewrite (move_to_same_supply _ _ _ _ _ _ _ _ Hsu); reflexivity|].
    cbn [bl_tradable bl_retired bl_escrowed].
    split; [|split; [lia|split; [lia|split; [discriminate|split; [intros _; split; reflexivity|split; lia]]]]].
    split; cbn [bl_tradable bl_retired bl_escrowed]; try lia; try reflexivity.
    + eauto.
    + exact Hid.
    + exact Hsu.
    + split; [exact Ht3 | split; [exact Hb2 | exact Hb3]].
    + split; [exact Hsu1 | split; [exact Hsu2 | exact Hsu3]].
    + exact Hrow'ok.
    + rewrite Hrow. cbn [row_units]. lia.
    + rewrite Hrow. cbn [row_units]. lia.
Qed.

(* ------------------------------------------------------------------ *)
(* the cumulative effect of releasing the credits [rel] to [owner]     *)
(* ------------------------------------------------------------------ *)

Record take_effect (owner : addr) (id : N) (retire : bool) (s s' : state) (rel : list (bytes * dec)) : Prop := {
  te_batches : batches s' = batches s;
  te_total : forall id', basket_total id' (basket_balances s') =
      basket_total id' (basket_balances s) - (if (id' =? id)%N then total_units rel else 0);
  te_rows : forall id' d, row_units (basket_balances s' !! (id', d)) =
      row_units (basket_balances s !! (id', d)) - (if (id' =? id)%N then units_for d rel else 0);
  te_other_rows : forall id' d, id' <> id -> basket_balances s' !! (id', d) = basket_balances s !! (id', d);
  te_unlisted_rows : forall d, Forall (fun x => x.1 <> d) rel -> basket_balances s' !! (id, d) = basket_balances s !! (id, d);
  te_others : forall a bk, a <> owner -> balances s' !! (a, bk) = balances s !! (a, bk);
  te_nonbatch : forall bk, batches s !! bk = None ->
      balances s' !! (owner, bk) = balances s !! (owner, bk) /\ supplies s' !! bk = supplies s !! bk;
  te_owner : forall bk ba, batches s !! bk = Some ba ->
      bl_escrowed (get_balance s' owner bk) = bl_escrowed (get_balance s owner bk) /\
      U (bl_tradable (get_balance s' owner bk)) =
        U (bl_tradable (get_balance s owner bk)) + sel (negb retire) (units_for (ba_denom ba) rel) /\
      U (bl_retired (get_balance s' owner bk)) =
        U (bl_retired (get_balance s owner bk)) + sel retire (units_for (ba_denom ba) rel) /\
      (retire = true -> bl_tradable (get_balance s' owner bk) = bl_tradable (get_balance s owner bk)) /\
      (retire = false -> bl_retired (get_balance s' owner bk) = bl_retired (get_balance s owner bk));
  te_supply : forall bk ba su, batches s !! bk = Some ba -> supplies s !! bk = Some su ->
      exists su', supplies s' !! bk = Some su' /\ su_cancelled su' = su_cancelled su /\
        U (su_tradable su') = U (su_tradable su) - sel retire (units_for (ba_denom ba) rel) /\
        U (su_retired su') = U (su_retired su) + sel retire (units_for (ba_denom ba) rel);
  te_noretire : retire = false -> supplies s' = supplies s
}.

Lemma sel_add b x y : sel b (x + y) = sel b x + sel b y.
Proof. destruct b; cbn; lia. Qed.

Lemma take_effect_trans owner id retire s s1 s2 l1 l2 :
  take_effect owner id retire s s1 l1 -> take_effect owner id retire s1 s2 l2 ->
  take_effect owner id retire s s2 (l1 ++ l2).
Proof.
  intros A B. destruct A as [Ab At Ar Aor Aur Ao An Aow As Anr], B as [Bb Bt Br Bor Bur Bo Bn Bow Bs Bnr]. split.
  - congruence.
  - intros id'. rewrite Bt, At, total_units_app. destruct (id' =? id)%N; lia.
  - intros id' d. rewrite Br, Ar, units_for_app. destruct (id' =? id)%N; lia.
  - intros id' d Hne. rewrite Bor, Aor by exact Hne. reflexivity.
  - intros d Hd. apply Forall_app in Hd. destruct Hd as [Hd1 Hd2]. rewrite Bur, Aur by assumption. reflexivity.
  - intros a bk Hne. rewrite Bo, Ao by exact Hne. reflexivity.
  - intros bk Hbk. destruct (An bk Hbk) as [A1 A2]. rewrite <- Ab in Hbk. destruct (Bn bk Hbk) as [B1 B2].
    split; congruence.
  - intros bk ba Hba. destruct (Aow bk ba Hba) as (A1 & A2 & A3 & A4 & A5).
    rewrite <- Ab in Hba. destruct (Bow bk ba Hba) as (B1 & B2 & B3 & B4 & B5).
    rewrite units_for_app, !sel_add. split; [congruence|]. split; [lia|]. split; [lia|].
    split; intros Hr; [rewrite B4, A4 by exact Hr | rewrite B5, A5 by exact Hr]; reflexivity.
  - intros bk ba su Hba Hsu. destruct (As bk ba su Hba Hsu) as (su1 & A1 & A2 & A3 & A4).
    rewrite <- Ab in Hba. destruct (Bs bk ba su1 Hba A1) as (su2 & B1 & B2 & B3 & B4).
    exists su2. rewrite units_for_app, !sel_add. split; [exact B1|]. split; [congruence|]. split; lia.
  - intros Hr. rewrite Bnr, Anr by exact Hr. reflexivity.
Qed.

Lemma move_take_effect s owner bkey id d ub' su su' row' retire amt :
  Inv_core s -> move_ok s owner bkey id d ub' su su' row' ->
  row_units row' = row_units (basket_balances s !! (id, d)) - U amt ->
  U (bl_tradable ub') = U (bl_tradable (get_balance s owner bkey)) + sel (negb retire) (U amt) ->
  U (bl_retired ub') = U (bl_retired (get_balance s owner bkey)) + sel retire (U amt) ->
  (retire = true -> bl_tradable ub' = bl_tradable (get_balance s owner bkey)) ->
  (retire = false -> bl_retired ub' = bl_retired (get_balance s owner bkey) /\ su' = su) ->
  U (su_tradable su') = U (su_tradable su) - sel retire (U amt) ->
  U (su_retired su') = U (su_retired su) + sel retire (U amt) ->
  take_effect owner id retire s (move_to s owner bkey id d ub' su' row') ((d, amt) :: nil).
Proof.
  intros Hcore Hmv Hrow Ht Hr Hrt Hnr Hsut Hsur.
  pose proof Hcore as (_ & _ & (K1 & _) & _).
  destruct (mv_batch _ _ _ _ _ _ _ _ _ Hmv) as (ba & Hba & Hd).
  pose proof (mv_su _ _ _ _ _ _ _ _ _ Hmv) as Hsu.
  assert (Hkey : forall bk ba0, batches s !! bk = Some ba0 ->
            (bk = bkey /\ ba0 = ba /\ bytes_eqb d (ba_denom ba0) = true) \/
            (bk <> bkey /\ bytes_eqb d (ba_denom ba0) = false)).
  { intros bk ba0 Hba0. destruct (decide (bk = bkey)) as [->|Hne].
    - left. rewrite Hba in Hba0. inversion Hba0; subst ba0. rewrite Hd, bytes_eqb_refl. auto.
    - right. split; [exact Hne|]. apply bytes_eqb_neq. intros Heq. apply Hne.
      eapply K1; [exact Hba0 | exact Hba | congruence]. }
  split; unfold move_to;
    try change (basket_balances (s <| balances := _ |> <| supplies := _ |> <| basket_balances := ?m |>)) with m.
  - reflexivity.
  - intros id'. rewrite basket_total_write. cbn [total_units snd]. rewrite (N.eqb_sym id id').
    destruct (id' =? id)%N; lia.
  - intros id' d0. rewrite lookup_write_row. cbn [units_for fst snd].
    destruct (decide ((id', d0) = (id, d))) as [Heq|Hne].
    + inversion Heq; subst. rewrite N.eqb_refl, bytes_eqb_refl. lia.
    + destruct (id' =? id)%N eqn:E; [|lia]. apply N.eqb_eq in E. subst id'.
      rewrite bytes_eqb_neq; [lia|]. congruence.
  - intros id' d0 Hne. rewrite lookup_write_row, decide_False by congruence. reflexivity.
  - intros d0 Hd0. apply Forall_inv in Hd0. cbn [fst] in Hd0.
    rewrite lookup_write_row, decide_False by congruence. reflexivity.
  - intros a bk Hne. cbn. apply lookup_insert_ne. congruence.
  - intros bk Hbk. cbn. split; apply lookup_insert_ne; [intros Heq; inversion Heq; subst | intros ->]; congruence.
  - intros bk ba0 Hba0. fold (move_to s owner bkey id d ub' su' row'). rewrite move_to_get_balance.
    cbn [units_for fst snd]. rewrite Z.add_0_r.
    destruct (Hkey bk ba0 Hba0) as [(-> & -> & E)|(Hne & E)]; rewrite E.
    + rewrite decide_True by reflexivity. rewrite (mv_esc _ _ _ _ _ _ _ _ _ Hmv).
      split; [reflexivity|]. split; [exact Ht|]. split; [exact Hr|]. split; [exact Hrt|]. intros Hf. apply Hnr. exact Hf.
    + rewrite decide_False by congruence. destruct retire; cbn [sel negb]; repeat split; lia.
  - intros bk ba0 su0 Hba0 Hsu0. cbn [units_for fst snd]. rewrite Z.add_0_r. cbn.
    destruct (Hkey bk ba0 Hba0) as [(-> & -> & E)|(Hne & E)]; rewrite E.
    + rewrite lookup_insert. rewrite Hsu in Hsu0. inversion Hsu0; subst su0.
      exists su'. split; [reflexivity|]. split; [apply (mv_canc _ _ _ _ _ _ _ _ _ Hmv)|]. split; assumption.
    + rewrite lookup_insert_ne by congruence. exists su0. split; [exact Hsu0|]. split; [reflexivity|].
      destruct retire; cbn [sel]; split; lia.
  - intros Hf. cbn. destruct (Hnr Hf) as [_ ->]. apply insert_id. exact Hsu.
Qed.

(* ------------------------------------------------------------------ *)
(* the release loop                                                    *)
(* ------------------------------------------------------------------ *)

Definition rendered (rel : list (bytes * dec)) : list (bytes * bytes) := map (fun x => (x.1, to_string x.2)) rel.

Lemma cmp_U a c : in_ok a -> in_ok c -> cmp a c = Z.compare (U a) (U c).
Proof. intros (A1 & _ & A2) (C1 & _ & C2). apply cmp_units; lia. Qed.

(* one release: [amt] units of the first row go to the owner; the row keeps the rest *)
Lemma take_iter s owner id retire denom bb amt s1 row' :
  Inv_core s -> is_Some (baskets s !! id) -> basket_balances s !! (id, denom) = Some bb ->
  in_ok amt ->
  add_credit_balance owner denom amt retire s = LOk s1 ->
  (forall r, row' = Some r -> stored_ok (bb_balance r) /\ 0 < U (bb_balance r)) ->
  row_units row' = U (bb_balance bb) - U amt ->
  let s2 := s1 <| basket_balances := write_row id denom row' (basket_balances s1) |> in
  Inv_core s2 /\ step_ok s s2 /\ move_frame s s2 /\ take_effect owner id retire s s2 ((denom, amt) :: nil).
Proof.
  intros Hcore Hid Hrow Hamt H Hok Hu s2.
  destruct (release_move _ _ _ _ _ _ _ _ _ Hcore Hid Hrow Hamt H Hok Hu)
    as (bkey & ba & ub' & su & su' & Hba & Hd & Heq & Hmv & E1 & E2 & E3 & E4 & E5 & E6).
  unfold s2. rewrite Heq.
  split; [eapply move_core; eassumption|]. split; [eapply move_step_ok; eassumption|].
  split; [apply move_to_frame|].
  eapply move_take_effect; try eassumption. rewrite Hrow. cbn [row_units]. exact Hu.
Qed.

(* C11 oldest-first: the released list walks the index scan from its first row; every listed row but
   the last is released whole and deleted, the last one keeps the remainder (or is deleted when it is
   used up exactly); the rows after it are untouched *)
Definition whole (r : bytes * basket_balance) : bytes * dec := (r.1, bb_balance r.2).

Definition take_order_of (s s' : state) (id : N) (rel : list (bytes * dec)) : Prop :=
  exists pre d bb post x,
    basket_rows s id = pre ++ (d, bb) :: post /\
    rel = map whole pre ++ (d, x) :: nil /\
    0 < U x <= U (bb_balance bb) /\
    ((x = bb_balance bb /\ basket_rows s' id = post) \/
     (U x < U (bb_balance bb) /\
      exists bb', U (bb_balance bb') = U (bb_balance bb) - U x /\ bb_start bb' = bb_start bb /\
                  basket_rows s' id = (d, bb') :: post)).

Lemma basket_rows_frame s s' id : basket_balances s' = basket_balances s -> basket_rows s' id = basket_rows s id.
Proof. intros H. unfold basket_rows. rewrite H. reflexivity. Qed.

Lemma take_loop_spec owner id retire : forall fuel needed acc s s' out,
  Inv_core s -> is_Some (baskets s !! id) -> in_ok needed -> 0 < U needed ->
  take_loop fuel owner id retire needed acc s = LOk (s', out) ->
  Inv_core s' /\ step_ok s s' /\ move_frame s s' /\
  exists rel, take_effect owner id retire s s' rel /\ total_units rel = U needed /\
              out = acc ++ rendered rel /\ Forall (fun x => in_ok x.2 /\ 0 < U x.2) rel /\
              take_order_of s s' id rel.
Proof.
  induction fuel as [|fuel IH]; intros needed acc s s' out Hcore Hid Hn Hnpos H; [discriminate|].
  cbn [take_loop] in H.
  destruct (basket_rows s id) as [|[denom bb] rest] eqn:Erows; [discriminate|].
  pose proof (basket_rows_head _ _ _ _ _ Erows) as Hrow.
  pose proof Hcore as (_ & (_ & _ & Hbb & _) & _).
  destruct (Hbb _ _ Hrow) as [Hbs Hbpos]. pose proof (stored_in_ok _ Hbs) as Hbin.
  rewrite (cmp_U _ _ Hbin Hn) in H.
  destruct (Z.compare_spec (U (bb_balance bb)) (U needed)) as [Ecmp|Ecmp|Ecmp].
  - (* the row is used up exactly *)
    lstep H as s1 H1. cbv zeta in H. inversion H; subst s' out; clear H.
    pose proof (add_credit_balance_bb _ _ _ _ _ _ H1) as Ebb.
    destruct (take_iter s owner id retire denom bb (bb_balance bb) s1 None Hcore Hid Hrow Hbin H1)
      as (C & S & F & T); [discriminate | cbn [row_units]; lia |].
    cbn [write_row] in C, S, F, T.
    split; [exact C|]. split; [exact S|]. split; [exact F|].
    exists ((denom, bb_balance bb) :: nil). split; [exact T|]. split; [cbn [total_units snd]; lia|].
    split; [reflexivity|]. split; [constructor; [cbn [snd]; auto | constructor]|].
    exists nil, denom, bb, rest, (bb_balance bb). split; [exact Erows|]. split; [reflexivity|]. split; [lia|].
    left. split; [reflexivity|]. rewrite basket_rows_eq. cbn [basket_balances set].
    change (basket_balances (s1 <| basket_balances := ?m |>)) with m. rewrite Ebb.
    apply (rows_delete_head _ _ _ bb). rewrite <- basket_rows_eq. exact Erows.
  - (* the row is smaller than what is still needed *)
    lstep H as s1 H1. cbv zeta in H. lstep H as needed' Hsub.
    destruct (take_iter s owner id retire denom bb (bb_balance bb) s1 None Hcore Hid Hrow Hbin H1)
      as (C & S & F & T); [discriminate | cbn [row_units]; lia |].
    cbn [write_row] in C, S, F, T.
    destruct (sub_units _ _ _ Hn Hbin Hsub) as (_ & _ & Hu' & Hin').
    assert (Hid1 : is_Some (baskets (s1 <| basket_balances := delete (id, denom) (basket_balances s1) |>) !! id))
      by (rewrite (mf_baskets _ _ F); exact Hid).
    pose proof (add_credit_balance_bb _ _ _ _ _ _ H1) as Ebb.
    destruct (IH _ _ _ _ _ C Hid1 (Hin' ltac:(lia)) ltac:(lia) H) as (C' & S' & F' & rel' & T' & Htot & Hout & Hall & Hord).
    split; [exact C'|]. split; [eapply step_ok_trans; eassumption|]. split; [eapply move_frame_trans; eassumption|].
    exists ((denom, bb_balance bb) :: rel'). split; [exact (take_effect_trans _ _ _ _ _ _ _ _ T T')|].
    split; [cbn [total_units snd]; lia|]. split; [rewrite Hout, <- app_assoc; reflexivity|].
    split; [constructor; [cbn [snd]; auto | exact Hall]|].
    destruct Hord as (pre & d0 & bb0 & post & x & Hrows2 & Hrel & Hx & Hend).
    assert (Hrows2' : basket_rows (s1 <| basket_balances := delete (id, denom) (basket_balances s1) |>) id = rest).
    { rewrite basket_rows_eq. cbn [basket_balances set].
      change (basket_balances (s1 <| basket_balances := ?m |>)) with m. rewrite Ebb.
      apply (rows_delete_head _ _ _ bb). rewrite <- basket_rows_eq. exact Erows. }
    rewrite Hrows2' in Hrows2.
    exists ((denom, bb) :: pre), d0, bb0, post, x. split; [rewrite Erows, Hrows2; reflexivity|].
    split; [rewrite Hrel; reflexivity|]. split; [exact Hx | exact Hend].
  - (* the row covers the rest: it keeps the remainder *)
    lstep H as s1 H1. lstep H as nb Hsub. lstep H as m Hm. inversion H; subst s' out; clear H.
    apply orm_update_ok in Hm. destruct Hm as [-> _].
    destruct (sub_units _ _ _ Hbin Hn Hsub) as (_ & _ & Hu' & Hin').
    destruct (dnorm_ok _ (Hin' ltac:(lia))) as [Hnb1 Hnb2].
    destruct (take_iter s owner id retire denom bb needed s1
                (Some {| bb_balance := dnorm nb; bb_start := bb_start bb |}) Hcore Hid Hrow Hn H1)
      as (C & S & F & T).
    { intros r Hr. inversion Hr; subst r. cbn [bb_balance]. split; [exact Hnb1 | lia]. }
    { cbn [row_units bb_balance]. lia. }
    cbn [write_row] in C, S, F, T.
    split; [exact C|]. split; [exact S|]. split; [exact F|].
    pose proof (add_credit_balance_bb _ _ _ _ _ _ H1) as Ebb.
    exists ((denom, needed) :: nil). split; [exact T|]. split; [cbn [total_units snd]; lia|].
    split; [reflexivity|]. split; [constructor; [cbn [snd]; auto | constructor]|].
    exists nil, denom, bb, rest, needed. split; [exact Erows|]. split; [reflexivity|]. split; [lia|].
    right. split; [lia|]. exists {| bb_balance := dnorm nb; bb_start := bb_start bb |}.
    cbn [bb_balance bb_start]. split; [lia|]. split; [reflexivity|].
    rewrite basket_rows_eq. cbn [basket_balances set].
    change (basket_balances (s1 <| basket_balances := ?m |>)) with m. rewrite Ebb.
    apply (rows_update_head _ _ _ bb); [|reflexivity]. rewrite <- basket_rows_eq. exact Erows.
Qed.

(* ------------------------------------------------------------------ *)
(* fuel                                                                *)
(* ------------------------------------------------------------------ *)

Definition no_fuel {A} (r : lres A) : Prop := r <> LErr LFuel.

Lemma lbind_no_fuel {A B} (r : lres A) (f : A -> lres B) :
  no_fuel r -> (forall a, r = LOk a -> no_fuel (f a)) -> no_fuel (lbind r f).
Proof.
  intros Hr Hf. destruct r as [a|e]; cbn; [apply Hf; reflexivity|].
  unfold no_fuel in *. intros H. apply Hr. inversion H. reflexivity.
Qed.

Lemma lift_no_fuel {A} (r : res A) : no_fuel (lift r).
Proof. destruct r; cbn; discriminate. Qed.

Lemma from_option_no_fuel {A} e (o : option A) : e <> LFuel -> no_fuel (from_option e o).
Proof. intros He. destruct o; cbn; [discriminate | congruence]. Qed.

Lemma orm_update_no_fuel {K V} `{Countable K} (k : K) (v : V) m : no_fuel (orm_update k v m).
Proof. unfold orm_update. destruct (m !! k); discriminate. Qed.

Lemma add_credit_balance_no_fuel owner denom amt retire s : no_fuel (add_credit_balance owner denom amt retire s).
Proof.
  unfold add_credit_balance. apply lbind_no_fuel; [apply from_option_no_fuel; discriminate|].
  intros [bkey ba] _. destruct retire.
  - apply lbind_no_fuel.
    + unfold retire_and_save_balance. apply lbind_no_fuel; [apply lift_no_fuel | discriminate].
    + intros s2 _. unfold retire_supply.
      apply lbind_no_fuel; [apply from_option_no_fuel; discriminate|]. intros su _.
      apply lbind_no_fuel; [apply lift_no_fuel|]. intros t _.
      apply lbind_no_fuel; [apply lift_no_fuel|]. intros r _.
      unfold update_supply. apply lbind_no_fuel; [apply orm_update_no_fuel | discriminate].
  - unfold add_and_save_balance. apply lbind_no_fuel; [apply lift_no_fuel | discriminate].
Qed.

(* C11: the release loop never runs out of fuel when given more fuel than the basket has rows *)
Theorem take_loop_fuel_gen owner id retire : forall fuel needed acc s,
  (length (basket_rows s id) < fuel)%nat ->
  take_loop fuel owner id retire needed acc s <> LErr LFuel.
Proof.
  induction fuel as [|fuel IH]; intros needed acc s Hlen; [lia|].
  cbn [take_loop].
  destruct (basket_rows s id) as [|[denom bb] rest] eqn:Erows; [discriminate|].
  pose proof (basket_rows_head _ _ _ _ _ Erows) as Hrow.
  assert (Hrec : forall acc' needed', no_fuel
            (s0 <- add_credit_balance owner denom (bb_balance bb) retire s ;;
             take_loop fuel owner id retire needed' acc'
               (s0 <| basket_balances := delete (id, denom) (basket_balances s0) |>))%lres).
  { intros acc' needed'. apply lbind_no_fuel; [apply add_credit_balance_no_fuel|].
    intros s1 H1. apply IH.
    pose proof (add_credit_balance_bb _ _ _ _ _ _ H1) as Ebb.
    pose proof (basket_rows_length_delete s id denom bb _ Hrow eq_refl) as Hl.
    rewrite Erows in Hl. rewrite basket_rows_eq. cbn [basket_balances set].
    change (basket_balances (s1 <| basket_balances := ?m |>)) with m. rewrite Ebb.
    cbn [length] in Hlen, Hl. lia. }
  destruct (cmp (bb_balance bb) needed).
  - apply lbind_no_fuel; [apply add_credit_balance_no_fuel|]. intros s1 _. discriminate.
  - apply lbind_no_fuel; [apply add_credit_balance_no_fuel|]. intros s1 H1. cbv zeta.
    apply lbind_no_fuel; [apply lift_no_fuel|]. intros needed' _.
    specialize (Hrec (acc ++ (denom, to_string (bb_balance bb)) :: nil)%list needed').
    unfold no_fuel in Hrec. rewrite H1 in Hrec. cbn [lbind] in Hrec. exact Hrec.
  - apply lbind_no_fuel; [apply add_credit_balance_no_fuel|]. intros s1 _.
    apply lbind_no_fuel; [apply lift_no_fuel|]. intros nb _.
    apply lbind_no_fuel; [apply orm_update_no_fuel | discriminate].
Qed.

Theorem take_loop_fuel owner id retire needed acc s :
  take_loop (S (length (basket_rows s id))) owner id retire needed acc s <> LErr LFuel.
Proof. apply take_loop_fuel_gen. lia. Qed.

(* ------------------------------------------------------------------ *)
(* h_take                                                              *)
(* ------------------------------------------------------------------ *)

Lemma take_effect_bank_only_l owner id retire s s1 s' rel :
  bank_only s s1 -> take_effect owner id retire s1 s' rel -> take_effect owner id retire s s' rel.
Proof. intros (bm & bs & ->) H. destruct H. split; assumption. Qed.

Lemma bank_sup_frame_eq s s' y : bank_supply s' = bank_supply s -> bank_sup s' y = bank_sup s y.
Proof. intros H. unfold bank_sup. rewrite H. reflexivity. Qed.

Lemma parse_sdk_int_eq s : parse_sdk_int s = sdk_int_from_string s.
Proof. reflexivity. Qed.

Lemma new_coins1_pos d t cs : 0 < t -> new_coins1 d t = LOk cs -> cs = cons (coin1 d t) nil.
Proof.
  intros Ht. unfold new_coins1. destruct (t <? 0) eqn:E1; [apply Z.ltb_lt in E1; lia|].
  destruct (negb (valid_denom d)); [discriminate|].
  destruct (t =? 0) eqn:E2; [apply Z.eqb_eq in E2; lia|]. intros H; inversion H; reflexivity.
Qed.

Lemma h_take_spec e s owner bd amount retire s' r evs :
  Inv_core s -> (forall t, parse_sdk_int amount = Some t -> 0 < t) ->
  h_take e s owner bd amount retire = LOk (s', r, evs) ->
  exists id k tokens s1 rel,
    basket_by_denom s bd = Some (id, k) /\ parse_sdk_int amount = Some tokens /\ 0 < tokens /\
    bk_disable_auto_retire k || retire = true /\
    bank_only s s1 /\
    (forall x y, bank_bal s1 x y = bank_bal s x y - at_key (owner, bd) (x, y) tokens) /\
    (forall y, bank_sup s1 y = bank_sup s y - at_key bd y tokens) /\
    Inv_core s' /\ step_ok s1 s' /\ move_frame s1 s' /\ take_effect owner id retire s1 s' rel /\
    total_units rel = tokens /\ r = RTake (rendered rel) /\ evs = nil /\
    Forall (fun x => in_ok x.2 /\ 0 < U x.2) rel /\ take_order_of s s' id rel.
Proof.
  intros Hcore Hvb H. unfold h_take in H.
  lstep H as x Hx. destruct x as [id k]. lstep H as cty Hcty. lstep H as u1 Hchk.
  lstep H as tokens Htok. lstep H as coins Hcoins. lstep H as u2 Hle.
  lstep H as s1 Hsend. lstep H as s2 Hburn. lstep H as amt Hamt. lstep H as needed Hq.
  lstep H as res Hloop. destruct res as [s3 credits]. unfold ret in H. inversion H; subst s3 r evs; clear H.
  pose proof (Hvb _ Htok) as Hpos.
  destruct (basket_by_denom_Some _ _ _ _ Hx) as [Hk Hd].
  pose proof Hcore as (Hct & _). rewrite (Hct _ _ Hcty) in Hq.
  apply (new_coins1_pos _ _ _ Hpos) in Hcoins. subst coins.
  apply send_coins1 in Hsend. destruct Hsend as (B1 & _ & _ & Hsup1 & Hbal1).
  apply burn_coins1 in Hburn. destruct Hburn as (B2 & _ & _ & Hbal2 & Hsup2).
  rewrite parse_sdk_int_eq in Htok.
  pose proof (sdk_int_reparse _ _ Hpos (sdk_int_bound _ _ Htok Hpos) Hamt) as ->.
  destruct (quo_exact_units _ _ Hpos Hq) as (Hn1 & Hn2 & Hn3 & Hn4).
  assert (Hnin : in_ok needed) by (split; [lia | split; [congruence | exact Hn3]]).
  pose proof (bank_only_trans _ _ _ B1 B2) as B12.
  pose proof (bank_only_core _ _ B12 Hcore) as Hcore2.
  assert (Hid2 : is_Some (baskets s2 !! id)).
  { destruct (bank_only_fields _ _ B12) as (_ & _ & _ & Ebk & _). rewrite Ebk. eauto. }
  destruct (take_loop_spec _ _ _ _ _ _ _ _ _ Hcore2 Hid2 Hnin ltac:(lia) Hloop)
    as (C & S & F & rel & T & Htot & Hout & Hall & Hord).
  exists id, k, tokens, s2, rel. rewrite Hd in *.
  split; [exact Hx|]. split; [exact Htok|]. split; [exact Hpos|]. split; [exact Hchk|].
  split; [exact B12|]. split.
  { intros x y. rewrite Hbal2, Hbal1. lia. }
  split.
  { intros y. rewrite Hsup2. f_equal. apply bank_sup_frame_eq. exact Hsup1. }
  split; [exact C|]. split; [exact S|]. split; [exact F|]. split; [exact T|].
  split; [lia|]. split; [rewrite Hout; reflexivity|]. split; [reflexivity|]. split; [exact Hall|].
  destruct Hord as (pre & d0 & bb0 & post & x & Hrows & Hrest). exists pre, d0, bb0, post, x.
  split; [|exact Hrest]. rewrite <- Hrows. symmetry. apply basket_rows_frame.
  destruct (bank_only_fields _ _ B12) as (_ & _ & Ebb & _). exact Ebb.
Qed.

Theorem take_core e s owner bd amount retire s' r evs :
  Inv_core s -> (forall t, parse_sdk_int amount = Some t -> 0 < t) ->
  h_take e s owner bd amount retire = LOk (s', r, evs) -> Inv_core s' /\ step_ok s s'.
Proof.
  intros Hcore Hvb H. destruct (h_take_spec _ _ _ _ _ _ _ _ _ Hcore Hvb H)
    as (id & k & tokens & s1 & rel & _ & _ & _ & _ & B & _ & _ & C & S & _).
  split; [exact C|]. eapply step_ok_trans; [apply bank_only_step_ok; exact B | exact S].
Qed.

Theorem take_backing e s owner bd amount retire s' r evs :
  Inv_core s -> Inv_basket s -> (forall t, parse_sdk_int amount = Some t -> 0 < t) ->
  h_take e s owner bd amount retire = LOk (s', r, evs) -> Inv_basket s'.
Proof.
  intros Hcore [Hu Hb] Hvb H. destruct (h_take_spec _ _ _ _ _ _ _ _ _ Hcore Hvb H)
    as (id & k & tokens & s1 & rel & Hx & _ & _ & _ & B & _ & Hsup & _ & _ & F & T & Htot & _).
  destruct (basket_by_denom_Some _ _ _ _ Hx) as [Hk Hd].
  destruct (bank_only_fields _ _ B) as (_ & _ & Ebb & Ebk & _).
  assert (Ebk' : baskets s' = baskets s) by (rewrite (mf_baskets _ _ F); exact Ebk).
  split.
  - unfold basket_denoms_unique. rewrite Ebk'. exact Hu.
  - intros id' k' Hk'. rewrite Ebk' in Hk'.
    rewrite (te_total _ _ _ _ _ _ T), Ebb, Htot.
    rewrite (bank_sup_frame_eq s1 s') by (apply F). rewrite Hsup, (Hb _ _ Hk'). unfold at_key.
    destruct (id' =? id)%N eqn:E.
    + apply N.eqb_eq in E. subst id'. rewrite Hk in Hk'. inversion Hk'; subst k'.
      rewrite decide_True by exact Hd. reflexivity.
    + apply N.eqb_neq in E. rewrite decide_False; [lia|].
      intros Heq. apply E. eapply Hu; [exact Hk' | exact Hk | congruence].
Qed.

(* C05, exactness: Take burns exactly [tokens] from the owner and releases credits worth exactly
   that many units; the response lists the released amounts *)
Theorem take_exact e s owner bd amount retire s' r evs :
  Inv_core s -> (forall t, parse_sdk_int amount = Some t -> 0 < t) ->
  h_take e s owner bd amount retire = LOk (s', r, evs) ->
  exists id k tokens rel,
    basket_by_denom s bd = Some (id, k) /\ parse_sdk_int amount = Some tokens /\
    (forall x y, bank_bal s' x y = bank_bal s x y - at_key (owner, bd) (x, y) tokens) /\
    (forall y, bank_sup s' y = bank_sup s y - at_key bd y tokens) /\
    r = RTake (rendered rel) /\ total_units rel = tokens /\
    Forall (fun x => in_ok x.2 /\ 0 < U x.2) rel /\
    take_effect owner id retire s s' rel /\ take_order_of s s' id rel.
Proof.
  intros Hcore Hvb H. destruct (h_take_spec _ _ _ _ _ _ _ _ _ Hcore Hvb H)
    as (id & k & tokens & s1 & rel & Hx & Htok & _ & _ & B & Hbal & Hsup & _ & _ & F & T & Htot & Hr & _ & Hall & Hord).
  exists id, k, tokens, rel. split; [exact Hx|]. split; [exact Htok|]. split.
  { intros x y. rewrite <- Hbal. unfold bank_bal. rewrite (mf_bank _ _ F). reflexivity. }
  split.
  { intros y. rewrite <- Hsup. apply bank_sup_frame_eq. apply F. }
  split; [exact Hr|]. split; [exact Htot|]. split; [exact Hall|].
  split; [eapply take_effect_bank_only_l; eassumption | exact Hord].
Qed.

(* C11, oldest first *)
Theorem take_order e s owner bd amount retire s' r evs :
  Inv_core s -> (forall t, parse_sdk_int amount = Some t -> 0 < t) ->
  h_take e s owner bd amount retire = LOk (s', r, evs) ->
  exists id k rel, basket_by_denom s bd = Some (id, k) /\ r = RTake (rendered rel) /\
    take_order_of s s' id rel /\
    (forall d, Forall (fun x => x.1 <> d) rel -> basket_balances s' !! (id, d) = basket_balances s !! (id, d)) /\
    (forall id' d, id' <> id -> basket_balances s' !! (id', d) = basket_balances s !! (id', d)).
Proof.
  intros Hcore Hvb H. destruct (take_exact _ _ _ _ _ _ _ _ _ Hcore Hvb H)
    as (id & k & tokens & rel & Hx & _ & _ & _ & Hr & _ & _ & T & Hord).
  exists id, k, rel. split; [exact Hx|]. split; [exact Hr|]. split; [exact Hord|].
  split; [apply (te_unlisted_rows _ _ _ _ _ _ T) | apply (te_other_rows _ _ _ _ _ _ T)].
Qed.

(* the strings in the response parse back to amounts with the same unit counts *)
Lemma rendered_parse rel :
  Forall (fun x => printable x.2 /\ - P <= dexp x.2) rel ->
  Forall2 (fun x y => y.1 = x.1 /\ exists d, parse y.2 = Ok d /\ U d = U x.2) rel (rendered rel).
Proof.
  induction 1 as [|x l [Hp He] _ IH]; cbn [rendered map]; constructor; [|exact IH].
  cbn [fst snd]. split; [reflexivity|]. apply parse_printable; assumption.
Qed.

(* C11: auto-retire.  A basket that does not disable auto-retire only releases retired credits;
   with retire_on_take the owner's tradable balances are untouched, the released units land in the
   retired column, and each batch's supply moves as many units from tradable to retired. *)
Theorem take_autoretire e s owner bd amount retire s' r evs :
  h_take e s owner bd amount retire = LOk (s', r, evs) ->
  exists id k, basket_by_denom s bd = Some (id, k) /\ (bk_disable_auto_retire k = false -> retire = true).
Proof.
  intros H. unfold h_take in H.
  lstep H as x Hx. destruct x as [id k]. lstep H as cty Hcty. lstep H as u1 Hchk.
  exists id, k. split; [exact Hx|]. intros Hd. rewrite Hd in Hchk. exact Hchk.
Qed.

Theorem take_retired_effect owner id s s' rel :
  take_effect owner id true s s' rel ->
  forall bk ba, batches s !! bk = Some ba ->
    bl_tradable (get_balance s' owner bk) = bl_tradable (get_balance s owner bk) /\
    U (bl_retired (get_balance s' owner bk)) = U (bl_retired (get_balance s owner bk)) + units_for (ba_denom ba) rel /\
    forall su, supplies s !! bk = Some su ->
      exists su', supplies s' !! bk = Some su' /\ su_cancelled su' = su_cancelled su /\
        U (su_tradable su') = U (su_tradable su) - units_for (ba_denom ba) rel /\
        U (su_retired su') = U (su_retired su) + units_for (ba_denom ba) rel.
Proof.
  intros T bk ba Hba. destruct (te_owner _ _ _ _ _ _ T bk ba Hba) as (_ & _ & H3 & H4 & _).
  split; [apply H4; reflexivity|]. split; [exact H3|].
  intros su Hsu. exact (te_supply _ _ _ _ _ _ T bk ba su Hba Hsu).
Qed.

(* the amounts printed in the response parse back to the released unit counts *)
Lemma total_units_ge rel : Forall (fun x : bytes * dec => in_ok x.2 /\ 0 < U x.2) rel ->
  Forall (fun x => U x.2 <= total_units rel) rel.
Proof.
  induction 1 as [|x l [_ Hx] Hl IH]; [constructor|]. cbn [total_units]. constructor.
  - assert (0 <= total_units l).
    { clear IH. induction Hl as [|y l' [_ Hy] _ IH']; cbn [total_units]; lia. }
    lia.
  - eapply Forall_impl; [|exact IH]. cbn beta. intros y Hy. lia.
Qed.

Theorem take_response_parses e s owner bd amount retire s' r evs :
  Inv_core s -> (forall t, parse_sdk_int amount = Some t -> 0 < t) ->
  h_take e s owner bd amount retire = LOk (s', r, evs) ->
  exists tokens rel, parse_sdk_int amount = Some tokens /\ r = RTake (rendered rel) /\ total_units rel = tokens /\
    Forall2 (fun x y => y.1 = x.1 /\ exists d, parse y.2 = Ok d /\ U d = U x.2) rel (rendered rel).
Proof.
  intros Hcore Hvb H. destruct (take_exact _ _ _ _ _ _ _ _ _ Hcore Hvb H)
    as (id & k & tokens & rel & _ & Htok & _ & _ & Hr & Htot & Hall & _).
  exists tokens, rel. split; [exact Htok|]. split; [exact Hr|]. split; [exact Htot|].
  apply rendered_parse.
  pose proof (sdk_int_bound _ _ Htok (Hvb _ Htok)) as Hb.
  pose proof (total_units_ge _ Hall) as Hge.
  clear - Hall Hge Hb Htot. rewrite Htot in Hge. clear Htot. revert Hge.
  induction Hall as [|x l [Hin Hp] _ IH]; intros Hge; [constructor|].
  inversion Hge; subst. constructor; [|apply IH; assumption].
  split; [apply printable_of_units; [exact Hin | lia] | apply Hin].
Qed.
