(* C14, stateful half: identifiers are unique, numbered consecutively from 1 per parent, and every
   reference points to an existing row.  [Inv_ids] is preserved by every base-module message.
   Proof file. *)
From stdpp Require Import gmap.
From RecordUpdate Require Import RecordSet.
From Coq Require Import ZArith NArith List Bool Lia Strings.Byte.
Require Import Regen.Base.Bytes Regen.Base.Calendar Regen.Dec.Dec Regen.Ids.Ids Regen.Ids.IdsProps.
Require Import Regen.Ledger.Types Regen.Ledger.Msgs Regen.Ledger.Orm Regen.Ledger.BaseMsgs
               Regen.Ledger.BasketMsgs Regen.Ledger.MarketMsgs Regen.Ledger.Step
               Regen.Ledger.Amount Regen.Ledger.MapSum Regen.Ledger.Inv Regen.Ledger.InvTactics
               Regen.Ledger.InvBaseLib Regen.Ledger.InvBase1 Regen.Ledger.InvBase2 Regen.Ledger.InvBase3
               Regen.Ledger.InvBase Regen.Ledger.InvFrame Regen.Ledger.InvAdmin Regen.Ledger.InvBridgeLib
               Regen.Ledger.InvBridge.
Import ListNotations RecordSetNotations.
Local Open Scope Z_scope.

(* ------------------------------------------------------------------ *)
(* generic: unique secondary key, dominated primary keys, numbered children *)
(* ------------------------------------------------------------------ *)

Section tables.
  Context {V : Type}.

  Definition uniq_by (f : V -> bytes) (m : gmap N V) : Prop :=
    forall k1 k2 v1 v2, m !! k1 = Some v1 -> m !! k2 = Some v2 -> f v1 = f v2 -> k1 = k2.

  Definition keys_le (m : gmap N V) (mx : N) : Prop := forall k, is_Some (m !! k) -> (k <= mx)%N.

  Lemma uniq_set f m k v v' : uniq_by f m -> m !! k = Some v -> f v' = f v -> uniq_by f (<[k := v']> m).
  Proof.
    intros Hu Hk Hf.
    assert (Hold : forall j q, <[k := v']> m !! j = Some q -> exists q0, m !! j = Some q0 /\ f q0 = f q).
    { intros j q Hj. destruct (decide (k = j)) as [Heq|Hne].
      - subst j. rewrite lookup_insert in Hj. inversion Hj; subst q. exists v. split; [exact Hk | congruence].
      - rewrite lookup_insert_ne in Hj by exact Hne. exists q. split; [exact Hj | reflexivity]. }
    intros k1 k2 v1 v2 H1 H2 He.
    destruct (Hold _ _ H1) as (q1 & Hq1 & E1). destruct (Hold _ _ H2) as (q2 & Hq2 & E2).
    eapply Hu; [exact Hq1 | exact Hq2 | congruence].
  Qed.

  Lemma uniq_new f m k v : uniq_by f m -> (forall k0 v0, m !! k0 = Some v0 -> f v0 <> f v) -> uniq_by f (<[k := v]> m).
  Proof.
    intros Hu Hfresh k1 k2 v1 v2 H1 H2 He.
    destruct (decide (k = k1)) as [Heq1|Hne1]; destruct (decide (k = k2)) as [Heq2|Hne2].
    - congruence.
    - subst k1. rewrite lookup_insert in H1. inversion H1; subst v1.
      rewrite lookup_insert_ne in H2 by exact Hne2. exfalso. eapply Hfresh; [exact H2 | congruence].
    - subst k2. rewrite lookup_insert in H2. inversion H2; subst v2.
      rewrite lookup_insert_ne in H1 by exact Hne1. exfalso. eapply Hfresh; [exact H1 | congruence].
    - rewrite lookup_insert_ne in H1 by exact Hne1. rewrite lookup_insert_ne in H2 by exact Hne2.
      eapply Hu; eassumption.
  Qed.

  Lemma keys_le_set m mx k v v' : keys_le m mx -> m !! k = Some v -> keys_le (<[k := v']> m) mx.
  Proof.
    intros Hk Hv j Hj. apply lookup_insert_is_Some' in Hj. destruct Hj as [<-|Hj]; [|apply Hk; exact Hj].
    apply Hk. rewrite Hv. eauto.
  Qed.

  Lemma keys_le_new m mx v : keys_le m mx -> keys_le (<[(mx + 1)%N := v]> m) (mx + 1)%N.
  Proof.
    intros Hk j Hj. apply lookup_insert_is_Some' in Hj. destruct Hj as [<-|Hj]; [lia|]. apply Hk in Hj. lia.
  Qed.

  Lemma keys_le_fresh m mx : keys_le m mx -> m !! (mx + 1)%N = None.
  Proof.
    intros Hk. destruct (m !! (mx + 1)%N) as [x|] eqn:E; [|reflexivity]. exfalso.
    assert (Hle : (mx + 1 <= mx)%N) by (apply Hk; rewrite E; eauto). lia.
  Qed.
End tables.

Section numbering.
  Context {K : Type} `{Countable K} {V : Type}.

  Definition seq_next (sq : gmap K N) (k : K) : N := default 1%N (sq !! k).
  Definition seq_pos (sq : gmap K N) : Prop := forall k n, sq !! k = Some n -> (1 <= n)%N.

  Lemma seq_next_pos sq k : seq_pos sq -> (1 <= seq_next sq k)%N.
  Proof.
    intros Hp. unfold seq_next. destruct (sq !! k) as [n|] eqn:E; cbn; [eapply Hp; exact E | lia].
  Qed.

  Lemma seq_pos_bump sq k : seq_pos sq -> seq_pos (<[k := (seq_next sq k + 1)%N]> sq).
  Proof.
    intros Hp j n Hj. destruct (decide (k = j)) as [Heq|Hne].
    - subst j. rewrite lookup_insert in Hj. inversion Hj. lia.
    - rewrite lookup_insert_ne in Hj by exact Hne. eapply Hp; exact Hj.
  Qed.

  Lemma seq_next_bump_eq sq k : seq_next (<[k := (seq_next sq k + 1)%N]> sq) k = (seq_next sq k + 1)%N.
  Proof. unfold seq_next at 1. rewrite lookup_insert. reflexivity. Qed.

  Lemma seq_next_bump_ne sq k j : k <> j -> seq_next (<[k := (seq_next sq k + 1)%N]> sq) j = seq_next sq j.
  Proof. intros Hne. unfold seq_next at 1 3. rewrite lookup_insert_ne by exact Hne. reflexivity. Qed.

  (* every row carries a number below the next sequence value of its parent [par v], and every
     number below it is carried by some row of that parent: numbering is consecutive from 1 *)
  Definition numbered (par : V -> K) (isid : V -> N -> Prop) (m : gmap N V) (sq : gmap K N) : Prop :=
    (forall k v, m !! k = Some v -> exists n, (1 <= n < seq_next sq (par v))%N /\ isid v n) /\
    (forall pk n, (1 <= n < seq_next sq pk)%N -> exists k v, m !! k = Some v /\ par v = pk /\ isid v n).

  Lemma numbered_mono par (isid isid' : V -> N -> Prop) m sq :
    (forall k v n, m !! k = Some v -> isid v n -> isid' v n) -> numbered par isid m sq -> numbered par isid' m sq.
  Proof.
    intros Himp [Ha Hb]. split.
    - intros k v Hk. destruct (Ha _ _ Hk) as (n & Hn & Hi). exists n. split; [exact Hn | eapply Himp; eassumption].
    - intros pk n Hn. destruct (Hb _ _ Hn) as (k & v & Hk & Hp & Hi). exists k, v.
      split; [exact Hk|]. split; [exact Hp | eapply Himp; eassumption].
  Qed.

  Lemma numbered_set par isid m sq k v v' :
    numbered par isid m sq -> m !! k = Some v -> par v' = par v -> (forall n, isid v n -> isid v' n) ->
    numbered par isid (<[k := v']> m) sq.
  Proof.
    intros [Ha Hb] Hk Hp Hi. split.
    - intros j q Hj. destruct (decide (k = j)) as [Heq|Hne].
      + subst j. rewrite lookup_insert in Hj. inversion Hj; subst q.
        destruct (Ha _ _ Hk) as (n & Hn & Hin). exists n. rewrite Hp. split; [exact Hn | apply Hi; exact Hin].
      + rewrite lookup_insert_ne in Hj by exact Hne. apply (Ha _ _ Hj).
    - intros pk n Hn. destruct (Hb _ _ Hn) as (j & q & Hj & Hpq & Hiq).
      destruct (decide (k = j)) as [Heq|Hne].
      + subst j. rewrite Hk in Hj. inversion Hj; subst q. exists k, v'. rewrite lookup_insert.
        split; [reflexivity|]. split; [congruence | apply Hi; exact Hiq].
      + exists j, q. rewrite lookup_insert_ne by exact Hne. auto.
  Qed.

  Lemma numbered_new par isid m sq k v :
    numbered par isid m sq -> seq_pos sq -> m !! k = None -> isid v (seq_next sq (par v)) ->
    numbered par isid (<[k := v]> m) (<[par v := (seq_next sq (par v) + 1)%N]> sq).
  Proof.
    intros [Ha Hb] Hpos Hk Hi. pose proof (seq_next_pos sq (par v) Hpos) as Hge. split.
    - intros j q Hj. destruct (decide (k = j)) as [Heq|Hne].
      + subst j. rewrite lookup_insert in Hj. inversion Hj; subst q.
        exists (seq_next sq (par v)). rewrite seq_next_bump_eq. split; [lia | exact Hi].
      + rewrite lookup_insert_ne in Hj by exact Hne. destruct (Ha _ _ Hj) as (n & Hn & Hin).
        exists n. split; [|exact Hin].
        destruct (decide (par v = par q)) as [Hpe|Hpn].
        * rewrite <- Hpe, seq_next_bump_eq. rewrite <- Hpe in Hn. lia.
        * rewrite seq_next_bump_ne by exact Hpn. exact Hn.
    - intros pk n Hn. destruct (decide (par v = pk)) as [Hpe|Hpn].
      + subst pk. rewrite seq_next_bump_eq in Hn.
        destruct (decide (n = seq_next sq (par v))) as [Hne|Hlt].
        * subst n. exists k, v. rewrite lookup_insert. auto.
        * assert (Hn' : (1 <= n < seq_next sq (par v))%N) by lia.
          destruct (Hb _ _ Hn') as (j & q & Hj & Hpq & Hiq). exists j, q.
          split; [|auto]. rewrite lookup_insert_ne; [exact Hj|]. intros <-. congruence.
      + rewrite seq_next_bump_ne in Hn by exact Hpn.
        destruct (Hb _ _ Hn) as (j & q & Hj & Hpq & Hiq). exists j, q.
        split; [|auto]. rewrite lookup_insert_ne; [exact Hj|]. intros <-. congruence.
  Qed.
End numbering.

(* ------------------------------------------------------------------ *)
(* the invariant                                                       *)
(* ------------------------------------------------------------------ *)

Definition cl_isid (c : class) (n : N) : Prop := cl_id c = format_class_id (cl_ct c) n.
Definition pj_isid (cls : gmap N class) (p : project) (n : N) : Prop :=
  exists cl, cls !! pj_class_key p = Some cl /\ pj_id p = format_project_id (cl_id cl) n.
Definition ba_isid (pjs : gmap N project) (b : batch) (n : N) : Prop :=
  exists pj, pjs !! ba_project_key b = Some pj /\
             ba_denom b = format_batch_denom (pj_id pj) n (ba_start b) (ba_end b).

(* classes: ids unique; id = format_class_id (credit type) n, numbered consecutively per credit type
   below class_sequences; the credit type exists; credit type abbreviations are valid *)
Definition G_class (cts : gmap bytes credit_type) (cls : gmap N class) (cseq : gmap bytes N) (cmax : N) : Prop :=
  uniq_by cl_id cls /\ numbered cl_ct cl_isid cls cseq /\ keys_le cls cmax /\ seq_pos cseq /\
  (forall k c, cls !! k = Some c -> is_Some (cts !! cl_ct c)) /\
  (forall ct, is_Some (cts !! ct) -> validate_credit_type_abbrev ct = true).

(* projects: ids unique; id = format_project_id (id of its class) n, numbered per class *)
Definition G_proj (cls : gmap N class) (pjs : gmap N project) (pseq : gmap N N) (pmax : N) : Prop :=
  uniq_by pj_id pjs /\ numbered pj_class_key (pj_isid cls) pjs pseq /\ keys_le pjs pmax /\ seq_pos pseq.

(* batches: denoms unique; denom = format_batch_denom (id of its project) n start end, numbered per project *)
Definition G_batch (pjs : gmap N project) (bas : gmap N batch) (bseq : gmap N N) (bmax : N) : Prop :=
  uniq_by ba_denom bas /\ numbered ba_project_key (ba_isid pjs) bas bseq /\ keys_le bas bmax /\ seq_pos bseq.

(* remaining references: issuers and bound contracts name existing rows *)
Definition G_refs (cls : gmap N class) (bas : gmap N batch) (iss : gset (N * addr)) (bcs : gmap N batch_contract) : Prop :=
  (forall ck a, (ck, a) ∈ iss -> is_Some (cls !! ck)) /\
  (forall k c, bcs !! k = Some c -> is_Some (bas !! k) /\ is_Some (cls !! bc_class_key c)).

Definition Inv_ids (s : state) : Prop :=
  G_class (credit_types s) (classes s) (class_sequences s) (class_seq_id s) /\
  G_proj (classes s) (projects s) (project_sequences s) (project_seq_id s) /\
  G_batch (projects s) (batches s) (batch_sequences s) (batch_seq_id s) /\
  G_refs (classes s) (batches s) (class_issuers s) (batch_contracts s).

(* referential integrity, spelled out *)
Definition Inv_refs (s : state) : Prop :=
  (forall k b, batches s !! k = Some b -> is_Some (projects s !! ba_project_key b)) /\
  (forall k p, projects s !! k = Some p -> is_Some (classes s !! pj_class_key p)) /\
  (forall k c, classes s !! k = Some c -> is_Some (credit_types s !! cl_ct c)) /\
  (forall ck a, (ck, a) ∈ class_issuers s -> is_Some (classes s !! ck)) /\
  (forall k c, batch_contracts s !! k = Some c -> is_Some (batches s !! k) /\ is_Some (classes s !! bc_class_key c)).

Lemma Inv_ids_refs s : Inv_ids s -> Inv_refs s.
Proof.
  intros ((_ & _ & _ & _ & Hct & _) & (_ & [Hp _] & _) & (_ & [Hb _] & _) & (Hi & Hc)).
  split; [|split; [|split; [exact Hct | split; [exact Hi | exact Hc]]]].
  - intros k b Hk. destruct (Hb _ _ Hk) as (n & _ & pj & Hpj & _). rewrite Hpj. eauto.
  - intros k p Hk. destruct (Hp _ _ Hk) as (n & _ & cl & Hcl & _). rewrite Hcl. eauto.
Qed.

(* the well-formedness the query proofs assume (Query/QueriesProps.v, ids_wf and class_ids_unique) *)
Definition ids_wf_form (s : state) : Prop :=
  (forall k c, classes s !! k = Some c -> validate_class_id (cl_id c) = true) /\
  (forall k p, projects s !! k = Some p ->
     exists c n, classes s !! pj_class_key p = Some c /\ pj_id p = format_project_id (cl_id c) n) /\
  (forall k b, batches s !! k = Some b ->
     exists p n st en, projects s !! ba_project_key b = Some p /\ ba_denom b = format_batch_denom (pj_id p) n st en).

Lemma Inv_ids_wf s : Inv_ids s -> ids_wf_form s.
Proof.
  intros ((_ & [Hc _] & _ & _ & Hct & Hval) & (_ & [Hp _] & _) & (_ & [Hb _] & _) & _).
  split; [|split].
  - intros k c Hk. destruct (Hc _ _ Hk) as (n & _ & Hid). unfold cl_isid in Hid. rewrite Hid.
    apply validate_class_id_spec, format_class_id_is_class_id, validate_abbrev_spec, Hval.
    eapply Hct; exact Hk.
  - intros k p Hk. destruct (Hp _ _ Hk) as (n & _ & cl & Hcl & Hid). exists cl, n. auto.
  - intros k b Hk. destruct (Hb _ _ Hk) as (n & _ & pj & Hpj & Hid). exists pj, n, (ba_start b), (ba_end b). auto.
Qed.

Lemma Inv_ids_unique s : Inv_ids s ->
  uniq_by cl_id (classes s) /\ uniq_by pj_id (projects s) /\ uniq_by ba_denom (batches s).
Proof. intros ((H1 & _) & (H2 & _) & (H3 & _) & _). auto. Qed.

Lemma Inv_ids_class_unique s : Inv_ids s ->
  forall k1 k2 c1 c2, classes s !! k1 = Some c1 -> classes s !! k2 = Some c2 -> cl_id c1 = cl_id c2 -> k1 = k2.
Proof. intros H. exact (proj1 (Inv_ids_unique s H)). Qed.

(* ------------------------------------------------------------------ *)
(* monotonicity in the parent tables                                   *)
(* ------------------------------------------------------------------ *)

Definition cls_ext (cls cls' : gmap N class) : Prop :=
  forall k c, cls !! k = Some c -> exists c', cls' !! k = Some c' /\ cl_id c' = cl_id c.
Definition prj_ext (pjs pjs' : gmap N project) : Prop :=
  forall k p, pjs !! k = Some p -> exists p', pjs' !! k = Some p' /\ pj_id p' = pj_id p.
Definition bat_ext (bas bas' : gmap N batch) : Prop := forall k, is_Some (bas !! k) -> is_Some (bas' !! k).

Lemma ext_set {V} (f : V -> bytes) (m : gmap N V) k v v' :
  m !! k = Some v -> f v' = f v ->
  forall j q, m !! j = Some q -> exists q', <[k := v']> m !! j = Some q' /\ f q' = f q.
Proof.
  intros Hk Hf j q Hj. destruct (decide (k = j)) as [Heq|Hne].
  - subst j. rewrite Hk in Hj. inversion Hj; subst q. exists v'. rewrite lookup_insert. auto.
  - exists q. rewrite lookup_insert_ne by exact Hne. auto.
Qed.

Lemma ext_new {V} (f : V -> bytes) (m : gmap N V) k v :
  m !! k = None -> forall j q, m !! j = Some q -> exists q', <[k := v]> m !! j = Some q' /\ f q' = f q.
Proof.
  intros Hk j q Hj. exists q. split; [|reflexivity]. rewrite lookup_insert_ne; [exact Hj|]. intros <-. congruence.
Qed.

Lemma G_proj_cls_ext cls cls' pjs pseq pmax : cls_ext cls cls' -> G_proj cls pjs pseq pmax -> G_proj cls' pjs pseq pmax.
Proof.
  intros He (H1 & H2 & H3 & H4). split; [exact H1|]. split; [|exact (conj H3 H4)].
  eapply numbered_mono; [|exact H2]. intros k v n _ (cl & Hcl & Hid).
  destruct (He _ _ Hcl) as (cl' & Hcl' & Hide). exists cl'. split; [exact Hcl' | congruence].
Qed.

Lemma G_batch_prj_ext pjs pjs' bas bseq bmax : prj_ext pjs pjs' -> G_batch pjs bas bseq bmax -> G_batch pjs' bas bseq bmax.
Proof.
  intros He (H1 & H2 & H3 & H4). split; [exact H1|]. split; [|exact (conj H3 H4)].
  eapply numbered_mono; [|exact H2]. intros k v n _ (pj & Hpj & Hid).
  destruct (He _ _ Hpj) as (pj' & Hpj' & Hide). exists pj'. split; [exact Hpj' | congruence].
Qed.

Lemma G_refs_ext cls cls' bas bas' iss bcs :
  cls_ext cls cls' -> bat_ext bas bas' -> G_refs cls bas iss bcs -> G_refs cls' bas' iss bcs.
Proof.
  intros Hc Hb [H1 H2].
  assert (Hs : forall k, is_Some (cls !! k) -> is_Some (cls' !! k)).
  { intros k [c Hk]. destruct (Hc _ _ Hk) as (c' & Hk' & _). rewrite Hk'. eauto. }
  split.
  - intros ck a Hin. apply Hs. eapply H1; exact Hin.
  - intros k c Hk. destruct (H2 _ _ Hk) as [A B]. split; [apply Hb; exact A | apply Hs; exact B].
Qed.

Lemma cls_ext_refl cls : cls_ext cls cls.
Proof. intros k c Hk. exists c. auto. Qed.
Lemma bat_ext_refl bas : bat_ext bas bas.
Proof. intros k Hk. exact Hk. Qed.

(* ------------------------------------------------------------------ *)
(* the state-level steps                                               *)
(* ------------------------------------------------------------------ *)

(* the tables Inv_ids reads *)
Definition itab (s : state) :=
  (credit_types s, classes s, class_sequences s, class_seq_id s, projects s, project_sequences s,
   project_seq_id s, batches s, batch_sequences s, batch_seq_id s, class_issuers s, batch_contracts s).

Lemma ids_itab s s' : itab s' = itab s -> Inv_ids s -> Inv_ids s'.
Proof.
  unfold itab. intros H. injection H as E1 E2 E3 E4 E5 E6 E7 E8 E9 E10 E11 E12.
  unfold Inv_ids. rewrite E1, E2, E3, E4, E5, E6, E7, E8, E9, E10, E11, E12. auto.
Qed.

Lemma nonbank_itab s s' : nonbank_eq s s' -> itab s' = itab s.
Proof. unfold nonbank_eq, nonbank. intros H. injection H. intros. unfold itab. congruence. Qed.

Lemma rest_itab s s' : rest_eq s s' -> itab s' = itab s.
Proof. intros H. unfold rest_eq in H. rewrite H. reflexivity. Qed.

(* one class row rewritten, keeping id and credit type *)
Lemma ids_set_class s k c c' :
  classes s !! k = Some c -> cl_id c' = cl_id c -> cl_ct c' = cl_ct c ->
  Inv_ids s -> Inv_ids (set_class k c' s).
Proof.
  intros Hk Hid Hct ((A1 & A2 & A3 & A4 & A5 & A6) & HP & HB & HR).
  assert (Hext : cls_ext (classes s) (<[k := c']> (classes s))) by (unfold cls_ext; eapply (ext_set cl_id); eassumption).
  unfold Inv_ids. change (classes (set_class k c' s)) with (<[k := c']> (classes s)).
  split; [|split; [|split]].
  - split; [eapply uniq_set; eassumption|]. split; [|split; [eapply keys_le_set; eassumption|split; [exact A4|split; [|exact A6]]]].
    + eapply numbered_set; [exact A2 | exact Hk | exact Hct|]. unfold cl_isid. intros n Hn. congruence.
    + intros j q Hj. destruct (decide (k = j)) as [Heq|Hne].
      * subst j. rewrite lookup_insert in Hj. inversion Hj; subst q. rewrite Hct. eapply A5; exact Hk.
      * rewrite lookup_insert_ne in Hj by exact Hne. eapply A5; exact Hj.
  - eapply G_proj_cls_ext; [exact Hext | exact HP].
  - exact HB.
  - eapply G_refs_ext; [exact Hext | apply bat_ext_refl | exact HR].
Qed.

(* one project row rewritten, keeping id and class *)
Lemma ids_set_project s k p p' :
  projects s !! k = Some p -> pj_id p' = pj_id p -> pj_class_key p' = pj_class_key p ->
  Inv_ids s -> Inv_ids (set_project k p' s).
Proof.
  intros Hk Hid Hck (HC & (B1 & B2 & B3 & B4) & HB & HR).
  assert (Hext : prj_ext (projects s) (<[k := p']> (projects s))) by (unfold prj_ext; eapply (ext_set pj_id); eassumption).
  unfold Inv_ids. change (projects (set_project k p' s)) with (<[k := p']> (projects s)).
  split; [exact HC|]. split; [|split; [|exact HR]].
  - split; [eapply uniq_set; eassumption|]. split; [|split; [eapply keys_le_set; eassumption | exact B4]].
    eapply numbered_set; [exact B2 | exact Hk | exact Hck|].
    intros n (cl & Hcl & Hn). exists cl. rewrite Hck, Hid. auto.
  - eapply G_batch_prj_ext; [exact Hext | exact HB].
Qed.

(* one batch row rewritten, keeping denom, project and dates *)
Lemma ids_set_batch s k b b' :
  batches s !! k = Some b -> ba_denom b' = ba_denom b -> ba_project_key b' = ba_project_key b ->
  ba_start b' = ba_start b -> ba_end b' = ba_end b ->
  Inv_ids s -> Inv_ids (set_batch k b' s).
Proof.
  intros Hk Hd Hpk Hs He (HC & HP & (B1 & B2 & B3 & B4) & HR).
  unfold Inv_ids. change (batches (set_batch k b' s)) with (<[k := b']> (batches s)).
  split; [exact HC|]. split; [exact HP|]. split.
  - split; [eapply uniq_set; eassumption|]. split; [|split; [eapply keys_le_set; eassumption | exact B4]].
    eapply numbered_set; [exact B2 | exact Hk | exact Hpk|].
    intros n (pj & Hpj & Hn). exists pj. rewrite Hpk, Hd, Hs, He. auto.
  - eapply G_refs_ext; [apply cls_ext_refl | | exact HR].
    intros j Hj. apply lookup_insert_is_Some'. right. exact Hj.
Qed.

(* issuers replaced by a set naming existing classes only *)
Lemma ids_class_issuers s X :
  (forall ck a, (ck, a) ∈ X -> is_Some (classes s !! ck)) -> Inv_ids s -> Inv_ids (s <| class_issuers := X |>).
Proof.
  intros HX (HC & HP & HB & [R1 R2]). unfold Inv_ids. split; [exact HC|]. split; [exact HP|]. split; [exact HB|].
  split; [exact HX | exact R2].
Qed.

(* a credit type added under a valid abbreviation *)
Lemma ids_add_credit_type s a x :
  validate_credit_type_abbrev a = true -> Inv_ids s -> Inv_ids (s <| credit_types := <[a := x]> (credit_types s) |>).
Proof.
  intros Hv ((A1 & A2 & A3 & A4 & A5 & A6) & HP & HB & HR). unfold Inv_ids.
  change (credit_types (s <| credit_types := <[a := x]> (credit_types s) |>)) with (<[a := x]> (credit_types s)).
  split; [|split; [exact HP|split; [exact HB | exact HR]]].
  split; [exact A1|]. split; [exact A2|]. split; [exact A3|]. split; [exact A4|]. split.
  - intros k c Hk. apply lookup_insert_is_Some'. right. eapply A5; exact Hk.
  - intros ct Hct. apply lookup_insert_is_Some' in Hct. destruct Hct as [<-|Hct]; [exact Hv | apply A6; exact Hct].
Qed.

(* a new class under the next key, with the next number of its credit type *)
Lemma ids_new_class s ct c X :
  is_Some (credit_types s !! ct) -> cl_ct c = ct ->
  cl_id c = format_class_id ct (seq_next (class_sequences s) ct) ->
  (forall k0 c0, classes s !! k0 = Some c0 -> cl_id c0 <> cl_id c) ->
  (forall ck a, (ck, a) ∈ X -> (ck, a) ∈ class_issuers s \/ ck = (class_seq_id s + 1)%N) ->
  Inv_ids s ->
  Inv_ids (s <| class_sequences := <[ct := (seq_next (class_sequences s) ct + 1)%N]> (class_sequences s) |>
             <| classes := <[(class_seq_id s + 1)%N := c]> (classes s) |>
             <| class_seq_id := (class_seq_id s + 1)%N |>
             <| class_issuers := X |>).
Proof.
  intros Hcts Hct Hid Hfresh HX ((A1 & A2 & A3 & A4 & A5 & A6) & HP & HB & [R1 R2]).
  pose proof (keys_le_fresh _ _ A3) as Hnone.
  assert (Hext : cls_ext (classes s) (<[(class_seq_id s + 1)%N := c]> (classes s))) by (unfold cls_ext; apply (ext_new cl_id); exact Hnone).
  unfold Inv_ids. cbn.
  split; [|split; [|split]].
  - split; [apply uniq_new; assumption|]. split; [|split; [apply keys_le_new; exact A3|split; [|split; [|exact A6]]]].
    + rewrite <- Hct. apply numbered_new; [exact A2 | exact A4 | exact Hnone|]. unfold cl_isid. rewrite Hid, Hct. reflexivity.
    + apply seq_pos_bump. exact A4.
    + intros j q Hj. destruct (decide ((class_seq_id s + 1)%N = j)) as [Heq|Hne].
      * subst j. rewrite lookup_insert in Hj. inversion Hj; subst q. rewrite Hct. exact Hcts.
      * rewrite lookup_insert_ne in Hj by exact Hne. eapply A5; exact Hj.
  - eapply G_proj_cls_ext; [exact Hext | exact HP].
  - exact HB.
  - destruct (G_refs_ext _ _ _ _ _ _ Hext (bat_ext_refl _) (conj R1 R2)) as [R1' R2'].
    split; [|exact R2']. intros ck a Hin. destruct (HX _ _ Hin) as [Hold| ->].
    + eapply R1'; exact Hold.
    + rewrite lookup_insert. eauto.
Qed.

(* a new project under the next key, with the next number of its class *)
Lemma ids_new_project s ck cl p :
  classes s !! ck = Some cl -> pj_class_key p = ck ->
  pj_id p = format_project_id (cl_id cl) (seq_next (project_sequences s) ck) ->
  (forall k0 p0, projects s !! k0 = Some p0 -> pj_id p0 <> pj_id p) ->
  Inv_ids s ->
  Inv_ids (s <| project_sequences := <[ck := (seq_next (project_sequences s) ck + 1)%N]> (project_sequences s) |>
             <| projects := <[(project_seq_id s + 1)%N := p]> (projects s) |>
             <| project_seq_id := (project_seq_id s + 1)%N |>).
Proof.
  intros Hcl Hck Hid Hfresh (HC & (B1 & B2 & B3 & B4) & HB & HR).
  pose proof (keys_le_fresh _ _ B3) as Hnone.
  assert (Hext : prj_ext (projects s) (<[(project_seq_id s + 1)%N := p]> (projects s))) by (unfold prj_ext; apply (ext_new pj_id); exact Hnone).
  unfold Inv_ids. cbn.
  split; [exact HC|]. split; [|split; [|exact HR]].
  - split; [apply uniq_new; assumption|]. split; [|split; [apply keys_le_new; exact B3 | apply seq_pos_bump; exact B4]].
    rewrite <- Hck. apply numbered_new; [exact B2 | exact B4 | exact Hnone|].
    exists cl. rewrite Hck. auto.
  - eapply G_batch_prj_ext; [exact Hext | exact HB].
Qed.

(* CreateBatch's tables *)
Lemma ids_create_batch e s issuer pk pj cl metadata sd ed open otx :
  projects s !! pk = Some pj -> classes s !! pj_class_key pj = Some cl ->
  (forall k b, batches s !! k = Some b ->
     ba_denom b <> ba_denom (new_batch e issuer pk pj (default 1%N (batch_sequences s !! pk)) metadata sd ed open)) ->
  Inv_ids s -> Inv_ids (cb_tables e s issuer pk pj metadata sd ed open otx).
Proof.
  intros Hpk Hcl Hfresh (HC & HP & (B1 & B2 & B3 & B4) & [R1 R2]).
  pose proof (keys_le_fresh _ _ B3) as Hnone.
  set (ba := new_batch e issuer pk pj (default 1%N (batch_sequences s !! pk)) metadata sd ed open) in *.
  set (bk := (batch_seq_id s + 1)%N) in *.
  set (t := cb_tables e s issuer pk pj metadata sd ed open otx).
  assert (T0 : credit_types t = credit_types s /\ classes t = classes s /\ class_sequences t = class_sequences s /\
               class_seq_id t = class_seq_id s /\ projects t = projects s /\ project_sequences t = project_sequences s /\
               project_seq_id t = project_seq_id s /\ class_issuers t = class_issuers s) by (repeat split).
  destruct T0 as (T01 & T02 & T03 & T04 & T05 & T06 & T07 & T08).
  assert (T1 : batches t = <[bk := ba]> (batches s)) by reflexivity.
  assert (T2 : batch_seq_id t = bk) by reflexivity.
  assert (T3 : batch_sequences t = <[pk := (seq_next (batch_sequences s) pk + 1)%N]> (batch_sequences s)) by reflexivity.
  assert (T5 : batch_contracts t = cb_contracts (pj_class_key pj) bk otx s) by reflexivity.
  clearbody t. unfold Inv_ids. rewrite T01, T02, T03, T04, T05, T06, T07, T08, T1, T2, T3, T5.
  split; [exact HC|]. split; [exact HP|]. split.
  - split; [apply uniq_new; assumption|]. split; [|split; [apply keys_le_new; exact B3 | apply seq_pos_bump; exact B4]].
    change pk with (ba_project_key ba) at 1 2.
    apply numbered_new; [exact B2 | exact B4 | exact Hnone|].
    exists pj. split; [exact Hpk | reflexivity].
  - assert (Hbe : bat_ext (batches s) (<[bk := ba]> (batches s))).
    { intros j Hj. apply lookup_insert_is_Some'. right. exact Hj. }
    destruct (G_refs_ext _ _ _ _ _ _ (cls_ext_refl _) Hbe (conj R1 R2)) as [R1' R2'].
    split; [exact R1'|]. unfold cb_contracts. destruct otx as [o|]; [|exact R2'].
    destruct (ot_contract o) as [|c0 cs]; [exact R2'|].
    intros k c Hk. destruct (decide (bk = k)) as [Heq|Hne].
    + subst k. rewrite lookup_insert in Hk. inversion Hk; subst c. cbn [bc_class_key].
      rewrite lookup_insert, Hcl. eauto.
    + rewrite lookup_insert_ne in Hk by exact Hne. apply R2'. exact Hk.
Qed.

(* ------------------------------------------------------------------ *)
(* shapes of the remaining administrative handlers                     *)
(* ------------------------------------------------------------------ *)

Lemma insert_issuers_shape k l : forall s s', insert_issuers k l s = LOk s' ->
  exists X, s' = s <| class_issuers := X |> /\
            forall ck a, (ck, a) ∈ X -> (ck, a) ∈ class_issuers s \/ ck = k.
Proof.
  induction l as [|a l IH]; cbn [insert_issuers]; intros s s' H.
  - inversion H; subst s'. exists (class_issuers s). split; [destruct s; reflexivity | auto].
  - destruct (bool_decide _); [discriminate|]. apply IH in H. destruct H as (X & -> & HX).
    exists X. split; [reflexivity|]. intros ck b Hin. destruct (HX _ _ Hin) as [Hold|Heq]; [|auto].
    cbn in Hold. apply elem_of_union in Hold. destruct Hold as [Hs|Hs]; [|auto].
    apply elem_of_singleton in Hs. inversion Hs. auto.
Qed.

Lemma fold_remove_issuers_shape k l : forall s,
  exists X, fold_left (fun s a => s <| class_issuers := class_issuers s ∖ {[ (k, a) ]} |>) l s = s <| class_issuers := X |> /\
            X ⊆ class_issuers s.
Proof.
  induction l as [|a l IH]; cbn [fold_left]; intros s.
  - exists (class_issuers s). split; [destruct s; reflexivity | reflexivity].
  - destruct (IH (s <| class_issuers := class_issuers s ∖ {[ (k, a) ]} |>)) as (X & -> & HX).
    exists X. split; [reflexivity|]. cbn in HX. etransitivity; [exact HX|]. apply subseteq_difference_l. reflexivity.
Qed.

Lemma class_by_id_Some s id k c : class_by_id s id = Some (k, c) -> classes s !! k = Some c /\ cl_id c = id.
Proof.
  unfold class_by_id. intros H. apply map_find_Some in H. destruct H as [H1 H2].
  split; [exact H1 | apply bytes_eqb_eq; exact H2].
Qed.

(* ------------------------------------------------------------------ *)
(* preservation                                                        *)
(* ------------------------------------------------------------------ *)

Lemma ids_create_project_step e s admin class_id metadata jurisdiction reference_id s' r evs :
  Inv_ids s -> h_create_project e s admin class_id metadata jurisdiction reference_id = LOk (s', r, evs) -> Inv_ids s'.
Proof.
  intros Hinv H. apply h_create_project_shape in H.
  destruct H as (ck & cl & Hc & _ & Hfresh & -> & _ & _). cbv zeta in Hfresh.
  apply class_by_id_Some in Hc. destruct Hc as [Hcl _].
  apply (ids_new_project s ck cl); [exact Hcl | reflexivity | reflexivity | exact Hfresh | exact Hinv].
Qed.

Lemma ids_create_batch_step e s issuer pid iss metadata start_ end_ open otx s' r evs :
  Inv_ids s -> h_create_batch e s issuer pid iss metadata start_ end_ open otx = LOk (s', r, evs) -> Inv_ids s'.
Proof.
  intros Hinv H. apply h_create_batch_shape in H.
  destruct H as (pk & pj & cl & sd & ed & Hp & Hcl & _ & _ & _ & Hfresh & _ & Hrest & _ & _).
  cbv zeta in Hfresh. apply project_by_id_Some in Hp. destruct Hp as [Hpk _].
  eapply ids_itab; [apply rest_itab; exact Hrest|].
  eapply ids_create_batch; eassumption.
Qed.

Lemma ids_mint_step e s issuer denom iss otx s' r evs :
  Inv_ids s -> h_mint_batch_credits e s issuer denom iss otx = LOk (s', r, evs) -> Inv_ids s'.
Proof.
  intros Hinv H. apply h_mint_batch_credits_shape in H.
  destruct H as (bk & ba & pj & o & _ & _ & _ & _ & _ & _ & Hrest & _ & _).
  eapply ids_itab; [apply rest_itab; exact Hrest|]. exact Hinv.
Qed.

Theorem base_preserves_ids e s m s' r evs :
  is_base_module_msg m = true -> Inv_ids s -> validate_basic m = true ->
  handle e s m = LOk (s', r, evs) -> Inv_ids s'.
Proof.
  intros Hm Hinv Hvb H. destruct m; try discriminate Hm; cbn [handle] in H.
  - (* CreateClass *)
    unfold h_create_class in H.
    lstep H as u1 H1. lstep H as s1 Hs1. lstep H as ctv H2. cbv zeta in H. lstep H as u2 H3. lstep H as s2 Hs2.
    unfold ret in H. inversion H; subst s' r evs; clear H.
    apply charge_fee_nonbank in Hs1. apply nonbank_itab in Hs1.
    pose proof (ids_itab _ _ Hs1 Hinv) as Hinv1.
    apply insert_issuers_shape in Hs2. destruct Hs2 as (X & -> & HX).
    apply negb_true_iff in H3.
    apply (ids_new_class s1 ct _ X); [rewrite H2; eauto | reflexivity | reflexivity | | exact HX | exact Hinv1].
    intros k0 c0 Hk0 Heq. pose proof (map_exists_false _ _ H3 k0 c0 Hk0) as Hf. cbn beta in Hf.
    cbn [cl_id] in Heq.
    assert (Ht : bytes_eqb (cl_id c0) (format_class_id ct (default 1%N (class_sequences s1 !! ct))) = true)
      by (apply bytes_eqb_eq; exact Heq).
    rewrite Ht in Hf. discriminate.
  - (* CreateProject *)
    eapply ids_create_project_step; eassumption.
  - (* CreateBatch *)
    eapply ids_create_batch_step; eassumption.
  - (* MintBatchCredits *)
    eapply ids_mint_step; eassumption.
  - (* SealBatch *)
    apply h_seal_batch_shape in H. destruct H as [->|(bk & ba & Hba & ->)]; [exact Hinv|].
    eapply ids_set_batch; [exact Hba | reflexivity | reflexivity | reflexivity | reflexivity | exact Hinv].
  - (* Send *)
    apply h_send_rest in H. eapply ids_itab; [apply rest_itab; exact H | exact Hinv].
  - apply h_retire_rest in H. eapply ids_itab; [apply rest_itab; exact H | exact Hinv].
  - apply h_cancel_rest in H. eapply ids_itab; [apply rest_itab; exact H | exact Hinv].
  - (* UpdateClassAdmin *)
    unfold h_update_class_admin in H. lstep H as p1 H1. destruct p1 as [k c]. lstep H as u1 H2.
    unfold ret in H. inversion H; subst s' r evs; clear H.
    apply class_by_id_Some in H1. destruct H1 as [Hk _].
    eapply ids_set_class; [exact Hk | reflexivity | reflexivity | exact Hinv].
  - (* UpdateClassIssuers *)
    unfold h_update_class_issuers in H. lstep H as p1 H1. destruct p1 as [k c]. lstep H as u1 H2. lstep H as s2 Hs2.
    unfold ret in H. inversion H; subst s' r evs; clear H.
    apply class_by_id_Some in H1. destruct H1 as [Hk _].
    destruct (fold_remove_issuers_shape k remove s) as (Y & HY & HYs). rewrite HY in Hs2.
    apply insert_issuers_shape in Hs2. destruct Hs2 as (X & -> & HX).
    apply (ids_class_issuers s X); [|exact Hinv].
    intros ck a Hin. destruct (HX _ _ Hin) as [Hold| ->]; [|rewrite Hk; eauto].
    cbn in Hold. apply HYs in Hold. destruct Hinv as (_ & _ & _ & [R1 _]). eapply R1; exact Hold.
  - (* UpdateClassMetadata *)
    unfold h_update_class_metadata in H. lstep H as p1 H1. destruct p1 as [k c]. lstep H as u1 H2.
    unfold ret in H. inversion H; subst s' r evs; clear H.
    apply class_by_id_Some in H1. destruct H1 as [Hk _].
    eapply ids_set_class; [exact Hk | reflexivity | reflexivity | exact Hinv].
  - (* UpdateProjectAdmin *)
    unfold h_update_project_admin in H. lstep H as p1 H1. destruct p1 as [k p]. lstep H as u1 H2.
    unfold ret in H. inversion H; subst s' r evs; clear H.
    apply project_by_id_Some in H1. destruct H1 as [Hk _].
    eapply ids_set_project; [exact Hk | reflexivity | reflexivity | exact Hinv].
  - (* UpdateProjectMetadata *)
    unfold h_update_project_metadata in H. lstep H as p1 H1. destruct p1 as [k p]. lstep H as u1 H2.
    unfold ret in H. inversion H; subst s' r evs; clear H.
    apply project_by_id_Some in H1. destruct H1 as [Hk _].
    eapply ids_set_project; [exact Hk | reflexivity | reflexivity | exact Hinv].
  - (* UpdateBatchMetadata *)
    apply h_update_batch_metadata_shape in H. destruct H as (bk & ba & Hba & ->).
    eapply ids_set_batch; [exact Hba | reflexivity | reflexivity | reflexivity | reflexivity | exact Hinv].
  - (* Bridge *)
    apply h_bridge_shape in H. destruct H as (_ & _ & _ & _ & H).
    eapply ids_itab; [apply rest_itab; exact H | exact Hinv].
  - (* BridgeReceive *)
    apply h_bridge_receive_shape in H.
    destruct H as (o & bb & pp & ck & cl & _ & _ & _ & _ & _ & [Hmint|Hcreate]).
    + destruct Hmint as (bk & bc & ba0 & pj0 & r1 & e1 & _ & _ & _ & Hm1 & _ & _).
      eapply ids_mint_step; eassumption.
    + destruct Hcreate as (_ & s1 & pid & d & e2 & Hproj & Hcb & _ & _).
      assert (Hinv1 : Inv_ids s1).
      { destruct Hproj as [(k & pj0 & _ & -> & _)|(_ & e3 & Hcp)]; [exact Hinv|].
        eapply ids_create_project_step; eassumption. }
      eapply ids_create_batch_step; eassumption.
  - (* AddCreditType *)
    unfold h_add_credit_type in H. lstep H as u1 H1. lstep H as u2 H2. lstep H as u3 H3.
    unfold ret in H. inversion H; subst s' r evs; clear H.
    cbn [validate_basic] in Hvb. rewrite !andb_true_iff in Hvb.
    destruct Hvb as [[[[[_ Hv] _] _] _] _].
    apply ids_add_credit_type; assumption.
  - unfold h_set_allowlist in H. lstep H as u1 H1. unfold ret in H. inversion H; subst; clear H. exact Hinv.
  - unfold h_add_class_creator in H. lstep H as u1 H1. lstep H as u2 H2. unfold ret in H. inversion H; subst; clear H. exact Hinv.
  - unfold h_remove_class_creator in H. lstep H as u1 H1. lstep H as u2 H2. unfold ret in H. inversion H; subst; clear H. exact Hinv.
  - unfold h_update_class_fee in H. lstep H as u1 H1. unfold ret in H. inversion H; subst; clear H. exact Hinv.
  - unfold h_add_allowed_bridge_chain in H. lstep H as u1 H1. lstep H as u2 H2. unfold ret in H. inversion H; subst; clear H. exact Hinv.
  - unfold h_remove_allowed_bridge_chain in H. lstep H as u1 H1. unfold ret in H. inversion H; subst; clear H. exact Hinv.
  - (* BurnRegen *)
    unfold h_burn_regen in H. lstep H as amt H1. lstep H as u1 H2. lstep H as cns H3. lstep H as s1 Hs1. lstep H as s2 Hs2.
    unfold ret in H. inversion H; subst; clear H.
    eapply ids_itab; [|exact Hinv]. apply nonbank_itab.
    eapply nonbank_eq_trans; [eapply send_coins_nonbank; exact Hs1 | eapply burn_coins_nonbank; exact Hs2].
  - (* BankSend *)
    destruct (blocked_addr to); [discriminate|]. lstep H as s1 Hs1. unfold ret in H. inversion H; subst; clear H.
    eapply ids_itab; [|exact Hinv]. apply nonbank_itab. eapply send_coins_nonbank; exact Hs1.
  - discriminate H.
Qed.

(* the transaction rule: a rejected message changes nothing, so it consumes no sequence number *)
Theorem failed_consumes_nothing e s m :
  (validate_basic m = false \/ exists err, handle e s m = LErr err) -> (deliver e s m).1 = s.
Proof.
  intros [Hv|(err & He)]; unfold deliver.
  - rewrite Hv. reflexivity.
  - destruct (validate_basic m); [|reflexivity]. rewrite He. reflexivity.
Qed.

Corollary deliver_preserves_ids e s m :
  is_base_module_msg m = true -> Inv_ids s -> Inv_ids (deliver e s m).1.
Proof.
  intros Hm Hinv. unfold deliver. destruct (validate_basic m) eqn:V; [|exact Hinv].
  destruct (handle e s m) as [[[s' r] evs]|err] eqn:H; cbn [fst]; [|exact Hinv].
  eapply base_preserves_ids; eassumption.
Qed.

(* an empty-tables genesis (any credit types with valid abbreviations) satisfies the invariant *)
Lemma Inv_ids_empty s :
  classes s = ∅ -> projects s = ∅ -> batches s = ∅ -> class_sequences s = ∅ -> project_sequences s = ∅ ->
  batch_sequences s = ∅ -> class_issuers s = ∅ -> batch_contracts s = ∅ ->
  (forall ct, is_Some (credit_types s !! ct) -> validate_credit_type_abbrev ct = true) -> Inv_ids s.
Proof.
  intros E1 E2 E3 E4 E5 E6 E7 E8 Hv. unfold Inv_ids. rewrite E1, E2, E3, E4, E5, E6, E7, E8.
  assert (Hnum : forall {K} `{Countable K} {V} (par : V -> K) isid, numbered par isid (∅ : gmap N V) (∅ : gmap K N)).
  { intros K0 He Hc V0 par isid. split.
    - intros k v Hk. rewrite lookup_empty in Hk. discriminate.
    - intros pk n Hn. unfold seq_next in Hn. rewrite lookup_empty in Hn. cbn in Hn. lia. }
  assert (Hu : forall {V} (f : V -> bytes), uniq_by f (∅ : gmap N V)).
  { intros V0 f k1 k2 v1 v2 Hk. rewrite lookup_empty in Hk. discriminate. }
  assert (Hk : forall {V} mx, keys_le (∅ : gmap N V) mx).
  { intros V0 mx k [x Hx]. rewrite lookup_empty in Hx. discriminate. }
  assert (Hp : forall {K} `{Countable K}, seq_pos (∅ : gmap K N)).
  { intros K0 He Hc k n Hkn. rewrite lookup_empty in Hkn. discriminate. }
  split; [|split; [|split]].
  - split; [apply Hu|]. split; [apply Hnum|]. split; [apply Hk|]. split; [apply Hp|]. split; [|exact Hv].
    intros k c Hkc. rewrite lookup_empty in Hkc. discriminate.
  - split; [apply Hu|]. split; [apply Hnum|]. split; [apply Hk | apply Hp].
  - split; [apply Hu|]. split; [apply Hnum|]. split; [apply Hk | apply Hp].
  - split.
    + intros ck a Hin. apply elem_of_empty in Hin. contradiction.
    + intros k c Hkc. rewrite lookup_empty in Hkc. discriminate.
Qed.
