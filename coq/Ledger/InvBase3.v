(* Base-module credit handlers, part 3: the handlers, and the frame property (no invariant needed):
   they never touch baskets, basket balances, sell orders, or the bank.  Proof file. *)
From stdpp Require Import gmap.
From RecordUpdate Require Import RecordSet.
From Coq Require Import ZArith NArith List Bool Lia Strings.Byte.
Require Import Regen.Base.Bytes Regen.Base.Calendar Regen.Dec.Dec Regen.Dec.DecIface.
Require Import Regen.Ledger.Types Regen.Ledger.Msgs Regen.Ledger.Orm Regen.Ledger.BaseMsgs
               Regen.Ledger.BasketMsgs Regen.Ledger.MarketMsgs Regen.Ledger.Step
               Regen.Ledger.Amount Regen.Ledger.MapSum Regen.Ledger.Inv Regen.Ledger.InvTactics
               Regen.Ledger.InvBaseLib Regen.Ledger.InvBase1 Regen.Ledger.InvBase2.
Import ListNotations RecordSetNotations.
Local Open Scope Z_scope.

(* ------------------------------------------------------------------ *)
(* Send, Retire, Cancel, Bridge                                        *)
(* ------------------------------------------------------------------ *)

Lemma h_send_ok e s sender recipient cs s' r evs :
  Inv_core s -> h_send e s sender recipient cs = LOk (s', r, evs) -> step_ok s s'.
Proof.
  intros Hinv H. unfold h_send in H. lstep H as s1 Hs1. unfold ret in H. inversion H; subst s' r evs.
  eapply lfold_step_ok; [|exact Hinv | exact Hs1].
  intros s0 x s0' H0 Hx. eapply send_one_ok; eassumption.
Qed.

Lemma h_retire_ok e s owner cs s' r evs :
  Inv_core s -> h_retire e s owner cs = LOk (s', r, evs) -> step_ok s s'.
Proof.
  intros Hinv H. unfold h_retire in H. lstep H as s1 Hs1. unfold ret in H. inversion H; subst s' r evs.
  eapply lfold_step_ok; [|exact Hinv | exact Hs1].
  intros s0 x s0' H0 Hx. eapply retire_one_ok; eassumption.
Qed.

Lemma h_cancel_ok e s owner cs s' r evs :
  Inv_core s -> h_cancel e s owner cs = LOk (s', r, evs) -> step_ok s s'.
Proof.
  intros Hinv H. unfold h_cancel in H. lstep H as s1 Hs1. unfold ret in H. inversion H; subst s' r evs.
  eapply lfold_step_ok; [|exact Hinv | exact Hs1].
  intros s0 x s0' H0 Hx. eapply cancel_one_ok; eassumption.
Qed.

Lemma h_bridge_ok e s owner target recipient cs s' r evs :
  Inv_core s -> h_bridge e s owner target recipient cs = LOk (s', r, evs) -> step_ok s s'.
Proof.
  intros Hinv H. unfold h_bridge in H. lstep H as u Hu. lstep H as s1 Hs1. lstep H as evs1 Hevs.
  inversion H; subst s' r evs.
  eapply lfold_step_ok; [|exact Hinv | exact Hs1].
  intros s0 x s0' H0 Hx. eapply cancel_one_ok; eassumption.
Qed.

(* ------------------------------------------------------------------ *)
(* MintBatchCredits                                                    *)
(* ------------------------------------------------------------------ *)

(* C02: the total of one open batch, whose issuer signed, grows by the issued amount *)
Definition minted (issuer : addr) (iss : list issuance) (s s' : state) : Prop :=
  exists bk ba, batches s !! bk = Some ba /\ ba_open ba = true /\ ba_issuer ba = issuer /\
                totals_mint bk (issued_units iss) s s'.

Definition minted_denom (issuer : addr) (denom : bytes) (iss : list issuance) (s s' : state) : Prop :=
  exists bk ba, batches s !! bk = Some ba /\ ba_denom ba = denom /\ ba_open ba = true /\ ba_issuer ba = issuer /\
                totals_mint bk (issued_units iss) s s'.

(* C02: exactly one new supply row, for the next batch key, whose total is the issued amount *)
Definition created (iss : list issuance) (s s' : state) : Prop :=
  totals_create (batch_seq_id s + 1)%N (issued_units iss) s s' /\
  batch_seq_id s' = (batch_seq_id s + 1)%N.

Lemma minted_denom_minted issuer denom iss s s' : minted_denom issuer denom iss s s' -> minted issuer iss s s'.
Proof. intros (bk & ba & H1 & _ & H2 & H3 & H4). exists bk, ba. auto. Qed.

Lemma h_mint_batch_credits_ok e s issuer denom iss otx s' r evs :
  Inv_core s -> h_mint_batch_credits e s issuer denom iss otx = LOk (s', r, evs) ->
  Inv_core s' /\ base_rel s s' /\ minted_denom issuer denom iss s s'.
Proof.
  intros Hinv H. unfold h_mint_batch_credits in H.
  lstep H as p Hp. destruct p as [bk ba]. cbv beta iota in H.
  lstep H as u1 Hopen. lstep H as u2 Hiss. lstep H as pj Hpj. lstep H as o Ho.
  lstep H as s1 Hs1. lstep H as ct Hct. lstep H as s2 Hs2.
  unfold ret in H. inversion H; subst s' r evs; clear H.
  apply batch_by_denom_Some in Hp. destruct Hp as [Hba Hden].
  apply N.eqb_eq in Hiss.
  apply insert_origin_tx_core_eq in Hs1.
  pose proof (core_eq_inv _ _ Hs1 Hinv) as Hinv1.
  rewrite (credit_type_of_denom_prec _ _ _ (proj1 Hinv1) Hct) in Hs2.
  assert (Hbk1 : is_Some (batches s1 !! bk)).
  { destruct Hs1 as (_ & _ & _ & E4 & _). rewrite E4, Hba. eauto. }
  destruct (mint_loop_ok bk iss s1 s2 Hinv1 Hbk1 Hs2) as (Hinv2 & Hrel2 & Htot2).
  split; [exact Hinv2|]. split.
  - eapply base_rel_trans; [apply base_rel_core_eq; exact Hs1 | exact Hrel2].
  - exists bk, ba. split; [exact Hba|]. split; [exact Hden|]. split; [exact Hopen|]. split; [exact Hiss|].
    eapply totals_mint_eq_l; [|exact Htot2]. apply Hs1.
Qed.

(* ------------------------------------------------------------------ *)
(* BridgeReceive                                                       *)
(* ------------------------------------------------------------------ *)

Definition bridge_issuance (bb : br_batch) : list issuance :=
  [{| is_recipient := brb_recipient bb; is_tradable := brb_amount bb; is_retired := [];
      is_jurisdiction := []; is_reason := [] |}].

Lemma totals_create_eq_l bk n s1 s2 s3 :
  supplies s2 = supplies s1 -> totals_create bk n s2 s3 -> totals_create bk n s1 s3.
Proof. intros E. unfold totals_create. rewrite E. auto. Qed.

Lemma h_bridge_receive_ok e s issuer class_id pjr bar otx s' r evs :
  Inv_core s -> h_bridge_receive e s issuer class_id pjr bar otx = LOk (s', r, evs) ->
  Inv_core s' /\ base_rel s s' /\
  exists bb, bar = Some bb /\
    (minted issuer (bridge_issuance bb) s s' \/ created (bridge_issuance bb) s s').
Proof.
  intros Hinv H. unfold h_bridge_receive in H.
  lstep H as o Ho. lstep H as bb Hbb. lstep H as pp Hpp. lstep H as u1 Hu1.
  lstep H as p Hp. destruct p as [ck cl]. cbv beta iota zeta in H.
  fold (bridge_issuance bb) in H.
  destruct (map_find _ (batch_contracts s)) as [[bk bc]|] eqn:Ef.
  - lstep H as ba Hba. lstep H as pj Hpj. lstep H as res Hres. destruct res as [[s1 r1] e1].
    cbv beta iota in H. inversion H; subst s' r evs; clear H.
    destruct (h_mint_batch_credits_ok _ _ _ _ _ _ _ _ _ Hinv Hres) as (Hinv1 & Hrel1 & Hm).
    split; [exact Hinv1|]. split; [exact Hrel1|].
    exists bb. split; [exact Hbb|]. left. eapply minted_denom_minted. exact Hm.
  - lstep H as p1 Hp1. destruct p1 as [s1 project_id]. cbv beta iota in H.
    lstep H as res Hres. destruct res as [[s2 r2] e2]. cbv beta iota in H.
    destruct r2; try discriminate H. inversion H; subst s' r evs; clear H.
    assert (Hs1 : core_eq s s1).
    { destruct (map_find _ (projects s)) as [[k pj]|].
      - inversion Hp1; subst s1. apply core_eq_refl.
      - lstep Hp1 as res1 Hres1. destruct res1 as [[s3 r3] e3]. cbv beta iota in Hp1.
        destruct r3; try discriminate Hp1. inversion Hp1; subst s3.
        eapply h_create_project_core_eq. exact Hres1. }
    pose proof (core_eq_inv _ _ Hs1 Hinv) as Hinv1.
    destruct (h_create_batch_ok _ _ _ _ _ _ _ _ _ _ _ _ _ Hinv1 Hres) as (Hinv2 & Hrel2 & Htot2 & Hseq2).
    pose proof Hs1 as (E1 & E2 & E3 & E4 & E5 & Erest).
    split; [exact Hinv2|]. split.
    + eapply base_rel_trans; [apply base_rel_core_eq; exact Hs1 | exact Hrel2].
    + exists bb. split; [exact Hbb|]. right. unfold created. rewrite <- E5. split; [|exact Hseq2].
      eapply totals_create_eq_l; [exact E3 | exact Htot2].
Qed.

(* ------------------------------------------------------------------ *)
(* frame property, without any invariant                               *)
(* ------------------------------------------------------------------ *)

Definition frame5 (s s' : state) : Prop :=
  baskets s' = baskets s /\ basket_balances s' = basket_balances s /\ bank s' = bank s /\
  bank_supply s' = bank_supply s /\ sell_orders s' = sell_orders s.

Lemma frame5_refl s : frame5 s s.
Proof. unfold frame5. repeat split. Qed.

Lemma frame5_trans s1 s2 s3 : frame5 s1 s2 -> frame5 s2 s3 -> frame5 s1 s3.
Proof.
  intros (A1 & A2 & A3 & A4 & A5) (B1 & B2 & B3 & B4 & B5). unfold frame5.
  split; [congruence|]. split; [congruence|]. split; [congruence|]. split; congruence.
Qed.

Lemma lfold_frame5 {B} (f : state -> B -> lres state) :
  (forall s x s', f s x = LOk s' -> frame5 s s') ->
  forall l s s', lfold f l s = LOk s' -> frame5 s s'.
Proof.
  intros Hstep l s s' Hl.
  destruct (lfold_rel f (fun _ => True) frame5) with (l := l) (a := s) (a' := s') as [_ Hr].
  - apply frame5_refl.
  - apply frame5_trans.
  - intros a x a' _ Hf. split; [exact I | eapply Hstep; exact Hf].
  - exact I.
  - exact Hl.
  - exact Hr.
Qed.

Lemma send_tradable_frame bk sender recipient amt s s' :
  send_tradable bk sender recipient amt s = LOk s' -> frame5 s s'.
Proof.
  unfold send_tradable. intros H.
  lstep H as sb Hsb. lstep H as nt Hnt. lstep H as s1 Hs1. lstep H as rt Hrt.
  apply update_balance_ok' in Hs1. destruct Hs1 as [-> _].
  inversion H; subst s'. unfold frame5. repeat split.
Qed.

Lemma send_retired_frame bk sender recipient amt s s' :
  send_retired bk sender recipient amt s = LOk s' -> frame5 s s'.
Proof.
  unfold send_retired. intros H.
  lstep H as sb Hsb. lstep H as nt Hnt. lstep H as s1 Hs1. lstep H as rr Hrr.
  lstep H as su Hsu. lstep H as st Hst. lstep H as sr Hsr.
  apply update_balance_ok' in Hs1. destruct Hs1 as [-> _].
  apply update_supply_ok' in H. destruct H as [-> _]. unfold frame5. repeat split.
Qed.

Lemma send_one_frame sender recipient s c s' : send_one sender recipient s c = LOk s' -> frame5 s s'.
Proof.
  unfold send_one. intros H.
  lstep H as p Hp. destruct p as [bk ba]. cbv beta iota in H.
  lstep H as ct Hct. cbv zeta in H. lstep H as t Ht. lstep H as r Hr. lstep H as s1 Hs1.
  assert (H1 : frame5 s s1).
  { destruct (is_zero t); [inversion Hs1; subst s1; apply frame5_refl|].
    eapply send_tradable_frame; exact Hs1. }
  eapply frame5_trans; [exact H1|].
  destruct (is_zero r); [inversion H; subst s'; apply frame5_refl|].
  eapply send_retired_frame; exact H.
Qed.

Lemma retire_one_frame owner s c s' : retire_one owner s c = LOk s' -> frame5 s s'.
Proof.
  unfold retire_one. intros H.
  lstep H as p Hp. destruct p as [bk ba]. cbv beta iota in H.
  lstep H as ct Hct. lstep H as ub Hub. lstep H as amt Hamt. lstep H as nt Hnt. lstep H as nr Hnr.
  lstep H as su Hsu. lstep H as sr Hsr. lstep H as st Hst. lstep H as s1 Hs1.
  apply update_balance_ok' in Hs1. destruct Hs1 as [-> _].
  apply update_supply_ok' in H. destruct H as [-> _]. unfold frame5. repeat split.
Qed.

Lemma cancel_one_frame owner s c s' : cancel_one owner s c = LOk s' -> frame5 s s'.
Proof.
  unfold cancel_one. intros H.
  lstep H as p Hp. destruct p as [bk ba]. cbv beta iota in H.
  lstep H as ct Hct. lstep H as ub Hub. lstep H as su Hsu. lstep H as amt Hamt. lstep H as nt Hnt.
  lstep H as st Hst. lstep H as sc Hsc. lstep H as s1 Hs1.
  apply update_balance_ok' in Hs1. destruct Hs1 as [-> _].
  apply update_supply_ok' in H. destruct H as [-> _]. unfold frame5. repeat split.
Qed.

Lemma mint_issue_frame p bk s i s' : mint_issue p bk s i = LOk s' -> frame5 s s'.
Proof.
  unfold mint_issue. intros H.
  lstep H as t Ht. lstep H as r Hr. cbv zeta in H.
  lstep H as su Hsu. lstep H as p1 Hp1. destruct p1 as [br sr]. cbv beta iota in H.
  lstep H as p2 Hp2. destruct p2 as [bt st]. cbv beta iota in H.
  apply update_supply_ok' in H. destruct H as [-> _]. unfold frame5. repeat split.
Qed.

Lemma create_batch_issue_frame p bk acc i acc' :
  create_batch_issue p bk acc i = LOk acc' -> frame5 acc.1.1 acc'.1.1.
Proof.
  destruct acc as [[s t] r]. unfold create_batch_issue. intros H.
  lstep H as t0 Ht0. lstep H as r0 Hr0. cbv zeta in H.
  lstep H as tb Htb. lstep H as rb Hrb. lstep H as t1 Ht1. lstep H as r1 Hr1.
  inversion H; subst acc'. cbn [fst snd]. unfold frame5. repeat split.
Qed.

Lemma create_loop_frame p bk : forall iss acc acc',
  lfold (create_batch_issue p bk) iss acc = LOk acc' -> frame5 acc.1.1 acc'.1.1.
Proof.
  induction iss as [|i iss IH]; intros acc acc' Hl; cbn [lfold] in Hl.
  - inversion Hl; subst acc'. apply frame5_refl.
  - apply lbind_ok in Hl. destruct Hl as (a1 & H1 & H2).
    eapply frame5_trans; [eapply create_batch_issue_frame; exact H1 | eapply IH; exact H2].
Qed.

Lemma core_eq_frame5 s s' : core_eq s s' -> frame5 s s'.
Proof.
  intros (E1 & E2 & E3 & E4 & E5 & E6 & E7 & E8 & E9 & E10 & E11 & E12). unfold frame5. auto.
Qed.

Lemma h_create_batch_frame e s issuer project_id iss metadata start_ end_ open otx s' r evs :
  h_create_batch e s issuer project_id iss metadata start_ end_ open otx = LOk (s', r, evs) -> frame5 s s'.
Proof.
  intros H. unfold h_create_batch in H.
  lstep H as p Hp. destruct p as [pk pj]. cbv beta iota in H.
  lstep H as cl Hcl. lstep H as u1 Hu1. cbv zeta in H.
  lstep H as sd Hsd. lstep H as ed Hed. lstep H as u2 Hu2. lstep H as ct Hct.
  lstep H as acc Hloop. destruct acc as [[s2 tsum] rsum]. cbv beta iota in H.
  lstep H as m Hm. lstep H as s3 Hotx.
  unfold ret in H. inversion H; subst s' r evs; clear H.
  apply create_loop_frame in Hloop. cbn [fst snd] in Hloop.
  apply origin_tx_block_core_eq in Hotx. apply core_eq_frame5 in Hotx.
  eapply frame5_trans; [|exact Hotx].
  eapply frame5_trans; [|eapply frame5_trans; [exact Hloop|]]; unfold frame5; repeat split.
Qed.

Lemma h_mint_batch_credits_frame e s issuer denom iss otx s' r evs :
  h_mint_batch_credits e s issuer denom iss otx = LOk (s', r, evs) -> frame5 s s'.
Proof.
  intros H. unfold h_mint_batch_credits in H.
  lstep H as p Hp. destruct p as [bk ba]. cbv beta iota in H.
  lstep H as u1 Hopen. lstep H as u2 Hiss. lstep H as pj Hpj. lstep H as o Ho.
  lstep H as s1 Hs1. lstep H as ct Hct. lstep H as s2 Hs2.
  unfold ret in H. inversion H; subst s' r evs; clear H.
  apply insert_origin_tx_core_eq in Hs1. apply core_eq_frame5 in Hs1.
  eapply frame5_trans; [exact Hs1|].
  eapply lfold_frame5; [|exact Hs2]. intros s0 x s0' Hx. eapply mint_issue_frame; exact Hx.
Qed.

Lemma h_bridge_receive_frame e s issuer class_id pjr bar otx s' r evs :
  h_bridge_receive e s issuer class_id pjr bar otx = LOk (s', r, evs) -> frame5 s s'.
Proof.
  intros H. unfold h_bridge_receive in H.
  lstep H as o Ho. lstep H as bb Hbb. lstep H as pp Hpp. lstep H as u1 Hu1.
  lstep H as p Hp. destruct p as [ck cl]. cbv beta iota zeta in H.
  destruct (map_find _ (batch_contracts s)) as [[bk bc]|] eqn:Ef.
  - lstep H as ba Hba. lstep H as pj Hpj. lstep H as res Hres. destruct res as [[s1 r1] e1].
    cbv beta iota in H. inversion H; subst s' r evs; clear H.
    eapply h_mint_batch_credits_frame; exact Hres.
  - lstep H as p1 Hp1. destruct p1 as [s1 project_id]. cbv beta iota in H.
    lstep H as res Hres. destruct res as [[s2 r2] e2]. cbv beta iota in H.
    destruct r2; try discriminate H. inversion H; subst s' r evs; clear H.
    assert (Hs1 : frame5 s s1).
    { destruct (map_find _ (projects s)) as [[k pj]|].
      - inversion Hp1; subst s1. apply frame5_refl.
      - lstep Hp1 as res1 Hres1. destruct res1 as [[s3 r3] e3]. cbv beta iota in Hp1.
        destruct r3; try discriminate Hp1. inversion Hp1; subst s3.
        apply core_eq_frame5. eapply h_create_project_core_eq. exact Hres1. }
    eapply frame5_trans; [exact Hs1|]. eapply h_create_batch_frame; exact Hres.
Qed.

Lemma h_seal_batch_frame e s issuer denom s' r evs :
  h_seal_batch e s issuer denom = LOk (s', r, evs) -> frame5 s s'.
Proof.
  intros H. unfold h_seal_batch in H.
  lstep H as p Hp. destruct p as [bk ba]. cbv beta iota in H. lstep H as u Hu.
  destruct (negb (ba_open ba)); unfold ret in H; inversion H; subst s' r evs; unfold frame5; repeat split.
Qed.

Lemma h_update_batch_metadata_frame e s issuer denom md s' r evs :
  h_update_batch_metadata e s issuer denom md = LOk (s', r, evs) -> frame5 s s'.
Proof.
  intros H. unfold h_update_batch_metadata in H.
  lstep H as p Hp. destruct p as [bk ba]. cbv beta iota in H. lstep H as u Hu. lstep H as u2 Hu2.
  unfold ret in H; inversion H; subst s' r evs; unfold frame5; repeat split.
Qed.
